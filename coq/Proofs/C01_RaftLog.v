(* C01 — lemmas about the Raft log model (Model/C01_RaftLog.v). *)
From V Require Import Base.Common Base.CommonLemmas Model.C01_RaftLog.
Open Scope N_scope.

(* ------------------------------------------------------------------ *)
(* sorted pinsets                                                      *)
(* ------------------------------------------------------------------ *)
Definition lb (k : N) (m : pinset) : Prop := forall k' v, In (k', v) m -> k < k'.
Inductive sorted : pinset -> Prop :=
| sorted_nil : sorted []
| sorted_cons k v m : sorted m -> lb k m -> sorted ((k, v) :: m).

Lemma lb_sget_none k m : lb k m -> sget k m = None.
Proof.
  unfold sget. induction m as [|[k' v'] r IH]; intros H; simpl; auto.
  assert (Hk : k < k') by (apply (H k' v'); now left).
  destruct (N.eqb_spec k k'); [lia|]. apply IH. intros k2 v2 Hin. apply (H k2 v2). now right.
Qed.

Lemma lb_weaken k k' m : k' < k -> lb k m -> lb k' m.
Proof. intros Hlt H k2 v2 Hin. specialize (H k2 v2 Hin). lia. Qed.

Lemma sget_sput_same k v m : sget k (sput k v m) = Some v.
Proof.
  unfold sget. induction m as [|[k' v'] r IH]; simpl.
  - now rewrite N.eqb_refl.
  - destruct (N.ltb_spec k k'); simpl.
    + now rewrite N.eqb_refl.
    + destruct (N.eqb_spec k k'); simpl.
      * now rewrite N.eqb_refl.
      * destruct (N.eqb_spec k k'); [contradiction|]. exact IH.
Qed.

Lemma sget_sput_other k k' v m : k <> k' -> sget k (sput k' v m) = sget k m.
Proof.
  unfold sget. intros Hn. induction m as [|[k2 v2] r IH]; simpl.
  - destruct (N.eqb_spec k k'); [contradiction|reflexivity].
  - destruct (N.ltb_spec k' k2); simpl.
    + destruct (N.eqb_spec k k'); [contradiction|reflexivity].
    + destruct (N.eqb_spec k' k2); simpl.
      * subst k2. destruct (N.eqb_spec k k'); [contradiction|reflexivity].
      * destruct (N.eqb_spec k k2); auto.
Qed.

Lemma sget_sdel_other k k' m : k <> k' -> sget k (sdel k' m) = sget k m.
Proof.
  unfold sget. intros Hn. induction m as [|[k2 v2] r IH]; simpl; auto.
  destruct (N.ltb_spec k' k2); simpl; auto.
  destruct (N.eqb_spec k' k2); simpl.
  - subst k2. destruct (N.eqb_spec k k'); [contradiction|reflexivity].
  - destruct (N.eqb_spec k k2); auto.
Qed.

Lemma sget_sdel_same k m : sorted m -> sget k (sdel k m) = None.
Proof.
  unfold sget. induction 1 as [|k' v' r Hs IH Hlb]; simpl; auto.
  destruct (N.ltb_spec k k'); simpl.
  - destruct (N.eqb_spec k k'); [lia|]. apply (lb_sget_none k r). eapply lb_weaken; eauto.
  - destruct (N.eqb_spec k k'); simpl.
    + subst k'. now apply lb_sget_none.
    + destruct (N.eqb_spec k k'); [contradiction|]. exact IH.
Qed.

Lemma in_sput k v m k2 v2 : In (k2, v2) (sput k v m) -> (k2 = k /\ v2 = v) \/ In (k2, v2) m.
Proof.
  induction m as [|[k' v'] r IH]; simpl.
  - intros [E|[]]. inversion E; auto.
  - destruct (N.ltb_spec k k') as [Hlt|Hge]; simpl.
    + intros [E|E]; [inversion E; auto|auto].
    + destruct (N.eqb_spec k k') as [Heq|Hne]; simpl.
      * intros [E|E]; [inversion E; auto|auto].
      * intros [E|E]; [auto|]. destruct (IH E); auto.
Qed.

Lemma in_sdel k m k2 v2 : In (k2, v2) (sdel k m) -> In (k2, v2) m.
Proof.
  induction m as [|[k' v'] r IH]; simpl; auto.
  destruct (N.ltb_spec k k') as [Hlt|Hge]; simpl; auto.
  destruct (N.eqb_spec k k') as [Heq|Hne]; simpl; auto.
  intros [E|E]; auto.
Qed.

Lemma sorted_sput k v m : sorted m -> sorted (sput k v m).
Proof.
  induction 1 as [|k' v' r Hs IH Hlb]; simpl.
  - constructor; [constructor|]. intros ? ? [].
  - destruct (N.ltb_spec k k') as [Hlt|Hge].
    + constructor; [now constructor|]. intros k2 v2 [E|E].
      * inversion E; subst; auto.
      * specialize (Hlb k2 v2 E). lia.
    + destruct (N.eqb_spec k k') as [Heq|Hne].
      * subst k'. now constructor.
      * constructor; auto. intros k2 v2 Hin. destruct (in_sput _ _ _ _ _ Hin) as [[-> _]|Hin']; [lia|eauto].
Qed.

Lemma sorted_sdel k m : sorted m -> sorted (sdel k m).
Proof.
  induction 1 as [|k' v' r Hs IH Hlb]; simpl; [constructor|].
  destruct (N.ltb_spec k k') as [Hlt|Hge]; [now constructor|].
  destruct (N.eqb_spec k k') as [Heq|Hne]; auto.
  constructor; auto. intros k2 v2 Hin. apply in_sdel in Hin. eauto.
Qed.

Lemma sorted_ext a : sorted a -> forall b, sorted b -> (forall k, sget k a = sget k b) -> a = b.
Proof.
  induction 1 as [|k v r Hs IH Hlb]; intros b Hb Hext.
  - destruct Hb as [|k' v' r' _ _]; auto. specialize (Hext k'). unfold sget in Hext. simpl in Hext.
    rewrite N.eqb_refl in Hext. discriminate.
  - destruct Hb as [|k' v' r' Hs' Hlb'].
    + specialize (Hext k). unfold sget in Hext. simpl in Hext. rewrite N.eqb_refl in Hext. discriminate.
    + assert (Hkk : k = k').
      { destruct (N.lt_trichotomy k k') as [Hlt|[Heq|Hgt]]; auto.
        - pose proof (Hext k) as E. unfold sget in E. simpl in E. rewrite N.eqb_refl in E.
          destruct (N.eqb_spec k k'); [lia|]. fold (sget k r') in E. rewrite (lb_sget_none k r') in E; [discriminate|].
          eapply lb_weaken; eauto.
        - pose proof (Hext k') as E. unfold sget in E. simpl in E. rewrite N.eqb_refl in E.
          destruct (N.eqb_spec k' k); [lia|]. fold (sget k' r) in E. rewrite (lb_sget_none k' r) in E; [discriminate|].
          eapply lb_weaken; eauto. }
      subst k'. pose proof (Hext k) as E. unfold sget in E. simpl in E. rewrite N.eqb_refl in E. inversion E; subst v'.
      f_equal. apply IH; auto. intros k2. specialize (Hext k2). unfold sget in Hext. simpl in Hext.
      destruct (N.eqb_spec k2 k); auto. subst k2.
      fold (sget k r). fold (sget k r'). rewrite (lb_sget_none k r), (lb_sget_none k r'); auto.
Qed.

(* ------------------------------------------------------------------ *)
(* ops, replay                                                         *)
(* ------------------------------------------------------------------ *)
Lemma sorted_apply_op s op : sorted s -> sorted (apply_op s op).
Proof. intros H. destruct op; simpl; auto using sorted_sput, sorted_sdel. Qed.

Lemma sorted_fold ops : forall s, sorted s -> sorted (fold_left apply_op ops s).
Proof. induction ops as [|op r IH]; simpl; auto. intros s H. apply IH. now apply sorted_apply_op. Qed.

Lemma sorted_replay ops : sorted (replay ops).
Proof. apply sorted_fold. constructor. Qed.

Lemma writes_spec c op : writes c op = true <-> op_key op = Some c.
Proof.
  unfold writes. destruct (op_key op) as [k|]; split; intros H; try discriminate.
  - apply N.eqb_eq in H. now subst.
  - inversion H. apply N.eqb_refl.
Qed.

Lemma sget_apply_op c s op : sorted s -> sget c (apply_op s op) = if writes c op then effect op else sget c s.
Proof.
  intros Hs. unfold writes. destruct op as [p|p|p| | |]; simpl; auto.
  - destruct (N.eqb_spec (p_cid p) c) as [->|Hn].
    + apply sget_sput_same.
    + apply sget_sput_other. congruence.
  - destruct (N.eqb_spec (p_cid p) c) as [->|Hn].
    + now apply sget_sdel_same.
    + apply sget_sdel_other. congruence.
Qed.

Lemma sget_fold c ops : forall s, sorted s ->
  sget c (fold_left apply_op ops s) = match lastw c ops with Some e => e | None => sget c s end.
Proof.
  induction ops as [|op r IH]; simpl; auto. intros s Hs.
  rewrite IH by now apply sorted_apply_op.
  destruct (lastw c r); auto. rewrite sget_apply_op by auto. destruct (writes c op); auto.
Qed.

Lemma replay_last_write_l c ops : sget c (replay ops) = match lastw c ops with Some e => e | None => None end.
Proof. unfold replay. rewrite sget_fold by constructor. reflexivity. Qed.

Lemma lastw_app c a b : lastw c (a ++ b) = match lastw c b with Some e => Some e | None => lastw c a end.
Proof.
  induction a as [|op r IH]; simpl.
  - destruct (lastw c b); auto.
  - rewrite IH. destruct (lastw c b); auto.
Qed.

Lemma lastw_none c l : lastw c l = None <-> existsb (writes c) l = false.
Proof.
  induction l as [|op r IH]; simpl; [tauto|].
  destruct (lastw c r) eqn:E.
  - split; [discriminate|]. intros H. apply orb_false_iff in H. destruct H as [_ H]. apply IH in H. discriminate.
  - destruct IH as [IH1 _]. rewrite (IH1 eq_refl), orb_false_r. destruct (writes c op); split; congruence.
Qed.

Lemma replay_app a b : replay (a ++ b) = fold_left apply_op b (replay a).
Proof. unfold replay. now rewrite fold_left_app. Qed.

(* ------------------------------------------------------------------ *)
(* list surgery on the log                                             *)
(* ------------------------------------------------------------------ *)
Lemma firstn_snoc_nth {A} (l : list A) a x : nth_error l a = Some x -> firstn (S a) l = firstn a l ++ [x].
Proof.
  revert a. induction l as [|y r IH]; intros [|a] H; simpl in *; try discriminate.
  - now inversion H.
  - f_equal. now apply IH.
Qed.

Lemma replay_step lg a op : nth_error lg a = Some op -> replay (firstn (S a) lg) = apply_op (replay (firstn a lg)) op.
Proof. intros H. rewrite (firstn_snoc_nth lg a op H), replay_app. reflexivity. Qed.

Lemma slice_nil a l : slice a a l = [].
Proof. unfold slice. now rewrite Nat.sub_diag. Qed.

Lemma skipn_nth_cons {A} (l : list A) a x : nth_error l a = Some x -> skipn a l = x :: skipn (S a) l.
Proof.
  revert a. induction l as [|y r IH]; intros [|a] H; simpl in *; try discriminate.
  - now inversion H.
  - now apply IH.
Qed.

Lemma slice_cons (l : list logop) a M op : nth_error l a = Some op -> (a < M)%nat -> slice a M l = op :: slice (S a) M l.
Proof.
  unfold slice. intros H Hlt. rewrite (skipn_nth_cons l a op H).
  replace (M - a)%nat with (S (M - S a)) by lia. reflexivity.
Qed.

Lemma firstn_plus {A} (l : list A) a b : firstn (a + b) l = firstn a l ++ firstn b (skipn a l).
Proof.
  revert l. induction a as [|a IH]; intros l; simpl; auto.
  destruct l as [|x r]; simpl.
  - now rewrite firstn_nil.
  - now rewrite IH.
Qed.

Lemma firstn_split_slice (l : list logop) a M : (a <= M)%nat -> firstn M l = firstn a l ++ slice a M l.
Proof.
  unfold slice. intros H. replace M with (a + (M - a))%nat at 1 by lia.
  apply firstn_plus.
Qed.

Lemma firstn_app_le {A} (l l' : list A) M : (M <= length l)%nat -> firstn M (l ++ l') = firstn M l.
Proof. intros H. rewrite firstn_app. replace (M - length l)%nat with O by lia. simpl. now rewrite app_nil_r. Qed.

Lemma slice_app_le (l l' : list logop) a M : (a <= M <= length l)%nat -> slice a M (l ++ l') = slice a M l.
Proof.
  unfold slice. intros H. rewrite skipn_app. replace (a - length l)%nat with O by lia. simpl.
  rewrite firstn_app. rewrite skipn_length. replace (M - a - (length l - a))%nat with O by lia. simpl. now rewrite app_nil_r.
Qed.

Lemma skipn_skipn' {A} (l : list A) x y : skipn x (skipn y l) = skipn (y + x) l.
Proof.
  revert l. induction y as [|y IH]; intros l; simpl; auto.
  destruct l as [|a r]; simpl; auto. now rewrite skipn_nil.
Qed.

Lemma slice_split (l : list logop) a b M : (a <= b <= M)%nat -> slice a M l = slice a b l ++ slice b M l.
Proof.
  unfold slice. intros H. replace (M - a)%nat with ((b - a) + (M - b))%nat by lia.
  rewrite firstn_plus, skipn_skipn'. replace (a + (b - a))%nat with b by lia. reflexivity.
Qed.

(* ------------------------------------------------------------------ *)
(* restoring a snapshot                                                *)
(* ------------------------------------------------------------------ *)
Lemma sorted_restore_merge snap : forall cur, sorted cur -> sorted (restore_merge cur snap).
Proof.
  unfold restore_merge. induction snap as [|[k v] r IH]; simpl; auto.
  intros cur H. apply IH. now apply sorted_sput.
Qed.

Lemma sget_cons c k v (r : pinset) : sget c ((k, v) :: r) = if c =? k then Some v else sget c r.
Proof. reflexivity. Qed.

Lemma sget_restore_merge c snap : sorted snap -> forall cur,
  sget c (restore_merge cur snap) = match sget c snap with Some v => Some v | None => sget c cur end.
Proof.
  unfold restore_merge. induction 1 as [|k v r Hs IH Hlb]; intros cur; simpl; auto.
  rewrite IH. rewrite sget_cons.
  destruct (N.eqb_spec c k) as [Heq|Hn].
  - subst c. rewrite (lb_sget_none k r Hlb). apply sget_sput_same.
  - destruct (sget c r); auto. now apply sget_sput_other.
Qed.

Lemma restore_onto_id cur c : sorted c -> restore_onto cur c = c.
Proof.
  intros Hc. unfold restore_onto. apply sorted_ext; auto.
  - apply sorted_restore_merge. constructor.
  - intros k. rewrite sget_restore_merge by auto. destruct (sget k c); auto.
Qed.

(* the merge alone (go-libp2p-raft's Restore without the wrapper) keeps what the snapshot does not mention: S1 *)
Lemma restore_merge_keeps c cur snap : sorted snap -> sget c snap = None -> sget c (restore_merge cur snap) = sget c cur.
Proof. intros Hs Hn. rewrite sget_restore_merge by auto. now rewrite Hn. Qed.

(* ------------------------------------------------------------------ *)
(* catching_up                                                         *)
(* ------------------------------------------------------------------ *)
Lemma catching_up_init lg : catching_up lg 0 [].
Proof. exists O. split; [lia|]. intros c. left. reflexivity. Qed.

Lemma catching_up_commit lg a s op : catching_up lg a s -> catching_up (lg ++ [op]) a s.
Proof.
  intros [M [HM H]]. exists M. split; [rewrite app_length; simpl; lia|].
  intros c. rewrite firstn_app_le by lia. rewrite slice_app_le by lia. apply H.
Qed.

Lemma catching_up_weaken lg l a s : (l <= a)%nat -> catching_up lg a s -> catching_up lg l s.
Proof.
  intros Hl [M [HM H]]. exists M. split; [lia|]. intros c. destruct (H c) as [E|E]; auto.
  right. rewrite (slice_split lg l a M) by lia. rewrite existsb_app, E. apply orb_true_r.
Qed.

Lemma catching_up_exact lg s : sorted s -> catching_up lg (length lg) s -> s = replay lg.
Proof.
  intros Hs [M [HM H]]. assert (M = length lg) by lia. subst M.
  apply sorted_ext; auto using sorted_replay. intros c. destruct (H c) as [E|E].
  - now rewrite firstn_all in E.
  - rewrite slice_nil in E. discriminate.
Qed.

Lemma catching_up_apply lg a s op : sorted s -> nth_error lg a = Some op ->
  catching_up lg a s -> catching_up lg (S a) (apply_op s op).
Proof.
  intros Hs Hn [M [HM H]].
  assert (Hlen : (a < length lg)%nat) by (apply nth_error_Some; congruence).
  destruct (Nat.eq_dec a M) as [->|Hne].
  - (* the replica was exactly at M: it moves to M+1 *)
    exists (S M). split; [lia|]. intros c. left.
    rewrite (replay_step lg M op Hn). rewrite !sget_apply_op by auto using sorted_replay.
    destruct (writes c op); auto. destruct (H c) as [E|E]; auto. rewrite slice_nil in E. discriminate.
  - exists M. split; [lia|]. intros c.
    destruct (existsb (writes c) (slice (S a) M lg)) eqn:Ex; [now right|]. left.
    rewrite sget_apply_op by auto.
    rewrite (firstn_split_slice lg a M) by lia. rewrite (slice_cons lg a M op Hn) by lia.
    rewrite replay_app. rewrite sget_fold by apply sorted_replay. simpl.
    apply lastw_none in Ex. rewrite Ex.
    destruct (writes c op) eqn:W; auto.
    destruct (H c) as [E|E].
    + rewrite E. rewrite (firstn_split_slice lg a M) by lia. rewrite (slice_cons lg a M op Hn) by lia.
      rewrite replay_app. rewrite sget_fold by apply sorted_replay. simpl. rewrite Ex, W. reflexivity.
    + rewrite (slice_cons lg a M op Hn) in E by lia. simpl in E. rewrite W in E. simpl in E.
      apply lastw_none in Ex. congruence.
Qed.

(* ------------------------------------------------------------------ *)
(* clean ops on a healthy replica are plain writes                     *)
(* ------------------------------------------------------------------ *)
Lemma apply_entry_clean op nd : clean_op op = true -> accepts op = true -> dirty nd = false -> crashed nd = false ->
  st (apply_entry op nd) = apply_op (st nd) op /\ applied (apply_entry op nd) = S (applied nd) /\
  dirty (apply_entry op nd) = false /\ crashed (apply_entry op nd) = false /\ incons (apply_entry op nd) = incons nd /\
  pending (apply_entry op nd) = pending nd /\ snaps (apply_entry op nd) = snaps nd /\ inited (apply_entry op nd) = true.
Proof.
  intros Hc Ha Hd Hcr. unfold apply_entry. rewrite Hcr.
  destruct op as [p|p|p| | |]; simpl in Hc, Ha; try discriminate.
  - apply negb_true_iff in Ha. rewrite Hc, Hd, Ha. simpl. tauto.
  - rewrite Hc. simpl. tauto.
  - rewrite Hc. simpl. tauto.
Qed.

Lemma apply_entry_calls op nd : clean_op op = true -> accepts op = true -> dirty nd = false -> crashed nd = false ->
  calls (apply_entry op nd) =
  match op with LPin p => track_of p :: calls nd | LUnpin p => untrack_of p :: calls nd | _ => calls nd end.
Proof.
  intros Hc Ha Hd Hcr. unfold apply_entry. rewrite Hcr.
  destruct op as [p|p|p| | |]; simpl in Hc, Ha; try discriminate.
  - apply negb_true_iff in Ha. rewrite Hc, Hd, Ha. reflexivity.
  - rewrite Hc. reflexivity.
  - rewrite Hc. reflexivity.
Qed.

(* ------------------------------------------------------------------ *)
(* upd / getn                                                          *)
(* ------------------------------------------------------------------ *)
Lemma Forall_upd (P : node -> Prop) f n l :
  Forall P l -> (forall x, nth_error l n = Some x -> P x -> P (f x)) -> Forall P (upd n f l).
Proof.
  revert n. induction l as [|y r IH]; intros n HF Hf; destruct n as [|n]; simpl; auto.
  - inversion HF as [|y' r' Hy Hr]; subst. constructor; [apply Hf; auto|assumption].
  - inversion HF as [|y' r' Hy Hr]; subst. constructor; [assumption|apply IH; auto].
Qed.

Lemma getn_nth n cl x : nth_error (nodes cl) n = Some x -> getn n cl = x.
Proof. intros H. unfold getn. now apply nth_error_nth. Qed.

Lemma getn_cases n cl : (exists x, nth_error (nodes cl) n = Some x /\ getn n cl = x) \/ (nth_error (nodes cl) n = None /\ getn n cl = node0).
Proof.
  destruct (nth_error (nodes cl) n) as [x|] eqn:E.
  - left. exists x. split; auto. now apply getn_nth.
  - right. split; auto. unfold getn. apply nth_overflow. now apply nth_error_None.
Qed.

Lemma nth_error_upd f n l m : nth_error (upd n f l) m = if Nat.eqb n m then option_map f (nth_error l m) else nth_error l m.
Proof.
  revert n m. induction l as [|y r IH]; intros n m; destruct n as [|n]; destruct m as [|m]; simpl; auto.
  - destruct (Nat.eqb n m); reflexivity.
Qed.

Lemma upd_length f n : forall l, length (upd n f l) = length l.
Proof. induction n as [|n IH]; intros [|x r]; cbn [upd length]; auto. Qed.
Lemma getn_upd_same lg f n l : getn n (mkcluster lg (upd n f l)) = match nth_error l n with Some x => f x | None => node0 end.
Proof. unfold getn. cbn [nodes]. destruct (nth_error l n) as [x|] eqn:E.
  - apply nth_error_nth. rewrite nth_error_upd, Nat.eqb_refl, E. reflexivity.
  - apply nth_overflow. rewrite upd_length. now apply nth_error_None. Qed.
Lemma getn_upd_fix lg f n l : f node0 = node0 -> getn n (mkcluster lg (upd n f l)) = f (nth n l node0).
Proof. intros H0. rewrite getn_upd_same. destruct (nth_error l n) as [x|] eqn:E.
  - now rewrite (nth_error_nth l n node0 E).
  - rewrite nth_overflow by (now apply nth_error_None). now rewrite H0. Qed.
Lemma getn_upd_other lg f n i l : n <> i -> getn i (mkcluster lg (upd n f l)) = nth i l node0.
Proof. intros H. unfold getn. cbn [nodes]. destruct (nth_error l i) as [x|] eqn:E.
  - rewrite (nth_error_nth l i node0 E). apply nth_error_nth. rewrite nth_error_upd.
    destruct (Nat.eqb_spec n i); [contradiction|exact E].
  - rewrite (nth_overflow l) by (now apply nth_error_None). apply nth_overflow. rewrite upd_length. now apply nth_error_None. Qed.


(* how the position of a replica moves *)
Lemma applied_apply_entry op nd : applied (apply_entry op nd) = applied nd \/ applied (apply_entry op nd) = S (applied nd).
Proof. unfold apply_entry. destruct (crashed nd); [now left|].
  destruct op as [p|p|p| | |]; cbn [applied];
    repeat match goal with |- context [if ?b then _ else _] => destruct b end; cbn [applied]; auto. Qed.
Lemma applied_moves_l cl e n :
  applied (getn n (step cl e)) = applied (getn n cl) \/ applied (getn n (step cl e)) = S (applied (getn n cl)) \/
  (exists src k s, e = MRestore n src k /\ nth_error (snaps (getn src cl)) k = Some s /\ applied (getn n (step cl e)) = fst s) \/
  (e = MRestart n /\ applied (getn n (step cl e)) = 0%nat).
Proof.
  destruct e as [op|m|m|m|m src k|m]; cbn [step].
  - left. destruct (accepts op); reflexivity.
  - destruct (nth_error (log cl) (applied (getn m cl))) as [op|]; [|now left].
    destruct (Nat.eq_dec m n) as [->|Hne]; [|left; now rewrite getn_upd_other].
    rewrite getn_upd_same. unfold getn. destruct (nth_error (nodes cl) n) as [x|] eqn:E; [|left; now rewrite nth_overflow by (now apply nth_error_None)].
    rewrite (nth_error_nth _ _ node0 E). destruct (applied_apply_entry op x) as [H|H]; auto.
  - left. destruct (Nat.eq_dec m n) as [->|Hne]; [|now rewrite getn_upd_other].
    rewrite getn_upd_same. unfold getn. destruct (nth_error (nodes cl) n) as [x|] eqn:E; [|now rewrite nth_overflow by (now apply nth_error_None)].
    rewrite (nth_error_nth _ _ node0 E). unfold snap_req. destruct (crashed x); reflexivity.
  - left. destruct (Nat.eq_dec m n) as [->|Hne]; [|now rewrite getn_upd_other].
    rewrite getn_upd_same. unfold getn. destruct (nth_error (nodes cl) n) as [x|] eqn:E; [|now rewrite nth_overflow by (now apply nth_error_None)].
    rewrite (nth_error_nth _ _ node0 E). unfold snap_persist. destruct (pending x); reflexivity.
  - destruct (nth_error (snaps (getn src cl)) k) as [s|] eqn:Es; [|now left].
    destruct (Nat.eq_dec m n) as [->|Hne]; [|left; now rewrite getn_upd_other].
    rewrite getn_upd_same. unfold getn. destruct (nth_error (nodes cl) n) as [x|] eqn:E; [|left; now rewrite nth_overflow by (now apply nth_error_None)].
    rewrite (nth_error_nth _ _ node0 E). destruct (Nat.eqb src n); [unfold restore|unfold install]; (destruct (crashed x); [now left|]);
      right; right; left; exists src, k, s; auto.
  - destruct (Nat.eq_dec m n) as [->|Hne]; [|left; now rewrite getn_upd_other].
    rewrite getn_upd_same. unfold getn. destruct (nth_error (nodes cl) n) as [x|] eqn:E; [|left; now rewrite nth_overflow by (now apply nth_error_None)].
    right. right. right. split; reflexivity.
Qed.

(* ------------------------------------------------------------------ *)
(* the invariant of clean, pinned schedules                            *)
(* ------------------------------------------------------------------ *)
Definition good_op (op : logop) : bool := clean_op op && accepts op.

Definition snap_good (lg : list logop) (s : nat * pinset) : Prop :=
  sorted (snd s) /\ (fst s <= length lg)%nat /\ catching_up lg (fst s) (snd s).

Record node_good (lg : list logop) (nd : node) : Prop := mk_node_good {
  g_dirty : dirty nd = false;
  g_crashed : crashed nd = false;
  g_incons : incons nd = false;
  g_sorted : sorted (st nd);
  g_applied : (applied nd <= length lg)%nat;
  g_pending : forall l, pending nd = Some l -> (l <= applied nd)%nat;
  g_catch : catching_up lg (applied nd) (st nd);
  g_snaps : Forall (snap_good lg) (snaps nd)
}.

Definition cl_good (cl : cluster) : Prop :=
  forallb good_op (log cl) = true /\ Forall (node_good (log cl)) (nodes cl).

Lemma snap_good_commit lg s op : snap_good lg s -> snap_good (lg ++ [op]) s.
Proof.
  intros [H1 [H2 H3]]. repeat split; auto.
  - rewrite app_length. simpl. lia.
  - now apply catching_up_commit.
Qed.

Lemma good_commit lg nd op : node_good lg nd -> node_good (lg ++ [op]) nd.
Proof.
  intros [H1 H2 H3 H4 H5 H6 H7 H8]. constructor; auto.
  - rewrite app_length. simpl. lia.
  - now apply catching_up_commit.
  - eapply Forall_impl; [|exact H8]. intros s Hs. now apply snap_good_commit.
Qed.

Lemma good_apply lg nd op : node_good lg nd -> nth_error lg (applied nd) = Some op -> good_op op = true ->
  node_good lg (apply_entry op nd).
Proof.
  intros [H1 H2 H3 H4 H5 H6 H7 H8] Hn Hg. apply andb_true_iff in Hg. destruct Hg as [Hc Ha].
  destruct (apply_entry_clean op nd Hc Ha H1 H2) as [E1 [E2 [E3 [E4 [E5 [E6 [E7 E8]]]]]]].
  assert (Hlen : (applied nd < length lg)%nat) by (apply nth_error_Some; congruence).
  constructor; auto.
  - congruence.
  - rewrite E1. now apply sorted_apply_op.
  - rewrite E2. lia.
  - intros l Hl. rewrite E6 in Hl. specialize (H6 l Hl). rewrite E2. lia.
  - rewrite E1, E2. now apply catching_up_apply.
  - now rewrite E7.
Qed.

Lemma good_snap_req lg nd : node_good lg nd -> node_good lg (snap_req nd).
Proof.
  intros [H1 H2 H3 H4 H5 H6 H7 H8]. unfold snap_req. rewrite H2. constructor; simpl; auto.
  intros l Hl. destruct (inited nd && negb (incons nd)); inversion Hl. lia.
Qed.

Lemma good_persist lg nd : node_good lg nd -> node_good lg (snap_persist nd).
Proof.
  intros G. pose proof G as [H1 H2 H3 H4 H5 H6 H7 H8]. unfold snap_persist.
  destruct (pending nd) as [l|] eqn:Hp; auto.
  constructor; simpl; auto.
  - intros l0 Hl0. discriminate.
  - apply Forall_app. split; auto. constructor; auto.
    specialize (H6 l eq_refl). repeat split; simpl; auto; try lia.
    eapply catching_up_weaken; eauto.
Qed.

(* in either direction: the label of the snapshot may be below what the replica had applied *)
Lemma good_restore lg nd s : node_good lg nd -> snap_good lg s -> (forall l, pending nd = Some l -> (l <= fst s)%nat) ->
  node_good lg (restore s nd).
Proof.
  intros [H1 H2 H3 H4 H5 H6 H7 H8] [S1 [S2 S3]] Hf. unfold restore. rewrite H2.
  constructor; simpl; auto.
  - now rewrite restore_onto_id.
  - now rewrite restore_onto_id.
Qed.

Lemma good_install lg nd s : node_good lg nd -> snap_good lg s -> (forall l, pending nd = Some l -> (l <= fst s)%nat) ->
  node_good lg (install s nd).
Proof.
  intros [H1 H2 H3 H4 H5 H6 H7 H8] [S1 [S2 S3]] Hf. unfold install. rewrite H2.
  constructor; simpl; auto.
  - now rewrite restore_onto_id.
  - now rewrite restore_onto_id.
  - apply Forall_app. split; auto. constructor; auto. repeat split; auto.
Qed.

Lemma good_restart lg nd : node_good lg nd -> node_good lg (restart nd).
Proof.
  intros [H1 H2 H3 H4 H5 H6 H7 H8]. unfold restart. constructor; simpl; auto.
  - constructor.
  - lia.
  - intros l Hl. discriminate.
  - apply catching_up_init.
Qed.

Lemma good_node0 : node_good [] node0.
Proof.
  constructor; simpl; auto.
  - constructor.
  - intros l Hl. discriminate.
  - apply catching_up_init.
Qed.

Lemma cl_good_init k : cl_good (init k).
Proof.
  split; [reflexivity|]. simpl. induction k as [|k IH]; simpl; constructor; auto using good_node0.
Qed.

Lemma step_good cl e : cl_good cl -> clean_ev e = true -> ev_pinned cl e = true -> cl_good (step cl e).
Proof.
  intros [HL HN] Hc Hf. destruct e as [op|n|n|n|n src k|n]; simpl in *.
  - destruct (accepts op) eqn:Ha; [|split; auto]. split; simpl.
    + rewrite forallb_app, HL. simpl. unfold good_op. now rewrite Hc, Ha.
    + eapply Forall_impl; [|exact HN]. intros nd. apply good_commit.
  - destruct (nth_error (log cl) (applied (getn n cl))) as [op|] eqn:Hn; [|split; auto].
    split; simpl; auto. apply Forall_upd; auto. intros x Hx Gx.
    rewrite (getn_nth n cl x Hx) in Hn. apply good_apply; auto.
    rewrite forallb_forall in HL. apply HL. eapply nth_error_In; eauto.
  - split; simpl; auto. apply Forall_upd; auto. intros x _ Gx. now apply good_snap_req.
  - split; simpl; auto. apply Forall_upd; auto. intros x _ Gx. now apply good_persist.
  - destruct (nth_error (snaps (getn src cl)) k) as [s|] eqn:Hs; [|split; auto].
    split; simpl; auto. apply Forall_upd; auto. intros x Hx Gx.
    rewrite (getn_nth n cl x Hx) in Hf.
    assert (Hsg : snap_good (log cl) s).
    { destruct (getn_cases src cl) as [[y [Hy Ey]]|[_ Ey]]; rewrite Ey in Hs.
      * rewrite Forall_forall in HN. specialize (HN y (nth_error_In _ _ Hy)).
        destruct HN as [_ _ _ _ _ _ _ G8]. rewrite Forall_forall in G8. apply G8. eapply nth_error_In; eauto.
      * simpl in Hs. destruct k; discriminate. }
    assert (Hpl : forall l, pending x = Some l -> (l <= fst s)%nat) by (intros l Hl; rewrite Hl in Hf; now apply Nat.leb_le).
    destruct (Nat.eqb src n); [apply good_restore|apply good_install]; auto.
  - split; simpl; auto. apply Forall_upd; auto. intros x _ Gx. now apply good_restart.
Qed.

Lemma run_good es : forall cl, cl_good cl -> forallb clean_ev es = true -> run_ok ev_pinned cl es = true -> cl_good (run cl es).
Proof.
  unfold run. induction es as [|e r IH]; intros cl G Hc Hf; simpl in *; auto.
  apply andb_true_iff in Hc. destruct Hc as [Hc1 Hc2]. apply andb_true_iff in Hf. destruct Hf as [Hf1 Hf2].
  apply IH; auto. now apply step_good.
Qed.

Lemma good_node k es n nd : forallb clean_ev es = true -> run_ok ev_pinned (init k) es = true ->
  nth_error (nodes (run (init k) es)) n = Some nd -> node_good (log (run (init k) es)) nd.
Proof.
  intros Hc Hf Hn. destruct (run_good es (init k) (cl_good_init k) Hc Hf) as [_ HN].
  rewrite Forall_forall in HN. apply HN. eapply nth_error_In; eauto.
Qed.

Lemma catching_up_l k es n nd : forallb clean_ev es = true -> run_ok ev_pinned (init k) es = true ->
  nth_error (nodes (run (init k) es)) n = Some nd ->
  catching_up (log (run (init k) es)) (applied nd) (st nd).
Proof. intros Hc Hf Hn. now destruct (good_node k es n nd Hc Hf Hn). Qed.

Lemma caught_up_exact_l k es n nd : forallb clean_ev es = true -> run_ok ev_pinned (init k) es = true ->
  nth_error (nodes (run (init k) es)) n = Some nd ->
  applied nd = length (log (run (init k) es)) -> st nd = replay (log (run (init k) es)).
Proof.
  intros Hc Hf Hn Ha. destruct (good_node k es n nd Hc Hf Hn) as [_ _ _ G4 _ _ G7 _].
  apply catching_up_exact; auto. now rewrite <- Ha.
Qed.

(* no crash, State() never errors: whatever is restored where and when (clean ops only) *)
Definition node_sane (nd : node) : Prop := dirty nd = false /\ crashed nd = false /\ incons nd = false.
Lemma step_sane cl e : forallb good_op (log cl) = true -> Forall node_sane (nodes cl) -> clean_ev e = true ->
  forallb good_op (log (step cl e)) = true /\ Forall node_sane (nodes (step cl e)).
Proof.
  intros HL HN Hc. destruct e as [op|n|n|n|n src k|n]; simpl in *.
  - destruct (accepts op) eqn:Ha; [|split; auto]. split; simpl; auto.
    rewrite forallb_app, HL. simpl. unfold good_op. now rewrite Hc, Ha.
  - destruct (nth_error (log cl) (applied (getn n cl))) as [op|] eqn:Hn; [|split; auto].
    split; simpl; auto. apply Forall_upd; auto. intros x Hx [G1 [G2 G3]].
    assert (Hg : good_op op = true) by (rewrite forallb_forall in HL; apply HL; eapply nth_error_In; eauto).
    apply andb_true_iff in Hg. destruct Hg as [Hcl Ha].
    destruct (apply_entry_clean op x Hcl Ha G1 G2) as [_ [_ [E3 [E4 [E5 _]]]]]. repeat split; congruence.
  - split; simpl; auto. apply Forall_upd; auto. intros x _ [G1 [G2 G3]]. unfold snap_req. rewrite G2. repeat split; auto.
  - split; simpl; auto. apply Forall_upd; auto. intros x _ [G1 [G2 G3]]. unfold snap_persist.
    destruct (pending x); repeat split; auto.
  - destruct (nth_error (snaps (getn src cl)) k) as [s|]; [|split; auto].
    split; simpl; auto. apply Forall_upd; auto. intros x _ [G1 [G2 G3]].
    destruct (Nat.eqb src n); [unfold restore|unfold install]; rewrite G2; repeat split; auto.
  - split; simpl; auto. apply Forall_upd; auto. intros x _ _. repeat split; auto.
Qed.
Lemma run_sane es : forall cl, forallb good_op (log cl) = true -> Forall node_sane (nodes cl) -> forallb clean_ev es = true ->
  Forall node_sane (nodes (run cl es)).
Proof.
  unfold run. induction es as [|e r IH]; intros cl HL HN Hc; simpl in *; auto.
  apply andb_true_iff in Hc. destruct Hc as [Hc1 Hc2]. destruct (step_sane cl e HL HN Hc1) as [HL' HN']. now apply IH.
Qed.
Lemma served_l k es n nd : forallb clean_ev es = true ->
  nth_error (nodes (run (init k) es)) n = Some nd -> crashed nd = false /\ view nd <> None.
Proof.
  intros Hc Hn. assert (H0 : Forall node_sane (nodes (init k))).
  { simpl. apply Forall_forall. intros x Hx. apply repeat_spec in Hx. subst x. repeat split; reflexivity. }
  pose proof (run_sane es (init k) eq_refl H0 Hc) as HN. rewrite Forall_forall in HN.
  destruct (HN nd (nth_error_In _ _ Hn)) as [_ [G2 G3]]. split; auto.
  unfold view. rewrite G3. destruct (inited nd); simpl; discriminate.
Qed.

(* atomic snapshots are pinned *)
Lemma atomic_pinned cl e : ev_atomic cl e = true -> ev_pinned cl e = true.
Proof. destruct e as [op|n|n|n|n src k|n]; simpl; auto. destruct (pending (getn n cl)); [discriminate|reflexivity]. Qed.
Lemma run_ok_impl (P Q : cluster -> mevent -> bool) : (forall cl e, P cl e = true -> Q cl e = true) ->
  forall es cl, run_ok P cl es = true -> run_ok Q cl es = true.
Proof.
  intros H. induction es as [|e r IH]; intros cl Hr; simpl in *; auto.
  apply andb_true_iff in Hr. destruct Hr as [H1 H2]. now rewrite (H _ _ H1), (IH _ H2).
Qed.

(* ------------------------------------------------------------------ *)
(* the exact invariant of schedules with atomic snapshots              *)
(* ------------------------------------------------------------------ *)
Definition snap_strict (lg : list logop) (s : nat * pinset) : Prop :=
  (fst s <= length lg)%nat /\ snd s = replay (firstn (fst s) lg).

Record node_strict (lg : list logop) (nd : node) : Prop := mk_node_strict {
  s_dirty : dirty nd = false;
  s_crashed : crashed nd = false;
  s_incons : incons nd = false;
  s_applied : (applied nd <= length lg)%nat;
  s_st : st nd = replay (firstn (applied nd) lg);
  s_pending : forall l, pending nd = Some l -> l = applied nd;
  s_snaps : Forall (snap_strict lg) (snaps nd)
}.

Definition cl_strict (cl : cluster) : Prop :=
  forallb good_op (log cl) = true /\ Forall (node_strict (log cl)) (nodes cl).

Lemma strict_commit lg nd op : node_strict lg nd -> node_strict (lg ++ [op]) nd.
Proof.
  intros [H1 H2 H3 H4 H5 H6 H7]. constructor; auto.
  - rewrite app_length. simpl. lia.
  - now rewrite firstn_app_le.
  - eapply Forall_impl; [|exact H7]. intros s [S1 S2]. split.
    + rewrite app_length. simpl. lia.
    + now rewrite firstn_app_le.
Qed.

Lemma strict_apply lg nd op : node_strict lg nd -> nth_error lg (applied nd) = Some op -> good_op op = true ->
  pending nd = None -> node_strict lg (apply_entry op nd).
Proof.
  intros [H1 H2 H3 H4 H5 H6 H7] Hn Hg Hp. apply andb_true_iff in Hg. destruct Hg as [Hc Ha].
  destruct (apply_entry_clean op nd Hc Ha H1 H2) as [E1 [E2 [E3 [E4 [E5 [E6 [E7 E8]]]]]]].
  assert (Hlen : (applied nd < length lg)%nat) by (apply nth_error_Some; congruence).
  constructor; auto.
  - congruence.
  - rewrite E2. lia.
  - rewrite E1, E2, H5. symmetry. now apply replay_step.
  - intros l Hl. rewrite E6, Hp in Hl. discriminate.
  - now rewrite E7.
Qed.

Lemma strict_snap_req lg nd : node_strict lg nd -> node_strict lg (snap_req nd).
Proof.
  intros [H1 H2 H3 H4 H5 H6 H7]. unfold snap_req. rewrite H2. constructor; simpl; auto.
  intros l Hl. destruct (inited nd && negb (incons nd)); inversion Hl. reflexivity.
Qed.

Lemma strict_persist lg nd : node_strict lg nd -> node_strict lg (snap_persist nd).
Proof.
  intros G. pose proof G as [H1 H2 H3 H4 H5 H6 H7]. unfold snap_persist.
  destruct (pending nd) as [l|] eqn:Hp; auto.
  constructor; simpl; auto.
  - intros l0 Hl0. discriminate.
  - apply Forall_app. split; auto. constructor; auto.
    specialize (H6 l eq_refl). subst l. split; simpl; auto.
Qed.

Lemma strict_restore lg nd s : node_strict lg nd -> snap_strict lg s -> pending nd = None -> node_strict lg (restore s nd).
Proof.
  intros [H1 H2 H3 H4 H5 H6 H7] [S1 S2] Hp. unfold restore. rewrite H2.
  constructor; simpl; auto.
  - rewrite restore_onto_id; auto. rewrite S2. apply sorted_replay.
  - intros l Hl. rewrite Hp in Hl. discriminate.
Qed.

Lemma strict_install lg nd s : node_strict lg nd -> snap_strict lg s -> pending nd = None -> node_strict lg (install s nd).
Proof.
  intros [H1 H2 H3 H4 H5 H6 H7] [S1 S2] Hp. unfold install. rewrite H2.
  constructor; simpl; auto.
  - rewrite restore_onto_id; auto. rewrite S2. apply sorted_replay.
  - intros l Hl. rewrite Hp in Hl. discriminate.
  - apply Forall_app. split; auto. constructor; auto. split; auto.
Qed.

Lemma strict_restart lg nd : node_strict lg nd -> node_strict lg (restart nd).
Proof.
  intros [H1 H2 H3 H4 H5 H6 H7]. unfold restart. constructor; simpl; auto.
  - lia.
  - intros l Hl. discriminate.
Qed.

Lemma strict_node0 : node_strict [] node0.
Proof. constructor; simpl; auto. intros l Hl. discriminate. Qed.

Lemma cl_strict_init k : cl_strict (init k).
Proof.
  split; [reflexivity|]. simpl. induction k as [|k IH]; simpl; constructor; auto using strict_node0.
Qed.

Lemma step_strict cl e : cl_strict cl -> clean_ev e = true -> ev_atomic cl e = true -> cl_strict (step cl e).
Proof.
  intros [HL HN] Hc Hf. destruct e as [op|n|n|n|n src k|n]; simpl in *.
  - destruct (accepts op) eqn:Ha; [|split; auto]. split; simpl.
    + rewrite forallb_app, HL. simpl. unfold good_op. now rewrite Hc, Ha.
    + eapply Forall_impl; [|exact HN]. intros nd. apply strict_commit.
  - destruct (nth_error (log cl) (applied (getn n cl))) as [op|] eqn:Hn; [|split; auto].
    split; simpl; auto. apply Forall_upd; auto. intros x Hx Gx.
    rewrite (getn_nth n cl x Hx) in Hn, Hf. apply strict_apply; auto.
    + rewrite forallb_forall in HL. apply HL. eapply nth_error_In; eauto.
    + destruct (pending x); [discriminate|reflexivity].
  - split; simpl; auto. apply Forall_upd; auto. intros x _ Gx. now apply strict_snap_req.
  - split; simpl; auto. apply Forall_upd; auto. intros x _ Gx. now apply strict_persist.
  - destruct (nth_error (snaps (getn src cl)) k) as [s|] eqn:Hs; [|split; auto].
    split; simpl; auto. apply Forall_upd; auto. intros x Hx Gx.
    rewrite (getn_nth n cl x Hx) in Hf.
    assert (Hss : snap_strict (log cl) s).
    { destruct (getn_cases src cl) as [[y [Hy Ey]]|[_ Ey]]; rewrite Ey in Hs.
      * rewrite Forall_forall in HN. specialize (HN y (nth_error_In _ _ Hy)).
        destruct HN as [_ _ _ _ _ _ G7]. rewrite Forall_forall in G7. apply G7. eapply nth_error_In; eauto.
      * simpl in Hs. destruct k; discriminate. }
    assert (Hpn : pending x = None) by (destruct (pending x); [discriminate|reflexivity]).
    destruct (Nat.eqb src n); [apply strict_restore|apply strict_install]; auto.
  - split; simpl; auto. apply Forall_upd; auto. intros x _ Gx. now apply strict_restart.
Qed.

Lemma run_strict es : forall cl, cl_strict cl -> forallb clean_ev es = true -> run_ok ev_atomic cl es = true -> cl_strict (run cl es).
Proof.
  unfold run. induction es as [|e r IH]; intros cl G Hc Hf; simpl in *; auto.
  apply andb_true_iff in Hc. destruct Hc as [Hc1 Hc2]. apply andb_true_iff in Hf. destruct Hf as [Hf1 Hf2].
  apply IH; auto. now apply step_strict.
Qed.

Lemma strict_node k es n nd : forallb clean_ev es = true -> run_ok ev_atomic (init k) es = true ->
  nth_error (nodes (run (init k) es)) n = Some nd -> node_strict (log (run (init k) es)) nd.
Proof.
  intros Hc Hf Hn. destruct (run_strict es (init k) (cl_strict_init k) Hc Hf) as [_ HN].
  rewrite Forall_forall in HN. apply HN. eapply nth_error_In; eauto.
Qed.

Lemma prefix_invariant_l k es n nd : forallb clean_ev es = true -> run_ok ev_atomic (init k) es = true ->
  nth_error (nodes (run (init k) es)) n = Some nd ->
  st nd = replay (firstn (applied nd) (log (run (init k) es))) /\ (applied nd <= length (log (run (init k) es)))%nat.
Proof. intros Hc Hf Hn. destruct (strict_node k es n nd Hc Hf Hn) as [_ _ _ G4 G5 _ _]. auto. Qed.

Lemma restore_merge_nil_id c : sorted c -> restore_merge [] c = c.
Proof. intros H. exact (restore_onto_id [] c H). Qed.

(* the newest snapshot of a store *)
Lemma newest_in l : forall s, newest l = Some s -> In s l.
Proof. induction l as [|x r IH]; intros s H; [discriminate|]. cbn [newest] in H. destruct (newest r) as [t|] eqn:E.
  - destruct (Nat.ltb (fst t) (fst x)); injection H as <-; [now left|right; now apply IH].
  - injection H as <-. now left. Qed.
Lemma newest_none l : newest l = None -> l = [].
Proof. destruct l as [|x r]; [reflexivity|]. cbn [newest]. destruct (newest r) as [t|]; [destruct (Nat.ltb (fst t) (fst x))|]; discriminate. Qed.
Lemma newest_max l : forall s t, newest l = Some s -> In t l -> (fst t <= fst s)%nat.
Proof. induction l as [|x r IH]; intros s t H Hin; [destruct Hin|]. cbn [newest] in H. destruct (newest r) as [u|] eqn:E.
  - destruct (Nat.ltb_spec (fst u) (fst x)) as [Hlt|Hge]; injection H as <-; destruct Hin as [->|Hin]; try lia.
    + specialize (IH u t eq_refl Hin). lia.
    + exact (IH u t eq_refl Hin).
  - injection H as <-. apply newest_none in E. subst r. destruct Hin as [->|[]]. lia. Qed.
Lemma newest_label l : fold_right Nat.max 0%nat (map fst l) = match newest l with Some s => fst s | None => 0%nat end.
Proof. induction l as [|x r IH]; [reflexivity|]. cbn [map fold_right newest]. rewrite IH. destruct (newest r) as [t|].
  - destruct (Nat.ltb_spec (fst t) (fst x)); lia.
  - lia. Qed.

Lemma offline_l k es n nd : forallb clean_ev es = true -> run_ok ev_atomic (init k) es = true ->
  nth_error (nodes (run (init k) es)) n = Some nd ->
  offline nd = match newest (snaps nd) with None => [] | Some s => replay (firstn (fst s) (log (run (init k) es))) end.
Proof.
  intros Hc Hf Hn. destruct (strict_node k es n nd Hc Hf Hn) as [_ _ _ _ _ _ G7].
  unfold offline. destruct (newest (snaps nd)) as [s|] eqn:E; auto.
  pose proof (newest_in _ _ E) as Hin.
  rewrite Forall_forall in G7. destruct (G7 s Hin) as [_ S2].
  rewrite restore_merge_nil_id; auto. rewrite S2. apply sorted_replay.
Qed.

(* ------------------------------------------------------------------ *)
(* the log only grows                                                  *)
(* ------------------------------------------------------------------ *)
Lemma step_log cl e : exists suf, log (step cl e) = log cl ++ suf.
Proof.
  destruct e as [op|n|n|n|n src k|n]; simpl.
  - destruct (accepts op); [exists [op]|exists []]; simpl; auto. now rewrite app_nil_r.
  - destruct (nth_error (log cl) (applied (getn n cl))); exists []; simpl; now rewrite app_nil_r.
  - exists []. simpl. now rewrite app_nil_r.
  - exists []. simpl. now rewrite app_nil_r.
  - destruct (nth_error (snaps (getn src cl)) k); exists []; simpl; now rewrite app_nil_r.
  - exists []. simpl. now rewrite app_nil_r.
Qed.

Lemma run_log es : forall cl, exists suf, log (run cl es) = log cl ++ suf.
Proof.
  unfold run. induction es as [|e r IH]; intros cl; simpl.
  - exists []. now rewrite app_nil_r.
  - destruct (IH (step cl e)) as [s1 E1]. destruct (step_log cl e) as [s2 E2].
    exists (s2 ++ s1). rewrite E1, E2. now rewrite app_assoc.
Qed.

Lemma ack_durable_l cl es i op : nth_error (log cl) i = Some op -> nth_error (log (run cl es)) i = Some op.
Proof.
  intros H. destruct (run_log es cl) as [suf E]. rewrite E. rewrite nth_error_app1; auto.
  apply nth_error_Some. congruence.
Qed.

Lemma commit_appends cl op : accepts op = true ->
  nth_error (log (step cl (MCommit op))) (length (log cl)) = Some op.
Proof. intros Ha. simpl. rewrite Ha. simpl. rewrite nth_error_app2 by lia. now rewrite Nat.sub_diag. Qed.

(* ------------------------------------------------------------------ *)
(* what the tracker is told                                            *)
(* ------------------------------------------------------------------ *)
Lemma wrap32_id z : in32 z = true -> wrap32 z = z.
Proof.
  unfold in32, wrap32. intros H. apply andb_true_iff in H. destruct H as [H1 H2].
  apply Z.leb_le in H1. apply Z.leb_le in H2. rewrite Z.mod_small by lia. lia.
Qed.

Lemma wf_pin_stored p : wf_pin p = true ->
  p_cid (store_norm p) = p_cid p /\ p_type (store_norm p) = p_type p /\ p_maxdepth (store_norm p) = p_maxdepth p /\
  p_allocs (store_norm p) = p_allocs p /\ (p_type p = 2 -> p_mode (store_norm p) = p_mode p).
Proof.
  unfold wf_pin. intros H.
  apply andb_true_iff in H. destruct H as [H Ht]. apply andb_true_iff in H. destruct H as [H Hd].
  simpl. rewrite (wrap32_id _ Hd). repeat split.
  - destruct (N.eqb_spec (p_type p) 2) as [->|]; [reflexivity|].
    destruct (N.eqb_spec (p_type p) 4) as [->|]; [reflexivity|].
    destruct (N.eqb_spec (p_type p) 8) as [->|]; [reflexivity|].
    destruct (N.eqb_spec (p_type p) 16) as [->|]; [reflexivity|discriminate].
  - intros T2. rewrite T2 in Ht. simpl in Ht. apply orb_true_iff in Ht.
    destruct Ht as [Ht|Ht]; apply andb_true_iff in Ht; destruct Ht as [Hm Hz];
      apply N.eqb_eq in Hm; apply Z.eqb_eq in Hz; rewrite Hm, Hz; reflexivity.
Qed.

Lemma track_handoff_l p nd : wire_ok p = true -> pin_badutf p = false -> dirty nd = false -> crashed nd = false ->
  calls (apply_entry (LPin p) nd) = track_of p :: calls nd /\
  sget (p_cid p) (st (apply_entry (LPin p) nd)) = Some (store_norm p).
Proof.
  intros Hw Hb Hd Hc. unfold apply_entry. rewrite Hc, Hw, Hd, Hb. simpl. split; auto. apply sget_sput_same.
Qed.

Lemma untrack_handoff_l p nd : wire_ok p = true -> crashed nd = false -> sorted (st nd) ->
  calls (apply_entry (LUnpin p) nd) = untrack_of p :: calls nd /\
  sget (p_cid p) (st (apply_entry (LUnpin p) nd)) = None.
Proof.
  intros Hw Hc Hs. unfold apply_entry. rewrite Hc, Hw. simpl. split; auto. now apply sget_sdel_same.
Qed.

(* ------------------------------------------------------------------ *)
(* witnesses                                                           *)
(* ------------------------------------------------------------------ *)
Definition wpin (c nm : N) : pin := mkpin c 2 (-1)%Z [] 0 (-1)%Z (-1)%Z nm 0 [] None [] None [] None.
Definition wpin_origins (c : N) : pin := mkpin c 2 (-1)%Z [] 0 (-1)%Z (-1)%Z 0 0 [] None [] None [1] None.

(* S23: FSM.Snapshot at position 1, four more entries applied, only then Persist; restart, restore, replay one entry *)
Definition race_events : list mevent :=
  [MCommit (LPin (wpin 0 1)); MApply 0; MSnapReq 0;
   MCommit (LPin (wpin 1 1)); MApply 0; MCommit (LPin (wpin 2 1)); MApply 0;
   MCommit (LPin (wpin 1 2)); MApply 0; MCommit (LPin (wpin 2 2)); MApply 0;
   MPersist 0; MRestart 0; MRestore 0 0 0; MApply 0].

Lemma race_not_a_prefix :
  forallb clean_ev race_events = true /\ run_ok ev_pinned (init 1) race_events = true /\
  forall m, st (getn 0 (run (init 1) race_events)) <> replay (firstn m (log (run (init 1) race_events))).
Proof.
  split; [reflexivity|]. split; [vm_compute; reflexivity|].
  intros m E. destruct m as [|[|[|[|[|[|m]]]]]]; vm_compute in E; congruence.
Qed.

(* S19: a committed pin with an origin is swallowed; the replica has applied the whole log and misses it *)
Definition origins_events : list mevent := [MCommit (LPin (wpin_origins 0)); MApply 0].
Lemma origins_swallowed :
  run_ok ev_atomic (init 1) origins_events = true /\
  let cl := run (init 1) origins_events in
  applied (getn 0 cl) = length (log cl) /\ view (getn 0 cl) = Some [] /\ st (getn 0 cl) <> replay (log cl).
Proof.
  split; [vm_compute; reflexivity|]. simpl.
  split; [reflexivity|]. split; [reflexivity|]. intros E. vm_compute in E. congruence.
Qed.

(* ... and the next ordinary pin panics the process *)
Definition origins_crash_events : list mevent := origins_events ++ [MCommit (LPin (wpin 1 1)); MApply 0].
Lemma origins_crash : crashed (getn 0 (run (init 1) origins_crash_events)) = true.
Proof. reflexivity. Qed.

(* S1, for the record: Unmarshal alone onto a non-empty state keeps what the snapshot does not mention *)
Lemma merge_keeps_unpinned :
  let cur := replay [LPin (wpin 0 1); LPin (wpin 1 1)] in
  let snap := replay [LPin (wpin 0 1); LPin (wpin 1 1); LUnpin (wpin 0 0)] in
  sget 0 snap = None /\ sget 0 (restore_merge cur snap) <> None /\ sget 0 (restore_onto cur snap) = None.
Proof. vm_compute. repeat split; congruence. Qed.

(* non-vacuity: a clean, pinned, atomic schedule with an install onto a non-empty replica and a restart *)
Definition demo_events : list mevent :=
  [MCommit (LPin (wpin 0 1)); MApply 0; MApply 1; MCommit (LUnpin (wpin 0 0)); MApply 0; MCommit (LPin (wpin 1 1)); MApply 0;
   MSnapReq 0; MPersist 0; MRestore 1 0 0; MRestart 0; MRestore 0 0 0].
Lemma demo_ok :
  forallb clean_ev demo_events = true /\ run_ok ev_pinned (init 2) demo_events = true /\ run_ok ev_atomic (init 2) demo_events = true /\
  map fst (st (getn 1 (run (init 2) demo_events))) = [1] /\ applied (getn 1 (run (init 2) demo_events)) = 3%nat.
Proof. vm_compute. repeat split; reflexivity. Qed.

Lemma wf_pin_inhabited : wf_pin (wpin 0 1) = true /\ wf_pin (mkpin 3 16 2%Z [1; 2] 0 2%Z 3%Z 4 77 [5] (Some (1700000000%Z, 5)) [(1, 2)] (Some 2) [] (Some 1)) = true.
Proof. split; reflexivity. Qed.

Lemma unserialisable_refused_l cl p : pin_badutf p = true -> step cl (MCommit (LPin p)) = cl.
Proof. intros H. simpl. now rewrite H. Qed.

(* a snapshot installed on a replica that is AHEAD of it (hashicorp/raft does that): the replica goes back to the prefix the
   snapshot is labelled with, and replays; with atomic snapshots every replica stays the replay of a prefix *)
Definition backward_events : list mevent :=
  [MCommit (LPin (wpin 0 1)); MApply 0; MApply 1; MSnapReq 1; MPersist 1; MCommit (LPin (wpin 1 1)); MApply 0;
   MRestore 0 1 0; MApply 0].
Lemma backward_ok :
  forallb clean_ev backward_events = true /\ run_ok ev_atomic (init 2) backward_events = true /\
  applied (getn 0 (run (init 2) (firstn 7 backward_events))) = 2%nat /\
  applied (getn 0 (run (init 2) (firstn 8 backward_events))) = 1%nat /\
  map fst (st (getn 0 (run (init 2) (firstn 8 backward_events)))) = [0] /\
  map fst (st (getn 0 (run (init 2) backward_events))) = [0; 1].
Proof. vm_compute. repeat split; reflexivity. Qed.

(* S23 with a backward install: FSM.Snapshot at position 2, a snapshot labelled 1 is installed, only then Persist: the snapshot
   labelled 2 lacks entry 1; the replica restarts from it, has "applied" the whole log and misses a pin for good *)
Definition backward_race_events : list mevent :=
  [MCommit (LPin (wpin 0 1)); MApply 1; MSnapReq 1; MPersist 1; MApply 0; MCommit (LPin (wpin 1 1)); MApply 0;
   MSnapReq 0; MRestore 0 1 0; MPersist 0; MRestart 0; MRestore 0 0 1].
Lemma backward_race_loses :
  forallb clean_ev backward_race_events = true /\
  let cl := run (init 2) backward_race_events in
  applied (getn 0 cl) = length (log cl) /\ view (getn 0 cl) <> None /\ st (getn 0 cl) <> replay (log cl).
Proof. split; [reflexivity|]. simpl. split; [reflexivity|]. split; [vm_compute; discriminate|]. intros E. vm_compute in E. congruence. Qed.
Lemma caught_up_exact_refuted_l :
  exists k es n, forallb clean_ev es = true /\ applied (getn n (run (init k) es)) = length (log (run (init k) es)) /\
    st (getn n (run (init k) es)) <> replay (log (run (init k) es)).
Proof. exists 2%nat, backward_race_events, 0%nat. destruct backward_race_loses as [H1 [H2 [_ H3]]]. auto. Qed.

Lemma prefix_anytime_refuted_l :
  exists k es n, forallb clean_ev es = true /\ run_ok ev_pinned (init k) es = true /\
    forall m, st (getn n (run (init k) es)) <> replay (firstn m (log (run (init k) es))).
Proof. exists 1%nat, race_events, 0%nat. exact race_not_a_prefix. Qed.

Lemma origins_swallowed_refuted_l :
  exists k es n, run_ok ev_atomic (init k) es = true /\
    applied (getn n (run (init k) es)) = length (log (run (init k) es)) /\ view (getn n (run (init k) es)) = Some [] /\
    st (getn n (run (init k) es)) <> replay (log (run (init k) es)).
Proof. exists 1%nat, origins_events, 0%nat. exact origins_swallowed. Qed.

Lemma origins_crash_refuted_l : exists k es n, crashed (getn n (run (init k) es)) = true.
Proof. exists 1%nat, origins_crash_events, 0%nat. exact origins_crash. Qed.

Lemma install_merge_refuted_l :
  exists cur snap c, sget c snap = None /\ sget c (restore_merge cur snap) <> None /\ sget c (restore_onto cur snap) = None.
Proof.
  exists (replay [LPin (wpin 0 1); LPin (wpin 1 1)]), (replay [LPin (wpin 0 1); LPin (wpin 1 1); LUnpin (wpin 0 0)]), 0.
  exact merge_keeps_unpinned.
Qed.
