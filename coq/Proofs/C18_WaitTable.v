(* C18 — the wait-for graph obligation on the generated table (Gen/Locksets.v: nesting, waits, covers),
   discharged by computation, and what it gives on the machine with waits. Recompiled at every run. *)
From V Require Import Model.C18_Table Model.C18_Conc Model.C18_Wait Model.C18_Glue Gen.Locksets
  Proofs.C18_Wait Proofs.C18_WaitGlue.

Lemma wait_graph_okb_holds : wait_graph_okb nesting waits covers = true.
Proof. vm_compute. reflexivity. Qed.

Lemma wait_graph_acyclic_l : exists rank : string -> nat, forall a b where_,
  In (a, b, where_) (wait_edges nesting waits covers) -> (rank a < rank b)%nat.
Proof.
  exists (rank_of (wait_edges nesting waits covers)). intros a b w Hin.
  apply okb_edge; [exact wait_graph_okb_holds|]. now exists w.
Qed.

Lemma table_no_wait_deadlock_l (grp : nat -> list group) (progs : nat -> list wev) n s0 s :
  winit_ok s0 -> wprog_inv progs s0 ->
  (forall i, wconforms (wait_edges nesting waits covers) (grp i) (progs i)) -> (forall i, wbalanced (progs i)) ->
  (forall i, n <= i -> progs i = []) ->
  wreach grp s0 s -> ~ wdeadlocked grp n s.
Proof. exact (graph_no_wait_deadlock _ grp progs n s0 s wait_graph_okb_holds). Qed.
