(* C18 — the wait-for graph obligation on the generated table (Gen/Locksets.v: nesting, waits, covers),
   discharged by computation, and what it gives on the machine with waits. Recompiled at every run. *)
From V Require Import Model.C18_Table Model.C18_Exempt Model.C18_Conc Model.C18_Wait Model.C18_Glue Gen.Locksets
  Proofs.C18_Wait Proofs.C18_WaitGlue.

(* (stated on the unfolded form: every use below then matches syntactically, no conversion has to evaluate the test) *)
Lemma wait_graph_okb_holds : lock_order_okb (wait_edges nesting waits covers) = true.
Proof. vm_compute. reflexivity. Qed.

Lemma wait_graph_acyclic_l : exists rank : string -> nat, forall a b where_,
  In (a, b, where_) (wait_edges nesting waits covers) -> (rank a < rank b)%nat.
Proof.
  exists (rank_of (wait_edges nesting waits covers)). intros a b w Hin.
  apply okb_edge; [exact wait_graph_okb_holds|]. now exists w.
Qed.

Lemma table_no_wait_deadlock_l (grp : nat -> list group) (progs : nat -> list gev) n s0 s :
  ginit_ok s0 -> gprog_inv progs s0 ->
  (forall i, gconforms (wait_edges nesting waits covers) (grp i) (progs i)) -> (forall i, gbalanced (progs i)) ->
  (forall i, n <= i -> progs i = []) ->
  greach grp s0 s -> ~ gdeadlocked grp n s.
Proof. exact (graph_no_wait_deadlock _ grp progs n s0 s wait_graph_okb_holds). Qed.

Lemma table_covers_waits_l : wait_coverage_okb waits members = true.
Proof. vm_compute. reflexivity. Qed.

Lemma waited_goroutines_always_started_l : started_okb launches closers chan_waits = true.
Proof. vm_compute. reflexivity. Qed.

Lemma untracked_shared_fields_l : untracked_shared shared_exemptions shared_untracked = [].
Proof. vm_compute. reflexivity. Qed.
