(* C13 — the importer model feeds the adder model: the stream of blocks of a DAG meets the importer contract the adder
   theorems assume (strict, link-closed, contains the root, sizes by CID), hence for ONE file of any content, any chunk size
   and any admissible links-per-block a successful add delivered a set of blocks closed under links from the pinned root,
   from which a reader gets back exactly the bytes of the file. *)
From V Require Import Base.Common Base.CommonLemmas Model.C13_Adder Model.C13_Check Model.C13_Spec Model.C13_Importer Model.C13_ImporterSpec
                      Proofs.C13_Adder Proofs.C13_Theorems Proofs.C13_Importer.
Open Scope N_scope.

Section Stream.
Variable cid_of enc_size : tree -> N.
Notation stream_of' := (stream_of cid_of enc_size).

Lemma cids_of_stream em : cids_of (stream_of' em) = map cid_of em.
Proof. unfold cids_of, stream_of. rewrite map_map. reflexivity. Qed.

(* the importer contract, for the blocks of any DAG in any order that lists them all *)
Lemma stream_contract t :
  let stream := stream_of' (postorder t) in
  strict stream /\ link_closed stream /\ In (cid_of t) (cids_of stream) /\
  (injective_on (postorder t) cid_of -> sizes_by_cid stream).
Proof.
  cbv zeta. split; [|split; [|split]].
  - intros b Hb. apply in_map_iff in Hb as (n & <- & _). reflexivity.
  - intros b l Hb Hl. apply in_map_iff in Hb as (n & <- & Hn). cbn [block_of blinks] in Hl.
    apply in_map_iff in Hl as (c & <- & Hc). rewrite cids_of_stream. apply in_map.
    eapply postorder_kids_closed; eauto.
  - rewrite cids_of_stream. apply in_map, in_postorder_self.
  - intros Hinj b b' Hb Hb' E. apply in_map_iff in Hb as (n & <- & Hn). apply in_map_iff in Hb' as (n' & <- & Hn').
    cbn [block_of bcid bsize] in *. rewrite (Hinj n n' Hn Hn' E). reflexivity.
Qed.

(* a reader over a store that holds every block of the DAG under its CID *)
Lemma read_store_tree t st : (forall n, In n (postorder t) -> st (cid_of n) = Some (content_of cid_of n)) ->
  forall n, In n (postorder t) -> forall fuel, (height n < fuel)%nat -> read_store st fuel (cid_of n) = Some (read_back n).
Proof.
  intros Hst n. induction n as [d|ch IH] using tree_ind'; intros Hn fuel Hf.
  - destruct fuel as [|f]; [lia|]. cbn [read_store]. rewrite (Hst _ Hn). cbn. rewrite app_nil_r. reflexivity.
  - destruct fuel as [|f]; [lia|]. cbn [read_store]. rewrite (Hst _ Hn). cbn [content_of].
    assert (Hk : forall l, In l ch -> In (fst l) (postorder t)).
    { intros l Hl. eapply postorder_kids_closed; [exact Hn|]. cbn [kids]. apply in_map. exact Hl. }
    cbn [height] in Hf. unfold read_back. cbn [leaves].
    clear Hn. revert IH Hk Hf. induction ch as [|l r IHr]; intros IH Hk Hf; [reflexivity|].
    cbn [map fold_right flat_map fst]. inversion IH as [|? ? Hl Hr]; subst.
    cbn [fold_right] in Hf.
    rewrite (Hl (Hk l (or_introl eq_refl)) f ltac:(lia)).
    rewrite IHr; [|exact Hr|intros l' Hl'; apply Hk; right; exact Hl'|lia].
    rewrite concat_app. reflexivity.
Qed.

Lemma store_of_holds t delivered : injective_on (postorder t) cid_of ->
  (forall n, In n (postorder t) -> In (cid_of n) delivered) ->
  forall n, In n (postorder t) -> store_of cid_of (postorder t) delivered (cid_of n) = Some (content_of cid_of n).
Proof.
  intros Hinj Hdel n Hn. unfold store_of.
  assert (Hm : memN (cid_of n) delivered = true) by (apply memN_in, Hdel, Hn). rewrite Hm.
  destruct (find (fun t0 => N.eqb (cid_of t0) (cid_of n)) (postorder t)) as [n'|] eqn:E.
  - apply find_some in E as (Hn' & E). apply N.eqb_eq in E. rewrite (Hinj n' n Hn' Hn E). reflexivity.
  - exfalso. pose proof (find_none _ _ E n Hn) as H. cbn in H. rewrite N.eqb_refl in H. discriminate.
Qed.
End Stream.

(* ---- the layouts never fail and produce what the lemmas above need ---- *)
Definition layout_good (r : ierr + (tree * N * list tree)) (bs : bytes) : Prop :=
  exists t, r = inr (t, tsize t, postorder t) /\ read_back t = bs.

Lemma importer_good trickle ml k bs : 0 < k -> min_links trickle <= ml -> layout_good (importer trickle ml k bs) bs.
Proof.
  intros Hk Hml. destruct (chunk_spec_l k bs Hk) as (Hc & _). unfold importer. destruct trickle; cbn [min_links] in Hml.
  - destruct (trickle_layout_spec ml (chunk k bs) Hml) as (ch & E & _ & Hr & _). exists (Node ch). rewrite Hr, Hc. auto.
  - destruct (balanced_layout_spec ml (chunk k bs) Hml) as (t & d & E & _ & Hr & _). exists t. rewrite Hr, Hc. auto.
Qed.

Section Delivered.
Variable cid_of enc_size : tree -> N.
Variable e : env.
Variable trickle : bool.
Variable ml k : N.
Variable bs : bytes.
Hypothesis Hk : 0 < k.
Hypothesis Hml : min_links trickle <= ml.
Let r := importer trickle ml k bs.
Let tr := layout_tree r.
Let em := layout_emission r.
Let stream := stream_of cid_of enc_size em.
Let root := cid_of tr.
Hypothesis Hinj : injective_on (postorder tr) cid_of.

Lemma importer_shape : r = inr (tr, tsize tr, postorder tr) /\ em = postorder tr /\ read_back tr = bs /\ tsize tr = blen bs.
Proof. destruct (importer_good trickle ml k bs Hk Hml) as (t & E & Hr). subst tr em. fold r in E. rewrite E. cbn.
  repeat split; auto. rewrite tsize_read_back, Hr. reflexivity. Qed.

Lemma readable_from delivered : (forall x, In x (cids_of stream) -> In x delivered) ->
  read_store (store_of cid_of em delivered) (S (height tr)) root = Some bs.
Proof.
  intros Hdel. destruct importer_shape as (_ & Eem & Hr & _). rewrite <- Hr. subst root. rewrite Eem.
  apply (read_store_tree cid_of tr); [|apply in_postorder_self|lia].
  apply store_of_holds; [exact Hinj|]. intros n Hn. apply Hdel. subst stream. rewrite cids_of_stream, Eem. apply in_map. exact Hn.
Qed.

Lemma single_file_unsharded_l c t : single_run e stream root = (ROk c, t) ->
  c = CData root /\ (exists al, ok_pins t = [single_pin e root al]) /\
  (forall x, reach stream root x -> In x (data_puts t)) /\
  read_store (store_of cid_of em (data_puts t)) (S (height tr)) root = Some bs.
Proof.
  intros H. destruct importer_shape as (_ & Eem & _).
  destruct (stream_contract cid_of enc_size tr) as (Hstrict & Hlc & Hroot & _). cbv zeta in *.
  rewrite <- Eem in Hstrict, Hlc, Hroot. fold stream in Hstrict, Hlc, Hroot.
  destruct (final_pins_single_l e stream root Hstrict c t H) as (Hc & al & Hp & _).
  destruct (delivered_equals_produced_single_l e stream root Hstrict c t H) as (Hd & _).
  split; [exact Hc|]. split; [exists al; exact Hp|]. split; [apply (delivered_closed_single_l e stream root Hstrict c t Hlc Hroot H)|].
  apply readable_from. intros x Hx. rewrite Hd. exact Hx.
Qed.

Lemma single_file_sharded_l c t : 0 < e_maxlinks e -> shard_run e stream root = (ROk c, t) ->
  c = CData root /\ (exists q, In q (ok_pins t) /\ pcid q = CData root /\ pty q = TMeta) /\
  (forall x, reach stream root x -> In x (data_puts t)) /\
  read_store (store_of cid_of em (data_puts t)) (S (height tr)) root = Some bs.
Proof.
  intros Hmax H. destruct importer_shape as (_ & Eem & _).
  destruct (stream_contract cid_of enc_size tr) as (Hstrict & Hlc & Hroot & Hsz). cbv zeta in *. specialize (Hsz Hinj).
  rewrite <- Eem in Hstrict, Hlc, Hroot, Hsz. fold stream in Hstrict, Hlc, Hroot, Hsz.
  destruct (final_pins_sharded_l e stream root Hstrict Hmax Hsz c t H) as (Hc & xs & _ & Hp & _).
  destruct (delivered_equals_produced_l e stream root Hstrict Hmax Hsz c t H) as (Hd & _).
  split; [exact Hc|]. split.
  { exists (meta_pin e root xs). split; [rewrite Hp; apply in_or_app; right; right; left; reflexivity|]. split; reflexivity. }
  split; [apply (delivered_closed_l e stream root Hstrict Hmax Hsz c t Hlc Hroot H)|].
  apply readable_from. intros x Hx. rewrite Hd. apply in_dedup. exact Hx.
Qed.
End Delivered.
