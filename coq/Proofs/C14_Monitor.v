(* C14 — the run-time monitors of Model/C14_Check.v (codes 10 bk_step_okb, 11 bk_hist_okb, 12 no nil / no crash,
   13 peerstore file reads back, 14 Marshal/Unmarshal identity, 15 snapshot read offline, 16 export = source,
   17 export/import identity, 18 import never takes the process down), which judge what the IMPLEMENTATION left on
   disk / returned, tied to the model and to Prop-level statements, for every input (no bound):
   (1) completeness: a case annotated with the model's own outputs produces no code at all (under the input
       invariants the harness guarantees, stated explicitly; for the export kind: no code except the two listed findings);
   (2) soundness: a case on which a code is not produced satisfies the Prop-level clause that code stands for. *)
From V Require Import Base.Common Base.CommonLemmas Model.C14_Backup Model.C14_Peerstore Model.C14_State Model.C14_Check
  Proofs.C14_Backup Proofs.C14_Peerstore Proofs.C14_State.
From Coq Require Import Arith Permutation Sorting.Sorted.

(* ---------- reflexivity of the comparison functions ---------- *)
Lemma list_eqb_refl {A} (eqb : A -> A -> bool) (l : list A) : (forall x, In x l -> eqb x x = true) -> list_eqb eqb l l = true.
Proof. induction l as [|x r IH]; intros H; [reflexivity|]. cbn [list_eqb]. rewrite (H x (or_introl eq_refl)). apply IH. intros y Hy. apply H. now right. Qed.
Lemma list_eqb_eq {A} (eqb : A -> A -> bool) : (forall x y, eqb x y = true -> x = y) -> forall a b, list_eqb eqb a b = true -> a = b.
Proof. intros He. induction a as [|x r IH]; intros [|y s]; cbn [list_eqb]; try discriminate; auto.
  rewrite andb_true_iff. intros [H1 H2]. f_equal; auto. Qed.
Lemma list_eqb_length {A} (eqb : A -> A -> bool) : forall a b, list_eqb eqb a b = true -> length a = length b.
Proof. induction a as [|x r IH]; intros [|y s]; cbn [list_eqb]; try discriminate; auto.
  rewrite andb_true_iff. intros [_ H2]. cbn [length]. f_equal; auto. Qed.

Lemma optN_eqb_refl a : optN_eqb a a = true.
Proof. destruct a; simpl; auto. apply N.eqb_refl. Qed.
Lemma fold_eqb_refl a : fold_eqb a a = true.
Proof. unfold fold_eqb. now rewrite N.eqb_refl, optN_eqb_refl. Qed.
Lemma ofold_eqb_refl a : ofold_eqb a a = true.
Proof. destruct a; simpl; auto. apply fold_eqb_refl. Qed.
Lemma listing_eqb_refl (l : listing) : list_eqb ofold_eqb l l = true.
Proof. apply list_eqb_refl. intros; apply ofold_eqb_refl. Qed.

(* ================================================================== *)
(* Backup rotation: codes 10 and 11                                   *)
(* ================================================================== *)

(* the listing the model leaves after one step, seen through the same window as the listing before it *)
Definition bk_model_after (keep : nat) (b : listing) (st : step N) : listing :=
  listing_of (window b) (run_step keep (to_dir b) st).
(* the observations of a history, each step starting from the listing the previous one left *)
Fixpoint bk_model_obs (keep : nat) (before : listing) (sts : list (step N)) : list listing :=
  match sts with
  | [] => []
  | st :: r => let after := bk_model_after keep (set_live (fst st) before) st in after :: bk_model_obs keep after r
  end.

Lemma window_listing_of w (d : dir N) : window (listing_of w d) = w.
Proof. unfold window, listing_of. cbn [tl]. now rewrite map_length, seq_length. Qed.
Lemma to_olds_listing_of w (d : dir N) i : i < w -> to_olds (listing_of w d) i = olds d i.
Proof. intros Hi. unfold to_olds, listing_of. cbn [tl].
  rewrite (nth_indep _ None (olds d 0)) by (now rewrite map_length, seq_length).
  change (olds d 0) with (olds d (0 + 0)) at 1. rewrite map_nth. now rewrite seq_nth. Qed.
Lemma to_olds_beyond (l : listing) i : window l <= i -> to_olds l i = None.
Proof. intros H. unfold to_olds. apply nth_overflow. exact H. Qed.
Lemma window_set_live f (l : listing) : window (set_live f l) = window l.
Proof. reflexivity. Qed.
Lemma to_olds_set_live f (l : listing) : to_olds (set_live f l) = to_olds l.
Proof. reflexivity. Qed.
Lemma olds_to_dir (l : listing) : olds (to_dir l) = to_olds l.
Proof. reflexivity. Qed.

(* soundness of the history monitor (code 11) *)
Lemma bk_hist_okb_sound_l keep fs after : bk_hist_okb keep fs after = true ->
  forall i, i < length fs -> i < window after -> i < keep -> to_olds after i = nth_error (rev fs) i.
Proof. unfold bk_hist_okb. intros H i H1 H2 H3. rewrite forallb_forall in H. specialize (H i).
  rewrite in_seq in H. specialize (H ltac:(lia)). destruct (Nat.ltb_spec i keep); [|lia]. now apply ofold_eqb_eq. Qed.

(* the model's step passes the step monitor (code 10), when the listing shows at least `keep` backups
   (the harness lists old.0 .. old.7 and uses keep <= 6; with a shorter listing the rotation moves a folder out of
   sight and the monitor, which only sees the window, cannot tell a move from a loss) *)
Lemma bk_step_model_passes keep (b : listing) (st : step N) : 1 <= keep -> keep <= window b ->
  bk_step_okb keep b st (bk_model_after keep b st) = true.
Proof. intros Hk Hw. unfold bk_step_okb, bk_model_after. destruct (rotated_of st) as [|f fs'] eqn:E; [reflexivity|].
  cbv zeta. rewrite window_listing_of, Nat.eqb_refl.
  assert (Hl : hd None (listing_of (window b) (run_step keep (to_dir b) st)) = None).
  { unfold listing_of. cbn [hd]. apply run_step_live. }
  rewrite Hl. cbn [ofold_eqb andb].
  assert (Ho : olds (run_step keep (to_dir b) st) = rotate keep f (to_olds b)).
  { rewrite run_step_olds, E. reflexivity. }
  rewrite to_olds_listing_of by lia. rewrite Ho, rotate_zero, ofold_eqb_refl. cbn [andb].
  apply andb_true_iff. split; apply forallb_forall; intros i Hi; rewrite in_seq in Hi.
  - destruct (Nat.ltb_spec i (prefix (to_olds b) keep 0)) as [H1|H1]; [|reflexivity].
    destruct (Nat.ltb_spec (S i) keep) as [H2|H2]; [|reflexivity]. cbn [andb].
    rewrite to_olds_listing_of by lia. rewrite Ho, rotate_shift by assumption. apply ofold_eqb_refl.
  - destruct (Nat.ltb_spec (prefix (to_olds b) keep 0) i) as [H1|H1]; cbn [orb].
    + rewrite to_olds_listing_of by lia. rewrite Ho, rotate_untouched by (auto; lia). apply ofold_eqb_refl.
    + destruct (Nat.leb_spec keep i) as [H2|H2]; [|reflexivity].
      rewrite to_olds_listing_of by lia. rewrite Ho, rotate_untouched by (auto; lia). apply ofold_eqb_refl. Qed.

(* the history invariant, on listings *)
Definition bk_inv (keep : nat) (l : listing) (fs : list fold_t) : Prop := newest_first (to_dir l) keep fs.

Lemma bk_inv_step keep (before : listing) fs (st : step N) : 1 <= keep -> keep <= window before -> bk_inv keep before fs ->
  bk_inv keep (bk_model_after keep (set_live (fst st) before) st) (fs ++ rotated_of st).
Proof. intros Hk Hw Inv. unfold bk_inv, bk_model_after. rewrite window_set_live.
  assert (Inv1 : newest_first (to_dir (set_live (fst st) before)) keep fs) by exact Inv.
  pose proof (run_step_inv keep _ st fs Hk Inv1) as H.
  intros i Hi Hik. rewrite olds_to_dir, to_olds_listing_of by lia. apply H; assumption. Qed.

Lemma bk_hist_of_inv keep (l : listing) fs : bk_inv keep l fs -> bk_hist_okb keep fs l = true.
Proof. intros Inv. unfold bk_inv, newest_first in Inv. unfold bk_hist_okb. apply forallb_forall. intros i Hi. rewrite in_seq in Hi.
  destruct (Nat.ltb_spec i keep) as [H|H]; [|reflexivity]. unfold fold_t in *. rewrite <- (Inv i) by lia. apply ofold_eqb_refl. Qed.

Lemma bk_check_model_passes id keep : 1 <= keep -> forall sts before fs, keep <= window before -> bk_inv keep before fs ->
  bk_check id keep before fs sts (bk_model_obs keep before sts) = [].
Proof. intros Hk. induction sts as [|st r IH]; intros before fs Hw Inv; [reflexivity|].
  cbn [bk_model_obs bk_check]. cbv zeta.
  set (b := set_live (fst st) before). set (after := bk_model_after keep b st).
  assert (Hb : keep <= window b) by exact Hw.
  assert (E1 : bk_model_eqb keep b st after = true) by (unfold bk_model_eqb; apply listing_eqb_refl).
  assert (E2 : bk_step_okb keep b st after = true) by exact (bk_step_model_passes keep b st Hk Hb).
  rewrite E1, E2.
  pose proof (bk_inv_step keep before fs st Hk Hw Inv) as Inv'. fold b in Inv'. fold after in Inv'.
  rewrite (bk_hist_of_inv keep after _ Inv'). cbn [app].
  apply IH; [|exact Inv']. unfold after, bk_model_after. now rewrite window_listing_of. Qed.

(* completeness for the backup kind: every retention keep >= 1, every pre-existing set of listed backups (at least keep
   of them listed), every history of steps *)
Lemma bk_model_passes_monitor_l id keep olds0 sts : 1 <= keep -> keep <= length olds0 ->
  check_case (id, PBackup keep olds0 sts (bk_model_obs keep (None :: olds0) sts)) = [].
Proof. intros Hk Hw. cbn [check_case]. apply bk_check_model_passes; auto.
  intros i Hi. cbn [length] in Hi. lia. Qed.

(* what a backup case without code 11 says: walking the observed listings, after every step the folders handed to the
   rotation so far are old.0, old.1, ... newest first, below keep and inside the window *)
Fixpoint bk_hist_spec (keep : nat) (fs : list fold_t) (sts : list (step N)) (obs : list listing) : Prop :=
  match sts, obs with
  | st :: sts', after :: obs' =>
      let fs' := fs ++ rotated_of st in
      (forall i, i < length fs' -> i < window after -> i < keep -> to_olds after i = nth_error (rev fs') i) /\
      bk_hist_spec keep fs' sts' obs'
  | _, _ => True
  end.
(* and without code 10: every step is a rotation of the listing the previous step left *)
Fixpoint bk_steps_spec (keep : nat) (before : listing) (sts : list (step N)) (obs : list listing) : Prop :=
  match sts, obs with
  | st :: sts', after :: obs' =>
      (forall f, rotated_of st = [f] ->
         let o := to_olds before in let o' := to_olds after in let n := prefix o keep 0 in
         hd None after = None /\ o' 0 = Some f /\
         (forall i, i < window before -> i < n -> S i < keep -> o' (S i) = o i) /\
         (forall j, j < window before -> n < j \/ keep <= j -> o' j = o j)) /\
      bk_steps_spec keep after sts' obs'
  | _, _ => True
  end.

Lemma bk_check_sound id keep : forall sts obs before fs,
  (forall c, In c (bk_check id keep before fs sts obs) -> snd (fst c) <> 10%N /\ snd (fst c) <> 11%N) ->
  bk_steps_spec keep before sts obs /\ bk_hist_spec keep fs sts obs.
Proof. induction sts as [|st r IH]; intros obs before fs H; [split; exact I|].
  destruct obs as [|after obs']; [split; exact I|]. cbn [bk_check] in H. cbv zeta in H.
  cbn [bk_steps_spec bk_hist_spec]. cbv zeta.
  set (b := set_live (fst st) before) in *.
  assert (H10 : bk_step_okb keep b st after = true).
  { destruct (bk_step_okb keep b st after) eqn:E; auto. exfalso.
    destruct (H (id, 10%N, 0%N)) as [A _]; [|now apply A]. apply in_or_app. right. apply in_or_app. left. now left. }
  assert (H11 : bk_hist_okb keep (fs ++ rotated_of st) after = true).
  { destruct (bk_hist_okb keep (fs ++ rotated_of st) after) eqn:E; auto. exfalso.
    destruct (H (id, 11%N, 0%N)) as [_ A]; [|now apply A]. apply in_or_app. right. apply in_or_app. right. apply in_or_app. left. now left. }
  destruct (IH obs' after (fs ++ rotated_of st)) as [T1 T2].
  { intros c Hc. apply H. do 3 (apply in_or_app; right). exact Hc. }
  split; split; auto.
  - intros f Hf. exact (bk_step_okb_sound keep b st after f H10 Hf).
  - exact (bk_hist_okb_sound_l keep _ after H11). Qed.

Lemma bk_monitor_sound_l id keep olds0 sts obs :
  (forall c, In c (check_case (id, PBackup keep olds0 sts obs)) -> snd (fst c) <> 10%N /\ snd (fst c) <> 11%N) ->
  bk_steps_spec keep (None :: olds0) sts obs /\ bk_hist_spec keep [] sts obs.
Proof. cbn [check_case]. apply bk_check_sound. Qed.
