(* C14 — the run-time monitors of Model/C14_Check.v (codes 10 bk_step_okb, 11 bk_hist_okb, 12 no nil / no crash,
   13 peerstore file reads back, 14 Marshal/Unmarshal identity, 15 snapshot read offline, 16 export = source,
   17 export/import identity, 18 import never takes the process down), which judge what the IMPLEMENTATION left on
   disk / returned, tied to the model and to Prop-level statements, for every input (no bound):
   (1) completeness: a case annotated with the model's own outputs produces no code at all (under the input
       invariants the harness guarantees, stated explicitly; for the export kind: no code except the listed finding S19);
   (2) soundness: a case on which a code is not produced satisfies the Prop-level clause that code stands for. *)
From V Require Import Base.Common Base.CommonLemmas Model.C14_Backup Model.C14_Peerstore Model.C14_State Model.C14_Check
  Proofs.C14_Backup Proofs.C14_Peerstore Proofs.C14_State.
From Coq Require Import Arith Permutation Sorting.Sorted.

(* ---------- reflexivity of the comparison functions ---------- *)
Lemma list_eqb_refl {A} (eqb : A -> A -> bool) (l : list A) : (forall x, In x l -> eqb x x = true) -> list_eqb eqb l l = true.
Proof. induction l as [|x r IH]; intros H; [reflexivity|]. cbn [list_eqb]. rewrite (H x (or_introl eq_refl)). apply IH. intros y Hy. apply H. now right. Qed.
Lemma list_eqb_eq {A} (eqb : A -> A -> bool) : (forall x y, eqb x y = true -> x = y) -> forall a b, list_eqb eqb a b = true -> a = b.
Proof. intros He. induction a as [|x r IH]; intros [|y s]; cbn [list_eqb]; try discriminate; auto.
  rewrite andb_true_iff. intros [H1 H2]. f_equal; auto. Qed.
Lemma list_eqb_length {A} (eqb : A -> A -> bool) : forall a b, list_eqb eqb a b = true -> length a = length b.
Proof. induction a as [|x r IH]; intros [|y s]; cbn [list_eqb]; try discriminate; auto.
  rewrite andb_true_iff. intros [_ H2]. cbn [length]. f_equal; auto. Qed.

Lemma optN_eqb_refl a : optN_eqb a a = true.
Proof. destruct a; simpl; auto. apply N.eqb_refl. Qed.
Lemma fold_eqb_refl a : fold_eqb a a = true.
Proof. unfold fold_eqb. now rewrite N.eqb_refl, optN_eqb_refl. Qed.
Lemma ofold_eqb_refl a : ofold_eqb a a = true.
Proof. destruct a; simpl; auto. apply fold_eqb_refl. Qed.
Lemma listing_eqb_refl (l : listing) : list_eqb ofold_eqb l l = true.
Proof. apply list_eqb_refl. intros; apply ofold_eqb_refl. Qed.

(* ================================================================== *)
(* Backup rotation: codes 10 and 11                                   *)
(* ================================================================== *)

(* the listing the model leaves after one step, seen through the same window as the listing before it *)
Definition bk_model_after (keep : nat) (b : listing) (st : step N) : listing :=
  listing_of (window b) (run_step keep (to_dir b) st).
(* the observations of a history, each step starting from the listing the previous one left *)
Fixpoint bk_model_obs (keep : nat) (before : listing) (sts : list (step N)) : list listing :=
  match sts with
  | [] => []
  | st :: r => let after := bk_model_after keep (set_live (fst st) before) st in after :: bk_model_obs keep after r
  end.

Lemma window_listing_of w (d : dir N) : window (listing_of w d) = w.
Proof. unfold window, listing_of. cbn [tl]. now rewrite map_length, seq_length. Qed.
Lemma to_olds_listing_of w (d : dir N) i : i < w -> to_olds (listing_of w d) i = olds d i.
Proof. intros Hi. unfold to_olds, listing_of. cbn [tl].
  rewrite (nth_indep _ None (olds d 0)) by (now rewrite map_length, seq_length).
  change (olds d 0) with (olds d (0 + 0)) at 1. rewrite map_nth. now rewrite seq_nth. Qed.
Lemma to_olds_beyond (l : listing) i : window l <= i -> to_olds l i = None.
Proof. intros H. unfold to_olds. apply nth_overflow. exact H. Qed.
Lemma window_set_live f (l : listing) : window (set_live f l) = window l.
Proof. reflexivity. Qed.
Lemma to_olds_set_live f (l : listing) : to_olds (set_live f l) = to_olds l.
Proof. reflexivity. Qed.
Lemma olds_to_dir (l : listing) : olds (to_dir l) = to_olds l.
Proof. reflexivity. Qed.

(* soundness of the history monitor (code 11) *)
Lemma bk_hist_okb_sound_l keep fs after : bk_hist_okb keep fs after = true ->
  forall i, i < length fs -> i < window after -> i < keep -> to_olds after i = nth_error (rev fs) i.
Proof. unfold bk_hist_okb. intros H i H1 H2 H3. rewrite forallb_forall in H. specialize (H i).
  rewrite in_seq in H. specialize (H ltac:(lia)). destruct (Nat.ltb_spec i keep); [|lia]. now apply ofold_eqb_eq. Qed.

(* the model's step passes the step monitor (code 10), when the listing shows at least `keep` backups
   (the harness lists old.0 .. old.7 and uses keep <= 6; with a shorter listing the rotation moves a folder out of
   sight and the monitor, which only sees the window, cannot tell a move from a loss) *)
Lemma bk_step_model_passes keep (b : listing) (st : step N) : 1 <= keep -> keep <= window b ->
  bk_step_okb keep b st (bk_model_after keep b st) = true.
Proof. intros Hk Hw. unfold bk_step_okb, bk_model_after. destruct (rotated_of st) as [|f fs'] eqn:E; [reflexivity|].
  cbv zeta. rewrite window_listing_of, Nat.eqb_refl.
  assert (Hl : hd None (listing_of (window b) (run_step keep (to_dir b) st)) = None).
  { unfold listing_of. cbn [hd]. apply run_step_live. }
  rewrite Hl. cbn [ofold_eqb andb].
  assert (Ho : olds (run_step keep (to_dir b) st) = rotate keep f (to_olds b)).
  { rewrite run_step_olds, E. reflexivity. }
  rewrite to_olds_listing_of by lia. rewrite Ho, rotate_zero, ofold_eqb_refl. cbn [andb].
  apply andb_true_iff. split; apply forallb_forall; intros i Hi; rewrite in_seq in Hi.
  - destruct (Nat.ltb_spec i (prefix (to_olds b) keep 0)) as [H1|H1]; [|reflexivity].
    destruct (Nat.ltb_spec (S i) keep) as [H2|H2]; [|reflexivity]. cbn [andb].
    rewrite to_olds_listing_of by lia. rewrite Ho, rotate_shift by assumption. apply ofold_eqb_refl.
  - destruct (Nat.ltb_spec (prefix (to_olds b) keep 0) i) as [H1|H1]; cbn [orb].
    + rewrite to_olds_listing_of by lia. rewrite Ho, rotate_untouched by (auto; lia). apply ofold_eqb_refl.
    + destruct (Nat.leb_spec keep i) as [H2|H2]; [|reflexivity].
      rewrite to_olds_listing_of by lia. rewrite Ho, rotate_untouched by (auto; lia). apply ofold_eqb_refl. Qed.

(* the history invariant, on listings *)
Definition bk_inv (keep : nat) (l : listing) (fs : list fold_t) : Prop := newest_first (to_dir l) keep fs.

Lemma bk_inv_step keep (before : listing) fs (st : step N) : 1 <= keep -> keep <= window before -> bk_inv keep before fs ->
  bk_inv keep (bk_model_after keep (set_live (fst st) before) st) (fs ++ rotated_of st).
Proof. intros Hk Hw Inv. unfold bk_inv, bk_model_after. rewrite window_set_live.
  assert (Inv1 : newest_first (to_dir (set_live (fst st) before)) keep fs) by exact Inv.
  pose proof (run_step_inv keep _ st fs Hk Inv1) as H.
  intros i Hi Hik. rewrite olds_to_dir, to_olds_listing_of by lia. apply H; assumption. Qed.

Lemma bk_hist_of_inv keep (l : listing) fs : bk_inv keep l fs -> bk_hist_okb keep fs l = true.
Proof. intros Inv. unfold bk_inv, newest_first in Inv. unfold bk_hist_okb. apply forallb_forall. intros i Hi. rewrite in_seq in Hi.
  destruct (Nat.ltb_spec i keep) as [H|H]; [|reflexivity]. unfold fold_t in *. rewrite <- (Inv i) by lia. apply ofold_eqb_refl. Qed.

Lemma bk_check_model_passes id keep : 1 <= keep -> forall sts before fs, keep <= window before -> bk_inv keep before fs ->
  bk_check id keep before fs sts (bk_model_obs keep before sts) = [].
Proof. intros Hk. induction sts as [|st r IH]; intros before fs Hw Inv; [reflexivity|].
  cbn [bk_model_obs bk_check]. cbv zeta.
  set (b := set_live (fst st) before). set (after := bk_model_after keep b st).
  assert (Hb : keep <= window b) by exact Hw.
  assert (E1 : bk_model_eqb keep b st after = true) by (unfold bk_model_eqb; apply listing_eqb_refl).
  assert (E2 : bk_step_okb keep b st after = true) by exact (bk_step_model_passes keep b st Hk Hb).
  rewrite E1, E2.
  pose proof (bk_inv_step keep before fs st Hk Hw Inv) as Inv'. fold b in Inv'. fold after in Inv'.
  rewrite (bk_hist_of_inv keep after _ Inv'). cbn [app].
  apply IH; [|exact Inv']. unfold after, bk_model_after. now rewrite window_listing_of. Qed.

(* completeness for the backup kind: every retention keep >= 1, every pre-existing set of listed backups (at least keep
   of them listed), every history of steps *)
Lemma bk_model_passes_monitor_l id keep olds0 sts : 1 <= keep -> keep <= length olds0 ->
  check_case (id, PBackup keep olds0 sts (bk_model_obs keep (None :: olds0) sts)) = [].
Proof. intros Hk Hw. cbn [check_case]. apply bk_check_model_passes; auto.
  intros i Hi. cbn [length] in Hi. lia. Qed.

(* what a backup case without code 11 says: walking the observed listings, after every step the folders handed to the
   rotation so far are old.0, old.1, ... newest first, below keep and inside the window *)
Fixpoint bk_hist_spec (keep : nat) (fs : list fold_t) (sts : list (step N)) (obs : list listing) : Prop :=
  match sts, obs with
  | st :: sts', after :: obs' =>
      let fs' := fs ++ rotated_of st in
      (forall i, i < length fs' -> i < window after -> i < keep -> to_olds after i = nth_error (rev fs') i) /\
      bk_hist_spec keep fs' sts' obs'
  | _, _ => True
  end.
(* and without code 10: every step is a rotation of the listing the previous step left *)
Fixpoint bk_steps_spec (keep : nat) (before : listing) (sts : list (step N)) (obs : list listing) : Prop :=
  match sts, obs with
  | st :: sts', after :: obs' =>
      (forall f, rotated_of st = [f] ->
         let o := to_olds before in let o' := to_olds after in let n := prefix o keep 0 in
         hd None after = None /\ o' 0 = Some f /\
         (forall i, i < window before -> i < n -> S i < keep -> o' (S i) = o i) /\
         (forall j, j < window before -> n < j \/ keep <= j -> o' j = o j)) /\
      bk_steps_spec keep after sts' obs'
  | _, _ => True
  end.

Lemma bk_check_sound id keep : forall sts obs before fs,
  (forall c, In c (bk_check id keep before fs sts obs) -> snd (fst c) <> 10%N /\ snd (fst c) <> 11%N) ->
  bk_steps_spec keep before sts obs /\ bk_hist_spec keep fs sts obs.
Proof. induction sts as [|st r IH]; intros obs before fs H; [split; exact I|].
  destruct obs as [|after obs']; [split; exact I|]. cbn [bk_check] in H. cbv zeta in H.
  cbn [bk_steps_spec bk_hist_spec]. cbv zeta.
  set (b := set_live (fst st) before) in *.
  assert (H10 : bk_step_okb keep b st after = true).
  { destruct (bk_step_okb keep b st after) eqn:E; auto. exfalso.
    destruct (H (id, 10%N, 0%N)) as [A _]; [|now apply A]. apply in_or_app. right. apply in_or_app. left. now left. }
  assert (H11 : bk_hist_okb keep (fs ++ rotated_of st) after = true).
  { destruct (bk_hist_okb keep (fs ++ rotated_of st) after) eqn:E; auto. exfalso.
    destruct (H (id, 11%N, 0%N)) as [_ A]; [|now apply A]. apply in_or_app. right. apply in_or_app. right. apply in_or_app. left. now left. }
  destruct (IH obs' after (fs ++ rotated_of st)) as [T1 T2].
  { intros c Hc. apply H. do 3 (apply in_or_app; right). exact Hc. }
  split; split; auto.
  - intros f Hf. exact (bk_step_okb_sound keep b st after f H10 Hf).
  - exact (bk_hist_okb_sound_l keep _ after H11). Qed.

Lemma bk_monitor_sound_l id keep olds0 sts obs :
  (forall c, In c (check_case (id, PBackup keep olds0 sts obs)) -> snd (fst c) <> 10%N /\ snd (fst c) <> 11%N) ->
  bk_steps_spec keep (None :: olds0) sts obs /\ bk_hist_spec keep [] sts obs.
Proof. cbn [check_case]. apply bk_check_sound. Qed.

(* ================================================================== *)
(* Peerstore file: codes 12 and 13                                    *)
(* ================================================================== *)
Local Open Scope N_scope.

Lemma tr_eqb2_refl t : tr_eqb2 t t = true.
Proof. unfold tr_eqb2. now rewrite N.eqb_refl, Bool.eqb_reflx. Qed.
Lemma tr_eqb2_eq a b : tr_eqb2 a b = true -> a = b.
Proof. destruct a as [x u], b as [y v]. unfold tr_eqb2. cbn [fst snd]. rewrite andb_true_iff. intros [H1 H2].
  apply N.eqb_eq in H1. apply Bool.eqb_prop in H2. now subst. Qed.
Lemma trs_eqb_refl (l : list transport) : list_eqb tr_eqb2 l l = true.
Proof. apply list_eqb_refl. intros; apply tr_eqb2_refl. Qed.
Lemma otr_eqb_refl t : otr_eqb t t = true.
Proof. destruct t; simpl; auto. apply tr_eqb2_refl. Qed.
Lemma paddr_eqb_refl a : paddr_eqb a a = true.
Proof. destruct a; simpl; [apply N.eqb_refl|]. now rewrite N.eqb_refl, otr_eqb_refl. Qed.
Lemma opaddr_eqb_refl a : opaddr_eqb a a = true.
Proof. destruct a; simpl; auto. apply paddr_eqb_refl. Qed.
Lemma opaddrs_eqb_refl (l : list (option paddr)) : list_eqb opaddr_eqb l l = true.
Proof. apply list_eqb_refl. intros; apply opaddr_eqb_refl. Qed.
Lemma obs_pinfo_eqb_refl pi : obs_pinfo_eqb pi pi = true.
Proof. unfold obs_pinfo_eqb. now rewrite N.eqb_refl, trs_eqb_refl. Qed.
Lemma same_infos_refl l : same_infos (Some l) l = true.
Proof. cbn [same_infos]. apply list_eqb_refl. intros; apply obs_pinfo_eqb_refl. Qed.

(* insertion sort leaves a sorted list alone *)
Lemma sort_by_sorted_id {A} (key : A -> nat) (l : list A) : StronglySorted (kle key) l -> sort_by key l = l.
Proof. induction l as [|x r IH]; intros H; [reflexivity|]. inversion H as [|? ? Hs Hall]; subst.
  cbn [sort_by fold_right]. fold (sort_by key r). rewrite (IH Hs). destruct r as [|y ys]; [reflexivity|].
  cbn [ins_by]. inversion Hall as [|? ? Hxy _]; subst. unfold kle in Hxy. destruct (Nat.leb_spec (key x) (key y)); [reflexivity|lia]. Qed.
Lemma sort_by_idem {A} (key : A -> nat) (l : list A) : sort_by key (sort_by key l) = sort_by key l.
Proof. apply sort_by_sorted_id, sort_by_sorted. Qed.

Lemma filtered_addrs_sorted ps p : sort_by tr_key (filtered_addrs ps p) = filtered_addrs ps p.
Proof. unfold filtered_addrs. cbv zeta. match goal with |- context [match ?x with [] => _ | _ :: _ => _ end] => destruct x end; apply sort_by_idem. Qed.

Lemma peer_infos_in self ps peers pi : In pi (peer_infos self ps peers) -> snd pi = filtered_addrs ps (fst pi).
Proof. unfold peer_infos. intros H. apply (Permutation_in _ (sort_by_perm _ _)) in H. apply in_flat_map in H.
  destruct H as [q [_ Hq]]. destruct (N.eqb q self); [destruct Hq|].
  destruct (filtered_addrs ps q) as [|t ts] eqn:E; [destruct Hq|]. destruct Hq as [<-|[]]. cbn [fst snd]. now rewrite E. Qed.

Lemma pinfo_eqb_refl_sorted pi : sort_by tr_key (snd pi) = snd pi -> pinfo_eqb pi pi = true.
Proof. intros H. unfold pinfo_eqb. rewrite N.eqb_refl, H. cbn [andb]. destruct (existsb _ _); apply trs_eqb_refl. Qed.

Lemma sorted_nat_of_sorted {A} (key : A -> nat) (l : list A) : StronglySorted (kle key) l -> sorted_nat (map key l) = true.
Proof. induction l as [|x r IH]; intros H; [reflexivity|]. inversion H as [|? ? Hs Hall]; subst.
  destruct r as [|y ys]; [reflexivity|]. cbn [map sorted_nat]. inversion Hall as [|? ? Hxy _]; subst. unfold kle in Hxy.
  apply andb_true_iff. split; [now apply Nat.leb_le|]. exact (IH Hs). Qed.

(* the comparison of the model's PeerInfos with itself succeeds (both branches of the tie rule) *)
Lemma pinfos_eqb_refl self ps peers : pinfos_eqb ps (peer_infos self ps peers) (peer_infos self ps peers) = true.
Proof. set (m := peer_infos self ps peers).
  assert (Hr : forall x, In x m -> pinfo_eqb x x = true).
  { intros x Hx. apply pinfo_eqb_refl_sorted. rewrite (peer_infos_in self ps peers x Hx). apply filtered_addrs_sorted. }
  unfold pinfos_eqb. destruct (nodup_nat _); [now apply list_eqb_refl|].
  rewrite Nat.eqb_refl. cbn [andb]. apply andb_true_iff. split.
  - apply forallb_forall. intros x Hx. apply existsb_exists. exists x. split; auto.
  - unfold m, peer_infos. apply (sorted_nat_of_sorted (fun pi : pinfo => prio_of ps (fst pi))). apply sort_by_sorted. Qed.

(* ---- arbitrary files (code 12) ---- *)
Definition ps_file_model_infos (self : N) (ls : list line) (query : list N) : option (list pinfo) :=
  match import_file true self ls ps_empty with ICrash => None | IOk ps => Some (peer_infos self ps query) end.

Lemma forallb_is_some_load ls : forallb is_some (load_lines ls) = true.
Proof. apply forallb_forall. intros a Ha. pose proof (load_lines_no_nil ls a Ha). destruct a; [reflexivity|congruence]. Qed.

(* completeness: every file, every host identity, every query *)
Lemma ps_file_model_passes_monitor_l id self ls query :
  check_case (id, PPsFile self ls query (load_lines ls) (ps_file_model_infos self ls query)) = [].
Proof. cbn [check_case]. unfold ps_file_check, ps_file_model_infos. rewrite opaddrs_eqb_refl, forallb_is_some_load. cbn [andb].
  destruct (import_file true self ls ps_empty) as [|ps] eqn:E; [exfalso; exact (import_file_no_crash self ls ps_empty E)|].
  cbn [opinfos_eqb is_some]. now rewrite pinfos_eqb_refl. Qed.

(* soundness: no code 12 means LoadPeerstore returned no nil element and the import did not crash *)
Lemma ps_file_monitor_sound_l id self ls query obs_load obs_infos :
  (forall c, In c (check_case (id, PPsFile self ls query obs_load obs_infos)) -> snd (fst c) <> 12) ->
  (forall a, In a obs_load -> a <> None) /\ obs_infos <> None.
Proof. cbn [check_case]. unfold ps_file_check. intros H.
  destruct (forallb is_some obs_load && is_some obs_infos) eqn:E.
  - apply andb_true_iff in E. destruct E as [E1 E2]. rewrite forallb_forall in E1. split.
    + intros a Ha. specialize (E1 a Ha). destruct a; [discriminate|discriminate E1].
    + destruct obs_infos; [discriminate|discriminate E2].
  - exfalso. apply (H (id, 12, 0)); [|reflexivity]. apply in_or_app. right. now left. Qed.

(* ---- save on one host, load on another (code 13) ---- *)
Lemma fold_add_ok p trs : forall ps, ps_ok ps -> ps_ok (fold_left (fun a t => add_addr p t a) trs ps).
Proof. induction trs as [|t r IH]; intros ps H; [exact H|]. cbn [fold_left]. apply IH. now apply add_addr_ok. Qed.
Lemma ps_build_ok pre : ps_ok (ps_build pre).
Proof. unfold ps_build. generalize ps_empty_ok. generalize ps_empty. induction pre as [|[[p trs] pr] r IH]; intros ps H; [exact H|].
  cbn [fold_left]. apply IH. destruct pr; [apply set_prio_ok|]; now apply fold_add_ok. Qed.

Lemma group_loaded_cons p t r : group_loaded (Some (PP2p p (Some t)) :: r) =
  match group_loaded r with
  | Some ((q, ts) :: g) => if N.eqb p q then Some ((q, t :: ts) :: g) else Some ((p, [t]) :: (q, ts) :: g)
  | Some [] => Some [(p, [t])]
  | None => None
  end.
Proof. reflexivity. Qed.
Lemma group_loaded_one p : forall trs r, trs <> [] -> (match r with (q, _) :: _ => q <> p | [] => True end) ->
  forall rest, group_loaded rest = Some r ->
  group_loaded (map (fun t => Some (PP2p p (Some t))) trs ++ rest) = Some ((p, trs) :: r).
Proof. induction trs as [|t ts IH]; intros r Hne Hr rest E; [congruence|].
  cbn [map app]. rewrite group_loaded_cons. destruct ts as [|t' ts'].
  - cbn [map app]. rewrite E. destruct r as [|[q ts] g]; [reflexivity|].
    destruct (N.eqb_spec p q) as [->|_]; [congruence|reflexivity].
  - rewrite (IH r ltac:(discriminate) Hr rest E). now rewrite N.eqb_refl. Qed.

Lemma group_loaded_loaded infos : wf_infos infos -> group_loaded (loaded_of infos) = Some infos.
Proof. intros [Hnd Hw]. induction infos as [|[p trs] r IH]; [reflexivity|].
  cbn [loaded_of flat_map fst snd]. fold (loaded_of r). cbn [map] in Hnd. inversion Hnd as [|? ? Hp Hr]; subst.
  apply group_loaded_one.
  - destruct (Hw (p, trs) (or_introl eq_refl)) as [H _]. exact H.
  - destruct r as [|[q ts] g]; [exact I|]. intros ->. apply Hp. now left.
  - apply IH; auto. intros pi Hpi. apply Hw. now right. Qed.

Definition ps_save_model_obs0 (self1 : N) (pre : list (N * list transport * option nat)) (query : list N) : list pinfo :=
  peer_infos self1 (ps_build pre) query.

(* completeness: every peerstore host 1 can have built, every duplicate-free query on host 1, host 2 not among the saved
   peers (PeerInfos never lists the local peer and the harness uses two distinct identities), host 2 asked for exactly the
   saved peers in any order *)
Lemma ps_save_model_passes_monitor_l id self1 self2 pre query query2 :
  let obs0 := ps_save_model_obs0 self1 pre query in
  NoDup query -> ~ In self2 (map fst obs0) -> Permutation query2 (map fst obs0) ->
  check_case (id, PPsSave self1 self2 pre query query2 obs0 (save_lines obs0) (load_lines (save_lines obs0))
                          (reload self2 obs0 query2)) = [].
Proof. intros obs0 Hnd Hs Hp. cbn [check_case]. unfold ps_save_check.
  assert (Hwf : wf_infos obs0) by (apply peer_infos_wf; [apply ps_build_ok|exact Hnd]).
  pose proof (reload_roundtrip self2 obs0 query2 Hwf Hs Hp) as Hre.
  rewrite load_save, (group_loaded_loaded obs0 Hwf), same_infos_refl, Nat.eqb_refl, opaddrs_eqb_refl.
  fold (ps_save_model_obs0 self1 pre query). fold obs0. unfold ps_save_model_obs0 in obs0.
  assert (E0 : pinfos_eqb (ps_build pre) obs0 obs0 = true) by apply pinfos_eqb_refl. rewrite E0. cbn [andb].
  rewrite Hre, same_infos_refl. cbn [andb app].
  unfold reload in Hre. destruct (import_file true self2 (save_lines obs0) ps_empty) as [|ps] eqn:E; [discriminate|].
  injection Hre as Hre. cbn [opinfos_eqb]. rewrite <- Hre. now rewrite pinfos_eqb_refl. Qed.

(* Prop-level reading of code 13: the same peers in the same order, each with the same set of addresses *)
Definition same_peers_same_addrs (a b : list pinfo) : Prop :=
  Forall2 (fun x y => fst x = fst y /\ Permutation (snd x) (snd y)) a b.

Lemma obs_pinfo_eqb_sound x y : obs_pinfo_eqb x y = true -> fst x = fst y /\ Permutation (snd x) (snd y).
Proof. unfold obs_pinfo_eqb. rewrite andb_true_iff. intros [H1 H2]. apply N.eqb_eq in H1. split; auto.
  apply (list_eqb_eq tr_eqb2 tr_eqb2_eq) in H2.
  apply Permutation_trans with (sort_by tr_key (snd x)); [symmetry; apply sort_by_perm|]. rewrite H2. apply sort_by_perm. Qed.
Lemma same_infos_sound a b : same_infos a b = true -> exists l, a = Some l /\ same_peers_same_addrs l b.
Proof. destruct a as [l|]; [|discriminate]. cbn [same_infos]. intros H. exists l. split; auto.
  revert b H. induction l as [|x r IH]; intros [|y s]; cbn [list_eqb]; try discriminate; [constructor|].
  rewrite andb_true_iff. intros [H1 H2]. constructor; [now apply obs_pinfo_eqb_sound|now apply IH]. Qed.

Lemma ps_save_monitor_sound_l id self1 self2 pre query query2 obs0 obs_lines obs_load obs2 :
  (forall c, In c (check_case (id, PPsSave self1 self2 pre query query2 obs0 obs_lines obs_load obs2)) -> snd (fst c) <> 13) ->
  exists g l2, group_loaded obs_load = Some g /\ obs2 = Some l2 /\ same_peers_same_addrs g obs0 /\ same_peers_same_addrs l2 obs0.
Proof. cbn [check_case]. unfold ps_save_check. intros H.
  destruct (same_infos (group_loaded obs_load) obs0 && same_infos obs2 obs0) eqn:E.
  - apply andb_true_iff in E. destruct E as [E1 E2]. apply same_infos_sound in E1, E2.
    destruct E1 as [g [G1 G2]]. destruct E2 as [l2 [L1 L2]]. exists g, l2. auto.
  - exfalso. apply (H (id, 13, 0)); [|reflexivity]. apply in_or_app. right. now left. Qed.

(* ================================================================== *)
(* Pinsets: codes 14 (Marshal/Unmarshal), 15 and 10 (snapshots)        *)
(* ================================================================== *)

Lemma pinv_eqb_refl a : pinv_eqb a a = true.
Proof. unfold pinv_eqb. now rewrite !N.eqb_refl. Qed.
Lemma entry_eqb_refl a : entry_eqb a a = true.
Proof. unfold entry_eqb. now rewrite N.eqb_refl, pinv_eqb_refl. Qed.
Lemma entries_eqb_refl l : entries_eqb l l = true.
Proof. apply list_eqb_refl. intros; apply entry_eqb_refl. Qed.
Lemma entry_eqb_eq a b : entry_eqb a b = true -> a = b.
Proof. destruct a as [c [x y]], b as [c' [x' y']]. unfold entry_eqb, pinv_eqb. cbn [fst snd].
  rewrite !andb_true_iff. intros [H1 [H2 H3]]. apply N.eqb_eq in H1, H2, H3. now subst. Qed.
Lemma entries_eqb_eq a b : entries_eqb a b = true -> a = b.
Proof. apply list_eqb_eq. exact entry_eqb_eq. Qed.

(* the canonical listing is insertion sort on the cid *)
Definition ekey (e : entry) : nat := N.to_nat (fst e).
(* entries strictly sorted by cid: the form in which the harness writes every pinset *)
Definition cid_sorted (l : list entry) : Prop := StronglySorted (klt ekey) l.

Lemma ins_entry_ins_by e l : ins_entry e l = ins_by ekey e l.
Proof. induction l as [|x r IH]; [reflexivity|]. cbn [ins_entry ins_by]. rewrite IH.
  unfold ekey. destruct (N.leb_spec (fst e) (fst x)); destruct (Nat.leb_spec (N.to_nat (fst e)) (N.to_nat (fst x))); auto; lia. Qed.
Lemma sorted_entries_sort_by s : sorted_entries s = sort_by ekey s.
Proof. induction s as [|e r IH]; [reflexivity|]. cbn [sorted_entries sort_by fold_right].
  fold (sorted_entries r). fold (sort_by ekey r). now rewrite IH, ins_entry_ins_by. Qed.

Lemma cid_sorted_nodup l : cid_sorted l -> keys_nodup l.
Proof. unfold keys_nodup. induction 1 as [|x r Hs IH Hall]; [constructor|]. cbn [map]. constructor; auto.
  intros Hin. apply in_map_iff in Hin. destruct Hin as [y [E Hy]]. rewrite Forall_forall in Hall. specialize (Hall y Hy).
  unfold klt, ekey in Hall. rewrite E in Hall. lia. Qed.

Lemma NoDup_of_keys (l : list entry) : keys_nodup l -> NoDup l.
Proof. unfold keys_nodup. induction l as [|x r IH]; intros H; [constructor|]. cbn [map] in H. inversion H as [|? ? Hn Hr]; subst.
  constructor; auto. intros Hin. apply Hn. now apply in_map. Qed.

Lemma same_pinset_perm a b : keys_nodup a -> keys_nodup b -> same_pinset a b -> Permutation a b.
Proof. intros Ha Hb Hs. apply NoDup_Permutation; [now apply NoDup_of_keys|now apply NoDup_of_keys|].
  intros [c v]. split; intros H.
  - apply aget_some_in. rewrite <- Hs. now apply aget_in.
  - apply aget_some_in. rewrite Hs. now apply aget_in. Qed.

Lemma sorted_entries_canon s pins : keys_nodup s -> cid_sorted pins -> same_pinset s pins -> sorted_entries s = pins.
Proof. intros Hs Hp Hsame. rewrite sorted_entries_sort_by. apply sort_by_of_perm; [exact Hp|].
  apply same_pinset_perm; auto. now apply cid_sorted_nodup. Qed.

Lemma keys_nodup_nil : keys_nodup [].
Proof. constructor. Qed.

(* Marshal in any datastore order, Unmarshal onto an empty store, list: the pinset one started from *)
Lemma roundtrip_sorted ord pins : order_oracle ord -> cid_sorted pins ->
  sorted_entries (unmarshal (marshal ord pins) []) = pins.
Proof. intros Ho Hp. apply sorted_entries_canon; auto.
  - apply unmarshal_nodup, keys_nodup_nil.
  - apply marshal_unmarshal_same; auto. now apply cid_sorted_nodup. Qed.
Lemma order_oracle_id : order_oracle (fun x => x).
Proof. intros s. apply Permutation_refl. Qed.
Lemma roundtrip_sorted_id pins : cid_sorted pins -> sorted_entries (unmarshal pins []) = pins.
Proof. intros Hp. exact (roundtrip_sorted (fun x => x) pins order_oracle_id Hp). Qed.

(* ---- code 14 ---- *)
Lemma marshal_model_passes_monitor_l id ord pins : order_oracle ord -> cid_sorted pins ->
  check_case (id, PMarshal pins (Some (sorted_entries (unmarshal (marshal ord pins) [])))) = [].
Proof. intros Ho Hp. cbn [check_case]. unfold marshal_check. rewrite (roundtrip_sorted ord pins Ho Hp).
  rewrite (roundtrip_sorted (fun x => x) pins order_oracle_id Hp). cbn [oentries_eqb]. now rewrite entries_eqb_refl. Qed.

Lemma marshal_monitor_sound_l id pins obs :
  (forall c, In c (check_case (id, PMarshal pins obs)) -> snd (fst c) <> 14) -> obs = Some pins.
Proof. cbn [check_case]. unfold marshal_check. intros H. destruct (oentries_eqb pins obs) eqn:E.
  - destruct obs as [l|]; [|discriminate]. cbn [oentries_eqb] in E. apply entries_eqb_eq in E. now subst.
  - exfalso. apply (H (id, 14, 0)); [|reflexivity]. apply in_or_app. right. now left. Qed.

(* ---- snapshots: the table of numbered pinsets ---- *)
Definition in_table (t : ptable) (i : N) : Prop := In i (map fst t).
(* what the harness's interner guarantees: one row per number, every row cid-sorted, no two rows with the same content *)
Definition table_ok (t : ptable) : Prop :=
  NoDup (map fst t) /\ (forall i es, In (i, es) t -> cid_sorted es) /\
  (forall i j es, In (i, es) t -> In (j, es) t -> i = j).

Lemma pinset_of_in t i : NoDup (map fst t) -> in_table t i -> In (i, pinset_of t i) t.
Proof. intros Hnd Hin. unfold in_table in Hin. apply in_map_iff in Hin. destruct Hin as [[j es] [E Hx]]. cbn [fst] in E. subst j.
  unfold pinset_of. now rewrite (aget_in i es t Hnd Hx). Qed.
Lemma pinset_of_sorted t i : table_ok t -> cid_sorted (pinset_of t i).
Proof. intros [Hnd [Hs _]]. unfold pinset_of. destruct (aget i t) as [es|] eqn:E; [|constructor].
  apply aget_some_in in E. eapply Hs; eauto. Qed.
Lemma id_of_pinset t i : table_ok t -> in_table t i -> id_of t (pinset_of t i) = i.
Proof. intros [Hnd [Hs Hinj]] Hin. pose proof (pinset_of_in t i Hnd Hin) as Hx. unfold id_of.
  destruct (find (fun x : N * list entry => entries_eqb (snd x) (pinset_of t i)) t) as [[j es]|] eqn:F.
  - apply find_some in F. destruct F as [F1 F2]. cbn [snd] in F2. apply entries_eqb_eq in F2. subst es. cbn [fst]. eapply Hinj; eauto.
  - exfalso. pose proof (find_none _ _ F _ Hx) as Hn. cbn [snd] in Hn. now rewrite entries_eqb_refl in Hn. Qed.

(* the two directions of the payload translation used by snap_check *)
Definition encf (t : ptable) (f : fold_t) : folder snapshot :=
  match f with (m, Some i) => (m, Some (pinset_of t i)) | (m, None) => (m, None) end.
Definition enc (t : ptable) (f : option fold_t) : option (folder snapshot) := option_map (encf t) f.
Definition dec (t : ptable) (f : option (folder snapshot)) : option fold_t :=
  match f with
  | Some (m, Some es) => Some (m, Some (id_of t (sorted_entries (unmarshal es []))))
  | Some (m, None) => Some (m, None)
  | None => None end.
Definition fold_ok (t : ptable) (f : option fold_t) : Prop := forall m i, f = Some (m, Some i) -> in_table t i.

Lemma dec_enc t f : table_ok t -> fold_ok t f -> dec t (enc t f) = f.
Proof. intros Ht Hf. destruct f as [[m [i|]]|]; cbn [enc option_map encf dec]; auto.
  rewrite (roundtrip_sorted_id _ (pinset_of_sorted t i Ht)). rewrite id_of_pinset; auto. eapply Hf; eauto. Qed.

Lemma from_listing_live t l : live (from_listing t l) = enc t (hd None l).
Proof. unfold from_listing. cbn [live]. destruct (hd None l) as [[m [i|]]|]; reflexivity. Qed.
Lemma from_listing_olds t l k : olds (from_listing t l) k = enc t (to_olds l k).
Proof. unfold from_listing. cbn [olds]. destruct (to_olds l k) as [[m [i|]]|]; reflexivity. Qed.
Lemma snap_listing_dec t w d : snap_listing t w d = map (dec t) (live d :: map (olds d) (seq O w)).
Proof. unfold snap_listing. apply map_ext. intros [[m [es|]]|]; reflexivity. Qed.

(* ---- the directory at the level of pinset numbers, and its relation to the directory of payloads ---- *)
Definition sop_ids (keep : nat) (op : sop) (d : dir N) : dir N :=
  match op with
  | OSave i => snapshot_save keep i d
  | OClean => cleanup keep d
  | OBare m => mk_dir (Some (m, None)) (olds d)
  | OMore i => mk_dir (Some (match live d with Some (m, _) => m | None => 0 end, Some i)) (olds d)
  | OStart => d
  end.
Definition dir_rel (t : ptable) (dn : dir N) (ds : dir snapshot) : Prop :=
  live ds = enc t (live dn) /\ forall k, olds ds k = enc t (olds dn k).

Section Rel.
Context {A B : Type} (g : A -> B).
Lemma prefix_rel (oa : nat -> option A) (ob : nat -> option B) : (forall k, ob k = option_map g (oa k)) ->
  forall keep from, prefix ob keep from = prefix oa keep from.
Proof. intros H. induction keep as [|n IH]; intros from; [reflexivity|]. cbn [prefix]. rewrite H.
  destruct (oa from); cbn [option_map]; [now rewrite IH|reflexivity]. Qed.
Lemma rotate_rel keep (f : A) (oa : nat -> option A) (ob : nat -> option B) : (forall k, ob k = option_map g (oa k)) ->
  forall j, rotate keep (g f) ob j = option_map g (rotate keep f oa j).
Proof. intros H j. unfold rotate. rewrite (prefix_rel oa ob H). set (n := prefix oa keep 0).
  unfold upd at 1 3. destruct (Nat.eqb j 0); [reflexivity|]. rewrite !shift_spec.
  destruct (Nat.eqb j 0); [destruct (keep <=? n)%nat|].
  - destruct (Nat.eqb (n - 1) 0); [|reflexivity]. unfold upd. destruct (Nat.eqb 0 (n - 1)); [reflexivity|apply H].
  - destruct (Nat.eqb n 0); [apply H|reflexivity].
  - destruct (keep <=? n)%nat.
    + destruct (j <=? n - 1)%nat; unfold upd.
      * destruct (Nat.eqb (j - 1) (n - 1)); [reflexivity|apply H].
      * destruct (Nat.eqb j (n - 1)); [reflexivity|apply H].
    + destruct (j <=? n)%nat; apply H. Qed.
End Rel.

Lemma cleanup_rel t keep dn ds : dir_rel t dn ds -> dir_rel t (cleanup keep dn) (cleanup keep ds).
Proof. destruct dn as [ln on], ds as [ls os]. unfold dir_rel. cbn [live olds]. intros [Hl Ho]. subst ls.
  destruct ln as [[m [i|]]|]; cbn [enc option_map encf cleanup make_backup live olds]; split; auto.
  intros k. exact (rotate_rel (encf t) keep (m, Some i) on os Ho k). Qed.
Lemma snapshot_save_rel t keep i dn ds : dir_rel t dn ds ->
  dir_rel t (snapshot_save keep i dn) (snapshot_save keep (pinset_of t i) ds).
Proof. intros H. pose proof (cleanup_rel t keep dn ds H) as Hc. destruct dn as [ln on], ds as [ls os].
  unfold dir_rel in *. cbn [live olds] in *. destruct H as [Hl Ho]. subst ls.
  destruct ln as [[m [j|]]|]; cbn [enc option_map encf snapshot_save live olds] in *; split; auto. exact (proj2 Hc). Qed.
Lemma sop_rel t keep op dn ds : dir_rel t dn ds -> dir_rel t (sop_ids keep op dn) (sop_model keep t op ds).
Proof. intros H. destruct op as [i| |m|i|]; cbn [sop_ids sop_model].
  - unfold marshal. now apply snapshot_save_rel.
  - now apply cleanup_rel.
  - destruct H as [_ Ho]. split; auto.
  - destruct H as [Hl Ho]. split; auto. cbn [live]. rewrite Hl. unfold marshal.
    destruct (live dn) as [[m [j|]]|]; reflexivity.
  - exact H. Qed.
Lemma from_listing_rel t l : dir_rel t (to_dir l) (from_listing t l).
Proof. split; [apply from_listing_live|apply from_listing_olds]. Qed.

(* every pinset number in a directory is a row of the table *)
Definition dir_ok (t : ptable) (d : dir N) : Prop := fold_ok t (live d) /\ forall k, fold_ok t (olds d k).
Definition listing_ok (t : ptable) (l : listing) : Prop := forall f, In f l -> fold_ok t f.
Definition op_ok (t : ptable) (op : sop) : Prop := match op with OSave i | OMore i => in_table t i | _ => True end.

Lemma fold_ok_none t : fold_ok t None.
Proof. intros m i H. discriminate. Qed.
Lemma to_dir_ok t l : listing_ok t l -> dir_ok t (to_dir l).
Proof. intros H. split.
  - cbn [to_dir live]. destruct l as [|f r]; [apply fold_ok_none|]. apply H. now left.
  - intros k. cbn [to_dir olds]. unfold to_olds. destruct (nth_in_or_default k (tl l) None) as [Hin|E].
    + apply H. destruct l; [destruct Hin|]. now right.
    + rewrite E. apply fold_ok_none. Qed.
Lemma listing_of_ok t w d : dir_ok t d -> listing_ok t (listing_of w d).
Proof. intros [H1 H2] f [<-|Hin]; auto. apply in_map_iff in Hin. destruct Hin as [k [<- _]]. apply H2. Qed.
Lemma cleanup_ok t keep d : (1 <= keep)%nat -> dir_ok t d -> dir_ok t (cleanup keep d).
Proof. intros Hk. destruct d as [l o]. intros [H1 H2]. cbn [live olds] in *.
  destruct l as [[m [i|]]|]; cbn [cleanup make_backup live olds]; split; auto using fold_ok_none.
  intros k m' i' E. destruct (rotate_nothing_new keep (m, Some i) o k (m', Some i') Hk E) as [Ef|[k' Ek]].
  - injection Ef as -> ->. now apply (H1 m i).
  - now apply (H2 k' m' i'). Qed.
Lemma sop_ids_ok t keep op d : (1 <= keep)%nat -> op_ok t op -> dir_ok t d -> dir_ok t (sop_ids keep op d).
Proof. intros Hk Hop Hd. destruct op as [i| |m|i|]; cbn [sop_ids op_ok] in *.
  - pose proof (cleanup_ok t keep d Hk Hd) as Hc. destruct d as [l o]. destruct Hd as [H1 H2]. cbn [live olds] in *.
    assert (Hnew : forall m, fold_ok t (Some (m, Some i))) by (intros m m' i' E; injection E as _ <-; exact Hop).
    destruct l as [[m [j|]]|]; cbn [snapshot_save live olds]; (split; cbn [live olds]; [apply Hnew|first [exact H2|exact (proj2 Hc)]]).
  - now apply cleanup_ok.
  - destruct Hd as [_ H2]. split; auto. intros m' i' E. discriminate.
  - destruct Hd as [_ H2]. split; auto. intros m' i' E. cbn [live] in E. injection E as _ <-. exact Hop.
  - exact Hd. Qed.

(* the model's observation of one operation *)
Definition snap_model_step (keep : nat) (t : ptable) (before : listing) (op : sop) : listing * list entry * list entry :=
  let d' := sop_model keep t op (from_listing t before) in
  (snap_listing t (window before) d', sorted_entries (offline_state d' []),
   sorted_entries (match last_state_raw d' with Some es => unmarshal es [] | None => [] end)).
Fixpoint snap_model_obs (keep : nat) (t : ptable) (before : listing) (ops : list sop) : list (listing * list entry * list entry) :=
  match ops with
  | [] => []
  | op :: r => let o := snap_model_step keep t before op in o :: snap_model_obs keep t (fst (fst o)) r
  end.

(* the listing the model leaves is the listing of the number-level directory *)
Lemma snap_model_listing keep t before op : (1 <= keep)%nat -> table_ok t -> listing_ok t before -> op_ok t op ->
  fst (fst (snap_model_step keep t before op)) = listing_of (window before) (sop_ids keep op (to_dir before)).
Proof. intros Hk Ht Hb Hop. unfold snap_model_step. cbn [fst]. rewrite snap_listing_dec.
  destruct (sop_rel t keep op _ _ (from_listing_rel t before)) as [Rl Ro].
  pose proof (sop_ids_ok t keep op _ Hk Hop (to_dir_ok t before Hb)) as [Ol Oo].
  unfold listing_of. cbn [map]. rewrite Rl, dec_enc by auto. f_equal. rewrite map_map. apply map_ext.
  intros k. rewrite Ro. now apply dec_enc. Qed.

Lemma snap_model_live keep t before op :
  live (sop_model keep t op (from_listing t before)) = enc t (live (sop_ids keep op (to_dir before))).
Proof. exact (proj1 (sop_rel t keep op _ _ (from_listing_rel t before))). Qed.

(* what is read offline after the operation, when the live folder holds pinset number i *)
Lemma snap_model_reads keep t before op m i : table_ok t ->
  live (sop_ids keep op (to_dir before)) = Some (m, Some i) ->
  snd (fst (snap_model_step keep t before op)) = pinset_of t i /\ snd (snap_model_step keep t before op) = pinset_of t i.
Proof. intros Ht E. unfold snap_model_step. cbn [fst snd]. unfold offline_state, last_state_raw.
  rewrite snap_model_live, E. cbn [enc option_map encf]. split; apply roundtrip_sorted_id, pinset_of_sorted, Ht. Qed.

Lemma hd_to_dir (l : listing) : live (to_dir l) = hd None l.
Proof. reflexivity. Qed.
Lemma to_dir_eta (l : listing) : to_dir l = mk_dir (hd None l) (to_olds l).
Proof. reflexivity. Qed.

(* one operation of the model raises no code *)
Lemma snap_step_model_passes id keep t before op : (1 <= keep)%nat -> (keep <= window before)%nat ->
  table_ok t -> listing_ok t before -> op_ok t op ->
  let o := snap_model_step keep t before op in
  forall ops' obs', snap_check id keep t before (op :: ops') (o :: obs') = snap_check id keep t (fst (fst o)) ops' obs'.
Proof. intros Hk Hw Ht Hb Hop o ops' obs'.
  pose proof (snap_model_listing keep t before op Hk Ht Hb Hop) as Hl. fold o in Hl.
  destruct o as [[after off] raw] eqn:Eo. cbn [fst snd] in Hl. cbn [snap_check fst]. cbv zeta.
  assert (E1 : after = snap_listing t (window before) (sop_model keep t op (from_listing t before))) by (unfold o, snap_model_step in Eo; now injection Eo).
  assert (E2 : off = sorted_entries (offline_state (sop_model keep t op (from_listing t before)) [])) by (unfold o, snap_model_step in Eo; now injection Eo).
  assert (E3 : raw = sorted_entries (match last_state_raw (sop_model keep t op (from_listing t before)) with Some es => unmarshal es [] | None => [] end))
    by (unfold o, snap_model_step in Eo; now injection Eo).
  rewrite <- E1, <- E2, <- E3, listing_eqb_refl, !entries_eqb_refl. cbn [andb app].
  (* code 15 *)
  assert (C15 : match op with
       | OSave i | OMore i => if entries_eqb off (pinset_of t i) && entries_eqb raw (pinset_of t i) then [] else [(id, 15, 0)]
       | OStart => match hd None before with
                   | Some (_, Some i) => if entries_eqb off (pinset_of t i) then [] else [(id, 15, 0)]
                   | _ => [] end
       | _ => [] end = []).
  { assert (Hrd : forall m i, live (sop_ids keep op (to_dir before)) = Some (m, Some i) -> off = pinset_of t i /\ raw = pinset_of t i).
    { intros m i E. pose proof (snap_model_reads keep t before op m i Ht E) as R. fold o in R. rewrite Eo in R. exact R. }
    destruct op as [i| |m|i|]; auto.
    - assert (exists m, live (sop_ids keep (OSave i) (to_dir before)) = Some (m, Some i)) as [m E].
      { cbn [sop_ids]. destruct (to_dir before) as [[[m [j|]]|] ob]; cbn [snapshot_save live]; eauto. }
      destruct (Hrd m i E) as [-> ->]. now rewrite entries_eqb_refl.
    - destruct (Hrd _ i eq_refl) as [-> ->]. now rewrite entries_eqb_refl.
    - destruct (hd None before) as [[m [i|]]|] eqn:Eh; auto.
      destruct (Hrd m i Eh) as [-> _]. now rewrite entries_eqb_refl. }
  rewrite C15. cbn [app].
  (* code 10 *)
  assert (C10 : match sop_step op before with
       | Some st => if bk_step_okb keep before st (match op with OSave _ => set_live None after | _ => after end) then [] else [(id, 10, 0)]
       | None => [] end = []).
  { destruct (sop_step op before) as [st|] eqn:Es; auto.
    assert (Hst : exists m i, hd None before = Some (m, Some i) /\ st = (Some (m, Some i), true) /\
                   (op = OClean \/ exists j, op = OSave j)).
    { unfold sop_step in Es. destruct op as [j| |m0|j|]; try discriminate; destruct (hd None before) as [[m [i|]]|] eqn:Eh; try discriminate;
        injection Es as <-; eauto 7. }
    destruct Hst as [m [i [Eh [-> Hop']]]].
    assert (Hgoal : (match op with OSave _ => set_live None after | _ => after end) = bk_model_after keep before (Some (m, Some i), true)).
    { unfold bk_model_after, run_step. cbn [fst snd]. rewrite Hl, to_dir_eta, Eh. cbn [olds].
      destruct Hop' as [->|[j ->]]; cbn [sop_ids]; [reflexivity|].
      cbn [snapshot_save live]. unfold listing_of, set_live. cbn [tl live olds cleanup make_backup]. reflexivity. }
    rewrite Hgoal, bk_step_model_passes by assumption. reflexivity. }
  rewrite C10. reflexivity. Qed.

Lemma snap_check_model_passes id keep t : (1 <= keep)%nat -> table_ok t -> forall ops before,
  (keep <= window before)%nat -> listing_ok t before -> (forall op, In op ops -> op_ok t op) ->
  snap_check id keep t before ops (snap_model_obs keep t before ops) = [].
Proof. intros Hk Ht. induction ops as [|op r IH]; intros before Hw Hb Hops; [reflexivity|].
  cbn [snap_model_obs]. cbv zeta.
  assert (Hop : op_ok t op) by (apply Hops; now left).
  rewrite (snap_step_model_passes id keep t before op Hk Hw Ht Hb Hop).
  pose proof (snap_model_listing keep t before op Hk Ht Hb Hop) as Hl.
  apply IH.
  - rewrite Hl. now rewrite window_listing_of.
  - rewrite Hl. apply listing_of_ok. apply sop_ids_ok; auto. now apply to_dir_ok.
  - intros op' H'. apply Hops. now right. Qed.

(* completeness for the snapshot kind: every retention keep >= 1, every table the interner can produce, every listed set of
   backups (at least keep listed, every number a row of the table), every history of operations *)
Lemma snap_model_passes_monitor_l id keep t olds0 ops : (1 <= keep)%nat -> (keep <= length olds0)%nat -> table_ok t ->
  listing_ok t olds0 -> (forall op, In op ops -> op_ok t op) ->
  check_case (id, PSnap keep t olds0 ops (snap_model_obs keep t (None :: olds0) ops)) = [].
Proof. intros Hk Hw Ht Hb Hops. cbn [check_case]. apply snap_check_model_passes; auto.
  intros f [<-|Hf]; [apply fold_ok_none|now apply Hb]. Qed.

(* soundness for the snapshot kind: what a history without codes 15 and 10 says, walking the observed listings *)
Fixpoint snap_spec (keep : nat) (t : ptable) (before : listing) (ops : list sop)
         (obs : list (listing * list entry * list entry)) : Prop :=
  match ops, obs with
  | op :: ops', (after, off, raw) :: obs' =>
      (* a saved pinset reads back offline, through OfflineState and through LastStateRaw + Unmarshal *)
      (match op with
       | OSave i | OMore i => off = pinset_of t i /\ raw = pinset_of t i
       | OStart => forall m i, hd None before = Some (m, Some i) -> off = pinset_of t i
       | _ => True end) /\
      (* data that held a snapshot is the newest backup afterwards, older ones shift, the rest is untouched *)
      (forall m i, hd None before = Some (m, Some i) -> (op = OClean \/ exists j, op = OSave j) ->
         let o := to_olds before in let o' := to_olds after in let n := prefix o keep 0 in
         (op = OClean -> hd None after = None) /\ o' O = Some (m, Some i) /\
         (forall k, (k < window before)%nat -> (k < n)%nat -> (S k < keep)%nat -> o' (S k) = o k) /\
         (forall j, (j < window before)%nat -> (n < j)%nat \/ (keep <= j)%nat -> o' j = o j)) /\
      snap_spec keep t after ops' obs'
  | _, _ => True
  end.

Lemma snap_check_sound id keep t : forall ops obs before,
  (forall c, In c (snap_check id keep t before ops obs) -> snd (fst c) <> 15 /\ snd (fst c) <> 10) ->
  snap_spec keep t before ops obs.
Proof. induction ops as [|op r IH]; intros obs before H; [exact I|].
  destruct obs as [|[[after off] raw] obs']; [exact I|]. cbn [snap_check] in H. cbv zeta in H. cbn [snap_spec].
  assert (Hin : forall (c : N * N * N) X Y Z W, In c Y \/ In c Z \/ In c W -> In c (X ++ Y ++ Z ++ W)).
  { intros c X Y Z W HH. rewrite !in_app_iff. tauto. }
  split; [|split].
  - destruct op as [i| |m|i|]; auto.
    + destruct (entries_eqb off (pinset_of t i) && entries_eqb raw (pinset_of t i)) eqn:E.
      * apply andb_true_iff in E. destruct E as [E1 E2]. apply entries_eqb_eq in E1, E2. auto.
      * exfalso. destruct (H (id, 15, 0)) as [A _]; [|now apply A]. apply Hin. left. cbv beta iota. try rewrite E. now left.
    + destruct (entries_eqb off (pinset_of t i) && entries_eqb raw (pinset_of t i)) eqn:E.
      * apply andb_true_iff in E. destruct E as [E1 E2]. apply entries_eqb_eq in E1, E2. auto.
      * exfalso. destruct (H (id, 15, 0)) as [A _]; [|now apply A]. apply Hin. left. cbv beta iota. try rewrite E. now left.
    + intros m i Eh. destruct (entries_eqb off (pinset_of t i)) eqn:E; [now apply entries_eqb_eq|].
      exfalso. destruct (H (id, 15, 0)) as [A _]; [|now apply A]. apply Hin. left. cbv beta iota. rewrite Eh. try rewrite E. now left.
  - intros m i Eh Hop. cbv zeta.
    assert (Es : sop_step op before = Some (Some (m, Some i), true)).
    { unfold sop_step. rewrite Eh. destruct Hop as [->|[j ->]]; reflexivity. }
    set (after' := match op with OSave _ => set_live None after | _ => after end).
    assert (Hb : bk_step_okb keep before (Some (m, Some i), true) after' = true).
    { destruct (bk_step_okb keep before (Some (m, Some i), true) after') eqn:E; auto. exfalso.
      destruct (H (id, 10, 0)) as [_ A]; [|now apply A]. apply Hin. right. left. rewrite Es. fold after'. rewrite E. now left. }
    destruct (bk_step_okb_sound keep before _ after' (m, Some i) Hb eq_refl) as [S1 [S2 [S3 S4]]].
    assert (Eo : to_olds after' = to_olds after) by (unfold after'; destruct op; reflexivity).
    rewrite Eo in S2, S3, S4. repeat split; auto.
    intros ->. exact S1.
  - apply IH. intros c Hc. apply H. apply Hin. right. right. exact Hc. Qed.

Lemma snap_monitor_sound_l id keep t olds0 ops obs :
  (forall c, In c (check_case (id, PSnap keep t olds0 ops obs)) -> snd (fst c) <> 15 /\ snd (fst c) <> 10) ->
  snap_spec keep t (None :: olds0) ops obs.
Proof. cbn [check_case]. apply snap_check_sound. Qed.

(* ================================================================== *)
(* Export / import through a state manager: codes 16, 17, 18           *)
(* ================================================================== *)

(* the destination the harness prepares: empty, or holding pinset number i *)
Definition export_dst_raft (t : ptable) (dst0 : option N) : dir snapshot :=
  mk_dir (match dst0 with Some i => Some (7, Some (pinset_of t i)) | None => None end) (fun _ => None).
Definition export_dst_crdt (t : ptable) (dst0 : option N) : pstate := match dst0 with Some i => pinset_of t i | None => [] end.

(* what the model answers to an import of `lines`: result code, pinset afterwards, (raft) directory listing through a window w *)
Definition export_model_obs (mgr : N) (keep : nat) (t : ptable) (dst0 : option N) (lines : list jline) (w : nat)
  : N * list entry * listing :=
  if N.eqb mgr 0 then
    let '(d', r) := raft_import keep (fun x => x) lines (export_dst_raft t dst0) in
    (imp_code r, sorted_entries (offline_state d' []), snap_listing t w d')
  else
    let '(s', r) := crdt_import lines (export_dst_crdt t dst0) in (imp_code r, sorted_entries s', []).

Definition export_model_case (id mgr : N) (keep : nat) (t : ptable) (src : N) (dst0 : option N) (exported : list entry)
           (lines : list jline) (edited : bool) (w : nat) : case :=
  let '(res, aft, lst) := export_model_obs mgr keep t dst0 lines w in
  (id, PExport mgr keep t src dst0 exported lines edited res aft lst).

Lemma snap_listing_length t w d : length (snap_listing t w d) = S w.
Proof. rewrite snap_listing_dec, map_length. cbn [length]. now rewrite map_length, seq_length. Qed.

Lemma sorted_of_perm ord pins : order_oracle ord -> cid_sorted pins -> sorted_entries (ord pins) = pins.
Proof. intros Ho Hp. pose proof (cid_sorted_nodup pins Hp) as Hn. apply sorted_entries_canon; auto.
  - unfold keys_nodup. eapply Permutation_NoDup; [apply Permutation_map, Permutation_sym, Ho|exact Hn].
  - intros c. symmetry. apply aget_perm; auto. apply Permutation_sym, Ho. Qed.

Lemma has_origins_false es : has_origins es = false -> forallb decodable es = true.
Proof. unfold has_origins. induction es as [|e r IH]; [reflexivity|]. cbn [existsb forallb]. rewrite orb_false_iff, negb_false_iff.
  intros [-> H]. now rewrite IH. Qed.

(* importing the unedited export of a decodable pinset: the imported store lists as the pinset *)
Lemma import_export_sorted ord pins : order_oracle ord -> cid_sorted pins -> has_origins (ord pins) = false ->
  import_lines (map JPin (ord pins)) [] = Some (unmarshal (ord pins) []) /\
  sorted_entries (unmarshal (ord pins) []) = pins /\
  sorted_entries (unmarshal (unmarshal (ord pins) []) []) = pins.
Proof. intros Ho Hp Hd. apply has_origins_false in Hd. split; [now apply import_decodable|].
  pose proof (cid_sorted_nodup pins Hp) as Hn.
  assert (H1 : same_pinset (unmarshal (ord pins) []) pins) by (apply (marshal_unmarshal_same ord pins); auto).
  assert (N1 : keys_nodup (unmarshal (ord pins) [])) by apply unmarshal_nodup, keys_nodup_nil.
  split; [now apply sorted_entries_canon|].
  apply sorted_entries_canon; auto; [apply unmarshal_nodup, keys_nodup_nil|].
  eapply same_pinset_trans; [|exact H1]. apply (marshal_unmarshal_same (fun x => x) _ order_oracle_id N1). Qed.

Lemma raft_import_code keep ord ls d : imp_code (snd (raft_import keep ord ls d)) <> 2.
Proof. unfold raft_import. destruct (import_lines ls (offline_state (cleanup keep d) [])); cbn [snd imp_code]; discriminate. Qed.

(* The model's own answers fail no monitor except in the shape of the listed finding (tag 1: a pin with origins does not
   import, S19), for every manager, retention, table, destination, datastore order, stream (edited or not) and listing window.
   (Before fix-S33 the crdt manager also died on an empty stream; crdt_import now answers ImpOk with the cleaned store.) *)
Lemma export_model_only_findings_l id mgr keep t src dst0 ord lines edited w :
  order_oracle ord -> cid_sorted (pinset_of t src) ->
  let exported := ord (pinset_of t src) in
  (edited = false -> lines = map JPin exported) ->
  forall c, In c (check_case (export_model_case id mgr keep t src dst0 exported lines edited w)) ->
    snd (fst c) = 17 /\ snd c = 1 /\ is_S19 exported = true.
Proof. intros Ho Hp exported Hl c. unfold export_model_case, export_model_obs.
  assert (E16 : entries_eqb (sorted_entries exported) (pinset_of t src) = true).
  { unfold exported. rewrite (sorted_of_perm ord _ Ho Hp). apply entries_eqb_refl. }
  destruct (N.eqb_spec mgr 0) as [->|Hm].
  - (* raft *)
    destruct (raft_import keep (fun x => x) lines (export_dst_raft t dst0)) as [d' r] eqn:Er.
    cbn [check_case]. unfold export_check. rewrite E16. cbn [app N.eqb]. unfold export_dst_raft in Er. rewrite Er.
    rewrite snap_listing_length. cbn [Nat.pred]. rewrite N.eqb_refl, entries_eqb_refl, listing_eqb_refl. cbn [andb app].
    assert (Hr : imp_code r <> 2) by (pose proof (raft_import_code keep (fun x => x) lines (export_dst_raft t dst0)) as X;
      unfold export_dst_raft in X; rewrite Er in X; exact X).
    destruct (N.eqb_spec (imp_code r) 2) as [E|_]; [contradiction|]. rewrite app_nil_r.
    destruct edited; [intros []|]. specialize (Hl eq_refl).
    destruct (is_S19 exported) eqn:ES.
    + destruct (N.eqb (imp_code r) 0 && _); intros Hc; [destruct Hc|]. destruct Hc as [<-|[]]. cbn [fst snd]. auto.
    + unfold is_S19 in ES. destruct (import_export_sorted ord _ Ho Hp ES) as [I1 [I2 I3]]. fold exported in I1, I2, I3.
      unfold raft_import in Er. rewrite offline_after_cleanup, Hl, I1 in Er. injection Er as <- <-.
      unfold offline_state. rewrite last_state_after_save. unfold marshal. rewrite I3. cbn [imp_code N.eqb].
      rewrite entries_eqb_refl. intros [].
  - (* crdt *)
    destruct (crdt_import lines (export_dst_crdt t dst0)) as [s' r] eqn:Er.
    cbn [check_case]. unfold export_check. rewrite E16. cbn [app]. destruct (N.eqb_spec mgr 0) as [->|_]; [contradiction|].
    unfold export_dst_crdt in Er. rewrite Er. rewrite N.eqb_refl, entries_eqb_refl. cbn [andb app].
    assert (Hcrash : imp_code r <> 2).
    { unfold crdt_import in Er. destruct (import_lines lines []); injection Er as _ <-; cbn [imp_code]; discriminate. }
    destruct (N.eqb_spec (imp_code r) 2) as [E|_]; [contradiction|]. rewrite app_nil_r.
    destruct edited; [intros []|]. specialize (Hl eq_refl).
    destruct (is_S19 exported) eqn:ES.
    + destruct (N.eqb (imp_code r) 0 && _); intros Hc; [destruct Hc|]. destruct Hc as [<-|[]]. cbn [fst snd]. auto.
    + unfold is_S19 in ES. destruct (import_export_sorted ord _ Ho Hp ES) as [I1 [I2 I3]]. fold exported in I1, I2, I3.
      unfold crdt_import in Er. rewrite Hl, I1 in Er. injection Er as <- <-. rewrite I2. cbn [imp_code N.eqb].
      rewrite entries_eqb_refl. intros []. Qed.

(* completeness for the export kind: outside the finding shape (no pin with origins) the model's own answers raise no code,
   for every pinset - the empty one included - and both managers *)
Lemma export_model_passes_monitor_l id mgr keep t src dst0 ord lines edited w :
  order_oracle ord -> cid_sorted (pinset_of t src) ->
  let exported := ord (pinset_of t src) in
  (edited = false -> lines = map JPin exported) ->
  no_origins (pinset_of t src) ->
  check_case (export_model_case id mgr keep t src dst0 exported lines edited w) = [].
Proof. intros Ho Hp exported Hl Hno.
  destruct (check_case (export_model_case id mgr keep t src dst0 exported lines edited w)) as [|c r] eqn:E; [reflexivity|]. exfalso.
  destruct (export_model_only_findings_l id mgr keep t src dst0 ord lines edited w Ho Hp Hl c) as [_ [_ H]].
  - fold exported. rewrite E. now left.
  - unfold is_S19, has_origins in H. apply existsb_exists in H. destruct H as [e [He Hd]].
    unfold no_origins in Hno. rewrite forallb_forall in Hno. rewrite (Hno e) in Hd; [discriminate|].
    eapply Permutation_in; [apply Ho|exact He]. Qed.

(* soundness: an export case without codes 16, 17, 18 *)
Lemma export_monitor_sound_l id mgr keep t src dst0 exported lines edited obs_res obs_after obs_listing :
  (forall c, In c (check_case (id, PExport mgr keep t src dst0 exported lines edited obs_res obs_after obs_listing)) ->
             snd (fst c) <> 16 /\ snd (fst c) <> 17 /\ snd (fst c) <> 18) ->
  sorted_entries exported = pinset_of t src /\
  (edited = false -> obs_res = 0 /\ obs_after = pinset_of t src) /\
  obs_res <> 2.
Proof. cbn [check_case]. unfold export_check. intros H. split; [|split].
  - destruct (entries_eqb (sorted_entries exported) (pinset_of t src)) eqn:E; [now apply entries_eqb_eq|].
    exfalso. destruct (H (id, 16, 0)) as [A _]; [|now apply A]. apply in_or_app. left. right. now left.
  - intros ->. destruct (N.eqb obs_res 0 && entries_eqb obs_after (pinset_of t src)) eqn:E.
    + apply andb_true_iff in E. destruct E as [E1 E2]. apply N.eqb_eq in E1. apply entries_eqb_eq in E2. auto.
    + exfalso. set (tag := if is_S19 exported then 1 else 0).
      destruct (H (id, 17, tag)) as [_ [A _]]; [|now apply A].
      apply in_or_app. right. apply in_or_app. right. apply in_or_app. left. now left.
  - intros ->. destruct (H (id, 18, 0)) as [_ [_ A]]; [|now apply A].
    apply in_or_app. right. apply in_or_app. right. apply in_or_app. right. now left. Qed.
