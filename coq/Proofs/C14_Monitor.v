(* C14 — the run-time monitors of Model/C14_Check.v (codes 10 bk_step_okb, 11 bk_hist_okb, 12 no nil / no crash,
   13 peerstore file reads back, 14 Marshal/Unmarshal identity, 15 snapshot read offline, 16 export = source,
   17 export/import identity, 18 import never takes the process down), which judge what the IMPLEMENTATION left on
   disk / returned, tied to the model and to Prop-level statements, for every input (no bound):
   (1) completeness: a case annotated with the model's own outputs produces no code at all (under the input
       invariants the harness guarantees, stated explicitly; for the export kind: no code except the two listed findings);
   (2) soundness: a case on which a code is not produced satisfies the Prop-level clause that code stands for. *)
From V Require Import Base.Common Base.CommonLemmas Model.C14_Backup Model.C14_Peerstore Model.C14_State Model.C14_Check
  Proofs.C14_Backup Proofs.C14_Peerstore Proofs.C14_State.
From Coq Require Import Arith Permutation Sorting.Sorted.

(* ---------- reflexivity of the comparison functions ---------- *)
Lemma list_eqb_refl {A} (eqb : A -> A -> bool) (l : list A) : (forall x, In x l -> eqb x x = true) -> list_eqb eqb l l = true.
Proof. induction l as [|x r IH]; intros H; [reflexivity|]. cbn [list_eqb]. rewrite (H x (or_introl eq_refl)). apply IH. intros y Hy. apply H. now right. Qed.
Lemma list_eqb_eq {A} (eqb : A -> A -> bool) : (forall x y, eqb x y = true -> x = y) -> forall a b, list_eqb eqb a b = true -> a = b.
Proof. intros He. induction a as [|x r IH]; intros [|y s]; cbn [list_eqb]; try discriminate; auto.
  rewrite andb_true_iff. intros [H1 H2]. f_equal; auto. Qed.
Lemma list_eqb_length {A} (eqb : A -> A -> bool) : forall a b, list_eqb eqb a b = true -> length a = length b.
Proof. induction a as [|x r IH]; intros [|y s]; cbn [list_eqb]; try discriminate; auto.
  rewrite andb_true_iff. intros [_ H2]. cbn [length]. f_equal; auto. Qed.

Lemma optN_eqb_refl a : optN_eqb a a = true.
Proof. destruct a; simpl; auto. apply N.eqb_refl. Qed.
Lemma fold_eqb_refl a : fold_eqb a a = true.
Proof. unfold fold_eqb. now rewrite N.eqb_refl, optN_eqb_refl. Qed.
Lemma ofold_eqb_refl a : ofold_eqb a a = true.
Proof. destruct a; simpl; auto. apply fold_eqb_refl. Qed.
Lemma listing_eqb_refl (l : listing) : list_eqb ofold_eqb l l = true.
Proof. apply list_eqb_refl. intros; apply ofold_eqb_refl. Qed.

(* ================================================================== *)
(* Backup rotation: codes 10 and 11                                   *)
(* ================================================================== *)

(* the listing the model leaves after one step, seen through the same window as the listing before it *)
Definition bk_model_after (keep : nat) (b : listing) (st : step N) : listing :=
  listing_of (window b) (run_step keep (to_dir b) st).
(* the observations of a history, each step starting from the listing the previous one left *)
Fixpoint bk_model_obs (keep : nat) (before : listing) (sts : list (step N)) : list listing :=
  match sts with
  | [] => []
  | st :: r => let after := bk_model_after keep (set_live (fst st) before) st in after :: bk_model_obs keep after r
  end.

Lemma window_listing_of w (d : dir N) : window (listing_of w d) = w.
Proof. unfold window, listing_of. cbn [tl]. now rewrite map_length, seq_length. Qed.
Lemma to_olds_listing_of w (d : dir N) i : i < w -> to_olds (listing_of w d) i = olds d i.
Proof. intros Hi. unfold to_olds, listing_of. cbn [tl].
  rewrite (nth_indep _ None (olds d 0)) by (now rewrite map_length, seq_length).
  change (olds d 0) with (olds d (0 + 0)) at 1. rewrite map_nth. now rewrite seq_nth. Qed.
Lemma to_olds_beyond (l : listing) i : window l <= i -> to_olds l i = None.
Proof. intros H. unfold to_olds. apply nth_overflow. exact H. Qed.
Lemma window_set_live f (l : listing) : window (set_live f l) = window l.
Proof. reflexivity. Qed.
Lemma to_olds_set_live f (l : listing) : to_olds (set_live f l) = to_olds l.
Proof. reflexivity. Qed.
Lemma olds_to_dir (l : listing) : olds (to_dir l) = to_olds l.
Proof. reflexivity. Qed.

(* soundness of the history monitor (code 11) *)
Lemma bk_hist_okb_sound_l keep fs after : bk_hist_okb keep fs after = true ->
  forall i, i < length fs -> i < window after -> i < keep -> to_olds after i = nth_error (rev fs) i.
Proof. unfold bk_hist_okb. intros H i H1 H2 H3. rewrite forallb_forall in H. specialize (H i).
  rewrite in_seq in H. specialize (H ltac:(lia)). destruct (Nat.ltb_spec i keep); [|lia]. now apply ofold_eqb_eq. Qed.

(* the model's step passes the step monitor (code 10), when the listing shows at least `keep` backups
   (the harness lists old.0 .. old.7 and uses keep <= 6; with a shorter listing the rotation moves a folder out of
   sight and the monitor, which only sees the window, cannot tell a move from a loss) *)
Lemma bk_step_model_passes keep (b : listing) (st : step N) : 1 <= keep -> keep <= window b ->
  bk_step_okb keep b st (bk_model_after keep b st) = true.
Proof. intros Hk Hw. unfold bk_step_okb, bk_model_after. destruct (rotated_of st) as [|f fs'] eqn:E; [reflexivity|].
  cbv zeta. rewrite window_listing_of, Nat.eqb_refl.
  assert (Hl : hd None (listing_of (window b) (run_step keep (to_dir b) st)) = None).
  { unfold listing_of. cbn [hd]. apply run_step_live. }
  rewrite Hl. cbn [ofold_eqb andb].
  assert (Ho : olds (run_step keep (to_dir b) st) = rotate keep f (to_olds b)).
  { rewrite run_step_olds, E. reflexivity. }
  rewrite to_olds_listing_of by lia. rewrite Ho, rotate_zero, ofold_eqb_refl. cbn [andb].
  apply andb_true_iff. split; apply forallb_forall; intros i Hi; rewrite in_seq in Hi.
  - destruct (Nat.ltb_spec i (prefix (to_olds b) keep 0)) as [H1|H1]; [|reflexivity].
    destruct (Nat.ltb_spec (S i) keep) as [H2|H2]; [|reflexivity]. cbn [andb].
    rewrite to_olds_listing_of by lia. rewrite Ho, rotate_shift by assumption. apply ofold_eqb_refl.
  - destruct (Nat.ltb_spec (prefix (to_olds b) keep 0) i) as [H1|H1]; cbn [orb].
    + rewrite to_olds_listing_of by lia. rewrite Ho, rotate_untouched by (auto; lia). apply ofold_eqb_refl.
    + destruct (Nat.leb_spec keep i) as [H2|H2]; [|reflexivity].
      rewrite to_olds_listing_of by lia. rewrite Ho, rotate_untouched by (auto; lia). apply ofold_eqb_refl. Qed.

(* the history invariant, on listings *)
Definition bk_inv (keep : nat) (l : listing) (fs : list fold_t) : Prop := newest_first (to_dir l) keep fs.

Lemma bk_inv_step keep (before : listing) fs (st : step N) : 1 <= keep -> keep <= window before -> bk_inv keep before fs ->
  bk_inv keep (bk_model_after keep (set_live (fst st) before) st) (fs ++ rotated_of st).
Proof. intros Hk Hw Inv. unfold bk_inv, bk_model_after. rewrite window_set_live.
  assert (Inv1 : newest_first (to_dir (set_live (fst st) before)) keep fs) by exact Inv.
  pose proof (run_step_inv keep _ st fs Hk Inv1) as H.
  intros i Hi Hik. rewrite olds_to_dir, to_olds_listing_of by lia. apply H; assumption. Qed.

Lemma bk_hist_of_inv keep (l : listing) fs : bk_inv keep l fs -> bk_hist_okb keep fs l = true.
Proof. intros Inv. unfold bk_inv, newest_first in Inv. unfold bk_hist_okb. apply forallb_forall. intros i Hi. rewrite in_seq in Hi.
  destruct (Nat.ltb_spec i keep) as [H|H]; [|reflexivity]. unfold fold_t in *. rewrite <- (Inv i) by lia. apply ofold_eqb_refl. Qed.

Lemma bk_check_model_passes id keep : 1 <= keep -> forall sts before fs, keep <= window before -> bk_inv keep before fs ->
  bk_check id keep before fs sts (bk_model_obs keep before sts) = [].
Proof. intros Hk. induction sts as [|st r IH]; intros before fs Hw Inv; [reflexivity|].
  cbn [bk_model_obs bk_check]. cbv zeta.
  set (b := set_live (fst st) before). set (after := bk_model_after keep b st).
  assert (Hb : keep <= window b) by exact Hw.
  assert (E1 : bk_model_eqb keep b st after = true) by (unfold bk_model_eqb; apply listing_eqb_refl).
  assert (E2 : bk_step_okb keep b st after = true) by exact (bk_step_model_passes keep b st Hk Hb).
  rewrite E1, E2.
  pose proof (bk_inv_step keep before fs st Hk Hw Inv) as Inv'. fold b in Inv'. fold after in Inv'.
  rewrite (bk_hist_of_inv keep after _ Inv'). cbn [app].
  apply IH; [|exact Inv']. unfold after, bk_model_after. now rewrite window_listing_of. Qed.

(* completeness for the backup kind: every retention keep >= 1, every pre-existing set of listed backups (at least keep
   of them listed), every history of steps *)
Lemma bk_model_passes_monitor_l id keep olds0 sts : 1 <= keep -> keep <= length olds0 ->
  check_case (id, PBackup keep olds0 sts (bk_model_obs keep (None :: olds0) sts)) = [].
Proof. intros Hk Hw. cbn [check_case]. apply bk_check_model_passes; auto.
  intros i Hi. cbn [length] in Hi. lia. Qed.

(* what a backup case without code 11 says: walking the observed listings, after every step the folders handed to the
   rotation so far are old.0, old.1, ... newest first, below keep and inside the window *)
Fixpoint bk_hist_spec (keep : nat) (fs : list fold_t) (sts : list (step N)) (obs : list listing) : Prop :=
  match sts, obs with
  | st :: sts', after :: obs' =>
      let fs' := fs ++ rotated_of st in
      (forall i, i < length fs' -> i < window after -> i < keep -> to_olds after i = nth_error (rev fs') i) /\
      bk_hist_spec keep fs' sts' obs'
  | _, _ => True
  end.
(* and without code 10: every step is a rotation of the listing the previous step left *)
Fixpoint bk_steps_spec (keep : nat) (before : listing) (sts : list (step N)) (obs : list listing) : Prop :=
  match sts, obs with
  | st :: sts', after :: obs' =>
      (forall f, rotated_of st = [f] ->
         let o := to_olds before in let o' := to_olds after in let n := prefix o keep 0 in
         hd None after = None /\ o' 0 = Some f /\
         (forall i, i < window before -> i < n -> S i < keep -> o' (S i) = o i) /\
         (forall j, j < window before -> n < j \/ keep <= j -> o' j = o j)) /\
      bk_steps_spec keep after sts' obs'
  | _, _ => True
  end.

Lemma bk_check_sound id keep : forall sts obs before fs,
  (forall c, In c (bk_check id keep before fs sts obs) -> snd (fst c) <> 10%N /\ snd (fst c) <> 11%N) ->
  bk_steps_spec keep before sts obs /\ bk_hist_spec keep fs sts obs.
Proof. induction sts as [|st r IH]; intros obs before fs H; [split; exact I|].
  destruct obs as [|after obs']; [split; exact I|]. cbn [bk_check] in H. cbv zeta in H.
  cbn [bk_steps_spec bk_hist_spec]. cbv zeta.
  set (b := set_live (fst st) before) in *.
  assert (H10 : bk_step_okb keep b st after = true).
  { destruct (bk_step_okb keep b st after) eqn:E; auto. exfalso.
    destruct (H (id, 10%N, 0%N)) as [A _]; [|now apply A]. apply in_or_app. right. apply in_or_app. left. now left. }
  assert (H11 : bk_hist_okb keep (fs ++ rotated_of st) after = true).
  { destruct (bk_hist_okb keep (fs ++ rotated_of st) after) eqn:E; auto. exfalso.
    destruct (H (id, 11%N, 0%N)) as [_ A]; [|now apply A]. apply in_or_app. right. apply in_or_app. right. apply in_or_app. left. now left. }
  destruct (IH obs' after (fs ++ rotated_of st)) as [T1 T2].
  { intros c Hc. apply H. do 3 (apply in_or_app; right). exact Hc. }
  split; split; auto.
  - intros f Hf. exact (bk_step_okb_sound keep b st after f H10 Hf).
  - exact (bk_hist_okb_sound_l keep _ after H11). Qed.

Lemma bk_monitor_sound_l id keep olds0 sts obs :
  (forall c, In c (check_case (id, PBackup keep olds0 sts obs)) -> snd (fst c) <> 10%N /\ snd (fst c) <> 11%N) ->
  bk_steps_spec keep (None :: olds0) sts obs /\ bk_hist_spec keep [] sts obs.
Proof. cbn [check_case]. apply bk_check_sound. Qed.

(* ================================================================== *)
(* Peerstore file: codes 12 and 13                                    *)
(* ================================================================== *)
Local Open Scope N_scope.

Lemma tr_eqb2_refl t : tr_eqb2 t t = true.
Proof. unfold tr_eqb2. now rewrite N.eqb_refl, Bool.eqb_reflx. Qed.
Lemma tr_eqb2_eq a b : tr_eqb2 a b = true -> a = b.
Proof. destruct a as [x u], b as [y v]. unfold tr_eqb2. cbn [fst snd]. rewrite andb_true_iff. intros [H1 H2].
  apply N.eqb_eq in H1. apply Bool.eqb_prop in H2. now subst. Qed.
Lemma trs_eqb_refl (l : list transport) : list_eqb tr_eqb2 l l = true.
Proof. apply list_eqb_refl. intros; apply tr_eqb2_refl. Qed.
Lemma otr_eqb_refl t : otr_eqb t t = true.
Proof. destruct t; simpl; auto. apply tr_eqb2_refl. Qed.
Lemma paddr_eqb_refl a : paddr_eqb a a = true.
Proof. destruct a; simpl; [apply N.eqb_refl|]. now rewrite N.eqb_refl, otr_eqb_refl. Qed.
Lemma opaddr_eqb_refl a : opaddr_eqb a a = true.
Proof. destruct a; simpl; auto. apply paddr_eqb_refl. Qed.
Lemma opaddrs_eqb_refl (l : list (option paddr)) : list_eqb opaddr_eqb l l = true.
Proof. apply list_eqb_refl. intros; apply opaddr_eqb_refl. Qed.
Lemma obs_pinfo_eqb_refl pi : obs_pinfo_eqb pi pi = true.
Proof. unfold obs_pinfo_eqb. now rewrite N.eqb_refl, trs_eqb_refl. Qed.
Lemma same_infos_refl l : same_infos (Some l) l = true.
Proof. cbn [same_infos]. apply list_eqb_refl. intros; apply obs_pinfo_eqb_refl. Qed.

(* insertion sort leaves a sorted list alone *)
Lemma sort_by_sorted_id {A} (key : A -> nat) (l : list A) : StronglySorted (kle key) l -> sort_by key l = l.
Proof. induction l as [|x r IH]; intros H; [reflexivity|]. inversion H as [|? ? Hs Hall]; subst.
  cbn [sort_by fold_right]. fold (sort_by key r). rewrite (IH Hs). destruct r as [|y ys]; [reflexivity|].
  cbn [ins_by]. inversion Hall as [|? ? Hxy _]; subst. unfold kle in Hxy. destruct (Nat.leb_spec (key x) (key y)); [reflexivity|lia]. Qed.
Lemma sort_by_idem {A} (key : A -> nat) (l : list A) : sort_by key (sort_by key l) = sort_by key l.
Proof. apply sort_by_sorted_id, sort_by_sorted. Qed.

Lemma filtered_addrs_sorted ps p : sort_by tr_key (filtered_addrs ps p) = filtered_addrs ps p.
Proof. unfold filtered_addrs. cbv zeta. match goal with |- context [match ?x with [] => _ | _ :: _ => _ end] => destruct x end; apply sort_by_idem. Qed.

Lemma peer_infos_in self ps peers pi : In pi (peer_infos self ps peers) -> snd pi = filtered_addrs ps (fst pi).
Proof. unfold peer_infos. intros H. apply (Permutation_in _ (sort_by_perm _ _)) in H. apply in_flat_map in H.
  destruct H as [q [_ Hq]]. destruct (N.eqb q self); [destruct Hq|].
  destruct (filtered_addrs ps q) as [|t ts] eqn:E; [destruct Hq|]. destruct Hq as [<-|[]]. cbn [fst snd]. now rewrite E. Qed.

Lemma pinfo_eqb_refl_sorted pi : sort_by tr_key (snd pi) = snd pi -> pinfo_eqb pi pi = true.
Proof. intros H. unfold pinfo_eqb. rewrite N.eqb_refl, H. cbn [andb]. destruct (existsb _ _); apply trs_eqb_refl. Qed.

Lemma sorted_nat_of_sorted {A} (key : A -> nat) (l : list A) : StronglySorted (kle key) l -> sorted_nat (map key l) = true.
Proof. induction l as [|x r IH]; intros H; [reflexivity|]. inversion H as [|? ? Hs Hall]; subst.
  destruct r as [|y ys]; [reflexivity|]. cbn [map sorted_nat]. inversion Hall as [|? ? Hxy _]; subst. unfold kle in Hxy.
  apply andb_true_iff. split; [now apply Nat.leb_le|]. exact (IH Hs). Qed.

(* the comparison of the model's PeerInfos with itself succeeds (both branches of the tie rule) *)
Lemma pinfos_eqb_refl self ps peers : pinfos_eqb ps (peer_infos self ps peers) (peer_infos self ps peers) = true.
Proof. set (m := peer_infos self ps peers).
  assert (Hr : forall x, In x m -> pinfo_eqb x x = true).
  { intros x Hx. apply pinfo_eqb_refl_sorted. rewrite (peer_infos_in self ps peers x Hx). apply filtered_addrs_sorted. }
  unfold pinfos_eqb. destruct (nodup_nat _); [now apply list_eqb_refl|].
  rewrite Nat.eqb_refl. cbn [andb]. apply andb_true_iff. split.
  - apply forallb_forall. intros x Hx. apply existsb_exists. exists x. split; auto.
  - unfold m, peer_infos. apply (sorted_nat_of_sorted (fun pi : pinfo => prio_of ps (fst pi))). apply sort_by_sorted. Qed.

(* ---- arbitrary files (code 12) ---- *)
Definition ps_file_model_infos (self : N) (ls : list line) (query : list N) : option (list pinfo) :=
  match import_file true self ls ps_empty with ICrash => None | IOk ps => Some (peer_infos self ps query) end.

Lemma forallb_is_some_load ls : forallb is_some (load_lines ls) = true.
Proof. apply forallb_forall. intros a Ha. pose proof (load_lines_no_nil ls a Ha). destruct a; [reflexivity|congruence]. Qed.

(* completeness: every file, every host identity, every query *)
Lemma ps_file_model_passes_monitor_l id self ls query :
  check_case (id, PPsFile self ls query (load_lines ls) (ps_file_model_infos self ls query)) = [].
Proof. cbn [check_case]. unfold ps_file_check, ps_file_model_infos. rewrite opaddrs_eqb_refl, forallb_is_some_load. cbn [andb].
  destruct (import_file true self ls ps_empty) as [|ps] eqn:E; [exfalso; exact (import_file_no_crash self ls ps_empty E)|].
  cbn [opinfos_eqb is_some]. now rewrite pinfos_eqb_refl. Qed.

(* soundness: no code 12 means LoadPeerstore returned no nil element and the import did not crash *)
Lemma ps_file_monitor_sound_l id self ls query obs_load obs_infos :
  (forall c, In c (check_case (id, PPsFile self ls query obs_load obs_infos)) -> snd (fst c) <> 12) ->
  (forall a, In a obs_load -> a <> None) /\ obs_infos <> None.
Proof. cbn [check_case]. unfold ps_file_check. intros H.
  destruct (forallb is_some obs_load && is_some obs_infos) eqn:E.
  - apply andb_true_iff in E. destruct E as [E1 E2]. rewrite forallb_forall in E1. split.
    + intros a Ha. specialize (E1 a Ha). destruct a; [discriminate|discriminate E1].
    + destruct obs_infos; [discriminate|discriminate E2].
  - exfalso. apply (H (id, 12, 0)); [|reflexivity]. apply in_or_app. right. now left. Qed.

(* ---- save on one host, load on another (code 13) ---- *)
Lemma fold_add_ok p trs : forall ps, ps_ok ps -> ps_ok (fold_left (fun a t => add_addr p t a) trs ps).
Proof. induction trs as [|t r IH]; intros ps H; [exact H|]. cbn [fold_left]. apply IH. now apply add_addr_ok. Qed.
Lemma ps_build_ok pre : ps_ok (ps_build pre).
Proof. unfold ps_build. generalize ps_empty_ok. generalize ps_empty. induction pre as [|[[p trs] pr] r IH]; intros ps H; [exact H|].
  cbn [fold_left]. apply IH. destruct pr; [apply set_prio_ok|]; now apply fold_add_ok. Qed.

Lemma group_loaded_cons p t r : group_loaded (Some (PP2p p (Some t)) :: r) =
  match group_loaded r with
  | Some ((q, ts) :: g) => if N.eqb p q then Some ((q, t :: ts) :: g) else Some ((p, [t]) :: (q, ts) :: g)
  | Some [] => Some [(p, [t])]
  | None => None
  end.
Proof. reflexivity. Qed.
Lemma group_loaded_one p : forall trs r, trs <> [] -> (match r with (q, _) :: _ => q <> p | [] => True end) ->
  forall rest, group_loaded rest = Some r ->
  group_loaded (map (fun t => Some (PP2p p (Some t))) trs ++ rest) = Some ((p, trs) :: r).
Proof. induction trs as [|t ts IH]; intros r Hne Hr rest E; [congruence|].
  cbn [map app]. rewrite group_loaded_cons. destruct ts as [|t' ts'].
  - cbn [map app]. rewrite E. destruct r as [|[q ts] g]; [reflexivity|].
    destruct (N.eqb_spec p q) as [->|_]; [congruence|reflexivity].
  - rewrite (IH r ltac:(discriminate) Hr rest E). now rewrite N.eqb_refl. Qed.

Lemma group_loaded_loaded infos : wf_infos infos -> group_loaded (loaded_of infos) = Some infos.
Proof. intros [Hnd Hw]. induction infos as [|[p trs] r IH]; [reflexivity|].
  cbn [loaded_of flat_map fst snd]. fold (loaded_of r). cbn [map] in Hnd. inversion Hnd as [|? ? Hp Hr]; subst.
  apply group_loaded_one.
  - destruct (Hw (p, trs) (or_introl eq_refl)) as [H _]. exact H.
  - destruct r as [|[q ts] g]; [exact I|]. intros ->. apply Hp. now left.
  - apply IH; auto. intros pi Hpi. apply Hw. now right. Qed.

Definition ps_save_model_obs0 (self1 : N) (pre : list (N * list transport * option nat)) (query : list N) : list pinfo :=
  peer_infos self1 (ps_build pre) query.

(* completeness: every peerstore host 1 can have built, every duplicate-free query on host 1, host 2 not among the saved
   peers (PeerInfos never lists the local peer and the harness uses two distinct identities), host 2 asked for exactly the
   saved peers in any order *)
Lemma ps_save_model_passes_monitor_l id self1 self2 pre query query2 :
  let obs0 := ps_save_model_obs0 self1 pre query in
  NoDup query -> ~ In self2 (map fst obs0) -> Permutation query2 (map fst obs0) ->
  check_case (id, PPsSave self1 self2 pre query query2 obs0 (save_lines obs0) (load_lines (save_lines obs0))
                          (reload self2 obs0 query2)) = [].
Proof. intros obs0 Hnd Hs Hp. cbn [check_case]. unfold ps_save_check.
  assert (Hwf : wf_infos obs0) by (apply peer_infos_wf; [apply ps_build_ok|exact Hnd]).
  pose proof (reload_roundtrip self2 obs0 query2 Hwf Hs Hp) as Hre.
  rewrite load_save, (group_loaded_loaded obs0 Hwf), same_infos_refl, Nat.eqb_refl, opaddrs_eqb_refl.
  fold (ps_save_model_obs0 self1 pre query). fold obs0. unfold ps_save_model_obs0 in obs0.
  assert (E0 : pinfos_eqb (ps_build pre) obs0 obs0 = true) by apply pinfos_eqb_refl. rewrite E0. cbn [andb].
  rewrite Hre, same_infos_refl. cbn [andb app].
  unfold reload in Hre. destruct (import_file true self2 (save_lines obs0) ps_empty) as [|ps] eqn:E; [discriminate|].
  injection Hre as Hre. cbn [opinfos_eqb]. rewrite <- Hre. now rewrite pinfos_eqb_refl. Qed.

(* Prop-level reading of code 13: the same peers in the same order, each with the same set of addresses *)
Definition same_peers_same_addrs (a b : list pinfo) : Prop :=
  Forall2 (fun x y => fst x = fst y /\ Permutation (snd x) (snd y)) a b.

Lemma obs_pinfo_eqb_sound x y : obs_pinfo_eqb x y = true -> fst x = fst y /\ Permutation (snd x) (snd y).
Proof. unfold obs_pinfo_eqb. rewrite andb_true_iff. intros [H1 H2]. apply N.eqb_eq in H1. split; auto.
  apply (list_eqb_eq tr_eqb2 tr_eqb2_eq) in H2.
  apply Permutation_trans with (sort_by tr_key (snd x)); [symmetry; apply sort_by_perm|]. rewrite H2. apply sort_by_perm. Qed.
Lemma same_infos_sound a b : same_infos a b = true -> exists l, a = Some l /\ same_peers_same_addrs l b.
Proof. destruct a as [l|]; [|discriminate]. cbn [same_infos]. intros H. exists l. split; auto.
  revert b H. induction l as [|x r IH]; intros [|y s]; cbn [list_eqb]; try discriminate; [constructor|].
  rewrite andb_true_iff. intros [H1 H2]. constructor; [now apply obs_pinfo_eqb_sound|now apply IH]. Qed.

Lemma ps_save_monitor_sound_l id self1 self2 pre query query2 obs0 obs_lines obs_load obs2 :
  (forall c, In c (check_case (id, PPsSave self1 self2 pre query query2 obs0 obs_lines obs_load obs2)) -> snd (fst c) <> 13) ->
  exists g l2, group_loaded obs_load = Some g /\ obs2 = Some l2 /\ same_peers_same_addrs g obs0 /\ same_peers_same_addrs l2 obs0.
Proof. cbn [check_case]. unfold ps_save_check. intros H.
  destruct (same_infos (group_loaded obs_load) obs0 && same_infos obs2 obs0) eqn:E.
  - apply andb_true_iff in E. destruct E as [E1 E2]. apply same_infos_sound in E1, E2.
    destruct E1 as [g [G1 G2]]. destruct E2 as [l2 [L1 L2]]. exists g, l2. auto.
  - exfalso. apply (H (id, 13, 0)); [|reflexivity]. apply in_or_app. right. now left. Qed.
