(* C17 — lemmas about the cluster-level machine (Model/C17_Cluster.v): peer removal re-homes first, drops no pin,
   a removed peer stops and cleans, an unremoved one keeps its data. Built on C10 (re-pin loop), C14 (cleanup) and
   C17_Members (membership wrappers). *)
From V Require Import Base.Common Base.CommonLemmas Model.C03_Alloc Proofs.C03_Alloc Model.C04_ClusterOps Proofs.C04_ClusterOps
  Model.C10_Repin Proofs.C10_Repin Model.C14_Backup Proofs.C14_Backup Model.C17_Members Proofs.C17_Members Model.C17_Cluster.
From Coq Require Import Permutation Lia.
Open Scope N_scope.

(* ================= the membership wrappers only append entries about the peer they were asked about ================= *)
Definition only (e0 : mentry) (suf : list mentry) : Prop := forall e, In e suf -> e = e0.

Lemma only_nil e0 : only e0 []. Proof. intros e []. Qed.
Lemma only_one e0 : only e0 [e0]. Proof. intros e [H|[]]; auto. Qed.
Lemma only_app e0 a b : only e0 a -> only e0 b -> only e0 (a ++ b).
Proof. intros Ha Hb e H. apply in_app_or in H. destruct H; auto. Qed.

Definition grows (e0 : mentry) (lg lg' : list mentry) : Prop := exists suf, lg' = lg ++ suf /\ only e0 suf.

Lemma grows_refl e0 lg : grows e0 lg lg.
Proof. exists []. split; [now rewrite app_nil_r|apply only_nil]. Qed.
Lemma grows_one e0 lg : grows e0 lg (lg ++ [e0]).
Proof. exists [e0]. split; auto. apply only_one. Qed.
Lemma grows_trans e0 a b c : grows e0 a b -> grows e0 b c -> grows e0 a c.
Proof. intros [s1 [-> H1]] [s2 [-> H2]]. exists (s1 ++ s2). split; [now rewrite app_assoc|now apply only_app]. Qed.

Lemma attempt_rm_grows init lg p o : grows (ERm p) lg (fst (attempt_rm init lg p o)).
Proof.
  unfold attempt_rm. destruct (negb (memN p (peers_of init lg))); simpl; [apply grows_refl|].
  destruct (Nat.eqb (length (peers_of init lg)) 1 && match peers_of init lg with q :: _ => q =? p | [] => false end); simpl;
    [apply grows_refl|]. destruct o; simpl; try apply grows_one; apply grows_refl.
Qed.
Lemma attempt_add_grows init lg p o : grows (EAdd p) lg (fst (attempt_add init lg p o)).
Proof.
  unfold attempt_add. destruct (memN p (peers_of init lg)); simpl; [apply grows_refl|].
  destruct o; simpl; try apply grows_one; apply grows_refl.
Qed.
Lemma retry_grows e0 att : (forall lg o, grows e0 lg (fst (att lg o))) -> forall os lg, grows e0 lg (fst (retry att lg os)).
Proof.
  intros H. induction os as [|o r IH]; intros lg; simpl; [apply grows_refl|].
  pose proof (H lg o) as G. destruct (att lg o) as [lg' err]. simpl in G. destruct err; [|exact G].
  destruct r as [|o' r']; [exact G|]. eapply grows_trans; [exact G|apply IH].
Qed.
Lemma cons_rm_grows init lg p os : grows (ERm p) lg (fst (cons_rm init lg p os)).
Proof. unfold cons_rm. apply (retry_grows (ERm p) (fun l o => attempt_rm init l p o)). intros. apply attempt_rm_grows. Qed.
Lemma cons_add_grows init lg p os : grows (EAdd p) lg (fst (cons_add init lg p os)).
Proof. unfold cons_add. apply (retry_grows (EAdd p) (fun l o => attempt_add init l p o)). intros. apply attempt_add_grows. Qed.

Lemma skipn_app_exact {A} (a b : list A) : skipn (length a) (a ++ b) = b.
Proof. induction a; simpl; auto. Qed.

Lemma mem_trace_grows k lg suf : mem_trace k lg (lg ++ suf) = map (fun e => (k, e)) (flat_map tev_of suf).
Proof. unfold mem_trace. now rewrite skipn_app_exact. Qed.
Lemma mem_trace_same k lg : mem_trace k lg lg = [].
Proof. rewrite <- (app_nil_r lg) at 2. now rewrite mem_trace_grows. Qed.

Definition member_entry (e : mentry) : Prop := is_member_entry e = true.
Lemma mem_of_tev_of suf : (forall e, In e suf -> member_entry e) -> flat_map mem_of (flat_map tev_of suf) = suf.
Proof.
  induction suf as [|e r IH]; intros H; simpl; auto.
  assert (He : member_entry e) by (apply H; now left). destruct e; try discriminate; simpl; f_equal; apply IH; intros; apply H; now right.
Qed.
Lemma only_member e0 suf : member_entry e0 -> only e0 suf -> forall e, In e suf -> member_entry e.
Proof. intros H O e Hin. now rewrite (O e Hin). Qed.

(* ================= the shape of what one event appends to the trace ================= *)
Fixpoint no_pin_of (k : nat) (tr : trace) : Prop :=
  match tr with [] => True | (k', e) :: r => (k' = k -> is_pin e = false) /\ no_pin_of k r end.
Fixpoint ordered (tr : trace) : Prop :=
  match tr with [] => True | (k, e) :: r => (is_rm e = true -> no_pin_of k r) /\ ordered r end.

Lemma no_pin_of_app k a b : no_pin_of k (a ++ b) <-> no_pin_of k a /\ no_pin_of k b.
Proof. induction a as [|[k' e] r IH]; simpl; [tauto|]. rewrite IH. tauto. Qed.
Lemma no_pin_of_all k b : (forall x, In x b -> fst x = k -> is_pin (snd x) = false) -> no_pin_of k b.
Proof. induction b as [|[k' e] r IH]; simpl; auto. intros H. split; [intros E; apply (H (k', e)); auto|]. apply IH. intros; apply H; auto. Qed.
Lemma no_pin_of_in k b c by_ : no_pin_of k b -> ~ In (k, TPin c by_) b.
Proof. induction b as [|[k' e] r IH]; simpl; auto. intros [H1 H2] [E|E]; [|now apply IH]. inversion E; subst. now specialize (H1 eq_refl). Qed.
Lemma ordered_app a b : ordered a -> ordered b -> (forall k e, In (k, e) a -> is_rm e = true -> no_pin_of k b) -> ordered (a ++ b).
Proof.
  induction a as [|[k e] r IH]; simpl; auto. intros [H1 H2] Hb H. split.
  - intros E. apply no_pin_of_app. split; auto. apply (H k e); auto.
  - apply IH; auto. intros k' e' Hin. apply H. now right.
Qed.
Lemma ordered_app_r a b : ordered (a ++ b) -> ordered b.
Proof. induction a as [|[k e] r IH]; simpl; auto. intros [_ H]. auto. Qed.

(* a segment appended by event number k: first entries that are no removals, then entries that are no pins *)
Definition seg_ok (k : nat) (seg : trace) : Prop :=
  exists a b, seg = a ++ b /\ (forall x, In x a -> fst x = k /\ is_rm (snd x) = false) /\
              (forall x, In x b -> fst x = k /\ is_pin (snd x) = false).

Lemma seg_ok_nil k : seg_ok k [].
Proof. exists [], []. split; auto. split; intros x []. Qed.
Lemma seg_ok_num k seg y : seg_ok k seg -> In y seg -> fst y = k.
Proof. intros [a [b [-> [Ha Hb]]]] H. apply in_app_or in H. destruct H as [H|H]; [apply Ha|apply Hb]; auto. Qed.
Lemma seg_ok_ordered k seg : seg_ok k seg -> ordered seg.
Proof.
  intros [a [b [-> [Ha Hb]]]]. apply ordered_app.
  - induction a as [|[k' e] r IH]; simpl; auto. split; [|apply IH; intros; apply Ha; now right].
    intros E. destruct (Ha (k', e)) as [_ F]; [now left|]. simpl in F. congruence.
  - induction b as [|[k' e] r IH]; simpl; auto. split; [|apply IH; intros; apply Hb; now right].
    intros _. apply no_pin_of_all. intros x Hx _. apply Hb. now right.
  - intros k' e Hin E. destruct (Ha (k', e) Hin) as [_ F]. simpl in F. congruence.
Qed.

Lemma seg_pins_mems k (cs : list N) (by_ : N) (ms : list tev) : (forall e, In e ms -> is_pin e = false) ->
  seg_ok k (map (fun c => (k, TPin c by_)) cs ++ map (fun e => (k, e)) ms).
Proof.
  intros H. exists (map (fun c => (k, TPin c by_)) cs), (map (fun e => (k, e)) ms). split; auto. split.
  - intros x Hx. apply in_map_iff in Hx. destruct Hx as [c [<- _]]. auto.
  - intros x Hx. apply in_map_iff in Hx. destruct Hx as [e [<- He]]. auto.
Qed.
Lemma seg_mems k (ms : list tev) : (forall e, In e ms -> is_pin e = false) -> seg_ok k (map (fun e => (k, e)) ms).
Proof. intros H. apply (seg_pins_mems k [] 0 ms H). Qed.
Lemma seg_norms k (es : list tev) : (forall e, In e es -> is_rm e = false) -> seg_ok k (map (fun e => (k, e)) es).
Proof.
  intros H. exists (map (fun e => (k, e)) es), []. split; [now rewrite app_nil_r|]. split; [|intros x []].
  intros x Hx. apply in_map_iff in Hx. destruct Hx as [e [<- He]]. auto.
Qed.
Lemma tev_of_no_pin suf e : In e (flat_map tev_of suf) -> is_pin e = false.
Proof. intros H. apply in_flat_map in H. destruct H as [m [_ H]]. destruct m; simpl in H; intuition; subst; reflexivity. Qed.

Lemma call_entries_norm e st by_ k r x : In x (call_entries e st by_ k r) -> is_rm x = false.
Proof.
  unfold call_entries. destruct r as [q|]; [|intros []].
  destruct k; simpl; try (intros [<-|[]]; reflexivity); intros H; apply in_map_iff in H; destruct H as [? [<- _]]; reflexivity.
Qed.

(* what one event does to the trace, the log and the clock *)
Definition step_shape (s s' : cstate) : Prop :=
  exists seg, cs_tr s' = cs_tr s ++ seg /\ seg_ok (cs_clock s) seg /\
              cs_lg s' = cs_lg s ++ flat_map (fun x => mem_of (snd x)) seg /\
              cs_clock s' = cs_clock s /\ cs_init s' = cs_init s.

Lemma step_shape_refl s : step_shape s s.
Proof. exists []. rewrite !app_nil_r. repeat split; auto. apply seg_ok_nil. Qed.

Lemma step_shape_peer s p q : step_shape s (with_peer s p q).
Proof. exists []. simpl. rewrite !app_nil_r. repeat split; auto. apply seg_ok_nil. Qed.
Ltac shp := first [apply step_shape_refl | apply step_shape_peer].

Lemma flat_map_map_snd k (es : list tev) : flat_map (fun x : nat * tev => mem_of (snd x)) (map (fun e => (k, e)) es) = flat_map mem_of es.
Proof. induction es; simpl; auto. now rewrite IHes. Qed.
Lemma flat_map_pins k (cs : list N) by_ : flat_map (fun x : nat * tev => mem_of (snd x)) (map (fun c => (k, TPin c by_)) cs) = [].
Proof. induction cs; simpl; auto. Qed.

Lemma shape_grow s k e0 lg' tr0 st' peers' :
  member_entry e0 -> grows e0 (cs_lg s) lg' -> k = cs_clock s ->
  (exists cs by_, tr0 = map (fun c => (k, TPin c by_)) cs) ->
  step_shape s (mk_cstate (cs_init s) lg' st' (cs_tr s ++ tr0 ++ mem_trace k (cs_lg s) lg') (cs_clock s) peers').
Proof.
  intros M [suf [-> O]] -> [cs [by_ ->]]. rewrite mem_trace_grows.
  exists (map (fun c => (cs_clock s, TPin c by_)) cs ++ map (fun e => (cs_clock s, e)) (flat_map tev_of suf)). simpl.
  split; auto. split; [apply seg_pins_mems; intros e; apply tev_of_no_pin|].
  split; auto. rewrite flat_map_app, flat_map_pins, flat_map_map_snd. simpl. f_equal. symmetry. apply mem_of_tev_of.
  now apply (only_member e0).
Qed.

Lemma do_shutdown_shape s p q os snap : step_shape s (do_shutdown s (cs_clock s) p q os snap).
Proof.
  unfold do_shutdown. destruct (cp_leave q && cp_ready q && negb (cp_removed q)).
  - pose proof (shape_grow s (cs_clock s) (ERm p) (fst (cons_rm (cs_init s) (cs_lg s) p os)) [] (cs_st s)) as H. simpl in H.
    apply H; auto; [reflexivity|apply cons_rm_grows|now exists [], 0].
  - rewrite mem_trace_same, app_nil_r. exists []. rewrite !app_nil_r. simpl. repeat split; auto. apply seg_ok_nil.
Qed.

Lemma clstep1_shape s ev : step_shape s (fst (clstep1 s ev)).
Proof.
  destruct ev as [caller target o os|caller target os id_ok|p via marker os|p|p snap|p os snap|p rdy|caller e ord c log_ok]; simpl.
  - destruct (aget caller (cs_peers s)) as [q|]; [|shp]. destruct (cp_running q); [|shp]. simpl.
    apply (shape_grow s (cs_clock s) (ERm target)); auto; [reflexivity|apply cons_rm_grows|]. eauto.
  - destruct (is_running s caller); [|shp]. simpl.
    pose proof (shape_grow s (cs_clock s) (EAdd target) (fst (cons_add (cs_init s) (cs_lg s) target os)) [] (cs_st s) (cs_peers s)) as H.
    simpl in H. apply H; auto; [reflexivity|apply cons_add_grows|now exists [], 0].
  - destruct (aget p (cs_peers s)) as [q|]; [|shp]. destruct (cp_running q); [shp|].
    destruct (p =? via); [shp|]. destruct (is_running s via); [|shp]. simpl.
    match goal with |- step_shape s (mk_cstate _ _ _ _ _ ?P) =>
      pose proof (shape_grow s (cs_clock s) (EAdd p) (fst (cons_add (cs_init s) (cs_lg s) p os)) [] (cs_st s) P) as H end.
    simpl in H. apply H; auto; [reflexivity|apply cons_add_grows|now exists [], 0].
  - destruct (aget p (cs_peers s)) as [q|]; [|shp]. destruct (cp_running q); shp.
  - destruct (aget p (cs_peers s)) as [q|]; [|shp].
    destruct (cp_running q && negb (memN p (sees s q))); [|shp]. simpl. apply do_shutdown_shape.
  - destruct (aget p (cs_peers s)) as [q|]; [|shp]. destruct (cp_running q); [|shp]. simpl.
    apply do_shutdown_shape.
  - destruct (aget p (cs_peers s)) as [q|]; [|shp]. destruct (live (cp_dir q)); [|shp].
    destruct (cp_running q); shp.
  - destruct (aget caller (cs_peers s)) as [q|]; [|shp]. destruct (cp_running q && log_ok); [|shp]. simpl.
    exists (map (fun x => (cs_clock s, x)) (call_entries e (cs_st s) caller c (fst (C04_ClusterOps.step (pc_cfg (cp_pc q)) e ord (cs_st s) c)))).
    simpl. split; auto. split; [apply seg_norms; intros x; apply call_entries_norm|]. split; auto.
    rewrite flat_map_map_snd. assert (E : forall l, (forall x, In x l -> is_rm x = false) -> (forall x, In x l -> match x with TAdd _ => False | _ => True end) -> flat_map mem_of l = []).
    { induction l as [|x r IH]; simpl; auto. intros H1 H2. pose proof (H1 x (or_introl eq_refl)) as A1. pose proof (H2 x (or_introl eq_refl)) as A2.
      destruct x; simpl in *; try discriminate; try contradiction; apply IH; intros y Hy; [apply H1|apply H2|apply H1|apply H2]; now right. }
    rewrite E; [now rewrite app_nil_r|intros x; apply call_entries_norm|].
    intros x. unfold call_entries. destruct (fst (C04_ClusterOps.step (pc_cfg (cp_pc q)) e ord (cs_st s) c)); [|intros []].
    destruct c; simpl; try (intros [<-|[]]; exact I); intros H; apply in_map_iff in H; destruct H as [? [<- _]]; exact I.
Qed.

(* ================= invariants of the trace over every event list ================= *)
Definition tr_inv (s : cstate) : Prop :=
  (forall x, In x (cs_tr s) -> (fst x < cs_clock s)%nat) /\ ordered (cs_tr s) /\
  flat_map (fun x => mem_of (snd x)) (cs_tr s) = cs_lg s.

Lemma clstep_tr_inv s ev : tr_inv s -> tr_inv (fst (clstep s ev)).
Proof.
  intros [N [O M]]. unfold clstep. simpl. destruct (clstep1_shape s ev) as [seg [Et [Sg [El [Ec _]]]]].
  set (s1 := fst (clstep1 s ev)) in *. unfold tr_inv, with_clock. simpl. rewrite Et, El, Ec. split; [|split].
  - intros x Hx. apply in_app_or in Hx. destruct Hx as [Hx|Hx]; [specialize (N x Hx); lia|]. rewrite (seg_ok_num _ _ _ Sg Hx). lia.
  - apply ordered_app; auto; [now apply (seg_ok_ordered (cs_clock s))|]. intros k e Hin _. apply no_pin_of_all. intros x Hx Ek.
    specialize (N _ Hin). simpl in N. rewrite (seg_ok_num _ _ _ Sg Hx) in Ek. lia.
  - now rewrite flat_map_app, M.
Qed.

Lemma clrun_tr_inv evs : forall s, tr_inv s -> tr_inv (clrun s evs).
Proof. induction evs as [|ev r IH]; simpl; intros s H; auto. apply IH. now apply clstep_tr_inv. Qed.

Lemma clinit_tr_inv s : clinit_ok s = true -> tr_inv s.
Proof.
  unfold clinit_ok. intros H. apply andb_prop in H. destruct H as [H _]. apply andb_prop in H. destruct H as [H _].
  destruct (cs_lg s) eqn:El; [|discriminate]. destruct (cs_tr s) eqn:Et; [|discriminate].
  unfold tr_inv. rewrite El, Et. simpl. repeat split; auto. intros x [].
Qed.

(* in the log, no re-pin of a PeerRemove call follows the configuration entry of that call *)
Lemma ordering_l s0 evs l1 l2 k p c by_ : clinit_ok s0 = true ->
  cs_tr (clrun s0 evs) = l1 ++ (k, TRm p) :: l2 -> ~ In (k, TPin c by_) l2.
Proof.
  intros I E. destruct (clrun_tr_inv evs s0 (clinit_tr_inv s0 I)) as [_ [O _]]. rewrite E in O.
  apply ordered_app_r in O. simpl in O. destruct O as [O _]. apply no_pin_of_in. now apply O.
Qed.

Lemma trace_is_log_l s0 evs : clinit_ok s0 = true ->
  flat_map (fun x => mem_of (snd x)) (cs_tr (clrun s0 evs)) = cs_lg (clrun s0 evs).
Proof. intros I. now destruct (clrun_tr_inv evs s0 (clinit_tr_inv s0 I)) as [_ [_ M]]. Qed.

(* which event an entry of the trace comes from *)
Definition entry_from (ev : cev) (e : tev) : Prop :=
  match ev, e with
  | EvPeerRemove caller _ _ _, TPin _ b => b = caller
  | EvPeerRemove _ target _ _, TRm p => p = target
  | EvShutdown p _ _, TRm q => q = p
  | EvPeerAdd _ target _ _, TAdd p => p = target
  | EvJoin p _ _ _, TAdd q => q = p
  | EvCall caller _ _ _ _, TPin _ b => b = caller
  | EvCall caller _ _ _ _, TUnpin _ b => b = caller
  | _, _ => False
  end.

Lemma in_mem_trace k lg lg' e0 x : grows e0 lg lg' -> In x (mem_trace k lg lg') -> fst x = k /\ In (snd x) (tev_of e0).
Proof.
  intros [suf [-> O]]. rewrite mem_trace_grows. intros H. apply in_map_iff in H. destruct H as [e [<- He]]. split; auto.
  apply in_flat_map in He. destruct He as [m [Hm He]]. now rewrite <- (O m Hm).
Qed.

Lemma do_shutdown_from s p q os snap x : In x (cs_tr (do_shutdown s (cs_clock s) p q os snap)) ->
  In x (cs_tr s) \/ (fst x = cs_clock s /\ snd x = TRm p).
Proof.
  unfold do_shutdown. simpl. intros H. apply in_app_or in H. destruct H as [H|H]; auto. right.
  destruct (cp_leave q && cp_ready q && negb (cp_removed q)).
  - destruct (in_mem_trace _ _ _ (ERm p) x (cons_rm_grows _ _ _ _) H) as [A [B|[]]]. auto.
  - rewrite mem_trace_same in H. destruct H.
Qed.

Lemma clstep1_from s ev x : In x (cs_tr (fst (clstep1 s ev))) ->
  In x (cs_tr s) \/ (fst x = cs_clock s /\ entry_from ev (snd x)).
Proof.
  destruct ev as [caller target o os|caller target os id_ok|p via marker os|p|p snap|p os snap|p rdy|caller e ord c log_ok]; simpl.
  - destruct (aget caller (cs_peers s)) as [q|]; auto. destruct (cp_running q); auto. simpl. intros H.
    apply in_app_or in H. destruct H as [H|H]; auto. right. apply in_app_or in H. destruct H as [H|H].
    + apply in_map_iff in H. destruct H as [c [<- _]]. simpl. auto.
    + destruct (in_mem_trace _ _ _ (ERm target) x (cons_rm_grows _ _ _ _) H) as [A [B|[]]]. rewrite <- B. simpl. auto.
  - destruct (is_running s caller); auto. simpl. intros H. apply in_app_or in H. destruct H as [H|H]; auto. right.
    destruct (in_mem_trace _ _ _ (EAdd target) x (cons_add_grows _ _ _ _) H) as [A [B|[]]]. rewrite <- B. simpl. auto.
  - destruct (aget p (cs_peers s)) as [q|]; auto. destruct (cp_running q); auto. destruct (p =? via); auto.
    destruct (is_running s via); auto. simpl. intros H. apply in_app_or in H. destruct H as [H|H]; auto. right.
    destruct (in_mem_trace _ _ _ (EAdd p) x (cons_add_grows _ _ _ _) H) as [A [B|[]]]. rewrite <- B. simpl. auto.
  - destruct (aget p (cs_peers s)) as [q|]; auto. destruct (cp_running q); auto.
  - destruct (aget p (cs_peers s)) as [q|]; auto. destruct (cp_running q && negb (memN p (sees s q))); auto. simpl. intros H.
    rewrite andb_false_r in H. rewrite mem_trace_same, app_nil_r in H. auto.
  - destruct (aget p (cs_peers s)) as [q|]; auto. destruct (cp_running q); auto. intros H.
    apply do_shutdown_from in H. destruct H as [H|[A B]]; auto. right. rewrite B. simpl. auto.
  - destruct (aget p (cs_peers s)) as [q|]; auto. destruct (live (cp_dir q)); auto. destruct (cp_running q); auto.
  - destruct (aget caller (cs_peers s)) as [q|]; auto. destruct (cp_running q && log_ok); auto. simpl. intros H.
    apply in_app_or in H. destruct H as [H|H]; auto. right. apply in_map_iff in H. destruct H as [y [<- Hy]]. split; auto. simpl.
    unfold call_entries in Hy. destruct (fst (C04_ClusterOps.step (pc_cfg (cp_pc q)) e ord (cs_st s) c)); [|destruct Hy].
    destruct c; simpl in Hy; try (destruct Hy as [<-|[]]; reflexivity); apply in_map_iff in Hy; destruct Hy as [? [<- _]]; reflexivity.
Qed.

Lemma clrun_snoc s evs ev : clrun s (evs ++ [ev]) = fst (clstep (clrun s evs) ev).
Proof. unfold clrun. now rewrite fold_left_app. Qed.

Lemma clstep_clock s ev : cs_clock (fst (clstep s ev)) = S (cs_clock s).
Proof. unfold clstep. simpl. destruct (clstep1_shape s ev) as [_ [_ [_ [_ [Ec _]]]]]. now rewrite Ec. Qed.
Lemma clrun_clock evs : forall s, cs_clock (clrun s evs) = (cs_clock s + length evs)%nat.
Proof. induction evs as [|ev r IH]; intros s; [simpl; lia|]. change (clrun s (ev :: r)) with (clrun (fst (clstep s ev)) r).
  rewrite IH, clstep_clock. simpl. lia. Qed.

(* every entry of the trace is explained by the event whose number it carries *)
Lemma trace_explained_l s0 evs : clinit_ok s0 = true -> forall x, In x (cs_tr (clrun s0 evs)) ->
  exists ev, nth_error evs (fst x) = Some ev /\ entry_from ev (snd x).
Proof.
  intros I. assert (C0 : cs_clock s0 = 0%nat).
  { unfold clinit_ok in I. apply andb_prop in I. destruct I as [I _]. apply andb_prop in I. destruct I as [_ I]. now apply Nat.eqb_eq in I. }
  assert (T0 : cs_tr s0 = []).
  { unfold clinit_ok in I. apply andb_prop in I. destruct I as [I _]. apply andb_prop in I. destruct I as [I _].
    destruct (cs_lg s0); [|discriminate]. destruct (cs_tr s0); [reflexivity|discriminate]. }
  induction evs as [|ev r IH] using rev_ind; intros x Hx.
  - simpl in Hx. rewrite T0 in Hx. destruct Hx.
  - rewrite clrun_snoc in Hx. unfold clstep in Hx. simpl in Hx. apply clstep1_from in Hx. destruct Hx as [Hx|[A B]].
    + destruct (IH x Hx) as [ev' [E F]]. exists ev'. split; auto. rewrite nth_error_app1; auto. apply nth_error_Some. congruence.
    + exists ev. split; auto. rewrite A, clrun_clock, C0. simpl. rewrite nth_error_app2 by lia. now rewrite Nat.sub_diag.
Qed.

(* a re-pin and a removal entry carrying the same number come from one PeerRemove call: of that peer, issued by the re-pinner *)
Lemma same_call_l s0 evs k c by_ p : clinit_ok s0 = true ->
  In (k, TPin c by_) (cs_tr (clrun s0 evs)) -> In (k, TRm p) (cs_tr (clrun s0 evs)) ->
  exists o os, nth_error evs k = Some (EvPeerRemove by_ p o os).
Proof.
  intros I H1 H2. destruct (trace_explained_l s0 evs I _ H1) as [e1 [E1 F1]]. destruct (trace_explained_l s0 evs I _ H2) as [e2 [E2 F2]].
  simpl in *. rewrite E1 in E2. inversion E2; subst e2. destruct e1; simpl in *; try contradiction. subst. eauto.
Qed.

(* ================= the pinset ================= *)
Lemma vacate_f_plain pc o st f : r_fail o = [] -> vacate_f pc o st f = vacate pc (r_env o) (r_ord o) (r_lord o) st f.
Proof. intros E. unfold vacate_f, vacate. rewrite E. reflexivity. Qed.

Lemma vacate_f_keeps pc o st f h : aget h st <> None -> aget h (fst (vacate_f pc o st f)) <> None.
Proof. intros H. unfold vacate_f. destruct (pc_norepin pc); auto. rewrite repin_loop_fold. now apply loop_keeps. Qed.

Lemma vacate_f_no_new pc o st f h : list_oracle (r_lord o) -> inv st -> aget h st = None -> aget h (fst (vacate_f pc o st f)) = None.
Proof.
  intros L I H. unfold vacate_f. destruct (pc_norepin pc); auto. rewrite repin_loop_fold. apply loop_no_new; auto.
  intros y Hy. simpl. rewrite (listed_in (r_lord o) st y L I Hy). discriminate.
Qed.

Lemma vacate_f_inv pc o st f : inv st -> inv (fst (vacate_f pc o st f)).
Proof. intros I. unfold vacate_f. destruct (pc_norepin pc); auto. rewrite repin_loop_fold. now apply loop_inv. Qed.

Lemma vacate_f_idle pc o st f : pc_norepin pc = true \/ follower (pc_cfg pc) = true -> vacate_f pc o st f = (st, []).
Proof.
  intros H. unfold vacate_f. destruct (pc_norepin pc) eqn:R; auto. destruct H as [H|H]; [discriminate|].
  rewrite repin_loop_fold.
  destruct (loop_follower (pc_cfg pc) (r_env o) (r_ord o) f (fun x => negb (memN (p_cid x) (r_fail o))) (listed (r_lord o) st) (st, []) H) as [A B].
  simpl in A, B. destruct (fold_left _ _ _); simpl in *; congruence.
Qed.

(* the reachable pinsets keep C04's invariant *)
Lemma clstep_inv s ev : inv (cs_st s) -> inv (cs_st (fst (clstep s ev))).
Proof.
  intros I. unfold clstep. simpl.
  destruct ev as [caller target o os|caller target os id_ok|p via marker os|p|p snap|p os snap|p rdy|caller e ord c log_ok]; simpl.
  - destruct (aget caller (cs_peers s)) as [q|]; auto. destruct (cp_running q); auto. simpl. now apply vacate_f_inv.
  - destruct (is_running s caller); auto.
  - destruct (aget p (cs_peers s)) as [q|]; auto. destruct (cp_running q); auto. destruct (p =? via); auto. destruct (is_running s via); auto.
  - destruct (aget p (cs_peers s)) as [q|]; auto. destruct (cp_running q); auto.
  - destruct (aget p (cs_peers s)) as [q|]; auto. destruct (cp_running q && negb (memN p (sees s q))); auto.
  - destruct (aget p (cs_peers s)) as [q|]; auto. destruct (cp_running q); auto.
  - destruct (aget p (cs_peers s)) as [q|]; auto. destruct (live (cp_dir q)); auto. destruct (cp_running q); auto.
  - destruct (aget caller (cs_peers s)) as [q|]; auto. destruct (cp_running q && log_ok); auto. simpl. now apply inv_step.
Qed.
Lemma clrun_inv evs : forall s, inv (cs_st s) -> inv (cs_st (clrun s evs)).
Proof. induction evs as [|ev r IH]; simpl; intros s H; auto. apply IH. now apply clstep_inv. Qed.

(* only PeerRemove and user calls touch the pinset *)
Definition touches_pins (ev : cev) : bool := match ev with EvPeerRemove _ _ _ _ | EvCall _ _ _ _ _ => true | _ => false end.
Lemma other_events_keep_pinset_l s ev : touches_pins ev = false -> cs_st (fst (clstep s ev)) = cs_st s.
Proof.
  unfold clstep. simpl. destruct ev as [caller target o os|caller target os id_ok|p via marker os|p|p snap|p os snap|p rdy|caller e ord c log_ok];
    simpl; try discriminate; intros _.
  - destruct (is_running s caller); auto.
  - destruct (aget p (cs_peers s)) as [q|]; auto. destruct (cp_running q); auto. destruct (p =? via); auto. destruct (is_running s via); auto.
  - destruct (aget p (cs_peers s)) as [q|]; auto. destruct (cp_running q); auto.
  - destruct (aget p (cs_peers s)) as [q|]; auto. destruct (cp_running q && negb (memN p (sees s q))); auto.
  - destruct (aget p (cs_peers s)) as [q|]; auto. destruct (cp_running q); auto.
  - destruct (aget p (cs_peers s)) as [q|]; auto. destruct (live (cp_dir q)); auto. destruct (cp_running q); auto.
Qed.

(* what PeerRemove does, issued at a running peer *)
Lemma remove_state_l s caller q target o os : aget caller (cs_peers s) = Some q -> cp_running q = true ->
  let r := clstep s (EvPeerRemove caller target o os) in
  let v := vacate_f (cp_pc q) o (cs_st s) target in
  let m := cons_rm (cs_init s) (cs_lg s) target os in
  cs_st (fst r) = fst v /\ cs_lg (fst r) = fst m /\ snd r = snd m /\ cs_peers (fst r) = cs_peers s /\
  cs_tr (fst r) = cs_tr s ++ map (fun c => (cs_clock s, TPin c caller)) (snd v) ++ mem_trace (cs_clock s) (cs_lg s) (fst m).
Proof. intros A R. unfold clstep. simpl. rewrite A, R. simpl. repeat split; reflexivity. Qed.

Lemma remove_not_running_l s caller target o os : is_running s caller = false ->
  let r := clstep s (EvPeerRemove caller target o os) in
  snd r = true /\ cs_st (fst r) = cs_st s /\ cs_lg (fst r) = cs_lg s /\ cs_tr (fst r) = cs_tr s /\ cs_peers (fst r) = cs_peers s.
Proof.
  unfold is_running, clstep. simpl. destruct (aget caller (cs_peers s)) as [q|]; [intros ->|intros _]; simpl; repeat split; reflexivity.
Qed.

Lemma remove_never_drops_l s caller target o os h : list_oracle (r_lord o) -> inv (cs_st s) ->
  (aget h (cs_st (fst (clstep s (EvPeerRemove caller target o os)))) = None <-> aget h (cs_st s) = None).
Proof.
  intros L I. unfold clstep. simpl. destruct (aget caller (cs_peers s)) as [q|]; [|tauto]. destruct (cp_running q); [|tauto]. simpl.
  split; intros H.
  - destruct (aget h (cs_st s)) eqn:G; auto. exfalso. apply (vacate_f_keeps (cp_pc q) o (cs_st s) target h); auto. congruence.
  - now apply vacate_f_no_new.
Qed.

Lemma remove_disabled_l s caller q target o os : aget caller (cs_peers s) = Some q -> cp_running q = true ->
  pc_norepin (cp_pc q) = true \/ follower (pc_cfg (cp_pc q)) = true ->
  let r := clstep s (EvPeerRemove caller target o os) in
  let m := cons_rm (cs_init s) (cs_lg s) target os in
  cs_st (fst r) = cs_st s /\ cs_lg (fst r) = fst m /\ snd r = snd m /\ cs_peers (fst r) = cs_peers s /\
  cs_tr (fst r) = cs_tr s ++ mem_trace (cs_clock s) (cs_lg s) (fst m) /\
  (forall x, In x (mem_trace (cs_clock s) (cs_lg s) (fst m)) -> x = (cs_clock s, TRm target)).
Proof.
  intros A R D. destruct (remove_state_l s caller q target o os A R) as [E1 [E2 [E3 [E4 E5]]]]. cbv zeta in *.
  rewrite (vacate_f_idle _ _ _ _ D) in E1, E5. simpl in E1, E5. repeat split; auto.
  intros x Hx. destruct (in_mem_trace _ _ _ (ERm target) x (cons_rm_grows _ _ _ _) Hx) as [F [G|[]]].
  destruct x; simpl in *; congruence.
Qed.

(* with re-pinning enabled: the pinset after PeerRemove is C10's vacate, hence its per-pin outcome *)
Lemma remove_rehomes_l s caller q target o os c x :
  aget caller (cs_peers s) = Some q -> cp_running q = true -> r_fail o = [] ->
  list_oracle (r_lord o) -> map_oracle (r_ord o) -> NoDup (map mpeer (e_metrics (r_env o))) -> inv (cs_st s) ->
  follower (pc_cfg (cp_pc q)) = false -> pc_norepin (cp_pc q) = false ->
  aget c (cs_st s) = Some x -> ~ is_update x -> wf_repin (r_env o) x -> NoDup (p_allocs x) -> In target (p_allocs x) ->
  let s' := fst (clstep s (EvPeerRemove caller target o os)) in
  let seg := skipn (length (cs_tr s)) (cs_tr s') in
  let i := repin_input (pc_cfg (cp_pc q)) (r_env o) target x in
  let now := e_now (r_env o) in
  ((o_rmin (p_opts x) <= healthy_count now i (p_allocs x) <= o_rmax (p_opts x))%Z -> aget c (cs_st s') = Some x) /\
  ((healthy_count now i (p_allocs x) < o_rmin (p_opts x))%Z ->
     match allocate now i (r_ord o c) with
     | Ok l => aget c (cs_st s') = Some (set_allocs l x) /\ ~ In target l /\ NoDup l /\
               (o_rmin (p_opts x) <= healthy_count now i l <= o_rmax (p_opts x))%Z /\
               In (cs_clock s, TPin c caller) seg
     | _ => aget c (cs_st s') = Some x /\ ~ In (cs_clock s, TPin c caller) seg end).
Proof.
  intros A R F L O Hm I Fo Nr G NU W ND Hin. cbv zeta.
  destruct (remove_state_l s caller q target o os A R) as [E1 [_ [_ [_ E5]]]]. cbv zeta in *. rewrite E1, E5, skipn_app_exact.
  rewrite (vacate_f_plain _ _ _ _ F).
  destruct (vacate_rehomes_s (cp_pc q) (r_env o) (r_ord o) (r_lord o) (cs_st s) target c x L O Hm I Fo Nr G NU W ND Hin) as [V1 V2].
  cbv zeta in V1, V2. split; auto. intros U. specialize (V2 U).
  set (lg := snd (vacate (cp_pc q) (r_env o) (r_ord o) (r_lord o) (cs_st s) target)) in *.
  assert (Cnt : forall n, cnt c lg = n -> (n <> 0%nat <-> In (cs_clock s, TPin c caller) (map (fun c0 => (cs_clock s, TPin c0 caller)) lg ++ mem_trace (cs_clock s) (cs_lg s) (fst (cons_rm (cs_init s) (cs_lg s) target os))))).
  { intros n En. split.
    - intros Hn. apply in_or_app. left. apply in_map_iff. exists c. split; auto. unfold cnt in En.
      destruct (filter (N.eqb c) lg) as [|y r] eqn:Fl; [simpl in En; congruence|].
      assert (Hy : In y (filter (N.eqb c) lg)) by (rewrite Fl; now left). apply filter_In in Hy. destruct Hy as [Hy Ey].
      apply N.eqb_eq in Ey. now subst y.
    - intros Hi. apply in_app_or in Hi. destruct Hi as [Hi|Hi].
      + apply in_map_iff in Hi. destruct Hi as [c0 [E0 H0]]. inversion E0; subst c0. unfold cnt in En. subst n.
        intros Z. apply length_zero_iff_nil in Z. assert (Hf : In c (filter (N.eqb c) lg)) by (apply filter_In; split; auto; apply N.eqb_refl).
        rewrite Z in Hf. destruct Hf.
      + destruct (in_mem_trace _ _ _ (ERm target) _ (cons_rm_grows _ _ _ _) Hi) as [_ [B|[]]]. discriminate. }
  destruct (allocate (e_now (r_env o)) (repin_input (pc_cfg (cp_pc q)) (r_env o) target x) (r_ord o c)) as [l| |].
  - destruct V2 as [V21 [V22 [V23 [V24 V25]]]]. split; [exact V21|]. split; [exact V22|]. split; [exact V23|]. split; [exact V24|].
    apply (Cnt 1%nat V25). discriminate.
  - destruct V2 as [V21 V22]. split; auto. intros Hi. apply (Cnt 0%nat V22) in Hi. congruence.
  - destruct V2 as [V21 V22]. split; auto. intros Hi. apply (Cnt 0%nat V22) in Hi. congruence.
Qed.

(* ================= a removed peer stops itself and discards its consensus data ================= *)
(* the data folder as consensus.Shutdown leaves it *)
Definition shut_folder (snap : option N) (f : folder N) : folder N :=
  match snap with Some x => (fst f, Some x) | None => f end.

Lemma cleanup_after_shutdown keep snap (d : dir N) f : live d = Some f ->
  cleanup keep (snap_dir snap d) =
    match snd (shut_folder snap f) with
    | Some _ => mk_dir None (rotate keep (shut_folder snap f) (olds d))
    | None => mk_dir None (olds d)
    end.
Proof.
  intros L. unfold snap_dir, shut_folder. rewrite L. destruct f as [m sn]. destruct snap as [x|]; simpl.
  - reflexivity.
  - unfold cleanup. rewrite L. destruct sn; simpl; [unfold make_backup; now rewrite L|reflexivity].
Qed.

Lemma tick_removed_l s p q snap : aget p (cs_peers s) = Some q -> cp_running q = true -> memN p (sees s q) = false ->
  let s' := fst (clstep s (EvWatchTick p snap)) in
  exists q', aget p (cs_peers s') = Some q' /\ cp_running q' = false /\ cp_removed q' = true /\
    cp_dir q' = (if cp_ready q then cleanup (cp_keep q) (snap_dir snap (cp_dir q)) else snap_dir snap (cp_dir q)) /\
    cp_cleans q' = (if cp_ready q then S (cp_cleans q) else cp_cleans q) /\
    cs_lg s' = cs_lg s /\ cs_st s' = cs_st s /\ cs_tr s' = cs_tr s /\
    (forall p', p' <> p -> aget p' (cs_peers s') = aget p' (cs_peers s)).
Proof.
  intros A R M. unfold clstep. simpl. rewrite A, R, M. simpl. rewrite andb_false_r. simpl.
  eexists. split; [apply aget_aput_same|]. simpl. rewrite mem_trace_same, app_nil_r.
  destruct (cp_ready q); simpl; repeat split; auto; intros p' Hp; now apply aget_aput_other.
Qed.

Lemma clstep_init s ev : cs_init (fst (clstep s ev)) = cs_init s.
Proof. unfold clstep. simpl. now destruct (clstep1_shape s ev) as [_ [_ [_ [_ [_ Ei]]]]]. Qed.
Lemma clrun_init evs : forall s, cs_init (clrun s evs) = cs_init s.
Proof. induction evs as [|ev r IH]; intros s; auto. change (clrun s (ev :: r)) with (clrun (fst (clstep s ev)) r).
  now rewrite IH, clstep_init. Qed.

Lemma deliver_l s p q : aget p (cs_peers s) = Some q -> cp_running q = true ->
  fst (clstep s (EvDeliver p)) =
  with_clock (with_peer s p (set_run q true (cp_ready q) (cp_removed q) (length (cs_lg s)) (cp_dir q) (cp_cleans q))).
Proof. intros A R. unfold clstep. simpl. rewrite A, R. reflexivity. Qed.

(* the whole clause: removal acknowledged, the entry reaches the removed peer, its watcher ticks *)
Lemma removed_peer_stops_and_cleans_l s caller qc p q o os snap f :
  aget caller (cs_peers s) = Some qc -> cp_running qc = true ->
  aget p (cs_peers s) = Some q -> cp_running q = true -> cp_ready q = true -> live (cp_dir q) = Some f ->
  let r := clstep s (EvPeerRemove caller p o os) in
  snd r = false ->
  let s3 := fst (clstep (fst (clstep (fst r) (EvDeliver p))) (EvWatchTick p snap)) in
  memN p (cfg_peers s3) = false /\
  exists q', aget p (cs_peers s3) = Some q' /\ cp_running q' = false /\ cp_removed q' = true /\ live (cp_dir q') = None /\
    cp_cleans q' = S (cp_cleans q) /\
    olds (cp_dir q') = match snd (shut_folder snap f) with
                       | Some _ => rotate (cp_keep q) (shut_folder snap f) (olds (cp_dir q))
                       | None => olds (cp_dir q) end.
Proof.
  intros Ac Rc A R Rd L. cbv zeta. intros Ok.
  destruct (remove_state_l s caller qc p o os Ac Rc) as [_ [E2 [E3 [E4 _]]]]. cbv zeta in *.
  pose proof (clstep_init s (EvPeerRemove caller p o os)) as I1.
  remember (fst (clstep s (EvPeerRemove caller p o os))) as s1 eqn:Hs1.
  assert (Out : memN p (peers_of (cs_init s) (cs_lg s1)) = false).
  { rewrite E2. destruct (cons_rm_spec (cs_init s) (cs_lg s) p os) as [_ [_ H]]. apply H. now rewrite <- E3. }
  assert (A1 : aget p (cs_peers s1) = Some q) by (rewrite E4; exact A).
  pose proof (deliver_l s1 p q A1 R) as S2.
  remember (set_run q true (cp_ready q) (cp_removed q) (length (cs_lg s1)) (cp_dir q) (cp_cleans q)) as q1 eqn:Hq1.
  remember (fst (clstep s1 (EvDeliver p))) as s2 eqn:Hs2.
  assert (A2 : aget p (cs_peers s2) = Some q1) by (rewrite S2; apply aget_aput_same).
  assert (L2 : cs_lg s2 = cs_lg s1) by (rewrite S2; reflexivity).
  assert (I2 : cs_init s2 = cs_init s) by (rewrite S2; exact I1).
  assert (Rv : cp_recv q1 = length (cs_lg s1)) by (rewrite Hq1; reflexivity).
  assert (M2 : memN p (sees s2 q1) = false).
  { unfold sees. rewrite L2, I2, Rv, firstn_all. exact Out. }
  assert (R1 : cp_running q1 = true) by (rewrite Hq1; reflexivity).
  destruct (tick_removed_l s2 p q1 snap A2 R1 M2) as [q' [B1 [B2 [B3 [B4 [B5 [B6 _]]]]]]]. cbv zeta in *.
  split.
  - unfold cfg_peers. rewrite B6, clstep_init, L2, I2. exact Out.
  - exists q'. assert (Rd1 : cp_ready q1 = true) by (rewrite Hq1; exact Rd). rewrite Rd1 in B4, B5.
    assert (D1 : cp_dir q1 = cp_dir q) by (rewrite Hq1; reflexivity).
    assert (K1 : cp_keep q1 = cp_keep q) by (rewrite Hq1; reflexivity).
    assert (C1 : cp_cleans q1 = cp_cleans q) by (rewrite Hq1; reflexivity).
    rewrite D1, K1, (cleanup_after_shutdown _ _ _ f L) in B4. rewrite C1 in B5.
    repeat split; auto; rewrite B4; destruct (snd (shut_folder snap f)); reflexivity.
Qed.

(* ================= a peer that was never out of the peerset (and does not leave on shutdown) never cleans ================= *)
Definition was_out (s : cstate) (p : N) : Prop := exists k, memN p (peers_of (cs_init s) (firstn k (cs_lg s))) = false.
Definition clean_inv (s : cstate) : Prop :=
  forall p q, aget p (cs_peers s) = Some q -> cp_leave q = false -> cp_removed q = true \/ cp_cleans q <> 0%nat -> was_out s p.

Lemma firstn_app_le {A} k (a b : list A) : (k <= length a)%nat -> firstn k (a ++ b) = firstn k a.
Proof. intros H. rewrite firstn_app. replace (k - length a)%nat with 0%nat by lia. simpl. apply app_nil_r. Qed.

Lemma was_out_grows init lg suf p : (exists k, memN p (peers_of init (firstn k lg)) = false) ->
  exists k, memN p (peers_of init (firstn k (lg ++ suf))) = false.
Proof.
  intros [k H]. destruct (Nat.le_gt_cases k (length lg)) as [Hk|Hk].
  - exists k. now rewrite firstn_app_le.
  - exists (length lg). rewrite firstn_app_le by lia. rewrite firstn_all. rewrite firstn_all2 in H by lia. exact H.
Qed.

(* a step that extends the log and replaces at most one peer's record keeps the invariant, provided the new record is justified *)
Lemma clean_inv_step s lg' st' tr' ck' peers' :
  clean_inv s -> (exists suf, lg' = cs_lg s ++ suf) ->
  (forall p q', aget p peers' = Some q' -> cp_leave q' = false -> cp_removed q' = true \/ cp_cleans q' <> 0%nat ->
     (exists q, aget p (cs_peers s) = Some q /\ cp_leave q = false /\ (cp_removed q = true \/ cp_cleans q <> 0%nat)) \/
     (exists k, memN p (peers_of (cs_init s) (firstn k lg')) = false)) ->
  clean_inv (mk_cstate (cs_init s) lg' st' tr' ck' peers').
Proof.
  intros I [suf ->] H p q' A Lv Fl. unfold was_out. simpl. destruct (H p q' A Lv Fl) as [[q [A0 [L0 F0]]]|W]; auto.
  apply was_out_grows. exact (I p q A0 L0 F0).
Qed.

Lemma aput_cases {V} p p' (q' : V) m x : aget p' (aput p q' m) = Some x -> (p' = p /\ x = q') \/ (p' <> p /\ aget p' m = Some x).
Proof.
  destruct (N.eq_dec p' p) as [->|Hn].
  - rewrite aget_aput_same. intros E. inversion E. auto.
  - rewrite aget_aput_other by auto. auto.
Qed.

Lemma do_shutdown_clean_inv s k p q os snap : clean_inv s -> aget p (cs_peers s) = Some q ->
  clean_inv (do_shutdown s k p q os snap).
Proof.
  intros I A. unfold do_shutdown. apply clean_inv_step; auto.
  - destruct (cp_leave q && cp_ready q && negb (cp_removed q)); [|exists []; now rewrite app_nil_r].
    destruct (cons_rm_grows (cs_init s) (cs_lg s) p os) as [suf [E _]]. eauto.
  - intros p' q' A' Lv Fl. apply aput_cases in A'. destruct A' as [[-> ->]|[Hn A']]; [|left; eauto].
    left. exists q. simpl in Lv, Fl. rewrite Lv in Fl. simpl in Fl. rewrite orb_false_r in Fl. split; auto. split; auto.
    destruct Fl as [Fl|Fl]; auto. destruct (cp_removed q) eqn:Rm; simpl in Fl; auto.
Qed.

Lemma clstep_clean_inv s ev : clean_inv s -> clean_inv (fst (clstep s ev)).
Proof.
  intros I. assert (W : forall t, clean_inv t -> clean_inv (with_clock t)) by (intros t H; exact H).
  unfold clstep. simpl. apply W.
  destruct ev as [caller target o os|caller target os id_ok|p via marker os|p|p snap|p os snap|p rdy|caller e ord c log_ok]; simpl.
  - destruct (aget caller (cs_peers s)) as [q|]; auto. destruct (cp_running q); auto. simpl. apply clean_inv_step; auto.
    + destruct (cons_rm_grows (cs_init s) (cs_lg s) target os) as [suf [E _]]. eauto.
    + intros p q' A Lv Fl. left. eauto.
  - destruct (is_running s caller); auto. simpl. apply clean_inv_step; auto.
    + destruct (cons_add_grows (cs_init s) (cs_lg s) target os) as [suf [E _]]. eauto.
    + intros p q' A Lv Fl. left. eauto.
  - destruct (aget p (cs_peers s)) as [q|] eqn:A; auto. destruct (cp_running q); auto.
    assert (J : forall lg' st' tr' ck' q', (exists suf, lg' = cs_lg s ++ suf) -> cp_leave q' = cp_leave q -> cp_removed q' = false ->
                cp_cleans q' = cp_cleans q -> clean_inv (mk_cstate (cs_init s) lg' st' tr' ck' (aput p q' (cs_peers s)))).
    { intros lg' st' tr' ck' q' G E1 E2 E3. apply clean_inv_step; auto. intros p' x A' Lv Fl. apply aput_cases in A'.
      destruct A' as [[-> ->]|[Hn A']]; [|left; eauto]. left. exists q. rewrite E1 in Lv. rewrite E2, E3 in Fl.
      split; auto. split; auto. destruct Fl as [Fl|Fl]; [discriminate|auto]. }
    destruct (p =? via); [apply J; auto; exists []; now rewrite app_nil_r|].
    destruct (is_running s via); [|apply J; auto; exists []; now rewrite app_nil_r]. simpl.
    apply J; try (destruct (snd (cons_add (cs_init s) (cs_lg s) p os)); reflexivity).
    destruct (cons_add_grows (cs_init s) (cs_lg s) p os) as [suf [E _]]. eauto.
  - destruct (aget p (cs_peers s)) as [q|] eqn:A; auto. destruct (cp_running q); auto. simpl.
    apply (clean_inv_step s (cs_lg s)); auto; [exists []; now rewrite app_nil_r|].
    intros p' x A' Lv Fl. apply aput_cases in A'. destruct A' as [[-> ->]|[Hn A']]; left; eauto.
  - destruct (aget p (cs_peers s)) as [q|] eqn:A; auto. destruct (cp_running q && negb (memN p (sees s q))) eqn:T; auto. simpl.
    apply andb_prop in T. destruct T as [_ T]. apply negb_true_iff in T.
    (* the watcher's own evidence: the configuration this peer has received lacks it *)
    set (qr := set_run q true (cp_ready q) true (cp_recv q) (cp_dir q) (cp_cleans q)).
    unfold do_shutdown. apply clean_inv_step; auto.
    + simpl. rewrite andb_false_r. exists []. now rewrite app_nil_r.
    + intros p' x A' Lv Fl. apply aput_cases in A'. destruct A' as [[-> ->]|[Hn A']]; [|left; eauto].
      right. simpl. rewrite andb_false_r. exists (cp_recv q). exact T.
  - destruct (aget p (cs_peers s)) as [q|] eqn:A; auto. destruct (cp_running q); auto. simpl. now apply do_shutdown_clean_inv.
  - destruct (aget p (cs_peers s)) as [q|] eqn:A; auto. destruct (live (cp_dir q)); auto. destruct (cp_running q); auto. simpl.
    apply (clean_inv_step s (cs_lg s)); auto; [exists []; now rewrite app_nil_r|].
    intros p' x A' Lv Fl. apply aput_cases in A'. destruct A' as [[-> ->]|[Hn A']]; [|left; eauto]. left. exists q. simpl in *.
    split; auto. split; auto. destruct Fl as [Fl|Fl]; [discriminate|auto].
  - destruct (aget caller (cs_peers s)) as [q|]; auto. destruct (cp_running q && log_ok); auto.
Qed.

Lemma clrun_clean_inv evs : forall s, clean_inv s -> clean_inv (clrun s evs).
Proof. induction evs as [|ev r IH]; simpl; intros s H; auto. apply IH. now apply clstep_clean_inv. Qed.

Lemma in_aget_some {V} p (q : V) m : aget p m = Some q -> In (p, q) m.
Proof. induction m as [|[k v] r IH]; simpl; [discriminate|]. destruct (p =? k) eqn:E; [apply N.eqb_eq in E; intros H; inversion H; subst; now left|auto]. Qed.

Lemma clinit_clean_inv s : clinit_ok s = true -> clean_inv s.
Proof.
  unfold clinit_ok. intros H. apply andb_prop in H. destruct H as [_ H]. rewrite forallb_forall in H.
  intros p q A _ Fl. specialize (H (p, q) (in_aget_some p q _ A)). simpl in H. unfold fresh_peer in H.
  apply andb_prop in H. destruct H as [H1 H2]. apply negb_true_iff in H1. apply Nat.eqb_eq in H2. destruct Fl; congruence.
Qed.

Lemma cleaned_only_if_removed_l s0 evs p q : clinit_ok s0 = true ->
  aget p (cs_peers (clrun s0 evs)) = Some q -> cp_leave q = false -> cp_removed q = true \/ cp_cleans q <> 0%nat ->
  exists k, memN p (peers_of (cs_init s0) (firstn k (cs_lg (clrun s0 evs)))) = false.
Proof.
  intros I A Lv Fl. destruct (clrun_clean_inv evs s0 (clinit_clean_inv s0 I) p q A Lv Fl) as [k H]. exists k.
  now rewrite clrun_init in H.
Qed.

(* an explicit Shutdown of a peer that has not been removed and does not leave: the data stays, nothing is rotated *)
Lemma shutdown_keeps_data_l s p q os snap : aget p (cs_peers s) = Some q -> cp_running q = true ->
  cp_removed q = false -> cp_leave q = false ->
  let s' := fst (clstep s (EvShutdown p os snap)) in
  exists q', aget p (cs_peers s') = Some q' /\ cp_running q' = false /\ cp_removed q' = false /\
    cp_dir q' = snap_dir snap (cp_dir q) /\ olds (cp_dir q') = olds (cp_dir q) /\
    (live (cp_dir q) <> None -> live (cp_dir q') <> None) /\ cp_cleans q' = cp_cleans q /\
    cs_lg s' = cs_lg s /\ cs_tr s' = cs_tr s /\ cs_st s' = cs_st s.
Proof.
  intros A R Rm Lv. unfold clstep. simpl. rewrite A, R. simpl. unfold do_shutdown. rewrite Lv, Rm. simpl.
  eexists. split; [apply aget_aput_same|]. simpl. rewrite mem_trace_same, app_nil_r. repeat split; auto.
  - unfold snap_dir. destruct snap; auto. destruct (live (cp_dir q)) as [[m sn]|]; auto.
  - unfold snap_dir. destruct snap; auto. destruct (live (cp_dir q)) as [[m sn]|]; simpl; auto. discriminate.
Qed.

(* as written, a peer configured to leave on shutdown cleans its data even when leaving failed: the sole peer of a cluster *)
Definition leave_peer : cpeer := mk_cpeer true true false 0 (mk_dir (Some (1, Some 7)) (fun _ => None)) 0 (mk_pcfg (mk_cfg 1 1 false false) false) true 1.
Definition leave_s0 : cstate := mk_cstate [0] [] [] [] 0 [(0, leave_peer)].
Lemma leave_failed_still_cleans :
  clinit_ok leave_s0 = true /\
  let s := clrun leave_s0 [EvShutdown 0 [Done; Done] None] in
  exists q, aget 0 (cs_peers s) = Some q /\ cp_cleans q = 1%nat /\ live (cp_dir q) = None /\ olds (cp_dir q) 0%nat = Some (1, Some 7) /\
            cs_lg s = [] /\ cfg_peers s = [0].
Proof. split; [reflexivity|]. cbv zeta. eexists. split; [reflexivity|]. repeat split. Qed.

Lemma cleaned_only_if_removed_refuted_l :
  exists s0 evs p q, clinit_ok s0 = true /\ aget p (cs_peers (clrun s0 evs)) = Some q /\ cp_cleans q <> 0%nat /\
    forall k, memN p (peers_of (cs_init s0) (firstn k (cs_lg (clrun s0 evs)))) = true.
Proof.
  exists leave_s0, [EvShutdown 0 [Done; Done] None], 0. eexists. split; [reflexivity|]. split; [reflexivity|]. split; [discriminate|].
  intros k. replace (cs_lg (clrun leave_s0 [EvShutdown 0 [Done; Done] None])) with (@nil mentry) by reflexivity.
  now rewrite firstn_nil.
Qed.

(* ================= non-vacuity: peer 0 removes peer 2, which holds the only copy of CID 1 ================= *)
Module Demo.
Definition e : env := mk_env 0 [mk_metric 0 (Some 10) 3600 true; mk_metric 1 (Some 20) 3600 true; mk_metric 2 (Some 5) 3600 true] [] [].
Definition pc : pcfg := mk_pcfg (mk_cfg 1 1 false false) false.
Definition peer_ (m : N) : cpeer := mk_cpeer true true false 0 (mk_dir (Some (m, None)) (fun _ => None)) 0 pc false 2.
Definition x : pin := mk_pin (mk_opts 1 1 0 0 0 [] None [] None []) 1 DataT [2] (-1) None.
Definition s0 : cstate := mk_cstate [0; 1; 2] [] [(1, x)] [] 0 [(0, peer_ 1); (1, peer_ 2); (2, peer_ 3)].
Definition o : repin_or := mk_ror e (fun _ xs => xs) (fun l => l) [].
Definition evs : list cev := [EvPeerRemove 0 2 o [Done]; EvDeliver 2; EvWatchTick 2 (Some 5); EvShutdown 1 [] (Some 6)].
Lemma run :
  clinit_ok s0 = true /\
  let s := clrun s0 evs in
  cs_tr s = [(0%nat, TPin 1 0); (0%nat, TRm 2)] /\ cs_lg s = [ERm 2] /\ cfg_peers s = [0; 1] /\
  aget 1 (cs_st s) = Some (set_allocs [0] x) /\
  map (fun pq => (fst pq, cp_running (snd pq), cp_removed (snd pq), cp_cleans (snd pq), live (cp_dir (snd pq)), olds (cp_dir (snd pq)) 0%nat))
      (cs_peers s) =
  [(1, false, false, 0%nat, Some (2, Some 6), None); (2, false, true, 1%nat, None, Some (3, Some 5)); (0, true, false, 0%nat, Some (1, None), None)].
Proof. split; [reflexivity|]. vm_compute. repeat split. Qed.
End Demo.

(* ================= the boolean form used on observations ================= *)
From V Require Import Model.C17_ClusterCheck.

Lemma remove_order_after_rm caller target es : remove_order_ok caller target true es = true -> es = [].
Proof. destruct es as [|e r]; auto. destruct e; simpl; discriminate. Qed.

Lemma remove_order_ok_sound caller target es : remove_order_ok caller target false es = true ->
  exists cs rm, es = map (fun c => TPin c caller) cs ++ rm /\ (rm = [] \/ rm = [TRm target]).
Proof.
  induction es as [|e r IH]; simpl.
  - intros _. exists [], []. auto.
  - destruct e as [c b|c b|p|p]; try discriminate.
    + intros H. apply andb_prop in H. destruct H as [H1 H2]. simpl in H1. apply N.eqb_eq in H1. subst b.
      destruct (IH H2) as [cs [rm [E R]]]. exists (c :: cs), rm. split; auto. simpl. now rewrite E.
    + intros H. apply andb_prop in H. destruct H as [H1 H2]. simpl in H1. apply N.eqb_eq in H1. subst p.
      apply remove_order_after_rm in H2. subst r. exists [], [TRm target]. auto.
Qed.
