(* C13 — the importer for one file (Model/C13_Importer.v): chunker, balanced and trickle layouts.
   For ALL byte strings, chunk sizes k > 0 and links-per-block (balanced: >= 2, trickle: >= 1):
   the layouts terminate (the fuel passed by the model suffices), the leaves are the chunks in order, the file reads back,
   every link records the number of bytes below it, fan-out bounds, and the blocks are handed to the DAG service
   children first, the root last. *)
From V Require Import Base.Common Model.C13_Importer.
Open Scope N_scope.

(* ================= the size chunker ================= *)

Lemma chunk_fuel_spec k : (0 < k)%nat -> forall fuel bs, (length bs <= fuel)%nat ->
  concat (chunk_fuel fuel k bs) = bs /\
  Forall (fun c => c <> [] /\ (length c <= k)%nat) (chunk_fuel fuel k bs) /\
  all_but_last (fun c => length c = k) (chunk_fuel fuel k bs) /\
  (bs <> [] -> chunk_fuel fuel k bs <> []).
Proof.
  intros Hk. induction fuel as [|f IH]; intros bs Hlen.
  - destruct bs as [|b r]; [|cbn in Hlen; lia]. cbn. repeat split; auto.
  - destruct bs as [|b r]; [cbn; repeat split; auto; congruence|].
    cbn [chunk_fuel]. set (bs := b :: r) in *.
    assert (Hsk : (length (skipn k bs) <= f)%nat).
    { rewrite skipn_length. subst bs. cbn [length] in *. lia. }
    destruct (IH (skipn k bs) Hsk) as (Hc & Hf & Ha & Hn).
    split; [cbn [concat]; rewrite Hc; apply firstn_skipn|].
    split.
    { constructor; [|exact Hf]. split.
      - subst bs. destruct k; [lia|]. cbn. congruence.
      - rewrite firstn_length. lia. }
    split; [|congruence].
    cbn [all_but_last]. split; [|exact Ha].
    destruct (chunk_fuel f k (skipn k bs)) as [|c2 r2] eqn:E; [exact I|].
    destruct (skipn k bs) as [|x xs] eqn:Es.
    { destruct f; cbn in E; discriminate. }
    rewrite firstn_length. assert (length (skipn k bs) <> 0)%nat by (rewrite Es; cbn; lia).
    rewrite skipn_length in H. lia.
Qed.

Lemma chunk_spec_l k bs : 0 < k ->
  concat (chunk k bs) = bs /\
  Forall (fun c => c <> [] /\ blen c <= k) (chunk k bs) /\
  all_but_last (fun c => blen c = k) (chunk k bs) /\
  (chunk k bs = [] <-> bs = []).
Proof.
  intros Hk. unfold chunk.
  destruct (chunk_fuel_spec (N.to_nat k) ltac:(lia) (length bs) bs (le_n _)) as (Hc & Hf & Ha & Hn).
  split; [exact Hc|]. split.
  { eapply Forall_impl; [|exact Hf]. cbn. intros c [H1 H2]. split; [exact H1|]. unfold blen. lia. }
  split.
  { revert Ha. generalize (chunk_fuel (length bs) (N.to_nat k) bs). induction l as [|x r IH]; cbn [all_but_last]; [auto|].
    intros [H1 H2]. split; [|auto]. destruct r; [exact I|]. unfold blen. lia. }
  split; [|intros ->; reflexivity].
  intros E. destruct bs as [|b r]; [reflexivity|]. exfalso. apply Hn; [congruence|exact E].
Qed.

(* ================= trees ================= *)
Fixpoint tree_ind' (P : tree -> Prop) (Hl : forall d, P (Leaf d))
    (Hn : forall ch, Forall (fun l => P (fst l)) ch -> P (Node ch)) (t : tree) : P t :=
  match t with
  | Leaf d => Hl d
  | Node ch => Hn ch ((fix go (l : list (tree * N)) : Forall (fun l => P (fst l)) l :=
                         match l with [] => Forall_nil _ | x :: r => Forall_cons x (tree_ind' P Hl Hn (fst x)) (go r) end) ch)
  end.

Definition posts (ch : list link) : list tree := flat_map (fun l => postorder (fst l)) ch.
Definition lvs (ch : list link) : list bytes := flat_map (fun l => leaves (fst l)) ch.
Definition sum_tsize (ch : list link) : N := fold_right (fun l a => tsize (fst l) + a) 0 ch.

Lemma postorder_below t : postorder t = below t ++ [t].
Proof. destruct t; reflexivity. Qed.
Lemma in_postorder_self t : In t (postorder t).
Proof. rewrite postorder_below. apply in_or_app. right. left. reflexivity. Qed.
Lemma last_postorder t : last (postorder t) (Leaf []) = t.
Proof. rewrite postorder_below. apply last_last. Qed.
Lemma posts_app a b : posts (a ++ b) = posts a ++ posts b.
Proof. apply flat_map_app. Qed.
Lemma lvs_app a b : lvs (a ++ b) = lvs a ++ lvs b.
Proof. apply flat_map_app. Qed.
Lemma sum_tsize_app a b : sum_tsize (a ++ b) = sum_tsize a + sum_tsize b.
Proof. unfold sum_tsize. induction a as [|x r IH]; cbn [app fold_right]; [lia|]. rewrite IH. lia. Qed.
Lemma node_filesize_app a b : node_filesize (a ++ b) = node_filesize a + node_filesize b.
Proof. unfold node_filesize. induction a as [|x r IH]; cbn [app fold_right]; [lia|]. rewrite IH. lia. Qed.

Lemma in_posts ch n : In n (posts ch) <-> exists l, In l ch /\ In n (postorder (fst l)).
Proof. unfold posts. rewrite in_flat_map. tauto. Qed.


Lemma all_nodes_node P ch : all_nodes P (Node ch) <-> P (Node ch) /\ forall l, In l ch -> all_nodes P (fst l).
Proof. unfold all_nodes. cbn [postorder]. split.
  - intros H. split; [apply H, in_or_app; right; left; reflexivity|].
    intros l Hl n Hn. apply H, in_or_app. left. apply in_posts. eauto.
  - intros [H1 H2] n Hn. apply in_app_or in Hn as [Hn|[<-|[]]]; [|exact H1].
    apply in_posts in Hn as (l & Hl & Hn). eapply H2; eauto. Qed.
Lemma all_nodes_leaf (P : tree -> Prop) d : P (Leaf d) -> all_nodes P (Leaf d).
Proof. intros H n [<-|[]]. exact H. Qed.

(* the bytes below a block are the concatenation of its chunks *)
Lemma tsize_read_back t : tsize t = blen (read_back t).
Proof. unfold read_back, blen. induction t as [d|ch IH] using tree_ind'.
  - cbn. rewrite app_nil_r. reflexivity.
  - cbn [tsize leaves]. induction IH as [|x r Hx Hr IHr]; [reflexivity|].
    cbn [fold_right flat_map]. rewrite concat_app, app_length, Nat2N.inj_add, <- IHr, Hx. reflexivity. Qed.

(* ================= emission order: children before parents, the root last ================= *)
Lemma flat_map_split {A B} (f : A -> list B) (l : list A) pre x post :
  flat_map f l = pre ++ x :: post ->
  exists a p1 p2 q2, In a l /\ pre = p1 ++ p2 /\ f a = p2 ++ x :: q2.
Proof.
  revert pre. induction l as [|a r IH]; intros pre E; cbn [flat_map] in E.
  - destruct pre; discriminate.
  - apply app_eq_app in E as [m [[E1 E2]|[E1 E2]]].
    + destruct m as [|y m'].
      * rewrite app_nil_r in E1. subst pre. cbn in E2.
        destruct (IH [] (eq_sym E2)) as (a' & p1 & p2 & q2 & Ha & Hp & Hf).
        exists a', (f a ++ p1), p2, q2. split; [right; exact Ha|]. split; [|exact Hf].
        rewrite <- app_assoc, <- Hp, app_nil_r. reflexivity.
      * cbn in E2. injection E2 as -> E2.
        exists a, [], pre, m'. split; [left; reflexivity|]. split; [reflexivity|]. rewrite E1. reflexivity.
    + destruct (IH m E2) as (a' & p1 & p2 & q2 & Ha & Hp & Hf).
      exists a', (f a ++ p1), p2, q2. split; [right; exact Ha|]. split; [|exact Hf].
      rewrite E1, Hp, app_assoc. reflexivity.
Qed.

Lemma postorder_children_before t : forall pre n post, postorder t = pre ++ n :: post ->
  forall c, In c (kids n) -> In c pre.
Proof.
  induction t as [d|ch IH] using tree_ind'; intros pre n post E c Hc.
  - cbn in E. destruct pre as [|x pre']; [|destruct pre'; discriminate]. injection E as <- _. destruct Hc.
  - cbn [postorder] in E. fold (posts ch) in E.
    destruct post as [|y post'] using rev_ind.
    + apply app_inj_tail in E as [E1 E2]. subst n pre. cbn [kids] in Hc.
      apply in_map_iff in Hc as (l & <- & Hl). apply in_posts. exists l. split; [exact Hl|apply in_postorder_self].
    + clear IHpost'. rewrite app_comm_cons, app_assoc in E. apply app_inj_tail in E as [E1 _].
      destruct (flat_map_split _ _ _ _ _ E1) as (a & p1 & p2 & q2 & Ha & Hp & Hf).
      rewrite Forall_forall in IH. specialize (IH a Ha p2 n q2 Hf c Hc).
      subst pre. apply in_or_app. right. exact IH.
Qed.

(* every block reachable from a block of the DAG is a block of the DAG *)
Lemma postorder_kids_closed t n c : In n (postorder t) -> In c (kids n) -> In c (postorder t).
Proof. intros Hn Hc. apply in_split in Hn as (pre & post & E).
  rewrite E. apply in_or_app. left. eapply postorder_children_before; eauto. Qed.

(* ================= DagBuilderHelper: what one child maker guarantees ================= *)
(* mk made the child c from a db that was not done: it took the chunks `leaves c` (at least one) from the front,
   reported the number of bytes below c, handed every block below c (not c itself) to the DAG service, children first *)
Record child_ok (Q : tree -> Prop) (s : db) (c : tree) (sz : N) (s1 : db) : Prop := mk_child_ok {
  co_rest : d_rest s = leaves c ++ d_rest s1;
  co_used : leaves c <> [];
  co_size : sz = tsize c;
  co_out : d_out s1 = rev (below c) ++ d_out s;
  co_good : Q c }.
Definition mk_spec (Q : tree -> Prop) (mk : db -> ierr + (tree * N * db)) : Prop :=
  forall s, done s = false -> exists c sz s1, mk s = inr (c, sz, s1) /\ child_ok Q s c sz s1.

Definition link_ok (Q : tree -> Prop) (l : link) : Prop := Q (fst l) /\ snd l = tsize (fst l) /\ leaves (fst l) <> [].

Record filled (Q : tree -> Prop) (ml : N) (node : list link) (s : db) (new : list link) (s' : db) : Prop := mk_filled {
  fl_rest : d_rest s = lvs new ++ d_rest s';
  fl_out : d_out s' = rev (posts new) ++ d_out s;
  fl_links : Forall (link_ok Q) new }.

Lemma done_false_iff s : done s = false <-> d_rest s <> [].
Proof. unfold done. destruct (d_rest s); split; congruence. Qed.
Lemma done_true_iff s : done s = true <-> d_rest s = [].
Proof. unfold done. destruct (d_rest s); split; congruence. Qed.

Lemma lvs_nonempty Q new : Forall (link_ok Q) new -> new <> [] -> lvs new <> [].
Proof. intros H Hn. destruct new as [|l r]; [congruence|]. inversion H as [|? ? (_ & _ & Hl) _]; subst.
  unfold lvs. cbn [flat_map]. intros E. apply app_eq_nil in E as [E _]. auto. Qed.
Lemma node_filesize_tsize Q new : Forall (link_ok Q) new -> node_filesize new = sum_tsize new.
Proof. unfold node_filesize, sum_tsize. induction 1 as [|l r (_ & Hs & _) _ IH]; [reflexivity|]. cbn [fold_right]. rewrite IH, Hs. reflexivity. Qed.

(* the loop `for node.NumChildren() < maxlinks && !db.Done()`: with fuel >= maxlinks - NumChildren it never runs out *)
Lemma fill_loop_spec Q mk ml : mk_spec Q mk -> forall fuel node s, (N.to_nat ml <= fuel + length node)%nat ->
  exists new s', fill_loop mk ml fuel node s = inr (node ++ new, s') /\ filled Q ml node s new s' /\
    (ml <= N.of_nat (length node) \/ done s = true -> new = []) /\
    (N.of_nat (length node) < ml -> N.of_nat (length (node ++ new)) <= ml) /\
    (N.of_nat (length node) < ml -> done s = false -> new <> []) /\
    (done s' = true \/ ml <= N.of_nat (length (node ++ new))).
Proof.
  intros Hmk. induction fuel as [|f IH]; intros node s Hfuel.
  - cbn [fill_loop]. destruct (N.ltb_spec (N.of_nat (length node)) ml) as [Hlt|Hge]; [lia|]. cbn [andb].
    exists [], s. rewrite app_nil_r. split; [reflexivity|]. split; [constructor; auto|]. repeat split; auto; try lia; try congruence.
  - cbn [fill_loop]. destruct (N.ltb_spec (N.of_nat (length node)) ml) as [Hlt|Hge]; cbn [andb].
    2:{ exists [], s. rewrite app_nil_r. split; [reflexivity|]. split; [constructor; auto|]. repeat split; auto; try lia; try congruence. }
    destruct (done s) eqn:Hd; cbn [negb].
    { exists [], s. rewrite app_nil_r. split; [reflexivity|]. split; [constructor; auto|]. repeat split; auto; try lia; try congruence. }
    destruct (Hmk s Hd) as (c & sz & s1 & -> & Hc). unfold add_child.
    destruct (IH (node ++ [(c, sz)]) (db_add c s1)) as (new & s' & -> & Hf & Hexit & Hle & Hne & Hfull).
    { rewrite app_length. cbn [length]. lia. }
    exists ((c, sz) :: new), s'.
    replace (node ++ (c, sz) :: new) with ((node ++ [(c, sz)]) ++ new) by (rewrite <- app_assoc; reflexivity).
    split; [reflexivity|].
    destruct Hc as [Hc1 Hc2 Hc3 Hc4 Hc5]. destruct Hf as [Hf1 Hf2 Hf3]. cbn [db_add d_rest d_out] in *.
    split.
    { constructor.
      - unfold lvs in *. cbn [flat_map fst]. rewrite <- app_assoc, <- Hf1. exact Hc1.
      - unfold posts in *. cbn [flat_map fst]. rewrite Hf2, Hc4, (postorder_below c), !rev_app_distr. cbn [rev app].
        rewrite <- !app_assoc. cbn [app]. reflexivity.
      - constructor; [|exact Hf3]. repeat split; auto. }
    rewrite (app_length node [(c, sz)]) in Hle, Hexit. cbn [length] in *.
    split; [intros [H|H]; [lia|congruence]|].
    split.
    { intros _. destruct (N.ltb_spec (N.of_nat (length node + 1)) ml) as [H|H].
      - apply Hle. exact H.
      - rewrite (Hexit (or_introl H)), app_nil_r, app_length. cbn [length]. lia. }
    split; [congruence|]. exact Hfull.
Qed.

Lemma leaf_mk_spec (Q : tree -> Prop) : (forall d, Q (Leaf d)) -> mk_spec Q leaf_mk.
Proof. intros HQ s Hd. apply done_false_iff in Hd. unfold leaf_mk, new_leaf_data_node.
  destruct (d_rest s) as [|c r] eqn:E; [congruence|].
  exists (Leaf c), (blen c), (mkdb r (d_out s)). split; [reflexivity|].
  constructor; cbn; auto. congruence. Qed.

(* ================= balanced layout ================= *)
Definition bal_Q (ml : N) (d : nat) (t : tree) : Prop := all_nodes (node_ok ml) t /\ uniform d t.

Lemma links_sizes Q new : Forall (link_ok Q) new -> Forall (fun l => snd l = tsize (fst l)) new.
Proof. apply Forall_impl. intros l (_ & H & _). exact H. Qed.

Definition bal_mk (ml : N) (d : nat) : db -> ierr + (tree * N * db) :=
  match d with O => leaf_mk | S _ => fill_node_rec ml d [] end.

Lemma node_from_links ml d node : node <> [] -> N.of_nat (length node) <= ml -> Forall (link_ok (bal_Q ml d)) node ->
  bal_Q ml (S d) (Node node) /\ leaves (Node node) <> [] /\ node_filesize node = tsize (Node node).
Proof. intros Hne Hle Hl. split; [split|split].
  - apply all_nodes_node. split.
    + cbn [node_ok]. split; [|eapply links_sizes; eauto]. destruct node; [congruence|]. cbn [length] in *. rewrite Nat2N.inj_succ in *. lia.
    + intros l Hin. rewrite Forall_forall in Hl. apply (Hl l Hin).
  - cbn [uniform]. intros l Hin. rewrite Forall_forall in Hl. apply (Hl l Hin).
  - cbn [leaves]. eapply lvs_nonempty; eauto.
  - cbn [tsize]. eapply node_filesize_tsize; eauto. Qed.

Lemma bal_mk_spec ml : 1 <= ml -> forall d, mk_spec (bal_Q ml d) (bal_mk ml d).
Proof.
  intros Hml. induction d as [|d IH].
  - apply leaf_mk_spec. intros c. split; [apply all_nodes_leaf; exact I|exact I].
  - intros s Hd. cbn [bal_mk fill_node_rec]. fold (bal_mk ml d).
    destruct (fill_loop_spec _ _ ml IH (N.to_nat ml) [] s ltac:(lia)) as (new & s' & -> & [Hf1 Hf2 Hf3] & _ & Hle & Hne & _).
    cbn [app length] in *. specialize (Hle ltac:(lia)). specialize (Hne ltac:(lia) Hd).
    destruct (node_from_links ml d new Hne Hle Hf3) as (HQ & Hlv & Hsz).
    eexists _, _, _. split; [reflexivity|]. constructor; auto.
Qed.

(* fillNodeRec on a node that already has links (the new root with the old root as first child) *)
Lemma fill_node_rec_spec ml d node s : 1 <= ml ->
  exists new s', fill_node_rec ml (S d) node s = inr (Node (node ++ new), node_filesize (node ++ new), s') /\
    filled (bal_Q ml d) ml node s new s' /\
    (N.of_nat (length node) < ml -> N.of_nat (length (node ++ new)) <= ml) /\
    (N.of_nat (length node) < ml -> done s = false -> new <> []).
Proof. intros Hml. cbn [fill_node_rec]. fold (bal_mk ml d).
  destruct (fill_loop_spec _ _ ml (bal_mk_spec ml Hml d) (N.to_nat ml) node s ltac:(lia)) as (new & s' & -> & Hf & _ & Hle & Hne & _).
  exists new, s'. auto. Qed.

Lemma layout_loop_spec ml : 2 <= ml -> forall fuel d root fsz s o,
  (length (d_rest s) <= fuel)%nat -> bal_Q ml d root -> leaves root <> [] -> fsz = tsize root ->
  d_out s = rev (below root) ++ o ->
  exists r s' d', layout_loop ml fuel (S d) root fsz s = inr (r, tsize r, s') /\
    leaves r = leaves root ++ d_rest s /\ d_out s' = rev (postorder r) ++ o /\ bal_Q ml d' r.
Proof.
  intros Hml. induction fuel as [|f IH]; intros d root fsz s o Hfuel HQ Hlv Hsz Hout.
  - cbn [layout_loop]. assert (Hd : done s = true) by (apply done_true_iff; destruct (d_rest s); [reflexivity|cbn in Hfuel; lia]).
    rewrite Hd. exists root, (db_add root s), d. subst fsz. split; [reflexivity|].
    apply done_true_iff in Hd. rewrite Hd, app_nil_r. split; [reflexivity|]. split; [|exact HQ].
    cbn [db_add d_out]. rewrite Hout, postorder_below, rev_app_distr. reflexivity.
  - cbn [layout_loop]. destruct (done s) eqn:Hd.
    { exists root, (db_add root s), d. subst fsz. split; [reflexivity|].
      apply done_true_iff in Hd. rewrite Hd, app_nil_r. split; [reflexivity|]. split; [|exact HQ].
      cbn [db_add d_out]. rewrite Hout, postorder_below, rev_app_distr. reflexivity. }
    unfold add_child. cbn [app].
    destruct (fill_node_rec_spec ml d [(root, fsz)] (db_add root s) ltac:(lia)) as (new & s2 & -> & [Hf1 Hf2 Hf3] & Hle & Hne).
    cbn [length db_add d_rest d_out] in *. specialize (Hle ltac:(lia)). specialize (Hne ltac:(lia) Hd).
    assert (Hl : Forall (link_ok (bal_Q ml d)) ((root, fsz) :: new)) by (constructor; [split; [exact HQ|split; [exact Hsz|exact Hlv]]|exact Hf3]).
    destruct (node_from_links ml d ((root, fsz) :: new) ltac:(congruence) Hle Hl) as (HQ' & Hlv' & Hsz').
    cbn [app] in *.
    destruct (IH (S d) (Node ((root, fsz) :: new)) (node_filesize ((root, fsz) :: new)) s2 o) as (r & s' & d' & -> & Hr1 & Hr2 & Hr3); auto.
    { assert (lvs new <> []) by (eapply lvs_nonempty; eauto). rewrite Hf1, app_length in Hfuel.
      destruct (lvs new); [congruence|]. cbn [length] in Hfuel. lia. }
    { rewrite Hf2, Hout. cbn [below flat_map fst]. fold (posts new). rewrite (postorder_below root), !rev_app_distr.
      cbn [rev app]. rewrite <- !app_assoc. reflexivity. }
    exists r, s', d'. split; [reflexivity|]. split; [|auto].
    rewrite Hr1, Hf1. cbn [leaves flat_map fst]. fold (lvs new). rewrite <- app_assoc. reflexivity.
Qed.

Lemma rev'_rev {A} (l : list A) : rev' l = rev l.
Proof. unfold rev'. rewrite rev_append_rev. apply app_nil_r. Qed.

(* balanced.Layout terminates for maxlinks >= 2 and returns (root, bytes below the root, the blocks children first) *)
Lemma balanced_layout_spec ml chunks : 2 <= ml ->
  exists t d, balanced_layout ml chunks = inr (t, tsize t, postorder t) /\
    (chunks <> [] -> leaves t = chunks) /\ read_back t = concat chunks /\ bal_Q ml d t.
Proof.
  intros Hml. unfold balanced_layout. destruct chunks as [|c r].
  - cbn. exists (Leaf []), O. repeat split; auto; try congruence. apply all_nodes_leaf. exact I.
  - cbn [done d_rest new_leaf_data_node d_out].
    destruct (layout_loop_spec ml Hml (length (c :: r)) O (Leaf c) (blen c) (mkdb r []) []) as (t & s' & d' & -> & H1 & H2 & H3).
    + cbn. lia.
    + split; [apply all_nodes_leaf; exact I|exact I].
    + cbn. congruence.
    + reflexivity.
    + reflexivity.
    + exists t, d'. rewrite rev'_rev, H2, app_nil_r, rev_involutive. cbn [leaves app d_rest] in H1.
      split; [reflexivity|]. split; [auto|]. split; [|exact H3]. unfold read_back. rewrite H1. reflexivity.
Qed.

(* with a single link per block the loop of Layout never takes a chunk: for every fuel the transcription runs out
   (the Go code: an endless loop that stacks one-link nodes) *)
Lemma balanced_one_link_diverges_l fuel : forall d root fsz s, done s = false -> layout_loop 1 fuel (S d) root fsz s = inl IFuel.
Proof. induction fuel as [|f IH]; intros d root fsz s Hd; cbn [layout_loop]; rewrite Hd; [reflexivity|].
  unfold add_child. cbn [app fill_node_rec fill_loop length N.of_nat]. cbn. apply IH. exact Hd. Qed.

(* ================= trickle layout ================= *)
Definition tri_Q (t : tree) : Prop := all_nodes tnode_ok t.

Lemma filled_nil Q ml node s : filled Q ml node s [] s.
Proof. constructor; auto. Qed.

Lemma filled_cons Q ml node s c sz s1 new s' : child_ok Q s c sz s1 -> filled Q ml (node ++ [(c, sz)]) (db_add c s1) new s' ->
  filled Q ml node s ((c, sz) :: new) s'.
Proof. intros [Hc1 Hc2 Hc3 Hc4 Hc5] [Hf1 Hf2 Hf3]. cbn [db_add d_rest d_out] in *. constructor.
  - unfold lvs in *. cbn [flat_map fst]. rewrite <- app_assoc, <- Hf1. exact Hc1.
  - unfold posts in *. cbn [flat_map fst]. rewrite Hf2, Hc4, (postorder_below c), !rev_app_distr. cbn [rev app].
    rewrite <- !app_assoc. cbn [app]. reflexivity.
  - constructor; [|exact Hf3]. repeat split; auto. Qed.

Lemma filled_app Q ml node s new1 s1 new2 s2 : filled Q ml node s new1 s1 -> filled Q ml (node ++ new1) s1 new2 s2 ->
  filled Q ml node s (new1 ++ new2) s2.
Proof. intros [Ha1 Ha2 Ha3] [Hb1 Hb2 Hb3]. constructor.
  - rewrite lvs_app, <- app_assoc, <- Hb1. exact Ha1.
  - rewrite posts_app, rev_app_distr, <- app_assoc, <- Ha2. exact Hb2.
  - apply Forall_app. auto. Qed.

Lemma repeat_loop_spec Q mk ml : mk_spec Q mk -> forall n node s,
  exists new s', repeat_loop mk n node s = inr (node ++ new, s') /\ filled Q ml node s new s' /\
    (length new <= n)%nat /\ ((0 < n)%nat -> done s = false -> new <> []) /\ ((length new < n)%nat -> done s' = true).
Proof.
  intros Hmk. induction n as [|n IH]; intros node s; cbn [repeat_loop].
  - exists [], s. rewrite app_nil_r. split; [reflexivity|]. split; [apply filled_nil|]. cbn. repeat split; try lia.
  - destruct (done s) eqn:Hd.
    { exists [], s. rewrite app_nil_r. split; [reflexivity|]. split; [apply filled_nil|]. cbn. repeat split; auto; try lia; congruence. }
    destruct (Hmk s Hd) as (c & sz & s1 & -> & Hc). unfold add_child.
    destruct (IH (node ++ [(c, sz)]) (db_add c s1)) as (new & s' & -> & Hf & Hlen & _ & Hfin).
    exists ((c, sz) :: new), s'. rewrite <- app_assoc. cbn [app]. split; [reflexivity|].
    split; [eapply filled_cons; eauto|]. cbn [length]. repeat split; try lia; try congruence. intros H. apply Hfin. lia.
Qed.


Lemma depth_loop_spec Q ml mkd md : forall fuel depth node s,
  (forall j, (depth <= j < depth + fuel)%nat -> depth_allowed md j -> mk_spec Q (mkd j)) ->
  (length (d_rest s) <= fuel)%nat ->
  exists new s', depth_loop mkd fuel depth md node s = inr (node ++ new, s') /\ filled Q ml node s new s' /\
    (md = None -> done s' = true).
Proof.
  induction fuel as [|f IH]; intros depth node s Hmk Hfuel; cbn [depth_loop].
  - assert (Hd : done s = true) by (apply done_true_iff; destruct (d_rest s); [reflexivity|cbn in Hfuel; lia]).
    rewrite Hd. exists [], s. rewrite app_nil_r. split; [destruct md as [m|]; [destruct (Nat.ltb depth m)|]; reflexivity|].
    split; [apply filled_nil|auto].
  - destruct (match md with Some m => Nat.ltb depth m | None => true end) eqn:Hg.
    2:{ exists [], s. rewrite app_nil_r. split; [reflexivity|]. split; [apply filled_nil|]. intros ->. discriminate. }
    destruct (done s) eqn:Hd.
    { exists [], s. rewrite app_nil_r. split; [reflexivity|]. split; [apply filled_nil|auto]. }
    assert (Hallow : depth_allowed md depth).
    { destruct md as [m|]; cbn; [apply Nat.ltb_lt; exact Hg|exact I]. }
    destruct (repeat_loop_spec Q _ ml (Hmk depth ltac:(lia) Hallow) depthRepeat node s) as (new1 & s1 & -> & Hf1 & _ & Hne & _).
    specialize (Hne ltac:(unfold depthRepeat; lia) Hd).
    destruct (IH (S depth) (node ++ new1) s1) as (new2 & s2 & -> & Hf2 & Hdone).
    { intros j Hj. apply Hmk. lia. }
    { destruct Hf1 as [Hr _ Hl]. assert (lvs new1 <> []) by (eapply lvs_nonempty; eauto).
      rewrite Hr, app_length in Hfuel. destruct (lvs new1); [congruence|]. cbn [length] in Hfuel. lia. }
    exists (new1 ++ new2), s2. rewrite app_assoc. split; [reflexivity|]. split; [eapply filled_app; eauto|exact Hdone].
Qed.

Lemma tnode_from_links node : node <> [] -> Forall (link_ok tri_Q) node ->
  tri_Q (Node node) /\ leaves (Node node) <> [] /\ node_filesize node = tsize (Node node).
Proof. intros Hne Hl. split; [|split].
  - apply all_nodes_node. split.
    + cbn [tnode_ok]. split; [exact Hne|eapply links_sizes; eauto].
    + intros l Hin. rewrite Forall_forall in Hl. apply (Hl l Hin).
  - cbn [leaves]. eapply lvs_nonempty; eauto.
  - cbn [tsize]. eapply node_filesize_tsize; eauto. Qed.

Lemma tri_leaf_mk : mk_spec tri_Q leaf_mk.
Proof. apply leaf_mk_spec. intros d. unfold tri_Q. apply all_nodes_leaf. exact I. Qed.

(* fillTrickleRec: a call with maxDepth = d needs fuel d (+1); the unlimited call needs more fuel than there are chunks *)
Lemma trickle_rec_spec ml : 1 <= ml -> forall fuel md node s,
  (match md with Some d => (d <= fuel)%nat | None => (length (d_rest s) < fuel)%nat end) -> (1 <= fuel)%nat ->
  exists new s', trickle_rec ml fuel md node s = inr (Node (node ++ new), node_filesize (node ++ new), s') /\
    filled tri_Q ml node s new s' /\ (node = [] -> done s = false -> new <> []) /\ (md = None -> done s' = true).
Proof.
  intros Hml. induction fuel as [|f IH]; intros md node s Hfuel H1; [lia|]. cbn [trickle_rec].
  destruct (fill_loop_spec tri_Q leaf_mk ml tri_leaf_mk (N.to_nat ml) node s ltac:(lia))
    as (new1 & s1 & -> & Hf1 & _ & _ & Hne1 & _).
  destruct (depth_loop_spec tri_Q ml (fun d => trickle_rec ml f (Some d) []) md (length (d_rest s1)) 1 (node ++ new1) s1)
    as (new2 & s2 & -> & Hf2 & Hdone); [|lia|].
  { intros j Hj Hallow s0 Hd0.
    assert (Hjf : (j <= f)%nat).
    { destruct md as [m|]; cbn in Hallow; [lia|]. destruct Hf1 as [Hr _ _]. rewrite Hr, app_length in Hfuel. lia. }
    destruct (IH (Some j) [] s0 Hjf ltac:(lia)) as (new & s' & E & Hf & Hne & _). cbn [app] in E.
    specialize (Hne eq_refl Hd0). destruct Hf as [Hr Ho Hl].
    destruct (tnode_from_links new Hne Hl) as (HQ & Hlv & Hsz).
    eexists _, _, _. split; [exact E|]. constructor; auto. }
  exists (new1 ++ new2), s2. rewrite app_assoc. split; [reflexivity|]. split; [eapply filled_app; eauto|]. split; [|exact Hdone].
  intros -> Hd. cbn [length] in Hne1. specialize (Hne1 ltac:(lia) Hd). destruct new1; [congruence|]. cbn. congruence.
Qed.

(* trickle.Layout terminates for maxlinks >= 1; the leaves are the chunks (none for the empty file: an internal node without links) *)
Lemma trickle_layout_spec ml chunks : 1 <= ml ->
  exists ch, trickle_layout ml chunks = inr (Node ch, tsize (Node ch), postorder (Node ch)) /\
    leaves (Node ch) = chunks /\ read_back (Node ch) = concat chunks /\
    Forall (link_ok tri_Q) ch /\ (chunks <> [] -> ch <> []).
Proof.
  intros Hml. unfold trickle_layout.
  destruct (trickle_rec_spec ml Hml (S (length chunks)) None [] (mkdb chunks [])) as (new & s' & -> & [Hr Ho Hl] & Hne & Hdone); [cbn; lia|lia|].
  cbn [app d_rest d_out db_add] in *. exists new.
  specialize (Hdone eq_refl). apply done_true_iff in Hdone. rewrite Hdone, app_nil_r in Hr.
  rewrite rev'_rev. cbn [rev]. rewrite Ho, app_nil_r, rev_involutive. cbn [postorder]. fold (posts new).
  rewrite (node_filesize_tsize _ _ Hl). split; [reflexivity|]. cbn [leaves]. fold (lvs new).
  split; [auto|]. split; [unfold read_back; cbn [leaves]; fold (lvs new); rewrite <- Hr; reflexivity|]. split; [exact Hl|].
  intros Hc. apply Hne; [reflexivity|]. apply done_false_iff. exact Hc.
Qed.

(* ================= recorded sizes let a reader seek ================= *)

Lemma read_range_cons c sz r off n :
  read_range (Node ((c, sz) :: r)) off n =
  if sz <=? off then read_range (Node r) (off - sz) n
  else let here := N.min n (sz - off) in
       read_range c off here ++ (if here <? n then read_range (Node r) 0 (n - here) else []).
Proof. reflexivity. Qed.

Lemma read_back_cons c sz r : read_back (Node ((c, sz) :: r)) = read_back c ++ read_back (Node r).
Proof. unfold read_back. cbn [leaves flat_map fst]. apply concat_app. Qed.

Lemma firstn_skipn_app {A} (a b : list A) off n :
  firstn n (skipn off (a ++ b)) =
  if (length a <=? off)%nat then firstn n (skipn (off - length a) b)
  else firstn (Nat.min n (length a - off)) (skipn off a) ++ firstn (n - (length a - off)) b.
Proof.
  rewrite skipn_app. destruct (Nat.leb_spec (length a) off) as [H|H].
  - rewrite (skipn_all2 a H). reflexivity.
  - replace (off - length a)%nat with O by lia. cbn [skipn]. rewrite firstn_app, skipn_length.
    f_equal. destruct (Nat.le_ge_cases n (length a - off)) as [H2|H2].
    + rewrite Nat.min_l by lia. reflexivity.
    + rewrite Nat.min_r by lia. rewrite !firstn_all2; auto; rewrite skipn_length; lia.
Qed.

Lemma read_range_correct t : all_nodes sized t -> forall off n,
  read_range t off n = firstn (N.to_nat n) (skipn (N.to_nat off) (read_back t)).
Proof.
  induction t as [d|ch IH] using tree_ind'; intros Hs off n.
  - cbn [read_range]. unfold read_back. cbn. rewrite app_nil_r. reflexivity.
  - apply all_nodes_node in Hs as [Hsz Hch]. cbn [sized] in Hsz.
    revert off n. induction ch as [|[c sz] r IHr]; intros off n.
    + cbn. rewrite skipn_nil, firstn_nil. reflexivity.
    + inversion IH as [|? ? Hc Hr]; subst. inversion Hsz as [|? ? Hcs Hrs]; subst. cbn [fst snd] in *.
      specialize (IHr Hr Hrs (fun l Hl => Hch l (or_intror Hl))).
      specialize (Hc (Hch (c, sz) (or_introl eq_refl))).
      rewrite read_range_cons, read_back_cons, firstn_skipn_app.
      assert (Hlen : length (read_back c) = N.to_nat sz).
      { rewrite Hcs, tsize_read_back. unfold blen. lia. }
      rewrite Hlen.
      destruct (N.leb_spec sz off) as [H|H].
      * destruct (Nat.leb_spec (N.to_nat sz) (N.to_nat off)) as [H'|H']; [|lia].
        rewrite IHr. replace (N.to_nat (off - sz)) with (N.to_nat off - N.to_nat sz)%nat by lia. reflexivity.
      * destruct (Nat.leb_spec (N.to_nat sz) (N.to_nat off)) as [H'|H']; [lia|].
        cbv zeta. rewrite Hc. f_equal; [f_equal; lia|].
        destruct (N.ltb_spec (N.min n (sz - off)) n) as [H2|H2].
        -- rewrite IHr. cbn [N.to_nat skipn]. f_equal. lia.
        -- replace (N.to_nat n - (N.to_nat sz - N.to_nat off))%nat with O by lia. reflexivity.
Qed.
