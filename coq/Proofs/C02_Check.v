(* C02 — the replay used by the correspondence check only ever takes steps of the machine the theorems are about:
   the batch state after replaying any observed trace is a reachable state of `bstep`. *)
From V Require Import Base.Common Model.C02_Batch Model.C02_Set Model.C02_Check Proofs.C02_Batch.
Open Scope N_scope.

Lemma brun_snoc {A} c (es : list (bev A)) e : brun c (es ++ [e]) = bstep c (brun c es) e.
Proof. unfold brun. now rewrite fold_left_app. Qed.

Lemma replay_step_reachable c nofire s e :
  (exists es, r_b s = brun c es) -> exists es, r_b (replay_step c nofire s e) = brun c es.
Proof.
  intros [es H]. assert (K : exists es, r_b s = brun c es) by eauto.
  destruct e as [id o ok|id ok|p|id o p ok| |]; unfold replay_step; cbv zeta.
  - exists (es ++ [Enq (id, o)]). cbn [r_b]. now rewrite brun_snoc, H.
  - destruct (pc (r_b s)) eqn:P, (blocked (r_b s)) eqn:B, (queue (r_b s)) as [|[i o] q] eqn:Q; cbn [r_b]; try exact K.
    exists (es ++ [Take ok]). now rewrite brun_snoc, H.
  - destruct (blocked (r_b s)) eqn:B; cbn [r_b]; [exact K|]. destruct (batch_commit (r_l s) p) as [l' hs].
    destruct (pc (r_b s)) eqn:P.
    + destruct (t_chan (tm (r_b s))) eqn:T; cbn [r_b].
      * exists (es ++ [OnTimer (pres_ok p)]). now rewrite brun_snoc, H.
      * destruct (t_active (tm (r_b s)) && negb nofire); cbn [r_b]; [|exact K].
        exists ((es ++ [Fire]) ++ [OnTimer (pres_ok p)]). now rewrite !brun_snoc, H.
    + cbn [r_b]. exists (es ++ [SizeCommit (pres_ok p)]). now rewrite brun_snoc, H.
  - destruct (direct_op (r_l s) o p) as [[l' hs] okm]. cbn [r_b]. exact K.
  - cbn [r_b]. exact K.
  - cbn [r_b]. exact K.
Qed.

Lemma replay_reachable c nofire t : exists es, r_b (replay c nofire t) = brun c es.
Proof.
  unfold replay.
  assert (G : forall s, (exists es, r_b s = brun c es) -> exists es, r_b (fold_left (replay_step c nofire) t s) = brun c es).
  { induction t as [|e t IH]; intros s H; simpl; auto. apply IH. now apply replay_step_reachable. }
  apply G. exists []. reflexivity.
Qed.

(* hence the replayed state of a case checked against the repaired code is never blocked: a TStuck event in an observed
   trace can never be explained by the model *)
Lemma replay_never_blocked qcap maxsize nofire t : blocked (r_b (replay (mk_bcfg qcap maxsize true) nofire t)) = false.
Proof. destruct (replay_reachable (mk_bcfg qcap maxsize true) nofire t) as [es ->]. now apply never_blocks. Qed.
