(* C02 — the replay used by the correspondence check only ever takes steps of the machine the theorems are about:
   the batch state after replaying any observed trace is a reachable state of the timed machine `tstep` (the clock is
   driven by the harness timestamps), hence, once the clock is forgotten, a reachable state of `bstep`. *)
From V Require Import Base.Common Model.C02_Batch Model.C02_BatchTime Model.C02_Set Model.C02_Check Proofs.C02_Batch Proofs.C02_BatchTime.
Open Scope N_scope.

Lemma brun_snoc {A} c (es : list (bev A)) e : brun c (es ++ [e]) = bstep c (brun c es) e.
Proof. unfold brun. now rewrite fold_left_app. Qed.

Definition reach (c : tcfg) (x : tbst item) : Prop := exists tes, x = trun c tes.

Lemma reach_step c x te : reach c x -> reach c (tstep c x te).
Proof. intros [tes ->]. exists (tes ++ [te]). unfold trun, trun_from. now rewrite fold_left_app. Qed.

Lemma reach_tick c at_ x : reach c x -> reach c (tick_to c at_ x).
Proof. intros H. unfold tick_to. now apply reach_step. Qed.

Lemma replay_step_reachable c nofire slack s te : reach c (r_b s) -> reach c (r_b (replay_step c nofire slack s te)).
Proof.
  intros K. destruct te as [at_ e]. unfold replay_step.
  pose proof (reach_tick c at_ _ K) as K1. set (tb := tick_to c at_ (r_b s)) in *.
  destruct e as [id o ok|id ok|p|id o p ok|id o|p|id o| | |]; cbv zeta.
  - cbn [r_b]. now apply reach_step.
  - destruct (pc (core tb)), (blocked (core tb)), (queue (core tb)) as [|[i o] q]; cbn [r_b]; try exact K1. now apply reach_step.
  - destruct (blocked (core tb)); cbn [r_b]; [exact K1|]. destruct (batch_commit (r_l s) p) as [l' hs].
    destruct (pc (core tb)).
    + destruct (t_chan (tm (core tb))); cbn [r_b]; [now apply reach_step|].
      destruct (t_active (tm (core tb)) && negb nofire); cbn [r_b]; [|exact K1].
      apply reach_step, reach_step, reach_tick. exact K1.
    + cbn [r_b]. now apply reach_step.
  - destruct (direct_op (r_l s) o p) as [[l' hs] okm]. cbn [r_b]. exact K1.
  - cbn [r_b]. now apply reach_step.
  - destruct (blocked (core tb)); cbn [r_b]; [exact K1|]. destruct (batch_commit (r_l s) p) as [l' hs].
    destruct (pc (core tb)); [destruct (queue (core tb))|]; cbn [r_b]; try exact K1; now apply reach_step.
  - cbn [r_b]. now apply reach_step.
  - cbn [r_b]. exists []. reflexivity.
  - cbn [r_b]. exact K1.
  - cbn [r_b]. exact K1.
Qed.

Lemma replay_reachable c nofire slack t : exists tes, r_b (replay c nofire slack t) = trun c tes.
Proof.
  unfold replay.
  assert (G : forall s, reach c (r_b s) -> reach c (r_b (fold_left (replay_step c nofire slack) t s))).
  { induction t as [|e t IH]; intros s H; simpl; auto. apply IH. now apply replay_step_reachable. }
  apply G. exists []. reflexivity.
Qed.

Lemma replay_reachable_untimed c nofire slack t : reset_every_item c = false ->
  exists es, core (r_b (replay c nofire slack t)) = brun (tc c) es.
Proof. intros R. destruct (replay_reachable c nofire slack t) as [tes ->]. now apply trun_untimed. Qed.

(* hence the replayed state of a case checked against the repaired code is never blocked: a TStuck event in an observed
   trace can never be explained by the model *)
Lemma replay_never_blocked qcap maxsize s28 s35 age nofire slack t :
  blocked (core (r_b (replay (mk_tcfg (mk_bcfg qcap maxsize true s28 s35) age false) nofire slack t))) = false.
Proof.
  destruct (replay_reachable_untimed (mk_tcfg (mk_bcfg qcap maxsize true s28 s35) age false) nofire slack t eq_refl) as [es ->].
  now apply never_blocks.
Qed.
