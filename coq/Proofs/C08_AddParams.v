(* C08 — the query form of the add parameters round-trips (Model/C08_AddParams.v): the fourteen keys AddParams adds are
   invisible to PinOptions.FromQuery, and each is read back as written. *)
From V Require Import Base.Common Base.C08_Str Model.C08_Codec Model.C08_Query Model.C08_AddParams
  Proofs.C08_Str Proofs.C08_Query.
Open Scope string_scope.
Open Scope list_scope.
Open Scope Z_scope.

Lemma qget_qset k k' v q : qget k (qset k' v q) = if String.eqb k k' then v else qget k q.
Proof.
  unfold qget. induction q as [|[a b] r IH]; cbn.
  - destruct (String.eqb k k'); reflexivity.
  - destruct (String.eqb_spec k' a) as [->|N]; cbn.
    + destruct (String.eqb k a); reflexivity.
    + destruct (String.eqb_spec k a) as [->|N2].
      * destruct (String.eqb_spec a k') as [E|_]; [congruence | reflexivity].
      * exact IH.
Qed.

(* ---------- keys FromQuery does not look at ---------- *)
Definition pin_keys : list string :=
  ["name"; "mode"; "replication"; "replication-min"; "replication-max"; "shard-size"; "user-allocations"; "expire-at"; "expire-in";
   "pin-update"; "origins"].
Definition foreign (k : string) : bool :=
  forallb (fun pk => negb (String.eqb pk k)) pin_keys && match strip_prefix meta_prefix k with None => true | Some _ => false end.

Lemma meta_pick_ctx k v q kv : strip_prefix meta_prefix k = None -> meta_pick (qset k v q) kv = meta_pick q kv.
Proof.
  intros S. unfold meta_pick. destruct (strip_prefix meta_prefix (fst kv)) as [mk|] eqn:E; [|reflexivity].
  rewrite qget_qset. destruct (String.eqb_spec (fst kv) k) as [Ek|_]; [rewrite Ek in E; congruence | reflexivity].
Qed.

Lemma flat_meta_qset k v (ctx q : query) : strip_prefix meta_prefix k = None ->
  flat_map (meta_pick ctx) (qset k v q) = flat_map (meta_pick ctx) q.
Proof.
  intros S. assert (Z0 : forall x, meta_pick ctx (k, x) = []) by (intros x; unfold meta_pick; cbn [fst]; now rewrite S).
  induction q as [|[a b] r IH]; cbn [qset flat_map].
  - now rewrite Z0.
  - destruct (String.eqb_spec k a) as [->|N]; cbn [flat_map]; [now rewrite !Z0 | now rewrite IH].
Qed.

Lemma meta_of_query_qset k v q : strip_prefix meta_prefix k = None -> meta_of_query (qset k v q) = meta_of_query q.
Proof.
  intros S. unfold meta_of_query. f_equal. rewrite flat_meta_qset by exact S.
  apply flat_map_ext. intros kv. now apply meta_pick_ctx.
Qed.

(* FromQuery reads its query only through these texts and the meta- entries (the `replication` override rewrites two keys
   that carry no meta- prefix) *)
Definition from_query_flat (orc : oracle) (now : Z * N) (old : opts) (q0 : query) : result opts :=
  let rpl := qget "replication" q0 in
  let pick (k : string) := if String.eqb rpl "" then qget k q0 else rpl in
  match (let v := pick "replication-min" in if String.eqb v "" then Ok (rmin old) else match atoi v with Some z => Ok z | None => Err end) with Err => Err | Ok rmn =>
  match (let v := pick "replication-max" in if String.eqb v "" then Ok (rmax old) else match atoi v with Some z => Ok z | None => Err end) with Err => Err | Ok rmx =>
  match shard_of_query (shard_size old) (qget "shard-size" q0) with Err => Err | Ok sh =>
  match expire_of_query orc now (expire old) (qget "expire-at" q0) (qget "expire-in" q0) with Err => Err | Ok ex =>
  match update_of_query orc (pin_update old) (qget "pin-update" q0) with Err => Err | Ok upd =>
  match origins_of_query orc (origins old) (qget "origins" q0) with Err => Err | Ok og =>
  Ok (mk_opts rmn rmx (qget "name" q0) (mode_from_string (qget "mode" q0)) sh
        (allocs_of_query orc (user_allocs old) (qget "user-allocations" q0)) ex (meta_of_query q0) upd og)
  end end end end end end.

Lemma from_query_is_flat orc now old q0 : from_query orc now old q0 = from_query_flat orc now old q0.
Proof.
  unfold from_query, from_query_flat, parse_int_param.
  destruct (String.eqb (qget "replication" q0) "") eqn:R; [reflexivity|].
  rewrite !meta_of_query_qset by reflexivity. rewrite !qget_qset. cbn [String.eqb Ascii.eqb Bool.eqb andb]. reflexivity.
Qed.

Lemma from_query_qset_foreign orc now old k v q : foreign k = true -> from_query orc now old (qset k v q) = from_query orc now old q.
Proof.
  unfold foreign, pin_keys. cbn [forallb]. intros H.
  repeat match goal with H : _ && _ = true |- _ => apply andb_true_iff in H; destruct H end.
  repeat match goal with H : negb _ = true |- _ => apply negb_true_iff in H end.
  assert (S : strip_prefix meta_prefix k = None) by (destruct (strip_prefix meta_prefix k); [discriminate | reflexivity]).
  rewrite !from_query_is_flat. unfold from_query_flat.
  rewrite (meta_of_query_qset k v q S). rewrite !qget_qset.
  repeat match goal with H : String.eqb _ k = false |- _ => rewrite H; clear H end.
  reflexivity.
Qed.

(* ---------- booleans ---------- *)
Lemma parse_print_bool b : parse_bool (print_bool b) = Some b.
Proof. destruct b; reflexivity. Qed.
Lemma print_bool_nonempty b : String.eqb (print_bool b) "" = false.
Proof. destruct b; reflexivity. Qed.

Lemma print_int_eqb_empty z : String.eqb (print_int z) "" = false.
Proof. apply String.eqb_neq. apply print_int_nonempty. Qed.

Lemma in3 s a b c : sin s [a; b; c] = true -> negb (sin s [a; b; c]) = false.
Proof. intros ->. reflexivity. Qed.

(* ---------- the fourteen Sets of ToQueryString as one list ---------- *)
Definition qset_all (kvs : list (string * string)) (q : query) : query := fold_left (fun q kv => qset (fst kv) (snd kv) q) kvs q.
Definition add_kvs (p : addp) : list (string * string) :=
  [("shard", print_bool (a_shard p)); ("local", print_bool (a_local p)); ("recursive", print_bool (a_recursive p));
   ("layout", a_layout p); ("chunker", a_chunker p); ("raw-leaves", print_bool (a_rawleaves p)); ("hidden", print_bool (a_hidden p));
   ("wrap-with-directory", print_bool (a_wrap p)); ("progress", print_bool (a_progress p)); ("cid-version", print_int (a_cidver p));
   ("hash", a_hash p); ("stream-channels", print_bool (a_stream p)); ("nocopy", print_bool (a_nocopy p)); ("format", a_format p)].

Lemma to_query_as_all orc p : add_params_to_query orc p =
  match to_query orc (a_opts p) with Err => Err | Ok q => Ok (qset_all (add_kvs p) q) end.
Proof. reflexivity. Qed.

Lemma qget_qset_all k kvs : forall q, qget k (qset_all kvs q) = match slookup k (rev kvs) with Some v => v | None => qget k q end.
Proof.
  induction kvs as [|[k' v'] r IH]; intros q; [reflexivity|].
  cbn [qset_all fold_left fst snd]. fold (qset_all r (qset k' v' q)). rewrite IH, qget_qset.
  cbn [rev]. rewrite slookup_app. destruct (slookup k (rev r)); [reflexivity|]. cbn [slookup].
  destruct (String.eqb k k'); reflexivity.
Qed.

Lemma from_query_qset_all orc now old kvs : forall q, forallb (fun kv => foreign (fst kv)) kvs = true ->
  from_query orc now old (qset_all kvs q) = from_query orc now old q.
Proof.
  induction kvs as [|[k' v'] r IH]; intros q H; [reflexivity|].
  cbn [forallb fst] in H. apply andb_true_iff in H as [Hk Hr].
  cbn [qset_all fold_left fst snd]. fold (qset_all r (qset k' v' q)). rewrite (IH _ Hr). now apply from_query_qset_foreign.
Qed.

Theorem addparams_query_roundtrip_l orc now p : wf_ap orc p = true ->
  match add_params_to_query orc p with Ok q => add_params_from_query orc now q | Err => Err end = Ok (lossy_ap p).
Proof.
  unfold wf_ap. intros W.
  apply andb_true_iff in W as [W Wc]. apply andb_true_iff in W as [W Wf]. apply andb_true_iff in W as [Wq Wl].
  pose proof (query_roundtrip_l orc now (a_opts p) Wq) as R.
  rewrite to_query_as_all. destruct (to_query orc (a_opts p)) as [q|]; [|discriminate].
  unfold add_params_from_query, add_params_from_query_on.
  rewrite (from_query_qset_all orc now zero_opts (add_kvs p) q eq_refl), R.
  unfold parse_bool_param, parse_int_param.
  rewrite !qget_qset_all. cbn [add_kvs rev app slookup String.eqb Ascii.eqb Bool.eqb andb].
  rewrite (in3 _ _ _ _ Wl), (in3 _ _ _ _ Wf).
  rewrite !print_bool_nonempty, !parse_print_bool, print_int_eqb_empty, (atoi_print _ Wc).
  unfold lossy_ap, default_addp. cbn [a_chunker a_hash]. reflexivity.
Qed.
