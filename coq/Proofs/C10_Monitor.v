(* C10 — the boolean monitors of Model/C10_Check.v (repin_bad, sync_bad, idle_ok, same_keys: code 2) applied to what the
   implementation did in a failure / removal / expiry scenario, tied to Prop-level statements (soundness): a scenario on
   which a monitor reports no CID satisfies, pin by pin, the clauses of the property — with C03's allocation property
   (alloc_spec, Proofs/C03_Monitor.v) for every re-homed pin. *)
From V Require Import Base.Common Base.CommonLemmas Model.C03_Alloc Model.C03_Check Model.C04_ClusterOps Model.C04_Check
  Model.C10_Repin Model.C10_Check Proofs.C03_Alloc Proofs.C03_Monitor Proofs.C04_ClusterOps Proofs.C04_Check.
From Coq Require Import Permutation.
Open Scope Z_scope.

(* ---------- Prop-level vocabulary ---------- *)
(* entry c is the same pin before and after (fields equal, allocations up to order, metadata as a map) *)
Definition entry_equiv (st st' : pinset) (c : N) : Prop :=
  exists p q, aget c st = Some p /\ aget c st' = Some q /\ pin_equiv p q.

Record opts_equiv (a b : opts) : Prop := {
  oe_factors : o_rmin a = o_rmin b /\ o_rmax a = o_rmax b;
  oe_name : o_name a = o_name b; oe_mode : o_mode a = o_mode b; oe_shard : o_shard a = o_shard b;
  oe_ualloc : o_ualloc a = o_ualloc b; oe_expire : o_expire a = o_expire b;
  oe_meta : forall k, aget k (o_meta a) = aget k (o_meta b);
  oe_update : o_update a = o_update b; oe_origins : o_origins a = o_origins b }.

(* the allocation problem the monitor poses for pin x when peer f is gone *)
Definition monitor_input (rv : bool) (ms : list metric) (f : N) (x : pin) : input :=
  mk_input (o_rmin (p_opts x)) (o_rmax (p_opts x)) (p_allocs x) ms [f] [] rv.

(* what a failure / removal scenario must have done to entry (c, x) *)
Definition repin_clause (now : Z) (rv : bool) (ms : list metric) (all_trusted all_eligible : bool) (f : N)
           (st0 stF : pinset) (steps : list astep) (c : N) (x : pin) : Prop :=
  (~ In f (p_allocs x) -> entry_equiv st0 stF c /\ loggers c steps = 0%nat) /\
  (In f (p_allocs x) ->
     (all_trusted = true -> (loggers c steps <= 1)%nat) /\
     (forall s, In s steps -> (count_occ_N c (step_logs s) <= 1)%nat) /\
     let i := monitor_input rv ms f x in
     (0 < rmin i <= rmax i -> expired_at now x = false -> p_ty x <> MetaT -> NoDup (p_allocs x) ->
        (* still enough healthy holders without f: untouched *)
        (rmin i <= healthy_count now i (p_allocs x) <= rmax i -> entry_equiv st0 stF c) /\
        (* under-replicated but the minimum is out of reach: untouched *)
        (healthy_count now i (p_allocs x) < rmin i -> reachable now i < rmin i -> entry_equiv st0 stF c) /\
        (* under-replicated, reachable, every candidate peer ran: re-homed *)
        (healthy_count now i (p_allocs x) < rmin i -> rmin i <= reachable now i -> all_eligible = true ->
           exists y, aget c stF = Some y /\ ~ In f (p_allocs y) /\ alloc_spec now i (p_allocs y) /\
                     opts_equiv (p_opts y) (p_opts x) /\ p_ty y = p_ty x /\ p_depth y = p_depth x /\ p_ref y = p_ref x /\
                     loggers c steps = 1%nat))).

(* CIDs unpinned as a side effect of an expired meta pin: its cluster DAG and the shards under it *)
Definition collateral_of (now : Z) (ls : list (N * list N)) (st0 : pinset) : list N :=
  flat_map (fun kx => let m := snd kx in
              if expired_at now m && ptype_eqb (p_ty m) MetaT
              then match p_ref m with Some r => r :: (match aget r ls with Some l => l | None => [] end) | None => [] end
              else []) st0.

Definition sync_clause (now : Z) (ls : list (N * list N)) (all_trusted all_eligible : bool)
           (st0 stF : pinset) (steps : list astep) (c : N) (x : pin) : Prop :=
  let n := count_occ_N c (all_logs steps) in
  (expired_at now x = true -> all_trusted = true -> p_ty x = DataT -> ~ In c (collateral_of now ls st0) ->
     (n <= 1)%nat /\ (all_eligible = true -> aget c stF = None /\ n = 1%nat)) /\
  (expired_at now x = false -> ~ In c (collateral_of now ls st0) -> entry_equiv st0 stF c /\ n = 0%nat).

(* ---------- reading the comparisons ---------- *)
Lemma entry_same_sound st st' c : entry_same st st' c = true -> entry_equiv st st' c.
Proof. unfold entry_same, entry_equiv. destruct (aget c st) as [p|]; [|discriminate]. destruct (aget c st') as [q|]; [|discriminate].
  intros H. exists p, q. split; [reflexivity|]. split; [reflexivity|]. now apply pin_eqb_sound. Qed.

Lemma opts_eqb_sound a b : opts_eqb a b = true -> opts_equiv a b.
Proof. unfold opts_eqb. rewrite !andb_true_iff. intros [[[[[[[[[H1 H2] H3] H4] H5] H6] H7] H8] H9] H10]. constructor.
  - split; now apply Z.eqb_eq.
  - now apply N.eqb_eq. - now apply N.eqb_eq. - now apply N.eqb_eq. - now apply list_eqb_N_eq.
  - now apply expire_eqb_eq. - now apply meta_eqb_sound. - now apply optN_eqb_eq. - now apply list_eqb_N_eq. Qed.

Lemma flat_map_nil {A B} (g : A -> list B) l : flat_map g l = [] -> forall x, In x l -> g x = [].
Proof. induction l as [|a r IH]; simpl; intros H x Hx; [destruct Hx|]. apply app_eq_nil in H. destruct H as [H1 H2].
  destruct Hx as [<-|Hx]; auto. Qed.

Lemma if_nil_true {A} (b : bool) (c : A) : (if b then [] else [c]) = [] -> b = true.
Proof. destruct b; [reflexivity|discriminate]. Qed.

(* ---------- failure / removal ---------- *)
Theorem repin_monitor_sound_l now rv ms all_trusted all_eligible f st0 stF steps :
  NoDup (map mpeer ms) -> repin_bad now rv ms all_trusted all_eligible f st0 stF steps = [] ->
  forall c x, In (c, x) st0 -> repin_clause now rv ms all_trusted all_eligible f st0 stF steps c x.
Proof. intros Hms H c x Hin. unfold repin_bad in H. apply (flat_map_nil _ _ H) in Hin. cbv zeta in Hin. cbn [fst snd] in Hin.
  apply if_nil_true in Hin. unfold repin_clause. fold (monitor_input rv ms f x) in Hin.
  set (i := monitor_input rv ms f x) in *. destruct (memN f (p_allocs x)) eqn:M; cbn [negb] in Hin.
  - (* held by f *) apply memN_in in M. split; [tauto|]. intros _.
    rewrite !andb_true_iff in Hin. destruct Hin as [[H1 H2] H3].
    split; [intros ->; now apply Nat.leb_le|].
    split; [intros s Hs; rewrite forallb_forall in H2; apply Nat.leb_le; auto|].
    cbv zeta. intros [V1 V2] Hexp Hty Hnd.
    assert (VFb : (0 <? o_rmin (p_opts x)) && (o_rmin (p_opts x) <=? o_rmax (p_opts x)) = true).
    { apply andb_true_iff. split; [apply Z.ltb_lt | apply Z.leb_le]; assumption. }
    rewrite VFb, Hexp in H3. replace (ptype_eqb (p_ty x) MetaT) with false in H3 by (symmetry; now apply ptype_eqb_neq).
    replace (nodupb (p_allocs x)) with true in H3 by (symmetry; now apply nodupb_NoDup). cbn [negb orb] in H3.
    change (o_rmin (p_opts x)) with (rmin i) in *. change (o_rmax (p_opts x)) with (rmax i) in *.
    split; [|split].
    + intros [A B]. apply Z.leb_le in A, B. rewrite A, B in H3. now apply entry_same_sound.
    + intros A B. apply Z.leb_gt in A. apply Z.ltb_lt in B. rewrite A, B in H3. now apply entry_same_sound.
    + intros A B ->. apply Z.leb_gt in A. apply Z.ltb_ge in B. rewrite A, B in H3. cbn [negb] in H3.
      destruct (aget c stF) as [y|]; [|discriminate]. rewrite !andb_true_iff in H3.
      destruct H3 as [[[[[[K1 K2] K3] K4] K5] K6] K7]. exists y. split; auto.
      split; [apply negb_true_iff, memN_false in K1; exact K1|].
      split; [apply (alloc_monitor_sound_l now i Hms (p_allocs y)); [exact Hnd | split; assumption | exact K2]|].
      split; [now apply opts_eqb_sound|]. split; [now apply ptype_eqb_eq|]. split; [now apply Z.eqb_eq|].
      split; [now apply optN_eqb_eq | now apply Nat.eqb_eq].
  - (* not held by f *) apply memN_false in M. split; [|tauto]. intros _.
    apply andb_true_iff in Hin. destruct Hin as [H1 H2]. split; [now apply entry_same_sound | now apply Nat.eqb_eq]. Qed.

(* ---------- expiry sweep ---------- *)
Theorem sync_monitor_sound_l now ls all_trusted all_eligible st0 stF steps :
  sync_bad now ls all_trusted all_eligible st0 stF steps = [] ->
  forall c x, In (c, x) st0 -> sync_clause now ls all_trusted all_eligible st0 stF steps c x.
Proof. intros H c x Hin. unfold sync_bad in H. fold (collateral_of now ls st0) in H. cbv zeta in H.
  apply (flat_map_nil _ _ H) in Hin. cbn [fst snd] in Hin. apply if_nil_true in Hin.
  unfold sync_clause. cbv zeta. split.
  - intros E -> Hty Hc. rewrite E in Hin. apply memN_false in Hc. rewrite Hc in Hin.
    replace (ptype_eqb (p_ty x) DataT) with true in Hin by (symmetry; now apply ptype_eqb_eq). cbn [andb negb] in Hin.
    apply andb_true_iff in Hin. destruct Hin as [H1 H2]. split; [now apply Nat.leb_le|].
    intros ->. apply andb_true_iff in H2. destruct H2 as [H2 H3]. split; [|now apply Nat.eqb_eq].
    destruct (aget c stF); [discriminate|reflexivity].
  - intros E Hc. rewrite E in Hin. apply memN_false in Hc. rewrite Hc in Hin.
    apply andb_true_iff in Hin. destruct Hin as [H1 H2]. split; [now apply entry_same_sound | now apply Nat.eqb_eq]. Qed.

(* ---------- the global clauses ---------- *)
Theorem same_keys_sound a b : same_keys a b = true -> forall h, In h (akeys a) <-> In h (akeys b).
Proof. unfold same_keys. rewrite andb_true_iff, !subsetb_incl. intros [H1 H2] h. split; auto. Qed.

(* runs that must be idle (follower; repinning disabled for alerts and removals; alerts other than ping) leave the pinset
   as it was and log nothing; an alert is recorded exactly by the non-followers *)
Fixpoint idle_spec (kind : N) (st : pinset) (steps : list astep) : Prop :=
  match steps with
  | [] => True
  | s :: rest =>
      (step_fol s = true \/ ((kind < 3)%N /\ step_norep s = true) \/ kind = 1%N -> st_equiv st (of_list (snd s)) /\ step_logs s = []) /\
      ((kind < 2)%N -> step_recd s = negb (step_fol s)) /\
      idle_spec kind (of_list (snd s)) rest
  end.

Theorem idle_ok_sound kind steps : forall st, idle_ok kind st steps = true -> idle_spec kind st steps.
Proof. induction steps as [|s rest IH]; intros st H; [exact I|]. cbn [idle_ok] in H. cbv zeta in H.
  rewrite !andb_true_iff in H. destruct H as [[H1 H2] H3]. cbn [idle_spec]. split; [|split; [|now apply IH]].
  - intros Hc. assert (Cb : step_fol s || (kind <? 3)%N && step_norep s || (kind =? 1)%N = true).
    { destruct Hc as [->|[[A ->]| ->]]; [reflexivity| |].
      - apply N.ltb_lt in A. rewrite A. cbn. now rewrite orb_true_r.
      - now rewrite orb_true_r. }
    rewrite Cb in H1. apply andb_true_iff in H1. destruct H1 as [A B]. split; [now apply st_eqb_sound|].
    destruct (step_logs s); [reflexivity|discriminate].
  - intros Hk. apply N.ltb_lt in Hk. rewrite Hk in H2. apply eqb_prop in H2. exact H2. Qed.

(* ---------- exactly one closest ---------- *)
(* the observed isClosest answers about (excluded peer, CID) given by trusted peers; the candidates: trusted members other
   than the excluded one *)
Definition group_of (trusted : N -> bool) (cs : list cobs) (excl : option N) (c : N) : list cobs :=
  filter (fun o' : cobs => let '(s', excl', c', _) := o' in trusted s' && optN_eqb excl excl' && (c =? c')%N) cs.
Definition cands_of (trusted : N -> bool) (members : list N) (excl : option N) : list N :=
  filter (fun p => trusted p && negb (match excl with Some x => (p =? x)%N | None => false end)) members.
(* for every (excluded peer, CID) about which as many trusted answers were recorded as there are trusted candidates (every
   trusted candidate was asked) and there is a candidate at all: exactly one of those answers is "closest" *)
Definition one_closest_spec (members : list N) (trusted : N -> bool) (cs : list cobs) : Prop :=
  forall self excl c b, In (self, excl, c, b) cs ->
    length (group_of trusted cs excl c) = length (cands_of trusted members excl) -> cands_of trusted members excl <> [] ->
    exists l1 o l2, group_of trusted cs excl c = l1 ++ o :: l2 /\ snd o = true /\ forall o', In o' (l1 ++ l2) -> snd o' = false.

Lemma filter_one {A} (g : A -> bool) l : length (filter g l) = 1%nat ->
  exists l1 x l2, l = l1 ++ x :: l2 /\ g x = true /\ forall y, In y (l1 ++ l2) -> g y = false.
Proof. induction l as [|a r IH]; [discriminate|]. cbn [filter]. destruct (g a) eqn:Ga.
  - cbn [length]. intros H. injection H as H. exists [], a, r. split; [reflexivity|]. split; [exact Ga|].
    intros y Hy. cbn [app] in Hy. destruct (g y) eqn:Gy; [|reflexivity]. exfalso.
    assert (In y (filter g r)) as Hin by (apply filter_In; auto). destruct (filter g r); [destruct Hin|discriminate].
  - intros H. destruct (IH H) as [l1 [x [l2 [E [Gx Hall]]]]]. exists (a :: l1), x, l2. split; [now rewrite E|]. split; [exact Gx|].
    intros y [<-|Hy]; auto. Qed.

Theorem one_closest_ok_sound members trusted cs : one_closest_ok members trusted cs = true -> one_closest_spec members trusted cs.
Proof. unfold one_closest_ok. rewrite forallb_forall. intros H self excl c b Hin Hlen Hne. specialize (H _ Hin). cbv beta iota zeta in H.
  match type of H with (if negb (Nat.eqb (length ?g) (length ?cd)) then _ else _) = true =>
    change g with (group_of trusted cs excl c) in H; change cd with (cands_of trusted members excl) in H end.
  match type of H with (if negb ?t then _ else _) = true => assert (Et : t = true) by (apply Nat.eqb_eq; exact Hlen); rewrite Et in H end.
  cbn [negb] in H. destruct (cands_of trusted members excl) as [|p0 ps]; [congruence|].
  apply Nat.eqb_eq in H. exact (filter_one _ _ H). Qed.

(* ---------- a whole harness case ---------- *)
(* the spec part of check_case (code 2), named *)
Definition trusted_of (untrusted : list N) : N -> bool := fun p => negb (memN p untrusted).
Definition idle_step (kind : N) (s : astep) : bool := step_fol s || ((kind <? 3)%N && step_norep s).
(* the members trust each other, or the untrusted ones took no part (ran as followers / with re-pinning disabled) *)
Definition all_trusted_of (kind : N) (members untrusted : list N) (steps : list astep) : bool :=
  forallb (trusted_of untrusted) members || forallb (fun s => trusted_of untrusted (step_self s) || idle_step kind s) steps.
Definition trusted_steps (untrusted : list N) (steps : list astep) : list astep :=
  filter (fun s => trusted_of untrusted (step_self s)) steps.
(* every trusted candidate peer ran, none of them idle, a ping alert / removal / sweep *)
Definition all_eligible_of (kind f : N) (members untrusted : list N) (steps : list astep) : bool :=
  negb (match trusted_steps untrusted steps with [] => true | _ => false end)
  && forallb (fun s => negb (idle_step kind s)) (trusted_steps untrusted steps)
  && negb (kind =? 1)%N && all_trusted_of kind members untrusted steps
  && (if (kind =? 2)%N then true
      else seteqb (map step_self (trusted_steps untrusted steps))
                  (filter (fun p => trusted_of untrusted p && negb ((kind <? 2)%N && (p =? f)%N)) members)).

Record scenario_spec (rv : bool) (members untrusted : list N) (ms : list metric) (ls : list (N * list N))
       (st0 : pinset) (kind f : N) (steps : list astep) (cs : list cobs) : Prop := {
  ss_one_entry : NoDup (akeys (final_state st0 steps));
  ss_idle : idle_spec kind st0 steps;
  ss_closest : one_closest_spec members (trusted_of untrusted) cs;
  (* nothing is removed (nor added) by re-pinning; an expiry sweep adds nothing *)
  ss_keys : ((kind < 3)%N -> forall h, In h (akeys st0) <-> In h (akeys (final_state st0 steps))) /\
            (~ (kind < 3)%N -> incl (akeys (final_state st0 steps)) (akeys st0));
  ss_repin : (kind < 3)%N -> forall c x, In (c, x) st0 ->
      repin_clause 0 rv ms (all_trusted_of kind members untrusted steps)
        (all_eligible_of kind f members untrusted steps) f st0 (final_state st0 steps) steps c x;
  ss_sync : ~ (kind < 3)%N -> forall c x, In (c, x) st0 ->
      sync_clause 0 ls (all_trusted_of kind members untrusted steps)
        (all_eligible_of kind f members untrusted steps) st0 (final_state st0 steps) steps c x
}.

Theorem check_case_sound_l id dmin dmax rv hpt hct members untrusted ms ls st0l kind f steps cs :
  NoDup (map mpeer ms) ->
  (forall t, ~ In (id, 2%N, t)
     (check_case (id, (dmin, dmax, rv, hpt, hct, members, untrusted, ms, ls, st0l, (kind, f, steps), cs)))) ->
  scenario_spec rv members untrusted ms ls (of_list st0l) kind f steps cs.
Proof. intros Hms H. cbn [check_case] in H. cbv zeta in H.
  fold (trusted_of untrusted) in H. fold (idle_step kind) in H.
  fold (all_trusted_of kind members untrusted steps) in H. set (at_ := all_trusted_of kind members untrusted steps) in *.
  fold (trusted_steps untrusted steps) in H. fold (all_eligible_of kind f members untrusted steps) in H.
  set (ae := all_eligible_of kind f members untrusted steps) in *.
  set (st0 := of_list st0l) in *. set (stF := final_state st0 steps) in *.
  match type of H with forall t, ~ In _ (_ ++ (if ?g && ?b then [] else _)) => assert (G : g && b = true) end.
  { match goal with |- ?g && ?b = true => destruct (g && b) eqn:E; auto end.
    exfalso. eapply H. apply in_or_app. right. left. reflexivity. }
  clear H. rewrite !andb_true_iff in G. destruct G as [[[[G1 G2] G3] G4] G5].
  assert (Bad : (if (kind <? 3)%N then repin_bad 0 rv ms at_ ae f st0 stF steps else sync_bad 0 ls at_ ae st0 stF steps) = []).
  { change (match (if (kind <? 3)%N then repin_bad 0 rv ms at_ ae f st0 stF steps else sync_bad 0 ls at_ ae st0 stF steps) with
            [] => true | _ => false end = true) in G5.
    destruct (if (kind <? 3)%N then repin_bad 0 rv ms at_ ae f st0 stF steps else sync_bad 0 ls at_ ae st0 stF steps); [reflexivity|discriminate]. }
  constructor.
  - now apply nodupb_NoDup.
  - now apply idle_ok_sound.
  - now apply one_closest_ok_sound.
  - split; intros Hk.
    + apply N.ltb_lt in Hk. rewrite Hk in G4. now apply same_keys_sound.
    + apply N.ltb_nlt in Hk. rewrite Hk in G4. now apply subsetb_incl.
  - intros Hk. apply N.ltb_lt in Hk. rewrite Hk in Bad. now apply repin_monitor_sound_l.
  - intros Hk. apply N.ltb_nlt in Hk. rewrite Hk in Bad. now apply sync_monitor_sound_l. Qed.
