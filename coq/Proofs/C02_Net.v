(* C02 — convergence of peers that trust the same signers, whatever the order and the path of the arrivals. *)
From V Require Import Base.Common Model.C02_Set Model.C02_Net Proofs.C02_Set.
From Coq Require Import Permutation.
Open Scope N_scope.

Lemma perm_filter {A} (f : A -> bool) l l' : Permutation l l' -> Permutation (filter f l) (filter f l').
Proof.
  induction 1 as [|x l l' _ IH|x y l|l l' l'' _ IH1 _ IH2]; simpl.
  - constructor.
  - destruct (f x); [now constructor|exact IH].
  - destruct (f x), (f y); try apply Permutation_refl. apply perm_swap.
  - eapply Permutation_trans; eauto.
Qed.

(* the path does not matter: what x merges is, up to order, the updates of the signers x trusts *)
Lemma merged_is_inbox pol x arr pub : Permutation (map snd arr) pub -> Permutation (merged pol x arr) (inbox pol x pub).
Proof.
  intros P.
  assert (E : merged pol x arr = map sd_delta (filter (fun d => trusts pol x (sd_signer d)) (map snd arr))).
  { clear P. unfold merged, validator. induction arr as [|a r IH]; simpl; [reflexivity|].
    destruct (trusts pol x (sd_signer (snd a))); simpl; congruence. }
  rewrite E. apply Permutation_map, perm_filter, P.
Qed.

Lemma inbox_agree pol x y pub :
  (forall d, In d pub -> trusts pol x (sd_signer d) = trusts pol y (sd_signer d)) -> inbox pol x pub = inbox pol y pub.
Proof. intros H. unfold inbox. f_equal. apply filter_ext_in. exact H. Qed.

Lemma inbox_wf pol x pub : Forall wf_delta (map sd_delta pub) -> Forall wf_delta (inbox pol x pub).
Proof.
  unfold inbox. rewrite !Forall_forall. intros W d Hd. apply in_map_iff in Hd. destruct Hd as (sd & <- & Hs).
  apply filter_In in Hs. apply W. apply in_map. apply Hs.
Qed.

Lemma merged_perm pol x y ax ay pub :
  (forall d, In d pub -> trusts pol x (sd_signer d) = trusts pol y (sd_signer d)) ->
  Permutation (map snd ax) pub -> Permutation (map snd ay) pub ->
  Permutation (merged pol x ax) (merged pol y ay).
Proof.
  intros H Px Py. eapply Permutation_trans; [apply (merged_is_inbox pol x ax pub Px)|].
  rewrite (inbox_agree pol x y pub H). apply Permutation_sym, merged_is_inbox, Py.
Qed.

Lemma trusting_peers_converge pol pub x y ax ay k :
  Forall wf_delta (map sd_delta pub) ->
  (forall d, In d pub -> trusts pol x (sd_signer d) = trusts pol y (sd_signer d)) ->
  Permutation (map snd ax) pub -> Permutation (map snd ay) pub ->
  present (pinset_of pol x ax) k = present (pinset_of pol y ay) k.
Proof.
  intros W H Px Py. unfold pinset_of. apply membership_converges; [|now apply (merged_perm pol x y ax ay pub)].
  eapply Forall_perm; [apply Permutation_sym, (merged_is_inbox pol x ax pub Px)|now apply inbox_wf].
Qed.

Lemma trusting_peers_values_converge pol pub x y ax ay k :
  value_guard (inbox pol x pub) k ->
  (forall d, In d pub -> trusts pol x (sd_signer d) = trusts pol y (sd_signer d)) ->
  Permutation (map snd ax) pub -> Permutation (map snd ay) pub ->
  value (pinset_of pol x ax) k = value (pinset_of pol y ay) k.
Proof.
  intros G H Px Py. unfold pinset_of.
  rewrite <- (value_converges_partial (inbox pol x pub) (merged pol x ax) k G (Permutation_sym (merged_is_inbox pol x ax pub Px))).
  apply value_converges_partial; [exact G|]. rewrite (inbox_agree pol x y pub H). apply Permutation_sym, merged_is_inbox, Py.
Qed.

(* the case the property text names: two peers that trust each other, all updates signed by one of them *)
Lemma mutual_trust_agree pol pub x y :
  trusts pol x y = true -> trusts pol y x = true ->
  (forall d, In d pub -> sd_signer d = x \/ sd_signer d = y) ->
  forall d, In d pub -> trusts pol x (sd_signer d) = trusts pol y (sd_signer d).
Proof.
  intros Txy Tyx S d Hd. assert (Sx : forall p, trusts pol p p = true).
  { intros p. unfold trusts. rewrite N.eqb_refl, orb_true_r. reflexivity. }
  destruct (S d Hd) as [-> | ->]; rewrite ?Sx, ?Txy, ?Tyx; reflexivity.
Qed.

(* a relay the receiver does not trust changes nothing: same update, two forwarders, same verdict *)
Lemma validator_ignores_forwarder pol x f1 f2 signer : validator pol x f1 signer = validator pol x f2 signer.
Proof. reflexivity. Qed.

(* non-vacuity: the line A(1)--B(2)--C(3); A and C list each other only, B trusts everybody; C's update reaches A through B *)
Definition line_pol (p : peer) : tpolicy :=
  if p =? 1 then mk_tp false [3] else if p =? 3 then mk_tp false [1] else mk_tp true [].
Definition line_pub : list sdelta := [mk_sd 3 (mk_delta 1 1 [(7, 5)] []); mk_sd 1 (mk_delta 2 1 [(8, 6)] [])].
Lemma line_example :
  let arrA := [(2, mk_sd 3 (mk_delta 1 1 [(7, 5)] [])); (1, mk_sd 1 (mk_delta 2 1 [(8, 6)] []))] in
  let arrC := [(2, mk_sd 1 (mk_delta 2 1 [(8, 6)] [])); (3, mk_sd 3 (mk_delta 1 1 [(7, 5)] []))] in
  trusts line_pol 1 2 = false /\ trusts line_pol 1 3 = true /\ trusts line_pol 3 1 = true /\
  value (pinset_of line_pol 1 arrA) 7 = Some 5 /\ value (pinset_of line_pol 3 arrC) 7 = Some 5 /\
  value (pinset_of line_pol 1 arrA) 8 = Some 6 /\ value (pinset_of line_pol 3 arrC) 8 = Some 6.
Proof. vm_compute. repeat split; reflexivity. Qed.

(* the trust test of the H3 check (Model/C02_CheckSet.v) is `trusts` on the observed configuration *)
From V Require Import Model.C02_CheckSet.
Lemma np_trusts_is_trusts (pol : peer -> tpolicy) (x : npeer) (p : N) :
  pol (np_id x) = mk_tp (np_all x) (np_list x) -> np_trusts x p = trusts pol (np_id x) p.
Proof. intros E. unfold np_trusts, trusts. rewrite E. reflexivity. Qed.
