(* C02 — convergence of peers that trust the same signers, whatever the order and the path of the arrivals. *)
From V Require Import Base.Common Model.C02_Set Model.C02_Net Proofs.C02_Set.
From Coq Require Import Permutation.
Open Scope N_scope.

Lemma perm_filter {A} (f : A -> bool) l l' : Permutation l l' -> Permutation (filter f l) (filter f l').
Proof.
  induction 1 as [|x l l' _ IH|x y l|l l' l'' _ IH1 _ IH2]; simpl.
  - constructor.
  - destruct (f x); [now constructor|exact IH].
  - destruct (f x), (f y); try apply Permutation_refl. apply perm_swap.
  - eapply Permutation_trans; eauto.
Qed.

(* the path does not matter: what x merges is, up to order, the updates of the signers x trusts *)
Lemma merged_is_inbox pol x arr pub : Permutation (map snd arr) pub -> Permutation (merged pol x arr) (inbox pol x pub).
Proof.
  intros P.
  assert (E : merged pol x arr = map sd_delta (filter (fun d => trusts pol x (sd_signer d)) (map snd arr))).
  { clear P. unfold merged, validator. induction arr as [|a r IH]; simpl; [reflexivity|].
    destruct (trusts pol x (sd_signer (snd a))); simpl; congruence. }
  rewrite E. apply Permutation_map, perm_filter, P.
Qed.

Lemma inbox_agree pol x y pub :
  (forall d, In d pub -> trusts pol x (sd_signer d) = trusts pol y (sd_signer d)) -> inbox pol x pub = inbox pol y pub.
Proof. intros H. unfold inbox. f_equal. apply filter_ext_in. exact H. Qed.

Lemma inbox_wf pol x pub : Forall wf_delta (map sd_delta pub) -> Forall wf_delta (inbox pol x pub).
Proof.
  unfold inbox. rewrite !Forall_forall. intros W d Hd. apply in_map_iff in Hd. destruct Hd as (sd & <- & Hs).
  apply filter_In in Hs. apply W. apply in_map. apply Hs.
Qed.

Lemma merged_perm pol x y ax ay pub :
  (forall d, In d pub -> trusts pol x (sd_signer d) = trusts pol y (sd_signer d)) ->
  Permutation (map snd ax) pub -> Permutation (map snd ay) pub ->
  Permutation (merged pol x ax) (merged pol y ay).
Proof.
  intros H Px Py. eapply Permutation_trans; [apply (merged_is_inbox pol x ax pub Px)|].
  rewrite (inbox_agree pol x y pub H). apply Permutation_sym, merged_is_inbox, Py.
Qed.

Lemma trusting_peers_converge pol pub x y ax ay k :
  Forall wf_delta (map sd_delta pub) ->
  (forall d, In d pub -> trusts pol x (sd_signer d) = trusts pol y (sd_signer d)) ->
  Permutation (map snd ax) pub -> Permutation (map snd ay) pub ->
  present (pinset_of pol x ax) k = present (pinset_of pol y ay) k.
Proof.
  intros W H Px Py. unfold pinset_of. apply membership_converges; [|now apply (merged_perm pol x y ax ay pub)].
  eapply Forall_perm; [apply Permutation_sym, (merged_is_inbox pol x ax pub Px)|now apply inbox_wf].
Qed.

Lemma trusting_peers_values_converge pol pub x y ax ay k :
  value_guard (inbox pol x pub) k ->
  (forall d, In d pub -> trusts pol x (sd_signer d) = trusts pol y (sd_signer d)) ->
  Permutation (map snd ax) pub -> Permutation (map snd ay) pub ->
  value (pinset_of pol x ax) k = value (pinset_of pol y ay) k.
Proof.
  intros G H Px Py. unfold pinset_of.
  rewrite <- (value_converges_partial (inbox pol x pub) (merged pol x ax) k G (Permutation_sym (merged_is_inbox pol x ax pub Px))).
  apply value_converges_partial; [exact G|]. rewrite (inbox_agree pol x y pub H). apply Permutation_sym, merged_is_inbox, Py.
Qed.

(* the case the property text names: two peers that trust each other, all updates signed by one of them *)
Lemma mutual_trust_agree pol pub x y :
  trusts pol x y = true -> trusts pol y x = true ->
  (forall d, In d pub -> sd_signer d = x \/ sd_signer d = y) ->
  forall d, In d pub -> trusts pol x (sd_signer d) = trusts pol y (sd_signer d).
Proof.
  intros Txy Tyx S d Hd. assert (Sx : forall p, trusts pol p p = true).
  { intros p. unfold trusts. rewrite N.eqb_refl, orb_true_r. reflexivity. }
  destruct (S d Hd) as [-> | ->]; rewrite ?Sx, ?Txy, ?Tyx; reflexivity.
Qed.

(* a relay the receiver does not trust changes nothing: same update, two forwarders, same verdict *)
Lemma validator_ignores_forwarder pol x f1 f2 signer : validator pol x f1 signer = validator pol x f2 signer.
Proof. reflexivity. Qed.

(* non-vacuity: the line A(1)--B(2)--C(3); A and C list each other only, B trusts everybody; C's update reaches A through B *)
Definition line_pol (p : peer) : tpolicy :=
  if p =? 1 then mk_tp false [3] else if p =? 3 then mk_tp false [1] else mk_tp true [].
Definition line_pub : list sdelta := [mk_sd 3 (mk_delta 1 1 [(7, 5)] []); mk_sd 1 (mk_delta 2 1 [(8, 6)] [])].
Lemma line_example :
  let arrA := [(2, mk_sd 3 (mk_delta 1 1 [(7, 5)] [])); (1, mk_sd 1 (mk_delta 2 1 [(8, 6)] []))] in
  let arrC := [(2, mk_sd 1 (mk_delta 2 1 [(8, 6)] [])); (3, mk_sd 3 (mk_delta 1 1 [(7, 5)] []))] in
  trusts line_pol 1 2 = false /\ trusts line_pol 1 3 = true /\ trusts line_pol 3 1 = true /\
  value (pinset_of line_pol 1 arrA) 7 = Some 5 /\ value (pinset_of line_pol 3 arrC) 7 = Some 5 /\
  value (pinset_of line_pol 1 arrA) 8 = Some 6 /\ value (pinset_of line_pol 3 arrC) 8 = Some 6.
Proof. vm_compute. repeat split; reflexivity. Qed.

(* the trust test of the H3 check (Model/C02_CheckSet.v) is `trusts` on the observed configuration *)
From V Require Import Model.C02_CheckSet.
Lemma np_trusts_is_trusts (pol : peer -> tpolicy) (x : npeer) (p : N) :
  pol (np_id x) = mk_tp (np_all x) (np_list x) -> np_trusts x p = trusts pol (np_id x) p.
Proof. intros E. unfold np_trusts, trusts. rewrite E. reflexivity. Qed.

(* ---- forwarding: an update reaches only peers that trust its signer ---- *)
Lemma trusts_self pol p : trusts pol p p = true.
Proof. unfold trusts. rewrite N.eqb_refl, orb_true_r. reflexivity. Qed.

Lemma spread_trust pol links s have : (forall p, In p have -> trusts pol p s = true) ->
  forall p, In p (spread pol links s have) -> trusts pol p s = true.
Proof.
  intros H p Hp. unfold spread in Hp. apply in_app_or in Hp. destruct Hp as [Hp|Hp]; [auto|].
  apply filter_In in Hp. destruct Hp as [_ Hp]. apply andb_true_iff in Hp. apply Hp.
Qed.

Lemma spread_n_trust n pol links s : forall have, (forall p, In p have -> trusts pol p s = true) ->
  forall p, In p (spread_n n pol links s have) -> trusts pol p s = true.
Proof. induction n as [|n IH]; intros have H p Hp; simpl in Hp; [auto|]. eapply IH; [|exact Hp]. now apply spread_trust. Qed.

Lemma memN_In x l : memN x l = true -> In x l.
Proof. unfold memN. intros H. apply existsb_exists in H. destruct H as (y & Hy & E). apply N.eqb_eq in E. now subst. Qed.

Lemma deliverable_needs_trust n pol links s x : deliverable n pol links s x = true -> trusts pol x s = true.
Proof.
  unfold deliverable, holders. intros H. apply memN_In in H. eapply spread_n_trust; [|exact H].
  intros p [<-|[]]. apply trusts_self.
Qed.

Lemma filter_keep_all {A} (f : A -> bool) l : (forall x, In x l -> f x = true) -> filter f l = l.
Proof. induction l as [|x l IH]; simpl; auto. intros H. rewrite (H x) by now left. f_equal. apply IH. intros; apply H; now right. Qed.

(* everything that can arrive at x is merged by x: its validator accepts what the relays accepted *)
Lemma merged_of_deliverable n pol links x (arr : list arrival) :
  (forall a, In a arr -> deliverable n pol links (sd_signer (snd a)) x = true) ->
  merged pol x arr = map (fun a => sd_delta (snd a)) arr.
Proof.
  intros H. unfold merged. f_equal. apply filter_keep_all. intros a Ha. unfold validator.
  eapply deliverable_needs_trust. now apply H.
Qed.

(* two peers that the same published updates can reach hold the same members, whatever the order and the path *)
Lemma reachable_peers_converge n pol links (pub : list sdelta) x y (ax ay : list arrival) k :
  Forall wf_delta (map sd_delta pub) ->
  (forall d, In d pub -> deliverable n pol links (sd_signer d) x = deliverable n pol links (sd_signer d) y) ->
  Permutation (map snd ax) (filter (fun d => deliverable n pol links (sd_signer d) x) pub) ->
  Permutation (map snd ay) (filter (fun d => deliverable n pol links (sd_signer d) y) pub) ->
  present (pinset_of pol x ax) k = present (pinset_of pol y ay) k.
Proof.
  intros W H Px Py. unfold pinset_of.
  assert (Ix : forall a, In a ax -> deliverable n pol links (sd_signer (snd a)) x = true).
  { intros a Ha. assert (Hin : In (snd a) (map snd ax)) by now apply in_map.
    eapply Permutation_in in Hin; [|exact Px]. apply filter_In in Hin. apply Hin. }
  assert (Iy : forall a, In a ay -> deliverable n pol links (sd_signer (snd a)) y = true).
  { intros a Ha. assert (Hin : In (snd a) (map snd ay)) by now apply in_map.
    eapply Permutation_in in Hin; [|exact Py]. apply filter_In in Hin. apply Hin. }
  rewrite (merged_of_deliverable n pol links x ax Ix), (merged_of_deliverable n pol links y ay Iy).
  assert (E : forall l : list arrival, map (fun a => sd_delta (snd a)) l = map sd_delta (map snd l)) by (intros l; now rewrite map_map).
  rewrite !E.
  assert (F : filter (fun d => deliverable n pol links (sd_signer d) x) pub = filter (fun d => deliverable n pol links (sd_signer d) y) pub)
    by (apply filter_ext_in; exact H).
  assert (P : Permutation (map sd_delta (map snd ax)) (map sd_delta (map snd ay))).
  { apply Permutation_map. eapply Permutation_trans; [exact Px|]. rewrite F. now apply Permutation_sym. }
  apply membership_converges; [|exact P].
  eapply Forall_perm; [apply Permutation_map, Permutation_sym, Px|].
  rewrite Forall_forall in *. intros d Hd. apply in_map_iff in Hd. destruct Hd as (sd & <- & Hs).
  apply filter_In in Hs. apply W. apply in_map. apply Hs.
Qed.

(* the line A(1)--B(2)--C(3) when the relay B lists only A: what C signs stops at B, what A signs reaches C *)
Definition line_pol_b (p : peer) : tpolicy :=
  if p =? 1 then mk_tp false [3] else if p =? 3 then mk_tp false [1] else mk_tp false [1].
Lemma relay_must_trust_signer :
  trusts line_pol_b 1 3 = true /\ deliverable 3 line_pol_b [(1, 2); (2, 3)] 3 1 = false /\
  deliverable 3 line_pol_b [(1, 2); (2, 3)] 1 3 = true /\ deliverable 3 line_pol [(1, 2); (2, 3)] 3 1 = true.
Proof. vm_compute. repeat split; reflexivity. Qed.
