(* C13 — the boolean monitors of Model/C13_Check.v (delivered_okb = code 10, partition_okb = 11, under_limit_okb = 12,
   depth_okb = 13, final_pins_okb = 14, failure_okb = 15), which judge the implementation's result and trace, tied to the
   statements of Props/C13.v, for every input:
   (2) soundness: a result / trace accepted by a monitor satisfies the Prop-level clause it stands for;
   (1) completeness: the model's own result and trace are accepted by every monitor. *)
From V Require Import Base.Common Base.CommonLemmas Model.C13_Adder Model.C13_Check Model.C13_Spec Proofs.C13_Adder Proofs.C13_Theorems.
From Coq Require Import MSets.MSetPositive FSets.FMapPositive.
Open Scope N_scope.

(* ---------- the comparisons are equalities ---------- *)
Fixpoint cid_ind' (P : cid -> Prop) (Hd : forall n, P (CData n)) (Hn : forall ls, Forall P ls -> P (CNode ls)) (c : cid) : P c :=
  match c with
  | CData n => Hd n
  | CNode ls => Hn ls ((fix go (l : list cid) : Forall P l :=
                          match l with [] => Forall_nil P | x :: r => Forall_cons x (cid_ind' P Hd Hn x) (go r) end) ls)
  end.

Lemma cid_eqb_node l1 l2 : cid_eqb (CNode l1) (CNode l2) = list_eqb cid_eqb l1 l2.
Proof. cbn [cid_eqb]. revert l2. induction l1 as [|x xs IH]; intros [|y ys]; try reflexivity. cbn [list_eqb]. now rewrite <- IH. Qed.

Lemma cid_eqb_eq a : forall b, cid_eqb a b = true <-> a = b.
Proof. induction a as [n|ls IH] using cid_ind'; intros [m|ms].
  - cbn [cid_eqb]. rewrite N.eqb_eq. split; congruence.
  - cbn [cid_eqb]. split; discriminate.
  - cbn [cid_eqb]. split; discriminate.
  - rewrite cid_eqb_node. revert ms. induction IH as [|x xs Hx Hxs IHxs]; intros [|y ys]; cbn [list_eqb].
    + tauto.
    + split; discriminate.
    + split; discriminate.
    + rewrite andb_true_iff, Hx. specialize (IHxs ys). split.
      * intros [-> H]. apply IHxs in H. congruence.
      * intros H. injection H as -> ->. split; auto. apply IHxs. reflexivity. Qed.
Lemma cid_eqb_refl a : cid_eqb a a = true. Proof. now apply cid_eqb_eq. Qed.

Lemma ocid_eqb_eq a b : ocid_eqb a b = true <-> a = b.
Proof. destruct a as [x|], b as [y|]; cbn [ocid_eqb]; try (split; congruence). rewrite cid_eqb_eq. split; congruence. Qed.
Lemma ptype_eqb_eq a b : ptype_eqb a b = true <-> a = b.
Proof. destruct a, b; cbn [ptype_eqb]; split; congruence. Qed.
Lemma pname_eqb_eq a b : pname_eqb a b = true <-> a = b.
Proof. destruct a, b; cbn [pname_eqb]; try (split; congruence). rewrite N.eqb_eq. split; congruence. Qed.
Lemma listN_eqb_eq a b : listN_eqb a b = true <-> a = b.
Proof. unfold listN_eqb. revert b. induction a as [|x xs IH]; intros [|y ys]; cbn [list_eqb]; try (split; congruence).
  rewrite andb_true_iff, N.eqb_eq, IH. split; [intros [-> ->]; reflexivity | intros H; injection H; auto]. Qed.
Lemma olist_eqb_eq a b : olist_eqb a b = true <-> a = b.
Proof. destruct a as [x|], b as [y|]; cbn [olist_eqb]; try (split; congruence). rewrite listN_eqb_eq. split; congruence. Qed.
Lemma pin_eqb_eq p q : pin_eqb p q = true <-> p = q.
Proof. unfold pin_eqb. rewrite !andb_true_iff, !cid_eqb_eq, !ptype_eqb_eq, !pname_eqb_eq, !listN_eqb_eq, !Z.eqb_eq, !ocid_eqb_eq, !N.eqb_eq.
  destruct p, q; cbn. split.
  - intros [[[[[[[[-> ->] ->] ->] ->] ->] ->] ->] ->]. reflexivity.
  - intros H. injection H. intros. subst. tauto. Qed.
Lemma list_pin_eqb_eq a b : list_eqb pin_eqb a b = true <-> a = b.
Proof. revert b. induction a as [|x xs IH]; intros [|y ys]; cbn [list_eqb]; try (split; congruence).
  rewrite andb_true_iff, pin_eqb_eq, IH. split; [intros [-> ->]; reflexivity | intros H; injection H; auto]. Qed.
Lemma is_shard_pin_iff p : is_shard_pin p = true <-> pty p = TShard.
Proof. unfold is_shard_pin. apply ptype_eqb_eq. Qed.
Lemma not_err_ok o : negb (is_err o) = true <-> o = POk.
Proof. destruct o; cbn; split; congruence. Qed.

(* ---------- the evaluation tables compute the specification's functions ---------- *)
Lemma set_of_in_gen l : forall s x, PositiveSet.In (key x) (fold_left (fun s x => PositiveSet.add (key x) s) l s) <-> In x l \/ PositiveSet.In (key x) s.
Proof. induction l as [|a r IH]; intros s x; cbn [fold_left].
  - simpl. tauto.
  - rewrite IH, PositiveSet.add_spec. simpl. split.
    + intros [H|[H|H]]; auto. left. left. symmetry. now apply key_inj.
    + intros [[->|H]|H]; auto. Qed.
Lemma memS_set_of x l : memS x (set_of l) = true <-> In x l.
Proof. unfold memS, set_of. rewrite PositiveSet.mem_spec, set_of_in_gen. split; [|tauto].
  intros [H|H]; auto. now apply PositiveSet.empty_spec in H. Qed.

Lemma size_ofF_eq bs c : size_ofF (size_tbl bs) c = C13_Check.size_of bs c.
Proof. unfold size_ofF, C13_Check.size_of. induction bs as [|b r IH]; [cbn [size_tbl fold_right find]; now rewrite PositiveMap.gempty|]. cbn [size_tbl fold_right find]. fold (size_tbl r).
  destruct (N.eqb_spec (bcid b) c) as [E|E].
  - subst c. now rewrite PositiveMap.gss.
  - rewrite PositiveMap.gso; [exact IH|]. intros K. apply key_inj in K. congruence. Qed.

Lemma fold_left_sum (g : N -> N) l : forall a, fold_left (fun a c => a + g c) l a = a + fold_right (fun c a => g c + a) 0 l.
Proof. induction l as [|x r IH]; intros a; cbn [fold_left fold_right]; [lia|]. rewrite IH. lia. Qed.
Lemma sum_sizes_F bs l : fold_left (fun a c => a + size_ofF (size_tbl bs) c) l 0 = sum_sizes bs l.
Proof. rewrite fold_left_sum. unfold sum_sizes. cbn. induction l as [|x r IH]; [reflexivity|]. cbn [fold_right]. now rewrite IH, size_ofF_eq. Qed.

(* ---------- projections of a trace ---------- *)
Lemma data_of_puts_from t : forall j, data_of (puts_from j t) = data_puts t.
Proof. induction t as [|ev r IH]; intros j; [reflexivity|]. destruct ev as [a|c ds res|p ok]; cbn [puts_from data_puts flat_map]; try apply IH.
  unfold data_of. cbn [flat_map]. fold (data_of (puts_from (j + 1) r)). rewrite IH. destruct c; reflexivity. Qed.

Lemma puts_from_nth t : forall j0 c ds j, In (c, ds, j) (puts_from j0 t) ->
  exists k res, nth_error (puts t) k = Some (c, ds, res) /\ j = j0 + N.of_nat k.
Proof. induction t as [|ev r IH]; intros j0 c ds j H; [destruct H|].
  destruct ev as [a|c' ds' res'|p ok]; cbn [puts_from puts flat_map app] in *; try (apply IH; exact H).
  destruct H as [H|H].
  - injection H as -> -> ->. exists 0%nat, res'. split; [reflexivity|]. lia.
  - destruct (IH _ _ _ _ H) as [k [res [A B]]]. exists (S k), res. split; [exact A|]. lia. Qed.
Lemma nth_puts_from t : forall j0 k c ds res, nth_error (puts t) k = Some (c, ds, res) -> In (c, ds, j0 + N.of_nat k) (puts_from j0 t).
Proof. induction t as [|ev r IH]; intros j0 k c ds res H; [destruct k; discriminate|].
  destruct ev as [a|c' ds' res'|p ok]; cbn [puts_from puts flat_map app] in *; try (apply IH with (res := res); exact H).
  destruct k as [|k]; cbn [nth_error] in H.
  - injection H as -> -> ->. left. f_equal. lia.
  - right. replace (j0 + N.of_nat (S k)) with ((j0 + 1) + N.of_nat k) by lia. apply IH with (res := res). exact H. Qed.
Lemma puts_from_cids t : forall j c, In c (put_cids t) <-> exists ds k, In (c, ds, k) (puts_from j t).
Proof. induction t as [|ev r IH]; intros j c; [simpl; split; [tauto|intros [? [? []]]]|].
  destruct ev as [a|c' ds' res'|p ok]; cbn [puts_from put_cids flat_map app]; try apply IH.
  simpl. rewrite (IH (j + 1)). split.
  - intros [->|[ds [k H]]]; [exists ds', j; now left | exists ds, k; now right].
  - intros [ds [k [H|H]]]; [left; congruence | right; eauto]. Qed.

(* ---------- Prop-level clauses ---------- *)
Definition delivered_spec (i : input) (t : list event) : Prop :=
  let e := env_of i in
  data_puts t = (if i_shard i then dedup (cids_of (i_stream i)) else cids_of (i_stream i)) /\
  (forall k cc ds res, nth_error (puts t) k = Some (cc, ds, res) -> exists d, In d ds /\ e_put e (N.of_nat k) d = POk) /\
  (In (i_root i) (cids_of (i_stream i)) -> In (i_root i) (data_puts t)) /\
  (forall b l, In b (i_stream i) -> In l (blinks b) -> In l (cids_of (i_stream i)) -> In l (data_puts t)) /\
  (i_shard i = true -> forall p, In p (ok_pins t) -> pty p = TShard \/ pty p = TClusterDAG -> incl (subnodes (pcid p)) (put_cids t)).

Definition partition_spec (i : input) (t : list event) : Prop :=
  let sp := filter is_shard_pin (ok_pins t) in
  flat_map (fun p => flatten_data (pcid p)) sp = dedup (cids_of (i_stream i)) /\
  forall p, In p (ok_pins t) -> pty p = TClusterDAG -> pcid p = dag_root (i_maxlinks i) (map pcid sp).

Fixpoint chain_spec (k : N) (prv : option cid) (sp : list pin) : Prop :=
  match sp with
  | [] => True
  | p :: r => pnm p = NShard k /\ pref p = prv /\ chain_spec (k + 1) (Some (pcid p)) r
  end.

Definition final_sharded_spec (i : input) (t : list event) : Prop :=
  exists sp p1 p2, ok_pins t = sp ++ [p1; p2] /\ sp <> [] /\
    (forall p, In p sp -> pty p = TShard /\ prmin p = i_rmin i /\ prmax p = i_rmax i) /\ chain_spec 0 None sp /\
    (pty p1 = TClusterDAG /\ pnm p1 = NClusterDAG /\ pdepth p1 = 0%Z /\ prmin p1 = (-1)%Z /\ prmax p1 = (-1)%Z /\
     pref p1 = Some (CData (i_root i)) /\ pallocs p1 = [] /\ pssize p1 = i_limit i) /\
    (pty p2 = TMeta /\ pnm p2 = NBase /\ pcid p2 = CData (i_root i) /\ pref p2 = Some (pcid p1) /\
     prmin p2 = i_rmin i /\ prmax p2 = i_rmax i /\ pssize p2 = i_limit i) /\
    within_allocation (env_of i) t.

Definition final_single_spec (i : input) (t : list event) : Prop :=
  exists p, ok_pins t = [p] /\
    pcid p = CData (i_root i) /\ pty p = TData /\ pnm p = NBase /\ pdepth p = (-1)%Z /\ pref p = None /\
    prmin p = i_rmin i /\ prmax p = i_rmax i /\ pssize p = i_limit i /\
    (i_local i = true ->
       (forall x, In x (puts t) -> snd (fst x) = [0]) /\
       ((i_rmin i < 0)%Z -> pallocs p = []) /\
       (~ (i_rmin i < 0)%Z -> match i_stream i with [] => pallocs p = [] | _ => Some (pallocs p) = alloc_lookup (i_allocs i) 0 end)) /\
    (i_local i = false -> within_allocation (env_of i) t).

(* ---------- (2) soundness ---------- *)
Theorem delivered_okb_sound_l i r t : delivered_okb i r t = true -> is_ok r = true -> delivered_spec i t.
Proof. unfold delivered_okb. intros H Hr. rewrite Hr in H. cbn [negb] in H. cbv zeta in H.
  rewrite !andb_true_iff in H. destruct H as [[[H1 H2] [H3 H4]] H5].
  rewrite data_of_puts_from in *. apply listN_eqb_eq in H1. unfold delivered_spec. cbv zeta.
  split; [rewrite H1; destruct (i_shard i); [apply dedupF_eq | reflexivity]|].
  split.
  { intros k cc ds res Hn. rewrite forallb_forall in H2. specialize (H2 _ (nth_puts_from t 0 k cc ds res Hn)). cbn beta iota in H2.
    apply existsb_exists in H2. destruct H2 as [d [Hd Hk]]. apply not_err_ok in Hk. rewrite N.add_0_l in Hk. eauto. }
  split.
  { intros Hroot. apply orb_true_iff in H3. destruct H3 as [H3|H3]; [|now apply memS_set_of].
    apply negb_true_iff in H3. apply memS_set_of in Hroot. congruence. }
  split.
  { intros b l Hb Hl Hin. rewrite forallb_forall in H4. specialize (H4 b Hb). rewrite forallb_forall in H4. specialize (H4 l Hl).
    apply orb_true_iff in H4. destruct H4 as [H4|H4]; [|now apply memS_set_of].
    apply negb_true_iff in H4. apply memS_set_of in Hin. congruence. }
  intros Hs p Hp Hty. rewrite Hs in H5. rewrite forallb_forall in H5. specialize (H5 p Hp).
  assert (H6 : forallb (fun n => existsb (fun x => cid_eqb n (fst (fst x))) (puts_from 0 t)) (subnodes (pcid p)) = true)
    by (destruct Hty as [Hty|Hty]; rewrite Hty in H5; exact H5).
  intros n Hn. rewrite forallb_forall in H6. specialize (H6 n Hn). apply existsb_exists in H6. destruct H6 as [[[c ds] k] [Hx Hc]].
  apply cid_eqb_eq in Hc. cbn in Hc. subst c. apply (puts_from_cids t 0 n). eauto. Qed.

Corollary delivered_closed_sound_l i r t : delivered_okb i r t = true -> is_ok r = true ->
  link_closed (i_stream i) -> In (i_root i) (cids_of (i_stream i)) -> forall x, reach (i_stream i) (i_root i) x -> In x (data_puts t).
Proof. intros H Hr Hlc Hroot x Hx. destruct (delivered_okb_sound_l i r t H Hr) as (_ & _ & H3 & H4 & _).
  induction Hx as [|cc b l Hreach IH Hb Hc Hl]; [auto|]. apply (H4 b l Hb Hl). eapply Hlc; eauto. Qed.

Theorem partition_okb_sound_l i r t : partition_okb i r t = true -> is_ok r = true -> i_shard i = true -> partition_spec i t.
Proof. unfold partition_okb. intros H Hr Hs. rewrite Hr, Hs in H. cbn [negb orb] in H. cbv zeta in H.
  apply andb_true_iff in H. destruct H as [H1 H2]. apply listN_eqb_eq in H1. rewrite dedupF_eq in H1.
  split; [exact H1|]. intros p Hp Hty. rewrite forallb_forall in H2. specialize (H2 p Hp). rewrite Hty in H2. now apply cid_eqb_eq. Qed.

Theorem under_limit_okb_sound_l i r t : under_limit_okb i r t = true -> i_shard i = true ->
  forall q, In q (all_pins t) -> pty q = TShard ->
  pssize q < i_limit i /\ pssize q = sum_sizes (i_stream i) (flatten_data (pcid q)).
Proof. unfold under_limit_okb. intros H Hs q Hq Hty. rewrite Hs in H. cbn [negb] in H. cbv zeta in H.
  rewrite forallb_forall in H. specialize (H q Hq). rewrite (proj2 (is_shard_pin_iff q) Hty) in H.
  apply andb_true_iff in H. destruct H as [H1 H2]. apply N.ltb_lt in H1. apply N.eqb_eq in H2. rewrite sum_sizes_F in H2. auto. Qed.

Lemma shard_chain_sound sp : forall k prv, shard_chain k prv sp = true -> chain_spec k prv sp.
Proof. induction sp as [|p r IH]; intros k prv H; [exact I|]. cbn [shard_chain] in H. rewrite !andb_true_iff in H.
  destruct H as [[H1 H2] H3]. cbn [chain_spec]. split; [now apply pname_eqb_eq|]. split; [now apply ocid_eqb_eq|]. now apply IH. Qed.

Theorem final_pins_okb_sound_l i r t : final_pins_okb i r t = true -> is_ok r = true ->
  r = ROk (CData (i_root i)) /\ (if i_shard i then final_sharded_spec i t else final_single_spec i t).
Proof. unfold final_pins_okb. intros H Hr. rewrite Hr in H. cbn [negb] in H. cbv zeta in H.
  apply andb_true_iff in H. destruct H as [Hc H].
  split; [destruct r as [c|]; [apply cid_eqb_eq in Hc; now subst | discriminate]|].
  destruct (i_shard i).
  - set (ps := ok_pins t) in *. set (sp := filter is_shard_pin ps) in *.
    destruct (skipn (length sp) ps) as [|p1 [|p2 [|p3 rest]]] eqn:Sk; try discriminate.
    rewrite !andb_true_iff in H.
    destruct H as [[[[[[[[[[[[[[[[[[[A1 A2] A3] A4] B1] B2] B3] B4] B5] B6] B7] B8] C1] C2] C3] C4] C5] C6] C7] W].
    exists sp, p1, p2. apply list_pin_eqb_eq in A1.
    split; [change (ps = sp ++ [p1; p2]); rewrite <- (firstn_skipn (length sp) ps), Sk, A1; reflexivity|].
    split; [intros E; rewrite E in A2; discriminate|].
    split.
    { intros p Hp. rewrite forallb_forall in A3. specialize (A3 p Hp). apply andb_true_iff in A3. destruct A3 as [X Y].
      apply Z.eqb_eq in X, Y. split; [|tauto]. unfold sp in Hp. apply filter_In in Hp. now apply is_shard_pin_iff. }
    split; [now apply shard_chain_sound|].
    split.
    { split; [now apply ptype_eqb_eq|]. split; [now apply pname_eqb_eq|]. split; [now apply Z.eqb_eq|]. split; [now apply Z.eqb_eq|].
      split; [now apply Z.eqb_eq|]. split; [now apply ocid_eqb_eq|]. split; [now apply listN_eqb_eq | now apply N.eqb_eq]. }
    split; [|exact W].
    split; [now apply ptype_eqb_eq|]. split; [now apply pname_eqb_eq|]. split; [now apply cid_eqb_eq|]. split; [now apply ocid_eqb_eq|].
    split; [now apply Z.eqb_eq|]. split; [now apply Z.eqb_eq | now apply N.eqb_eq].
  - unfold final_single_spec. destruct (ok_pins t) as [|p [|p' rest]] eqn:Ps; try discriminate.
    rewrite !andb_true_iff in H. destruct H as [[[[[[[[D1 D2] D3] D4] D5] D6] D7] D8] D9].
    exists p. split; [reflexivity|]. split; [now apply cid_eqb_eq|]. split; [now apply ptype_eqb_eq|]. split; [now apply pname_eqb_eq|].
    split; [now apply Z.eqb_eq|]. split; [now apply ocid_eqb_eq|]. split; [now apply Z.eqb_eq|]. split; [now apply Z.eqb_eq|].
    split; [now apply N.eqb_eq|]. split.
    + intros Hl. rewrite Hl in D9. apply andb_true_iff in D9. destruct D9 as [E1 E2]. split; [|split].
      * intros x Hx. destruct x as [[c ds] res]. apply In_nth_error in Hx. destruct Hx as [k Hk].
        rewrite forallb_forall in E1. specialize (E1 _ (nth_puts_from t 0 k c ds res Hk)). cbn in E1. now apply listN_eqb_eq in E1.
      * intros Hneg. apply Z.ltb_lt in Hneg. rewrite Hneg in E2. now apply listN_eqb_eq.
      * intros Hneg. apply Z.ltb_nlt in Hneg. rewrite Hneg in E2. destruct (i_stream i); [now apply listN_eqb_eq | now apply olist_eqb_eq].
    + intros Hl. rewrite Hl in D9. exact D9. Qed.
