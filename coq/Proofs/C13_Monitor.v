(* C13 — the boolean monitors of Model/C13_Check.v (delivered_okb = code 10, partition_okb = 11, under_limit_okb = 12,
   depth_okb = 13, final_pins_okb = 14, failure_okb = 15), which judge the implementation's result and trace, tied to the
   statements of Props/C13.v, for every input:
   (2) soundness: a result / trace accepted by a monitor satisfies the Prop-level clause it stands for;
   (1) completeness: the model's own result and trace are accepted by every monitor. *)
From V Require Import Base.Common Base.CommonLemmas Model.C13_Adder Model.C13_Check Model.C13_Spec Proofs.C13_Adder Proofs.C13_Theorems.
From Coq Require Import MSets.MSetPositive FSets.FMapPositive.
Open Scope N_scope.

(* ---------- the comparisons are equalities ---------- *)
Fixpoint cid_ind' (P : cid -> Prop) (Hd : forall n, P (CData n)) (Hn : forall ls, Forall P ls -> P (CNode ls)) (c : cid) : P c :=
  match c with
  | CData n => Hd n
  | CNode ls => Hn ls ((fix go (l : list cid) : Forall P l :=
                          match l with [] => Forall_nil P | x :: r => Forall_cons x (cid_ind' P Hd Hn x) (go r) end) ls)
  end.

Lemma cid_eqb_node l1 l2 : cid_eqb (CNode l1) (CNode l2) = list_eqb cid_eqb l1 l2.
Proof. cbn [cid_eqb]. revert l2. induction l1 as [|x xs IH]; intros [|y ys]; try reflexivity. cbn [list_eqb]. now rewrite <- IH. Qed.

Lemma cid_eqb_eq a : forall b, cid_eqb a b = true <-> a = b.
Proof. induction a as [n|ls IH] using cid_ind'; intros [m|ms].
  - cbn [cid_eqb]. rewrite N.eqb_eq. split; congruence.
  - cbn [cid_eqb]. split; discriminate.
  - cbn [cid_eqb]. split; discriminate.
  - rewrite cid_eqb_node. revert ms. induction IH as [|x xs Hx Hxs IHxs]; intros [|y ys]; cbn [list_eqb].
    + tauto.
    + split; discriminate.
    + split; discriminate.
    + rewrite andb_true_iff, Hx. specialize (IHxs ys). split.
      * intros [-> H]. apply IHxs in H. congruence.
      * intros H. injection H as -> ->. split; auto. apply IHxs. reflexivity. Qed.
Lemma cid_eqb_refl a : cid_eqb a a = true. Proof. now apply cid_eqb_eq. Qed.

Lemma ocid_eqb_eq a b : ocid_eqb a b = true <-> a = b.
Proof. destruct a as [x|], b as [y|]; cbn [ocid_eqb]; try (split; congruence). rewrite cid_eqb_eq. split; congruence. Qed.
Lemma ptype_eqb_eq a b : ptype_eqb a b = true <-> a = b.
Proof. destruct a, b; cbn [ptype_eqb]; split; congruence. Qed.
Lemma pname_eqb_eq a b : pname_eqb a b = true <-> a = b.
Proof. destruct a, b; cbn [pname_eqb]; try (split; congruence). rewrite N.eqb_eq. split; congruence. Qed.
Lemma listN_eqb_eq a b : listN_eqb a b = true <-> a = b.
Proof. unfold listN_eqb. revert b. induction a as [|x xs IH]; intros [|y ys]; cbn [list_eqb]; try (split; congruence).
  rewrite andb_true_iff, N.eqb_eq, IH. split; [intros [-> ->]; reflexivity | intros H; injection H; auto]. Qed.
Lemma olist_eqb_eq a b : olist_eqb a b = true <-> a = b.
Proof. destruct a as [x|], b as [y|]; cbn [olist_eqb]; try (split; congruence). rewrite listN_eqb_eq. split; congruence. Qed.
Lemma pin_eqb_eq p q : pin_eqb p q = true <-> p = q.
Proof. unfold pin_eqb. rewrite !andb_true_iff, !cid_eqb_eq, !ptype_eqb_eq, !pname_eqb_eq, !listN_eqb_eq, !Z.eqb_eq, !ocid_eqb_eq, !N.eqb_eq.
  destruct p, q; cbn. split.
  - intros [[[[[[[[-> ->] ->] ->] ->] ->] ->] ->] ->]. reflexivity.
  - intros H. injection H. intros. subst. tauto. Qed.
Lemma list_pin_eqb_eq a b : list_eqb pin_eqb a b = true <-> a = b.
Proof. revert b. induction a as [|x xs IH]; intros [|y ys]; cbn [list_eqb]; try (split; congruence).
  rewrite andb_true_iff, pin_eqb_eq, IH. split; [intros [-> ->]; reflexivity | intros H; injection H; auto]. Qed.
Lemma is_shard_pin_iff p : is_shard_pin p = true <-> pty p = TShard.
Proof. unfold is_shard_pin. apply ptype_eqb_eq. Qed.
Lemma not_err_ok o : negb (is_err o) = true <-> o = POk.
Proof. destruct o; cbn; split; congruence. Qed.

(* ---------- the evaluation tables compute the specification's functions ---------- *)
Lemma set_of_in_gen l : forall s x, PositiveSet.In (key x) (fold_left (fun s x => PositiveSet.add (key x) s) l s) <-> In x l \/ PositiveSet.In (key x) s.
Proof. induction l as [|a r IH]; intros s x; cbn [fold_left].
  - simpl. tauto.
  - rewrite IH, PositiveSet.add_spec. simpl. split.
    + intros [H|[H|H]]; auto. left. left. symmetry. now apply key_inj.
    + intros [[->|H]|H]; auto. Qed.
Lemma memS_set_of x l : memS x (set_of l) = true <-> In x l.
Proof. unfold memS, set_of. rewrite PositiveSet.mem_spec, set_of_in_gen. split; [|tauto].
  intros [H|H]; auto. now apply PositiveSet.empty_spec in H. Qed.

Lemma size_ofF_eq bs c : size_ofF (size_tbl bs) c = C13_Check.size_of bs c.
Proof. unfold size_ofF, C13_Check.size_of. induction bs as [|b r IH]; [cbn [size_tbl fold_right find]; now rewrite PositiveMap.gempty|]. cbn [size_tbl fold_right find]. fold (size_tbl r).
  destruct (N.eqb_spec (bcid b) c) as [E|E].
  - subst c. now rewrite PositiveMap.gss.
  - rewrite PositiveMap.gso; [exact IH|]. intros K. apply key_inj in K. congruence. Qed.

Lemma fold_left_sum (g : N -> N) l : forall a, fold_left (fun a c => a + g c) l a = a + fold_right (fun c a => g c + a) 0 l.
Proof. induction l as [|x r IH]; intros a; cbn [fold_left fold_right]; [lia|]. rewrite IH. lia. Qed.
Lemma sum_sizes_F bs l : fold_left (fun a c => a + size_ofF (size_tbl bs) c) l 0 = sum_sizes bs l.
Proof. rewrite fold_left_sum. unfold sum_sizes. cbn. induction l as [|x r IH]; [reflexivity|]. cbn [fold_right]. now rewrite IH, size_ofF_eq. Qed.

(* ---------- projections of a trace ---------- *)
Lemma data_of_puts_from t : forall j, data_of (puts_from j t) = data_puts t.
Proof. induction t as [|ev r IH]; intros j; [reflexivity|]. destruct ev as [a|c ds res|p ok]; cbn [puts_from data_puts flat_map]; try apply IH.
  unfold data_of. cbn [flat_map]. fold (data_of (puts_from (j + 1) r)). rewrite IH. destruct c; reflexivity. Qed.

Lemma puts_from_nth t : forall j0 c ds j, In (c, ds, j) (puts_from j0 t) ->
  exists k res, nth_error (puts t) k = Some (c, ds, res) /\ j = j0 + N.of_nat k.
Proof. induction t as [|ev r IH]; intros j0 c ds j H; [destruct H|].
  destruct ev as [a|c' ds' res'|p ok]; cbn [puts_from puts flat_map app] in *; try (apply IH; exact H).
  destruct H as [H|H].
  - injection H as -> -> ->. exists 0%nat, res'. split; [reflexivity|]. lia.
  - destruct (IH _ _ _ _ H) as [k [res [A B]]]. exists (S k), res. split; [exact A|]. lia. Qed.
Lemma nth_puts_from t : forall j0 k c ds res, nth_error (puts t) k = Some (c, ds, res) -> In (c, ds, j0 + N.of_nat k) (puts_from j0 t).
Proof. induction t as [|ev r IH]; intros j0 k c ds res H; [destruct k; discriminate|].
  destruct ev as [a|c' ds' res'|p ok]; cbn [puts_from puts flat_map app] in *; try (apply IH with (res := res); exact H).
  destruct k as [|k]; cbn [nth_error] in H.
  - injection H as -> -> ->. left. f_equal. lia.
  - right. replace (j0 + N.of_nat (S k)) with ((j0 + 1) + N.of_nat k) by lia. apply IH with (res := res). exact H. Qed.
Lemma puts_from_cids t : forall j c, In c (put_cids t) <-> exists ds k, In (c, ds, k) (puts_from j t).
Proof. induction t as [|ev r IH]; intros j c; [simpl; split; [tauto|intros [? [? []]]]|].
  destruct ev as [a|c' ds' res'|p ok]; cbn [puts_from put_cids flat_map app]; try apply IH.
  simpl. rewrite (IH (j + 1)). split.
  - intros [->|[ds [k H]]]; [exists ds', j; now left | exists ds, k; now right].
  - intros [ds [k [H|H]]]; [left; congruence | right; eauto]. Qed.

(* ---------- Prop-level clauses ---------- *)
Definition delivered_spec (i : input) (t : list event) : Prop :=
  let e := env_of i in
  data_puts t = (if i_shard i then dedup (cids_of (i_stream i)) else cids_of (i_stream i)) /\
  (forall k cc ds res, nth_error (puts t) k = Some (cc, ds, res) -> exists d, In d ds /\ e_put e (N.of_nat k) d = POk) /\
  (In (i_root i) (cids_of (i_stream i)) -> In (i_root i) (data_puts t)) /\
  (forall b l, In b (i_stream i) -> In l (blinks b) -> In l (cids_of (i_stream i)) -> In l (data_puts t)) /\
  (i_shard i = true -> forall p, In p (ok_pins t) -> pty p = TShard \/ pty p = TClusterDAG -> incl (subnodes (pcid p)) (put_cids t)).

Definition partition_spec (i : input) (t : list event) : Prop :=
  let sp := filter is_shard_pin (ok_pins t) in
  flat_map (fun p => flatten_data (pcid p)) sp = dedup (cids_of (i_stream i)) /\
  forall p, In p (ok_pins t) -> pty p = TClusterDAG -> pcid p = dag_root (i_maxlinks i) (map pcid sp).

Fixpoint chain_spec (k : N) (prv : option cid) (sp : list pin) : Prop :=
  match sp with
  | [] => True
  | p :: r => pnm p = NShard k /\ pref p = prv /\ chain_spec (k + 1) (Some (pcid p)) r
  end.

Definition final_sharded_spec (i : input) (t : list event) : Prop :=
  exists sp p1 p2, ok_pins t = sp ++ [p1; p2] /\ sp <> [] /\
    (forall p, In p sp -> pty p = TShard /\ prmin p = i_rmin i /\ prmax p = i_rmax i) /\ chain_spec 0 None sp /\
    (pty p1 = TClusterDAG /\ pnm p1 = NClusterDAG /\ pdepth p1 = 0%Z /\ prmin p1 = (-1)%Z /\ prmax p1 = (-1)%Z /\
     pref p1 = Some (CData (i_root i)) /\ pallocs p1 = [] /\ pssize p1 = i_limit i) /\
    (pty p2 = TMeta /\ pnm p2 = NBase /\ pcid p2 = CData (i_root i) /\ pref p2 = Some (pcid p1) /\
     prmin p2 = i_rmin i /\ prmax p2 = i_rmax i /\ pssize p2 = i_limit i) /\
    within_allocation (env_of i) t.

Definition final_single_spec (i : input) (t : list event) : Prop :=
  exists p, ok_pins t = [p] /\
    pcid p = CData (i_root i) /\ pty p = TData /\ pnm p = NBase /\ pdepth p = (-1)%Z /\ pref p = None /\
    prmin p = i_rmin i /\ prmax p = i_rmax i /\ pssize p = i_limit i /\
    (i_local i = true ->
       (forall x, In x (puts t) -> snd (fst x) = [0]) /\
       ((i_rmin i < 0)%Z -> pallocs p = []) /\
       (~ (i_rmin i < 0)%Z -> match i_stream i with [] => pallocs p = [] | _ => Some (pallocs p) = alloc_lookup (i_allocs i) 0 end)) /\
    (i_local i = false -> within_allocation (env_of i) t).

(* ---------- (2) soundness ---------- *)
Theorem delivered_okb_sound_l i r t : delivered_okb i r t = true -> is_ok r = true -> delivered_spec i t.
Proof. unfold delivered_okb. intros H Hr. rewrite Hr in H. cbn [negb] in H. cbv zeta in H.
  rewrite !andb_true_iff in H. destruct H as [[[H1 H2] [H3 H4]] H5].
  rewrite data_of_puts_from in *. apply listN_eqb_eq in H1. unfold delivered_spec. cbv zeta.
  split; [rewrite H1; destruct (i_shard i); [apply dedupF_eq | reflexivity]|].
  split.
  { intros k cc ds res Hn. rewrite forallb_forall in H2. specialize (H2 _ (nth_puts_from t 0 k cc ds res Hn)). cbn beta iota in H2.
    apply existsb_exists in H2. destruct H2 as [d [Hd Hk]]. apply not_err_ok in Hk. rewrite N.add_0_l in Hk. eauto. }
  split.
  { intros Hroot. apply orb_true_iff in H3. destruct H3 as [H3|H3]; [|now apply memS_set_of].
    apply negb_true_iff in H3. apply memS_set_of in Hroot. congruence. }
  split.
  { intros b l Hb Hl Hin. rewrite forallb_forall in H4. specialize (H4 b Hb). rewrite forallb_forall in H4. specialize (H4 l Hl).
    apply orb_true_iff in H4. destruct H4 as [H4|H4]; [|now apply memS_set_of].
    apply negb_true_iff in H4. apply memS_set_of in Hin. congruence. }
  intros Hs p Hp Hty. rewrite Hs in H5. rewrite forallb_forall in H5. specialize (H5 p Hp).
  assert (H6 : forallb (fun n => existsb (fun x => cid_eqb n (fst (fst x))) (puts_from 0 t)) (subnodes (pcid p)) = true)
    by (destruct Hty as [Hty|Hty]; rewrite Hty in H5; exact H5).
  intros n Hn. rewrite forallb_forall in H6. specialize (H6 n Hn). apply existsb_exists in H6. destruct H6 as [[[c ds] k] [Hx Hc]].
  apply cid_eqb_eq in Hc. cbn in Hc. subst c. apply (puts_from_cids t 0 n). eauto. Qed.

Corollary delivered_closed_sound_l i r t : delivered_okb i r t = true -> is_ok r = true ->
  link_closed (i_stream i) -> In (i_root i) (cids_of (i_stream i)) -> forall x, reach (i_stream i) (i_root i) x -> In x (data_puts t).
Proof. intros H Hr Hlc Hroot x Hx. destruct (delivered_okb_sound_l i r t H Hr) as (_ & _ & H3 & H4 & _).
  induction Hx as [|cc b l Hreach IH Hb Hc Hl]; [auto|]. apply (H4 b l Hb Hl). eapply Hlc; eauto. Qed.

Theorem partition_okb_sound_l i r t : partition_okb i r t = true -> is_ok r = true -> i_shard i = true -> partition_spec i t.
Proof. unfold partition_okb. intros H Hr Hs. rewrite Hr, Hs in H. cbn [negb orb] in H. cbv zeta in H.
  apply andb_true_iff in H. destruct H as [H1 H2]. apply listN_eqb_eq in H1. rewrite dedupF_eq in H1.
  split; [exact H1|]. intros p Hp Hty. rewrite forallb_forall in H2. specialize (H2 p Hp). rewrite Hty in H2. now apply cid_eqb_eq. Qed.

Theorem under_limit_okb_sound_l i r t : under_limit_okb i r t = true -> i_shard i = true ->
  forall q, In q (all_pins t) -> pty q = TShard ->
  pssize q < i_limit i /\ pssize q = sum_sizes (i_stream i) (flatten_data (pcid q)).
Proof. unfold under_limit_okb. intros H Hs q Hq Hty. rewrite Hs in H. cbn [negb] in H. cbv zeta in H.
  rewrite forallb_forall in H. specialize (H q Hq). rewrite (proj2 (is_shard_pin_iff q) Hty) in H.
  apply andb_true_iff in H. destruct H as [H1 H2]. apply N.ltb_lt in H1. apply N.eqb_eq in H2. rewrite sum_sizes_F in H2. auto. Qed.

Lemma shard_chain_sound sp : forall k prv, shard_chain k prv sp = true -> chain_spec k prv sp.
Proof. induction sp as [|p r IH]; intros k prv H; [exact I|]. cbn [shard_chain] in H. rewrite !andb_true_iff in H.
  destruct H as [[H1 H2] H3]. cbn [chain_spec]. split; [now apply pname_eqb_eq|]. split; [now apply ocid_eqb_eq|]. now apply IH. Qed.

Theorem final_pins_okb_sound_l i r t : final_pins_okb i r t = true -> is_ok r = true ->
  r = ROk (CData (i_root i)) /\ (if i_shard i then final_sharded_spec i t else final_single_spec i t).
Proof. unfold final_pins_okb. intros H Hr. rewrite Hr in H. cbn [negb] in H. cbv zeta in H.
  apply andb_true_iff in H. destruct H as [Hc H].
  split; [destruct r as [c|]; [apply cid_eqb_eq in Hc; now subst | discriminate]|].
  destruct (i_shard i).
  - set (ps := ok_pins t) in *. set (sp := filter is_shard_pin ps) in *.
    destruct (skipn (length sp) ps) as [|p1 [|p2 [|p3 rest]]] eqn:Sk; try discriminate.
    rewrite !andb_true_iff in H.
    destruct H as [[[[[[[[[[[[[[[[[[[A1 A2] A3] A4] B1] B2] B3] B4] B5] B6] B7] B8] C1] C2] C3] C4] C5] C6] C7] W].
    exists sp, p1, p2. apply list_pin_eqb_eq in A1.
    split; [change (ps = sp ++ [p1; p2]); rewrite <- (firstn_skipn (length sp) ps), Sk, A1; reflexivity|].
    split; [intros E; rewrite E in A2; discriminate|].
    split.
    { intros p Hp. rewrite forallb_forall in A3. specialize (A3 p Hp). apply andb_true_iff in A3. destruct A3 as [X Y].
      apply Z.eqb_eq in X, Y. split; [|tauto]. unfold sp in Hp. apply filter_In in Hp. now apply is_shard_pin_iff. }
    split; [now apply shard_chain_sound|].
    split.
    { split; [now apply ptype_eqb_eq|]. split; [now apply pname_eqb_eq|]. split; [now apply Z.eqb_eq|]. split; [now apply Z.eqb_eq|].
      split; [now apply Z.eqb_eq|]. split; [now apply ocid_eqb_eq|]. split; [now apply listN_eqb_eq | now apply N.eqb_eq]. }
    split; [|exact W].
    split; [now apply ptype_eqb_eq|]. split; [now apply pname_eqb_eq|]. split; [now apply cid_eqb_eq|]. split; [now apply ocid_eqb_eq|].
    split; [now apply Z.eqb_eq|]. split; [now apply Z.eqb_eq | now apply N.eqb_eq].
  - unfold final_single_spec. destruct (ok_pins t) as [|p [|p' rest]] eqn:Ps; try discriminate.
    rewrite !andb_true_iff in H. destruct H as [[[[[[[[D1 D2] D3] D4] D5] D6] D7] D8] D9].
    exists p. split; [reflexivity|]. split; [now apply cid_eqb_eq|]. split; [now apply ptype_eqb_eq|]. split; [now apply pname_eqb_eq|].
    split; [now apply Z.eqb_eq|]. split; [now apply ocid_eqb_eq|]. split; [now apply Z.eqb_eq|]. split; [now apply Z.eqb_eq|].
    split; [now apply N.eqb_eq|]. split.
    + intros Hl. rewrite Hl in D9. apply andb_true_iff in D9. destruct D9 as [E1 E2]. split; [|split].
      * intros x Hx. destruct x as [[c ds] res]. apply In_nth_error in Hx. destruct Hx as [k Hk].
        rewrite forallb_forall in E1. specialize (E1 _ (nth_puts_from t 0 k c ds res Hk)). cbn in E1. now apply listN_eqb_eq in E1.
      * intros Hneg. apply Z.ltb_lt in Hneg. rewrite Hneg in E2. now apply listN_eqb_eq.
      * intros Hneg. apply Z.ltb_nlt in Hneg. rewrite Hneg in E2. destruct (i_stream i); [now apply listN_eqb_eq | now apply olist_eqb_eq].
    + intros Hl. rewrite Hl in D9. exact D9. Qed.

(* ---------- (1) completeness: the model's own result and trace pass every monitor ---------- *)
Lemma subnodes_node ls : subnodes (CNode ls) = CNode ls :: flat_map subnodes ls.
Proof. reflexivity. Qed.

(* every node under the root of a DAG built by makeDAG is one of its nodes, or lies under one of the links *)
Lemma subnodes_dag_root ml l : incl (subnodes (dag_root ml l)) (make_dag ml l ++ flat_map subnodes l).
Proof. unfold dag_root, make_dag. destruct (N.of_nat (length l) <=? ml).
  - rewrite subnodes_node. intros x [<-|Hx]; [now left | apply in_or_app; now right].
  - cbv zeta. rewrite subnodes_node. set (leaves := map _ (seq 0 _)).
    intros x [<-|Hx]; [now left|]. apply in_flat_map in Hx. destruct Hx as [leaf [Hleaf Hx]].
    pose proof Hleaf as Hl2. unfold leaves in Hl2. apply in_map_iff in Hl2. destruct Hl2 as [k [<- _]].
    rewrite subnodes_node in Hx. destruct Hx as [<-|Hx].
    + apply in_or_app. left. right. exact Hleaf.
    + apply in_or_app. right. apply in_flat_map in Hx. destruct Hx as [y [Hy Hx]]. apply in_flat_map. exists y. split; auto.
      apply in_firstn in Hy. revert Hy. generalize (k * N.to_nat ml)%nat. intros n Hy.
      rewrite <- (firstn_skipn n l). apply in_or_app. now right. Qed.

Lemma subnodes_data_links l : flat_map subnodes (map CData l) = [].
Proof. induction l as [|x r IH]; [reflexivity|]. exact IH. Qed.

Lemma map_pcid_shard_pins e xs : forall k prv, map pcid (shard_pins_of e k prv xs) = map (shard_cid e) xs.
Proof. induction xs as [|x r IH]; intros k prv; [reflexivity|]. cbn [shard_pins_of map pcid]. now rewrite IH. Qed.
Lemma shard_pins_factors e xs : forall k prv p, In p (shard_pins_of e k prv xs) -> prmin p = e_rmin e /\ prmax p = e_rmax e.
Proof. induction xs as [|x r IH]; intros k prv p H; [destruct H|]. cbn [shard_pins_of] in H. destruct H as [<-|H]; [split; reflexivity | eapply IH; eauto]. Qed.
Lemma shard_pins_chain e xs : forall k prv, shard_chain k prv (shard_pins_of e k prv xs) = true.
Proof. induction xs as [|x r IH]; intros k prv; [reflexivity|]. cbn [shard_pins_of shard_chain pnm pref pcid].
  rewrite (proj2 (pname_eqb_eq _ _) eq_refl), (proj2 (ocid_eqb_eq _ _) eq_refl), IH. reflexivity. Qed.

Lemma cid_neq_eqb a b : a <> b -> cid_eqb a b = false.
Proof. intros H. destruct (cid_eqb a b) eqn:E; auto. apply cid_eqb_eq in E. contradiction. Qed.

(* every shard pin of a trace whose pins satisfy the sharding invariant passes monitors 12 and 13 *)
Section PinsGood.
Variable i : input.
Hypothesis Hml : 0 < i_maxlinks i.
Variable t : list event.
Hypothesis Hgood : forall q, In q (all_pins t) -> pty q = TShard -> shard_pin_good (env_of i) (i_stream i) q.

Lemma under_limit_complete r : under_limit_okb i r t = true.
Proof. unfold under_limit_okb. destruct (i_shard i); cbn [negb]; [|reflexivity]. cbv zeta. apply forallb_forall. intros q Hq.
  destruct (is_shard_pin q) eqn:S; [|reflexivity]. apply is_shard_pin_iff in S.
  destruct (Hgood q Hq S) as (l & Hc & Hs & Hlim & _). cbn [env_of e_limit e_maxlinks] in *.
  rewrite sum_sizes_F, Hc, flatten_dag_root by exact Hml. apply andb_true_iff. split; [now apply N.ltb_lt | now apply N.eqb_eq]. Qed.

Lemma depth_complete r : depth_okb i r t = true.
Proof. unfold depth_okb. apply forallb_forall. intros q Hq.
  destruct (is_shard_pin q) eqn:S; [|reflexivity]. apply is_shard_pin_iff in S.
  destruct (Hgood q Hq S) as (l & Hc & _ & _ & Hd). cbn [env_of e_limit e_maxlinks] in *.
  apply orb_true_iff. right. rewrite Hc, Hd. apply covers_dag_root. Qed.
End PinsGood.

Lemma wf_pall_good e s t : wf e (Pall e s) 0 0 0 t -> forall q, In q (all_pins t) -> pty q = TShard -> shard_pin_good e s q.
Proof. intros W q Hq Hty. destruct (wf_all_pins _ _ _ _ _ _ _ W Hq) as [ok HP]. now apply HP. Qed.

Section ShardedComplete.
Variable i : input.
Hypothesis Hstrict : strict (i_stream i).
Hypothesis Hml : 0 < i_maxlinks i.
Hypothesis Hsz : sizes_by_cid (i_stream i).
Let e := env_of i.
Let stream := i_stream i.
Let root := i_root i.

Lemma sharded_failure_complete er t : shard_run e stream root = (RErr er, t) -> failure_okb i (RErr er) t = true.
Proof. intros H. unfold failure_okb. cbn [is_ok]. apply forallb_forall. intros p Hp. apply negb_true_iff, cid_neq_eqb.
  apply (failure_no_root_pin_l e stream root Hstrict Hml Hsz er t p H Hp). Qed.

Lemma sharded_delivered_complete c xs t : FinalOk e stream root stream xs t -> wf e (Pall e stream) 0 0 0 t ->
  i_shard i = true -> delivered_okb i (ROk c) t = true.
Proof. intros F W Hs. unfold delivered_okb. cbn [is_ok negb]. cbv zeta. rewrite Hs, data_of_puts_from, (f_data _ _ _ _ _ _ F).
  fold stream. fold e. rewrite dedupF_eq, listN_eqb_refl. cbn [andb].
  apply andb_true_iff. split; [apply andb_true_iff; split|].
  - apply forallb_forall. intros [[cc ds] j] Hx. destruct (puts_from_nth t 0 cc ds j Hx) as [k [res [Hn ->]]]. rewrite N.add_0_l.
    pose proof (wf_puts_nth _ _ _ _ _ _ _ _ _ _ W Hn) as Hr. rewrite N.add_0_l in Hr.
    pose proof (f_putsok _ _ _ _ _ _ F) as Hall. rewrite Forall_forall in Hall. specialize (Hall _ (nth_error_In _ _ Hn)). cbn in Hall.
    destruct res as [sr|]; [|contradiction]. symmetry in Hr. destruct (ba_add_some _ _ _ Hr) as (_ & [d [Hd Hk]] & _).
    apply existsb_exists. exists d. split; auto. fold e. now rewrite Hk.
  - apply andb_true_iff. split.
    + match goal with |- negb ?a || _ = true => destruct a eqn:M; [|reflexivity] end. cbn [negb orb].
      apply memS_set_of. apply in_dedup. now apply memS_set_of.
    + apply forallb_forall. intros b Hb. apply forallb_forall. intros l Hl.
      match goal with |- negb ?a || _ = true => destruct a eqn:M; [|reflexivity] end. cbn [negb orb].
      apply memS_set_of. apply in_dedup. now apply memS_set_of.
  - apply forallb_forall. intros p Hp. rewrite (f_pins _ _ _ _ _ _ F) in Hp.
    assert (Hput : forall n, In n (put_cids t) -> existsb (fun x => cid_eqb n (fst (fst x))) (puts_from 0 t) = true).
    { intros n Hn. apply (puts_from_cids t 0 n) in Hn. destruct Hn as [ds [k Hx]]. apply existsb_exists.
      exists (n, ds, k). split; auto. apply cid_eqb_refl. }
    assert (Hshard : forall x, In x xs -> incl (subnodes (shard_cid e x)) (put_cids t)).
    { intros x Hx n Hn. apply (f_nodes _ _ _ _ _ _ F x Hx). unfold shard_cid in Hn. apply subnodes_dag_root in Hn.
      rewrite subnodes_data_links, app_nil_r in Hn. exact Hn. }
    apply in_app_or in Hp. destruct Hp as [Hp|[<-|[<-|[]]]].
    + destruct (in_shard_pins _ _ _ _ _ Hp) as (x & Hx & Hc & Hty & _). rewrite Hty, Hc.
      apply forallb_forall. intros n Hn. apply Hput. now apply (Hshard x Hx).
    + cbn [cdag_pin pty pcid]. apply forallb_forall. intros n Hn. apply Hput. unfold cdag_cid in Hn.
      apply subnodes_dag_root in Hn. apply in_app_or in Hn. destruct Hn as [Hn|Hn]; [now apply (f_cdag _ _ _ _ _ _ F)|].
      apply in_flat_map in Hn. destruct Hn as [y [Hy Hn]]. apply in_map_iff in Hy. destruct Hy as [x [<- Hx]]. now apply (Hshard x Hx).
    + reflexivity. Qed.

Lemma sharded_partition_complete c xs t : FinalOk e stream root stream xs t -> partition_okb i (ROk c) t = true.
Proof. intros F. unfold partition_okb. cbn [is_ok negb orb]. destruct (i_shard i); cbn [negb]; [|reflexivity]. cbv zeta.
  rewrite (f_pins _ _ _ _ _ _ F), filter_app, shard_pins_all_shard. cbn [filter cdag_pin meta_pin is_shard_pin pty ptype_eqb]. rewrite app_nil_r.
  rewrite shard_pins_flatten by exact Hml. rewrite (f_part _ _ _ _ _ _ F). fold stream. rewrite dedupF_eq, listN_eqb_refl. cbn [andb].
  apply forallb_forall. intros p Hp. apply in_app_or in Hp. destruct Hp as [Hp|[<-|[<-|[]]]].
  - destruct (in_shard_pins _ _ _ _ _ Hp) as (x & _ & _ & Hty & _). now rewrite Hty.
  - cbn [pty pcid]. rewrite map_pcid_shard_pins. apply cid_eqb_refl.
  - reflexivity. Qed.

Lemma sharded_final_complete c xs t : c = CData root -> FinalOk e stream root stream xs t -> i_shard i = true ->
  final_pins_okb i (ROk c) t = true.
Proof. intros -> F Hs. unfold final_pins_okb. cbn [is_ok negb]. cbv zeta. rewrite cid_eqb_refl, Hs. cbn [andb].
  rewrite (f_pins _ _ _ _ _ _ F), filter_app, shard_pins_all_shard. cbn [filter cdag_pin meta_pin is_shard_pin pty ptype_eqb]. rewrite app_nil_r.
  set (SP := shard_pins_of e 0 None xs).
  assert (Sk : skipn (length SP) (SP ++ [cdag_pin e root xs; meta_pin e root xs]) = [cdag_pin e root xs; meta_pin e root xs]).
  { rewrite skipn_app, skipn_all, Nat.sub_diag. reflexivity. }
  unfold cdag_pin, meta_pin in *. rewrite Sk.
  rewrite firstn_app, firstn_all, Nat.sub_diag. cbn [firstn]. rewrite app_nil_r.
  rewrite (proj2 (list_pin_eqb_eq SP SP) eq_refl).
  assert (Hne : negb (Nat.eqb (length SP) 0) = true).
  { pose proof (f_nonempty _ _ _ _ _ _ F) as Hx. unfold SP. destruct xs; [contradiction|reflexivity]. }
  rewrite Hne.
  assert (Hf : forallb (fun p => Z.eqb (prmin p) (i_rmin i) && Z.eqb (prmax p) (i_rmax i)) SP = true).
  { apply forallb_forall. intros p Hp. destruct (shard_pins_factors e xs 0 None p Hp) as [-> ->]. cbn [e env_of e_rmin e_rmax]. now rewrite !Z.eqb_refl. }
  rewrite Hf. unfold SP. rewrite shard_pins_chain. cbn [pty pnm pdepth prmin prmax pref pallocs pssize pcid ptype_eqb pname_eqb andb].
  unfold e, root. cbn [env_of e_limit e_rmin e_rmax Z.eqb Pos.eqb].
  rewrite ?Z.eqb_refl, ?N.eqb_refl, !(proj2 (ocid_eqb_eq _ _) eq_refl), cid_eqb_refl. cbn [listN_eqb list_eqb andb].
  exact (f_walk _ _ _ _ _ _ F). Qed.

Theorem sharded_model_passes_l r t : i_shard i = true -> shard_run e stream root = (r, t) ->
  delivered_okb i r t = true /\ partition_okb i r t = true /\ under_limit_okb i r t = true /\ depth_okb i r t = true /\
  final_pins_okb i r t = true /\ failure_okb i r t = true.
Proof. intros Hs H.
  destruct (shard_run_spec e stream Hml Hsz root stream r t (incl_refl _) Hstrict H) as (W & Herr & Hok).
  pose proof (wf_pall_good e stream t W) as Hgood.
  assert (H12 : under_limit_okb i r t = true) by (apply under_limit_complete; auto).
  assert (H13 : depth_okb i r t = true) by (apply depth_complete; auto).
  destruct r as [c|er].
  - destruct (Hok c eq_refl) as (Hc & xs & F).
    split; [eapply sharded_delivered_complete; eauto|]. split; [eapply sharded_partition_complete; eauto|].
    split; [exact H12|]. split; [exact H13|]. split; [eapply sharded_final_complete; eauto | reflexivity].
  - split; [reflexivity|]. split; [reflexivity|]. split; [exact H12|]. split; [exact H13|]. split; [reflexivity|].
    now apply sharded_failure_complete. Qed.

(* the importer gave up after its last Add: Finalize never runs *)
Theorem sharded_aborted_passes_l r t : shard_run_aborted e stream = (r, t) ->
  delivered_okb i r t = true /\ partition_okb i r t = true /\ under_limit_okb i r t = true /\ depth_okb i r t = true /\
  final_pins_okb i r t = true /\ failure_okb i r t = true.
Proof. intros H. unfold shard_run_aborted, shard_adds in H.
  destruct (add_all (shard_add e) stream sst0) as [oe st1] eqn:Ha.
  destruct (add_all_shard_spec e stream Hml Hsz _ _ _ _ _ _ (Inv0 e stream) (incl_refl _) Hstrict Ha) as (W & _ & _).
  assert (Ht : t = chron (sio st1) /\ is_ok r = false) by (destruct oe; inversion H; subst; split; reflexivity).
  destruct Ht as [-> Hr]. destruct W as [W _].
  assert (Hgood : forall q, In q (all_pins (chron (sio st1))) -> pty q = TShard -> shard_pin_good e stream q).
  { apply wf_pall_good. eapply wf_mono; [apply P_add_Pall|exact W]. }
  unfold delivered_okb, partition_okb, final_pins_okb, failure_okb. rewrite Hr. cbn [negb orb].
  split; [reflexivity|]. split; [reflexivity|]. split; [apply under_limit_complete; auto|]. split; [apply depth_complete; auto|].
  split; [reflexivity|]. apply forallb_forall. intros p Hp. apply negb_true_iff, cid_neq_eqb. apply ok_pins_incl_all in Hp.
  pose proof (wf_P_add_nodes e stream _ _ _ _ W) as HF. rewrite Forall_forall in HF. specialize (HF p Hp).
  intros Hc. rewrite Hc in HF. exact HF. Qed.
End ShardedComplete.

(* ---------- unsharded adds ---------- *)
Section SingleShape.
Variable e : env.

(* where the puts of an unsharded add go: the local daemon only (local=true), else inside the allocation *)
Definition dests_ok (ds D : list N) : Prop := if e_local e then D = [0] else incl D ds.
Definition put_ok (ds : list N) (ev : event) : Prop := match ev with EPut _ D _ => dests_ok ds D | _ => False end.
Definition SInv2 (st : single_st) : Prop :=
  match sd_dests st with
  | None => sd_io st = io0
  | Some ds => e_alloc e 0 = Some ds /\ dests_ok ds (sd_ba st) /\
               exists P, chron (sd_io st) = EAlloc (Some ds) :: P /\ Forall (put_ok ds) P
  end.

Lemma ba_keeps_dests ds D out s : dests_ok ds D -> ba_add out D = Some s -> dests_ok ds s.
Proof. unfold dests_ok. intros HD H. apply ba_add_some in H. destruct H as (Hs & _ & _ & Hincl & Hne).
  destruct (e_local e).
  - subst D. cbn [filter] in Hs. destruct (negb (is_rpc (out 0))); [exact Hs | contradiction].
  - eapply incl_tran; eauto. Qed.

Lemma single_add_inv2 c st st' : SInv2 st -> single_add e c st = (None, st') -> SInv2 st' /\ sd_dests st' <> None.
Proof. unfold SInv2, single_add. intros I H. destruct (sd_dests st) as [ds|] eqn:Eds.
  - destruct I as (Ha0 & Hba & P & HT & HP).
    destruct (do_put e (CData c) (sd_ba st) (sd_io st)) as [[ba'|] s1] eqn:Hp; [|discriminate].
    destruct (do_put_ext e Ptrue _ _ _ _ _ Hp) as [[Hx _] Hr]. injection H as <-. cbn [sd_dests sd_ba sd_io].
    split; [|discriminate]. split; [exact Ha0|]. split; [eapply ba_keeps_dests; eauto|].
    exists (P ++ [EPut (CData c) (sd_ba st) (Some ba')]). split; [rewrite Hx, HT; reflexivity|].
    apply Forall_app. split; [exact HP|]. constructor; [exact Hba|constructor].
  - rewrite I in H. destruct (do_alloc e io0) as [[ds|] s1] eqn:Ha; [|discriminate].
    destruct (do_alloc_ext e Ptrue _ _ _ Ha) as [[Hx _] Hr]. cbn [na io0] in Hr.
    assert (Hok : dests_ok ds (if e_local e then [0] else ds)) by (unfold dests_ok; destruct (e_local e); [reflexivity|apply incl_refl]).
    destruct (do_put e (CData c) (if e_local e then [0] else ds) s1) as [[ba'|] s2] eqn:Hp; [|discriminate].
    destruct (do_put_ext e Ptrue _ _ _ _ _ Hp) as [[Hx2 _] Hr2]. injection H as <-. cbn [sd_dests sd_ba sd_io].
    split; [|discriminate]. split; [now symmetry|]. split; [eapply ba_keeps_dests; eauto|].
    exists [EPut (CData c) (if e_local e then [0] else ds) (Some ba')]. split; [rewrite Hx2, Hx; reflexivity|].
    constructor; [exact Hok|constructor]. Qed.

Lemma add_all_inv2 bs : forall st st', (forall b, In b bs -> bswallow b = false) -> SInv2 st ->
  add_all (fun b => single_add e (bcid b)) bs st = (None, st') ->
  SInv2 st' /\ (sd_dests st <> None \/ bs <> [] -> sd_dests st' <> None).
Proof. induction bs as [|b r IH]; intros st st' Hsw I H; cbn [add_all] in H.
  - injection H as <-. split; auto. intros [A|A]; [exact A|congruence].
  - destruct (single_add e (bcid b) st) as [[er|] st1] eqn:Ha.
    + rewrite (Hsw b (or_introl eq_refl)) in H. discriminate.
    + destruct (single_add_inv2 _ _ _ I Ha) as [I1 N1].
      destruct (IH st1 st' (fun x Hx => Hsw x (or_intror Hx)) I1 H) as [I' N']. split; auto. Qed.

(* the trace of a successful unsharded add *)
Theorem single_shape stream root c t : (forall b, In b stream -> bswallow b = false) ->
  single_run e stream root = (ROk c, t) ->
  c = CData root /\
  ((stream = [] /\ t = [EPin (single_pin e root []) true]) \/
   (stream <> [] /\ exists ds P, e_alloc e 0 = Some ds /\ Forall (put_ok ds) P /\
                               t = EAlloc (Some ds) :: P ++ [EPin (single_pin e root ds) true])).
Proof. intros Hsw H. unfold single_run, single_adds in H.
  destruct (add_all (fun b => single_add e (bcid b)) stream (mksingle None [] io0)) as [[er|] st1] eqn:Ha; [discriminate|].
  assert (I0 : SInv2 (mksingle None [] io0)) by reflexivity.
  destruct (add_all_inv2 stream _ _ Hsw I0 Ha) as [I1 N1]. cbn [sd_dests] in N1.
  unfold single_finalize in H.
  set (al := match sd_dests st1 with Some ds => ds | None => [] end) in *.
  set (p := mkpin (CData root) TData NBase al (-1)%Z None (e_rmin e) (e_rmax e) (e_limit e)) in *.
  assert (Hc : clear_allocs p = single_pin e root al)
    by (unfold clear_allocs, p, single_pin; cbn [prmin]; destruct (e_rmin e <? 0)%Z; reflexivity).
  destruct (do_pin e p (sd_io st1)) as [ok s2] eqn:Hpin.
  pose proof (do_pin_ext e Ptrue _ _ _ _ Hpin I) as [HT _]. rewrite Hc in HT.
  destruct ok; [|discriminate]. injection H as <- <-. split; [reflexivity|]. cbn [sd_io]. fold (chron s2). rewrite HT.
  destruct stream as [|b0 rest].
  - left. split; [reflexivity|]. cbn [add_all] in Ha. injection Ha as <-. reflexivity.
  - right. split; [discriminate|]. unfold SInv2 in I1. unfold al.
    destruct (sd_dests st1) as [ds|]; [|exfalso; apply N1; [right; discriminate | reflexivity]].
    destruct I1 as (Ha0 & _ & P & HP & HF). exists ds, P. split; [exact Ha0|]. split; [exact HF|]. now rewrite HP. Qed.

(* every pin call of an unsharded add is the data pin of the root *)
Lemma single_all_pins_data stream root r t : (forall b, In b stream -> bswallow b = false) ->
  single_run e stream root = (r, t) -> forall q, In q (all_pins t) -> pty q = TData.
Proof. intros Hsw H. unfold single_run, single_adds in H.
  assert (I0 : SInv e [] (mksingle None [] io0)).
  { constructor; try reflexivity; [constructor|unfold WfS; simpl; tauto|simpl; tauto]. }
  destruct (add_all (fun b => single_add e (bcid b)) stream (mksingle None [] io0)) as [[er|] st1] eqn:Ha;
    destruct (add_all_single_spec e _ _ _ _ _ I0 Hsw Ha) as (_ & Hn & _ & _).
  - injection H as <- <-. fold (chron (sd_io st1)). rewrite Hn. intros q [].
  - unfold single_finalize in H.
    set (p := mkpin (CData root) TData NBase _ (-1)%Z None (e_rmin e) (e_rmax e) (e_limit e)) in *.
    destruct (do_pin e p (sd_io st1)) as [ok s2] eqn:Hpin.
    pose proof (do_pin_ext e Ptrue _ _ _ _ Hpin I) as [HT _].
    assert (Et : t = chron s2) by (destruct ok; injection H as <- <-; reflexivity). rewrite Et, HT, all_pins_app, Hn.
    intros q [<-|[]]. unfold clear_allocs. destruct (prmin p <? 0)%Z; reflexivity. Qed.
End SingleShape.

Section SingleComplete.
Variable i : input.
Hypothesis Hstrict : strict (i_stream i).
Hypothesis Hns : i_shard i = false.

Lemma single_depth_complete r t : (forall q, In q (all_pins t) -> pty q = TData) -> depth_okb i r t = true.
Proof. intros Hd. unfold depth_okb. apply forallb_forall. intros q Hq. unfold is_shard_pin. now rewrite (Hd q Hq). Qed.

Lemma walk_put_ok ew ds P : e_local (env_of i) = false -> Forall (put_ok (env_of i) ds) P ->
  allocs_walk ew ds P = true /\ walk_cur ds P = ds.
Proof. intros Hl HP. apply (only_puts_walk ew ds ds); [|apply incl_refl].
  eapply Forall_impl; [|exact HP]. intros ev Hev. destruct ev; try contradiction. unfold put_ok, dests_ok in Hev. now rewrite Hl in Hev. Qed.

Theorem single_model_passes_l r t : single_run (env_of i) (i_stream i) (i_root i) = (r, t) ->
  delivered_okb i r t = true /\ partition_okb i r t = true /\ under_limit_okb i r t = true /\ depth_okb i r t = true /\
  final_pins_okb i r t = true /\ failure_okb i r t = true.
Proof. intros H. set (e := env_of i) in *.
  assert (H11 : partition_okb i r t = true) by (unfold partition_okb; rewrite Hns; cbn [negb]; now rewrite orb_true_r).
  assert (H12 : under_limit_okb i r t = true) by (unfold under_limit_okb; now rewrite Hns).
  assert (H13 : depth_okb i r t = true) by (apply single_depth_complete; eapply single_all_pins_data; eauto).
  destruct r as [c|er].
  - destruct (delivered_equals_produced_single_l e _ _ Hstrict c t H) as [Hd Hp].
    destruct (single_shape e _ _ c t Hstrict H) as [Hc Hshape].
    split; [|split; [exact H11|split; [exact H12|split; [exact H13|split; [|reflexivity]]]]].
    + unfold delivered_okb. cbn [is_ok negb]. cbv zeta. rewrite Hns, data_of_puts_from, Hd, listN_eqb_refl. cbn [andb]. rewrite andb_true_r.
      apply andb_true_iff. split.
      * apply forallb_forall. intros [[cc ds] j] Hx. destruct (puts_from_nth t 0 cc ds j Hx) as [k [res [Hn ->]]]. rewrite N.add_0_l.
        destruct (Hp k cc ds res Hn) as [d [Hd1 Hd2]]. apply existsb_exists. exists d. split; auto. fold e. now rewrite Hd2.
      * apply andb_true_iff. split.
        -- match goal with |- negb ?a || _ = true => destruct a eqn:M; [|reflexivity] end. reflexivity.
        -- apply forallb_forall. intros b Hb. apply forallb_forall. intros l Hl.
           match goal with |- negb ?a || _ = true => destruct a eqn:M; [|reflexivity] end. reflexivity.
    + unfold final_pins_okb. cbn [is_ok negb]. cbv zeta. rewrite Hc, cid_eqb_refl, Hns. cbn [andb].
      assert (Hpin : forall al, let p := single_pin e (i_root i) al in
                cid_eqb (pcid p) (CData (i_root i)) && ptype_eqb (pty p) TData && pname_eqb (pnm p) NBase && Z.eqb (pdepth p) (-1)
                && ocid_eqb (pref p) None && Z.eqb (prmin p) (i_rmin i) && Z.eqb (prmax p) (i_rmax i) && N.eqb (pssize p) (i_limit i) = true).
      { intros al. cbv zeta. cbn [single_pin pcid pty pnm pdepth pref prmin prmax pssize ptype_eqb pname_eqb ocid_eqb Z.eqb Pos.eqb].
        unfold e. cbn [env_of e_rmin e_rmax e_limit]. now rewrite cid_eqb_refl, !Z.eqb_refl, N.eqb_refl. }
      destruct Hshape as [[Hnil ->]|[Hne [ds [P [Ha0 [HP ->]]]]]].
      * cbn [ok_pins flat_map app]. specialize (Hpin []). cbv zeta in Hpin. rewrite Hpin. cbn [andb puts_from forallb].
        rewrite Hnil. cbn [single_pin pallocs pty allocs_walk].
        destruct (i_local i); destruct (e_rmin e <? 0)%Z eqn:Ew; unfold e in Ew; cbn [env_of e_rmin] in Ew; rewrite ?Ew; reflexivity.
      * assert (Eok : ok_pins (EAlloc (Some ds) :: P ++ [EPin (single_pin e (i_root i) ds) true]) = [single_pin e (i_root i) ds]).
        { cbn [ok_pins flat_map app]. fold (ok_pins (P ++ [EPin (single_pin e (i_root i) ds) true])). rewrite ok_pins_app.
          replace (ok_pins P) with (@nil pin); [reflexivity|]. symmetry. clear -HP. induction HP as [|ev r Hev _ IH]; [reflexivity|].
          destruct ev; try contradiction. exact IH. }
        rewrite Eok. specialize (Hpin ds). cbv zeta in Hpin. rewrite Hpin. cbn [andb].
        destruct (i_local i) eqn:Hl.
        -- apply andb_true_iff. split.
           ++ apply forallb_forall. intros [[cc D] j] Hx. cbn [fst snd]. cbn [puts_from] in Hx.
              destruct (puts_from_nth _ _ _ _ _ Hx) as [k [res [Hn _]]]. apply nth_error_In in Hn. rewrite puts_app in Hn. cbn [puts flat_map app] in Hn.
              rewrite app_nil_r in Hn. clear -HP Hn Hl. induction HP as [|ev r Hev _ IH]; [destruct Hn|].
              destruct ev as [a|c' D' res'|q ok]; try contradiction. cbn [puts flat_map app] in Hn. destruct Hn as [Hn|Hn]; [|auto].
              injection Hn as <- <- <-. unfold put_ok, dests_ok in Hev. unfold e in Hev. cbn [env_of e_local] in Hev. rewrite Hl in Hev. rewrite Hev. reflexivity.
           ++ cbn [single_pin pallocs]. unfold e in *. cbn [env_of e_rmin e_alloc] in *. destruct (i_rmin i <? 0)%Z; [reflexivity|].
              destruct (i_stream i); [contradiction|]. rewrite Ha0. apply olist_eqb_eq. reflexivity.
        -- cbn [allocs_walk]. assert (Hl' : e_local (env_of i) = false) by exact Hl.
           rewrite allocs_walk_app. destruct (walk_put_ok (i_rmin i <? 0)%Z ds P Hl' HP) as [W1 W2]. rewrite W1, W2.
           cbn [allocs_walk andb single_pin pty pallocs]. unfold e. cbn [env_of e_rmin]. destruct (i_rmin i <? 0)%Z; now rewrite listN_eqb_refl.
  - split; [reflexivity|]. split; [exact H11|]. split; [exact H12|]. split; [exact H13|]. split; [reflexivity|].
    unfold failure_okb. cbn [is_ok]. rewrite (failure_no_root_pin_single_l e _ _ Hstrict er t H). reflexivity. Qed.

Theorem single_aborted_passes_l r t : single_run_aborted (env_of i) (i_stream i) = (r, t) ->
  delivered_okb i r t = true /\ partition_okb i r t = true /\ under_limit_okb i r t = true /\ depth_okb i r t = true /\
  final_pins_okb i r t = true /\ failure_okb i r t = true.
Proof. intros H. unfold single_run_aborted, single_adds in H. set (e := env_of i) in *.
  assert (I0 : SInv e [] (mksingle None [] io0)).
  { constructor; try reflexivity; [constructor|unfold WfS; simpl; tauto|simpl; tauto]. }
  destruct (add_all (fun b => single_add e (bcid b)) (i_stream i) (mksingle None [] io0)) as [oe st1] eqn:Ha.
  destruct (add_all_single_spec e _ _ _ _ _ I0 Hstrict Ha) as (_ & Hn & _ & _).
  assert (Ht : t = chron (sd_io st1) /\ is_ok r = false) by (destruct oe; inversion H; subst; split; reflexivity).
  destruct Ht as [-> Hr]. unfold delivered_okb, partition_okb, under_limit_okb, final_pins_okb, failure_okb. rewrite Hr, Hns. cbn [negb orb].
  split; [reflexivity|]. split; [reflexivity|]. split; [reflexivity|].
  split; [apply single_depth_complete; rewrite Hn; intros q []|]. split; [reflexivity|].
  rewrite (all_pins_nil_ok _ Hn). reflexivity. Qed.
End SingleComplete.

(* ---------- every input ---------- *)
Theorem model_passes_monitors_l i : strict (i_stream i) -> (i_shard i = true -> 0 < i_maxlinks i /\ sizes_by_cid (i_stream i)) ->
  let '(r, t) := run i in
  delivered_okb i r t = true /\ partition_okb i r t = true /\ under_limit_okb i r t = true /\ depth_okb i r t = true /\
  final_pins_okb i r t = true /\ failure_okb i r t = true.
Proof. intros Hstrict Hsh. destruct (run i) as [r t] eqn:H. unfold run in H.
  destruct (i_abort i); destruct (i_shard i) eqn:Hs.
  - destruct (Hsh eq_refl) as [A B]. now apply sharded_aborted_passes_l.
  - now apply single_aborted_passes_l.
  - destruct (Hsh eq_refl) as [A B]. now apply sharded_model_passes_l.
  - now apply single_model_passes_l. Qed.
