(* C16 — the run-time monitors of Model/C16_Check.v (spec_fails: codes 10 success sound, 11 already pinned -> only the pin/ls,
   12 update discipline and frame, 13 failure reported as error, 14 stall gives error, 15 unpin of unpinned is success,
   16 swarm/connect bound), tied to the model and to Prop-level statements, for every operation, pin, prior daemon table and
   behaviour script (no bound):
   (1) completeness: the model's own run raises no code, except code 14 in the shape of the carried finding (a pin/update the
       daemon never answers), which then carries tag 1;
   (2) soundness of the codes Proofs/C16_Connector.v (PinSpec, UnpinSpec) does not cover: 11, 12, 15, the disabled-unpin clause,
       the unpin stall clause and the three PinLsCid clauses. *)
From V Require Import Base.Common Base.CommonLemmas Model.C16_Connector Model.C16_Check Proofs.C16_Connector.
Open Scope Z_scope.

(* ---------- equalities ---------- *)
Lemma optmode_eqb_refl a : optmode_eqb a a = true. Proof. now apply optmode_eqb_eq. Qed.
Lemma result_eqb_refl a : result_eqb a a = true. Proof. now apply result_eqb_eq. Qed.
Lemma status_eqb_eq a b : status_eqb a b = true <-> a = b.
Proof. destruct a, b; cbn; split; intro H; congruence. Qed.
Lemma status_eqb_refl a : status_eqb a a = true. Proof. now apply status_eqb_eq. Qed.
Lemma optZ_eqb_eq a b : optZ_eqb a b = true <-> a = b.
Proof. destruct a, b; cbn; split; intro H; try discriminate; auto; [apply Z.eqb_eq in H; now subst|injection H as ->; apply Z.eqb_refl]. Qed.
Lemma call_eqb_eq a b : call_eqb a b = true <-> a = b.
Proof. destruct a as [c t|c r m p|f t u|c|], b as [c' t'|c' r' m' p'|f' t' u'|c'|]; cbn; try (split; intro H; discriminate); try tauto.
  - rewrite andb_true_iff, N.eqb_eq, pmode_eqb_eq. split; [intros [-> ->]; reflexivity|intros H; injection H; auto].
  - rewrite !andb_true_iff, N.eqb_eq, !Bool.eqb_true_iff, optZ_eqb_eq. split; [intros [[[-> ->] ->] ->]; reflexivity|intros H; injection H; auto].
  - rewrite !andb_true_iff, !N.eqb_eq, Bool.eqb_true_iff. split; [intros [[-> ->] ->]; reflexivity|intros H; injection H; auto].
  - rewrite N.eqb_eq. split; [intros ->; reflexivity|intros H; injection H; auto]. Qed.
Lemma calls_eqb_eq a b : list_eqb call_eqb a b = true <-> a = b.
Proof. revert b. induction a as [|x r IH]; intros [|y s]; cbn [list_eqb]; try (split; intro H; discriminate); [tauto|].
  rewrite andb_true_iff, call_eqb_eq, IH. split; [intros [-> ->]; reflexivity|intros H; injection H; auto]. Qed.
Lemma calls_eqb_refl a : list_eqb call_eqb a a = true. Proof. now apply calls_eqb_eq. Qed.

Lemma optN_eqb_eq' a b : optN_eqb a b = true -> a = b.
Proof. destruct a, b; cbn; try discriminate; auto. intros H. apply N.eqb_eq in H. now subst. Qed.
Lemma optN_eqb_refl' a : optN_eqb a a = true.
Proof. destruct a; cbn; auto. apply N.eqb_refl. Qed.

Lemma aget_notin_keys {V} k (m : list (N * V)) : ~ In k (akeys m) -> aget k m = None.
Proof. unfold akeys. induction m as [|[k' v] r IH]; intros H; [reflexivity|]. cbn [aget]. cbn [map fst In] in H.
  destruct (N.eqb_spec k k'); [exfalso; apply H; left; congruence|]. apply IH. tauto. Qed.

(* two daemon tables the comparison identifies hold the same pins *)
Lemma daemon_eqb_sound a b : daemon_eqb a b = true -> forall k, aget k a = aget k b.
Proof. unfold daemon_eqb. rewrite forallb_forall. intros H k.
  destruct (in_dec N.eq_dec k (akeys a ++ akeys b)) as [Hin|Hn].
  - now apply optmode_eqb_eq, H.
  - rewrite !aget_notin_keys; auto; intros X; apply Hn; apply in_or_app; auto. Qed.
Lemma daemon_eqb_of a b : (forall k, aget k a = aget k b) -> daemon_eqb a b = true.
Proof. intros H. unfold daemon_eqb. apply forallb_forall. intros k _. rewrite H. apply optmode_eqb_refl. Qed.
Lemma daemon_eqb_refl a : daemon_eqb a a = true. Proof. now apply daemon_eqb_of. Qed.

Lemma frame_sound c d d' : forallb (fun k => N.eqb k c || optmode_eqb (aget k d) (aget k d')) (akeys d ++ akeys d') = true ->
  forall k, k <> c -> aget k d = aget k d'.
Proof. rewrite forallb_forall. intros H k Hk.
  destruct (in_dec N.eq_dec k (akeys d ++ akeys d')) as [Hin|Hn].
  - specialize (H k Hin). apply orb_true_iff in H. destruct H as [H|H]; [apply N.eqb_eq in H; contradiction|now apply optmode_eqb_eq].
  - rewrite !aget_notin_keys; auto; intros X; apply Hn; apply in_or_app; auto. Qed.
Lemma frame_of c d d' : (forall k, k <> c -> aget k d' = aget k d) ->
  forallb (fun k => N.eqb k c || optmode_eqb (aget k d) (aget k d')) (akeys d ++ akeys d') = true.
Proof. intros H. apply forallb_forall. intros k _. destruct (N.eqb_spec k c); [reflexivity|]. cbn [orb]. rewrite H by assumption.
  apply optmode_eqb_refl. Qed.

(* ================================================================== *)
(* soundness of the codes not covered by PinSpec / UnpinSpec            *)
(* ================================================================== *)
Definition same_table (d d' : daemon) : Prop := forall k, aget k d = aget k d'.

(* pin: codes 11 and 12 *)
Definition PinSpec2 (p : pinreq) (d : daemon) (s : script) (ob : obs) : Prop :=
  let '(Obs r st d' reqs nconn) := ob in
  let c := p_cid p in
  (* already pinned as asked, daemon well behaved: success with exactly the one pin/ls, no swarm connect, table untouched *)
  (aget c d = Some (mode_of (p_depth p)) -> head_ok s = true ->
     r = ROk /\ reqs = [CLs c (to_pin_mode (p_depth p))] /\ nconn = 0%N /\ same_table d d') /\
  (* pin/update only for this pin's source and CID, unpin=false, the source recursively pinned before and after *)
  (forall f t u, In (CUpdate f t u) reqs ->
     u = false /\ t = c /\ aget f d = Some Rec /\ aget f d' = Some Rec /\ p_update p = Some f) /\
  (* no other CID of the daemon is touched *)
  (forall k, k <> c -> aget k d = aget k d').

Lemma spec_pin_sound2 p d s ob : (forall x, In x (spec_fails (OpPin p) d s ob) -> x <> 11%N /\ x <> 12%N) -> PinSpec2 p d s ob.
Proof. destruct ob as [r st d' reqs nconn]. unfold spec_fails, PinSpec2. cbv zeta. intros H. split; [|split].
  - intros Hc Hs. rewrite Hc, optmode_eqb_refl, Hs in H. cbn [andb] in H.
    destruct (result_eqb r ROk && list_eqb call_eqb reqs [CLs (p_cid p) (to_pin_mode (p_depth p))] && (nconn =? 0)%N && daemon_eqb d d') eqn:E.
    + rewrite !andb_true_iff in E. destruct E as [[[E1 E2] E3] E4]. apply result_eqb_eq in E1. apply calls_eqb_eq in E2. apply N.eqb_eq in E3.
      repeat split; auto. intros k. now apply daemon_eqb_sound.
    + exfalso. destruct (H 11%N) as [A _]; [|now apply A]. apply in_or_app. right. apply in_or_app. left. now left.
  - match type of H with context [if ?b then [] else [12%N]] => destruct b eqn:E end.
    + apply andb_true_iff in E. destruct E as [E1 _]. rewrite forallb_forall in E1. intros f t u Hin. specialize (E1 _ Hin). cbv beta iota in E1.
      rewrite !andb_true_iff in E1. destruct E1 as [[[[A B] C] D] F]. apply negb_true_iff in A. apply N.eqb_eq in B.
      apply optmode_eqb_eq in C, D. apply optN_eqb_eq' in F. auto.
    + exfalso. destruct (H 12%N) as [_ A]; [|now apply A]. apply in_or_app. right. apply in_or_app. right. apply in_or_app. left. now left.
  - match type of H with context [if ?b then [] else [12%N]] => destruct b eqn:E end.
    + apply andb_true_iff in E. destruct E as [_ E2]. now apply frame_sound.
    + exfalso. destruct (H 12%N) as [_ A]; [|now apply A]. apply in_or_app. right. apply in_or_app. right. apply in_or_app. left. now left. Qed.

(* unpin: the disabled clause (13), the stall clause (14), unpin of an unpinned CID (15), the frame (12) *)
Definition UnpinSpec2 (c : N) (dis : bool) (d : daemon) (s : script) (ob : obs) : Prop :=
  let '(Obs r st d' reqs nconn) := ob in
  (dis = true -> r = RErr /\ reqs = [] /\ same_table d d') /\
  (forall pre cl, replay d reqs s = pre ++ [(cl, PStall)] -> r = RErr) /\
  (dis = false -> aget c d = None -> head_ok s = true -> r = ROk /\ reqs = [CRm c] /\ same_table d d') /\
  (forall k, k <> c -> aget k d = aget k d').

Lemma spec_unpin_sound2 c dis d s ob : spec_fails (OpUnpin c dis) d s ob = [] -> UnpinSpec2 c dis d s ob.
Proof. destruct ob as [r st d' reqs nconn]. unfold spec_fails, UnpinSpec2. intros H.
  apply app_eq_nil in H as [_ H]. apply app_eq_nil in H as [Hd H]. apply app_eq_nil in H as [_ H].
  apply app_eq_nil in H as [H14 H]. apply app_eq_nil in H as [H15 H12].
  split; [|split; [|split]].
  - intros ->. destruct (result_eqb r RErr && match reqs with [] => true | _ => false end && daemon_eqb d d') eqn:E; [|discriminate].
    rewrite !andb_true_iff in E. destruct E as [[E1 E2] E3]. apply result_eqb_eq in E1. destruct reqs; [|discriminate].
    repeat split; auto. intros k. now apply daemon_eqb_sound.
  - intros pre cl Hx. rewrite Hx in H14. rewrite last_failed_snoc, rev_app_distr in H14. cbn in H14.
    destruct (result_eqb r RErr) eqn:E; [now apply result_eqb_eq|discriminate].
  - intros -> Hc Hs. rewrite Hc, Hs in H15. cbn [negb optmode_eqb andb] in H15.
    destruct (result_eqb r ROk && list_eqb call_eqb reqs [CRm c] && daemon_eqb d d') eqn:E; [|discriminate].
    rewrite !andb_true_iff in E. destruct E as [[E1 E2] E3]. apply result_eqb_eq in E1. apply calls_eqb_eq in E2.
    repeat split; auto. intros k. now apply daemon_eqb_sound.
  - match type of H12 with (if ?b then _ else _) = _ => destruct b eqn:E end; [|discriminate]. now apply frame_sound. Qed.

(* PinLsCid: against a well-behaved daemon the answer is the truth about (c, mode asked); the table never changes *)
Definition LsSpec (c : N) (depth : Z) (d : daemon) (s : script) (ob : obs) : Prop :=
  let '(Obs r st d' reqs nconn) := ob in
  (head_ok s = true -> r = ROk /\
     st = (if optmode_eqb (aget c d) (Some (to_pin_mode depth)) then status_of_mode (to_pin_mode depth) else StUnpinned)) /\
  same_table d d'.

Lemma spec_ls_sound c depth d s ob : spec_fails (OpLs c depth) d s ob = [] -> LsSpec c depth d s ob.
Proof. destruct ob as [r st d' reqs nconn]. unfold spec_fails, LsSpec. intros H. apply app_eq_nil in H as [H10 H12]. split.
  - intros Hs. rewrite Hs in H10.
    match type of H10 with (if ?b then _ else _) = _ => destruct b eqn:E end; [|discriminate].
    apply andb_true_iff in E. destruct E as [E1 E2]. apply result_eqb_eq in E1. apply status_eqb_eq in E2. auto.
  - destruct (daemon_eqb d d') eqn:E; [|discriminate]. intros k. now apply daemon_eqb_sound. Qed.

(* ================================================================== *)
(* completeness: the model's own run                                   *)
(* ================================================================== *)
(* the model's observation of an operation; the number of swarm/connect requests is not modelled (fire and forget): any
   number within the bound, and none when the first pin/ls already answers "pinned as asked" (Pin returns before connecting) *)
Definition model_obs (o : op) (d : daemon) (s : script) (nconn : N) : obs :=
  let '(r, st, d', x) := run_model o d s in Obs r st d' (requests x) nconn.

Definition nconn_ok (o : op) (d : daemon) (s : script) (nconn : N) : Prop :=
  match o with
  | OpPin p => (nconn <= min10 (p_origins p))%N /\
               (aget (p_cid p) d = Some (mode_of (p_depth p)) -> head_ok s = true -> nconn = 0%N)
  | _ => True
  end.

Lemma replay_unpin dis c d s r d' x : conn_unpin dis c d s = (r, d', x) -> replay d (requests x) s = x.
Proof. unfold conn_unpin. destruct dis; intros H; inversion H; subst; [reflexivity|]. unfold requests. cbn [map fst replay].
  destruct (pop s) as [b s']. cbn [fst snd]. destruct (serve d (CRm c) b); reflexivity. Qed.

Lemma pin_passes p d s nconn : nconn_ok (OpPin p) d s nconn ->
  forall code, In code (spec_fails (OpPin p) d s (model_obs (OpPin p) d s nconn)) ->
    code = 14%N /\ tag_of (OpPin p) d s (model_obs (OpPin p) d s nconn) = 1%N.
Proof. intros [Hn Hn0]. unfold model_obs, run_model. destruct (conn_pin p d s) as [[r d'] x] eqn:E.
  unfold spec_fails, tag_of. rewrite (replay_pin p d s r d' x E). cbv zeta.
  (* code 10 *)
  assert (C10 : (if result_eqb r ROk && update_consistent p && negb (optmode_eqb (aget (p_cid p) d') (Some (mode_of (p_depth p)))) then [10%N] else []) = []).
  { destruct (result_eqb r ROk) eqn:R; [|reflexivity]. destruct (update_consistent p) eqn:U; [|reflexivity]. apply result_eqb_eq in R. subst r.
    rewrite (pin_success_sound_l p d s d' x U E), optmode_eqb_refl. reflexivity. }
  (* code 11 *)
  assert (C11 : (if optmode_eqb (aget (p_cid p) d) (Some (mode_of (p_depth p))) && head_ok s
                 then (if result_eqb r ROk && list_eqb call_eqb (requests x) [CLs (p_cid p) (to_pin_mode (p_depth p))] && (nconn =? 0)%N && daemon_eqb d d' then [] else [11%N])
                 else []) = []).
  { destruct (optmode_eqb (aget (p_cid p) d) (Some (mode_of (p_depth p)))) eqn:A; [|reflexivity]. destruct (head_ok s) eqn:Hs; [|reflexivity].
    apply optmode_eqb_eq in A. rewrite (already_pinned_l p d s A Hs) in E. inversion E; subst. cbn [andb requests map fst].
    rewrite result_eqb_refl, calls_eqb_refl, (Hn0 A eq_refl), daemon_eqb_refl. reflexivity. }
  (* code 12 *)
  assert (C12 : (if forallb (fun cl => match cl with
                                | CUpdate f t u => negb u && N.eqb t (p_cid p) && optmode_eqb (aget f d) (Some Rec)
                                                   && optmode_eqb (aget f d') (Some Rec) && optN_eqb (p_update p) (Some f)
                                | _ => true end) (requests x)
                    && forallb (fun k => N.eqb k (p_cid p) || optmode_eqb (aget k d) (aget k d')) (akeys d ++ akeys d')
                 then [] else [12%N]) = []).
  { assert (F1 : forallb (fun cl => match cl with
                                | CUpdate f t u => negb u && N.eqb t (p_cid p) && optmode_eqb (aget f d) (Some Rec)
                                                   && optmode_eqb (aget f d') (Some Rec) && optN_eqb (p_update p) (Some f)
                                | _ => true end) (requests x) = true).
    { apply forallb_forall. intros cl Hin. destruct cl as [| |f t u| |]; auto.
      destruct (update_only_l p d s r d' x f t u E Hin) as [A [-> [-> B]]]. rewrite (update_keeps_l p d s r d' x f (p_cid p) false E Hin), A, B.
      now rewrite N.eqb_refl, !optmode_eqb_refl, optN_eqb_refl'. }
    rewrite F1, (frame_of (p_cid p) d d'); [reflexivity|]. intros k Hk. exact (pin_frame_l p d s r d' x k E Hk). }
  (* code 13 *)
  assert (C13 : (if last_failed x && result_eqb r ROk then [13%N] else []) = []).
  { destruct (last_failed x) eqn:L; [|reflexivity]. destruct (pin_failure_l p d s r d' x E L) as [->|[-> _]]; reflexivity. }
  (* code 16 *)
  assert (C16 : (if (nconn <=? min10 (p_origins p))%N then [] else [16%N]) = []) by (apply N.leb_le in Hn; now rewrite Hn).
  rewrite C10, C11, C12, C13, C16. cbn [app]. rewrite app_nil_r.
  (* code 14: only in the shape of the finding *)
  intros code Hin. destruct (last_failed x) eqn:L; [|destruct Hin]. cbn [andb] in Hin.
  destruct (pin_failure_l p d s r d' x E L) as [->|[-> St]].
  - cbn [result_eqb negb] in Hin. rewrite andb_false_r in Hin. destruct Hin.
  - rewrite St. destruct (match rev x with (_, PStall) :: _ => true | _ => false end); [|destruct Hin]. destruct Hin as [<-|[]]. auto. Qed.

Lemma unpin_passes c dis d s nconn : spec_fails (OpUnpin c dis) d s (model_obs (OpUnpin c dis) d s nconn) = [].
Proof. unfold model_obs, run_model. destruct (conn_unpin dis c d s) as [[r d'] x] eqn:E. unfold spec_fails.
  rewrite (replay_unpin dis c d s r d' x E).
  assert (C10 : (if result_eqb r ROk && honest_rm c d s && negb (optmode_eqb (aget c d') None) then [10%N] else []) = []).
  { destruct (result_eqb r ROk) eqn:R; [|reflexivity]. destruct (honest_rm c d s) eqn:Hh; [|reflexivity]. apply result_eqb_eq in R. subst r.
    destruct dis; [rewrite unpin_disabled_l in E; discriminate|]. rewrite (unpin_success_sound_l c d s d' x E Hh). reflexivity. }
  assert (Cd : (if dis then (if result_eqb r RErr && match requests x with [] => true | _ => false end && daemon_eqb d d' then [] else [13%N]) else []) = []).
  { destruct dis; [|reflexivity]. rewrite unpin_disabled_l in E. inversion E; subst. cbn. now rewrite daemon_eqb_refl. }
  assert (C13 : (if last_failed x && result_eqb r ROk then [13%N] else []) = []).
  { destruct (last_failed x) eqn:L; [|reflexivity]. now rewrite (unpin_failure_l dis c d s r d' x E L). }
  assert (C14 : (if last_failed x && match rev x with (_, PStall) :: _ => true | _ => false end && negb (result_eqb r RErr) then [14%N] else []) = []).
  { destruct (last_failed x) eqn:L; [|reflexivity]. rewrite (unpin_failure_l dis c d s r d' x E L). cbn. now rewrite andb_false_r. }
  assert (C15 : (if negb dis && optmode_eqb (aget c d) None && head_ok s
                 then (if result_eqb r ROk && list_eqb call_eqb (requests x) [CRm c] && daemon_eqb d d' then [] else [15%N]) else []) = []).
  { destruct dis; [reflexivity|]. cbn [negb andb]. destruct (optmode_eqb (aget c d) None) eqn:A; [|reflexivity]. destruct (head_ok s) eqn:Hs; [|reflexivity].
    apply optmode_eqb_eq in A. rewrite (unpin_not_pinned_l c d s A Hs) in E. inversion E; subst. cbn [andb requests map fst].
    now rewrite result_eqb_refl, calls_eqb_refl, daemon_eqb_refl. }
  assert (C12 : (if forallb (fun k => N.eqb k c || optmode_eqb (aget k d) (aget k d')) (akeys d ++ akeys d') then [] else [12%N]) = []).
  { rewrite (frame_of c d d'); [reflexivity|]. intros k Hk. exact (unpin_frame_l dis c d s r d' x k E Hk). }
  now rewrite C10, Cd, C13, C14, C15, C12. Qed.

Lemma ls_passes c depth d s nconn : spec_fails (OpLs c depth) d s (model_obs (OpLs c depth) d s nconn) = [].
Proof. unfold model_obs, run_model. destruct (pin_ls_cid c depth d s) as [[[st d'] s'] x] eqn:E. unfold spec_fails.
  assert (Ed : d' = d).
  { unfold pin_ls_cid in E. cbv beta iota zeta in E. rewrite serve_ls_fst in E. now inversion E. }
  subst d'. rewrite daemon_eqb_refl, app_nil_r. destruct (head_ok s) eqn:Hs; [|reflexivity].
  destruct (pin_ls_truthful_l c depth d s Hs) as [T _]. rewrite E in T. cbn [fst] in T. rewrite T.
  destruct (optmode_eqb (aget c d) (Some (to_pin_mode depth))); cbn [fst snd]; now rewrite result_eqb_refl, status_eqb_refl. Qed.

(* the model agrees with itself (code 1) *)
Lemma model_eqb_refl o d s nconn : model_eqb o d s (model_obs o d s nconn) = true.
Proof. unfold model_eqb, model_obs. destruct (run_model o d s) as [[[r st] d'] x].
  now rewrite result_eqb_refl, status_eqb_refl, daemon_eqb_refl, calls_eqb_refl. Qed.

(* completeness, all operations: whatever check_case reports on the model's own run is code 14 carrying tag 1 *)
Theorem model_only_known_finding_l id o d s nconn : nconn_ok o d s nconn ->
  forall f, In f (check_case (id, (o, d, s, model_obs o d s nconn))) -> snd (fst f) = 14%N /\ snd f = 1%N /\ exists p, o = OpPin p.
Proof. intros Hn f Hin. unfold check_case in Hin. rewrite model_eqb_refl in Hin. cbn [app] in Hin. apply in_map_iff in Hin.
  destruct Hin as [code [<- Hc]]. cbn [fst snd]. destruct o as [p|c dis|c depth].
  - destruct (pin_passes p d s nconn Hn code Hc) as [-> T]. eauto.
  - rewrite unpin_passes in Hc. destruct Hc.
  - rewrite ls_passes in Hc. destruct Hc. Qed.

(* the decisive request of the model's run is not a pin/update left unanswered: no code at all *)
Definition no_update_stall (o : op) (d : daemon) (s : script) : Prop :=
  match o with OpPin p => last_is_update_stall (snd (conn_pin p d s)) = false | _ => True end.

Theorem model_passes_monitor_l id o d s nconn : nconn_ok o d s nconn -> no_update_stall o d s ->
  check_case (id, (o, d, s, model_obs o d s nconn)) = [].
Proof. intros Hn Hu. destruct (check_case (id, (o, d, s, model_obs o d s nconn))) as [|f r] eqn:E; [reflexivity|]. exfalso.
  destruct (model_only_known_finding_l id o d s nconn Hn f) as [_ [T [p ->]]]; [rewrite E; now left|].
  assert (Hin : In f (check_case (id, (OpPin p, d, s, model_obs (OpPin p) d s nconn)))) by (rewrite E; now left).
  unfold check_case in Hin. rewrite model_eqb_refl in Hin. cbn [app] in Hin. apply in_map_iff in Hin. destruct Hin as [code [<- _]].
  cbn [snd] in T. unfold no_update_stall in Hu. unfold tag_of, model_obs, run_model in T. destruct (conn_pin p d s) as [[r0 d'] x] eqn:Ep.
  rewrite (replay_pin p d s r0 d' x Ep) in T. cbn [snd] in Hu. rewrite Hu in T. destruct (last_is_add_trailer x); discriminate. Qed.
