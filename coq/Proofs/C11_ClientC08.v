(* C11 — client_faithful composed with C08: what "the options / the status filter as given" means once the
   abstract round-trip outcomes of the C11 model are instantiated by the C08 models of PinOptions.ToQuery /
   FromQuery and TrackerStatus.String / TrackerStatusFromString. *)
From V Require Import Base.Common Base.C11_Http Gen.RestRoutes Gen.RestClient Model.C11_Rest Model.C11_Check
  Proofs.C11_Rest Proofs.C11_Client.
From V Require Model.C08_Codec Model.C08_Query Model.C08_Status Proofs.C08_Query Proofs.C08_Status.
From Coq Require Import Permutation.
Open Scope string_scope.
Open Scope list_scope.

Module Q := V.Model.C08_Query.
Module K := V.Model.C08_Codec.
Module S := V.Model.C08_Status.

(* the server-side outcome for the options a client call carries: print with ToQuery, parse with FromQuery
   (any oracle for the trusted parsers, any clock reading), render with an arbitrary injective-or-not function *)
Definition rt_opts_c08 (render : K.opts -> string) (orc : Q.oracle) (now : Z * N) (o : K.opts) : option string :=
  match Q.to_query orc o with
  | K.Ok q => match Q.from_query orc now K.zero_opts q with K.Ok o' => Some (render o') | K.Err => None end
  | K.Err => None
  end.

Lemma rt_opts_c08_wf render orc now o : Q.wf_q orc o = true -> rt_opts_c08 render orc now o = Some (render (Q.lossy_q o)).
Proof.
  intros H. pose proof (V.Proofs.C08_Query.query_roundtrip_l orc now o H) as R. unfold rt_opts_c08.
  destruct (Q.to_query orc o) as [q|]; [|discriminate]. rewrite R. reflexivity.
Qed.

(* Pin / PinPath: the options arrive as given (minus metadata entries with the empty key, which the query form drops) *)
Lemma client_options_faithful_l render orc now o c e :
  Q.wf_q orc o = true -> In (cc_name c) ["Pin"; "PinPath"] -> cauthorized e = true -> client_guard c ->
  ce_rt_opts e = rt_opts_c08 render orc now o ->
  (cc_name c = "Pin" -> ce_rt_cid e = Some (cc_cid c)) ->
  (cc_name c = "PinPath" -> forall p, cc_path c = Some p -> ce_rt_path e = Some (trim_slash p)) ->
  arrives e (client_sent c e (render (Q.lossy_q o)) "") (client_run c e).
Proof.
  intros Hwf Hn Ha Hg Ho Hc Hp. rewrite (rt_opts_c08_wf render orc now o Hwf) in Ho.
  apply client_faithful_l; [| exact Ha | exact Hg |].
  - cbn [In] in Hn. destruct Hn as [<-|[<-|[]]]; vm_compute; tauto.
  - unfold rt_ok. cbn [In] in *. destruct Hn as [Hn|[Hn|[]]]; rewrite <- Hn in *.
    + split; [intros _; split; [apply Hc; reflexivity | exact Ho]|].
      split; [intros H; repeat (destruct H as [H|H]; try discriminate); contradiction|].
      split; [intros H; repeat (destruct H as [H|H]; try discriminate); contradiction|].
      split; [intros H; discriminate|].
      intros H; repeat (destruct H as [H|H]; try discriminate); contradiction.
    + split; [intros H; repeat (destruct H as [H|H]; try discriminate); contradiction|].
      split; [intros _; split; [apply Hp; reflexivity | exact Ho]|].
      split; [intros H; repeat (destruct H as [H|H]; try discriminate); contradiction|].
      split; [intros H; discriminate|].
      intros H; repeat (destruct H as [H|H]; try discriminate); contradiction.
Qed.

(* StatusAll: a filter made of defined status bits arrives unchanged, for every iteration order of the Go map *)
Lemma client_filter_faithful_l (render : N -> string) ord m c e :
  Permutation ord S.st_table -> S.st_valid_mask m = true ->
  cc_name c = "StatusAll" -> cc_filter c = Some (S.status_string ord m) -> cauthorized e = true ->
  ce_rt_filter e = Some (render (S.status_from_string (S.status_string ord m))) ->
  arrives e [(if cc_local c then "Cluster.StatusAllLocal" else "Cluster.StatusAll", [render m])] (client_run c e).
Proof.
  intros Hp Hv Hn Hf Ha Hr. rewrite (V.Proofs.C08_Status.status_roundtrip_valid ord m Hp Hv) in Hr.
  assert (Hs : client_sent c e "" (render m) = [(if cc_local c then "Cluster.StatusAllLocal" else "Cluster.StatusAll", [render m])]).
  { unfold client_sent, client_op. rewrite Hn. reflexivity. }
  rewrite <- Hs. apply client_faithful_l; [rewrite Hn; vm_compute; tauto | exact Ha | |].
  - unfold client_guard. rewrite Hn. cbn [In].
    split; [intros H; repeat (destruct H as [H|H]; try discriminate); contradiction|].
    split; [intros H; discriminate|]. split; [intros H; discriminate|]. split; [intros H; discriminate|]. split; [intros H; discriminate|].
    split; [intros H; repeat (destruct H as [H|H]; try discriminate); contradiction|].
    intros _. rewrite Hf. discriminate.
  - unfold rt_ok. rewrite Hn. cbn [In].
    split; [intros H; repeat (destruct H as [H|H]; try discriminate); contradiction|].
    split; [intros H; repeat (destruct H as [H|H]; try discriminate); contradiction|].
    split; [intros H; repeat (destruct H as [H|H]; try discriminate); contradiction|].
    split; [intros _; exact Hr|].
    intros H; repeat (destruct H as [H|H]; try discriminate); contradiction.
Qed.

(* the guard of the query round trip is inhabited (peer strings without ',', parsable texts) *)
Example wf_q_inhabited :
  let orc := Q.mk_orc ["QmPeerA"; "QmPeerB"] ["QmOld"] [("/ip4/1.2.3.4/tcp/1/p2p/QmPeerA", true)]
                      [("2026-09-22T10:40:00.5Z", (1790073600%Z, 500000000%N))] [] in
  let o := K.mk_opts (-1) 3 "a name, with comma" 1 1024 [K.TOk "QmPeerA"; K.TOk "QmPeerB"] (Some (1790073600%Z, 500000000%N))
                     [("k", "v"); ("k2", "")] (Some "QmOld") ["/ip4/1.2.3.4/tcp/1/p2p/QmPeerA"] in
  Q.wf_q orc o = true /\ Q.lossy_q o = o.
Proof. vm_compute. split; reflexivity. Qed.
