(* C08 — lemmas about Base/C08_Str.v: split/join, association lists keyed by strings, key sorting. *)
From V Require Import Base.Common Base.C08_Str.
Open Scope string_scope.

Lemma ascii_eqb_refl c : Ascii.eqb c c = true.
Proof. apply Ascii.eqb_eq. reflexivity. Qed.

(* ---------- split / join ---------- *)
Lemma split_on_nonempty sep s : split_on sep s <> [].
Proof. destruct s as [|c r]; cbn; [discriminate|]. destruct (Ascii.eqb c sep); [discriminate|]. destruct (split_on sep r); discriminate. Qed.

Lemma split_on_plain sep s : has_char sep s = false -> split_on sep s = [s].
Proof.
  induction s as [|c r IH]; cbn; [reflexivity|]. intros H. apply orb_false_iff in H as [A B].
  rewrite Ascii.eqb_sym in A. rewrite A, (IH B). reflexivity.
Qed.

Lemma split_on_app sep a b : has_char sep a = false ->
  split_on sep (a ++ String sep b) = a :: split_on sep b.
Proof.
  induction a as [|c r IH]; cbn.
  - intros _. now rewrite ascii_eqb_refl.
  - intros H. apply orb_false_iff in H as [A B]. rewrite Ascii.eqb_sym in A. rewrite A, (IH B). reflexivity.
Qed.

Lemma split_join l : l <> [] -> forallb (fun s => negb (has_char comma s)) l = true ->
  split_on comma (join_with "," l) = l.
Proof.
  induction l as [|a r IH]; [congruence|]. intros _ H. cbn in H. apply andb_true_iff in H as [A B].
  apply negb_true_iff in A. destruct r as [|b r'].
  - cbn. now apply split_on_plain.
  - change (join_with "," (a :: b :: r')) with (a ++ String comma (join_with "," (b :: r'))).
    rewrite split_on_app by exact A. f_equal. apply IH; [discriminate | exact B].
Qed.

Lemma append_empty_l a b : a ++ b = "" -> a = "".
Proof. destruct a; [reflexivity | discriminate]. Qed.

Lemma join_nonempty l : l <> [] -> (forall s, In s l -> s <> "") -> join_with "," l <> "".
Proof.
  destruct l as [|a r]; [congruence|]. intros _ H E. apply (H a (or_introl eq_refl)).
  destruct r; cbn in E; [exact E | now apply append_empty_l in E].
Qed.

(* ---------- association lists ---------- *)
Lemma slookup_app {V} k (a b : list (string * V)) :
  slookup k (a ++ b) = match slookup k a with Some v => Some v | None => slookup k b end.
Proof. induction a as [|[k' v] r IH]; cbn; [reflexivity|]. destruct (String.eqb k k'); [reflexivity | exact IH]. Qed.

Lemma slookup_none_notin {V} k (m : list (string * V)) : slookup k m = None <-> ~ In k (skeys m).
Proof.
  induction m as [|[k' v] r IH]; cbn; [tauto|]. destruct (String.eqb_spec k k') as [->|N].
  - split; [discriminate | intros H; exfalso; apply H; now left].
  - rewrite IH. split; [intros H [E|I]; [congruence | tauto] | tauto].
Qed.

Lemma snodup_NoDup l : snodup l = true <-> NoDup l.
Proof.
  induction l as [|x r IH]; cbn; [split; [constructor | reflexivity]|].
  rewrite andb_true_iff, negb_true_iff, IH. split.
  - intros [A B]. constructor; [|exact B]. intros I.
    assert (existsb (String.eqb x) r = true) by (apply existsb_exists; exists x; split; [exact I | apply String.eqb_refl]). congruence.
  - intros H. inversion H as [|? ? N D]; subst. split; [|exact D].
    destruct (existsb (String.eqb x) r) eqn:E; [|reflexivity]. apply existsb_exists in E as [y [I Ey]].
    apply String.eqb_eq in Ey. subst y. contradiction.
Qed.

(* ---------- sorted keys ---------- *)
Lemma ltb_leb a b : String.ltb a b = true -> String.leb a b = true.
Proof. unfold String.ltb, String.leb. destruct (String.compare a b); congruence. Qed.

Lemma ltb_empty_r a : String.ltb a "" = false.
Proof. unfold String.ltb. destruct a; reflexivity. Qed.

Lemma ksort_sorted {V} (m : list (string * V)) : keys_sorted m = true -> ksort m = m.
Proof.
  induction m as [|a r IH]; [reflexivity|]. intros H. cbn [ksort fold_right]. fold (ksort r).
  destruct r as [|b r'].
  - reflexivity.
  - cbn [keys_sorted] in H. apply andb_true_iff in H as [A B]. rewrite (IH B). cbn [kinsert].
    now rewrite (ltb_leb _ _ A).
Qed.

Lemma sorted_tail_nonempty {V} (a : string * V) r : keys_sorted (a :: r) = true -> forall b, In b r -> fst b <> "".
Proof.
  revert a. induction r as [|c r' IH]; intros a H b I; [contradiction|].
  cbn [keys_sorted] in H. apply andb_true_iff in H as [A B]. destruct I as [<-|I].
  - intros E. rewrite E, ltb_empty_r in A. discriminate.
  - exact (IH c B b I).
Qed.

Lemma keys_sorted_tail {V} (a : string * V) r : keys_sorted (a :: r) = true -> keys_sorted r = true.
Proof. destruct r; [reflexivity|]. cbn [keys_sorted]. intros H. now apply andb_true_iff in H as [_ B]. Qed.

Lemma filter_all {A} (f : A -> bool) l : (forall x, In x l -> f x = true) -> filter f l = l.
Proof.
  induction l as [|x r IH]; [reflexivity|]. intros H. cbn. rewrite (H x (or_introl eq_refl)). f_equal.
  apply IH. intros y I. apply H. now right.
Qed.

Lemma sorted_filter_nonempty {V} (m : list (string * V)) : keys_sorted m = true ->
  keys_sorted (filter (fun kv => negb (String.eqb (fst kv) "")) m) = true.
Proof.
  destruct m as [|a r]; [reflexivity|]. intros H.
  assert (T : filter (fun kv => negb (String.eqb (fst kv) "")) r = r).
  { apply filter_all. intros x I. apply negb_true_iff, String.eqb_neq. exact (sorted_tail_nonempty a r H x I). }
  cbn [filter]. rewrite T. destruct (String.eqb (fst a) ""); cbn [negb]; [exact (keys_sorted_tail a r H) | exact H].
Qed.

(* ---------- the byte order on strings is transitive; strictly sorted keys are distinct ---------- *)
Lemma compare_lt_trans a : forall b c, String.compare a b = Lt -> String.compare b c = Lt -> String.compare a c = Lt.
Proof.
  induction a as [|x a IH]; intros [|y b] [|z c]; cbn; try congruence.
  unfold Ascii.compare.
  destruct (N.compare_spec (N_of_ascii x) (N_of_ascii y)) as [E1|L1|G1]; try congruence;
  destruct (N.compare_spec (N_of_ascii y) (N_of_ascii z)) as [E2|L2|G2]; try congruence; intros H1 H2.
  - rewrite E1, E2, N.compare_refl. now apply (IH b c).
  - rewrite E1. apply N.compare_lt_iff in L2. now rewrite L2.
  - rewrite <- E2. apply N.compare_lt_iff in L1. now rewrite L1.
  - assert (L : (N_of_ascii x < N_of_ascii z)%N) by (eapply N.lt_trans; eassumption).
    apply N.compare_lt_iff in L. now rewrite L.
Qed.

Lemma ltb_trans a b c : String.ltb a b = true -> String.ltb b c = true -> String.ltb a c = true.
Proof.
  unfold String.ltb. intros H1 H2.
  destruct (String.compare a b) eqn:E1; try discriminate. destruct (String.compare b c) eqn:E2; try discriminate.
  now rewrite (compare_lt_trans a b c E1 E2).
Qed.

Lemma ltb_irrefl a : String.ltb a a = false.
Proof.
  unfold String.ltb. assert (E : String.compare a a = Eq).
  { induction a as [|c r IH]; cbn; [reflexivity|]. unfold Ascii.compare. now rewrite N.compare_refl. }
  now rewrite E.
Qed.

Lemma sorted_head_lt {V} (a : string * V) r : keys_sorted (a :: r) = true -> forall b, In b r -> String.ltb (fst a) (fst b) = true.
Proof.
  revert a. induction r as [|c r' IH]; intros a H b I; [contradiction|].
  cbn [keys_sorted] in H. apply andb_true_iff in H as [A B]. destruct I as [<-|I]; [exact A|].
  eapply ltb_trans; [exact A | exact (IH c B b I)].
Qed.

Lemma keys_sorted_NoDup {V} (m : list (string * V)) : keys_sorted m = true -> NoDup (skeys m).
Proof.
  induction m as [|a r IH]; [constructor|]. intros H. cbn. constructor.
  - intros I. apply in_map_iff in I as [b [E Ib]]. pose proof (sorted_head_lt a r H b Ib) as L.
    rewrite E, ltb_irrefl in L. discriminate.
  - apply IH. exact (keys_sorted_tail a r H).
Qed.
