(* Lemmas for Base/C11_RouteOrder.v: templates that are `tpl_disjoint` / `tpl_apart` never match a common request path,
   and a first-match fold is invariant under `trace_equiv` (exchange of neighbours that are apart). No table sizes involved. *)
From V Require Import Base.Common Base.C11_Http Base.C11_RouteOrder.
Open Scope string_scope.
Open Scope list_scope.

(* ------------------------------------------------------------------------------------------ *)
(* templates                                                                                  *)
(* ------------------------------------------------------------------------------------------ *)
Lemma match_segs_nil_r t : match_segs t [] <> None -> t = [].
Proof. destruct t as [|[s|n|n l|n] [|b t]]; cbn; congruence. Qed.

Lemma match_segs_nil_l p : match_segs [] p <> None -> p = [].
Proof. destruct p; cbn; congruence. Qed.

(* one step of match_segs on a segment that is not a tail variable *)
Lemma match_cons_none a t x p : is_rest a = false ->
  (match_segs (a :: t) (x :: p) = None <-> seg_acc a x = false \/ match_segs t p = None).
Proof.
  intros Ha. destruct a as [s|n|n l|n]; try discriminate; cbn [match_segs seg_acc].
  - destruct (String.eqb s x); intuition congruence.
  - destruct (String.eqb x ""); cbn [negb]; [intuition congruence|].
    destruct (match_segs t p); intuition congruence.
  - destruct (str_in x l); [|intuition congruence].
    destruct (match_segs t p); intuition congruence.
Qed.

Lemma str_in_spec x l : str_in x l = true <-> In x l.
Proof.
  unfold str_in. rewrite existsb_exists. split.
  - intros (y & Hy & E). apply String.eqb_eq in E. subst. exact Hy.
  - intros H. exists x. split; [exact H | apply String.eqb_refl].
Qed.

Lemma seg_disjoint_sound a b x : seg_disjoint a b = true -> seg_acc a x = true -> seg_acc b x = false.
Proof.
  destruct a as [s|n|n l|n], b as [s'|n'|n' l'|n']; cbn [seg_disjoint seg_acc]; intros Hd Ha; try discriminate; try reflexivity.
  - apply String.eqb_eq in Ha. subst x. apply negb_true_iff in Hd. rewrite String.eqb_sym. exact Hd.
  - apply String.eqb_eq in Ha. apply String.eqb_eq in Hd. subst. reflexivity.
  - apply String.eqb_eq in Ha. subst x. apply negb_true_iff in Hd. exact Hd.
  - apply String.eqb_eq in Hd. subst s'. apply negb_true_iff in Ha. rewrite String.eqb_sym. exact Ha.
  - apply negb_true_iff in Hd. destruct (String.eqb s' x) eqn:E; [|reflexivity]. apply String.eqb_eq in E. subst. congruence.
  - apply negb_true_iff in Hd. destruct (str_in x l') eqn:E; [|reflexivity]. exfalso.
    assert (H : existsb (fun y => str_in y l') l = true).
    { apply existsb_exists. exists x. split; [apply str_in_spec; exact Ha | exact E]. }
    congruence.
Qed.

(* task statement 1: disjoint templates are never matched by the same segment list *)
Lemma tpl_disjoint_sound t1 : forall t2, tpl_disjoint t1 t2 = true ->
  forall segs, match_segs t1 segs <> None -> match_segs t2 segs = None.
Proof.
  induction t1 as [|a t1 IH]; intros [|b t2] Hd segs Hm; cbn [tpl_disjoint] in Hd; try discriminate.
  - apply match_segs_nil_l in Hm. subst segs.
    destruct (match_segs (b :: t2) []) eqn:E; [|reflexivity]. exfalso.
    assert (H : match_segs (b :: t2) [] <> None) by congruence. apply match_segs_nil_r in H. discriminate.
  - destruct segs as [|x p]; [apply match_segs_nil_r in Hm; discriminate | reflexivity].
  - destruct (is_rest a) eqn:Ra; [discriminate|]. destruct (is_rest b) eqn:Rb; [discriminate|]. cbn [orb] in Hd.
    destruct segs as [|x p]; [apply match_segs_nil_r in Hm; discriminate|].
    apply (match_cons_none b t2 x p Rb).
    destruct (seg_acc a x) eqn:Ax.
    2:{ exfalso. apply Hm. apply (match_cons_none a t1 x p Ra). left; exact Ax. }
    assert (Hp : match_segs t1 p <> None).
    { intros E. apply Hm. apply (match_cons_none a t1 x p Ra). right; exact E. }
    apply orb_prop in Hd as [Hd|Hd].
    + left. exact (seg_disjoint_sound a b x Hd Ax).
    + right. exact (IH t2 Hd p Hp).
Qed.

Lemma seg_rejects_empty_sound a : seg_rejects_empty a = true -> match_segs [a] [""] = None.
Proof.
  destruct a as [s|n|n l|n]; cbn [seg_rejects_empty match_segs]; intros H; try discriminate.
  - apply negb_true_iff in H. rewrite H. reflexivity.
  - reflexivity.
  - apply negb_true_iff in H. rewrite H. reflexivity.
Qed.

Lemma tpl_skew_sound t1 : forall t2, tpl_skew t1 t2 = true ->
  forall d, match_segs t1 (d ++ [""]) <> None -> match_segs t2 d = None.
Proof.
  induction t1 as [|a t1 IH]; intros t2 Hs d Hm.
  - apply match_segs_nil_l in Hm. destruct d; discriminate.
  - destruct t2 as [|b t2]; cbn [tpl_skew] in Hs.
    + destruct d as [|x d]; [|reflexivity]. exfalso. cbn [app] in Hm.
      destruct t1 as [|c t1].
      * apply Hm. apply seg_rejects_empty_sound. exact Hs.
      * destruct (is_rest a) eqn:Ra.
        -- destruct a; try discriminate. cbn in Hm. congruence.
        -- apply Hm. apply (match_cons_none a (c :: t1) "" [] Ra). right.
           destruct (match_segs (c :: t1) []) eqn:E; [|reflexivity]. exfalso.
           assert (H : match_segs (c :: t1) [] <> None) by congruence. apply match_segs_nil_r in H. discriminate.
    + destruct (is_rest a) eqn:Ra; [discriminate|]. destruct (is_rest b) eqn:Rb; [discriminate|]. cbn [orb] in Hs.
      destruct d as [|x d].
      * destruct (match_segs (b :: t2) []) eqn:E; [|reflexivity]. exfalso.
        assert (H : match_segs (b :: t2) [] <> None) by congruence. apply match_segs_nil_r in H. discriminate.
      * cbn [app] in Hm. apply (match_cons_none b t2 x d Rb).
        destruct (seg_acc a x) eqn:Ax.
        2:{ exfalso. apply Hm. apply (match_cons_none a t1 x (d ++ [""]) Ra). left; exact Ax. }
        assert (Hp : match_segs t1 (d ++ [""]) <> None).
        { intros E. apply Hm. apply (match_cons_none a t1 x (d ++ [""]) Ra). right; exact E. }
        apply orb_prop in Hs as [Hs|Hs].
        -- left. exact (seg_disjoint_sound a b x Hs Ax).
        -- right. exact (IH t2 Hs d Hp).
Qed.

Lemma ro_list_eqb_eq {A} (eqb : A -> A -> bool) : (forall x y, eqb x y = true -> x = y) ->
  forall a b, list_eqb eqb a b = true -> a = b.
Proof.
  intros H a. induction a as [|x a IH]; intros [|y b] E; cbn in E; try discriminate; [reflexivity|].
  apply andb_prop in E as [E1 E2]. rewrite (H _ _ E1), (IH _ E2). reflexivity.
Qed.

Lemma ro_tseg_eqb_eq a b : tseg_eqb a b = true -> a = b.
Proof.
  destruct a, b; cbn [tseg_eqb]; intros H; try discriminate.
  - apply String.eqb_eq in H. subst. reflexivity.
  - apply String.eqb_eq in H. subst. reflexivity.
  - apply andb_prop in H as [H1 H2]. apply String.eqb_eq in H1.
    apply (ro_list_eqb_eq String.eqb (fun x y => proj1 (String.eqb_eq x y))) in H2. subst. reflexivity.
  - apply String.eqb_eq in H. subst. reflexivity.
Qed.

(* ------------------------------------------------------------------------------------------ *)
(* first-match folds                                                                          *)
(* ------------------------------------------------------------------------------------------ *)
Section TraceSound.
  Context {A S R : Type}.
  Variable eqb : A -> A -> bool.
  Variable apart : A -> A -> bool.
  (* what one table entry does with the state s and the continuation (the rest of the table) *)
  Variable step : A -> (S -> R) -> S -> R.
  Variable base : S -> R.
  Hypothesis eqb_eq : forall x y, eqb x y = true -> x = y.
  Hypothesis step_ext : forall x k k', (forall s, k s = k' s) -> forall s, step x k s = step x k' s.
  Hypothesis step_swap : forall x y, apart x y = true -> forall k s, step x (step y k) s = step y (step x k) s.

  Fixpoint fm_run (l : list A) : S -> R := match l with [] => base | x :: r => step x (fm_run r) end.

  Lemma extract_split x l : forall p s, extract eqb x l = Some (p, s) -> l = p ++ x :: s.
  Proof.
    induction l as [|y l IH]; intros p s H; cbn [extract] in H; [discriminate|].
    destruct (eqb x y) eqn:E.
    - apply eqb_eq in E. subst y. inversion H; subst. reflexivity.
    - destruct (extract eqb x l) as [[p' s']|]; [|discriminate]. inversion H; subst. cbn [app]. f_equal. apply IH. reflexivity.
  Qed.

  Lemma run_move_front x q p : forallb (apart x) p = true -> forall s, fm_run (p ++ x :: q) s = fm_run (x :: p ++ q) s.
  Proof.
    induction p as [|y p IH]; intros Hp s; [reflexivity|].
    cbn [forallb] in Hp. apply andb_prop in Hp as [Hy Hp]. cbn [app fm_run].
    rewrite (step_ext y _ _ (IH Hp) s). cbn [fm_run]. symmetry. apply step_swap. exact Hy.
  Qed.

  Lemma trace_equiv_run l1 : forall l2, trace_equiv eqb apart l1 l2 = true -> forall s, fm_run l1 s = fm_run l2 s.
  Proof.
    induction l1 as [|x l1 IH]; intros l2 H s; cbn [trace_equiv] in H.
    - destruct l2; [reflexivity | discriminate].
    - destruct (extract eqb x l2) as [[p q]|] eqn:E; [|discriminate].
      apply andb_prop in H as [Hp Hr]. rewrite (extract_split _ _ _ _ E).
      rewrite (run_move_front x q p Hp s). cbn [fm_run]. apply step_ext. exact (IH _ Hr).
  Qed.
End TraceSound.
