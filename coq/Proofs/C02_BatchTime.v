(* C02 layer A with time — lemmas about Model/C02_BatchTime.v: the timed machine projects onto the untimed one, the
   arming discipline of the age timer, and the age bound under a timely schedule. *)
From V Require Import Base.Common Model.C02_Batch Model.C02_BatchTime Proofs.C02_Batch.
Open Scope N_scope.

Section TimedLemmas.
Context {A : Type}.
Implicit Types (s : tbst A) (e : bev A) (te : cev A) (c : tcfg).

(* ---- forgetting the clock gives the untimed machine ---- *)
Definition untime_ev s te : option (bev A) :=
  match te with
  | Tick _ => None
  | Ev Fire => if fire_enabled s then Some Fire else None
  | Ev e => Some e
  end.

Lemma core_tstep c s te : reset_every_item c = false ->
  core (tstep c s te) = match untime_ev s te with Some e => bstep (tc c) (core s) e | None => core s end.
Proof.
  intros R. destruct te as [dt|[it|ok|ok| |ok|it|sk]]; cbn [tstep untime_ev]; try reflexivity.
  - cbn [bstep]. destruct (_ <? qcap (tc c)); reflexivity.
  - cbn [bstep]. rewrite R, orb_false_r. destruct (blocked (core s)); [reflexivity|].
    destruct (pc (core s)); [|reflexivity]. destruct (queue (core s)) as [|it q]; [reflexivity|].
    destruct ok; reflexivity.
  - cbn [bstep]. destruct (blocked (core s)); [reflexivity|]. destruct (pc (core s)); [reflexivity|].
    destruct ok; [|reflexivity]. destruct (t_stop_drain (tm (core s))) as [t2 blk]. reflexivity.
  - destruct (fire_enabled s); reflexivity.
  - cbn [bstep]. destruct (blocked (core s)); [reflexivity|]. destruct (pc (core s)); [|reflexivity].
    destruct (t_chan (tm (core s))); [|reflexivity]. destruct (fixed_S28 (tc c) && (cur (core s) =? 0)); [reflexivity|].
    destruct ok; [reflexivity|]. destruct (fixed_S2 (tc c)); reflexivity.
  - cbn [bstep]. destruct (blocked (core s)); [reflexivity|]. destruct (pc (core s)); [|reflexivity].
    destruct (queue (core s)); [|reflexivity]. destruct (fixed_S35 (tc c) && (0 <? cur (core s)) && sk); reflexivity.
Qed.

Lemma brun_snoc' (bc : bcfg) (es : list (bev A)) e : brun bc (es ++ [e]) = bstep bc (brun bc es) e.
Proof. unfold brun. now rewrite fold_left_app. Qed.

Lemma trun_from_untimed c tes : reset_every_item c = false ->
  forall s, (exists es, core s = brun (tc c) es) -> exists es, core (trun_from c s tes) = brun (tc c) es.
Proof.
  intros R. induction tes as [|te r IH]; intros s H; cbn [trun_from fold_left]; [exact H|].
  apply IH. destruct H as [es H]. rewrite (core_tstep c s te R).
  destruct (untime_ev s te) as [e|]; [|eauto]. exists (es ++ [e]). now rewrite brun_snoc', H.
Qed.

(* every reachable state of the timed machine is, once the clock is forgotten, a reachable state of `bstep` *)
Lemma trun_untimed c tes : reset_every_item c = false -> exists es, core (trun c tes : tbst A) = brun (tc c) es.
Proof. intros R. apply trun_from_untimed; auto. exists []. reflexivity. Qed.

(* ---- the arming discipline ---- *)
Definition disc c s : Prop :=
  length (ptimes (ti s)) = length (pend (core s)) /\
  (pend (core s) <> [] ->
     (t_active (tm (core s)) = true /\ twhen (ti s) = age_anchor s + maxage c) \/ t_chan (tm (core s)) = true).

(* the ghost take times are ordered: none before the first, none after the clock *)
Definition times_ok s : Prop :=
  forall t, In t (ptimes (ti s)) -> (match ptimes (ti s) with t0 :: _ => t0 | [] => now (ti s) end) <= t /\ t <= now (ti s).

Definition tinv c s : Prop := inv_cur (core s) /\ inv_timer (core s) /\ disc c s /\ times_ok s.

Lemma len0 {B} (l : list B) : N.of_nat (length l) = 0 -> l = [].
Proof. destruct l; [auto|simpl; lia]. Qed.
Lemma len_pos {B} (l : list B) : 0 < N.of_nat (length l) -> l <> [].
Proof. destruct l; [simpl; lia|discriminate]. Qed.
Lemma nonnil_app {B} (l : list B) x : l ++ [x] <> [].
Proof. destruct l; discriminate. Qed.
Lemma len_nil_iff {B C} (l : list B) (m : list C) : length l = length m -> m <> [] -> l <> [].
Proof. destruct l, m; simpl; try congruence; discriminate. Qed.

Lemma step_tinv c s te : reset_every_item c = false -> fixed_S2 (tc c) = true -> tinv c s -> tinv c (tstep c s te).
Proof.
  intros R F (IC & IT & (DL & DA) & TO).
  assert (IC' : inv_cur (core (tstep c s te))).
  { rewrite (core_tstep c s te R). destruct (untime_ev s te); [now apply step_inv_cur|exact IC]. }
  assert (IT' : inv_timer (core (tstep c s te))).
  { rewrite (core_tstep c s te R). destruct (untime_ev s te); [now apply step_inv_timer|exact IT]. }
  split; [exact IC'|]. split; [exact IT'|]. clear IC' IT'.
  destruct IT as (B & _ & _). specialize (IC B).
  unfold disc, times_ok, age_anchor in *.
  pose proof (conj (conj DL DA) TO) as Same.
  destruct te as [dt|[it|ok|ok| |ok|it|sk]]; cbn [tstep].
  - (* Tick *) cbn [core ti now twhen ptimes rearm]. split; [split; [exact DL|]|].
    + intros NE. destruct (DA NE) as [[Ha Hw]|Hc]; [left; split; [exact Ha|]|right; exact Hc].
      rewrite Hw. destruct (rearm (ti s)); [reflexivity|].
      pose proof (len_nil_iff _ _ DL NE) as TN. destruct (ptimes (ti s)); [congruence|reflexivity].
    + intros t Ht. destruct (TO t Ht) as [H1 H2]. split; [|lia].
      destruct (ptimes (ti s)); [destruct Ht|exact H1].
  - (* Enq *) destruct (_ <? qcap (tc c)); cbn [core ti pend tm]; exact Same.
  - (* Take *) rewrite B. destruct (pc (core s)) eqn:PC; [|exact Same].
    destruct (queue (core s)) as [|it q] eqn:Q; [exact Same|].
    rewrite R, orb_false_r.
    destruct (N.eqb_spec (cur (core s)) 0) as [C0|C0].
    + (* first item of a batch *)
      assert (P0 : pend (core s) = []) by (apply len0; lia).
      assert (T0 : ptimes (ti s) = []) by (rewrite P0 in DL; destruct (ptimes (ti s)); [auto|discriminate]).
      destruct ok; cbn [core ti pend tm now twhen ptimes rearm t_reset t_active].
      * rewrite P0, T0. cbn [app length]. split; [split; [reflexivity|]|].
        -- intros _. left. split; reflexivity.
        -- intros t [<-|[]]. split; lia.
      * rewrite P0, T0. split; [split; [reflexivity|congruence]|]. intros t [].
    + (* a further item: no Reset *)
      assert (PN : pend (core s) <> []) by (apply len_pos; lia).
      assert (TN : ptimes (ti s) <> []) by (apply (len_nil_iff _ _ DL PN)).
      destruct ok; cbn [core ti pend tm now twhen ptimes rearm].
      * split; [split|].
        -- rewrite !app_length, DL. reflexivity.
        -- intros _. destruct (DA PN) as [[Ha Hw]|Hc]; [left; split; [exact Ha|]|right; exact Hc].
           rewrite Hw. destruct (rearm (ti s)); [reflexivity|]. destruct (ptimes (ti s)); [congruence|reflexivity].
        -- intros t Ht. destruct (ptimes (ti s)) as [|t0 r] eqn:PT; [congruence|]. cbn [app] in *.
           destruct Ht as [<-|Ht]; [split; [lia|apply (TO t0); left; reflexivity]|].
           apply in_app_or in Ht. destruct Ht as [Ht|[<-|[]]].
           ++ apply TO. right. exact Ht.
           ++ split; [apply (TO t0); left; reflexivity|lia].
      * split; [split; [exact DL|exact DA]|exact TO].
  - (* SizeCommit *) rewrite B. destruct (pc (core s)) eqn:PC; [exact Same|].
    destruct ok; [|cbn [core ti pend tm]; exact Same].
    destruct (t_stop_drain (tm (core s))) as [t2 blk]. cbn [core ti pend ptimes].
    split; [split; [reflexivity|congruence]|]. intros t [].
  - (* Fire *) destruct (fire_enabled s) eqn:FE; [|exact Same].
    cbn [core ti pend tm now twhen ptimes rearm]. split; [split; [exact DL|]|exact TO].
    intros NE. right. unfold fire_enabled in FE. apply andb_true_iff in FE. destruct FE as [FA _].
    unfold t_fire. rewrite FA. reflexivity.
  - (* OnTimer *) rewrite B. destruct (pc (core s)) eqn:PC; [|exact Same].
    destruct (t_chan (tm (core s))) eqn:TC; [|rewrite TC; exact Same].
    destruct (fixed_S28 (tc c) && (cur (core s) =? 0)) eqn:S28.
    { apply andb_true_iff in S28. destruct S28 as [_ C0]. apply N.eqb_eq in C0.
      assert (P0 : pend (core s) = []) by (apply len0; lia).
      cbn [core ti pend tm]. split; [split; [exact DL|intros NE; congruence]|exact TO]. }
    destruct ok.
    + cbn [core ti pend ptimes]. split; [split; [reflexivity|congruence]|]. intros t [].
    + rewrite F. cbn [core ti pend tm now twhen ptimes rearm t_reset t_active].
      split; [split; [exact DL|]|exact TO]. intros _. left. split; reflexivity.
  - (* Reject *) cbn [core ti pend tm]. exact Same.
  - (* StopCommit *) rewrite B. destruct (pc (core s)) eqn:PC; [|exact Same]. destruct (queue (core s)) eqn:Q; [|exact Same].
    destruct (fixed_S35 (tc c) && (0 <? cur (core s)) && sk); [|exact Same].
    cbn [core ti pend ptimes]. split; [split; [reflexivity|congruence]|]. intros t [].
Qed.

Lemma tinv_init c : tinv c (tinit : tbst A).
Proof.
  unfold tinv, inv_cur, inv_timer, disc, times_ok, armed. cbn.
  repeat split; try discriminate; try congruence; try (intros; lia); try (intros t []).
Qed.

Lemma trun_from_tinv c tes : reset_every_item c = false -> fixed_S2 (tc c) = true ->
  forall s, tinv c s -> tinv c (trun_from c s tes).
Proof.
  intros R F. induction tes as [|te r IH]; intros s H; cbn [trun_from fold_left]; [exact H|].
  apply IH. now apply step_tinv.
Qed.

Lemma trun_tinv c tes : reset_every_item c = false -> fixed_S2 (tc c) = true -> tinv c (trun c tes : tbst A).
Proof. intros R F. apply trun_from_tinv; auto. apply tinv_init. Qed.

(* Reset happens for the first item of a batch (and after a failed age-limit commit) and never in between: while a batch
   is pending, either the timer has fired and the worker has not read the channel yet, or it is running and expires
   exactly max_age after the anchor of the batch *)
Lemma age_timer_discipline c tes : reset_every_item c = false -> fixed_S2 (tc c) = true ->
  let s : tbst A := trun c tes in
  length (ptimes (ti s)) = length (pend (core s)) /\
  (pend (core s) <> [] ->
     (t_active (tm (core s)) = true /\ twhen (ti s) = age_anchor s + maxage c) \/ t_chan (tm (core s)) = true).
Proof. intros R F. exact (proj1 (proj2 (proj2 (trun_tinv c tes R F)))). Qed.

(* ---- the age bound in a timely schedule ---- *)
(* a value in the channel was sent no later than now, and, while a batch is pending, no later than lf after the
   expiry that belongs to the batch *)
Definition fired_ok c (lf : N) s : Prop :=
  t_chan (tm (core s)) = true ->
  fired_at (ti s) <= now (ti s) /\ (pend (core s) <> [] -> fired_at (ti s) <= age_anchor s + maxage c + lf).

Lemma step_fired_ok c lf lw s te : reset_every_item c = false -> fixed_S2 (tc c) = true ->
  tinv c s -> timely_st lf lw s = true -> fired_ok c lf s -> fired_ok c lf (tstep c s te).
Proof.
  intros R F (IC & IT & (DL & DA) & TO) TS FO.
  destruct IT as (B & _ & _). specialize (IC B).
  unfold timely_st in TS. apply andb_true_iff in TS. destruct TS as [TS1 _].
  unfold fired_ok, age_anchor in *.
  destruct te as [dt|[it|ok|ok| |ok|it|sk]]; cbn [tstep].
  - cbn [core ti now fired_at ptimes rearm]. intros C. destruct (FO C) as [H1 H2]. split; [lia|].
    intros NE. specialize (H2 NE). destruct (rearm (ti s)); [exact H2|].
    pose proof (len_nil_iff _ _ DL NE) as TN. destruct (ptimes (ti s)); [congruence|exact H2].
  - destruct (_ <? qcap (tc c)); cbn [core ti pend tm]; exact FO.
  - rewrite B. destruct (pc (core s)) eqn:PC; [|exact FO].
    destruct (queue (core s)) as [|it q] eqn:Q; [exact FO|]. rewrite R, orb_false_r.
    destruct (N.eqb_spec (cur (core s)) 0) as [C0|C0].
    + assert (P0 : pend (core s) = []) by (apply len0; lia).
      assert (T0 : ptimes (ti s) = []) by (rewrite P0 in DL; destruct (ptimes (ti s)); [auto|discriminate]).
      destruct ok; cbn [core ti pend tm now fired_at ptimes rearm t_reset t_chan]; intros C; destruct (FO C) as [H1 _].
      * rewrite T0. cbn [app]. split; [exact H1|]. intros _. lia.
      * split; [exact H1|]. rewrite P0. congruence.
    + assert (PN : pend (core s) <> []) by (apply len_pos; lia).
      assert (TN : ptimes (ti s) <> []) by (apply (len_nil_iff _ _ DL PN)).
      destruct ok; cbn [core ti pend tm now fired_at ptimes rearm]; intros C; destruct (FO C) as [H1 H2].
      * split; [exact H1|]. intros _. specialize (H2 PN). destruct (rearm (ti s)); [exact H2|].
        destruct (ptimes (ti s)); [congruence|exact H2].
      * split; [exact H1|exact H2].
  - rewrite B. destruct (pc (core s)) eqn:PC; [exact FO|]. destruct ok; [|cbn [core ti pend tm]; exact FO].
    unfold t_stop_drain. destruct (t_active (tm (core s))) eqn:TA; cbn [core ti pend tm now fired_at t_chan].
    + intros C. destruct (FO C) as [H1 _]. split; [exact H1|congruence].
    + destruct (t_chan (tm (core s))) eqn:TC; cbn [core ti pend tm now fired_at t_chan t_idle]; intros C; try discriminate.
      rewrite TC in C. discriminate.
  - destruct (fire_enabled s) eqn:FE; [|exact FO].
    unfold fire_enabled in FE. apply andb_true_iff in FE. destruct FE as [FA FW]. apply N.leb_le in FW.
    cbn [core ti pend tm now fired_at ptimes rearm]. intros _.
    destruct (t_chan (tm (core s))) eqn:TC.
    + exact (FO eq_refl).
    + split; [lia|]. intros NE. destruct (DA NE) as [[_ Hw]|Hc]; [|congruence].
      rewrite FA in TS1. cbn [negb orb] in TS1. apply N.leb_le in TS1. unfold age_anchor in Hw. lia.
  - rewrite B. destruct (pc (core s)) eqn:PC; [|exact FO].
    destruct (t_chan (tm (core s))) eqn:TC; [|rewrite TC; exact FO].
    destruct (fixed_S28 (tc c) && (cur (core s) =? 0)); [cbn [core tm t_recv t_chan]; discriminate|].
    destruct ok; [cbn [core tm t_recv t_chan]; discriminate|].
    rewrite F. cbn [core tm t_reset t_recv t_chan]. discriminate.
  - cbn [core ti pend tm]. exact FO.
  - rewrite B. destruct (pc (core s)) eqn:PC; [|exact FO]. destruct (queue (core s)) eqn:Q; [|exact FO].
    destruct (fixed_S35 (tc c) && (0 <? cur (core s)) && sk); [|exact FO].
    cbn [core ti pend tm now fired_at]. intros C. destruct (FO C) as [H1 _]. split; [exact H1|congruence].
Qed.

Lemma timely_bound_from c lf lw tes : reset_every_item c = false -> fixed_S2 (tc c) = true ->
  forall s, tinv c s -> fired_ok c lf s -> timely_from lf lw c s tes = true ->
  let s' := trun_from c s tes in tinv c s' /\ fired_ok c lf s' /\ timely_st lf lw s' = true.
Proof.
  intros R F. induction tes as [|te r IH]; intros s TI FO TF; cbn [timely_from] in TF; apply andb_true_iff in TF; destruct TF as [T1 T2].
  - cbn. auto.
  - cbn [trun_from fold_left]. apply IH; [now apply step_tinv|now apply (step_fired_ok c lf lw)|exact T2].
Qed.

(* in a timely schedule the pending batch is never older than max_age + lf + lw, counted from its anchor ... *)
Lemma age_bound c lf lw tes : reset_every_item c = false -> fixed_S2 (tc c) = true ->
  timely_from lf lw c (tinit : tbst A) tes = true ->
  let s : tbst A := trun c tes in
  pend (core s) <> [] -> now (ti s) <= age_anchor s + maxage c + lf + lw.
Proof.
  intros R F TF s NE.
  destruct (timely_bound_from c lf lw tes R F tinit (tinv_init c)) as (TI & FO & TS); [|exact TF|].
  { unfold fired_ok. cbn. discriminate. }
  fold (trun c tes) in TI, FO, TS. fold s in TI, FO, TS.
  destruct TI as (_ & _ & (_ & DA) & _).
  unfold timely_st in TS. apply andb_true_iff in TS. destruct TS as [TS1 TS2].
  destruct (DA NE) as [[Ha Hw]|Hc].
  - rewrite Ha in TS1. cbn [negb orb] in TS1. apply N.leb_le in TS1. lia.
  - rewrite Hc in TS2. cbn [negb orb] in TS2. apply N.leb_le in TS2. destruct (FO Hc) as [_ H2]. specialize (H2 NE). lia.
Qed.

(* ... hence, as long as no age-limit commit of this batch has failed, every operation still waiting in the batch was
   taken from the queue at most max_age + lf + lw ago: an accepted operation is committed no later than that after it
   was taken. After a failed age-limit commit the same bound counts from that failure (the timer was re-armed there). *)
Lemma age_bound_items c lf lw tes : reset_every_item c = false -> fixed_S2 (tc c) = true ->
  timely_from lf lw c (tinit : tbst A) tes = true ->
  let s : tbst A := trun c tes in
  forall t, In t (ptimes (ti s)) ->
    match rearm (ti s) with
    | None => now (ti s) <= t + maxage c + lf + lw
    | Some r => now (ti s) <= r + maxage c + lf + lw
    end.
Proof.
  intros R F TF s t Ht.
  pose proof (trun_tinv c tes R F) as (_ & _ & (DL & _) & TO). fold s in DL, TO.
  assert (NE : pend (core s) <> []).
  { intros E. rewrite E in DL. destruct (ptimes (ti s)); [destruct Ht|discriminate]. }
  pose proof (age_bound c lf lw tes R F TF NE) as AB. fold s in AB. unfold age_anchor in AB.
  destruct (rearm (ti s)); [exact AB|].
  destruct (TO t Ht) as [H1 _]. destruct (ptimes (ti s)); [destruct Ht|lia].
Qed.

End TimedLemmas.

(* ---- witnesses ---- *)
(* a trickle: one operation every 4 ticks, max_age 10, batch size 100; the runtime and the worker are prompt (lf = lw = 1) *)
Definition code_cfg (age : N) : tcfg := mk_tcfg (mk_bcfg 10 100 true true true) age false.
Definition every_item_cfg (age : N) : tcfg := mk_tcfg (mk_bcfg 10 100 true true true) age true.

Definition trickle3 : list (cev N) :=
  [Ev (Enq 1); Ev (Take true); Tick 4; Ev (Enq 2); Ev (Take true); Tick 4; Ev (Enq 3); Ev (Take true); Tick 2;
   Ev Fire; Ev (OnTimer true); Tick 2; Ev (Enq 4); Ev (Take true)].

(* the code: the batch that started at 0 is committed at 10 although operations kept coming *)
Lemma trickle_code :
  timely_from 1 1 (code_cfg 10) tinit trickle3 = true /\
  let s := trun (code_cfg 10) trickle3 in
  committed (core s) = [[1; 2; 3]] /\ pend (core s) = [4] /\ now (ti s) = 12 /\ twhen (ti s) = 22.
Proof. vm_compute. repeat split; reflexivity. Qed.

(* the variant that re-arms on every item: the same submissions, a timely runtime, and the first operation is still
   waiting at time 14 > 0 + 10 + 1 + 1; the timer cannot fire before 18 *)
Definition trickle4_no_fire : list (cev N) :=
  [Ev (Enq 1); Ev (Take true); Tick 4; Ev (Enq 2); Ev (Take true); Tick 4; Ev (Enq 3); Ev (Take true); Tick 2;
   Ev Fire; Ev (OnTimer true); Tick 4; Ev Fire; Ev (OnTimer true)].

Lemma trickle_every_item :
  timely_from 1 1 (every_item_cfg 10) tinit trickle4_no_fire = true /\
  let s := trun (every_item_cfg 10) trickle4_no_fire in
  committed (core s) = [] /\ pend (core s) = [1; 2; 3] /\ ptimes (ti s) = [0; 4; 8] /\ rearm (ti s) = None /\
  now (ti s) = 14 /\ twhen (ti s) = 18.
Proof. vm_compute. repeat split; reflexivity. Qed.

Lemma every_item_breaks_bound :
  exists (tes : list (cev N)) t,
    timely_from 1 1 (every_item_cfg 10) tinit tes = true /\
    let s := trun (every_item_cfg 10) tes in
    In t (ptimes (ti s)) /\ rearm (ti s) = None /\ ~ now (ti s) <= t + 10 + 1 + 1.
Proof.
  exists trickle4_no_fire, 0. split; [vm_compute; reflexivity|]. cbv zeta.
  replace (trun (every_item_cfg 10) trickle4_no_fire) with
    (mk_tbst (core (trun (every_item_cfg 10) trickle4_no_fire)) (ti (trun (every_item_cfg 10) trickle4_no_fire)))
    by (destruct (trun _ _); reflexivity).
  assert (E : ti (trun (every_item_cfg 10) trickle4_no_fire) = mk_ti 14 18 [0; 4; 8] None 0) by (vm_compute; reflexivity).
  cbn [ti]. rewrite E. cbn [ptimes rearm now]. split; [left; reflexivity|]. split; [reflexivity|]. lia.
Qed.
