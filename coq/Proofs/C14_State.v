(* C14 — lemmas about pinsets: Marshal/Unmarshal, snapshots read offline, export/import (Model/C14_State.v). *)
From V Require Import Base.Common Base.CommonLemmas Model.C14_Backup Model.C14_State Proofs.C14_Backup.
From Coq Require Import Permutation.
Local Open Scope N_scope.

(* ---- association lists with distinct keys ---- *)
Lemma aget_notin {V} c (l : list (N * V)) : ~ In c (map fst l) -> aget c l = None.
Proof.
  induction l as [|[k v] r IH]; simpl; auto. intros H. destruct (N.eqb_spec c k) as [->|_]; [tauto|]. apply IH. tauto.
Qed.

Lemma aget_in {V} c (v : V) l : NoDup (map fst l) -> In (c, v) l -> aget c l = Some v.
Proof.
  induction l as [|[k w] r IH]; simpl; [tauto|]. intros Hnd [E|Hin].
  - injection E as -> ->. now rewrite N.eqb_refl.
  - inversion Hnd as [|? ? Hnot Hnd']; subst. destruct (N.eqb_spec c k) as [->|_]; [|auto].
    exfalso. apply Hnot. change k with (fst (k, v)). now apply in_map.
Qed.

Lemma aget_some_in {V} c (v : V) l : aget c l = Some v -> In (c, v) l.
Proof.
  induction l as [|[k w] r IH]; simpl; [discriminate|]. destruct (N.eqb_spec c k) as [->|_]; auto.
  intros E. injection E as ->. now left.
Qed.

Lemma aget_perm {V} c (l l' : list (N * V)) : NoDup (map fst l) -> Permutation l l' -> aget c l = aget c l'.
Proof.
  intros Hnd P. assert (Hnd' : NoDup (map fst l')) by (eapply Permutation_NoDup; [apply Permutation_map; exact P|exact Hnd]).
  destruct (aget c l) as [v|] eqn:E.
  - symmetry. apply aget_in; auto. eapply Permutation_in; [exact P|]. now apply aget_some_in.
  - destruct (aget c l') as [v|] eqn:E'; auto.
    apply aget_some_in in E'. apply (Permutation_in _ (Permutation_sym P)) in E'.
    rewrite (aget_in c v l Hnd E') in E. discriminate.
Qed.

Lemma aget_put_same e s : aget (fst e) (put e s) = Some (snd e).
Proof. unfold put. apply aget_aput_same. Qed.

Lemma aget_put_other c e s : c <> fst e -> aget c (put e s) = aget c s.
Proof. intros H. unfold put. now apply aget_aput_other. Qed.

(* ---- Unmarshal ---- *)
Lemma unmarshal_get es : NoDup (map fst es) -> forall s0 c,
  aget c (unmarshal es s0) = match aget c es with Some v => Some v | None => aget c s0 end.
Proof.
  unfold unmarshal. induction es as [|e r IH]; intros Hnd s0 c; simpl; auto.
  inversion Hnd as [|? ? Hnot Hnd']; subst. rewrite IH by auto.
  destruct e as [k v]. cbn [fst] in Hnot. destruct (N.eqb_spec c k) as [->|Hne].
  - rewrite (aget_notin k r Hnot). apply (aget_put_same (k, v)).
  - destruct (aget c r); auto. now apply (aget_put_other c (k, v)).
Qed.

Lemma marshal_unmarshal_same ord s : order_oracle ord -> keys_nodup s -> same_pinset (unmarshal (marshal ord s) []) s.
Proof.
  intros Ho Hnd c. unfold marshal.
  assert (Hnd' : NoDup (map fst (ord s))) by (eapply Permutation_NoDup; [apply Permutation_map, Permutation_sym, Ho|exact Hnd]).
  rewrite unmarshal_get by auto. rewrite (aget_perm c (ord s) s Hnd' (Ho s)). simpl. now destruct (aget c s).
Qed.

(* the keys of a store stay distinct *)
Lemma adel_keys_notin {V} k (m : list (N * V)) : ~ In k (map fst (adel k m)).
Proof. intros H. apply in_akeys_adel in H. tauto. Qed.

Lemma adel_nodup {V} k (m : list (N * V)) : NoDup (map fst m) -> NoDup (map fst (adel k m)).
Proof.
  induction m as [|[k' v] r IH]; simpl; auto. intros Hnd. inversion Hnd as [|? ? Hnot Hnd']; subst.
  destruct (N.eqb k k'); simpl; auto. constructor; auto. intros H. apply in_akeys_adel in H. tauto.
Qed.

Lemma put_nodup e s : keys_nodup s -> keys_nodup (put e s).
Proof. intros H. unfold keys_nodup, put, aput. simpl. constructor; [apply adel_keys_notin|now apply adel_nodup]. Qed.

Lemma unmarshal_nodup es : forall s0, keys_nodup s0 -> keys_nodup (unmarshal es s0).
Proof. unfold unmarshal. induction es as [|e r IH]; intros s0 H; simpl; auto. apply IH. now apply put_nodup. Qed.

(* ---- snapshots read offline ---- *)
Lemma snapshot_offline_same keep ord s (d : dir snapshot) : order_oracle ord -> keys_nodup s ->
  same_pinset (offline_state (snapshot_save keep (marshal ord s) d) []) s.
Proof.
  intros Ho Hnd. unfold offline_state. rewrite last_state_after_save. now apply marshal_unmarshal_same.
Qed.

Lemma offline_nodup (d : dir snapshot) : keys_nodup (offline_state d []).
Proof. unfold offline_state. destruct (last_state_raw d); [apply unmarshal_nodup|]; constructor. Qed.

Lemma cleanup_live {S} keep (d : dir S) : live (cleanup keep d) = None.
Proof. destruct d as [[[m [s|]]|] o]; reflexivity. Qed.

Lemma offline_after_cleanup keep (d : dir snapshot) : offline_state (cleanup keep d) [] = [].
Proof. unfold offline_state, last_state_raw. now rewrite cleanup_live. Qed.

(* ---- export / import ---- *)
Lemma import_decodable es : forall s, forallb decodable es = true -> import_lines (map JPin es) s = Some (unmarshal es s).
Proof.
  induction es as [|e r IH]; intros s H; simpl in *; auto.
  apply andb_true_iff in H. destruct H as [-> H]. now apply IH.
Qed.

Lemma forallb_perm {A} (f : A -> bool) l l' : Permutation l l' -> forallb f l = true -> forallb f l' = true.
Proof. intros P H. rewrite forallb_forall in *. intros x Hx. apply H. eapply Permutation_in; [symmetry; exact P|exact Hx]. Qed.

Lemma export_import_same ord s : order_oracle ord -> keys_nodup s -> no_origins s ->
  exists s', import_lines (export ord s) [] = Some s' /\ same_pinset s' s.
Proof.
  intros Ho Hnd Hno. exists (unmarshal (ord s) []). split.
  - apply import_decodable. eapply forallb_perm; [apply Permutation_sym, Ho|exact Hno].
  - now apply (marshal_unmarshal_same ord s).
Qed.

Lemma same_pinset_trans a b c : same_pinset a b -> same_pinset b c -> same_pinset a c.
Proof. intros H1 H2 k. now rewrite H1. Qed.

Lemma no_origins_same a b : keys_nodup a -> keys_nodup b -> same_pinset a b -> no_origins b -> no_origins a.
Proof.
  unfold no_origins. intros Ha Hb Hs H. rewrite forallb_forall in *. intros [k v] Hin.
  apply H. apply aget_some_in. rewrite <- Hs. now apply aget_in.
Qed.

(* raft manager: export from one directory, import into any other *)
Lemma raft_export_import keep ord1 ord2 (dsrc ddst : dir snapshot) :
  order_oracle ord1 -> order_oracle ord2 -> no_origins (offline_state dsrc []) ->
  exists d', raft_import keep ord2 (raft_export ord1 dsrc) ddst = (d', ImpOk) /\
             same_pinset (offline_state d' []) (offline_state dsrc []).
Proof.
  intros Ho1 Ho2 Hno. unfold raft_import, raft_export. rewrite offline_after_cleanup.
  set (s := offline_state dsrc []) in *. pose proof (offline_nodup dsrc) as Hnd. fold s in Hnd.
  destruct (export_import_same ord1 s Ho1 Hnd Hno) as [s' [E Hs]]. rewrite E.
  eexists. split; [reflexivity|].
  assert (Hnd' : keys_nodup s').
  { assert (s' = unmarshal (ord1 s) []) as ->.
    { unfold export in E. rewrite import_decodable in E; [now injection E|].
      eapply forallb_perm; [apply Permutation_sym, Ho1|exact Hno]. }
    apply unmarshal_nodup. constructor. }
  eapply same_pinset_trans; [|exact Hs]. now apply snapshot_offline_same.
Qed.

(* what was there before is the newest backup afterwards *)
Lemma raft_import_keeps_previous keep ord ls m (sn : snapshot) o : (1 <= keep)%nat ->
  olds (fst (raft_import keep ord ls (mk_dir (Some (m, Some sn)) o))) 0%nat = Some (m, Some sn).
Proof.
  intros Hk. unfold raft_import. cbn [cleanup make_backup live olds].
  destruct (import_lines ls _); reflexivity.
Qed.

Lemma raft_import_failure keep ord ls (d : dir snapshot) : import_lines ls [] = None ->
  raft_import keep ord ls d = (cleanup keep d, ImpErr) /\ offline_state (cleanup keep d) [] = [].
Proof.
  intros H. unfold raft_import. rewrite offline_after_cleanup, H. split; reflexivity.
Qed.

(* crdt manager *)
Lemma crdt_export_import ord s s0 : order_oracle ord -> keys_nodup s -> no_origins s ->
  exists s', crdt_import (export ord s) s0 = (s', ImpOk) /\ same_pinset s' s.
Proof.
  intros Ho Hnd Hno. destruct (export_import_same ord s Ho Hnd Hno) as [s' [E Hs]].
  exists s'. unfold crdt_import. rewrite E. split; auto.
Qed.

Lemma import_replaces ls (s0 s1 : pstate) : fst (crdt_import ls s0) = fst (crdt_import ls s1).
Proof. reflexivity. Qed.
