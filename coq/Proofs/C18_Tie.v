(* C18 — the object-model theorems for the variant the generated table selects (recompiled every run). *)
From V Require Import Model.C18_Table Model.C18_Exempt Model.C18_Objects Gen.Locksets Proofs.C18_Objects.

Lemma alerts_not_torn_l :
  reader_variant exemptions accesses "ipfscluster.Cluster.Alerts" = Atomic /\
  forall maxa sched, forallb (aev_of Atomic) sched = true ->
  forall r res, In (r, res) (a_out (arun maxa sched)) ->
    (exists k, k <= length sched /\ res = AOk (rev (a_list (arun maxa (firstn k sched))))) /\
    (NoDup (appended sched) -> ~ In 0%N (appended sched) -> exists l, res = AOk l /\ NoDup l /\ ~ In 0%N l).
Proof.
  split; [vm_compute; reflexivity|].
  intros maxa sched Hv r res Hin. split.
  - exact (alerts_at_instant maxa sched Hv r res Hin).
  - intros Hnd Hz. exact (alerts_whole maxa sched Hv Hnd Hz r res Hin).
Qed.

Lemma window_latest_atomic_l :
  reader_variant exemptions accesses "metrics.Window.Latest" = Atomic /\
  forall cap sched, cap > 0 -> forallb (wev_of Atomic) sched = true ->
  forall r v, In (r, v) (w_out (wrun cap sched)) ->
  exists k, k <= length sched /\
    v = (last (added (firstn k sched)) 0%N, last (added (firstn k sched)) 0%N).
Proof.
  split; [vm_compute; reflexivity|].
  intros cap sched Hc Hv r v Hin.
  destruct (window_latest_at_instant cap sched Hc Hv r v Hin) as [k [Hk E]].
  exists k. split; auto. now rewrite <- (w_last_added cap).
Qed.
