(* C18 — the torn-result clause on the object models: with all reads inside the critical section every
   reader returns the state of one instant; as the pinned source had them, schedules exist that return a
   torn value (witnesses by computation). *)
From V Require Import Model.C18_Table Model.C18_Objects.
From Coq Require Import Lia.

Lemma firstn_app_le {A} k (l1 l2 : list A) : k <= length l1 -> firstn k (l1 ++ l2) = firstn k l1.
Proof. intros H. rewrite firstn_app. replace (k - length l1) with 0 by lia. simpl. apply app_nil_r. Qed.

Lemma firstn_app_all {A} (l1 l2 : list A) : firstn (length l1) (l1 ++ l2) = l1.
Proof. rewrite firstn_app, firstn_all, Nat.sub_diag. simpl. apply app_nil_r. Qed.

Lemma NoDup_app_l {A} (l1 l2 : list A) : NoDup (l1 ++ l2) -> NoDup l1.
Proof.
  induction l1 as [|x l1 IH]; simpl; intros H; [constructor|].
  inversion H; subst. constructor; auto. intros Hin. apply H2. apply in_or_app. now left.
Qed.

Lemma NoDup_app_r {A} (l1 l2 : list A) : NoDup (l1 ++ l2) -> NoDup l2.
Proof. induction l1 as [|x l1 IH]; simpl; intros H; auto. inversion H; subst. auto. Qed.

(* ---------------------------------------------------------------------------------------------- *)
(* alerts *)

Lemma arun_snoc maxa sched e : arun maxa (sched ++ [e]) = astep maxa (arun maxa sched) e.
Proof. unfold arun. now rewrite fold_left_app. Qed.

Definition appended (sched : list aev) : list N := flat_map (fun e => match e with AAppend a => [a] | _ => [] end) sched.

Lemma appended_app s1 s2 : appended (s1 ++ s2) = appended s1 ++ appended s2.
Proof. unfold appended. apply flat_map_app. Qed.

Lemma a_hist_appended maxa sched : a_hist (arun maxa sched) = appended sched.
Proof.
  induction sched as [|e sched IH] using rev_ind; [reflexivity|].
  rewrite arun_snoc, appended_app. destruct e as [a|r|r|r]; simpl; rewrite <- ?IH, ?app_nil_r; auto.
  destruct (lookup r (a_lens (arun maxa sched))); auto.
Qed.

(* the list is always the tail of what has been appended (since the last reset) *)
Lemma a_list_segment maxa sched : exists pre, a_hist (arun maxa sched) = pre ++ a_list (arun maxa sched).
Proof.
  induction sched as [|e sched IH] using rev_ind; [exists []; reflexivity|].
  rewrite arun_snoc. destruct IH as [pre IH]. destruct e as [a|r|r|r]; simpl.
  - destruct (Nat.ltb maxa (length (a_list (arun maxa sched)))).
    + exists (a_hist (arun maxa sched)). reflexivity.
    + exists pre. rewrite IH. now rewrite app_assoc.
  - exists pre. exact IH.
  - destruct (lookup r (a_lens (arun maxa sched))); exists pre; exact IH.
  - exists pre. exact IH.
Qed.

Lemma alerts_at_instant maxa sched : forallb (aev_of Atomic) sched = true ->
  forall r res, In (r, res) (a_out (arun maxa sched)) ->
  exists k, k <= length sched /\ res = AOk (rev (a_list (arun maxa (firstn k sched)))).
Proof.
  induction sched as [|e sched IH] using rev_ind; intros Hv r res Hin; [inversion Hin|].
  rewrite forallb_app in Hv. apply andb_true_iff in Hv. destruct Hv as [Hv He]. simpl in He.
  rewrite arun_snoc in Hin. rewrite app_length. simpl.
  destruct e as [a|r'|r'|r']; simpl in He; try discriminate; simpl in Hin.
  - destruct (IH Hv r res Hin) as [k [Hk E]]. exists k. split; [lia|]. now rewrite firstn_app_le.
  - destruct Hin as [Hin|Hin].
    + inversion Hin; subst. exists (length sched). split; [lia|]. now rewrite firstn_app_all.
    + destruct (IH Hv r res Hin) as [k [Hk E]]. exists k. split; [lia|]. now rewrite firstn_app_le.
Qed.

Lemma alerts_whole maxa sched : forallb (aev_of Atomic) sched = true ->
  NoDup (appended sched) -> ~ In 0%N (appended sched) ->
  forall r res, In (r, res) (a_out (arun maxa sched)) ->
  exists l, res = AOk l /\ NoDup l /\ ~ In 0%N l.
Proof.
  intros Hv Hnd Hz r res Hin. destruct (alerts_at_instant maxa sched Hv r res Hin) as [k [Hk E]].
  exists (rev (a_list (arun maxa (firstn k sched)))). split; auto.
  destruct (a_list_segment maxa (firstn k sched)) as [pre Hseg]. rewrite a_hist_appended in Hseg.
  assert (Hsplit : appended sched = (pre ++ a_list (arun maxa (firstn k sched))) ++ appended (skipn k sched)).
  { rewrite <- Hseg, <- appended_app, firstn_skipn. reflexivity. }
  split.
  - apply NoDup_rev. rewrite Hsplit in Hnd. apply NoDup_app_l in Hnd. now apply NoDup_app_r in Hnd.
  - intros H0. apply in_rev in H0. apply Hz. rewrite Hsplit. apply in_or_app. left. apply in_or_app. now right.
Qed.

(* as pinned: the result can be an index panic (an alert arrives between the length read and the copy) *)
Lemma alerts_panic_as_pinned : exists maxa sched r,
  forallb (aev_of Outside) sched = true /\ In (r, APanic) (a_out (arun maxa sched)).
Proof. exists 1000, [ALen 0; AAppend 1%N; ACopy 0], 0. vm_compute. auto. Qed.

(* as pinned: the result can contain an empty entry (the list is reset between the length read and the copy) *)
Lemma alerts_empty_entry_as_pinned : exists maxa sched r l,
  forallb (aev_of Outside) sched = true /\ ~ In 0%N (appended sched) /\
  In (r, AOk l) (a_out (arun maxa sched)) /\ In 0%N l.
Proof.
  exists 1, [AAppend 1%N; AAppend 2%N; ALen 0; AAppend 3%N; ACopy 0], 0, [0%N; 3%N].
  split; [reflexivity|]. split; [|split; vm_compute; auto].
  vm_compute. intros [H|[H|[H|H]]]; try discriminate; auto.
Qed.

(* ---------------------------------------------------------------------------------------------- *)
(* window *)

Lemma wrun_snoc cap sched e : wrun cap (sched ++ [e]) = wstep cap (wrun cap sched) e.
Proof. unfold wrun. now rewrite fold_left_app. Qed.

(* the slot before the cursor holds both words of the metric added last (nil before the first Add) *)
Lemma w_prev_slot_last cap sched : cap > 0 ->
  let s := wrun cap sched in w_ring s (prev_slot cap (w_cur s)) = (w_last s, w_last s).
Proof.
  intros Hc. induction sched as [|e sched IH] using rev_ind; [reflexivity|].
  rewrite wrun_snoc. simpl in IH. destruct e as [m|r|r|r|r]; simpl; auto.
  - unfold prev_slot. replace (S (w_cur (wrun cap sched)) + cap - 1) with (w_cur (wrun cap sched) + 1 * cap) by lia.
    rewrite Nat.mod_add by lia. now rewrite Nat.eqb_refl.
  - destruct (lookup r (w_prev (wrun cap sched))); auto.
  - destruct (lookup r (w_prev (wrun cap sched))); auto. destruct (lookup r (w_w1 (wrun cap sched))); auto.
Qed.

Lemma window_latest_at_instant cap sched : cap > 0 -> forallb (wev_of Atomic) sched = true ->
  forall r v, In (r, v) (w_out (wrun cap sched)) ->
  exists k, k <= length sched /\ v = (w_last (wrun cap (firstn k sched)), w_last (wrun cap (firstn k sched))).
Proof.
  intros Hc. induction sched as [|e sched IH] using rev_ind; intros Hv r v Hin; [inversion Hin|].
  rewrite forallb_app in Hv. apply andb_true_iff in Hv. destruct Hv as [Hv He]. simpl in He.
  rewrite wrun_snoc in Hin. rewrite app_length. simpl.
  destruct e as [m|r'|r'|r'|r']; simpl in He; try discriminate; simpl in Hin.
  - destruct (IH Hv r v Hin) as [k [Hk E]]. exists k. split; [lia|]. now rewrite firstn_app_le.
  - destruct Hin as [Hin|Hin].
    + inversion Hin; subst. exists (length sched). split; [lia|]. rewrite firstn_app_all.
      apply (w_prev_slot_last cap sched Hc).
    + destruct (IH Hv r v Hin) as [k [Hk E]]. exists k. split; [lia|]. now rewrite firstn_app_le.
Qed.

Definition added (sched : list wev) : list N := flat_map (fun e => match e with WAdd m => [m] | _ => [] end) sched.

Lemma w_last_added cap sched : w_last (wrun cap sched) = last (added sched) 0%N.
Proof.
  induction sched as [|e sched IH] using rev_ind; [reflexivity|].
  rewrite wrun_snoc. unfold added. rewrite flat_map_app. fold (added sched).
  destruct e as [m|r|r|r|r]; simpl; rewrite ?app_nil_r; auto.
  - now rewrite last_last.
  - destruct (lookup r (w_prev (wrun cap sched))); auto.
  - destruct (lookup r (w_prev (wrun cap sched))); auto. destruct (lookup r (w_w1 (wrun cap sched))); auto.
Qed.

(* as pinned: the two words of the returned value can come from two different metrics *)
Lemma window_latest_torn_as_pinned : exists cap sched r a b,
  cap > 0 /\ forallb (wev_of Outside) sched = true /\ In (r, (a, b)) (w_out (wrun cap sched)) /\ a <> b.
Proof.
  exists 1, [WAdd 1%N; WPrev 0; WRead1 0; WAdd 2%N; WRead2 0], 0, 1%N, 2%N.
  split; [lia|]. split; [reflexivity|]. split; [vm_compute; auto|discriminate].
Qed.
