(* C08 — lemmas about the query form: Model/C08_Query.v *)
From V Require Import Base.Common Base.C08_Str Model.C08_Codec Model.C08_Query Proofs.C08_Str.
From Coq Require Import DecimalString DecimalN.
Open Scope string_scope.
Open Scope list_scope.
Open Scope Z_scope.
Notation "a +s+ b" := (String.append a b) (at level 60, right associativity).

(* ---------- decimal printing and parsing ---------- *)
Lemma to_uint_nonnil n : N.to_uint n <> Decimal.Nil.
Proof.
  intros E. pose proof (DecimalN.Unsigned.of_to n) as H. rewrite E in H. cbn in H. subst n. discriminate.
Qed.

Lemma print_uint_head n : exists c r, print_uint n = String c r /\ Ascii.eqb c "-" = false /\ Ascii.eqb c "+" = false.
Proof.
  unfold print_uint. pose proof (to_uint_nonnil n) as H.
  destruct (N.to_uint n); [congruence | ..]; cbn; eexists; eexists; repeat split.
Qed.

Lemma print_uint_nonempty n : print_uint n <> "".
Proof. destruct (print_uint_head n) as (c & r & E & _). rewrite E. discriminate. Qed.

Lemma parse_digits_print n : parse_digits (print_uint n) = Some n.
Proof.
  unfold parse_digits. destruct (print_uint_head n) as (c & r & E & _). rewrite E. rewrite <- E.
  unfold print_uint. rewrite NilEmpty.usu. cbn. f_equal. apply DecimalN.Unsigned.of_to.
Qed.

Lemma parse_uint64_print n : (n < 2 ^ 64)%N -> parse_uint64 (print_uint n) = Some n.
Proof. intros H. unfold parse_uint64. rewrite parse_digits_print. apply N.ltb_lt in H. now rewrite H. Qed.

Lemma print_int_nonempty z : print_int z <> "".
Proof. unfold print_int. destruct (z <? 0); [discriminate | apply print_uint_nonempty]. Qed.

Lemma atoi_print z : in_int64 z = true -> atoi (print_int z) = Some z.
Proof.
  intros H. unfold atoi, print_int. destruct (Z.ltb_spec z 0) as [Hn|Hp].
  - cbv beta iota. rewrite ascii_eqb_refl.
    rewrite parse_digits_print. cbn [option_map]. rewrite Z2N.id by lia.
    replace (- - z) with z by lia. now rewrite H.
  - destruct (print_uint_head (Z.to_N z)) as (c & r & E & A & B). rewrite E, A, B. rewrite <- E.
    rewrite parse_digits_print. cbn [option_map]. rewrite Z2N.id by lia. now rewrite H.
Qed.

(* ---------- url.Values ---------- *)
Lemma qset_fresh k v q : slookup k q = None -> qset k v q = q ++ [(k, v)].
Proof.
  induction q as [|[k' v'] r IH]; cbn; [reflexivity|]. destruct (String.eqb k k'); [discriminate|].
  intros H. now rewrite (IH H).
Qed.

Lemma qget_app k a b : qget k (a ++ b) = match slookup k a with Some v => v | None => qget k b end.
Proof. unfold qget. rewrite slookup_app. destruct (slookup k a); reflexivity. Qed.

(* ---------- the query ToQuery builds, written out ---------- *)
Definition base_q (o : opts) : query :=
  [("replication-min", print_int (rmin o)); ("replication-max", print_int (rmax o)); ("name", name o);
   ("mode", mode_string (mode o)); ("shard-size", print_uint (shard_size o));
   ("user-allocations", join_with "," (map tok_str (user_allocs o)))].
Definition nonempty_key (kv : string * string) : bool := negb (String.eqb (fst kv) "").
Definition meta_q (m : list (string * string)) : query :=
  map (fun kv => (meta_prefix +s+ fst kv, snd kv)) (filter nonempty_key m).
Definition exp_q (orc : oracle) (o : opts) : query :=
  match expire o with None => [] | Some t => match time_enc orc t with Some s => [("expire-at", s)] | None => [] end end.
Definition upd_q (o : opts) : query := match pin_update o with Some c => [("pin-update", c)] | None => [] end.
Definition org_q (o : opts) : query := match origins o with [] => [] | _ => [("origins", join_with "," (origins o))] end.

(* keys that cannot be a "meta-..." key: they do not start with the letter m *)
Definition not_m (k : string) : bool := match k with String c _ => negb (Ascii.eqb c "m") | EmptyString => true end.

Lemma eqb_meta_false k x : not_m k = true -> String.eqb k (meta_prefix +s+ x) = false.
Proof. destruct k as [|c r]; cbn; [reflexivity|]. intros H. apply negb_true_iff in H. now rewrite H. Qed.

Lemma slookup_meta_q k m : not_m k = true -> slookup k (meta_q m) = None.
Proof.
  intros H. unfold meta_q. induction (filter nonempty_key m) as [|kv r IH]; [reflexivity|].
  cbn [map slookup]. now rewrite (eqb_meta_false k (fst kv) H).
Qed.

Lemma meta_prefix_inj a b : meta_prefix +s+ a = meta_prefix +s+ b -> a = b.
Proof. cbn. congruence. Qed.

Lemma slookup_meta_q_notin k m : ~ In k (skeys m) -> slookup (meta_prefix +s+ k) (meta_q m) = None.
Proof.
  intros H. apply slookup_none_notin. intros I. apply H. unfold meta_q, skeys in I.
  rewrite map_map in I. apply in_map_iff in I as [kv [E I]]. cbn [fst] in E. apply meta_prefix_inj in E.
  apply filter_In in I as [I _]. subst k. now apply in_map.
Qed.

Lemma meta_q_cons kv m : meta_q (kv :: m) = (if nonempty_key kv then [(meta_prefix +s+ fst kv, snd kv)] else []) ++ meta_q m.
Proof. unfold meta_q. cbn [filter]. destruct (nonempty_key kv); reflexivity. Qed.

Lemma fold_meta m : forall q0, NoDup (skeys m) ->
  (forall k, In k (skeys m) -> slookup (meta_prefix +s+ k) q0 = None) ->
  fold_left (fun q kv => if String.eqb (fst kv) "" then q else qset (meta_prefix +s+ fst kv) (snd kv) q) m q0
  = q0 ++ meta_q m.
Proof.
  induction m as [|kv r IH]; intros q0 Hnd Hq; [cbn; now rewrite app_nil_r|].
  cbn [fold_left]. rewrite meta_q_cons. unfold nonempty_key.
  inversion Hnd as [|? ? Hni Hnd']; subst.
  destruct (String.eqb (fst kv) "") eqn:E; cbn [negb].
  - cbn [app]. apply IH; [exact Hnd'|]. intros k I. apply Hq. now right.
  - rewrite qset_fresh by (apply Hq; now left). rewrite IH; [now rewrite <- app_assoc | exact Hnd' |].
    intros k I. rewrite slookup_app, (Hq k (or_intror I)). cbn [slookup].
    destruct (String.eqb_spec (meta_prefix +s+ k) (meta_prefix +s+ fst kv)) as [Ek|]; [|reflexivity].
    apply meta_prefix_inj in Ek. subst k. contradiction.
Qed.

Lemma slookup_base_meta o k : slookup (meta_prefix +s+ k) (base_q o) = None.
Proof. reflexivity. Qed.

Lemma to_query_explicit orc o :
  NoDup (skeys (metadata o)) ->
  (match expire o with Some t => time_enc orc t <> None | None => True end) ->
  to_query orc o = Ok (base_q o ++ exp_q orc o ++ meta_q (metadata o) ++ upd_q o ++ org_q o).
Proof.
  intros Hnd He. unfold to_query.
  change (qset "user-allocations" _ _) with (base_q o).
  assert (Hexp : match expire o with
                 | None => Ok (base_q o)
                 | Some t => match time_enc orc t with Some s => Ok (qset "expire-at" s (base_q o)) | None => Err end
                 end = Ok (base_q o ++ exp_q orc o)).
  { unfold exp_q. destruct (expire o) as [t|]; [|now rewrite app_nil_r].
    destruct (time_enc orc t); [reflexivity | congruence]. }
  rewrite Hexp. rewrite fold_meta; [| exact Hnd |].
  2:{ intros k _. rewrite slookup_app, slookup_base_meta. unfold exp_q.
      destruct (expire o) as [t|]; [|reflexivity]. destruct (time_enc orc t); reflexivity. }
  f_equal.
  assert (Hn : forall k, not_m k = true -> slookup k (base_q o) = None ->
               slookup k ((base_q o ++ exp_q orc o) ++ meta_q (metadata o)) = slookup k (exp_q orc o)).
  { intros k Hk Hb. rewrite !slookup_app, Hb, (slookup_meta_q k _ Hk). destruct (slookup k (exp_q orc o)); reflexivity. }
  assert (Hu : (match pin_update o with
                | Some c => qset "pin-update" c ((base_q o ++ exp_q orc o) ++ meta_q (metadata o))
                | None => (base_q o ++ exp_q orc o) ++ meta_q (metadata o)
                end = ((base_q o ++ exp_q orc o) ++ meta_q (metadata o)) ++ upd_q o)).
  { unfold upd_q. destruct (pin_update o) as [c|]; [|now rewrite app_nil_r].
    apply qset_fresh. rewrite Hn by reflexivity. unfold exp_q.
    destruct (expire o) as [t|]; [|reflexivity]. destruct (time_enc orc t); reflexivity. }
  rewrite Hu.
  assert (Ho : (match origins o with
                | [] => ((base_q o ++ exp_q orc o) ++ meta_q (metadata o)) ++ upd_q o
                | _ :: _ => qset "origins" (join_with "," (origins o)) (((base_q o ++ exp_q orc o) ++ meta_q (metadata o)) ++ upd_q o)
                end = (((base_q o ++ exp_q orc o) ++ meta_q (metadata o)) ++ upd_q o) ++ org_q o)).
  { unfold org_q. destruct (origins o) as [|a r]; [now rewrite app_nil_r|].
    apply qset_fresh. rewrite slookup_app, Hn by reflexivity.
    assert (E1 : slookup "origins" (exp_q orc o) = None).
    { unfold exp_q. destruct (expire o) as [t|]; [|reflexivity]. destruct (time_enc orc t); reflexivity. }
    rewrite E1. unfold upd_q. destruct (pin_update o); reflexivity. }
  etransitivity; [exact Ho | now rewrite <- !app_assoc].
Qed.

(* ---------- reading that query back ---------- *)
Definition tail_q (orc : oracle) (o : opts) : query := exp_q orc o ++ meta_q (metadata o) ++ upd_q o ++ org_q o.

Lemma tail_lookup orc o k : not_m k = true ->
  slookup k (tail_q orc o) =
  match slookup k (exp_q orc o) with Some v => Some v | None =>
  match slookup k (upd_q o) with Some v => Some v | None => slookup k (org_q o) end end.
Proof.
  intros H. unfold tail_q. rewrite !slookup_app, (slookup_meta_q k _ H). reflexivity.
Qed.

Lemma wf_q_parts orc o : wf_q orc o = true ->
  in_int64 (rmin o) = true /\ in_int64 (rmax o) = true /\ (mode o = 0 \/ mode o = 1) /\ (shard_size o < 2 ^ 64)%N /\
  forallb (fun t => match t with TOk s => plain_text s && peer_dec orc s | _ => false end) (user_allocs o) = true /\
  match expire o with
  | None => True
  | Some t => exists s, time_enc orc t = Some s /\ s <> "" /\ time_dec orc s = Some t /\ mk_time (fst t) (snd t) = Some t
  end /\
  keys_sorted (metadata o) = true /\
  match pin_update o with Some c => c <> "" /\ cid_dec orc c = true | None => True end /\
  forallb (fun s => plain_text s && match addr_dec orc s with Some true => true | _ => false end) (origins o) = true.
Proof.
  unfold wf_q. intros H.
  apply andb_true_iff in H as [H Horg]. apply andb_true_iff in H as [H Hupd]. apply andb_true_iff in H as [H Hsort].
  apply andb_true_iff in H as [H Hexp]. apply andb_true_iff in H as [H Hua]. apply andb_true_iff in H as [H Hsh].
  apply andb_true_iff in H as [H Hmode]. apply andb_true_iff in H as [Hmin Hmax].
  repeat split; try assumption.
  - apply orb_true_iff in Hmode as [M|M]; apply Z.eqb_eq in M; auto.
  - now apply N.ltb_lt.
  - destruct (expire o) as [t|]; [|exact I].
    apply andb_true_iff in Hexp as [H1 H2].
    destruct (time_enc orc t) as [s|]; [|discriminate]. apply andb_true_iff in H1 as [Hs Hd].
    exists s. repeat split.
    + apply negb_true_iff, String.eqb_neq in Hs. exact Hs.
    + unfold opt_time_eqb in Hd. destruct (time_dec orc s) as [[a b]|]; [|discriminate].
      apply andb_true_iff in Hd as [A B]. apply Z.eqb_eq in A. apply N.eqb_eq in B. destruct t as [t1 t2]. cbn in A, B. now subst.
    + unfold mk_time. apply negb_true_iff in H2. rewrite H2. now destruct t.
  - destruct (pin_update o) as [c|]; [|exact I].
    apply andb_true_iff in Hupd as [H1 H2].
    split; [now apply negb_true_iff, String.eqb_neq in H1 | exact H2].
Qed.

Lemma mode_roundtrip m : m = 0 \/ m = 1 -> mode_from_string (mode_string m) = m.
Proof. intros [->| ->]; reflexivity. Qed.

Lemma plain_parts s : plain_text s = true -> s <> "" /\ has_char comma s = false.
Proof.
  unfold plain_text. intros H. apply andb_true_iff in H as [A B]. split.
  - now apply negb_true_iff, String.eqb_neq in A.
  - now apply negb_true_iff in B.
Qed.

(* user allocations: all accepted, comma-free, non-empty texts *)
Lemma ua_roundtrip orc ua :
  forallb (fun t => match t with TOk s => plain_text s && peer_dec orc s | _ => false end) ua = true ->
  allocs_of_query orc [] (join_with "," (map tok_str ua)) = ua.
Proof.
  unfold allocs_of_query. intros H. destruct ua as [|a r]; [reflexivity|].
  assert (Hall : forall t, In t (a :: r) -> exists s, t = TOk s /\ plain_text s = true /\ peer_dec orc s = true).
  { intros t I. rewrite forallb_forall in H. specialize (H t I). destruct t as [|s|s]; try discriminate.
    apply andb_true_iff in H as [A B]. now exists s. }
  assert (Hne : join_with "," (map tok_str (a :: r)) <> "").
  { apply join_nonempty; [discriminate|]. intros s I. apply in_map_iff in I as [t [E I]].
    destruct (Hall t I) as (s' & -> & P & _). cbn in E. subst s'. now apply plain_parts in P. }
  apply String.eqb_neq in Hne. rewrite Hne.
  rewrite split_join.
  - rewrite filter_all.
    + rewrite map_map. rewrite <- (map_id (a :: r)) at 2. apply map_ext_in. intros t I.
      destruct (Hall t I) as (s & -> & _). reflexivity.
    + intros s I. apply in_map_iff in I as [t [E I]]. destruct (Hall t I) as (s' & -> & _ & D). cbn in E. now subst.
  - discriminate.
  - apply forallb_forall. intros s I. apply in_map_iff in I as [t [E I]].
    destruct (Hall t I) as (s' & -> & P & _). cbn in E. subst s'. apply plain_parts in P as [_ P]. now rewrite P.
Qed.

Lemma origins_roundtrip orc l :
  forallb (fun s => plain_text s && match addr_dec orc s with Some true => true | _ => false end) l = true ->
  origins_of_query orc [] (match l with [] => "" | _ => join_with "," l end) = Ok l.
Proof.
  unfold origins_of_query. intros H. destruct l as [|a r]; [reflexivity|].
  assert (Hall : forall s, In s (a :: r) -> plain_text s = true /\ match addr_dec orc s with Some true => true | _ => false end = true).
  { intros s I. rewrite forallb_forall in H. specialize (H s I). now apply andb_true_iff in H. }
  assert (Hne : join_with "," (a :: r) <> "").
  { apply join_nonempty; [discriminate|]. intros s I. now apply Hall, proj1, plain_parts in I. }
  apply String.eqb_neq in Hne. rewrite Hne. rewrite split_join.
  - assert (F : forallb (fun s => match addr_dec orc s with Some true => true | _ => false end) (a :: r) = true)
      by (apply forallb_forall; intros s I; now apply Hall in I).
    now rewrite F.
  - discriminate.
  - apply forallb_forall. intros s I. apply Hall, proj1, plain_parts, proj2 in I. now rewrite I.
Qed.

(* ---------- metadata through the query ---------- *)
Lemma slookup_meta_q_in m k v : NoDup (skeys m) -> In (k, v) m -> k <> "" ->
  slookup (meta_prefix +s+ k) (meta_q m) = Some v.
Proof.
  induction m as [|kv r IH]; intros Hnd I Hk; [contradiction|].
  inversion Hnd as [|? ? Hni Hnd']; subst. rewrite meta_q_cons, slookup_app. destruct I as [->|I].
  - unfold nonempty_key. cbn [fst snd]. apply String.eqb_neq in Hk. rewrite Hk. cbn [negb slookup].
    now rewrite String.eqb_refl.
  - assert (Hne : fst kv <> k).
    { intros E. apply Hni. subst k. change (fst kv) with (fst (fst kv, v)). now apply in_map. }
    assert (E : slookup (meta_prefix +s+ k) (if nonempty_key kv then [(meta_prefix +s+ fst kv, snd kv)] else []) = None).
    { destruct (nonempty_key kv); [|reflexivity]. cbn [slookup].
      destruct (String.eqb_spec (meta_prefix +s+ k) (meta_prefix +s+ fst kv)) as [E|]; [|reflexivity].
      apply meta_prefix_inj in E. congruence. }
    rewrite E. now apply IH.
Qed.

Lemma flat_map_map_id {A B} (g : B -> list A) (h : A -> B) l : (forall x, In x l -> g (h x) = [x]) -> flat_map g (map h l) = l.
Proof.
  induction l as [|x r IH]; intros H; [reflexivity|]. cbn. rewrite (H x (or_introl eq_refl)). cbn. f_equal.
  apply IH. intros y I. apply H. now right.
Qed.

Lemma strip_meta k : strip_prefix meta_prefix (meta_prefix +s+ k) = Some k.
Proof. reflexivity. Qed.

Lemma meta_extract orc o : keys_sorted (metadata o) = true ->
  meta_of_query (base_q o ++ tail_q orc o) = filter nonempty_key (metadata o).
Proof.
  unfold meta_of_query. intros Hs. pose proof (keys_sorted_NoDup _ Hs) as Hnd.
  set (Q := base_q o ++ tail_q orc o).
  assert (Hb : flat_map (meta_pick Q) (base_q o) = []) by reflexivity.
  assert (He : flat_map (meta_pick Q) (exp_q orc o) = []).
  { unfold exp_q. destruct (expire o) as [t|]; [|reflexivity]. destruct (time_enc orc t); reflexivity. }
  assert (Hu : flat_map (meta_pick Q) (upd_q o) = []) by (unfold upd_q; destruct (pin_update o); reflexivity).
  assert (Ho : flat_map (meta_pick Q) (org_q o) = []) by (unfold org_q; destruct (origins o); reflexivity).
  assert (Hm : flat_map (meta_pick Q) (meta_q (metadata o)) = filter nonempty_key (metadata o)).
  { unfold meta_q. apply flat_map_map_id. intros [k v] I. apply filter_In in I as [I Hk].
    unfold nonempty_key in Hk. cbn [fst] in Hk. unfold meta_pick. cbn [fst snd]. rewrite strip_meta.
    apply negb_true_iff in Hk. rewrite Hk. apply String.eqb_neq in Hk.
    f_equal. f_equal. unfold qget, Q, tail_q. rewrite !slookup_app, slookup_base_meta.
    assert (E : slookup (meta_prefix +s+ k) (exp_q orc o) = None).
    { unfold exp_q. destruct (expire o) as [t|]; [|reflexivity]. destruct (time_enc orc t); reflexivity. }
    rewrite E. now rewrite (slookup_meta_q_in _ k v Hnd I Hk). }
  unfold Q at 2. unfold tail_q. rewrite !flat_map_app, Hb, He, Hm, Hu, Ho. cbn [app]. rewrite app_nil_r.
  apply ksort_sorted. now apply sorted_filter_nonempty.
Qed.

Lemma from_query_explicit orc now o : wf_q orc o = true ->
  from_query orc now zero_opts (base_q o ++ tail_q orc o) = Ok (lossy_q o).
Proof.
  intros H. destruct (wf_q_parts orc o H) as (Hmin & Hmax & Hmode & Hsh & Hua & Hexp & Hsort & Hupd & Horg).
  pose proof (meta_extract orc o Hsort) as Hmeta.
  set (Q := base_q o ++ tail_q orc o) in *.
  assert (G_name : qget "name" Q = name o) by reflexivity.
  assert (G_mode : qget "mode" Q = mode_string (mode o)) by reflexivity.
  assert (G_min : qget "replication-min" Q = print_int (rmin o)) by reflexivity.
  assert (G_max : qget "replication-max" Q = print_int (rmax o)) by reflexivity.
  assert (G_sh : qget "shard-size" Q = print_uint (shard_size o)) by reflexivity.
  assert (G_ua : qget "user-allocations" Q = join_with "," (map tok_str (user_allocs o))) by reflexivity.
  assert (T : forall k, not_m k = true -> slookup k (base_q o) = None ->
              qget k Q = match slookup k (exp_q orc o) with Some v => v | None =>
                         match slookup k (upd_q o) with Some v => v | None =>
                         match slookup k (org_q o) with Some v => v | None => "" end end end).
  { intros k Hk Hb. unfold qget, Q. rewrite slookup_app, Hb, (tail_lookup orc o k Hk).
    destruct (slookup k (exp_q orc o)); [reflexivity|]. destruct (slookup k (upd_q o)); reflexivity. }
  assert (G_rpl : qget "replication" Q = "").
  { rewrite T by reflexivity. unfold exp_q, upd_q, org_q.
    destruct (expire o) as [t|]; [destruct (time_enc orc t)|]; destruct (pin_update o); destruct (origins o); reflexivity. }
  assert (G_ei : qget "expire-in" Q = "").
  { rewrite T by reflexivity. unfold exp_q, upd_q, org_q.
    destruct (expire o) as [t|]; [destruct (time_enc orc t)|]; destruct (pin_update o); destruct (origins o); reflexivity. }
  assert (G_ea : qget "expire-at" Q = match expire o with Some t => match time_enc orc t with Some s => s | None => "" end | None => "" end).
  { rewrite T by reflexivity. unfold exp_q, upd_q, org_q.
    destruct (expire o) as [t|]; [destruct (time_enc orc t)|]; destruct (pin_update o); destruct (origins o); reflexivity. }
  assert (G_pu : qget "pin-update" Q = match pin_update o with Some c => c | None => "" end).
  { rewrite T by reflexivity. unfold exp_q, upd_q, org_q.
    destruct (expire o) as [t|]; [destruct (time_enc orc t)|]; destruct (pin_update o); destruct (origins o); reflexivity. }
  assert (G_or : qget "origins" Q = match origins o with [] => "" | _ => join_with "," (origins o) end).
  { rewrite T by reflexivity. unfold exp_q, upd_q, org_q.
    destruct (expire o) as [t|]; [destruct (time_enc orc t)|]; destruct (pin_update o); destruct (origins o); reflexivity. }
  unfold from_query. rewrite G_rpl. change (String.eqb "" "") with true. cbv iota zeta.
  unfold parse_int_param, shard_of_query. rewrite G_min, G_max, G_name, G_mode, G_sh, G_ua, G_ea, G_ei, G_pu, G_or.
  assert (N1 : String.eqb (print_int (rmin o)) "" = false) by (apply String.eqb_neq, print_int_nonempty).
  assert (N2 : String.eqb (print_int (rmax o)) "" = false) by (apply String.eqb_neq, print_int_nonempty).
  assert (N3 : String.eqb (print_uint (shard_size o)) "" = false) by (apply String.eqb_neq, print_uint_nonempty).
  rewrite N1, N2, N3, (atoi_print _ Hmin), (atoi_print _ Hmax), (parse_uint64_print _ Hsh).
  change (user_allocs zero_opts) with (@nil tok). rewrite (ua_roundtrip orc _ Hua).
  change (origins zero_opts) with (@nil string). rewrite (origins_roundtrip orc _ Horg).
  rewrite (mode_roundtrip _ Hmode), Hmeta.
  assert (Ex : expire_of_query orc now (expire zero_opts)
                 match expire o with Some t => match time_enc orc t with Some s => s | None => "" end | None => "" end "" = Ok (expire o)).
  { unfold expire_of_query. destruct (expire o) as [t|]; [|reflexivity]. destruct Hexp as (s & E1 & E2 & E3 & E4).
    rewrite E1. apply String.eqb_neq in E2. rewrite E2. cbn [negb]. now rewrite E3, E4. }
  rewrite Ex.
  assert (Eu : update_of_query orc (pin_update zero_opts) match pin_update o with Some c => c | None => "" end = Ok (pin_update o)).
  { unfold update_of_query. destruct (pin_update o) as [c|]; [|reflexivity]. destruct Hupd as [A B]. apply String.eqb_neq in A. now rewrite A, B. }
  rewrite Eu. reflexivity.
Qed.

Lemma query_roundtrip_l orc now o : wf_q orc o = true ->
  match to_query orc o with Ok q => from_query orc now zero_opts q | Err => Err end = Ok (lossy_q o).
Proof.
  intros H. destruct (wf_q_parts orc o H) as (_ & _ & _ & _ & _ & Hexp & Hsort & _ & _).
  rewrite to_query_explicit.
  - apply (from_query_explicit orc now o H).
  - now apply keys_sorted_NoDup.
  - destruct (expire o) as [t|]; [|exact I]. destruct Hexp as (s & E & _). congruence.
Qed.
