(* C15 — lemmas about the generic configuration interpreter (Model/C15_Config.v), for EVERY table, document,
   validator and oracle: a loaded configuration validates, survives save+load unchanged, contains every
   well-formed setting of the document, and its displayable form shows the marker for hidden members. *)
From Coq Require Import String Ascii List ZArith Bool NArith Lia.
From V Require Import Model.C15_Config.
Import ListNotations.
Open Scope string_scope.
Open Scope list_scope.

(* ---------------------------------------------------------------------------------------------- *)
(* equality tests *)
Lemma list_beq_eq {A} (e : A -> A -> bool) (He : forall x y, e x y = true -> x = y) a b :
  list_beq e a b = true -> a = b.
Proof. revert b. induction a as [|x xs IH]; destruct b as [|y ys]; simpl; try discriminate; auto.
  intros H. apply andb_true_iff in H. destruct H as [H1 H2]. f_equal; auto. Qed.

Lemma ostr_eqb_eq a b : ostr_eqb a b = true -> a = b.
Proof. destruct a, b; simpl; try discriminate; auto. intros H. apply String.eqb_eq in H. now subst. Qed.

Lemma val_eqb_eq a b : val_eqb a b = true -> a = b.
Proof. destruct a, b; simpl; try discriminate; auto; intros H.
  - apply Bool.eqb_prop in H. now subst.
  - apply Z.eqb_eq in H. now subst.
  - apply String.eqb_eq in H. now subst.
  - f_equal. apply (list_beq_eq String.eqb); auto. intros x y E. now apply String.eqb_eq.
  - f_equal. apply (list_beq_eq ostr_eqb); auto. apply ostr_eqb_eq. Qed.

(* ---------------------------------------------------------------------------------------------- *)
(* looking a member up in the saved form *)
Definition sval (f : field) (v : val) : val := match save_field f v with [] => VNone | (_, x) :: _ => x end.

Lemma jget_app k a b : jget k (a ++ b) = match jget k a with Some x => Some x | None => jget k b end.
Proof. induction a as [|[k' v] r IH]; simpl; auto. destruct (String.eqb k k'); auto. Qed.

Lemma jget_none k j : (forall x, ~ In (k, x) j) -> jget k j = None.
Proof. induction j as [|[k' v] r IH]; simpl; auto. intros H. destruct (String.eqb_spec k k') as [->|N].
  - exfalso. apply (H v). now left.
  - apply IH. intros x Hx. apply (H x). now right. Qed.

Lemma save_field_key f v n x : In (n, x) (save_field f v) -> n = fname f.
Proof. unfold save_field. destruct (fsave f); simpl;
  repeat match goal with |- context [if ?b then _ else _] => destruct b end; simpl; intuition congruence. Qed.

Lemma save_field_shape f v : save_field f v = [] \/ exists x, save_field f v = [(fname f, x)].
Proof. unfold save_field. destruct (fsave f); simpl;
  repeat match goal with |- context [if ?b then _ else _] => destruct b end; eauto. Qed.

Lemma save_fields_keys fs : forall c n x, In (n, x) (save_fields fs c) -> In n (map fname fs).
Proof. induction fs as [|f r IH]; intros c n x; simpl; [tauto|]. destruct c as [|v cr]; simpl; [tauto|].
  intros H. apply in_app_or in H. destruct H as [H|H].
  - left. symmetry. eapply save_field_key; eauto.
  - right. eapply IH; eauto. Qed.

Lemma jval_save_gen fs : forall c pre,
  NoDup (map fname fs) -> length fs = length c ->
  (forall f, In f fs -> jget (fname f) pre = None) ->
  Forall2 (fun f v => jget (fname f) (pre ++ save_fields fs c) = match save_field f v with [] => None | (_, x) :: _ => Some x end) fs c.
Proof. induction fs as [|f r IH]; intros c pre ND L Hpre; destruct c as [|v cr]; simpl in *; try discriminate; constructor.
  - rewrite jget_app, (Hpre f) by auto. rewrite jget_app.
    inversion ND as [|? ? Hnin ND']; subst.
    destruct (save_field_shape f v) as [E|[x E]]; rewrite E; simpl.
    + apply jget_none. intros y Hy. apply Hnin. eapply save_fields_keys; eauto.
    + now rewrite String.eqb_refl.
  - inversion ND as [|? ? Hnin ND']; subst.
    replace (pre ++ save_field f v ++ save_fields r cr) with ((pre ++ save_field f v) ++ save_fields r cr) by now rewrite app_assoc.
    apply IH; auto. intros g Hg. rewrite jget_app, (Hpre g) by auto.
    apply jget_none. intros y Hy. apply save_field_key in Hy. apply Hnin. rewrite <- Hy. now apply in_map. Qed.

Lemma Forall2_imp {A B} (P Q : A -> B -> Prop) l l' : (forall a b, P a b -> Q a b) -> Forall2 P l l' -> Forall2 Q l l'.
Proof. intros H F. induction F; constructor; auto. Qed.

Lemma jval_save fs c : NoDup (map fname fs) -> length fs = length c ->
  Forall2 (fun f v => jval (fname f) (save_fields fs c) = sval f v) fs c.
Proof. intros ND L. pose proof (jval_save_gen fs c [] ND L (fun _ _ => eq_refl)) as H. simpl in H.
  eapply Forall2_imp; [|exact H]. intros f v E. unfold jval, sval. simpl in E. rewrite E.
  destruct (save_field f v) as [|[? x] ?]; reflexivity. Qed.

(* ---------------------------------------------------------------------------------------------- *)
(* what a rule can produce from a well-typed value *)
Definition reach (f : field) (v : val) : Prop :=
  exists pp jv, well_typed (fkind f) jv = true /\ apply_rule (fload f) (fkind f) pp (fdef f) jv = Some v.

Lemma soft_rule r g : soft_group r = Some g -> r = LDurSoft g.
Proof. destruct r; simpl; try discriminate. intros H. now inversion H. Qed.

Lemma option_map_cons_some {A} (x : A) o c : option_map (cons x) o = Some c -> exists c', o = Some c' /\ c = x :: c'.
Proof. destruct o; simpl; [|discriminate]. intros H. inversion H. eauto. Qed.

(* one step of apply_fields: either the member is skipped (keeps its current value) inside a discarded-error group,
   or its rule is applied to the document's value *)
Lemma apply_fields_step f r cur br j ab c :
  apply_fields (f :: r) (cur :: br) j ab = Some c ->
  exists x c' ab', c = x :: c' /\ apply_fields r br j ab' = Some c' /\
    ((x = cur /\ exists g, fload f = LDurSoft g) \/
     (apply_rule (fload f) (fkind f) (fun p => jhas p j) cur (jval (fname f) j) = Some x /\ ab' = ab)).
Proof. simpl. destruct (soft_group (fload f)) as [g|] eqn:SG.
  - apply soft_rule in SG. destruct (memNb g ab).
    + intros H. apply option_map_cons_some in H. destruct H as [c' [E ->]]. exists cur, c', ab. split; [auto|]. split; [auto|]. left. eauto.
    + destruct (is_bad (jval (fname f) j)).
      * intros H. apply option_map_cons_some in H. destruct H as [c' [E ->]]. exists cur, c', (g :: ab). split; [auto|]. split; [auto|]. left. eauto.
      * destruct (apply_rule _ _ _ _ _) as [x|] eqn:A; [|discriminate].
        intros H. apply option_map_cons_some in H. destruct H as [c' [E ->]]. exists x, c', ab. split; [auto|]. split; [auto|]. right. auto.
  - destruct (apply_rule _ _ _ _ _) as [x|] eqn:A; [|discriminate].
    intros H. apply option_map_cons_some in H. destruct H as [c' [E ->]]. exists x, c', ab. split; [auto|]. split; [auto|]. right. auto. Qed.

Lemma apply_fields_length fs : forall base j ab c, apply_fields fs base j ab = Some c -> length c = length fs.
Proof. induction fs as [|f r IH]; intros base j ab c H.
  - simpl in H. now inversion H.
  - destruct base as [|cur br]; [discriminate H|]. apply apply_fields_step in H.
    destruct H as [x [c' [ab' [-> [H _]]]]]. simpl. f_equal. eauto. Qed.

Lemma apply_fields_reach fs : forall j ab c,
  forallb (fun f => well_typed (fkind f) (jval (fname f) j)) fs = true ->
  apply_fields fs (map fdef fs) j ab = Some c -> Forall2 reach fs c.
Proof. induction fs as [|f r IH]; intros j ab c T H.
  - simpl in H. inversion H. constructor.
  - simpl in T. apply andb_true_iff in T. destruct T as [Tf Tr].
    simpl map in H. apply apply_fields_step in H. destruct H as [x [c' [ab' [-> [H D]]]]].
    constructor; [|eapply IH; eauto].
    destruct D as [[-> [g Eg]]|[A _]].
    + exists (fun _ => false), VNone. split; [reflexivity|]. rewrite Eg. reflexivity.
    + exists (fun p => jhas p j), (jval (fname f) j). auto. Qed.

(* ---------------------------------------------------------------------------------------------- *)
(* lists *)
Lemma all_some_map_some l : all_some (map Some l) = Some l.
Proof. induction l as [|x r IH]; simpl; auto. now rewrite IH. Qed.

Lemma all_some_keep l q : all_some l = Some q -> keep_some l = q.
Proof. revert q. induction l as [|[x|] r IH]; simpl; intros q H; try discriminate.
  - now inversion H.
  - destruct (all_some r); simpl in H; [|discriminate]. inversion H. f_equal. auto. Qed.

Lemma wf_all_some l : forallb (fun o : option string => match o with Some _ => true | None => false end) l = true ->
  all_some l = Some (keep_some l).
Proof. induction l as [|[x|] r IH]; simpl; intros H; try discriminate; auto. now rewrite IH. Qed.

(* the trusted-peers scan returns either ["*"] or a star-free list, and scanning its own result changes nothing *)
Fixpoint star_free (l : list string) : bool :=
  match l with [] => true | x :: r => negb (String.eqb x "*") && star_free r end.

Lemma star_free_not_star q : star_free q = true -> is_star_list q = false.
Proof. destruct q as [|x [|y t]]; simpl; auto. intros H. apply andb_true_iff in H. destruct H as [H _].
  now apply negb_true_iff in H. Qed.

Lemma star_scan_shape l q : star_scan l = Some q -> q = ["*"] \/ star_free q = true.
Proof. revert q. induction l as [|[p|] r IH]; simpl; intros q H; try discriminate.
  - inversion H. now right.
  - destruct (String.eqb p "*") eqn:E; [inversion H; now left|].
    destruct (star_scan r) as [q'|]; [|discriminate].
    destruct (is_star_list q') eqn:IS; [inversion H; now left|].
    inversion H; subst. destruct (IH q' eq_refl) as [->|F].
    + simpl in IS. discriminate IS.
    + right. simpl. now rewrite E. Qed.

Lemma star_scan_fixed q : q = ["*"] \/ star_free q = true -> star_scan (map Some q) = Some q.
Proof. intros [->|F]; [reflexivity|]. induction q as [|x t IH]; simpl; auto.
  simpl in F. apply andb_true_iff in F. destruct F as [Fx Ft]. apply negb_true_iff in Fx. rewrite Fx.
  rewrite (IH Ft). now rewrite (star_free_not_star _ Ft). Qed.

Lemma star_scan_idem l q : star_scan l = Some q -> star_scan (map Some q) = Some q.
Proof. intros H. apply star_scan_fixed. eapply star_scan_shape; eauto. Qed.

(* ---------------------------------------------------------------------------------------------- *)
(* a loaded value is a fixed point of its own rule: read back explicitly, or (when zero and omitted) read back as absent *)
Ltac inv H := inversion H; subst; clear H.
(* one level of case analysis on a value: the shapes the rules distinguish *)
Ltac case_val v := destruct v as [ | [|] | [|?|?] | [|? ?] | [|? ?] | ? | | ].
Ltac fin := red; simpl in *; repeat split; intros; simpl in *; try discriminate; try congruence; auto.

Section Stable.
Variable pp' : string -> bool.

Definition absorbs (lr : lrule) (k : kind) (om : bool) (d v : val) : Prop :=
  apply_rule lr k pp' d v = Some v
  /\ (om = true -> is_zero v = true -> is_dur k = false -> apply_rule lr k pp' d VNone = Some v)
  /\ well_typed k v = true /\ v <> VBad.

(* scalar rules: the default d has the member's type *)
Lemma absorbs_scalar lr k om d jv v pp :
  match lr with
  | LAlways => kind_in k [KBool; KInt; KFloat; KStr]
  | LIfNonZero | LMergeNonZero => kind_in k [KBool; KInt; KFloat; KStr]
  | LPtrIfNonNil => kind_in k [KBool; KInt; KFloat] && negb om
  | LDurIfNonEmpty | LDurIgnoreErr | LDurSoft _ | LDurZeroOnErr | LDurEmptyZero => kind_in k [KDur]
  | LParseAlways _ | LParseIfNonEmpty => kind_in k [KTok]
  | _ => false end = true ->
  cfg_typed k d = true -> well_typed k jv = true ->
  apply_rule lr k pp d jv = Some v -> absorbs lr k om d v.
Proof.
  intros OK TD T A.
  destruct lr; try discriminate OK; destruct k; simpl in OK; try discriminate OK;
  case_val d; simpl in TD; try discriminate TD;
  case_val jv; simpl in T; try discriminate T; simpl in A; try discriminate A;
  try (destruct om; simpl in OK; try discriminate OK);
  try (match type of A with context [if ?b then _ else _] => destruct b end);
  try discriminate A; try (inv A); fin.
Qed.

Lemma norm_list_typed jv l : norm_list jv = Some l -> norm_list (VL l) = Some l.
Proof. reflexivity. Qed.

(* list-valued rules *)
Lemma absorbs_list lr om d jv v pp :
  match lr with LAlways | LIfNonZero | LMergeNonZero | LParseListAlways | LParseListIfNonEmpty | LParseListSkipBad => true | _ => false end = true ->
  cfg_typed KList d = true -> well_typed KList jv = true ->
  apply_rule lr KList pp d jv = Some v -> absorbs lr KList om d v.
Proof.
  intros OK TD T A.
  destruct d as [ | | | | dl | | | ]; simpl in TD; try discriminate TD.
  destruct lr; try discriminate OK; simpl in A.
  - (* LAlways *) assert (E : exists l, v = VL l).
    { destruct jv; simpl in *; try discriminate; inv A; eauto. destruct (all_some l); simpl in *; [|discriminate]. inv H0. eauto. }
    destruct E as [l ->]. destruct l; fin.
  - (* LIfNonZero *) assert (E : v = VL dl \/ exists x l, v = VL (x :: l)).
    { destruct (norm_list jv) as [[|x l]|]; [| |discriminate]; inv A; eauto. }
    destruct E as [->|[x [l ->]]]; destruct dl; fin.
  - (* LMergeNonZero *) assert (E : v = VL dl \/ exists x l, v = VL (x :: l)).
    { destruct (norm_list jv) as [[|x l]|]; [| |discriminate]; inv A; eauto. }
    destruct E as [->|[x [l ->]]]; destruct dl; fin.
  - (* LParseListAlways *) destruct (norm_list jv) as [l|]; simpl in A; [|discriminate]. inv A. destruct l; fin.
  - (* LParseListIfNonEmpty *) assert (E : v = VL dl \/ exists x l, v = VL (x :: l)).
    { destruct (norm_list jv) as [[|x l]|]; [| |discriminate]; inv A; eauto. }
    destruct E as [->|[x [l ->]]]; destruct dl; fin.
  - (* LParseListSkipBad *) assert (E : exists l, v = VL l).
    { destruct jv; simpl in *; try discriminate; inv A; eauto. }
    destruct E as [l ->]. destruct l; fin.
Qed.

(* maps (basic_auth_credentials, headers): always assigned, never omitempty *)
Lemma absorbs_map d jv v pp :
  cfg_typed KMap d = true -> well_typed KMap jv = true ->
  apply_rule LAlways KMap pp d jv = Some v -> absorbs LAlways KMap false d v.
Proof. intros TD T A. case_val jv; simpl in T; try discriminate T; simpl in A; inv A; fin. Qed.

Lemma absorbs_enum a om d jv v pp :
  om = false -> well_typed KStr jv = true ->
  apply_rule (LEnum a) KStr pp d jv = Some v -> absorbs (LEnum a) KStr om d v.
Proof. intros -> T A. simpl in A.
  assert (E : exists s, v = VS s /\ existsb (String.eqb s) a = true).
  { destruct jv; simpl in *; try discriminate;
    match type of A with context [if ?b then _ else _] => destruct b eqn:Eb end; try discriminate; inv A; eauto. }
  destruct E as [s [-> Es]]. unfold absorbs. simpl. rewrite Es.
  split; [reflexivity|]. split; [intros H; discriminate H|]. split; [destruct s; reflexivity|discriminate]. Qed.

(* members of a pointer-struct: when the enclosing object is present the inner rule runs from the reset value *)
Lemma absorbs_parent p inner r k om d jv v pp :
  pp' p = true ->
  match inner with
  | LAlways => kind_in k [KBool; KInt; KFloat; KStr] && negb om
  | LDurIfNonEmpty => kind_in k [KDur] && cfg_typed k r
  | _ => false end = true ->
  cfg_typed k d = true -> well_typed k jv = true ->
  apply_rule (LIfParent p inner r) k pp d jv = Some v -> absorbs (LIfParent p inner r) k om d v.
Proof.
  intros PP OK TD T A. unfold absorbs. simpl. rewrite PP. simpl in A.
  destruct inner; try discriminate OK; destruct k; simpl in OK; try discriminate OK;
  try (destruct om; simpl in OK; try discriminate OK);
  case_val d; simpl in TD; try discriminate TD;
  destruct (pp p); simpl in A;
  try (case_val r; simpl in OK; try discriminate OK);
  case_val jv; simpl in T; try discriminate T; simpl in A; try discriminate A; inv A;
  simpl; repeat split; intros; simpl in *; try discriminate; try congruence; auto.
Qed.

Lemma absorbs_custom id k om d jv v pp :
  custom_ok id k = true -> well_typed k jv = true ->
  apply_rule (LCustom id) k pp d jv = Some v -> absorbs (LCustom id) k om d v.
Proof.
  intros OK T A. unfold absorbs. simpl in *. unfold custom_ok in OK. unfold custom_load in *.
  destruct (String.eqb id "crdt.trusted_peers") eqn:E1.
  - apply String.eqb_eq in E1. subst id. simpl in OK. destruct k; simpl in OK; try discriminate OK.
    destruct (as_tl jv) as [l|] eqn:AT; [|discriminate]. destruct (star_scan l) as [q|] eqn:SS; simpl in A; [|discriminate]. inv A.
    simpl. rewrite (star_scan_idem _ _ SS). simpl. repeat split; intros; try discriminate; auto.
    destruct q; simpl in *; [reflexivity|discriminate].
  - simpl in OK. destruct (String.eqb id "restapi.ssl_cert_file" || String.eqb id "restapi.ssl_key_file"); simpl in OK; [|discriminate].
    destruct k; simpl in OK; try discriminate OK.
    case_val jv; simpl in T; try discriminate T; inv A; simpl; repeat split; intros; simpl in *; try discriminate; auto.
Qed.
End Stable.


Definition sv_always (k : kind) (om : bool) (v : val) : val := if om && is_zero v && negb (is_dur k) then VNone else v.

Lemma sval_always f v : (fsave f = SAlways \/ exists id, fsave f = SCustom id) -> sval f v = sv_always (fkind f) (fomit f) v.
Proof. unfold sval, save_field, sv_always, omitted. intros [E|[id E]]; rewrite E;
  destruct (fomit f && is_zero v && negb (is_dur (fkind f))); reflexivity. Qed.

Lemma sval_omit f v d0 : fsave f = SOmitIfDefault d0 ->
  sval f v = if val_eqb v d0 then VNone else sv_always (fkind f) (fomit f) v.
Proof. unfold sval, save_field, sv_always, omitted. intros E; rewrite E. destruct (val_eqb v d0); [reflexivity|].
  destruct (fomit f && is_zero v && negb (is_dur (fkind f))); reflexivity. Qed.

Lemma well_typed_none k : well_typed k VNone = true.
Proof. destruct k; reflexivity. Qed.

Lemma concl_always pp' lr k om d v : absorbs pp' lr k om d v ->
  apply_rule lr k pp' d (sv_always k om v) = Some v /\ well_typed k (sv_always k om v) = true /\ sv_always k om v <> VBad.
Proof. intros [A1 [A2 [A3 A4]]]. unfold sv_always. destruct (om && is_zero v && negb (is_dur k)) eqn:OM.
  - apply andb_true_iff in OM. destruct OM as [OM1 OM3]. apply andb_true_iff in OM1. destruct OM1 as [OM1 OM2].
    apply negb_true_iff in OM3. split; [apply A2; auto|]. split; [apply well_typed_none | discriminate].
  - auto. Qed.

(* every rule pair the table obligations admit (except the two that read nothing) makes loaded values fixed points *)
Lemma field_absorbs f v pp' :
  field_ok f = true -> reach f v -> (forall p, parent_of (fload f) = Some p -> pp' p = true) ->
  fload f <> LNever -> fload f <> LGroup -> absorbs pp' (fload f) (fkind f) (fomit f) (fdef f) v.
Proof.
  destruct f as [n k om hid lr sr d cl cs]. unfold field_ok, reach. simpl.
  intros OK [pp [jv [T A]]] PP NN NG. apply andb_true_iff in OK. destruct OK as [TD M].
  assert (SC : forall lr', match lr' with
     | LAlways | LIfNonZero | LMergeNonZero => kind_in k [KBool; KInt; KFloat; KStr]
     | LPtrIfNonNil => kind_in k [KBool; KInt; KFloat] && negb om
     | LDurIfNonEmpty | LDurIgnoreErr | LDurSoft _ | LDurZeroOnErr | LDurEmptyZero => kind_in k [KDur]
     | LParseAlways _ | LParseIfNonEmpty => kind_in k [KTok]
     | _ => false end = true -> lr' = lr -> absorbs pp' lr k om d v).
  { intros lr' H <-. eapply absorbs_scalar; eauto. }
  destruct lr.
  - (* LAlways *) destruct sr; try discriminate M. destruct k; simpl in M; try discriminate M;
    try (apply (SC LAlways); reflexivity).
    + eapply absorbs_list; eauto.
    + destruct om; simpl in M; try discriminate M. eapply absorbs_map; eauto.
  - (* LIfNonZero *) destruct sr; try discriminate M; destruct k; simpl in M; try discriminate M;
    try (apply (SC LIfNonZero); reflexivity); eapply absorbs_list; eauto.
  - (* LMergeNonZero *) destruct sr; try discriminate M; destruct k; simpl in M; try discriminate M;
    try (apply (SC LMergeNonZero); reflexivity); eapply absorbs_list; eauto.
  - (* LPtrIfNonNil *) destruct sr; try discriminate M. apply (SC LPtrIfNonNil); [|reflexivity].
    destruct k; simpl in M |- *; try discriminate M; exact M.
  - destruct sr; try discriminate M; (apply (SC LDurIfNonEmpty); [destruct k; simpl in M |- *; try discriminate M; reflexivity|reflexivity]).
  - destruct sr; try discriminate M; (apply (SC LDurIgnoreErr); [destruct k; simpl in M |- *; try discriminate M; reflexivity|reflexivity]).
  - destruct sr; try discriminate M; (apply (SC (LDurSoft g)); [destruct k; simpl in M |- *; try discriminate M; reflexivity|reflexivity]).
  - destruct sr; try discriminate M; (apply (SC LDurZeroOnErr); [destruct k; simpl in M |- *; try discriminate M; reflexivity|reflexivity]).
  - destruct sr; try discriminate M; (apply (SC LDurEmptyZero); [destruct k; simpl in M |- *; try discriminate M; reflexivity|reflexivity]).
  - destruct sr; try discriminate M; (apply (SC (LParseAlways empty_ok)); [destruct k; simpl in M |- *; try discriminate M; reflexivity|reflexivity]).
  - destruct sr; try discriminate M; (apply (SC LParseIfNonEmpty); [destruct k; simpl in M |- *; try discriminate M; reflexivity|reflexivity]).
  - destruct sr; try discriminate M; destruct k; simpl in M; try discriminate M; eapply absorbs_list; eauto.
  - destruct sr; try discriminate M; destruct k; simpl in M; try discriminate M; eapply absorbs_list; eauto.
  - destruct sr; try discriminate M; destruct k; simpl in M; try discriminate M; eapply absorbs_list; eauto.
  - (* LEnum *) destruct sr; try discriminate M. destruct k; simpl in M; try discriminate M.
    destruct om; simpl in M; try discriminate M. eapply absorbs_enum; eauto.
  - congruence.
  - congruence.
  - (* LIfParent *) destruct sr; try (destruct lr; discriminate M).
    eapply absorbs_parent; eauto. all: try (destruct lr; try discriminate M; exact M).
  - (* LCustom *) destruct sr; try discriminate M; eapply absorbs_custom; eauto.
Qed.

Lemma field_stable f v pp' :
  field_ok f = true -> reach f v -> (forall p, parent_of (fload f) = Some p -> pp' p = true) ->
  apply_rule (fload f) (fkind f) pp' (fdef f) (sval f v) = Some v
  /\ well_typed (fkind f) (sval f v) = true /\ sval f v <> VBad.
Proof.
  intros OK R PP.
  destruct (fload f) as [ | | | | | | g | | | eo | | | | | a | | | p inner reset | id ] eqn:EL.
  all: try (
    (* rules that read the document *)
    assert (AB : absorbs pp' (fload f) (fkind f) (fomit f) (fdef f) v) by
      (apply field_absorbs; [exact OK | exact R | rewrite EL; exact PP | rewrite EL; discriminate | rewrite EL; discriminate]);
    rewrite EL in AB;
    destruct (fsave f) eqn:ES;
    [ rewrite (sval_always f v) by (left; exact ES); apply concl_always; exact AB
    | | | | rewrite (sval_always f v) by (right; eexists; exact ES); apply concl_always; exact AB ];
    unfold field_ok in OK; rewrite EL, ES in OK; apply andb_true_iff in OK; destruct OK as [TD M];
    try discriminate M;
    try (destruct inner; discriminate M)).
  all: try (
    (* SOmitIfDefault *)
    apply andb_true_iff in M; destruct M as [MK MD]; apply val_eqb_eq in MD; subst d;
    rewrite (sval_omit f v (fdef f) ES);
    destruct (val_eqb v (fdef f)) eqn:EV;
    [ apply val_eqb_eq in EV; subst v; split; [|split; [apply well_typed_none | discriminate]];
      destruct (fkind f); simpl in MK; try discriminate MK; reflexivity
    | apply concl_always; exact AB ]).
  - (* LNever *) unfold field_ok in OK. rewrite EL in OK. apply andb_true_iff in OK. destruct OK as [TD M].
    destruct (fsave f) eqn:ES; try discriminate M.
    destruct R as [pp [jv [T A]]]. rewrite EL in A. simpl in A. inversion A; subst.
    unfold sval, save_field. rewrite ES. simpl. split; [reflexivity|]. split; [first [reflexivity | apply well_typed_none] | discriminate].
  - (* LGroup *) unfold field_ok in OK. rewrite EL in OK. apply andb_true_iff in OK. destruct OK as [TD M].
    destruct (fsave f) eqn:ES; try discriminate M.
    destruct R as [pp [jv [T A]]]. rewrite EL in A. simpl in A. inversion A; subst.
    unfold sval, save_field. rewrite ES. simpl. split; [reflexivity|].
    destruct (fkind f); simpl in M; try discriminate M. split; [reflexivity | discriminate].
Qed.

(* ---------------------------------------------------------------------------------------------- *)
(* save then load *)
Lemma nodup_strs_NoDup l : nodup_strs l = true -> NoDup l.
Proof. induction l as [|x r IH]; simpl; intros H; constructor.
  - apply andb_true_iff in H. destruct H as [H _]. apply negb_true_iff in H. intros Hin.
    assert (E : existsb (String.eqb x) r = true) by (apply existsb_exists; exists x; split; auto; apply String.eqb_refl).
    congruence.
  - apply andb_true_iff in H. tauto. Qed.

Lemma Forall2_in_l {A B} (P : A -> B -> Prop) l l' a : Forall2 P l l' -> In a l -> exists b, In b l' /\ P a b.
Proof. intros F. induction F as [|x y l l' Pxy F IH]; simpl; [tauto|]. intros [->|Hin]; [eauto|].
  destruct (IH Hin) as [b [Hb Pb]]. eauto. Qed.

Lemma Forall2_forall_l {A B} (P : A -> B -> Prop) (Q : A -> Prop) l l' :
  Forall2 P l l' -> (forall a, In a l -> Q a) -> Forall2 (fun a b => P a b /\ Q a) l l'.
Proof. intros F. induction F as [|x y l l' Pxy F IH]; intros HQ; constructor; auto.
  - split; auto. apply HQ. now left.
  - apply IH. intros a Ha. apply HQ. now right. Qed.

Lemma Forall2_and {A B} (P Q : A -> B -> Prop) l l' : Forall2 P l l' -> Forall2 Q l l' -> Forall2 (fun a b => P a b /\ Q a b) l l'.
Proof. intros F. induction F as [|x y l l' Pxy F IH]; intros G; inversion G; subst; constructor; auto. Qed.

Lemma apply_fields_rebuild fs : forall j' c,
  Forall2 (fun f v => apply_rule (fload f) (fkind f) (fun p => jhas p j') (fdef f) (jval (fname f) j') = Some v
                      /\ is_bad (jval (fname f) j') = false) fs c ->
  apply_fields fs (map fdef fs) j' [] = Some c.
Proof. intros j' c F. induction F as [|f v r cr [A B] F IH]; simpl; auto.
  destruct (soft_group (fload f)); simpl; rewrite ?B, A, IH; reflexivity. Qed.

Lemma jval_jhas p j : jval p j = VB true -> jhas p j = true.
Proof. unfold jval, jhas, jin. destruct (jget p j) as [[]|]; try discriminate; auto. Qed.

Lemma not_bad v : v <> VBad -> is_bad v = false.
Proof. destruct v; simpl; auto. congruence. Qed.

Lemma coherent_parts S : schema_coherentb S = true ->
  NoDup (map fname (sfields S)) /\ forallb field_ok (sfields S) = true /\ forallb (parent_ok (sfields S)) (sfields S) = true
  /\ forallb (fun f => negb (fhidden f) || top_level (fname f)) (sfields S) = true.
Proof. unfold schema_coherentb. intros H.
  apply andb_true_iff in H. destruct H as [H _]. apply andb_true_iff in H. destruct H as [H _].
  apply andb_true_iff in H. destruct H as [H _]. apply andb_true_iff in H. destruct H as [H H4].
  apply andb_true_iff in H. destruct H as [H H3]. apply andb_true_iff in H. destruct H as [H1 H2].
  split; [now apply nodup_strs_NoDup|]. auto. Qed.

Theorem load_save_load_l S V orc j c :
  schema_coherentb S = true -> load S V orc j = Some c ->
  V orc (cget S c) = true /\ load S V orc (save S c) = Some c.
Proof.
  unfold load, apply_json. intros CO L.
  destruct (coherent_parts S CO) as [ND [FOK [POK _]]]. clear CO. rename ND into CO.
  destruct (typed_ok S j) eqn:TY; simpl in L; [|discriminate].
  destruct (apply_fields (sfields S) (defaults S) j []) as [c0|] eqn:AF; [|discriminate].
  destruct (V orc (cget S c0)) eqn:VV; [|discriminate]. inversion L; subst c0. split; [exact VV|].
  assert (LEN : length (sfields S) = length c) by (symmetry; eapply apply_fields_length; eauto).
  pose proof (apply_fields_reach _ _ _ _ TY AF) as RE.
  pose proof (jval_save _ _ CO LEN) as JS. fold (save S c) in JS.
  (* parents are present in the saved form *)
  assert (PAR : forall f, In f (sfields S) -> forall p, parent_of (fload f) = Some p -> jhas p (save S c) = true).
  { intros f Hf p Hp. rewrite forallb_forall in POK. specialize (POK f Hf). unfold parent_ok in POK. rewrite Hp in POK.
    apply existsb_exists in POK. destruct POK as [g [Hg Eg]]. apply andb_true_iff in Eg. destruct Eg as [En Egf].
    apply String.eqb_eq in En. subst p.
    destruct (Forall2_in_l _ _ _ g JS Hg) as [vg [_ Evg]]. apply jval_jhas. rewrite Evg.
    unfold is_group_field in Egf. unfold sval, save_field. destruct (fload g); try discriminate Egf. destruct (fsave g); try discriminate Egf. reflexivity. }
  assert (ST : Forall2 (fun f v => apply_rule (fload f) (fkind f) (fun p => jhas p (save S c)) (fdef f) (jval (fname f) (save S c)) = Some v
                                   /\ well_typed (fkind f) (jval (fname f) (save S c)) = true
                                   /\ is_bad (jval (fname f) (save S c)) = false) (sfields S) c).
  { pose proof (Forall2_and _ _ _ _ RE JS) as F1.
    pose proof (Forall2_forall_l _ (fun f => In f (sfields S)) _ _ F1 (fun a Ha => Ha)) as F2.
    eapply Forall2_imp; [|exact F2]. intros f v [[R E] Hf]. rewrite E.
    rewrite forallb_forall in FOK.
    destruct (field_stable f v (fun p => jhas p (save S c)) (FOK f Hf) R (PAR f Hf)) as [S1 [S2 S3]].
    split; [exact S1|]. split; [exact S2|]. now apply not_bad. }
  assert (TY2 : typed_ok S (save S c) = true).
  { unfold typed_ok. apply forallb_forall. intros f Hf. destruct (Forall2_in_l _ _ _ f ST Hf) as [v [_ [_ [T _]]]]. exact T. }
  rewrite TY2. simpl. unfold defaults.
  rewrite (apply_fields_rebuild (sfields S) (save S c) c).
  - now rewrite VV.
  - eapply Forall2_imp; [|exact ST]. intros f v [A [_ B]]. auto.
Qed.

(* ---------------------------------------------------------------------------------------------- *)
(* every setting of a well-formed document is in the loaded configuration *)
Lemma apply_fields_exact fs : forall j c,
  (forall f, In f fs -> is_bad (jval (fname f) j) = false) ->
  apply_fields fs (map fdef fs) j [] = Some c ->
  Forall2 (fun f v => apply_rule (fload f) (fkind f) (fun p => jhas p j) (fdef f) (jval (fname f) j) = Some v) fs c.
Proof. induction fs as [|f r IH]; intros j c NB H.
  - simpl in H. inversion H. constructor.
  - simpl in H. rewrite (NB f) in H by now left.
    assert (E : exists x c', apply_rule (fload f) (fkind f) (fun p => jhas p j) (fdef f) (jval (fname f) j) = Some x
                              /\ apply_fields r (map fdef r) j [] = Some c' /\ c = x :: c').
    { destruct (soft_group (fload f)); simpl in H;
      destruct (apply_rule _ _ _ _ _) as [x|]; try discriminate H;
      apply option_map_cons_some in H; destruct H as [c' [E ->]]; eauto. }
    destruct E as [x [c' [A [R ->]]]]. constructor; [exact A|].
    apply IH; auto. intros g Hg. apply NB. now right. Qed.

Lemma cget_from_in (P : field -> val -> Prop) fs : forall c,
  NoDup (map fname fs) -> Forall2 P fs c -> forall f, In f fs -> P f (cget_from fs c (fname f)).
Proof. induction fs as [|g r IH]; intros c ND F f Hf; [destruct Hf|].
  inversion F as [|? v ? cr Pg F']; subst. inversion ND as [|? ? Hnin ND']; subst. simpl.
  destruct Hf as [->|Hf].
  - now rewrite String.eqb_refl.
  - destruct (String.eqb_spec (fname f) (fname g)) as [E|N].
    + exfalso. apply Hnin. rewrite <- E. now apply in_map.
    + apply IH; auto. Qed.

(* the rule of a setting takes the document's value *)
Lemma rule_faithful lr sr k d v x pp :
  cfg_typed k d = true ->
  match lr, sr with
  | LAlways, SAlways => kind_in k [KBool; KInt; KFloat; KStr; KMap]
  | (LIfNonZero | LMergeNonZero), SAlways => kind_in k [KInt; KFloat; KStr] || (kind_in k [KBool] && val_eqb d (VB false))
  | (LIfNonZero | LMergeNonZero), SOmitIfDefault _ => kind_in k [KInt; KFloat; KStr]
  | LPtrIfNonNil, SAlways => kind_in k [KBool; KInt; KFloat]
  | (LDurIfNonEmpty | LDurIgnoreErr | LDurSoft _ | LDurZeroOnErr | LDurEmptyZero), SAlways => kind_in k [KDur]
  | (LDurIfNonEmpty | LDurSoft _), SOmitIfDefault _ => kind_in k [KDur]
  | (LParseAlways _ | LParseIfNonEmpty), SAlways => kind_in k [KTok]
  | LEnum _, SAlways => kind_in k [KStr]
  | _, _ => false end = true ->
  well_typed k v = true -> wf_val v = true -> v <> VNone -> (is_boolk k || negb (is_zero v)) = true ->
  apply_rule lr k pp d v = Some x -> x = v.
Proof.
  intros TD OK T W NN NZ A.
  destruct lr; try discriminate OK; destruct sr; try discriminate OK; destruct k; simpl in OK; try discriminate OK;
  case_val d; simpl in TD; try discriminate TD; simpl in OK; try discriminate OK;
  case_val v; simpl in T; try discriminate T; simpl in W; try discriminate W; simpl in NZ; try discriminate NZ;
  try congruence; simpl in A;
  try (match type of A with context [if ?b then _ else _] => destruct b end);
  try discriminate A; inversion A; reflexivity.
Qed.

Lemma rule_faithful_list lr d v x pp :
  match lr with LAlways | LIfNonZero | LMergeNonZero | LParseListAlways | LParseListIfNonEmpty | LParseListSkipBad => true | _ => false end = true ->
  well_typed KList v = true -> wf_val v = true -> v <> VNone -> negb (is_zero (canon_in v)) = true ->
  apply_rule lr KList pp d v = Some x -> x = canon_in v.
Proof.
  intros OK T W NN NZ A.
  case_val v; simpl in T; try discriminate T; try congruence; simpl in W, NZ; try discriminate NZ.
  - (* VL (a :: l) *) destruct lr; try discriminate OK; simpl in A; inversion A; reflexivity.
  - (* VTL l *) pose proof (wf_all_some _ W) as E. simpl.
    match goal with |- _ = VL (keep_some ?l) => destruct (keep_some l) as [|a q] eqn:K; [discriminate NZ|] end.
    destruct lr; try discriminate OK; simpl in A; rewrite ?E in A; simpl in A; rewrite ?K in A; inversion A; auto.
Qed.

Lemma rule_faithful_parent p inner r k v x pp :
  pp p = true ->
  match inner with LAlways => kind_in k [KBool; KInt; KFloat; KStr] | LDurIfNonEmpty => kind_in k [KDur] | _ => false end = true ->
  well_typed k v = true -> wf_val v = true -> v <> VNone -> (is_boolk k || negb (is_zero v)) = true ->
  apply_rule (LIfParent p inner r) k pp r v = Some x \/ True ->
  forall d, apply_rule (LIfParent p inner r) k pp d v = Some x -> x = v.
Proof.
  intros PP OK T W NN NZ _ d A. simpl in A. rewrite PP in A.
  destruct inner; try discriminate OK; destruct k; simpl in OK; try discriminate OK;
  case_val v; simpl in T; try discriminate T; simpl in W; try discriminate W; simpl in NZ; try discriminate NZ;
  try congruence; simpl in A; inversion A; reflexivity.
Qed.

Lemma canon_scalar k v : well_typed k v = true -> kind_in k [KList] = false -> canon_in v = v.
Proof. intros T K. destruct v; auto. destruct k; simpl in *; discriminate. Qed.

Lemma wf_not_bad v : wf_val v = true -> is_bad v = false.
Proof. destruct v; simpl; auto. Qed.

Theorem load_faithful_l S V orc j c f :
  schema_coherentb S = true -> load S V orc j = Some c -> wf_doc S j = true ->
  In f (sfields S) -> is_setting f j = true ->
  cget S c (fname f) = canon_in (jval (fname f) j).
Proof.
  unfold load, apply_json. intros CO L WF Hf IS.
  destruct (coherent_parts S CO) as [ND [FOK _]].
  destruct (typed_ok S j); simpl in L; [|discriminate].
  destruct (apply_fields (sfields S) (defaults S) j []) as [c0|] eqn:AF; [|discriminate].
  destruct (V orc (cget S c0)); [|discriminate]. inversion L; subst c0. clear L.
  unfold wf_doc in WF. rewrite forallb_forall in WF.
  assert (NB : forall g, In g (sfields S) -> is_bad (jval (fname g) j) = false).
  { intros g Hg. specialize (WF g Hg). apply andb_true_iff in WF. destruct WF as [W _]. now apply wf_not_bad. }
  pose proof (apply_fields_exact _ _ _ NB AF) as F.
  pose proof (cget_from_in _ _ _ ND F f Hf) as A. cbv beta in A. fold (cget S c (fname f)) in A.
  specialize (WF f Hf). apply andb_true_iff in WF. destruct WF as [W T].
  rewrite forallb_forall in FOK. specialize (FOK f Hf). unfold field_ok in FOK. apply andb_true_iff in FOK. destruct FOK as [TD M].
  unfold is_setting in IS.
  repeat (apply andb_true_iff in IS; let X := fresh "IS" in destruct IS as [IS X]).
  rename IS0 into ISP, IS1 into ISZ, IS2 into ISN, IS3 into ISG, IS4 into ISC.
  apply negb_true_iff in IS. apply negb_true_iff in ISC. apply negb_true_iff in ISG.
  set (v := jval (fname f) j) in *. set (x := cget S c (fname f)) in *.
  assert (NN : v <> VNone) by (intros E; rewrite E in ISN; discriminate ISN).
  destruct (fload f) as [ | | | | | | g | | | eo | | | | | a | | | p inner reset | id ] eqn:EL;
  destruct (fsave f) eqn:ES; try discriminate M; try discriminate IS; try discriminate ISC.
  all: try (destruct inner; try discriminate M).
  all: simpl in ISP.
  all: destruct (fkind f) eqn:EK; simpl in M; try discriminate M; try discriminate ISG.
  all: try (eapply rule_faithful_list; [ | exact T | exact W | exact NN | simpl in ISZ; exact ISZ | exact A ]; reflexivity).
  all: try (rewrite (canon_scalar _ _ T) in ISZ by reflexivity).
  all: try (rewrite (canon_scalar _ _ T) by reflexivity).
  all: try (eapply (rule_faithful_parent p _ _ _ _ _ (fun q => jhas q j) ISP); [ | exact T | exact W | exact NN | exact ISZ | right; exact I | exact A ]; reflexivity).
  all: try (match type of ES with _ = ?s => eapply (rule_faithful _ s) end;
            [exact TD | | exact T | exact W | exact NN | exact ISZ | exact A]; simpl; try exact M; reflexivity).
Qed.

(* ---------------------------------------------------------------------------------------------- *)
(* display *)
Lemma display_field_in f v0 n v : In (n, v) (display_field f v0) ->
  n = fname f /\ (fhidden f && top_level (fname f) = true -> v = hidden_marker).
Proof. unfold display_field. destruct (fhidden f && top_level (fname f)) eqn:E.
  - simpl. intros [H|[]]. inversion H. auto.
  - destruct (fsave f); try (destruct (val_eqb v0 d)); simpl; intros [H|[]]; inversion H; split; auto; discriminate. Qed.

Lemma display_fields_in fs : forall c n v, In (n, v) (display_fields fs c) ->
  exists f, In f fs /\ fname f = n /\ (fhidden f && top_level (fname f) = true -> v = hidden_marker).
Proof. induction fs as [|f r IH]; intros c n v; simpl; [tauto|]. destruct c as [|v0 cr]; simpl; [tauto|].
  intros H. apply in_app_or in H. destruct H as [H|H].
  - apply display_field_in in H. destruct H as [-> Hm]. exists f. auto.
  - destruct (IH _ _ _ H) as [g [Hg [En Hm]]]. exists g. auto. Qed.

Lemma nodup_same_name fs f g : NoDup (map fname fs) -> In f fs -> In g fs -> fname f = fname g -> f = g.
Proof. induction fs as [|h r IH]; simpl; [tauto|]. intros ND Hf Hg E. inversion ND as [|? ? Hnin ND']; subst.
  destruct Hf as [->|Hf], Hg as [->|Hg]; auto.
  - exfalso. apply Hnin. rewrite E. now apply in_map.
  - exfalso. apply Hnin. rewrite <- E. now apply in_map. Qed.

Theorem display_hides_l S c n v :
  schema_coherentb S = true -> In (n, v) (display S c) ->
  existsb (fun f => String.eqb (fname f) n && fhidden f) (sfields S) = true -> v = hidden_marker.
Proof. intros CO H Hh. destruct (coherent_parts S CO) as [ND [_ [_ HT]]].
  apply display_fields_in in H. destruct H as [f [Hf [En Hm]]].
  apply existsb_exists in Hh. destruct Hh as [g [Hg Eg]]. apply andb_true_iff in Eg. destruct Eg as [Eg Hid].
  apply String.eqb_eq in Eg. assert (f = g) by (eapply nodup_same_name; eauto; congruence). subst g.
  apply Hm. rewrite Hid. simpl. rewrite forallb_forall in HT. specialize (HT f Hf). rewrite Hid in HT. exact HT. Qed.

(* ---------------------------------------------------------------------------------------------- *)
(* load is exactly: well-typed document, every rule applies, Validate accepts *)
Theorem load_spec_l S V orc j c :
  load S V orc j = Some c <->
  typed_ok S j = true /\ apply_fields (sfields S) (defaults S) j [] = Some c /\ V orc (cget S c) = true.
Proof. unfold load, apply_json. split.
  - destruct (typed_ok S j); simpl; [|discriminate]. destruct (apply_fields _ _ _ _) as [c0|]; [|discriminate].
    destruct (V orc (cget S c0)) eqn:E; [|discriminate]. intros H. inversion H; subst. auto.
  - intros [T [A Vv]]. rewrite T, A. simpl. now rewrite Vv. Qed.

Theorem load_valid_l S V orc j c : load S V orc j = Some c -> V orc (cget S c) = true.
Proof. intros H. apply load_spec_l in H. tauto. Qed.

Theorem load_rejects_invalid_l S V orc j c :
  typed_ok S j = true -> apply_fields (sfields S) (defaults S) j [] = Some c -> V orc (cget S c) = false -> load S V orc j = None.
Proof. unfold load, apply_json. intros T A Vv. rewrite T, A. simpl. now rewrite Vv. Qed.
