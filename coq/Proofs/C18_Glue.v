(* C18 — from the table obligation to the machine: threads that conform to a table satisfying
   discipline_okb are disciplined for the induced guard map, hence (lockset_drf) never race. *)
From V Require Import Model.C18_Table Model.C18_Conc Model.C18_Glue Proofs.C18_Table Proofs.C18_Conc.

Lemma xname_eqb_same_loc a b : xname_eqb (xname_of b) (xname_of a) = true -> same_loc a b = true.
Proof.
  unfold xname_eqb, xname_of, same_loc. simpl. intros H.
  apply andb_true_iff in H. destruct H as [H H3]. apply andb_true_iff in H. destruct H as [H1 H2].
  apply String.eqb_eq in H1. apply String.eqb_eq in H2. rewrite H1, H2, !String.eqb_refl. simpl.
  destruct (a_part a), (a_part b); simpl in *; auto.
Qed.

Lemma xname_eqb_refl x : xname_eqb x x = true.
Proof. destruct x as [[t f] c]. unfold xname_eqb. simpl. rewrite !String.eqb_refl. now destruct c. Qed.

Lemma xwrittenb_written ex accs a : xwrittenb ex accs (xname_of a) = true -> written ex accs a.
Proof.
  unfold xwrittenb. rewrite existsb_exists. intros [b [Hin H]].
  apply andb_true_iff in H. destruct H as [H H3]. apply andb_true_iff in H. destruct H as [H1 H2].
  exists b. split; auto. split; [now apply xname_eqb_same_loc|]. split.
  - unfold is_write in H2. destruct (a_kind b); congruence.
  - intros E. apply exemptb_spec in E. rewrite E in H3. discriminate.
Qed.

Lemma table_discipline_l ex accs prog :
  discipline_okb ex accs = true -> conforms ex accs prog -> disciplined (tguard ex accs) prog.
Proof.
  intros Hd Hc p e r Hp.
  destruct e as [l|l|l|l|x|x]; simpl; trivial.
  - destruct (Hc p (Rd x) r Hp I) as [a [o [Hin [Hne [[[He Hk]|[He Hk]] Hl]]]]]; [|discriminate He].
    inversion He; subst x. unfold tguard, xname_of. fold (xname_of a).
    destruct (xwrittenb ex accs (xname_of a)) eqn:W; [|trivial].
    destruct (discipline_okb_sound _ _ Hd a Hin) as [Hex|[Hu [Hesc [Hw Hr]]]]; [contradiction|].
    destruct (Hr Hk (xwrittenb_written _ _ _ W)) as [g [l [Hg [Hlin [Hn _]]]]].
    rewrite Hg. specialize (Hl l Hlin). rewrite Hn in Hl. unfold holds_any.
    destruct (l_excl l); auto.
  - destruct (Hc p (Wr x) r Hp I) as [a [o [Hin [Hne [[[He Hk]|[He Hk]] Hl]]]]]; [discriminate He|].
    inversion He; subst x. unfold tguard, xname_of. fold (xname_of a).
    assert (W : xwrittenb ex accs (xname_of a) = true).
    { unfold xwrittenb. apply existsb_exists. exists a. split; auto.
      rewrite xname_eqb_refl. unfold is_write. rewrite Hk. simpl.
      destruct (exemptb ex a) eqn:E; auto. apply exemptb_spec in E. contradiction. }
    rewrite W.
    destruct (discipline_okb_sound _ _ Hd a Hin) as [Hex|[Hu [Hesc [Hw Hr]]]]; [contradiction|].
    destruct (Hw Hk) as [g [l [Hg [Hlin [Hn Hx]]]]].
    rewrite Hg. specialize (Hl l Hlin). rewrite Hn, (Hx eq_refl) in Hl. exact Hl.
Qed.

Lemma table_drf_l ex accs (progs : nat -> list ev) s0 s :
  discipline_okb ex accs = true ->
  init_ok s0 -> prog_inv progs s0 -> (forall i, conforms ex accs (progs i)) ->
  reach s0 s -> ~ race s.
Proof.
  intros Hd I P C R. apply (lockset_drf_l (tguard ex accs) progs s0 s I P); auto.
  intros i. apply table_discipline_l; auto.
Qed.
