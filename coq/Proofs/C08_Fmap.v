(* C08 — the msgpack / JSON field-map model round-trips every well-formed value of every struct of a well-formed
   tag table: Model/C08_Fmap.v. Generic in the schema; instantiated on the regenerated Gen/C08Tags.v in Props. *)
From V Require Import Base.Common Base.C08_Str Base.C08_Schema Model.C08_Codec Model.C08_Query Model.C08_Status Model.C08_Fmap
  Proofs.C08_Str Proofs.C08_Status Proofs.C08_Query.
From Coq Require Import Permutation.
Open Scope string_scope.
Open Scope list_scope.
Open Scope Z_scope.

(* induction over values, through the lists they contain *)
Section ValInd.
Variable P : val -> Prop.
Hypothesis HInt : forall z, P (VInt z).
Hypothesis HUint : forall n, P (VUint n).
Hypothesis HStr : forall s, P (VStr s).
Hypothesis HBool : forall b, P (VBool b).
Hypothesis HBytes : forall s, P (VBytes s).
Hypothesis HTime : forall t, P (VTime t).
Hypothesis HCid : forall x, P (VCid x).
Hypothesis HPeer : forall p, P (VPeer p).
Hypothesis HAddr : forall a, P (VAddr a).
Hypothesis HList : forall l, Forall P l -> P (VList l).
Hypothesis HMap : forall m, Forall (fun kv => P (snd kv)) m -> P (VMap m).
Hypothesis HPtrN : P (VPtr None).
Hypothesis HPtrS : forall x, P x -> P (VPtr (Some x)).
Hypothesis HRec : forall fs, Forall P fs -> P (VRec fs).

Fixpoint val_ind' (v : val) : P v :=
  match v with
  | VInt z => HInt z | VUint n => HUint n | VStr s => HStr s | VBool b => HBool b | VBytes s => HBytes s
  | VTime t => HTime t | VCid x => HCid x | VPeer p => HPeer p | VAddr a => HAddr a
  | VList l => HList l ((fix go (l : list val) : Forall P l :=
                           match l with [] => Forall_nil P | x :: r => Forall_cons x (val_ind' x) (go r) end) l)
  | VMap m => HMap m ((fix go (m : list (string * val)) : Forall (fun kv => P (snd kv)) m :=
                         match m with [] => Forall_nil _ | kv :: r => Forall_cons kv (val_ind' (snd kv)) (go r) end) m)
  | VPtr None => HPtrN
  | VPtr (Some x) => HPtrS x (val_ind' x)
  | VRec fs => HRec fs ((fix go (l : list val) : Forall P l :=
                           match l with [] => Forall_nil P | x :: r => Forall_cons x (val_ind' x) (go r) end) fs)
  end.
End ValInd.

Section Proofs.
Variable c : codec.
Variable sch : schema.

Notation enc := (enc c sch).
Notation dec := (dec c sch).
Notation wf := (wf_val c sch false).

(* ---------- the nested loops, as stand-alone functions ---------- *)
Fixpoint enc_list (t : ty) (l : list val) : result (list wire) :=
  match l with [] => Ok [] | x :: r => rbind (enc t x) (fun w => rbind (enc_list t r) (fun ws => Ok (w :: ws))) end.
Fixpoint dec_list (t : ty) (l : list wire) : result (list val) :=
  match l with [] => Ok [] | x :: r => rbind (dec t x) (fun v => rbind (dec_list t r) (fun vs => Ok (v :: vs))) end.
Fixpoint enc_map (t : ty) (m : list (string * val)) : result (list (string * wire)) :=
  match m with [] => Ok [] | (k, x) :: r => rbind (enc t x) (fun w => rbind (enc_map t r) (fun ws => Ok ((k, w) :: ws))) end.
Fixpoint dec_map (t : ty) (m : list (string * wire)) : result (list (string * val)) :=
  match m with [] => Ok [] | (k, x) :: r => rbind (dec t x) (fun v => rbind (dec_map t r) (fun vs => Ok ((k, v) :: vs))) end.
Fixpoint enc_fields (fs : list field) (vs : list val) {struct vs} : result (list (string * wire)) :=
  match fs, vs with
  | [], [] => Ok []
  | f :: fr, x :: xr =>
      if f_skip c f then enc_fields fr xr
      else if f_omit c f && is_empty c x then enc_fields fr xr
      else rbind (enc (f_ty f) x) (fun w => rbind (enc_fields fr xr) (fun ws => Ok ((f_key c f, w) :: ws)))
  | _, _ => Err
  end.
Definition dec_field (m : list (string * wire)) (f : field) : result val :=
  if f_skip c f then Ok (zero_val (f_ty f))
  else match slookup (f_key c f) m with Some x => dec (f_ty f) x | None => Ok (zero_val (f_ty f)) end.
Fixpoint dec_fields (m : list (string * wire)) (fs : list field) : result (list val) :=
  match fs with [] => Ok [] | f :: fr => rbind (dec_field m f) (fun v => rbind (dec_fields m fr) (fun vs => Ok (v :: vs))) end.
Fixpoint wf_fields (fs : list field) (vs : list val) {struct vs} : bool :=
  match fs, vs with
  | [], [] => true
  | f :: fr, x :: xr => wf_val c sch false (f_ty f) (f_omit c f) x && wf_fields fr xr
  | _, _ => false
  end.

Lemma enc_slice t l : enc (TSlice t) (VList l) = rbind (enc_list t l) (fun ws => Ok (WList ws)).
Proof. cbn. f_equal. induction l as [|x r IH]; cbn; try reflexivity; try (now rewrite IH). Qed.
Lemma dec_slice t l : dec (TSlice t) (WList l) = rbind (dec_list t l) (fun vs => Ok (VList vs)).
Proof. cbn. f_equal. induction l as [|x r IH]; cbn; try reflexivity; try (now rewrite IH). Qed.
Lemma enc_mapv t m : enc (TMap t) (VMap m) = rbind (enc_map t m) (fun ws => Ok (WMap ws)).
Proof. cbn. f_equal. induction m as [|[k x] r IH]; cbn; try reflexivity; try (now rewrite IH). Qed.
Lemma dec_mapv t m : dec (TMap t) (WMap m) = rbind (dec_map t m) (fun vs => Ok (VMap vs)).
Proof. cbn. f_equal. induction m as [|[k x] r IH]; cbn; try reflexivity; try (now rewrite IH). Qed.

Lemma enc_struct n vs : enc (TStruct n) (VRec vs) =
  match fields_of sch n with None => Err | Some fs => rbind (enc_fields fs vs) (fun ws => Ok (WMap ws)) end.
Proof.
  cbn. destruct (fields_of sch n) as [fs|]; [|reflexivity]. f_equal.
  all: try (revert fs; induction vs as [|x xr IH]; intros [|f fr]; cbn; try reflexivity;
            destruct (f_skip c f); [apply IH|]; destruct (f_omit c f && is_empty c x); [apply IH|]; now rewrite IH).
Qed.

Lemma dec_struct n m : dec (TStruct n) (WMap m) =
  match fields_of sch n with None => Err | Some fs => rbind (dec_fields m fs) (fun vs => Ok (VRec vs)) end.
Proof.
  cbn. destruct (fields_of sch n) as [fs|]; [|reflexivity]. f_equal.
  induction fs as [|f fr IH]; cbn; [reflexivity|]. rewrite IH. f_equal.
  unfold dec_field. destruct (f_skip c f); [reflexivity|].
  clear IH. induction m as [|[k x] r IHm]; cbn; [reflexivity|]. destruct (String.eqb (f_key c f) k); [reflexivity | exact IHm].
Qed.

Lemma wf_struct_fields n o vs : wf_val c sch false (TStruct n) o (VRec vs) =
  match fields_of sch n with None => false | Some fs => wf_fields fs vs end.
Proof.
  cbn. destruct (fields_of sch n) as [fs|]; [|reflexivity].
  revert fs. induction vs as [|x xr IH]; intros [|f fr]; cbn; try reflexivity. all: try (now rewrite IH).
Qed.

(* ---------- leaves ---------- *)
Lemma empty_is_zero t o v : wf_val c sch false t o v = true -> is_empty c v = true -> v = zero_val t.
Proof.
  destruct t, v; cbn; try discriminate; intros W E;
    try (destruct c; cbn in *; try discriminate).
  all: try (apply Z.eqb_eq in E; now subst).
  all: try (apply N.eqb_eq in E; now subst).
  all: try (apply String.eqb_eq in E; now subst).
  all: try (destruct b; [discriminate | reflexivity]).
  all: try (destruct t; [discriminate | reflexivity]).
  all: try (destruct c0; [discriminate | reflexivity]).
  all: try (destruct x; [discriminate | reflexivity]).
  all: try (destruct p; try discriminate; reflexivity).
  all: try (destruct a; discriminate).
  all: try (destruct l; [reflexivity | discriminate]).
  all: try (destruct m; [reflexivity | discriminate]).
Qed.

Lemma rbind_ok {A B} (r : result A) (f : A -> result B) b : rbind r f = Ok b -> exists a, r = Ok a /\ f a = Ok b.
Proof. destruct r as [a|]; cbn; [|discriminate]. intros H. now exists a. Qed.

(* only a nil pointer and (in JSON) an undefined CID are written as null *)
Lemma enc_nil t v : enc t v = Ok WNil -> (exists t', t = TPtr t') \/ (t = TCid /\ v = VCid None).
Proof.
  destruct t, v; try (cbn; discriminate); intros H.
  - cbn in H. destruct c; [discriminate|]. destruct (json_time_ok t); discriminate.
  - cbn in H. right. split; [reflexivity|]. destruct c, c0; try discriminate. reflexivity.
  - cbn in H. destruct a; discriminate.
  - cbn in H. destruct a; discriminate.
  - cbn in H. destruct c; discriminate.
  - cbn in H. destruct c; discriminate.
  - rewrite enc_slice in H. apply rbind_ok in H as [ws [_ H]]. discriminate.
  - rewrite enc_mapv in H. apply rbind_ok in H as [ws [_ H]]. discriminate.
  - left. now exists t.
  - rewrite enc_struct in H. destruct (fields_of sch name); [|discriminate]. apply rbind_ok in H as [ws [_ H]]. discriminate.
Qed.

Definition claim (v : val) : Prop := forall t o, wf_val c sch false t o v = true ->
  (o = true /\ is_empty c v = true) \/ (exists w, enc t v = Ok w /\ dec t w = Ok v).

Lemma claim_list t l : Forall claim l -> forallb (wf_val c sch false t false) l = true ->
  exists ws, enc_list t l = Ok ws /\ dec_list t ws = Ok l.
Proof.
  induction l as [|x r IH]; intros Hc Hw; [now exists []|].
  inversion Hc as [|? ? Hx Hr]; subst. cbn in Hw. apply andb_true_iff in Hw as [Wx Wr].
  destruct (Hx t false Wx) as [[F _]|[w [E D]]]; [discriminate|].
  destruct (IH Hr Wr) as [ws [E' D']]. exists (w :: ws). cbn. now rewrite E, E', D, D'.
Qed.

Lemma claim_map t m : Forall (fun kv => claim (snd kv)) m -> forallb (fun kv => wf_val c sch false t false (snd kv)) m = true ->
  exists ws, enc_map t m = Ok ws /\ dec_map t ws = Ok m.
Proof.
  induction m as [|[k x] r IH]; intros Hc Hw; [now exists []|].
  inversion Hc as [|? ? Hx Hr]; subst. cbn in Hw. apply andb_true_iff in Hw as [Wx Wr]. cbn in Hx.
  destruct (Hx t false Wx) as [[F _]|[w [E D]]]; [discriminate|].
  destruct (IH Hr Wr) as [ws [E' D']]. exists ((k, w) :: ws). cbn. now rewrite E, E', D, D'.
Qed.

(* ---------- structs: keys are distinct, so every field finds its own entry (or none, when it was dropped) ---------- *)
Lemma enc_fields_keys fs : forall vs ws, enc_fields fs vs = Ok ws -> incl (skeys ws) (map (f_key c) fs).
Proof.
  induction fs as [|f fr IH]; intros [|x xr] ws; cbn; try discriminate.
  - intros E. inversion E. intros k [].
  - intros E. destruct (f_skip c f); [intros k I; right; exact (IH xr ws E k I)|].
    destruct (f_omit c f && is_empty c x); [intros k I; right; exact (IH xr ws E k I)|].
    apply rbind_ok in E as [w [_ E]]. apply rbind_ok in E as [ws' [E' E]]. inversion E; subst.
    intros k [<-|I]; [now left | right; exact (IH xr ws' E' k I)].
Qed.

Lemma claim_fields fs : forall vs, NoDup (map (f_key c) fs) -> forallb (fun f => negb (f_skip c f)) fs = true ->
  Forall claim vs -> wf_fields fs vs = true ->
  exists ws, enc_fields fs vs = Ok ws /\
             forall m0, (forall f, In f fs -> slookup (f_key c f) m0 = None) -> dec_fields (m0 ++ ws) fs = Ok vs.
Proof.
  induction fs as [|f fr IH]; intros [|x xr] Hnd Hsk Hc Hw; cbn in Hw; try discriminate.
  - exists []. split; [reflexivity|]. intros m0 _. reflexivity.
  - apply andb_true_iff in Hw as [Wx Wr]. inversion Hc as [|? ? Hx Hr]; subst.
    inversion Hnd as [|? ? Hni Hnd']; subst. cbn in Hsk. apply andb_true_iff in Hsk as [Sf Sr].
    apply negb_true_iff in Sf.
    destruct (IH xr Hnd' Sr Hr Wr) as [ws' [E' D']].
    pose proof (enc_fields_keys fr xr ws' E') as K.
    cbn [enc_fields]. rewrite Sf.
    destruct (f_omit c f && is_empty c x) eqn:Om.
    + (* dropped: the key is absent, the fresh value keeps its zero, which is what the value was *)
      apply andb_true_iff in Om as [O1 O2].
      exists ws'. split; [exact E'|]. intros m0 H0. cbn [dec_fields]. unfold dec_field at 1. rewrite Sf.
      assert (L : slookup (f_key c f) (m0 ++ ws') = None).
      { rewrite slookup_app, (H0 f (or_introl eq_refl)). apply slookup_none_notin. intros I. apply Hni. now apply K. }
      rewrite L. cbn [rbind]. rewrite (D' m0) by (intros f' I'; apply H0; now right). cbn [rbind].
      now rewrite <- (empty_is_zero _ _ _ Wx O2).
    + destruct (Hx (f_ty f) (f_omit c f) Wx) as [[O1 O2]|[w [E D]]]; [rewrite O1, O2 in Om; discriminate|].
      exists ((f_key c f, w) :: ws'). split; [now rewrite E, E'|].
      intros m0 H0. cbn [dec_fields]. unfold dec_field at 1. rewrite Sf.
      assert (L : slookup (f_key c f) (m0 ++ (f_key c f, w) :: ws') = Some w).
      { rewrite slookup_app, (H0 f (or_introl eq_refl)). cbn. now rewrite String.eqb_refl. }
      rewrite L, D. cbn [rbind].
      replace (m0 ++ (f_key c f, w) :: ws') with ((m0 ++ [(f_key c f, w)]) ++ ws') by now rewrite <- app_assoc.
      rewrite D'; [reflexivity|]. intros f' I'. rewrite slookup_app, (H0 f' (or_intror I')). cbn.
      destruct (String.eqb_spec (f_key c f') (f_key c f)) as [Ek|]; [|reflexivity].
      exfalso. apply Hni. rewrite <- Ek. now apply in_map.
Qed.

Lemma slookup_in' {V} k (v : V) m : slookup k m = Some v -> In (k, v) m.
Proof.
  induction m as [|[k' v'] r IH]; cbn; [discriminate|]. destruct (String.eqb_spec k k') as [->|N].
  - intros E. inversion E. now left.
  - intros E. right. now apply IH.
Qed.

Hypothesis Hs : schema_ok c sch = true.

Lemma struct_ok_of n fs : fields_of sch n = Some fs -> struct_ok c sch fs = true.
Proof.
  intros F. unfold schema_ok in Hs. apply andb_true_iff in Hs as [A _]. rewrite forallb_forall in A.
  apply (A (n, fs)). unfold fields_of in F. now apply slookup_in' in F.
Qed.

Lemma claim_all v : claim v.
Proof.
  induction v using val_ind'; unfold claim; intros tt o W.
  - (* VInt *)
    destruct tt; cbn in W; try discriminate.
    + right. exists (WInt z). now split.
    + right. destruct c.
      * exists (WInt z). now split.
      * apply andb_true_iff in W as [Wp Wv]. apply Z.leb_le in Wp.
        exists (WStr (status_string st_table (Z.to_N z))). split; [reflexivity|]. cbn.
        rewrite (status_roundtrip_valid st_table _ (Permutation_refl _) Wv). now rewrite Z2N.id.
    + right. destruct c.
      * exists (WInt z). now split.
      * exists (WStr (mode_string z)). split; [reflexivity|]. cbn. f_equal. f_equal. apply mode_roundtrip.
        apply orb_true_iff in W as [E|E]; apply Z.eqb_eq in E; auto.
  - destruct tt; cbn in W; try discriminate. right. exists (WUint n). now split.
  - destruct tt; cbn in W; try discriminate. right. exists (WStr s). now split.
  - destruct tt; cbn in W; try discriminate. right. exists (WBool b). now split.
  - destruct tt; cbn in W; try discriminate. right. exists (WBytes s). now split.
  - (* VTime *)
    destruct tt; cbn in W; try discriminate. right. exists (WTime t). cbn. destruct c; [now split|]. now rewrite W.
  - (* VCid *)
    destruct tt; cbn in W; try discriminate. destruct c, x as [s|]; cbn.
    + right. exists (WCid (Some s)). now split.
    + left. now split.
    + right. exists (WCid (Some s)). now split.
    + right. exists WNil. now split.
  - (* VPeer *)
    destruct tt; cbn in W; try discriminate. destruct p as [|s|s]; try discriminate.
    + left. now split.
    + right. exists (WPeer (TOk s)). now split.
  - (* VAddr *)
    destruct tt; cbn in W; try discriminate; destruct a as [a|]; try discriminate.
    right. exists (WAddr a). now split.
  - (* VList *)
    destruct tt as [| | | | | | | | | | | |ti|ti|ti|name|src]; cbn in W; try discriminate. right.
    destruct (claim_list ti l H W) as [ws [E D]]. exists (WList ws).
    rewrite enc_slice, E. split; [reflexivity|]. rewrite dec_slice, D. reflexivity.
  - (* VMap *)
    destruct tt as [| | | | | | | | | | | |ti|ti|ti|name|src]; cbn in W; try discriminate. right. apply andb_true_iff in W as [W _].
    destruct (claim_map ti m H W) as [ws [E D]]. exists (WMap ws).
    rewrite enc_mapv, E. split; [reflexivity|]. rewrite dec_mapv, D. reflexivity.
  - (* nil pointer *)
    destruct tt; cbn in W; try discriminate. right. exists WNil. now split.
  - (* pointer *)
    destruct tt as [| | | | | | | | | | | |ti|ti|ti|name|src]; try (cbn in W; discriminate). right.
    assert (Wx : wf_val c sch false ti false v = true /\ (forall t', ti <> TPtr t') /\ ~ (ti = TCid /\ v = VCid None)).
    { cbn in W. destruct ti; try (split; [exact W | split; [intros t' E; discriminate | intros [E _]; discriminate]]).
      - destruct v; try (split; [exact W | split; [intros t' E; discriminate | intros [_ E]; discriminate]]).
        destruct c0; [|discriminate]. split; [exact W | split; [intros t' E; discriminate | intros [_ E]; discriminate]].
      - discriminate. }
    destruct Wx as (Wv & Np & Nc).
    destruct (IHv ti false Wv) as [[F _]|[w [E D]]]; [discriminate|].
    assert (Nn : w <> WNil).
    { intros ->. destruct (enc_nil _ _ E) as [[t' Et]|Ec]; [exact (Np t' Et) | exact (Nc Ec)]. }
    exists (WSome w). split.
    + cbn. change (Model.C08_Fmap.enc c sch ti v) with (enc ti v). rewrite E. cbn. destruct w; try reflexivity. congruence.
    + cbn. change (Model.C08_Fmap.dec c sch ti w) with (dec ti w). now rewrite D.
  - (* struct *)
    destruct tt as [| | | | | | | | | | | |ti|ti|ti|name|src]; try (cbn in W; discriminate). right.
    rewrite wf_struct_fields in W. rewrite enc_struct.
    destruct (fields_of sch name) as [fds|] eqn:F; [|discriminate].
    pose proof (struct_ok_of name fds F) as So. unfold struct_ok in So.
    apply andb_true_iff in So as [So Kd]. apply andb_true_iff in So as [Fo _].
    assert (Sk : forallb (fun f => negb (f_skip c f)) fds = true).
    { apply forallb_forall. intros f I. rewrite forallb_forall in Fo. specialize (Fo f I). unfold field_ok in Fo.
      apply andb_true_iff in Fo as [Fo _]. now apply andb_true_iff in Fo as [Fo _]. }
    apply snodup_NoDup in Kd.
    destruct (claim_fields fds fs Kd Sk H W) as [ws [E D]].
    exists (WMap ws). rewrite E. split; [reflexivity|]. rewrite dec_struct, F.
    pose proof (D [] (fun f _ => eq_refl)) as D0. cbn [app] in D0. rewrite D0. reflexivity.
Qed.

Theorem codec_roundtrip_l t v : wf_val c sch false t false v = true -> exists w, enc t v = Ok w /\ dec t w = Ok v.
Proof. intros W. destruct (claim_all v t false W) as [[F _]|H]; [discriminate | exact H]. Qed.

(* ---------- the guard of the finding, made explicit: well-formed for the property and free of interface-typed elements ---------- *)
Fixpoint wf_fields_a (fs : list field) (vs : list val) {struct vs} : bool :=
  match fs, vs with
  | [], [] => true
  | f :: fr, x :: xr => wf_val c sch true (f_ty f) (f_omit c f) x && wf_fields_a fr xr
  | _, _ => false
  end.
Fixpoint iface_fields (fs : list field) (vs : list val) {struct vs} : bool :=
  match fs, vs with
  | f :: fr, x :: xr => has_iface sch (f_ty f) x || iface_fields fr xr
  | _, _ => false
  end.

Lemma wf_struct_fields_a n o vs : wf_val c sch true (TStruct n) o (VRec vs) =
  match fields_of sch n with None => false | Some fs => wf_fields_a fs vs end.
Proof.
  cbn. destruct (fields_of sch n) as [fs|]; [|reflexivity].
  revert fs. induction vs as [|x xr IH]; intros [|f fr]; cbn; try reflexivity. all: try (now rewrite IH).
Qed.

Lemma iface_struct_fields n vs : has_iface sch (TStruct n) (VRec vs) =
  match fields_of sch n with None => false | Some fs => iface_fields fs vs end.
Proof.
  cbn. destruct (fields_of sch n) as [fs|]; [|reflexivity].
  revert fs. induction vs as [|x xr IH]; intros [|f fr]; cbn; try reflexivity. all: try (now rewrite IH).
Qed.

Definition guard_claim (v : val) : Prop := forall t o,
  wf_val c sch true t o v = true -> has_iface sch t v = false -> wf_val c sch false t o v = true.

Lemma guard_all v : guard_claim v.
Proof.
  induction v using val_ind'; unfold guard_claim; intros tt o W I;
    try (destruct tt; cbn in *; try discriminate; exact W).
  - (* VAddr *)
    destruct tt; cbn in *; try discriminate; destruct a; try discriminate; exact W.
  - (* VList *)
    destruct tt as [| | | | | | | | | | | |ti|ti|ti|name|src]; cbn in *; try discriminate.
    rewrite forallb_forall in *. intros x Ix. rewrite Forall_forall in H. apply (H x Ix ti false (W x Ix)).
    destruct (has_iface sch ti x) eqn:E; [|reflexivity].
    assert (existsb (has_iface sch ti) l = true) by (apply existsb_exists; now exists x). congruence.
  - (* VMap *)
    destruct tt as [| | | | | | | | | | | |ti|ti|ti|name|src]; cbn in *; try discriminate.
    apply andb_true_iff in W as [W1 W2]. apply andb_true_iff. split; [|exact W2].
    rewrite forallb_forall in *. intros kv Ik. rewrite Forall_forall in H. apply (H kv Ik ti false (W1 kv Ik)).
    destruct (has_iface sch ti (snd kv)) eqn:E; [|reflexivity].
    assert (existsb (fun kv => has_iface sch ti (snd kv)) m = true) by (apply existsb_exists; now exists kv). congruence.
  - (* pointer *)
    destruct tt as [| | | | | | | | | | | |ti|ti|ti|name|src]; try (cbn in W; discriminate).
    cbn in W, I |- *. destruct ti; try (apply IHv; assumption).
    + destruct v; try (apply IHv; assumption). destruct c0; [apply IHv; assumption | discriminate].
    + discriminate.
  - (* struct *)
    destruct tt as [| | | | | | | | | | | |ti|ti|ti|name|src]; try (cbn in W; discriminate).
    rewrite wf_struct_fields_a in W. rewrite iface_struct_fields in I. rewrite wf_struct_fields.
    destruct (fields_of sch name) as [fds|]; [|discriminate].
    revert fds W I. induction fs as [|x xr IHf]; intros [|f fr] W I; cbn in *; try discriminate; try reflexivity.
    inversion H as [|? ? Hx Hr]; subst.
    apply andb_true_iff in W as [Wx Wr]. apply orb_false_iff in I as [Ix Ir].
    apply andb_true_iff. split; [exact (Hx _ _ Wx Ix) | exact (IHf Hr fr Wr Ir)].
Qed.

Theorem codec_roundtrip_guarded_l t v : wf_val c sch true t false v = true -> has_iface sch t v = false ->
  exists w, enc t v = Ok w /\ dec t w = Ok v.
Proof. intros W I. apply codec_roundtrip_l. exact (guard_all v t false W I). Qed.
End Proofs.
