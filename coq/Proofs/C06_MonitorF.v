(* C06 — completeness of codes 20 / 21 (both views truthful at quiescence) for the model: along every script that is
   stable (a cid does not change between meta and non-meta without an unpin - Cluster.pin enforces it) and follows the
   harness convention for RecoverAll (the recorded order lists the cids recovered before an error, never the cid whose
   enqueue failed), the observation trace computed from the model raises neither code.
   The invariant FI ties the monitor's record sp6 to the tracker state; its core: a cid is in s6_failed exactly when the
   operation tracked for it is a pin / unpin operation that is in error once it is no longer live. *)
From V Require Import Base.Common Base.CommonLemmas Model.C05_Tracker Model.C05_Check Model.C06_Check
  Proofs.C05_Tracker Proofs.C06_Status Proofs.C06_MonitorT Proofs.C05_MonitorC Proofs.C06_MonitorQ.
Open Scope N_scope.

(* ---------- the hypotheses on scripts ---------- *)
(* a failing RecoverAll never lists in `ord` a cid it newly put in error: `ord` is the list RecoverAll returned, i.e. the cids
   recovered before the error (stateless.RecoverAll returns `resp, err` before appending the failing one; the harness builds
   `ord` from that list, harness/stateless/c05_rig_test.go: exec "recoverall") *)
Definition ord_ok (s : st) (e : event) : Prop :=
  match e with
  | ERecoverAll ord => snd (recover_all s ord) = RFull ->
      forall c, failed_op (fst (recover_all s ord)) c = true -> failed_op s c = false -> ~ In c ord
  | _ => True end.
Fixpoint ord_run (s : st) (evs : list event) : Prop :=
  match evs with [] => True | e :: r => ord_ok s e /\ ord_run (fst (step s e)) r end.

(* ---------- failed_op across the primitives ---------- *)
Lemma failed_op_frame s s' c : opframe s s' c -> failed_op s' c = failed_op s c.
Proof. unfold opframe, failed_op. destruct (aget c (table s)) as [o|], (aget c (table s')) as [o'|]; try tauto.
  intros (_ & T & _ & P). rewrite T. destruct (otyp o); auto; (destruct P as [P|[P1 P2]]; [now rewrite P | now rewrite P1, P2]). Qed.
Lemma nonremote_frame s s' c : opframe s s' c ->
  (exists o, aget c (table s) = Some o /\ otyp o <> ORemote) -> exists o, aget c (table s') = Some o /\ otyp o <> ORemote.
Proof. unfold opframe. intros F (o & Ho & T). rewrite Ho in F. destruct (aget c (table s')) as [o'|]; [|contradiction].
  exists o'. split; auto. destruct F as (_ & T' & _). congruence. Qed.

Lemma failed_op_live s c o : aget c (table s) = Some o -> live (oph o) = true -> failed_op s c = false.
Proof. intros Ho L. unfold failed_op. rewrite Ho. destruct (otyp o); auto; destruct (oph o); auto; discriminate. Qed.
Lemma failed_op_err s c o : aget c (table s) = Some o -> oph o = PError -> otyp o <> ORemote -> failed_op s c = true.
Proof. intros Ho P T. unfold failed_op. rewrite Ho, P. destruct (otyp o); auto; congruence. Qed.
Lemma failed_op_inv s c : failed_op s c = true -> exists o, aget c (table s) = Some o /\ oph o = PError /\ otyp o <> ORemote.
Proof. unfold failed_op. destruct (aget c (table s)) as [o|]; [|discriminate]. intros H. exists o. split; auto.
  destruct (otyp o); try discriminate; destruct (oph o); try discriminate; split; auto; discriminate. Qed.

(* recoverWithPinInfo on c0 *)
Lemma recover_with_c0 s c0 x : Inv s -> (forall p, aget c0 (pinset s) = Some p -> pcid p = c0) ->
  (snd (recover_with s c0 x) = ROk -> failed_op (fst (recover_with s c0 x)) c0 = true -> failed_op s c0 = true) /\
  (snd (recover_with s c0 x) = RFull -> exists o, aget c0 (table (fst (recover_with s c0 x))) = Some o /\ oph o = PError /\
        (otyp o = OPin \/ otyp o = OUnpin) /\ (act x = Some OPin -> otyp o = OPin)) /\
  ((exists o, aget c0 (table s) = Some o /\ otyp o <> ORemote) ->
   exists o, aget c0 (table (fst (recover_with s c0 x))) = Some o /\ otyp o <> ORemote).
Proof. intros I K.
  assert (E : forall p typ, typ <> ORemote -> pcid p = c0 ->
     (snd (enqueue s p typ) = ROk -> failed_op (fst (enqueue s p typ)) c0 = true -> failed_op s c0 = true) /\
     (snd (enqueue s p typ) = RFull -> exists o, aget c0 (table (fst (enqueue s p typ))) = Some o /\ oph o = PError /\ otyp o = typ) /\
     (exists o, aget c0 (table (fst (enqueue s p typ))) = Some o /\ otyp o = typ)).
  { intros p typ Ht Hc. destruct (enqueue_result s p typ I Ht) as (o & Ho & T & R). rewrite Hc in Ho. split; [|split].
    - intros Hr Hf. rewrite Hr in R. rewrite (failed_op_live _ _ _ Ho (proj1 R)) in Hf. discriminate.
    - intros Hr. rewrite Hr in R. exists o. split; auto. split; [apply R|auto].
    - eauto. }
  unfold recover_with. destruct x; cbn [act];
    try (split; [auto|split; [cbn; discriminate|auto]]; fail).
  - destruct (aget c0 (pinset s)) as [p|] eqn:Hp; [|split; [auto|split; [cbn; discriminate|auto]]].
    destruct (E p OPin) as (A & B & C); [discriminate|auto|]. split; auto. split.
    + intros Hr. destruct (B Hr) as (o & Ho & P & T). exists o. rewrite T. auto.
    + intros _. destruct C as (o & Ho & T). exists o. split; auto. congruence.
  - destruct (E (pincid c0) OUnpin) as (A & B & C); [discriminate|reflexivity|]. split; auto. split.
    + intros Hr. destruct (B Hr) as (o & Ho & P & T). exists o. rewrite T. repeat split; auto. discriminate.
    + intros _. destruct C as (o & Ho & T). exists o. split; auto. congruence.
  - destruct (aget c0 (pinset s)) as [p|] eqn:Hp; [|split; [auto|split; [cbn; discriminate|auto]]].
    destruct (E p OPin) as (A & B & C); [discriminate|auto|]. split; auto. split.
    + intros Hr. destruct (B Hr) as (o & Ho & P & T). exists o. rewrite T. auto.
    + intros _. destruct C as (o & Ho & T). exists o. split; auto. congruence. Qed.

(* what a cid without a failed operation must look like for recover to act on it *)
Lemma act_unfailed s c t : failed_op s c = false -> act (status_of s c) = Some t ->
  t = OPin /\ aget c (table s) = None /\ exists p, aget c (pinset s) = Some p /\ pmeta p = false /\ premote p = false /\ ipfs_has s c (pdirect p) = false.
Proof. unfold failed_op, status_of, ipfs_has. destruct (aget c (table s)) as [o|].
  - unfold op_status. destruct (otyp o), (oph o); cbn; intros A B; try discriminate A; discriminate B.
  - intros _. destruct (aget c (pinset s)) as [p|] eqn:Hp; [|cbn; discriminate]. destruct (pmeta p) eqn:Hm; [cbn; discriminate|].
    destruct (premote p) eqn:Hr; [cbn; discriminate|].
    destruct (match aget c (ipfs s) with Some d => Bool.eqb d (pdirect p) | None => false end) eqn:Hh; cbn; [discriminate|].
    intros H. injection H as <-. split; auto. split; auto. exists p. auto. Qed.

Definition fresh_fail (s s' : st) (c : N) : Prop :=
  aget c (table s) = None /\ (exists p, aget c (pinset s) = Some p /\ pmeta p = false /\ premote p = false /\ ipfs_has s c (pdirect p) = false) /\
  exists o', aget c (table s') = Some o' /\ otyp o' = OPin /\ oph o' = PError.

Lemma recover_list_failed l : forall s, Inv s -> LInv false s -> NoDup (map fst l) -> (forall c x, In (c, x) l -> x_ok s c x) ->
  forall c, failed_op (fst (recover_list s l)) c = true ->
    failed_op s c = true \/ (snd (recover_list s l) = RFull /\ fresh_fail s (fst (recover_list s l)) c).
Proof. induction l as [|[c0 x] r IH]; intros s I L Nd X c Hf; [left; exact Hf|]. cbn [recover_list] in *.
  pose proof (recover_with_inv s c0 x I) as I1.
  pose proof (recover_with_linv false s c0 x I L (X c0 x (or_introl eq_refl))) as L1.
  destruct (recover_with_fields s c0 x) as (Hi & Hp & Hl).
  destruct (recover_with_c0 s c0 x I (li_keyed _ _ L c0)) as (A & B & _).
  assert (Fr : forall c', c' <> c0 -> opframe s (fst (recover_with s c0 x)) c') by (intros c' Hn; apply recover_with_frame; auto; apply L).
  inversion Nd as [|? ? Hni Nd']; subst.
  assert (X1 : forall c' x', In (c', x') r -> x_ok (fst (recover_with s c0 x)) c' x').
  { intros c' x' Hin. assert (Hne : c' <> c0) by (intros ->; apply Hni; apply in_map_iff; exists (c0, x'); auto).
    destruct (X c' x' (or_intror Hin)) as [E|E]; [now left|right]. rewrite E. symmetry. apply status_of_frame; auto. now rewrite Hi. }
  destruct (recover_with s c0 x) as [s1 [|]] eqn:E; cbn [fst snd] in *.
  - destruct (IH s1 I1 L1 Nd' X1 c Hf) as [H|[Hr (Hn & (p & Hpp & Hm & Hrm & Hh) & Ho')]].
    + left. destruct (N.eq_dec c c0) as [->|Hn]; [apply A; auto | now rewrite <- (failed_op_frame s s1 c (Fr c Hn))].
    + right. split; auto. split; [|split; auto].
      * destruct (aget c (table s)) eqn:G; auto. exfalso. pose proof (recover_with_persist s c0 x c I) as Pp. rewrite E in Pp. cbn in Pp. apply Pp; congruence.
      * exists p. rewrite <- Hp. repeat split; auto. unfold ipfs_has in *. now rewrite <- Hi.
  - destruct (N.eq_dec c c0) as [->|Hn]; [|left; now rewrite <- (failed_op_frame s s1 c (Fr c Hn))].
    destruct (failed_op s c0) eqn:F0; [now left|]. right. split; auto.
    destruct (B eq_refl) as (o & Ho & P & T & Ta).
    assert (Hx : act x <> None). { intros Hx. rewrite (recover_with_noop s c0 x Hx) in E. discriminate. }
    destruct (X c0 x (or_introl eq_refl)) as [Xa|Xa]; [contradiction|].
    destruct (act x) as [t|] eqn:Hact; [|congruence]. symmetry in Xa. destruct (act_unfailed s c0 t F0 Xa) as (-> & Hn & Hpin).
    split; auto. split; auto. exists o. auto. Qed.

Lemma recover_list_nonremote l : forall s c, Inv s -> (forall c p, aget c (pinset s) = Some p -> pcid p = c) ->
  (exists o, aget c (table s) = Some o /\ otyp o <> ORemote) ->
  exists o, aget c (table (fst (recover_list s l))) = Some o /\ otyp o <> ORemote.
Proof. induction l as [|[c0 x] r IH]; intros s c I K H; [exact H|]. cbn [recover_list].
  pose proof (recover_with_inv s c0 x I) as I1. destruct (recover_with_fields s c0 x) as (_ & Hp & _).
  assert (H1 : exists o, aget c (table (fst (recover_with s c0 x))) = Some o /\ otyp o <> ORemote).
  { destruct (N.eq_dec c c0) as [->|Hn].
    - destruct (recover_with_c0 s c0 x I (K c0)) as (_ & _ & C). auto.
    - eapply nonremote_frame; [apply recover_with_frame; auto|exact H]. }
  destruct (recover_with s c0 x) as [s1 [|]]; cbn [fst] in *; auto. apply IH; auto. now rewrite Hp. Qed.

(* ---------- calls in flight as observed ---------- *)
Lemma find_map {A B} (f : A -> B) (p : B -> bool) l : find p (map f l) = option_map f (find (fun a => p (f a)) l).
Proof. induction l as [|a r IH]; [reflexivity|]. cbn. destruct (p (f a)); auto. Qed.

Lemma call_obs_cid s cl : (let '(c, _, _, _) := call_obs s cl in c) = ccid cl.
Proof. unfold call_obs. destruct (ckd cl); [destruct (aget (ccid cl) (table s))|..]; reflexivity. Qed.

Lemma inflight_of_find s c0 : inflight_of (infobs s) c0 =
  match find (fun cl => N.eqb (ccid cl) c0) (calls s) with
  | Some cl => let '(_, k, d, _) := call_obs s cl in Some (k, d) | None => None end.
Proof. unfold inflight_of, infobs. rewrite find_map.
  assert (E : forall l, find (fun a => let '(c', _, _, _) := call_obs s a in N.eqb c' c0) l = find (fun cl => N.eqb (ccid cl) c0) l).
  { induction l as [|a r IH]; [reflexivity|]. cbn [find]. rewrite IH. pose proof (call_obs_cid s a) as H.
    destruct (call_obs s a) as [[[c k] d] t]. now rewrite H. }
  rewrite E. destruct (find _ (calls s)) as [cl|]; [|reflexivity]. cbn. destruct (call_obs s cl) as [[[c k] d] t]. reflexivity. Qed.

(* the call the monitor sees for c0 and the operation it belongs to *)
Lemma inflight_kd s c0 k d : Inv s -> inflight_of (infobs s) c0 = Some (k, d) ->
  exists cl o, In cl (calls s) /\ ccid cl = c0 /\ aget c0 (table s) = Some o /\ otyp o = kind_type (ckd cl) /\
    (ckd cl = KPin -> k = 0 /\ d = if pdirect (opin o) then 1 else 0) /\ (ckd cl <> KPin -> k = 1).
Proof. intros I H. rewrite inflight_of_find in H. destruct (find _ (calls s)) as [cl|] eqn:F; [|discriminate].
  apply find_some in F. destruct F as [Hin Hc]. apply N.eqb_eq in Hc. destruct (inv_calls _ I _ Hin) as (o & Ho & _ & _ & Hty).
  rewrite Hc in Ho. exists cl, o. split; auto. split; auto. split; auto. split; auto.
  unfold call_obs in H. rewrite Hc, Ho in H. destruct (ckd cl); injection H as <- <-; split; try congruence; auto. Qed.

Lemma inflight_none s c0 : inflight_of (infobs s) c0 = None -> forall cl, In cl (calls s) -> ccid cl <> c0.
Proof. intros H cl Hin Hc. exact (inflight_of_model s c0 cl Hin Hc H). Qed.

Lemma conn_pin_snd i c d : snd (conn_pin i c d) = negb (d && match aget c i with Some false => true | _ => false end).
Proof. unfold conn_pin. destruct (aget c i) as [[|]|]; destruct d; reflexivity. Qed.

(* ---------- listing entries ---------- *)
Lemma st_bits_4 x : st_bits x = 4 -> x = SPinError. Proof. destruct x; cbn; intros; try discriminate; reflexivity. Qed.
Lemma listing_obs s c : aget c (status_all_obs s 0) = match listed s c with Some x => Some (st_bits x) | None => None end.
Proof. unfold status_all_obs, listed. apply aget_map_snd. Qed.

Lemma listing_pin_error s c : Inv s -> LInv false s -> aget c (status_all_obs s 0) = Some 4 ->
  exists o, aget c (table s) = Some o /\ otyp o = OPin /\ oph o = PError.
Proof. intros I L H. rewrite listing_obs, (listed_entry s c (inv_nodup _ I) (li_pnodup _ _ L)) in H. unfold entry_of in H.
  destruct (aget c (table s)) as [o|].
  - exists o. split; auto. assert (E : st_bits (op_status o) = 4) by congruence. apply st_bits_4 in E. unfold op_status in E.
    destruct (otyp o), (oph o); try discriminate; auto.
  - exfalso. destruct (aget c (pinset s)) as [p|]; [|discriminate]. destruct (pmeta p); [discriminate|]. destruct (premote p); [discriminate|].
    destruct (ipfs_has s c (pdirect p)); discriminate. Qed.
Lemma listing_of_pin_error s c o : Inv s -> LInv false s -> aget c (table s) = Some o -> otyp o = OPin -> oph o = PError ->
  aget c (status_all_obs s 0) = Some 4.
Proof. intros I L Ho T P. rewrite listing_obs, (listed_entry s c (inv_nodup _ I) (li_pnodup _ _ L)). unfold entry_of. rewrite Ho.
  unfold op_status. now rewrite T, P. Qed.
Lemma listing_unexpected s c p : Inv s -> LInv false s -> aget c (table s) = None -> aget c (pinset s) = Some p ->
  pmeta p = false -> premote p = false -> ipfs_has s c (pdirect p) = false -> aget c (status_all_obs s 0) = Some 4096.
Proof. intros I L Hn Hp Hm Hr Hh. rewrite listing_obs, (listed_entry s c (inv_nodup _ I) (li_pnodup _ _ L)). unfold entry_of.
  now rewrite Hn, Hp, Hm, Hr, Hh. Qed.

Lemma dm_mode s c d : optN_eqb (aget c (dmobs s)) (Some (mode_code d)) = ipfs_has s c d.
Proof. unfold dmobs, ipfs_has. rewrite aget_map_snd. destruct (aget c (ipfs s)) as [[|]|]; destruct d; reflexivity. Qed.
