(* C06 — completeness of codes 20 / 21 (both views truthful at quiescence) for the model: along every script that is
   stable (a cid does not change between meta and non-meta without an unpin - Cluster.pin enforces it) and follows the
   harness convention for RecoverAll (the recorded order lists the cids recovered before an error, never the cid whose
   enqueue failed), the observation trace computed from the model raises neither code.
   The invariant FI ties the monitor's record sp6 to the tracker state; its core: a cid is in s6_failed exactly when the
   operation tracked for it is a pin / unpin operation that is in error once it is no longer live. *)
From V Require Import Base.Common Base.CommonLemmas Model.C05_Tracker Model.C05_Check Model.C06_Check
  Proofs.C05_Tracker Proofs.C05_Monitor Proofs.C06_Status Proofs.C06_MonitorT Proofs.C05_MonitorC Proofs.C06_MonitorQ.
Open Scope N_scope.

(* ---------- the hypotheses on scripts ---------- *)
(* a failing RecoverAll never lists in `ord` a cid it newly put in error: `ord` is the list RecoverAll returned, i.e. the cids
   recovered before the error (stateless.RecoverAll returns `resp, err` before appending the failing one; the harness builds
   `ord` from that list, harness/stateless/c05_rig_test.go: exec "recoverall") *)
Definition ord_ok (s : st) (e : event) : Prop :=
  match e with
  | ERecoverAll ord => snd (recover_all s ord) = RFull ->
      forall c, failed_op (fst (recover_all s ord)) c = true -> failed_op s c = false -> ~ In c ord
  | _ => True end.
Fixpoint ord_run (s : st) (evs : list event) : Prop :=
  match evs with [] => True | e :: r => ord_ok s e /\ ord_run (fst (step s e)) r end.

(* ---------- failed_op across the primitives ---------- *)
Lemma failed_op_frame s s' c : opframe s s' c -> failed_op s' c = failed_op s c.
Proof. unfold opframe, failed_op. destruct (aget c (table s)) as [o|], (aget c (table s')) as [o'|]; try tauto.
  intros (_ & T & _ & P). rewrite T. destruct (otyp o); auto; (destruct P as [P|[P1 P2]]; [now rewrite P | now rewrite P1, P2]). Qed.
Lemma nonremote_frame s s' c : opframe s s' c ->
  (exists o, aget c (table s) = Some o /\ otyp o <> ORemote) -> exists o, aget c (table s') = Some o /\ otyp o <> ORemote.
Proof. unfold opframe. intros F (o & Ho & T). rewrite Ho in F. destruct (aget c (table s')) as [o'|]; [|contradiction].
  exists o'. split; auto. destruct F as (_ & T' & _). congruence. Qed.

Lemma failed_op_live s c o : aget c (table s) = Some o -> live (oph o) = true -> failed_op s c = false.
Proof. intros Ho L. unfold failed_op. rewrite Ho. destruct (otyp o); auto; destruct (oph o); auto; discriminate. Qed.
Lemma failed_op_err s c o : aget c (table s) = Some o -> oph o = PError -> otyp o <> ORemote -> failed_op s c = true.
Proof. intros Ho P T. unfold failed_op. rewrite Ho, P. destruct (otyp o); auto; congruence. Qed.
Lemma failed_op_inv s c : failed_op s c = true -> exists o, aget c (table s) = Some o /\ oph o = PError /\ otyp o <> ORemote.
Proof. unfold failed_op. destruct (aget c (table s)) as [o|]; [|discriminate]. intros H. exists o. split; auto.
  destruct (otyp o); try discriminate; destruct (oph o); try discriminate; split; auto; discriminate. Qed.

(* recoverWithPinInfo on c0 *)
Lemma recover_with_c0 s c0 x : Inv s -> (forall p, aget c0 (pinset s) = Some p -> pcid p = c0) ->
  (snd (recover_with s c0 x) = ROk -> failed_op (fst (recover_with s c0 x)) c0 = true -> failed_op s c0 = true) /\
  (snd (recover_with s c0 x) = RFull -> exists o, aget c0 (table (fst (recover_with s c0 x))) = Some o /\ oph o = PError /\
        (otyp o = OPin \/ otyp o = OUnpin) /\ (act x = Some OPin -> otyp o = OPin)) /\
  ((exists o, aget c0 (table s) = Some o /\ otyp o <> ORemote) ->
   exists o, aget c0 (table (fst (recover_with s c0 x))) = Some o /\ otyp o <> ORemote).
Proof. intros I K.
  assert (E : forall p typ, typ <> ORemote -> pcid p = c0 ->
     (snd (enqueue s p typ) = ROk -> failed_op (fst (enqueue s p typ)) c0 = true -> failed_op s c0 = true) /\
     (snd (enqueue s p typ) = RFull -> exists o, aget c0 (table (fst (enqueue s p typ))) = Some o /\ oph o = PError /\ otyp o = typ) /\
     (exists o, aget c0 (table (fst (enqueue s p typ))) = Some o /\ otyp o = typ)).
  { intros p typ Ht Hc. destruct (enqueue_result s p typ I Ht) as (o & Ho & T & R). rewrite Hc in Ho. split; [|split].
    - intros Hr Hf. rewrite Hr in R. rewrite (failed_op_live _ _ _ Ho (proj1 R)) in Hf. discriminate.
    - intros Hr. rewrite Hr in R. exists o. split; auto. split; [apply R|auto].
    - eauto. }
  unfold recover_with. destruct x; cbn [act];
    try (split; [auto|split; [cbn; discriminate|auto]]; fail).
  - destruct (aget c0 (pinset s)) as [p|] eqn:Hp; [|split; [auto|split; [cbn; discriminate|auto]]].
    destruct (E p OPin) as (A & B & C); [discriminate|auto|]. split; auto. split.
    + intros Hr. destruct (B Hr) as (o & Ho & P & T). exists o. rewrite T. auto.
    + intros _. destruct C as (o & Ho & T). exists o. split; auto. congruence.
  - destruct (E (pincid c0) OUnpin) as (A & B & C); [discriminate|reflexivity|]. split; auto. split.
    + intros Hr. destruct (B Hr) as (o & Ho & P & T). exists o. rewrite T. repeat split; auto. discriminate.
    + intros _. destruct C as (o & Ho & T). exists o. split; auto. congruence.
  - destruct (aget c0 (pinset s)) as [p|] eqn:Hp; [|split; [auto|split; [cbn; discriminate|auto]]].
    destruct (E p OPin) as (A & B & C); [discriminate|auto|]. split; auto. split.
    + intros Hr. destruct (B Hr) as (o & Ho & P & T). exists o. rewrite T. auto.
    + intros _. destruct C as (o & Ho & T). exists o. split; auto. congruence. Qed.

(* what a cid without a failed operation must look like for recover to act on it *)
Lemma act_unfailed s c t : failed_op s c = false -> act (status_of s c) = Some t ->
  t = OPin /\ aget c (table s) = None /\ exists p, aget c (pinset s) = Some p /\ pmeta p = false /\ premote p = false /\ ipfs_has s c (pdirect p) = false.
Proof. unfold failed_op, status_of, ipfs_has. destruct (aget c (table s)) as [o|].
  - unfold op_status. destruct (otyp o), (oph o); cbn; intros A B; try discriminate A; discriminate B.
  - intros _. destruct (aget c (pinset s)) as [p|] eqn:Hp; [|cbn; discriminate]. destruct (pmeta p) eqn:Hm; [cbn; discriminate|].
    destruct (premote p) eqn:Hr; [cbn; discriminate|].
    destruct (match aget c (ipfs s) with Some d => Bool.eqb d (pdirect p) | None => false end) eqn:Hh; cbn; [discriminate|].
    intros H. injection H as <-. split; auto. split; auto. exists p. auto. Qed.

Definition fresh_fail (s s' : st) (c : N) : Prop :=
  aget c (table s) = None /\ (exists p, aget c (pinset s) = Some p /\ pmeta p = false /\ premote p = false /\ ipfs_has s c (pdirect p) = false) /\
  exists o', aget c (table s') = Some o' /\ otyp o' = OPin /\ oph o' = PError.

Lemma recover_list_failed l : forall s, Inv s -> LInv false s -> NoDup (map fst l) -> (forall c x, In (c, x) l -> x_ok s c x) ->
  forall c, failed_op (fst (recover_list s l)) c = true ->
    failed_op s c = true \/ (snd (recover_list s l) = RFull /\ fresh_fail s (fst (recover_list s l)) c).
Proof. induction l as [|[c0 x] r IH]; intros s I L Nd X c Hf; [left; exact Hf|]. cbn [recover_list] in *.
  pose proof (recover_with_inv s c0 x I) as I1.
  pose proof (recover_with_linv false s c0 x I L (X c0 x (or_introl eq_refl))) as L1.
  destruct (recover_with_fields s c0 x) as (Hi & Hp & Hl).
  destruct (recover_with_c0 s c0 x I (li_keyed _ _ L c0)) as (A & B & _).
  assert (Fr : forall c', c' <> c0 -> opframe s (fst (recover_with s c0 x)) c') by (intros c' Hn; apply recover_with_frame; auto; apply L).
  inversion Nd as [|? ? Hni Nd']; subst.
  assert (X1 : forall c' x', In (c', x') r -> x_ok (fst (recover_with s c0 x)) c' x').
  { intros c' x' Hin. assert (Hne : c' <> c0) by (intros ->; apply Hni; apply in_map_iff; exists (c0, x'); auto).
    destruct (X c' x' (or_intror Hin)) as [E|E]; [now left|right]. rewrite E. symmetry. apply status_of_frame; auto. now rewrite Hi. }
  destruct (recover_with s c0 x) as [s1 [|]] eqn:E; cbn [fst snd] in *.
  - destruct (IH s1 I1 L1 Nd' X1 c Hf) as [H|[Hr (Hn & (p & Hpp & Hm & Hrm & Hh) & Ho')]].
    + left. destruct (N.eq_dec c c0) as [->|Hn]; [apply A; auto | now rewrite <- (failed_op_frame s s1 c (Fr c Hn))].
    + right. split; auto. split; [|split; auto].
      * destruct (aget c (table s)) eqn:G; auto. exfalso. pose proof (recover_with_persist s c0 x c I) as Pp. rewrite E in Pp. cbn in Pp. apply Pp; congruence.
      * exists p. rewrite <- Hp. repeat split; auto. unfold ipfs_has in *. now rewrite <- Hi.
  - destruct (N.eq_dec c c0) as [->|Hn]; [|left; now rewrite <- (failed_op_frame s s1 c (Fr c Hn))].
    destruct (failed_op s c0) eqn:F0; [now left|]. right. split; auto.
    destruct (B eq_refl) as (o & Ho & P & T & Ta).
    assert (Hx : act x <> None). { intros Hx. rewrite (recover_with_noop s c0 x Hx) in E. discriminate. }
    destruct (X c0 x (or_introl eq_refl)) as [Xa|Xa]; [contradiction|].
    destruct (act x) as [t|] eqn:Hact; [|congruence]. symmetry in Xa. destruct (act_unfailed s c0 t F0 Xa) as (-> & Hn & Hpin).
    split; auto. split; auto. exists o. auto. Qed.

Lemma recover_list_nonremote l : forall s c, Inv s -> (forall c p, aget c (pinset s) = Some p -> pcid p = c) ->
  (exists o, aget c (table s) = Some o /\ otyp o <> ORemote) ->
  exists o, aget c (table (fst (recover_list s l))) = Some o /\ otyp o <> ORemote.
Proof. induction l as [|[c0 x] r IH]; intros s c I K H; [exact H|]. cbn [recover_list].
  pose proof (recover_with_inv s c0 x I) as I1. destruct (recover_with_fields s c0 x) as (_ & Hp & _).
  assert (H1 : exists o, aget c (table (fst (recover_with s c0 x))) = Some o /\ otyp o <> ORemote).
  { destruct (N.eq_dec c c0) as [->|Hn].
    - destruct (recover_with_c0 s c0 x I (K c0)) as (_ & _ & C). auto.
    - eapply nonremote_frame; [apply recover_with_frame; auto|exact H]. }
  destruct (recover_with s c0 x) as [s1 [|]]; cbn [fst] in *; auto. apply IH; auto. now rewrite Hp. Qed.

(* ---------- calls in flight as observed ---------- *)
Lemma find_map {A B} (f : A -> B) (p : B -> bool) l : find p (map f l) = option_map f (find (fun a => p (f a)) l).
Proof. induction l as [|a r IH]; [reflexivity|]. cbn. destruct (p (f a)); auto. Qed.

Lemma call_obs_cid s cl : (let '(c, _, _, _) := call_obs s cl in c) = ccid cl.
Proof. unfold call_obs. destruct (ckd cl); [destruct (aget (ccid cl) (table s))|..]; reflexivity. Qed.

Lemma inflight_of_find s c0 : inflight_of (infobs s) c0 =
  match find (fun cl => N.eqb (ccid cl) c0) (calls s) with
  | Some cl => let '(_, k, d, _) := call_obs s cl in Some (k, d) | None => None end.
Proof. unfold inflight_of, infobs. rewrite find_map.
  assert (E : forall l, find (fun a => let '(c', _, _, _) := call_obs s a in N.eqb c' c0) l = find (fun cl => N.eqb (ccid cl) c0) l).
  { induction l as [|a r IH]; [reflexivity|]. cbn [find]. rewrite IH. pose proof (call_obs_cid s a) as H.
    destruct (call_obs s a) as [[[c k] d] t]. now rewrite H. }
  rewrite E. destruct (find _ (calls s)) as [cl|]; [|reflexivity]. cbn. destruct (call_obs s cl) as [[[c k] d] t]. reflexivity. Qed.

(* the call the monitor sees for c0 and the operation it belongs to *)
Lemma inflight_kd s c0 k d : Inv s -> inflight_of (infobs s) c0 = Some (k, d) ->
  exists cl o, In cl (calls s) /\ ccid cl = c0 /\ aget c0 (table s) = Some o /\ otyp o = kind_type (ckd cl) /\
    (ckd cl = KPin -> k = 0 /\ d = if pdirect (opin o) then 1 else 0) /\ (ckd cl <> KPin -> k = 1).
Proof. intros I H. rewrite inflight_of_find in H. destruct (find _ (calls s)) as [cl|] eqn:F; [|discriminate].
  apply find_some in F. destruct F as [Hin Hc]. apply N.eqb_eq in Hc. destruct (inv_calls _ I _ Hin) as (o & Ho & _ & _ & Hty).
  rewrite Hc in Ho. exists cl, o. split; auto. split; auto. split; auto. split; auto.
  unfold call_obs in H. rewrite Hc, Ho in H. destruct (ckd cl); injection H as <- <-; split; try congruence; auto. Qed.

Lemma inflight_none s c0 : inflight_of (infobs s) c0 = None -> forall cl, In cl (calls s) -> ccid cl <> c0.
Proof. intros H cl Hin Hc. exact (inflight_of_model s c0 cl Hin Hc H). Qed.

Lemma conn_pin_snd i c d : snd (conn_pin i c d) = negb (d && match aget c i with Some false => true | _ => false end).
Proof. unfold conn_pin. destruct (aget c i) as [[|]|]; destruct d; reflexivity. Qed.

(* ---------- listing entries ---------- *)
Lemma st_bits_4 x : st_bits x = 4 -> x = SPinError. Proof. destruct x; cbn; intros; try discriminate; reflexivity. Qed.
Lemma listing_obs s c : aget c (status_all_obs s 0) = match listed s c with Some x => Some (st_bits x) | None => None end.
Proof. unfold status_all_obs, listed. apply aget_map_snd. Qed.

Lemma listing_pin_error s c : Inv s -> LInv false s -> aget c (status_all_obs s 0) = Some 4 ->
  exists o, aget c (table s) = Some o /\ otyp o = OPin /\ oph o = PError.
Proof. intros I L H. rewrite listing_obs, (listed_entry s c (inv_nodup _ I) (li_pnodup _ _ L)) in H. unfold entry_of in H.
  destruct (aget c (table s)) as [o|].
  - exists o. split; auto. assert (E : st_bits (op_status o) = 4) by congruence. apply st_bits_4 in E. unfold op_status in E.
    destruct (otyp o), (oph o); try discriminate; auto.
  - exfalso. destruct (aget c (pinset s)) as [p|]; [|discriminate]. destruct (pmeta p); [discriminate|]. destruct (premote p); [discriminate|].
    destruct (ipfs_has s c (pdirect p)); discriminate. Qed.
Lemma listing_of_pin_error s c o : Inv s -> LInv false s -> aget c (table s) = Some o -> otyp o = OPin -> oph o = PError ->
  aget c (status_all_obs s 0) = Some 4.
Proof. intros I L Ho T P. rewrite listing_obs, (listed_entry s c (inv_nodup _ I) (li_pnodup _ _ L)). unfold entry_of. rewrite Ho.
  unfold op_status. now rewrite T, P. Qed.
Lemma listing_unexpected s c p : Inv s -> LInv false s -> aget c (table s) = None -> aget c (pinset s) = Some p ->
  pmeta p = false -> premote p = false -> ipfs_has s c (pdirect p) = false -> aget c (status_all_obs s 0) = Some 4096.
Proof. intros I L Hn Hp Hm Hr Hh. rewrite listing_obs, (listed_entry s c (inv_nodup _ I) (li_pnodup _ _ L)). unfold entry_of.
  now rewrite Hn, Hp, Hm, Hr, Hh. Qed.

Lemma dm_mode s c d : optN_eqb (aget c (dmobs s)) (Some (mode_code d)) = ipfs_has s c d.
Proof. unfold dmobs, ipfs_has. rewrite aget_map_snd. destruct (aget c (ipfs s)) as [[|]|]; destruct d; reflexivity. Qed.

(* ---------- the invariant ---------- *)
Record FI (s : st) (x : sp6) : Prop := {
  f_inv : Inv s; f_linv : LInv false s; f_minv : MInv s; f_np : (0 < npin s)%nat; f_D : dispatched s;
  f_pinset : s6_pinset x = pinset s; f_dm : s6_dm x = dmobs s; f_inf : s6_inf x = infobs s;
  f_all : forall l, s6_all x = Some l -> l = status_all_obs s 0;
  (* the core: failed <-> the tracked operation is a pin / unpin operation, in error once no longer live *)
  f_g1 : forall c, failed_op s c = true -> In c (s6_failed x);
  f_g2 : forall c, In c (s6_failed x) -> exists o, aget c (table s) = Some o /\ otyp o <> ORemote }.

Lemma in_setf c c' (b : bool) fl : In c' (if b then c :: remove_c c fl else remove_c c fl) <-> (c' = c /\ b = true) \/ (In c' fl /\ c' <> c).
Proof. destruct b; cbn [In]; rewrite in_remove_c; split; intros H; try tauto.
  - destruct H as [H|H]; [left; split; auto|tauto].
  - destruct H as [[H _]|H]; [left; auto|tauto].
  - destruct H as [[_ H]|H]; [discriminate|tauto]. Qed.

Lemma was_unexp_ok s x c p : Inv s -> LInv false s -> s6_pinset x = pinset s -> s6_dm x = dmobs s ->
  (forall l, s6_all x = Some l -> l = status_all_obs s 0) ->
  aget c (table s) = None -> aget c (pinset s) = Some p -> pmeta p = false -> premote p = false -> ipfs_has s c (pdirect p) = false ->
  was_unexp x c = true.
Proof. intros I L Hps Hdm Hall Hn Hp Hm Hr Hh. unfold was_unexp. destruct (s6_all x) as [l|] eqn:A.
  - rewrite (Hall l eq_refl), (listing_unexpected s c p I L Hn Hp Hm Hr Hh). reflexivity.
  - rewrite Hps, Hp, Hm, Hr, Hdm, dm_mode, Hh. reflexivity. Qed.

Section FStep.
Variables (n : N) (fs : list N) (s : st) (x : sp6) (e : event).
Hypothesis M : FI s x.
Hypothesis Hst : ev_stable s e.
Hypothesis Hord : ord_ok s e.
Let s' := fst (step s e).
Let r := snd (step s e).
Let o := model_obs n s' r fs.
Let x' := sp6_event x e o.
Let I := f_inv _ _ M.
Let L := f_linv _ _ M.

Lemma fs_inv : Inv s'. Proof. apply step_inv, I. Qed.
Lemma fs_linv : LInv false s'. Proof. apply step_linv; [apply I | apply L | discriminate]. Qed.

Lemma fs_ret : N.eqb (o_ret o) 1 = match r with RFull => true | ROk => false end.
Proof. unfold o, model_obs, o_ret. destruct r; reflexivity. Qed.

(* every cid other than the one the event addresses keeps its operation *)
Lemma fs_other c : match e with ETrack p => c <> pcid p | EUntrack c0 => c <> c0 | ERecover c0 => c <> c0 | EComplete c0 _ => c <> c0
                           | EDaemon _ _ => True | ERecoverAll _ => False end -> opframe s s' c.
Proof. intros H. unfold s'. rewrite step_fst. pose proof (step_raw_inv s e I) as I1.
  eapply opframe_trans; [|apply dispatch_frame; exact I1]. destruct e as [p|c0|c0|ord|c0 f|c0 m]; cbn [step_raw fst].
  - destruct (track_effect s p I) as (_ & _ & _ & Fo & _). auto.
  - destruct (untrack_effect s c0 I) as (_ & _ & _ & Fo & _). auto.
  - apply recover_with_frame; auto. apply (li_keyed _ _ L).
  - contradiction.
  - destruct (complete_effect s c0 f I) as (_ & _ & Fo & _). apply Fo. auto.
  - apply opframe_eq. reflexivity. Qed.

Lemma g_frame (fl : list N) : (forall c, In c fl <-> In c (s6_failed x)) -> (forall c, opframe s s' c) ->
  (forall c, failed_op s' c = true -> In c fl) /\ (forall c, In c fl -> exists o0, aget c (table s') = Some o0 /\ otyp o0 <> ORemote).
Proof. intros Hfl Hfr. split; intros c H.
  - apply Hfl. apply (f_g1 _ _ M). now rewrite <- (failed_op_frame s s' c (Hfr c)).
  - apply Hfl in H. eapply nonremote_frame; [apply Hfr | apply (f_g2 _ _ M c H)]. Qed.

(* the update `setf c0 b` when c0's operation afterwards is as b says *)
Lemma g_setf c0 (b : bool) : (forall c, c <> c0 -> opframe s s' c) ->
  (failed_op s' c0 = b) -> (b = true -> exists o0, aget c0 (table s') = Some o0 /\ otyp o0 <> ORemote) ->
  let fl := if b then c0 :: remove_c c0 (s6_failed x) else remove_c c0 (s6_failed x) in
  (forall c, failed_op s' c = true -> In c fl) /\ (forall c, In c fl -> exists o0, aget c (table s') = Some o0 /\ otyp o0 <> ORemote).
Proof. intros Hfr Hb Hnr fl. split; intros c H; unfold fl in *; [apply in_setf | apply in_setf in H].
  - destruct (N.eq_dec c c0) as [->|Hn]; [left; split; auto; congruence|]. right. split; auto.
    apply (f_g1 _ _ M). now rewrite <- (failed_op_frame s s' c (Hfr c Hn)).
  - destruct H as [[-> Hbt]|[H Hn]]; [auto|]. eapply nonremote_frame; [apply (Hfr c Hn) | apply (f_g2 _ _ M c H)]. Qed.

Lemma fs_failed :
  (forall c, failed_op s' c = true -> In c (s6_failed x')) /\
  (forall c, In c (s6_failed x') -> exists o0, aget c (table s') = Some o0 /\ otyp o0 <> ORemote).
Proof. unfold x'. case_eq e; [intros p Ee|intros c0 Ee|intros c0 Ee|intros ord Ee|intros c0 f Ee|intros c0 m Ee]; cbn [sp6_event s6_failed].
  - (* Track *) destruct (pmeta p) eqn:Hm.
    + apply g_frame; [tauto|]. intros c. destruct (N.eq_dec c (pcid p)) as [->|Hn]; [|apply fs_other; rewrite Ee; exact Hn].
      unfold s'. rewrite Ee, step_fst. eapply opframe_trans; [|apply dispatch_frame; apply (step_raw_inv s (ETrack p) I)].
      cbn [step_raw]. destruct (track_effect s p I) as (_ & _ & _ & _ & Ft). now rewrite Hm in Ft.
    + rewrite fs_ret. apply (g_setf (pcid p)); [intros c Hn; apply fs_other; rewrite Ee; exact Hn| |].
      * unfold s', r. rewrite Ee. destruct (premote p) eqn:Hr.
        -- destruct (track_remote_op s p I Hm Hr) as [R (o0 & Ho & T & P)]. rewrite R. unfold failed_op. now rewrite Ho, T.
        -- destruct (instr_reported s (ETrack p) (pcid p) OPin I) as (o0 & Ho & T & R); [auto|].
           destruct (snd (step s (ETrack p))); [apply (failed_op_live _ _ _ Ho R) | apply (failed_op_err _ _ _ Ho R); congruence].
      * unfold s', r. rewrite Ee. destruct (premote p) eqn:Hr.
        -- destruct (track_remote_op s p I Hm Hr) as [R _]. rewrite R. discriminate.
        -- destruct (instr_reported s (ETrack p) (pcid p) OPin I) as (o0 & Ho & T & R); [auto|]. intros _. exists o0. split; auto. congruence.
  - (* Untrack *) rewrite fs_ret. apply (g_setf c0); [intros c Hn; apply fs_other; rewrite Ee; exact Hn| |].
    + unfold s', r. rewrite Ee. destruct (instr_reported s (EUntrack c0) c0 OUnpin I) as (o0 & Ho & T & R); [auto|].
      destruct (snd (step s (EUntrack c0))); [apply (failed_op_live _ _ _ Ho R) | apply (failed_op_err _ _ _ Ho R); congruence].
    + unfold s', r. rewrite Ee. destruct (instr_reported s (EUntrack c0) c0 OUnpin I) as (o0 & Ho & T & R); [auto|]. intros _. exists o0. split; auto. congruence.
  - (* Recover *) rewrite fs_ret.
    assert (Fr : forall c, c <> c0 -> opframe s s' c) by (intros c Hn; apply fs_other; rewrite Ee; exact Hn).
    pose proof (recover_with_inv s c0 (status_of s c0) I) as I1.
    destruct (recover_with_c0 s c0 (status_of s c0) I (li_keyed _ _ L c0)) as (A & B & C).
    assert (Es : s' = dispatch (fst (recover_with s c0 (status_of s c0)))) by (unfold s'; rewrite Ee, step_fst; reflexivity).
    assert (Er : r = snd (recover_with s c0 (status_of s c0))) by (unfold r; rewrite Ee, step_snd; reflexivity).
    assert (Fd : opframe (fst (recover_with s c0 (status_of s c0))) s' c0) by (rewrite Es; apply dispatch_frame; exact I1).
    destruct r eqn:Hr.
    + (* nil: the record is left alone *) split; intros c H.
      * destruct (N.eq_dec c c0) as [->|Hn]; [|apply (f_g1 _ _ M); now rewrite <- (failed_op_frame s s' c (Fr c Hn))].
        apply (f_g1 _ _ M). apply A; auto. now rewrite <- (failed_op_frame _ _ _ Fd).
      * destruct (N.eq_dec c c0) as [->|Hn]; [|eapply nonremote_frame; [apply (Fr c Hn) | apply (f_g2 _ _ M c H)]].
        eapply nonremote_frame; [exact Fd | apply C, (f_g2 _ _ M c0 H)].
    + destruct (B (eq_sym Er)) as (o0 & Ho & P & T & _).
      assert (Hnr : otyp o0 <> ORemote) by (destruct T as [T|T]; rewrite T; discriminate).
      apply (g_setf c0 true); auto.
      * rewrite (failed_op_frame _ _ _ Fd). apply (failed_op_err _ _ _ Ho P Hnr).
      * intros _. eapply nonremote_frame; [exact Fd | eauto].
  - (* RecoverAll *)
    assert (Es : s' = dispatch (fst (recover_all s ord))) by (unfold s'; rewrite Ee, step_fst; reflexivity).
    assert (Er : r = snd (recover_all s ord)) by (unfold r; rewrite Ee, step_snd; reflexivity).
    pose proof (recover_list_inv (order_by ord (status_all s 0)) s I) as I1. fold (recover_all s ord) in I1.
    assert (Fd : forall c, opframe (fst (recover_all s ord)) s' c) by (intros c; rewrite Es; apply dispatch_frame; exact I1).
    pose proof (status_all0_nodup s (inv_nodup _ I) (li_pnodup _ _ L)) as Nd.
    assert (Xall : forall c' y, In (c', y) (order_by ord (status_all s 0)) -> x_ok s c' y).
    { intros c' y Hin. apply order_by_in in Hin; auto. apply entry_xok. apply status_all0_in; auto. apply I. apply L. }
    assert (Hfail : forall c, failed_op s' c = true -> failed_op s c = true \/ (r = RFull /\ fresh_fail s (fst (recover_all s ord)) c)).
    { intros c H. rewrite (failed_op_frame _ _ _ (Fd c)) in H. rewrite Er.
      apply (recover_list_failed (order_by ord (status_all s 0)) s I L); auto. now apply order_by_nodup. }
    assert (Hkeep : forall c, In c (s6_failed x) -> exists o0, aget c (table s') = Some o0 /\ otyp o0 <> ORemote).
    { intros c H. eapply nonremote_frame; [apply Fd|]. apply recover_list_nonremote; auto; [apply (li_keyed _ _ L) | apply (f_g2 _ _ M c H)]. }
    rewrite fs_ret. destruct r eqn:Hr.
    + split; [|exact Hkeep]. intros c H. destruct (Hfail c H) as [H0|[H0 _]]; [now apply (f_g1 _ _ M)|discriminate].
    + split; intros c H.
      * apply in_or_app. destruct (Hfail c H) as [H0|[_ (Hn & (p & Hp & Hm & Hrm & Hh) & (o1 & Ho1 & T1 & P1))]]; [right; now apply (f_g1 _ _ M)|]. left.
        assert (Hl : aget c (status_all_obs s' 0) = Some 4).
        { destruct (dispatch_entry _ _ _ I1 Ho1) as (o2 & Ho2 & T2 & P2). rewrite <- Es in Ho2.
          apply (listing_of_pin_error s' c o2 fs_inv fs_linv Ho2); [congruence|]. destruct P2 as [P2|[P2 _]]; congruence. }
        apply filter_In. split.
        { unfold o, model_obs, o_all. apply aget_some_in in Hl. apply in_map_iff. exists (c, 4). auto. }
        unfold o at 1. unfold model_obs at 1, o_all at 1. rewrite Hl. cbn [optN_eqb N.eqb Pos.eqb andb]. rewrite andb_true_r.
        apply andb_true_iff. split.
        -- apply negb_true_iff, memN_false. pose proof Hord as Hord'. rewrite Ee in Hord'. cbn [ord_ok] in Hord'. apply (Hord' (eq_sym Er) c).
           ++ now rewrite <- (failed_op_frame _ _ _ (Fd c)).
           ++ unfold failed_op. now rewrite Hn.
        -- apply (was_unexp_ok s x c p I L (f_pinset _ _ M) (f_dm _ _ M) (f_all _ _ M)); auto.
      * apply in_app_or in H. destruct H as [H|H]; [|now apply Hkeep].
        apply filter_In in H. destruct H as [_ H]. rewrite !andb_true_iff in H. destruct H as [[_ H] _].
        unfold o in H. unfold model_obs, o_all in H.
        destruct (aget c (status_all_obs s' 0)) as [b|] eqn:Hl; [|discriminate]. cbn in H. apply N.eqb_eq in H. subst b.
        destruct (listing_pin_error s' c fs_inv fs_linv Hl) as (o0 & Ho & T & _). exists o0. split; auto. congruence.
  - (* Complete *)
    assert (Fr : forall c, c <> c0 -> opframe s s' c) by (intros c Hn; apply fs_other; rewrite Ee; exact Hn).
    assert (Es : s' = dispatch (complete s c0 f)) by (unfold s'; rewrite Ee, step_fst; reflexivity).
    pose proof (complete_inv s c0 f I) as I1.
    assert (Fd : opframe (complete s c0 f) s' c0) by (rewrite Es; apply dispatch_frame; exact I1).
    rewrite (f_inf _ _ M). destruct (inflight_of (infobs s) c0) as [[k d]|] eqn:Hin.
    2:{ apply g_frame; [tauto|]. intros c. destruct (N.eq_dec c c0) as [->|Hn]; [|auto].
        destruct (complete_effect s c0 f I) as (_ & _ & _ & [[E _]|(cl & o0 & Hcl & Hc & _)]); [now rewrite E in Fd|].
        exfalso. exact (inflight_none s c0 Hin cl Hcl Hc). }
    destruct (inflight_kd s c0 k d I Hin) as (cl1 & o1 & Hcl1 & Hc1 & Ho1 & Hty1 & Hk0 & Hk1).
    destruct (complete_effect s c0 f I) as (_ & _ & _ & [[_ Hno]|(cl & o0 & Hcl & Hc & Ho0 & _ & _ & Hty & _ & Hres)]); [exfalso; exact (Hno cl1 Hcl1 Hc1)|].
    rewrite Ho1 in Ho0. injection Ho0 as <-. assert (Hk : ckd cl = ckd cl1) by (apply kind_type_inj; congruence). rewrite Hk in Hres.
    (* the operation is remote exactly when the script says the pin is remote *)
    assert (Hrem : otyp o1 = ORemote -> remote_pin x c0 = true).
    { intros T. pose proof (li_lab _ _ L c0) as Lc. unfold lab, ty in Lc. rewrite Ho1 in Lc. cbn in Lc. rewrite T in Lc.
      unfold remote_pin. rewrite (f_pinset _ _ M). destruct (aget c0 (last s)) as [[p|]|] eqn:Hla.
      - destruct Lc as [Lp Lc]. rewrite Lp. destruct (pmeta p) eqn:Hm.
        + exfalso. apply (f_minv _ _ M c0 p Hla Hm). unfold ty. rewrite Ho1. cbn. now rewrite T.
        + destruct (premote p); [reflexivity|]. destruct Lc; congruence.
      - destruct Lc as [_ [Lc|[Lc _]]]; congruence.
      - destruct Lc; congruence. }
    assert (Hunp : remote_pin x c0 = true -> otyp o1 <> OUnpin).
    { intros R T. unfold remote_pin in R. rewrite (f_pinset _ _ M) in R. destruct (aget c0 (pinset s)) as [p|] eqn:Hp; [|discriminate].
      apply andb_true_iff in R. destruct R as [Rm Rr]. apply negb_true_iff in Rm.
      pose proof (li_lab _ _ L c0) as Lc. unfold lab, ty in Lc. rewrite Ho1 in Lc. cbn in Lc. rewrite T in Lc.
      destruct (aget c0 (last s)) as [[p'|]|].
      - destruct Lc as [Lp Lc]. rewrite Hp in Lp. injection Lp as <-. rewrite Rm, Rr in Lc. destruct Lc as [Lc|[Lc _]]; congruence.
      - destruct Lc as [Lp _]. congruence.
      - destruct Lc; congruence. }
    assert (Hfail_case : forall o', aget c0 (table (complete s c0 f)) = Some o' -> otyp o' = otyp o1 -> oph o' = PError -> otyp o1 <> ORemote ->
              (forall c, failed_op s' c = true -> In c (c0 :: remove_c c0 (s6_failed x))) /\
              (forall c, In c (c0 :: remove_c c0 (s6_failed x)) -> exists o2, aget c (table s') = Some o2 /\ otyp o2 <> ORemote)).
    { intros o' Ho' T' P' Hnr. apply (g_setf c0 true); auto.
      - rewrite (failed_op_frame _ _ _ Fd). apply (failed_op_err _ _ _ Ho' P'). congruence.
      - intros _. eapply nonremote_frame; [exact Fd|]. exists o'. split; auto. congruence. }
    assert (Hclean_case : aget c0 (table (complete s c0 f)) = None ->
              (forall c, failed_op s' c = true -> In c (remove_c c0 (s6_failed x))) /\
              (forall c, In c (remove_c c0 (s6_failed x)) -> exists o2, aget c (table s') = Some o2 /\ otyp o2 <> ORemote)).
    { intros Hn. apply (g_setf c0 false); auto; [|discriminate]. rewrite (failed_op_frame _ _ _ Fd). unfold failed_op. now rewrite Hn. }
    unfold call_outcome in Hres. destruct f; cbn [snd] in Hres.
    + (* fault *) destruct Hres as (o' & Ho' & T' & P').
      destruct (N.eqb k 1 && remote_pin x c0) eqn:Cnd.
      * apply andb_true_iff in Cnd. destruct Cnd as [Ck Cr]. apply N.eqb_eq in Ck.
        assert (T1 : otyp o1 = ORemote).
        { destruct (ckd cl1) eqn:Kd; cbn in Hty1; auto; [destruct (Hk0 eq_refl) as [K0 _]; subst k; discriminate | exfalso; now apply (Hunp Cr)]. }
        (* a remote operation in error: neither view changes, c0 was not and is not recorded as failed *)
        split; intros c H.
        -- destruct (N.eq_dec c c0) as [->|Hn]; [|apply (f_g1 _ _ M); now rewrite <- (failed_op_frame s s' c (Fr c Hn))].
           rewrite (failed_op_frame _ _ _ Fd) in H. unfold failed_op in H. rewrite Ho', T', T1 in H. discriminate.
        -- destruct (N.eq_dec c c0) as [->|Hn]; [|eapply nonremote_frame; [apply (Fr c Hn) | apply (f_g2 _ _ M c H)]].
           destruct (f_g2 _ _ M c0 H) as (o2 & Ho2 & T2). rewrite Ho1 in Ho2. injection Ho2 as <-. congruence.
      * apply (Hfail_case o' Ho' T' P'). intros T1. apply andb_false_iff in Cnd. destruct Cnd as [Ck|Cr]; [|rewrite (Hrem T1) in Cr; discriminate].
        rewrite T1 in Hty1. destruct (ckd cl1) eqn:Kd; cbn in Hty1; try discriminate. rewrite Hk1 in Ck by discriminate. discriminate.
    + (* the call returned without a transport fault *)
      destruct (ckd cl1) eqn:Kd.
      * destruct (Hk0 eq_refl) as [-> ->]. rewrite conn_pin_snd in Hres. rewrite (f_dm _ _ M). cbn [N.eqb andb].
        assert (Ed : optN_eqb (aget c0 (dmobs s)) (Some 1) = match aget c0 (ipfs s) with Some false => true | _ => false end).
        { unfold dmobs. rewrite aget_map_snd. destruct (aget c0 (ipfs s)) as [[|]|]; reflexivity. }
        rewrite Ed. destruct (pdirect (opin o1)); cbn [N.eqb Pos.eqb andb negb] in *.
        -- destruct (match aget c0 (ipfs s) with Some false => true | _ => false end); cbn [negb] in Hres.
           ++ destruct Hres as (o' & Ho' & T' & P'). apply (Hfail_case o' Ho' T' P'). cbn in Hty1. congruence.
           ++ now apply Hclean_case.
        -- now apply Hclean_case.
      * rewrite (Hk1 ltac:(discriminate)). cbn [N.eqb Pos.eqb andb]. now apply Hclean_case.
      * rewrite (Hk1 ltac:(discriminate)). cbn [N.eqb Pos.eqb andb]. now apply Hclean_case.
  - (* Daemon *) apply g_frame; [tauto|]. intros c. apply fs_other. rewrite Ee. exact Logic.I. Qed.
End FStep.

Section FStep2.
Variables (n : N) (fs : list N) (s : st) (x : sp6) (e : event).
Hypothesis M : FI s x.
Hypothesis Hst : ev_stable s e.
Hypothesis Hord : ord_ok s e.

Theorem FI_step : FI (fst (step s e)) (sp6_event x e (model_obs n (fst (step s e)) (snd (step s e)) fs)).
Proof. pose proof (f_inv _ _ M) as I. pose proof (f_linv _ _ M) as L.
  destruct (fs_failed n fs s x e M Hst Hord) as [G1 G2]. constructor.
  - apply step_inv, I.
  - apply step_linv; [apply I | apply L | discriminate].
  - apply (step_minv false); auto. apply M.
  - rewrite step_npin. apply M.
  - apply step_dispatched.
  - destruct (step_fields s e I) as [A _]. rewrite A, <- (f_pinset _ _ M). case_eq e; intros; reflexivity.
  - case_eq e; intros; reflexivity.
  - case_eq e; intros; reflexivity.
  - intros l H. match type of H with s6_all (sp6_event x e ?o) = _ => assert (E : s6_all (sp6_event x e o) = Some (o_all o)) by (case_eq e; reflexivity) end.
    rewrite E in H. injection H as <-. reflexivity.
  - exact G1.
  - exact G2. Qed.
End FStep2.

(* ---------- codes 20 / 21 on the model's observation at a quiescent state ---------- *)
Lemma truthful_ok n s x r fs : FI s x -> quiescent s = true ->
  truthful_status_okb n x (model_obs n s r fs) = true /\ truthful_listing_okb n x (model_obs n s r fs) = true.
Proof. intros M Q. pose proof (f_inv _ _ M) as I. pose proof (f_linv _ _ M) as L.
  assert (H : forall c, In c (nrange n) -> in_cls (class_bits (o_st (model_obs n s r fs) c)) (expected x (model_obs n s r fs) c) = true).
  { intros c Hc. rewrite (o_st_model n s r fs c Hc). change (class_bits (st_bits (status_of s c))) with (class_of (status_of s c)).
    rewrite (truthful_l s c I L (f_minv _ _ M) Q). unfold expected_class, expected.
    destruct (failed_op s c) eqn:F.
    - apply (f_g1 _ _ M) in F. apply memN_in in F. rewrite F. reflexivity.
    - destruct (memN c (s6_failed x)) eqn:Mf.
      + exfalso. apply memN_in in Mf. destruct (f_g2 _ _ M c Mf) as (o0 & Ho & T).
        rewrite (failed_op_err s c o0 Ho (quiescent_errors s I Q c o0 Ho) T) in F. discriminate.
      + rewrite (f_pinset _ _ M). destruct (aget c (pinset s)) as [p|]; [|reflexivity]. destruct (pmeta p); [reflexivity|].
        destruct (premote p); [reflexivity|]. unfold o_dm, model_obs, o_daemon. fold (dmobs s). rewrite dm_mode.
        destruct (ipfs_has s c (pdirect p)); reflexivity. }
  split; unfold truthful_status_okb, truthful_listing_okb; apply forallb_forall; intros c Hc; [now apply H|].
  pose proof (model_views_agree n s r fs (inv_nodup _ I) (li_pnodup _ _ L)) as V. unfold views_agree_okb in V. rewrite forallb_forall in V.
  specialize (V c Hc). apply cls_eqb_eq in V. rewrite <- V. now apply H. Qed.

Lemma mtrace_truthful n fs evs : forall s x, FI s x -> stable_run s evs -> ord_run s evs ->
  ~ In 20 (spec_walk6 n x (mtrace n fs s evs)) /\ ~ In 21 (spec_walk6 n x (mtrace n fs s evs)).
Proof. induction evs as [|e r IH]; intros s x M St Or; [split; intros []|]. destruct St as [St1 St2]. destruct Or as [Or1 Or2].
  cbn [mtrace]. rewrite spec_walk6_cons.
  set (s' := fst (step s e)) in *. set (o := model_obs n s' (snd (step s e)) fs).
  pose proof (FI_step n fs s x e M St1 Or1) as M'. fold s' o in M'.
  destruct (IH s' (sp6_event x e o) M' St2 Or2) as [A B].
  assert (Hq : o_quiescent o = quiescent s') by (apply quiescence_agrees; apply M').
  assert (Hc : forall k, (k = 20 \/ k = 21) -> ~ In k (codes6_at n x e o)).
  { intros k Hk K. unfold codes6_at in K. cbv zeta in K. rewrite Hq in K. destruct (quiescent s') eqn:Q.
    - destruct (truthful_ok n s' (sp6_event x e o) (snd (step s e)) fs M' Q) as [T1 T2]. fold o in T1, T2. rewrite T1, T2 in K. cbn [andb negb app] in K.
      repeat (apply in_app_or in K; destruct K as [K|K]);
        repeat match type of K with In _ (if ?b then _ else _) => destruct b end; try destruct K as [K|K]; try contradiction; destruct Hk; subst; discriminate.
    - cbn [andb app] in K. repeat (apply in_app_or in K; destruct K as [K|K]);
        repeat match type of K with In _ (if ?b then _ else _) => destruct b end; try destruct K as [K|K]; try contradiction; destruct Hk; subst; discriminate. }
  split; intros K; apply in_app_or in K; destruct K as [K|K]; auto; [apply (Hc 20) in K | apply (Hc 21) in K]; auto. Qed.

Lemma FI_init q np n pins i : (0 < np)%nat -> NoDup (map pcid pins) ->
  FI (init q np (map (fun p => (pcid p, p)) pins) i) (sp6_init (q, np, n, pins, dm_of i)).
Proof. intros Hnp Hnd. constructor; cbn [sp6_init s6_pinset s6_failed s6_dm s6_inf s6_all].
  - apply init_inv. - apply init_linv. now apply wf_pins. - apply init_minv. - exact Hnp. - apply init_dispatched.
  - reflexivity. - reflexivity. - reflexivity. - discriminate.
  - intros c H. discriminate.
  - intros c []. Qed.

Theorem truthful_model_passes_l q np n pins i fs evs : (0 < np)%nat -> NoDup (map pcid pins) ->
  let cf := (q, np, n, pins, dm_of i) in
  stable_run (init_of cf) evs -> ord_run (init_of cf) evs ->
  ~ In 20 (spec_codes6 cf (mtrace n fs (init_of cf) evs)) /\ ~ In 21 (spec_codes6 cf (mtrace n fs (init_of cf) evs)).
Proof. intros Hnp Hnd cf St Or. unfold spec_codes6. rewrite !nodup_In. unfold cf in *. cbn [ncid_of]. rewrite init_of_dm in *.
  apply mtrace_truthful; auto. now apply FI_init. Qed.
