(* C08 — lemmas about status / type names: Model/C08_Status.v over the regenerated table Gen/C08Status.v *)
From V Require Import Base.Common Base.C08_Str Gen.C08Status Model.C08_Status Proofs.C08_Str.
From Coq Require Import Permutation.
Open Scope string_scope.
Open Scope list_scope.
Open Scope N_scope.

Lemma table_ok : st_table_ok = true.
Proof. vm_compute. reflexivity. Qed.

(* OR-ing names does not depend on their order *)
Definition step (acc : N) (v : string) : N := match st_value v with Some k => N.lor acc k | None => acc end.

Lemma fold_step_perm l l' : Permutation l l' -> forall acc, fold_left step l acc = fold_left step l' acc.
Proof.
  induction 1 as [|x l l' _ IH|x y l|l l' l'' _ IH1 _ IH2]; intros acc; cbn.
  - reflexivity.
  - apply IH.
  - f_equal. unfold step. destruct (st_value x), (st_value y); try reflexivity.
    rewrite <- !N.lor_assoc. f_equal. apply N.lor_comm.
  - now rewrite IH1.
Qed.

Lemma mask_of_names_perm l l' : Permutation l l' -> mask_of_names l = mask_of_names l'.
Proof. intros H. apply (fold_step_perm l l' H 0). Qed.

Lemma loop_names_perm ord st : Permutation ord st_table -> Permutation (st_loop_names ord st) (st_loop_names st_table st).
Proof.
  intros H. unfold st_loop_names. apply Permutation_map.
  induction H as [|x l l' _ IH|x y l|l l' l'' _ IH1 _ IH2]; cbn.
  - constructor.
  - destruct (negb (fst x =? 0) && (N.land st (fst x) =? fst x)); [now constructor | exact IH].
  - destruct (negb (fst x =? 0) && (N.land st (fst x) =? fst x)); destruct (negb (fst y =? 0) && (N.land st (fst y) =? fst y));
      try apply Permutation_refl. constructor.
  - eapply Permutation_trans; eassumption.
Qed.

(* every name is free of commas and spaces, so the string form splits back into the names *)
Lemma names_plain ord st v : Permutation ord st_table -> In v (st_loop_names ord st) ->
  has_char comma v = false /\ has_char " "%char v = false /\ v <> "".
Proof.
  intros Hp I. unfold st_loop_names in I. apply in_map_iff in I as [e [<- I]]. apply filter_In in I as [I _].
  apply (Permutation_in _ Hp) in I.
  pose proof table_ok as T. unfold st_table_ok in T.
  apply andb_true_iff in T as [T _]. apply andb_true_iff in T as [T _]. apply andb_true_iff in T as [T _].
  rewrite forallb_forall in T. specialize (T e I).
  apply andb_true_iff in T as [T _]. apply andb_true_iff in T as [T C]. apply andb_true_iff in T as [A B].
  apply negb_true_iff in A, B. apply negb_true_iff, String.eqb_neq in C. auto.
Qed.

Lemma drop_char_plain c s : has_char c s = false -> drop_char c s = s.
Proof.
  induction s as [|d r IH]; cbn; [reflexivity|]. intros H. apply orb_false_iff in H as [A B]. rewrite A. now rewrite (IH B).
Qed.

Lemma has_char_append c a b : has_char c (a ++ b)%string = has_char c a || has_char c b.
Proof. induction a as [|d r IH]; cbn; [reflexivity|]. rewrite IH. now rewrite orb_assoc. Qed.

Lemma has_char_join c l : c <> comma -> (forall s, In s l -> has_char c s = false) -> has_char c (join_with "," l) = false.
Proof.
  intros Hc. induction l as [|a r IH]; intros H; [reflexivity|]. destruct r as [|b r'].
  - cbn. apply H. now left.
  - change (join_with "," (a :: b :: r')) with (a ++ String comma (join_with "," (b :: r')))%string.
    rewrite has_char_append. cbn [has_char]. rewrite (H a (or_introl eq_refl)). cbn [orb].
    assert (E : Ascii.eqb c comma = false) by now apply Ascii.eqb_neq. rewrite E. cbn [orb].
    apply IH. intros s I. apply H. now right.
Qed.

Lemma from_string_join l :
  (forall v, In v l -> has_char comma v = false /\ has_char " "%char v = false /\ v <> "") ->
  status_from_string (join_with "," l) = mask_of_names l.
Proof.
  intros H. unfold status_from_string. rewrite drop_char_plain.
  - destruct l as [|a r]; [reflexivity|]. rewrite split_join; [reflexivity | discriminate |].
    apply forallb_forall. intros s I. destruct (H s I) as [A _]. now rewrite A.
  - apply has_char_join; [discriminate|]. intros s I. now destruct (H s I) as (_ & B & _).
Qed.

(* the finite facts, by computation over the regenerated table: every mask of defined bits *)
Definition all_masks : list N := map N.of_nat (seq 0 (N.to_nat 8192)).

Lemma loop_mask_all : forallb (fun m => negb (st_valid_mask m) || (mask_of_names (st_loop_names st_table m) =? m)) all_masks = true.
Proof. vm_compute. reflexivity. Qed.

Lemma exact_all : forallb (fun e => status_from_string (snd e) =? fst e) st_table = true.
Proof. vm_compute. reflexivity. Qed.

Lemma in_all_masks m : m < 8192 -> In m all_masks.
Proof.
  intros H. unfold all_masks. apply in_map_iff. exists (N.to_nat m). split; [apply N2Nat.id|]. apply in_seq. lia.
Qed.

Lemma loop_mask_valid m : st_valid_mask m = true -> mask_of_names (st_loop_names st_table m) = m.
Proof.
  intros V. pose proof loop_mask_all as H. rewrite forallb_forall in H.
  assert (I : In m all_masks).
  { apply in_all_masks. unfold st_valid_mask in V. apply andb_true_iff in V as [_ V]. now apply N.ltb_lt. }
  specialize (H m I). rewrite V in H. cbn in H. now apply N.eqb_eq.
Qed.

Lemma exact_hit st v : st_exact st = Some v -> status_from_string v = st.
Proof.
  unfold st_exact. destruct (find (fun e => fst e =? st) st_table) as [e|] eqn:F; [|discriminate].
  intros E. inversion E; subst v. apply find_some in F as [I K]. apply N.eqb_eq in K. subst st.
  pose proof exact_all as H. rewrite forallb_forall in H. specialize (H e I). now apply N.eqb_eq.
Qed.

Lemma status_roundtrip_valid ord m : Permutation ord st_table -> st_valid_mask m = true ->
  status_from_string (status_string ord m) = m.
Proof.
  intros Hp V. unfold status_string. destruct (st_exact m) as [v|] eqn:E; [now apply exact_hit|].
  rewrite from_string_join by (intros v I; exact (names_plain ord m v Hp I)).
  rewrite (mask_of_names_perm _ _ (loop_names_perm ord m Hp)). now apply loop_mask_valid.
Qed.

(* ---------- every status value, not only masks of defined bits: the undefined bits are dropped ---------- *)
Lemma loop_names_land ord m : Permutation ord st_table -> st_loop_names ord m = st_loop_names ord (N.land m st_defined_bits).
Proof.
  intros Hp. unfold st_loop_names. f_equal. apply filter_ext_in. intros e I. f_equal.
  apply (Permutation_in _ Hp) in I.
  pose proof table_ok as T. unfold st_table_ok in T.
  apply andb_true_iff in T as [T _]. apply andb_true_iff in T as [T _]. apply andb_true_iff in T as [T _].
  rewrite forallb_forall in T. specialize (T e I). apply andb_true_iff in T as [_ K]. apply N.eqb_eq in K.
  rewrite <- N.land_assoc. rewrite (N.land_comm st_defined_bits). now rewrite K.
Qed.

Lemma land_defined_valid m : st_valid_mask (N.land m st_defined_bits) = true.
Proof.
  unfold st_valid_mask. apply andb_true_iff. split.
  - apply N.eqb_eq. rewrite <- N.land_assoc. change (N.land st_defined_bits 1) with 0. apply N.land_0_r.
  - apply N.ltb_lt. destruct (N.eq_dec (N.land m st_defined_bits) 0) as [E|NE]; [rewrite E; reflexivity|].
    change 8192 with (2 ^ 13). apply N.log2_lt_pow2; [lia|].
    pose proof (N.log2_land m st_defined_bits) as L. change (N.log2 st_defined_bits) with 12 in L. lia.
Qed.

Lemma exact_none_high m : st_valid_mask m = false -> st_exact m = None.
Proof.
  intros V. unfold st_exact. destruct (find (fun e => fst e =? m) st_table) as [e|] eqn:F; [|reflexivity].
  apply find_some in F as [I K]. apply N.eqb_eq in K. subst m.
  assert (A : forallb (fun e => st_valid_mask (fst e)) st_table = true) by (vm_compute; reflexivity).
  rewrite forallb_forall in A. rewrite (A e I) in V. discriminate.
Qed.

Lemma status_roundtrip_all ord m : Permutation ord st_table ->
  status_from_string (status_string ord m) = N.land m st_defined_bits.
Proof.
  intros Hp. destruct (st_valid_mask m) eqn:V.
  - rewrite (status_roundtrip_valid ord m Hp V). symmetry.
    unfold st_valid_mask in V. apply andb_true_iff in V as [B0 L]. apply N.eqb_eq in B0. apply N.ltb_lt in L.
    apply N.bits_inj. intros n. rewrite N.land_spec.
    destruct (N.testbit m n) eqn:Bm; [|reflexivity]. cbn [andb].
    destruct (N.eq_dec n 0) as [->|N0].
    + exfalso. assert (Z : N.testbit (N.land m 1) 0 = true) by (rewrite N.land_spec, Bm; reflexivity).
      rewrite B0 in Z. discriminate.
    + destruct (N.lt_ge_cases n 13) as [Hl|Hg].
      * assert (C : forallb (fun k => N.testbit st_defined_bits k) (map N.of_nat (seq 1 12)) = true) by (vm_compute; reflexivity).
        rewrite forallb_forall in C. apply C. apply in_map_iff. exists (N.to_nat n). split; [apply N2Nat.id | apply in_seq; lia].
      * exfalso. destruct (N.eq_dec m 0) as [->|Nm]; [rewrite N.bits_0 in Bm; discriminate|].
        assert (N.log2 m < 13) by (apply N.log2_lt_pow2; [lia | exact L]).
        rewrite N.bits_above_log2 in Bm by lia. discriminate.
  - unfold status_string. rewrite (exact_none_high m V).
    rewrite from_string_join by (intros v I; exact (names_plain ord m v Hp I)).
    rewrite (loop_names_land ord m Hp).
    rewrite (mask_of_names_perm _ _ (loop_names_perm ord _ Hp)). apply loop_mask_valid, land_defined_valid.
Qed.

(* ---------- pin type names ---------- *)
Lemma pintype_roundtrip t : In t [1; 2; 4; 8; 16; 30] -> pintype_from_string (pintype_string t) = t.
Proof. cbn. intros [<-|[<-|[<-|[<-|[<-|[<-|[]]]]]]]; reflexivity. Qed.
