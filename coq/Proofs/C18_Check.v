(* C18 — what the boolean structural check on an observed slice guarantees about the slice itself. *)
From V Require Import Model.C18_Check.
From Coq Require Import Lia.
Local Open Scope N_scope.

Lemma expand_run_bounds n : forall first x, N.of_nat n <= first -> In x (expand_run first n) ->
  first < x + N.of_nat n /\ x <= first.
Proof.
  induction n as [|n IH]; intros first x Hle Hin; [inversion Hin|].
  simpl in Hin. destruct Hin as [<-|Hin]; [lia|].
  assert (H : N.of_nat n <= first - 1) by lia.
  destruct (IH (first - 1) x H Hin). lia.
Qed.

Lemma expand_run_nodup n : forall first, N.of_nat n <= first -> NoDup (expand_run first n).
Proof.
  induction n as [|n IH]; intros first Hle; [constructor|].
  simpl. constructor.
  - intros Hin. assert (H : N.of_nat n <= first - 1) by lia.
    destruct (expand_run_bounds n (first - 1) first H Hin). lia.
  - apply IH. lia.
Qed.

(* a view that passes is a list of distinct, non-empty entries: ids first, first-1, ..., all >= 1 *)
Lemma view_okb_sound_l rs : view_okb rs = true ->
  NoDup (expand rs) /\ ~ In 0 (expand rs) /\ (forall x y, In x (expand rs) -> In y (expand rs) -> x <= y + view_len rs).
Proof.
  destruct rs as [|[first len] [|r rs]]; simpl; try discriminate.
  - intros _. split; [constructor|]. split; [intros []|intros x y []].
  - intros H. apply andb_true_iff in H. destruct H as [H1 H2]. apply N.ltb_lt in H1. apply N.leb_le in H2.
    rewrite app_nil_r. assert (Hle : N.of_nat (N.to_nat len) <= first) by (rewrite N2Nat.id; exact H2).
    repeat split.
    + now apply expand_run_nodup.
    + intros H0. destruct (expand_run_bounds _ _ _ Hle H0). rewrite N2Nat.id in *. lia.
    + intros x y Hx Hy. destruct (expand_run_bounds _ _ _ Hle Hx), (expand_run_bounds _ _ _ Hle Hy).
      rewrite N2Nat.id in *. lia.
Qed.
