(* C13 — the boolean monitors of Model/C13_ShapeCheck.v (codes 30..33) applied to the DAG the real importer built:
   what an accepted observation satisfies (soundness), and that the model's own DAG is accepted (completeness, = the
   theorems of Proofs/C13_Importer.v in boolean form). *)
From V Require Import Base.Common Model.C13_Importer Model.C13_ShapeCheck Proofs.C13_Importer Proofs.C13_Trickle.
From Coq Require Import FSets.FMapPositive.
Open Scope N_scope.

Lemma pkey_inj a b : pkey a = pkey b -> a = b.
Proof. unfold pkey. intros H. apply (f_equal Pos.pred_N) in H. rewrite !N.pos_pred_succ in H. exact H. Qed.

Lemma bytes_eqb_eq a b : bytes_eqb a b = true <-> a = b.
Proof. unfold bytes_eqb. revert b. induction a as [|x xs IH]; intros [|y ys]; cbn [list_eqb]; try (split; congruence).
  rewrite andb_true_iff, N.eqb_eq, IH. split; [intros [-> ->]; reflexivity|intros H; injection H; auto]. Qed.

(* ---- 30 closed ---- *)
Definition ob_links (b : oblock) : list (N * N) := match b with OB _ ls _ _ => ls end.
Definition links_before (bs : list oblock) : Prop :=
  forall pre b post, bs = pre ++ b :: post -> forall l, In l (ob_links b) -> exists b', In b' pre /\ ob_id b' = fst l.

Lemma closed_from_sound bs : forall seen (ids : list N),
  (forall x, PositiveMap.find (pkey x) seen <> None -> In x ids) ->
  closed_from seen bs = true ->
  forall pre b post, bs = pre ++ b :: post -> forall l, In l (ob_links b) -> In (fst l) ids \/ exists b', In b' pre /\ ob_id b' = fst l.
Proof.
  induction bs as [|[id ls dl da] r IH]; intros seen ids Hseen Hc pre b post E l Hl.
  - destruct pre; discriminate.
  - cbn [closed_from] in Hc. apply andb_true_iff in Hc as [H1 H2].
    destruct pre as [|p pre'].
    + cbn in E. injection E as <- _. cbn [ob_links] in Hl. rewrite forallb_forall in H1. specialize (H1 l Hl).
      left. apply Hseen. destruct (PositiveMap.find (pkey (fst l)) seen); congruence.
    + cbn in E. injection E as <- E.
      destruct (IH (PositiveMap.add (pkey id) tt seen) (id :: ids)) with (pre := pre') (b := b) (post := post) (l := l) as [[H|H]|(b' & Hb' & Hid)]; auto.
      * intros x Hx. destruct (N.eq_dec x id) as [->|Hne]; [left; reflexivity|]. right. apply Hseen.
        rewrite PositiveMap.gso in Hx; [exact Hx|]. intros K. apply pkey_inj in K. congruence.
      * right. exists (OB id ls dl da). split; [left; reflexivity|]. cbn. auto.
      * right. exists b'. split; [right; exact Hb'|exact Hid].
Qed.

Lemma closed_okb_sound bs root : closed_okb bs root = true ->
  links_before bs /\ exists pre b, bs = pre ++ [b] /\ ob_id b = root.
Proof.
  unfold closed_okb. rewrite andb_true_iff. intros [H1 H2]. split.
  - intros pre b post E l Hl.
    destruct (closed_from_sound bs (PositiveMap.empty unit) [] ) with (pre := pre) (b := b) (post := post) (l := l) as [[]|H]; auto.
    intros x Hx. rewrite PositiveMap.gempty in Hx. congruence.
  - rewrite rev'_rev in H2. destruct (rev bs) as [|b r] eqn:E; [discriminate|].
    exists (rev r), b. apply N.eqb_eq in H2. split; [|exact H2].
    rewrite <- (rev_involutive bs), E. reflexivity.
Qed.

(* ---- 32 / 33 on a tree ---- *)
Lemma fanout_okb_iff lo hi t : fanout_okb lo hi t = true <->
  all_nodes (fun n => match n with Leaf _ => True | Node ch => lo <= N.of_nat (length ch) <= hi end) t.
Proof. unfold fanout_okb, all_nodes. rewrite forallb_forall. split; intros H n Hn; specialize (H n Hn).
  - destruct n as [d|ch]; [exact I|]. cbn [node_fanout_okb] in H. apply andb_true_iff in H as [H1 H2]. apply N.leb_le in H1, H2. lia.
  - destruct n as [d|ch]; [reflexivity|]. cbn [node_fanout_okb]. apply andb_true_iff. split; apply N.leb_le; lia. Qed.

Lemma sizes_okb_iff t : sizes_okb t = true <-> all_nodes sized t.
Proof. unfold sizes_okb, all_nodes. rewrite forallb_forall. split; intros H n Hn; specialize (H n Hn).
  - destruct n as [d|ch]; [exact I|]. cbn [node_sizes_okb sized] in *. rewrite forallb_forall in H. apply Forall_forall.
    intros l Hl. apply N.eqb_eq, H, Hl.
  - destruct n as [d|ch]; [reflexivity|]. cbn [node_sizes_okb sized] in *. rewrite Forall_forall in H. apply forallb_forall.
    intros l Hl. apply N.eqb_eq, H, Hl. Qed.

Lemma uniformb_iff d : forall t, uniformb d t = true <-> uniform d t.
Proof. induction d as [|d IH]; intros [c|ch]; cbn [uniformb uniform]; try (split; [discriminate|tauto]); try tauto.
  rewrite forallb_forall. split; intros H l Hl; apply IH, H, Hl. Qed.

(* a balanced tree whose internal nodes are not empty has its leaves at depth = height *)
Lemma max_heights d (ch : list (tree * N)) : ch <> [] -> (forall x, In x ch -> height (fst x) = d) ->
  fold_right (fun l a => Nat.max (height (fst l)) a) O ch = d.
Proof. induction ch as [|x r IH]; [congruence|]. intros _ H. cbn [fold_right]. rewrite (H x (or_introl eq_refl)).
  destruct r as [|y r']; [cbn; lia|]. rewrite IH; [lia|congruence|]. intros z Hz. apply H. right. exact Hz. Qed.

Lemma uniform_height ml d : forall t, uniform d t -> all_nodes (node_ok ml) t -> height t = d.
Proof. induction d as [|d IH]; intros [c|ch]; cbn [uniform]; try tauto; intros Hu Ha.
  apply all_nodes_node in Ha as [[[Hlo _] _] Hch]. cbn [height]. f_equal.
  apply max_heights; [destruct ch; [cbn in Hlo; lia|congruence]|]. intros x Hx. apply IH; auto. Qed.

(* ---- completeness: the model's own DAG passes the monitors ---- *)
Lemma balanced_passes ml chunks : 2 <= ml ->
  let t := layout_tree (balanced_layout ml chunks) in
  fanout_okb 1 ml t = true /\ uniformb (height t) t = true /\ sizes_okb t = true.
Proof.
  intros Hml. destruct (balanced_layout_spec ml chunks Hml) as (t & d & E & _ & _ & [Ha Hu]). rewrite E. cbn [layout_tree].
  split; [|split].
  - apply fanout_okb_iff. intros n Hn. specialize (Ha n Hn). destruct n; [exact I|]. apply Ha.
  - apply uniformb_iff. rewrite (uniform_height ml d t Hu Ha). exact Hu.
  - apply sizes_okb_iff. intros n Hn. specialize (Ha n Hn). destruct n; [exact I|]. apply Ha.
Qed.

Lemma tri_Q_sized t : tri_Q t -> all_nodes sized t.
Proof. intros H n Hn. specialize (H n Hn). destruct n; [exact I|]. apply H. Qed.

Lemma trickle_passes ml chunks : 1 <= ml ->
  let t := layout_tree (trickle_layout ml chunks) in
  sizes_okb t = true /\ (chunks <> [] -> forallb (fun n => match n with Node [] => false | _ => true end) (postorder t) = true).
Proof.
  intros Hml. destruct (trickle_layout_spec ml chunks Hml) as (ch & E & _ & _ & Hl & Hne). rewrite E. cbn [layout_tree].
  assert (Hch : forall l, In l ch -> tri_Q (fst l)) by (intros l Hin; rewrite Forall_forall in Hl; apply (Hl l Hin)).
  split.
  - apply sizes_okb_iff. apply all_nodes_node. split; [cbn [sized]; eapply links_sizes; eauto|].
    intros l Hin. apply tri_Q_sized, Hch, Hin.
  - intros Hc. specialize (Hne Hc). apply forallb_forall. intros n Hn.
    cbn [postorder] in Hn. apply in_app_or in Hn as [Hn|[<-|[]]].
    + apply in_posts in Hn as (l & Hin & Hn). specialize (Hch l Hin n Hn). destruct n as [|[|]]; auto. destruct Hch. congruence.
    + destruct ch; [congruence|reflexivity].
Qed.

(* ---- 32 for trickle: the boolean monitor decides tshape ---- *)
Lemma take_drop_while {A} (p : A -> bool) l : take_while p l ++ drop_while p l = l.
Proof. induction l as [|x r IH]; [reflexivity|]. cbn. destruct (p x); cbn; [rewrite IH|]; reflexivity. Qed.
Lemma take_while_all {A} (p : A -> bool) l : Forall (fun x => p x = true) (take_while p l).
Proof. induction l as [|x r IH]; cbn; [constructor|]. destruct (p x) eqn:E; constructor; auto. Qed.
Lemma drop_while_head {A} (p : A -> bool) l x r : drop_while p l = x :: r -> p x = false.
Proof. induction l as [|y l' IH]; cbn; [discriminate|]. destruct (p y) eqn:E; [exact IH|]. intros H. injection H as <- _. exact E. Qed.
Lemma take_drop_unique {A} (p : A -> bool) lv sub : Forall (fun x => p x = true) lv ->
  (forall x r, sub = x :: r -> p x = false) -> take_while p (lv ++ sub) = lv /\ drop_while p (lv ++ sub) = sub.
Proof. intros Hl Hs. induction Hl as [|x r Hx _ IH]; cbn [app].
  - destruct sub as [|y r]; [split; reflexivity|]. cbn. rewrite (Hs y r eq_refl). split; reflexivity.
  - cbn. rewrite Hx. destruct IH as [-> ->]. split; reflexivity. Qed.

Lemma indexed_forallb {A} (g : nat * A -> bool) l : forall k,
  forallb g (indexed k l) = true <-> forall i c, nth_error l i = Some c -> g ((k + i)%nat, c) = true.
Proof. induction l as [|x r IH]; intros k; cbn [indexed forallb].
  - split; [intros _ [|i] c H; discriminate|reflexivity].
  - rewrite andb_true_iff, IH. split.
    + intros [H1 H2] [|i] c H; cbn in H; [injection H as <-; rewrite Nat.add_0_r; exact H1|].
      replace (k + S i)%nat with (S k + i)%nat by lia. apply H2. exact H.
    + intros H. split; [specialize (H O x eq_refl); rewrite Nat.add_0_r in H; exact H|].
      intros i c Hn. replace (S k + i)%nat with (k + S i)%nat by lia. apply H. exact Hn. Qed.

Lemma is_leafb_iff t : is_leafb t = true <-> is_leaf t.
Proof. destruct t; cbn; split; auto; discriminate. Qed.
Lemma tshape_node fuel ml md t : tshape fuel ml md t -> is_leafb t = false.
Proof. destruct fuel; [intros []|]. destruct t; [intros []|reflexivity]. Qed.

Lemma trickle_okb_iff ml : forall fuel md t, trickle_okb fuel ml md t = true <-> tshape fuel ml md t.
Proof.
  induction fuel as [|f IH]; intros md t; cbn [trickle_okb tshape]; [split; [discriminate|tauto]|].
  destruct t as [d|ch]; [split; [discriminate|tauto]|].
  set (kids := map fst ch). rewrite !andb_true_iff, (indexed_forallb _ _ O). split.
  - intros [[H1 H2] H3]. exists (take_while is_leafb kids), (drop_while is_leafb kids).
    split; [symmetry; apply take_drop_while|].
    split; [eapply Forall_impl; [|apply take_while_all]; intros x; apply is_leafb_iff|].
    split; [apply N.leb_le; exact H1|]. split.
    + intros Hs. destruct (drop_while is_leafb kids); [congruence|]. apply N.eqb_eq. exact H2.
    + intros i c Hn. specialize (H3 i c Hn). cbn [Nat.add fst snd] in H3. apply andb_true_iff in H3 as [Ha Hb].
      split; [destruct md as [m|]; [apply Nat.ltb_lt; exact Ha|exact I]|apply IH; exact Hb].
  - intros (lv & sub & E & Hlv & Hle & Hfull & Hsub).
    destruct (take_drop_unique is_leafb lv sub) as [Et Ed].
    { eapply Forall_impl; [|exact Hlv]. intros x. apply is_leafb_iff. }
    { intros x r ->. destruct (Hsub O x eq_refl) as [_ H]. eapply tshape_node; eauto. }
    rewrite E, Et, Ed. split; [split|].
    + apply N.leb_le. exact Hle.
    + destruct sub; [reflexivity|]. apply N.eqb_eq, Hfull. congruence.
    + intros i c Hn. destruct (Hsub i c Hn) as [Ha Hb]. cbn [Nat.add fst snd]. apply andb_true_iff.
      split; [destruct md as [m|]; [apply Nat.ltb_lt; exact Ha|reflexivity]|apply IH; exact Hb].
Qed.

Lemma trickle_passes_shape ml chunks : 1 <= ml ->
  trickle_okb (S (length chunks)) ml None (layout_tree (trickle_layout ml chunks)) = true.
Proof. intros Hml. apply trickle_okb_iff, trickle_layout_shape. exact Hml. Qed.
