(* C02 layer B — lemmas about the go-ds-crdt set model (Model/C02_Set.v): membership convergence for every
   delivery order, value convergence under the guard that excludes the two known findings, hook coverage. *)
From V Require Import Base.Common Base.CommonLemmas Model.C02_Set.
From Coq Require Import Permutation.
Open Scope N_scope.

(* ------------------------------------------------------------------ basics *)
Lemma kid_eqb_eq a b : kid_eqb a b = true <-> a = b.
Proof. destruct a, b; unfold kid_eqb; simpl. rewrite andb_true_iff, !N.eqb_eq. split; [intros []; congruence|intros H; inversion H; auto]. Qed.
Lemma kmem_in x l : kmem x l = true <-> In x l.
Proof. unfold kmem. rewrite existsb_exists. split; [intros [y [H E]]; apply kid_eqb_eq in E; now subst|].
  intros H. exists x. split; auto. now apply kid_eqb_eq. Qed.
Lemma kmem_false x l : kmem x l = false <-> ~ In x l.
Proof. rewrite <- kmem_in. destruct (kmem x l); split; congruence. Qed.

Lemma kid_eq_dec (a b : kid) : {a = b} + {a <> b}.
Proof. decide equality; apply N.eq_dec. Qed.

Definition all_elems (ds : list delta) : list kid := flat_map (fun d => map (fun kv => (fst kv, d_id d)) (d_adds d)) ds.
Definition all_tombs (ds : list delta) : list kid := flat_map d_rms ds.

Lemma elems_merge r d : elems (merge r d) = elems r ++ map (fun kv => (fst kv, d_id d)) (d_adds d).
Proof. reflexivity. Qed.
Lemma tombs_merge r d : tombs (merge r d) = tombs r ++ d_rms d.
Proof. reflexivity. Qed.

Lemma elems_run ds : forall r x, In x (elems (run ds r)) <-> In x (elems r) \/ In x (all_elems ds).
Proof. induction ds as [|d ds IH]; intros r x; simpl; [tauto|]. unfold run in *. simpl. rewrite IH, elems_merge, !in_app_iff. tauto. Qed.
Lemma tombs_run ds : forall r x, In x (tombs (run ds r)) <-> In x (tombs r) \/ In x (all_tombs ds).
Proof. induction ds as [|d ds IH]; intros r x; simpl; [tauto|]. unfold run in *. simpl. rewrite IH, tombs_merge, !in_app_iff. tauto. Qed.

Lemma live_spec r k : live r k = true <-> exists id, In (k, id) (elems r) /\ ~ In (k, id) (tombs r).
Proof.
  unfold live. rewrite existsb_exists. split.
  - intros [[k' id] [H E]]. simpl in E. apply andb_true_iff in E. destruct E as [E1 E2].
    apply N.eqb_eq in E1; subst. exists id. split; auto. rewrite negb_true_iff in E2. now apply kmem_false.
  - intros [id [H1 H2]]. exists (k, id). split; auto. simpl. rewrite N.eqb_refl. simpl.
    rewrite negb_true_iff. now apply kmem_false.
Qed.

Lemma perm_flat_in {A B} (f : A -> list B) l l' x : Permutation l l' -> In x (flat_map f l) <-> In x (flat_map f l').
Proof. intros P. rewrite !in_flat_map. split; intros [d [H1 H2]]; exists d; split; auto;
  [eapply Permutation_in; eauto|eapply Permutation_in; [apply Permutation_sym|]; eauto]. Qed.

(* ------------------------------------------------------------------ membership converges *)
Lemma all_elems_perm ds ds' x : Permutation ds ds' -> In x (all_elems ds) <-> In x (all_elems ds').
Proof. intros P. unfold all_elems. now apply perm_flat_in. Qed.
Lemma all_tombs_perm ds ds' x : Permutation ds ds' -> In x (all_tombs ds) <-> In x (all_tombs ds').
Proof. intros P. unfold all_tombs. now apply perm_flat_in. Qed.

Lemma live_converges ds ds' r k : Permutation ds ds' -> live (run ds r) k = live (run ds' r) k.
Proof.
  intros P. apply eq_true_iff_eq. rewrite !live_spec.
  split; intros [id [H1 H2]]; exists id; rewrite elems_run, tombs_run in *.
  - rewrite <- (all_elems_perm ds ds' _ P), <- (all_tombs_perm ds ds' _ P). tauto.
  - rewrite (all_elems_perm ds ds' _ P), (all_tombs_perm ds ds' _ P). tauto.
Qed.

(* the register of a key, once written, stays *)
Lemma aget_fold_aput_some k (p : N) (l : list (key * val)) : forall rg,
  aget k rg <> None -> aget k (fold_left (fun rg kv => aput (fst kv) (p, snd kv) rg) l rg) <> None.
Proof.
  induction l as [|[k' v] l IH]; simpl; auto. intros rg H. apply IH.
  destruct (N.eq_dec k k') as [->|Hn]; [rewrite aget_aput_same; discriminate|rewrite aget_aput_other; auto].
Qed.

(* last write of k in a list of adds *)
Fixpoint last_of (k : key) (l : list (key * val)) : option val :=
  match l with [] => None | (k', v) :: r => match last_of k r with Some w => Some w | None => if k' =? k then Some v else None end end.

Lemma aget_fold_aput k (p : N) (l : list (key * val)) : forall rg,
  aget k (fold_left (fun rg kv => aput (fst kv) (p, snd kv) rg) l rg) =
  match last_of k l with Some v => Some (p, v) | None => aget k rg end.
Proof.
  induction l as [|[k' v] l IH]; simpl; auto. intros rg. rewrite IH.
  destruct (last_of k l); auto. destruct (N.eqb_spec k' k) as [->|Hn].
  - now rewrite aget_aput_same.
  - rewrite aget_aput_other; auto.
Qed.

Lemma last_of_in k l v : last_of k l = Some v -> In (k, v) l.
Proof. induction l as [|[k' w] l IH]; simpl; [discriminate|]. destruct (last_of k l) eqn:E.
  - intros H. right. apply IH. exact H.
  - destruct (N.eqb_spec k' k); [intros H; inversion H; subst; now left|discriminate]. Qed.
Lemma last_of_none k l : last_of k l = None -> forall v, ~ In (k, v) l.
Proof. induction l as [|[k' w] l IH]; simpl; [tauto|]. destruct (last_of k l) eqn:E; [discriminate|].
  destruct (N.eqb_spec k' k); [discriminate|]. intros _ v [H|H]; [inversion H; congruence|]. eapply IH; eauto. Qed.

Definition wf_delta (d : delta) : Prop := 1 <= d_prio d.

(* a live key has a register (priorities start at 1), in every state reached by merging *)
Definition live_has_reg (r : rep) : Prop := forall k, live r k = true -> aget k (reg r) <> None.

Lemma reg_merge k r d : aget k (reg (merge r d)) =
  match last_of k (stored_adds (put_tombs r d) d) with Some v => Some (d_prio d, v) | None => aget k (reg r) end.
Proof. unfold merge, put_elems. simpl. apply aget_fold_aput. Qed.

Lemma in_stored r d kv : In kv (stored_adds r d) <-> In kv (d_adds d) /\ stores (tombs r) (reg r) (d_id d) (d_prio d) kv = true.
Proof. unfold stored_adds. apply filter_In. Qed.

Lemma merge_live_has_reg r d : wf_delta d -> live_has_reg r -> live_has_reg (merge r d).
Proof.
  intros W H k L. rewrite reg_merge. destruct (last_of k _) eqn:E; [discriminate|].
  apply live_spec in L. destruct L as [id [L1 L2]]. rewrite elems_merge in L1. rewrite tombs_merge in L2.
  apply in_app_iff in L1. destruct L1 as [L1|L1].
  - apply H. apply live_spec. exists id. split; auto. intro C. apply L2. apply in_app_iff. now left.
  - apply in_map_iff in L1. destruct L1 as [[k' v] [Ek Hin]]. simpl in Ek. inversion Ek; subst k' id. clear Ek.
    (* the add (k,v) was not stored although its element is not tombstoned: then the register exists already *)
    pose proof (last_of_none _ _ E v) as NS. rewrite in_stored in NS.
    assert (S : stores (tombs (put_tombs r d)) (reg (put_tombs r d)) (d_id d) (d_prio d) (k, v) = false).
    { destruct (stores _ _ _ _ _) eqn:S; auto. exfalso. apply NS. split; auto. }
    unfold stores in S. simpl in S. replace (kmem (k, d_id d) (tombs r ++ d_rms d)) with false in S
      by (symmetry; apply kmem_false; exact L2).
    unfold cur_pv in S. destruct (aget k (reg r)) as [[cp cv]|] eqn:G; [discriminate|].
    unfold wf_delta in W. destruct (N.ltb_spec (d_prio d) 0); [lia|].
    destruct (N.eqb_spec (d_prio d) 0); [lia|]. simpl in S. discriminate.
Qed.

Lemma run_live_has_reg ds : Forall wf_delta ds -> forall r, live_has_reg r -> live_has_reg (run ds r).
Proof. induction 1 as [|d ds W _ IH]; intros r H; simpl; auto. unfold run in *. simpl. apply IH. now apply merge_live_has_reg. Qed.

Lemma present_is_live ds k : Forall wf_delta ds -> present (run ds rempty) k = live (run ds rempty) k.
Proof.
  intros W. unfold present. destruct (aget k (reg (run ds rempty))) eqn:E; auto.
  destruct (live (run ds rempty) k) eqn:L; auto. exfalso.
  eapply (run_live_has_reg ds W rempty); eauto. intros k' L'. unfold live in L'. simpl in L'. discriminate.
Qed.

Lemma Forall_perm {A} (P : A -> Prop) l l' : Permutation l l' -> Forall P l -> Forall P l'.
Proof. intros Pm H. apply Forall_forall. intros x Hx. eapply Forall_forall in H; eauto. eapply Permutation_in; [apply Permutation_sym|]; eauto. Qed.

Lemma membership_converges ds ds' k : Forall wf_delta ds -> Permutation ds ds' ->
  present (run ds rempty) k = present (run ds' rempty) k.
Proof. intros W P. rewrite !present_is_live; auto; [apply live_converges; auto|eapply Forall_perm; eauto]. Qed.

(* ------------------------------------------------------------------ values converge under the guard *)
Definition pv_le (a b : N * val) : Prop := fst a < fst b \/ (fst a = fst b /\ snd a <= snd b).
Lemma pv_le_refl a : pv_le a a. Proof. right. split; auto. lia. Qed.
Lemma pv_le_trans a b c : pv_le a b -> pv_le b c -> pv_le a c.
Proof. unfold pv_le. intros [H|[H1 H2]] [G|[G1 G2]]; try (left; lia). right. split; lia. Qed.
Lemma pv_le_antisym a b : pv_le a b -> pv_le b a -> a = b.
Proof. destruct a, b. unfold pv_le. simpl. intros [H|[H1 H2]] [G|[G1 G2]]; try lia. f_equal; lia. Qed.

Definition surviving (ds : list delta) (k : key) (d : delta) (v : val) : Prop :=
  In d ds /\ In (k, v) (d_adds d) /\ ~ In (k, d_id d) (all_tombs ds).
Definition tombstoned (ds : list delta) (k : key) (d : delta) (v : val) : Prop :=
  In d ds /\ In (k, v) (d_adds d) /\ In (k, d_id d) (all_tombs ds).
(* no delta adds k twice with different values (excludes crdt-value-divergence-duplicate-key-in-delta) *)
Definition single_add (ds : list delta) (k : key) : Prop :=
  forall d v v', In d ds -> In (k, v) (d_adds d) -> In (k, v') (d_adds d) -> v = v'.
(* no tombstoned element of k is above every surviving one (excludes crdt-value-divergence-tombstoned-higher-priority) *)
Definition no_stale_top (ds : list delta) (k : key) : Prop :=
  forall d v, tombstoned ds k d v -> (exists d' v', surviving ds k d' v') ->
  exists d' v', surviving ds k d' v' /\ pv_le (d_prio d, v) (d_prio d', v').
Definition value_guard (ds : list delta) (k : key) : Prop :=
  Forall wf_delta ds /\ single_add ds k /\ no_stale_top ds k.

Section ValueInv.
Variables (ds : list delta) (k : key).
Hypothesis SA : single_add ds k.

Definition vinv (done : list delta) (r : rep) : Prop :=
  (forall x, In x (tombs r) -> In x (all_tombs ds)) /\
  (aget k (reg r) = None \/ exists d v, In d ds /\ In (k, v) (d_adds d) /\ aget k (reg r) = Some (d_prio d, v)) /\
  (forall d v, In d done -> surviving ds k d v -> pv_le (d_prio d, v) (cur_pv (reg r) k)).

Lemma stores_false_le tb rg id p kv : kmem (fst kv, id) tb = false -> stores tb rg id p kv = false ->
  pv_le (p, snd kv) (cur_pv rg (fst kv)).
Proof.
  unfold stores. intros ->. destruct (cur_pv rg (fst kv)) as [cp cv]. unfold pv_le. simpl.
  destruct (N.ltb_spec p cp); [intros _; left; lia|].
  destruct (N.eqb_spec p cp); simpl; [|discriminate].
  destruct (N.leb_spec (snd kv) cv); [intros _; right; split; lia|discriminate].
Qed.
Lemma stores_true_lt tb rg id p kv : stores tb rg id p kv = true -> pv_le (cur_pv rg (fst kv)) (p, snd kv).
Proof.
  unfold stores. destruct (kmem _ tb); [discriminate|]. destruct (cur_pv rg (fst kv)) as [cp cv]. unfold pv_le. simpl.
  destruct (N.ltb_spec p cp); [discriminate|].
  destruct (N.eqb_spec p cp); simpl.
  - destruct (N.leb_spec (snd kv) cv); [discriminate|]. intros _. right. split; lia.
  - intros _. left. lia.
Qed.

Lemma vinv_merge done r d : In d ds -> vinv done r -> vinv (done ++ [d]) (merge r d).
Proof.
  intros Hd (I1 & I2 & I3).
  assert (T : forall x, In x (tombs r ++ d_rms d) -> In x (all_tombs ds)).
  { intros x Hx. apply in_app_iff in Hx. destruct Hx as [Hx|Hx]; auto. unfold all_tombs. apply in_flat_map. eauto. }
  assert (MONO : pv_le (cur_pv (reg r) k) (cur_pv (reg (merge r d)) k)).
  { unfold cur_pv at 2. rewrite reg_merge. destruct (last_of k _) eqn:E; [|apply pv_le_refl].
    apply last_of_in in E. apply in_stored in E. destruct E as [_ E]. apply stores_true_lt in E. exact E. }
  split; [|split].
  - rewrite tombs_merge. exact T.
  - rewrite reg_merge. destruct (last_of k _) eqn:E; auto.
    apply last_of_in in E. apply in_stored in E. right. exists d, v. tauto.
  - intros d0 v0 Hin S. apply in_app_iff in Hin. destruct Hin as [Hin|[<-|[]]].
    + eapply pv_le_trans; [apply I3; eauto|exact MONO].
    + destruct S as (_ & A & NT).
      assert (NK : kmem (k, d_id d) (tombs r ++ d_rms d) = false).
      { apply kmem_false. intro C. apply NT. now apply T. }
      destruct (stores (tombs r ++ d_rms d) (reg r) (d_id d) (d_prio d) (k, v0)) eqn:ST.
      * assert (IS : In (k, v0) (stored_adds (put_tombs r d) d)) by (apply in_stored; split; auto).
        unfold cur_pv. rewrite reg_merge. destruct (last_of k _) eqn:E.
        -- apply last_of_in in E. apply in_stored in E. destruct E as [E _].
           rewrite (SA d v0 v Hd A E). apply pv_le_refl.
        -- exfalso. eapply last_of_none; eauto.
      * eapply pv_le_trans; [|exact MONO]. apply (stores_false_le (tombs r ++ d_rms d) (reg r) (d_id d) (d_prio d) (k, v0)); auto.
Qed.

Lemma vinv_run l : (forall d, In d l -> In d ds) -> forall done r, vinv done r -> vinv (done ++ l) (run l r).
Proof.
  induction l as [|d l IH]; intros Hl done r H; simpl.
  - now rewrite app_nil_r.
  - unfold run in *. simpl. replace (done ++ d :: l) with ((done ++ [d]) ++ l) by (rewrite <- app_assoc; reflexivity).
    apply IH; [intros; apply Hl; now right|]. apply vinv_merge; auto. apply Hl. now left.
Qed.

Lemma vinv_init : vinv [] rempty.
Proof. split; [|split]; simpl; auto; intros; tauto. Qed.
End ValueInv.

Lemma surviving_perm ds ds' k d v : Permutation ds ds' -> surviving ds k d v -> surviving ds' k d v.
Proof. intros P (A & B & C). split; [eapply Permutation_in; eauto|]. split; auto. now rewrite <- (all_tombs_perm ds ds' _ P). Qed.

Lemma live_iff_surviving ds k : live (run ds rempty) k = true <-> exists d v, surviving ds k d v.
Proof.
  rewrite live_spec. split.
  - intros [id [H1 H2]]. rewrite elems_run in H1. rewrite tombs_run in H2. simpl in *.
    destruct H1 as [[]|H1]. unfold all_elems in H1. apply in_flat_map in H1. destruct H1 as [d [Hd Hin]].
    apply in_map_iff in Hin. destruct Hin as [[k' v] [E Hin]]. simpl in E. inversion E; subst. exists d, v. repeat split; auto.
  - intros [d [v (A & B & C)]]. exists (d_id d). rewrite elems_run, tombs_run. simpl. split.
    + right. unfold all_elems. apply in_flat_map. exists d. split; auto. apply in_map_iff. exists (k, v). auto.
    + tauto.
Qed.

(* the final register of k is the (priority, value) of a surviving add that is above every surviving add *)
Lemma final_reg ds ds' k : value_guard ds k -> Permutation ds ds' -> (exists d v, surviving ds k d v) ->
  exists d v, surviving ds k d v /\ aget k (reg (run ds' rempty)) = Some (d_prio d, v) /\
              forall d0 v0, surviving ds k d0 v0 -> pv_le (d_prio d0, v0) (d_prio d, v).
Proof.
  intros (W & SA & NS) P EX.
  assert (Hin : forall d, In d ds' -> In d ds) by (intros d Hd; eapply Permutation_in; [apply Permutation_sym|]; eauto).
  destruct (vinv_run ds k SA ds' Hin [] rempty (vinv_init ds k)) as (I1 & I2 & I3). simpl in I3.
  assert (I3' : forall d v, surviving ds k d v -> pv_le (d_prio d, v) (cur_pv (reg (run ds' rempty)) k)).
  { intros d v S. apply I3; auto. eapply Permutation_in; eauto. apply S. }
  destruct I2 as [I2|[d [v (Hd & Ha & I2)]]].
  - (* no register although something survives: impossible, priorities start at 1 *)
    destruct EX as [d [v S]]. specialize (I3' d v S). unfold cur_pv in I3'. rewrite I2 in I3'.
    assert (Wd : wf_delta d) by (eapply Forall_forall in W; eauto; apply S).
    unfold wf_delta in Wd. unfold pv_le in I3'. simpl in I3'. lia.
  - unfold cur_pv in I3'. rewrite I2 in I3'.
    destruct (in_dec kid_eq_dec (k, d_id d) (all_tombs ds)) as [T|T].
    + destruct (NS d v (conj Hd (conj Ha T)) EX) as [d' [v' [S' LE]]].
      assert (E : (d_prio d', v') = (d_prio d, v)) by (apply pv_le_antisym; auto).
      exists d', v'. split; auto. split; [now rewrite E|]. intros d0 v0 S0. rewrite E. auto.
    + exists d, v. split; [repeat split; auto|]. split; auto.
Qed.

Lemma value_converges_partial ds ds' k : value_guard ds k -> Permutation ds ds' ->
  value (run ds rempty) k = value (run ds' rempty) k.
Proof.
  intros G P. unfold value.
  assert (W' : Forall wf_delta ds') by (eapply Forall_perm; eauto; apply G).
  rewrite !present_is_live; auto; try apply G. rewrite (live_converges ds ds' rempty k P).
  destruct (live (run ds' rempty) k) eqn:L; auto.
  assert (EX : exists d v, surviving ds k d v).
  { apply live_iff_surviving in L. destruct L as [d [v S]]. exists d, v. eapply surviving_perm; [apply Permutation_sym|]; eauto. }
  destruct (final_reg ds ds k G (Permutation_refl _) EX) as [d1 [v1 (S1 & R1 & M1)]].
  destruct (final_reg ds ds' k G P EX) as [d2 [v2 (S2 & R2 & M2)]].
  rewrite R1, R2. simpl. f_equal.
  assert (E : (d_prio d1, v1) = (d_prio d2, v2)) by (apply pv_le_antisym; auto). congruence.
Qed.

(* ------------------------------------------------------------------ hooks cover the changes *)
Lemma first_keys_in seen l k : In k (first_keys seen l) <-> (exists id, In (k, id) l) /\ ~ In k seen.
Proof.
  revert seen. induction l as [|[k' id'] l IH]; intros seen; simpl.
  - split; [tauto|intros [[id []] _]].
  - destruct (memN k' seen) eqn:M.
    + rewrite IH. apply memN_in in M. split.
      * intros [[id H] N]. split; eauto.
      * intros [[id [H|H]] N]; [inversion H; subst; tauto|]. split; eauto.
    + apply memN_false in M. simpl. rewrite IH. split.
      * intros [->|[[id H] N]]; [split; eauto|]. split; [eauto|]. intro C. apply N. now right.
      * intros [[id [H|H]] N].
        -- inversion H; subst. now left.
        -- destruct (N.eq_dec k' k); [now left|]. right. split; eauto. intros [C|C]; auto.
Qed.

Lemma del_hook_in d k : In (HDel k) (del_hooks d) <-> exists id, In (k, id) (d_rms d).
Proof.
  unfold del_hooks. rewrite in_map_iff. split.
  - intros [k' [E H]]. inversion E; subst. apply first_keys_in in H. tauto.
  - intros H. exists k. split; auto. apply first_keys_in. split; auto.
Qed.

(* the step guard: an add that makes an absent key a member again is stored, i.e. it does not lose against the
   register left behind by an element that has been tombstoned *)
Definition no_stale_loss (r : rep) (d : delta) (k : key) : Prop :=
  live r k = false -> forall v, In (k, v) (d_adds d) -> ~ In (k, d_id d) (tombs r ++ d_rms d) ->
  stores (tombs r ++ d_rms d) (reg r) (d_id d) (d_prio d) (k, v) = true.

Lemma hooks_cover r d k : no_stale_loss r d k -> value (merge r d) k <> value r k ->
  match value (merge r d) k with
  | Some v => In (HPut k v) (merge_hooks r d)
  | None => In (HDel k) (merge_hooks r d)
  end.
Proof.
  intros G NE. unfold merge_hooks.
  destruct (value (merge r d) k) as [v|] eqn:VA.
  - (* present afterwards with value v *)
    apply in_app_iff. right. unfold put_hooks. apply in_map_iff.
    unfold value in VA. destruct (present (merge r d) k) eqn:PA; [|discriminate].
    unfold present in PA. rewrite reg_merge in PA, VA.
    destruct (last_of k (stored_adds (put_tombs r d) d)) as [w|] eqn:E.
    + simpl in VA. inversion VA; subst w. exists (k, v). split; auto. now apply last_of_in.
    + (* no store for k in this merge: the register is the old one *)
      exfalso. destruct (aget k (reg r)) as [[p0 v0]|] eqn:RG; [|discriminate]. simpl in VA. inversion VA; subst v0.
      destruct (live r k) eqn:LB.
      * apply NE. unfold value, present. rewrite RG, LB. reflexivity.
      * (* it became live through an add of this delta that was not stored *)
        apply live_spec in PA. destruct PA as [id [P1 P2]]. rewrite elems_merge in P1. rewrite tombs_merge in P2.
        apply in_app_iff in P1. destruct P1 as [P1|P1].
        -- assert (live r k = true); [|congruence]. apply live_spec. exists id. split; auto. intro C. apply P2. apply in_app_iff. now left.
        -- apply in_map_iff in P1. destruct P1 as [[k' w] [Ek Hin]]. simpl in Ek. inversion Ek; subst k' id.
           specialize (G LB w Hin P2). eapply last_of_none; eauto. apply in_stored. split; eauto.
  - (* absent afterwards, so present before: one of its live elements is tombstoned by this delta *)
    apply in_app_iff. left. apply del_hook_in.
    destruct (value r k) as [v0|] eqn:VB; [|congruence]. clear NE.
    unfold value in VB, VA. destruct (present r k) eqn:PB; [|discriminate].
    unfold present in PB. destruct (aget k (reg r)) as [pv|] eqn:RG; [|discriminate].
    apply live_spec in PB. destruct PB as [id [P1 P2]].
    destruct (in_dec kid_eq_dec (k, id) (d_rms d)) as [T|T]; [eauto|]. exfalso.
    assert (LA : live (merge r d) k = true).
    { apply live_spec; exists id; rewrite elems_merge, tombs_merge, !in_app_iff; tauto. }
    unfold present in VA. rewrite reg_merge in VA. destruct (last_of k _); [rewrite LA in VA; discriminate|].
    rewrite RG, LA in VA. discriminate.
Qed.

(* ------------------------------------------------------------------ the witnesses *)
(* S3 as observed on go-ds-crdt v0.1.21: A adds K=7 at height 5, B adds K concurrently at height 3, A removes K. *)
Definition s3_e1 := mk_delta 15 5 [(7, 101)] [].
Definition s3_e2 := mk_delta 23 3 [(7, 102)] [].
Definition s3_tb := mk_delta 16 6 [] [(7, 15)].

Lemma s3_perm : Permutation [s3_e1; s3_tb; s3_e2] [s3_e2; s3_tb; s3_e1].
Proof. apply perm_trans with [s3_e2; s3_e1; s3_tb]; [|repeat constructor].
  apply perm_trans with [s3_e1; s3_e2; s3_tb]; repeat constructor. Qed.

Lemma value_divergence : value (run [s3_e1; s3_tb; s3_e2] rempty) 7 = Some 101 /\ value (run [s3_e2; s3_tb; s3_e1] rempty) 7 = Some 102.
Proof. vm_compute. auto. Qed.

Lemma hook_missing :
  let r := run [s3_e1; s3_tb] rempty in
  value r 7 = None /\ value (merge r s3_e2) 7 = Some 101 /\ merge_hooks r s3_e2 = [].
Proof. vm_compute. auto. Qed.

(* a batch that pins K twice (101 then 100) against a concurrent pin of K (105... between them in byte order) at the same height *)
Definition dup_a := mk_delta 31 2 [(7, 109); (7, 101)] [].
Definition dup_b := mk_delta 32 2 [(7, 105)] [].
Lemma dupkey_divergence : value (run [dup_a; dup_b] rempty) 7 = Some 105 /\ value (run [dup_b; dup_a] rempty) 7 = Some 109.
Proof. vm_compute. auto. Qed.

Lemma s3_wf : Forall wf_delta [s3_e1; s3_tb; s3_e2].
Proof. repeat constructor; unfold wf_delta; simpl; lia. Qed.
Lemma s3_neq : value (run [s3_e1; s3_tb; s3_e2] rempty) 7 <> value (run [s3_e2; s3_tb; s3_e1] rempty) 7.
Proof. vm_compute. discriminate. Qed.
Lemma dup_wf : Forall wf_delta [dup_a; dup_b].
Proof. repeat constructor; unfold wf_delta; simpl; lia. Qed.
Lemma dup_norms : forall d, In d [dup_a; dup_b] -> d_rms d = [].
Proof. intros d [<-|[<-|[]]]; reflexivity. Qed.
Lemma dup_neq : value (run [dup_a; dup_b] rempty) 7 <> value (run [dup_b; dup_a] rempty) 7.
Proof. vm_compute. discriminate. Qed.

Lemma hook_missing_stmt :
  let r := run [s3_e1; s3_tb] rempty in
  value (merge r s3_e2) 7 <> value r 7 /\
  match value (merge r s3_e2) 7 with Some v => ~ In (HPut 7 v) (merge_hooks r s3_e2) | None => ~ In (HDel 7) (merge_hooks r s3_e2) end.
Proof. vm_compute. split; [discriminate|tauto]. Qed.

Lemma hooks_reach_tracker r d k : no_stale_loss r d k -> value (merge r d) k <> value r k ->
  match value (merge r d) k with
  | Some v => In (Track k v) (map tracker_call (merge_hooks r d))
  | None => In (Untrack k) (map tracker_call (merge_hooks r d))
  end.
Proof.
  intros G NE. pose proof (hooks_cover r d k G NE) as H. destruct (value (merge r d) k) as [v|].
  - change (Track k v) with (tracker_call (HPut k v)). now apply in_map.
  - change (Untrack k) with (tracker_call (HDel k)). now apply in_map.
Qed.

Lemma guard_example : value_guard [mk_delta 1 1 [(7, 5)] []; mk_delta 2 1 [(7, 6)] []; mk_delta 3 2 [] [(7, 1)]] 7.
Proof.
  split; [repeat constructor; unfold wf_delta; simpl; lia|]. split.
  - intros d v v' Hd. simpl in Hd. destruct Hd as [<-|[<-|[<-|[]]]]; simpl; intuition congruence.
  - intros d v (Hd & Ha & Ht) _. exists (mk_delta 2 1 [(7, 6)] []), 6. split.
    + split; [simpl; tauto|]. split; [simpl; tauto|]. simpl. intuition discriminate.
    + simpl in Hd. destruct Hd as [<-|[<-|[<-|[]]]]; simpl in Ha, Ht.
      * destruct Ha as [H|[]]. inversion H; subst. right. simpl. split; lia.
      * destruct Ht as [H|[]]. discriminate.
      * destruct Ha.
Qed.
