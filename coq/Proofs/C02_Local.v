(* C02 — one replica written by its own LogPin/LogUnpin only, through batches or directly, with datastore
   commit failures at the tombstone and element writes: the pinset is the last-writer-wins map of the operations in
   submission order. (A failure at the heads write is the known finding
   crdt-republish-same-priority-after-heads-failure; it is excluded by the guard and refuted separately.) *)
From V Require Import Base.Common Base.CommonLemmas Model.C02_Set Proofs.C02_Set.
Open Scope N_scope.

Definition fresh (r : rep) (id : bid) : Prop := forall k, ~ In (k, id) (elems r).

Record linv (l : lrep) : Prop := mk_linv {
  J1 : forall k p v, aget k (reg (l_st l)) = Some (p, v) -> p <= l_height l;
  J2 : forall k id, In (k, id) (elems (l_st l)) -> id < l_next l;
  J3 : forall dc idf, In (dc, idf) (l_lastf l) -> idf < l_next l /\ fresh (l_st l) idf;
  J4 : forall x, In x (snd (cur_dc l)) -> In x (elems (l_st l));
  J4t : forall x, In x (tombs (l_st l)) -> In x (elems (l_st l));
  J5 : live_has_reg (l_st l) }.

Lemma linv_init : linv linit.
Proof. constructor; simpl; try (intros; tauto); try discriminate; intros k L; unfold live in L; simpl in L; discriminate. Qed.

Lemma pub_id_fresh l dc : linv l -> fresh (l_st l) (pub_id l dc) /\ pub_id l dc <= l_next l.
Proof.
  intros I. unfold pub_id. destruct (find _ (l_lastf l)) as [[dc' idf]|] eqn:E.
  - apply find_some in E. destruct E as [E _]. destruct (J3 l I dc' idf E) as [A B]. simpl. split; auto; lia.
  - split; [|lia]. intros k C. apply (J2 l I) in C. lia.
Qed.

Lemma filter_all {A} (f : A -> bool) l : (forall x, In x l -> f x = true) -> filter f l = l.
Proof. induction l as [|x l IH]; simpl; auto. intros H. rewrite (H x) by now left. f_equal. apply IH. intros; apply H; now right. Qed.

Definition live_after (r : rep) (rms : list kid) (k : key) : bool :=
  existsb (fun e => (fst e =? k) && negb (kmem e (tombs r ++ rms))) (elems r).

Section ViewChar.
Variables (r : rep) (h : N) (id : bid) (adds : list (key * val)) (rms : list kid).
Hypothesis H1 : forall k p v, aget k (reg r) = Some (p, v) -> p <= h.
Hypothesis HF : fresh r id.
Hypothesis HR : forall x, In x rms -> In x (elems r).
Hypothesis HT : forall x, In x (tombs r) -> In x (elems r).
Let d := mk_delta id (h + 1) adds rms.

Lemma fresh_not_tomb k : kmem (k, id) (tombs r ++ rms) = false.
Proof. apply kmem_false. intro C. apply in_app_iff in C. destruct C as [C|C]; [apply HT in C|apply HR in C]; exact (HF k C). Qed.

Lemma all_stored : stored_adds (put_tombs r d) d = adds.
Proof.
  unfold stored_adds. simpl. apply filter_all. intros [k v] _. unfold stores. simpl. rewrite fresh_not_tomb.
  unfold cur_pv. destruct (aget k (reg r)) as [[cp cv]|] eqn:E.
  - apply H1 in E. destruct (N.ltb_spec (h + 1) cp); [lia|]. destruct (N.eqb_spec (h + 1) cp); [lia|]. reflexivity.
  - destruct (N.ltb_spec (h + 1) 0); [lia|]. destruct (N.eqb_spec (h + 1) 0); [lia|]. reflexivity.
Qed.

Lemma all_put_hooks : merge_hooks r d = del_hooks d ++ map (fun kv => HPut (fst kv) (snd kv)) adds.
Proof. unfold merge_hooks, put_hooks. now rewrite all_stored. Qed.

Lemma view_char k :
  value (merge r d) k =
  match last_of k adds with
  | Some v => Some v
  | None => if live_after r rms k then option_map snd (aget k (reg r)) else None
  end.
Proof.
  unfold value, present. rewrite reg_merge, all_stored. simpl.
  destruct (last_of k adds) as [v|] eqn:E.
  - assert (L : live (merge r d) k = true).
    { apply live_spec. exists id. rewrite elems_merge, tombs_merge. simpl. split.
      - apply in_app_iff. right. apply in_map_iff. exists (k, v). split; auto. now apply last_of_in.
      - apply kmem_false. apply fresh_not_tomb. }
    rewrite L. reflexivity.
  - assert (L : live (merge r d) k = live_after r rms k).
    { unfold live, live_after. rewrite elems_merge, tombs_merge. simpl. rewrite existsb_app.
      replace (existsb _ (map _ adds)) with false; [apply orb_false_r|].
      symmetry. apply not_true_iff_false. intro C. apply existsb_exists in C. destruct C as [[k' i] [Hin C]].
      apply in_map_iff in Hin. destruct Hin as [[k2 v2] [Eq Hin]]. simpl in Eq. inversion Eq; subst.
      simpl in C. apply andb_true_iff in C. destruct C as [C _]. apply N.eqb_eq in C. subst.
      eapply last_of_none; eauto. }
    rewrite L. destruct (aget k (reg r)); destruct (live_after r rms k); reflexivity.
Qed.
End ViewChar.

Lemma view_eq l k : linv l ->
  view l k = match last_of k (fst (cur_dc l)) with
             | Some v => Some v
             | None => if live_after (l_st l) (snd (cur_dc l)) k then option_map snd (aget k (reg (l_st l))) else None
             end.
Proof.
  intros I. unfold view. apply view_char.
  - apply (J1 l I).
  - apply pub_id_fresh; auto.
  - apply (J4 l I).
  - apply (J4t l I).
Qed.

Lemma last_of_app k l1 l2 : last_of k (l1 ++ l2) = match last_of k l2 with Some v => Some v | None => last_of k l1 end.
Proof. induction l1 as [|[k' v] l1 IH]; simpl; [destruct (last_of k l2); auto|]. rewrite IH. destruct (last_of k l2); auto. Qed.

Lemma last_of_filter_other k k0 l : k0 <> k -> last_of k0 (filter (fun kv : key * val => negb (fst kv =? k)) l) = last_of k0 l.
Proof.
  intros Hn. induction l as [|[k' v] l IH]; simpl; auto. destruct (N.eqb_spec k' k); simpl.
  - subst. rewrite IH. destruct (last_of k0 l); auto. destruct (N.eqb_spec k k0); congruence.
  - rewrite IH. reflexivity.
Qed.
Lemma last_of_filter_same k l : last_of k (filter (fun kv : key * val => negb (fst kv =? k)) l) = None.
Proof. induction l as [|[k' v] l IH]; simpl; auto. destruct (N.eqb_spec k' k); simpl; auto. rewrite IH.
  destruct (N.eqb_spec k' k); congruence. Qed.

Lemma live_after_app_other r rms k k0 : k0 <> k -> live_after r (rms ++ rmv_tombs r k) k0 = live_after r rms k0.
Proof.
  intros Hn. unfold live_after. apply eq_true_iff_eq. rewrite !existsb_exists. split; intros [[k' i] [Hin C]]; exists (k', i); split; auto;
    simpl in *; apply andb_true_iff in C; destruct C as [C1 C2]; apply andb_true_iff; split; auto;
    apply N.eqb_eq in C1; subst k'; rewrite negb_true_iff in *; apply kmem_false; apply kmem_false in C2; intro D; apply C2;
    rewrite !in_app_iff in *.
  - tauto.
  - destruct D as [D|[D|D]]; auto. exfalso. unfold rmv_tombs in D. apply filter_In in D. destruct D as [_ D].
    simpl in D. apply andb_true_iff in D. destruct D as [D _]. apply N.eqb_eq in D. congruence.
Qed.
Lemma live_after_app_same r rms k : live_after r (rms ++ rmv_tombs r k) k = false.
Proof.
  unfold live_after. apply not_true_iff_false. intro C. apply existsb_exists in C. destruct C as [[k' i] [Hin C]].
  simpl in C. apply andb_true_iff in C. destruct C as [C1 C2]. apply N.eqb_eq in C1. subst k'.
  rewrite negb_true_iff in C2. apply kmem_false in C2. apply C2. rewrite !in_app_iff.
  destruct (in_dec kid_eq_dec (k, i) (tombs r)) as [T|T]; auto. right. right.
  unfold rmv_tombs. apply filter_In. split; auto. simpl. rewrite N.eqb_refl. simpl. rewrite negb_true_iff. now apply kmem_false.
Qed.

(* ---- the invariant is kept and the view follows the last-writer-wins map ---- *)
Definition agrees (l : lrep) (m : list (key * val)) : Prop := forall k, view l k = aget k m.

Lemma batch_op_linv l o : linv l -> linv (batch_op l o).
Proof.
  intros I. constructor; simpl; try apply I.
  unfold cur_dc. simpl. intros x Hx. destruct o as [k v|k]; simpl in Hx.
  - now apply (J4 l I).
  - apply in_app_iff in Hx. destruct Hx as [Hx|Hx]; [now apply (J4 l I)|]. unfold rmv_tombs in Hx. apply filter_In in Hx. tauto.
Qed.

Lemma batch_op_agrees l o m : linv l -> agrees l m -> agrees (batch_op l o) (apply_wop m o).
Proof.
  intros I A k0. rewrite view_eq by now apply batch_op_linv. specialize (A k0). rewrite view_eq in A by auto.
  destruct o as [k v|k].
  - change (apply_wop m (WPin k v)) with (aput k v m).
    change (cur_dc (batch_op l (WPin k v))) with (fst (cur_dc l) ++ [(k, v)], snd (cur_dc l)).
    cbn [fst snd]. change (l_st (batch_op l (WPin k v))) with (l_st l).
    rewrite last_of_app. cbn [last_of]. destruct (N.eqb_spec k k0) as [->|Hn].
    + now rewrite aget_aput_same.
    + rewrite aget_aput_other by congruence. exact A.
  - change (apply_wop m (WUnpin k)) with (adel k m).
    change (cur_dc (batch_op l (WUnpin k))) with
      (filter (fun kv : key * val => negb (fst kv =? k)) (fst (cur_dc l)), snd (cur_dc l) ++ rmv_tombs (l_st l) k).
    cbn [fst snd]. change (l_st (batch_op l (WUnpin k))) with (l_st l).
    destruct (N.eq_dec k0 k) as [->|Hn].
    + rewrite last_of_filter_same, live_after_app_same. now rewrite aget_adel_same.
    + rewrite last_of_filter_other, live_after_app_other by auto. rewrite aget_adel_other by auto. exact A.
Qed.

Lemma dc_eqb_refl dc : dc_eqb dc dc = true.
Proof.
  unfold dc_eqb. apply andb_true_iff. split.
  - induction (fst dc) as [|[a b] l IH]; simpl; auto. rewrite !N.eqb_refl. simpl. exact IH.
  - induction (snd dc) as [|[a b] l IH]; simpl; auto. unfold kid_eqb at 1. simpl. rewrite !N.eqb_refl. simpl. exact IH.
Qed.

Lemma put_tombs_live r d k : live (put_tombs r d) k = true -> live r k = true.
Proof. rewrite !live_spec. intros [id [A B]]. exists id. split; auto. simpl in B. intro C. apply B. apply in_app_iff. now left. Qed.

Lemma live_after_nil r k : live_after r [] k = live r k.
Proof. unfold live_after, live. now rewrite app_nil_r. Qed.

Lemma value_eq_view_when_empty l k : linv l -> cur_dc l = ([], []) -> view l k = value (l_st l) k.
Proof.
  intros I E. rewrite view_eq by auto. rewrite E. simpl. rewrite live_after_nil. unfold value, present.
  destruct (aget k (reg (l_st l))); destruct (live (l_st l) k); reflexivity.
Qed.

Lemma commit_linv_agrees l p m : linv l -> agrees l m -> p <> PFailHeads ->
  linv (fst (batch_commit l p)) /\ agrees (fst (batch_commit l p)) m.
Proof.
  intros I A NH.
  set (dc := cur_dc l). set (id := pub_id l dc).
  set (d := mk_delta id (l_height l + 1) (fst dc) (snd dc)).
  destruct (pub_id_fresh l dc I) as [FR LE]. fold id in FR, LE.
  assert (NXT : forall k i, In (k, i) (elems (l_st l)) -> i < (if id =? l_next l then l_next l + 1 else l_next l)).
  { intros k i Hin. apply (J2 l I) in Hin. destruct (id =? l_next l); lia. }
  assert (IDN : id < (if id =? l_next l then l_next l + 1 else l_next l)).
  { destruct (N.eqb_spec id (l_next l)); lia. }
  destruct p; try congruence; unfold batch_commit, publish; fold dc; fold id; fold d; cbn [fst snd pres_ok l_st l_height l_next l_lastf l_cur].
  - (* POk *)
    assert (I' : linv (mk_lrep (merge (l_st l) d) (l_height l + 1) (if id =? l_next l then l_next l + 1 else l_next l) [] None)).
    { constructor; cbn [l_st l_height l_next l_lastf l_cur].
      - intros k p v. rewrite reg_merge. destruct (last_of k _) eqn:E.
        + intros H. inversion H; subst. simpl. lia.
        + intros H. apply (J1 l I) in H. lia.
      - intros k i Hin. rewrite elems_merge in Hin. apply in_app_iff in Hin. destruct Hin as [Hin|Hin]; [eauto|].
        apply in_map_iff in Hin. destruct Hin as [kv [E _]]. simpl in E. inversion E; subst. exact IDN.
      - intros dc0 idf [].
      - unfold cur_dc. simpl. tauto.
      - intros x Hx. rewrite tombs_merge in Hx. rewrite elems_merge. apply in_app_iff. left.
        apply in_app_iff in Hx. destruct Hx as [Hx|Hx]; [now apply (J4t l I)|now apply (J4 l I)].
      - apply merge_live_has_reg; [unfold wf_delta; simpl; lia|apply (J5 l I)]. }
    split; auto. intros k. rewrite value_eq_view_when_empty by (auto; reflexivity). simpl. apply (A k).
  - (* PFailTombs: nothing written *)
    assert (I' : linv (mk_lrep (l_st l) (l_height l) (if id =? l_next l then l_next l + 1 else l_next l) ((dc, id) :: l_lastf l) (l_cur l))).
    { constructor; cbn [l_st l_height l_next l_lastf l_cur]; try apply I.
      - intros k i Hin. eauto.
      - intros dc0 idf [E|E]; [inversion E; subst; split; auto|].
        destruct (J3 l I dc0 idf E) as [E1 E2]. split; [destruct (id =? l_next l); lia|exact E2]. }
    split; auto. intros k. rewrite view_eq by auto. specialize (A k). rewrite view_eq in A by auto. exact A.
  - (* PFailElems: the tombstones are written, the elements are not *)
    set (l' := mk_lrep (put_tombs (l_st l) d) (l_height l) (if id =? l_next l then l_next l + 1 else l_next l) ((dc, id) :: l_lastf l) (l_cur l)).
    assert (I' : linv l').
    { constructor; cbn [l' l_st l_height l_next l_lastf l_cur]; try apply I.
      - intros k i Hin. eauto.
      - intros dc0 idf [E|E]; [inversion E; subst; split; auto|].
        destruct (J3 l I dc0 idf E) as [E1 E2]. split; [destruct (id =? l_next l); lia|exact E2].
      - intros x Hx. apply in_app_iff in Hx. destruct Hx as [Hx|Hx]; [now apply (J4t l I)|now apply (J4 l I)].
      - intros k L. apply (J5 l I). eapply put_tombs_live; eauto. }
    change (linv l' /\ agrees l' m).
    split; auto. intros k. rewrite view_eq by auto. specialize (A k). rewrite view_eq in A by auto.
    change (cur_dc l') with dc. change (l_st l') with (put_tombs (l_st l) d). fold dc in A.
    change (reg (put_tombs (l_st l) d)) with (reg (l_st l)).
    replace (live_after (put_tombs (l_st l) d) (snd dc) k) with (live_after (l_st l) (snd dc) k); [exact A|].
    unfold live_after. cbn [put_tombs elems tombs d d_rms]. apply eq_true_iff_eq. rewrite !existsb_exists.
    split; intros [e [Hin C]]; exists e; split; auto; apply andb_true_iff in C; destruct C as [C1 C2]; apply andb_true_iff; split; auto;
      rewrite negb_true_iff in *; apply kmem_false; apply kmem_false in C2; intro D; apply C2; rewrite !in_app_iff in *; tauto.
Qed.

Lemma batch_mode_agrees es : batch_mode es = true -> no_heads_failure es = true ->
  linv (lrun es) /\ agrees (lrun es) (spec_map es).
Proof.
  unfold lrun, spec_map.
  assert (G : forall l m, linv l -> agrees l m -> batch_mode es = true -> no_heads_failure es = true ->
              linv (fold_left lstep es l) /\ agrees (fold_left lstep es l) (fold_left spec_step es m)).
  { induction es as [|e es IH]; intros l m I A B N; simpl; auto.
    simpl in B, N. apply andb_true_iff in B. destruct B as [B1 B2]. apply andb_true_iff in N. destruct N as [N1 N2].
    destruct e as [o|p|o p]; try discriminate; simpl.
    - apply IH; auto; [now apply batch_op_linv|now apply batch_op_agrees].
    - assert (NH : p <> PFailHeads) by (intro; subst; discriminate).
      destruct (commit_linv_agrees l p m I A NH). apply IH; auto. }
  intros B N. apply G; auto; [apply linv_init|]. intros k. vm_compute. reflexivity.
Qed.

(* ---- direct writes ---- *)
Lemma rmv_tombs_nil_not_live r k : rmv_tombs r k = [] -> live r k = false.
Proof.
  intros E. apply not_true_iff_false. intro L. unfold live in L. apply existsb_exists in L. destruct L as [e [Hin C]].
  assert (In e (rmv_tombs r k)) by (unfold rmv_tombs; apply filter_In; auto). rewrite E in H. destruct H.
Qed.

Lemma value_put_tombs_nil r id p adds k : value (put_tombs r (mk_delta id p adds [])) k = value r k.
Proof. unfold value, present, live, put_tombs. simpl. now rewrite app_nil_r. Qed.

Lemma linv_cur_none l : linv l -> linv (mk_lrep (l_st l) (l_height l) (l_next l) (l_lastf l) None).
Proof. intros I. constructor; cbn [l_st l_height l_next l_lastf l_cur]; try apply I. unfold cur_dc. simpl. tauto. Qed.

Lemma direct_linv_agrees l o p m : linv l -> l_cur l = None -> agrees l m -> p <> PFailHeads ->
  pres_possible l (delta_add_op (l_st l) ([], []) o) p = true ->
  let l' := fst (fst (direct_op l o p)) in
  linv l' /\ l_cur l' = None /\ agrees l' (if pres_ok p then apply_wop m o else m).
Proof.
  intros I CN A NH PP. cbn zeta.
  assert (VL : forall k, value (l_st l) k = aget k m).
  { intros k. rewrite <- (A k). symmetry. apply value_eq_view_when_empty; auto. unfold cur_dc. now rewrite CN. }
  set (dc := delta_add_op (l_st l) ([], []) o) in *.
  set (l0 := batch_op l o).
  assert (I0 : linv l0) by now apply batch_op_linv.
  assert (A0 : agrees l0 (apply_wop m o)) by (apply batch_op_agrees; auto).
  assert (E0 : cur_dc l0 = dc) by (unfold l0, cur_dc; simpl; unfold cur_dc; now rewrite CN).
  (* an unpin that finds nothing to tombstone publishes nothing and returns nil *)
  assert (NOOP : forall k, o = WUnpin k -> snd dc = [] -> agrees l (adel k m)).
  { intros k -> RT k0. rewrite (A k0). destruct (N.eq_dec k0 k) as [->|Hn].
    - rewrite aget_adel_same. rewrite <- VL. unfold value, present.
      rewrite (rmv_tombs_nil_not_live (l_st l) k) by exact RT. destruct (aget k (reg (l_st l))); reflexivity.
    - now rewrite aget_adel_other. }
  (* the publish itself *)
  assert (PUBL : let l' := fst (publish l dc p) in linv l' /\ l_cur l' = None /\ agrees l' (if pres_ok p then apply_wop m o else m)).
  { cbn zeta. destruct p; try congruence.
    - (* POk: the same record as a batch of this one operation *)
      pose proof (commit_linv_agrees l0 POk (apply_wop m o) I0 A0 NH) as [I1 A1].
      assert (EQ : fst (batch_commit l0 POk) = fst (publish l dc POk)).
      { unfold batch_commit. rewrite E0. unfold publish, pub_id. simpl. rewrite CN. reflexivity. }
      rewrite EQ in I1, A1. split; [exact I1|split; [unfold publish; simpl; exact CN|exact A1]].
    - (* PFailTombs: nothing is written *)
      unfold publish. cbn [fst pres_ok].
      destruct (pub_id_fresh l dc I) as [FR LE].
      assert (I' : linv (mk_lrep (l_st l) (l_height l) (if pub_id l dc =? l_next l then l_next l + 1 else l_next l) ((dc, pub_id l dc) :: l_lastf l) (l_cur l))).
      { constructor; cbn [l_st l_height l_next l_lastf l_cur]; try apply I.
        - intros k i Hin. apply (J2 l I) in Hin. destruct (_ =? _); lia.
        - intros dc0 idf [E|E]; [inversion E; subst; split; auto; destruct (N.eqb_spec (pub_id l dc) (l_next l)); lia|].
          destruct (J3 l I dc0 idf E) as [E1 E2]. split; [destruct (_ =? _); lia|exact E2]. }
      split; [|split]; auto. intros k0. rewrite value_eq_view_when_empty; [apply VL|auto|unfold cur_dc; simpl; now rewrite CN].
    - (* PFailElems: only a pin has elements, and it has no tombstones: nothing is written *)
      destruct o as [k v|k]; [|unfold pres_possible in PP; simpl in PP; discriminate].
      unfold publish. cbn [fst pres_ok].
      destruct (pub_id_fresh l dc I) as [FR LE].
      set (d := mk_delta (pub_id l dc) (l_height l + 1) (fst dc) (snd dc)).
      assert (I' : linv (mk_lrep (put_tombs (l_st l) d) (l_height l) (if pub_id l dc =? l_next l then l_next l + 1 else l_next l) ((dc, pub_id l dc) :: l_lastf l) (l_cur l))).
      { constructor; cbn [l_st l_height l_next l_lastf l_cur]; try apply I.
        - intros k0 i Hin. apply (J2 l I) in Hin. destruct (_ =? _); lia.
        - intros dc0 idf [E|E]; [inversion E; subst; split; auto; destruct (N.eqb_spec (pub_id l dc) (l_next l)); lia|].
          destruct (J3 l I dc0 idf E) as [E1 E2]. split; [destruct (_ =? _); lia|exact E2].
        - intros x Hx. simpl in Hx. apply in_app_iff in Hx. destruct Hx as [Hx|[]]. now apply (J4t l I).
        - intros k0 L. apply (J5 l I). eapply put_tombs_live; eauto. }
      split; [|split]; auto. intros k0. rewrite value_eq_view_when_empty; [|auto|unfold cur_dc; simpl; now rewrite CN].
      cbn [l_st]. unfold d, dc. simpl. rewrite value_put_tombs_nil. apply VL. }
  unfold direct_op. fold dc. destruct o as [k v|k].
  - destruct (snd dc); destruct (publish l dc p) as [l' hs] eqn:EP; cbn [fst snd] in *; exact PUBL.
  - destruct (snd dc) eqn:RT.
    + cbn [fst snd]. split; [|split]; auto. destruct (pres_ok p).
      * apply (NOOP k); auto.
      * exact A.
    + destruct (publish l dc p) as [l' hs] eqn:EP. cbn [fst snd] in *. exact PUBL.
Qed.

Lemma direct_mode_agrees es : direct_mode es = true -> no_heads_failure es = true -> outcomes_possible linit es = true ->
  forall k, value (l_st (lrun es)) k = aget k (spec_map es).
Proof.
  unfold lrun, spec_map.
  assert (G : forall l m, linv l -> l_cur l = None -> agrees l m -> direct_mode es = true -> no_heads_failure es = true ->
              outcomes_possible l es = true ->
              let l' := fold_left lstep es l in linv l' /\ l_cur l' = None /\ agrees l' (fold_left spec_step es m)).
  { induction es as [|e es IH]; intros l m I CN A B N O; simpl; auto.
    simpl in B, N, O. apply andb_true_iff in B. destruct B as [B1 B2]. apply andb_true_iff in N. destruct N as [N1 N2].
    apply andb_true_iff in O. destruct O as [O1 O2].
    destruct e as [o|p|o p]; try discriminate.
    assert (NH : p <> PFailHeads) by (intro; subst; discriminate).
    destruct (direct_linv_agrees l o p m I CN A NH O1) as (I1 & C1 & A1).
    apply IH; auto. }
  intros B N O k.
  destruct (G linit [] linv_init eq_refl (fun k => eq_refl) B N O) as (I & CN & A).
  rewrite <- (A k). symmetry. apply value_eq_view_when_empty; auto. unfold cur_dc. now rewrite CN.
Qed.

(* the pinset right after a successful commit *)
Lemma batch_mode_after_commit es : batch_mode es = true -> no_heads_failure es = true ->
  forall k, value (l_st (lrun (es ++ [LCommit POk]))) k = aget k (spec_map es).
Proof.
  intros B N k.
  assert (B' : batch_mode (es ++ [LCommit POk]) = true) by (unfold batch_mode in *; rewrite forallb_app; simpl; now rewrite B).
  assert (N' : no_heads_failure (es ++ [LCommit POk]) = true) by (unfold no_heads_failure in *; rewrite forallb_app; simpl; now rewrite N).
  destruct (batch_mode_agrees _ B' N') as [I A].
  assert (S : spec_map (es ++ [LCommit POk]) = spec_map es) by (unfold spec_map; rewrite fold_left_app; reflexivity).
  rewrite <- S, <- (A k). symmetry. apply value_eq_view_when_empty; auto.
  unfold lrun. rewrite fold_left_app. simpl. unfold cur_dc, batch_commit, publish. simpl. reflexivity.
Qed.

(* the known finding: a failure at the heads write after the delta has been merged *)
Definition republish_witness : list lev :=
  [LDirect (WPin 1 5) POk; LDirect (WPin 0 9) PFailHeads; LDirect (WPin 0 3) POk].
Lemma republish_loses_the_later_pin :
  outcomes_possible linit republish_witness = true /\
  value (l_st (lrun republish_witness)) 0 = Some 9 /\ aget 0 (spec_map republish_witness) = Some 3.
Proof. vm_compute. auto. Qed.

Lemma republish_stmt :
  direct_mode republish_witness = true /\ outcomes_possible linit republish_witness = true /\
  value (l_st (lrun republish_witness)) 0 <> aget 0 (spec_map republish_witness).
Proof. vm_compute. repeat split; auto. discriminate. Qed.
