(* C07 — the run-time monitors of Model/C07_Check.v / Model/C07_CheckSpec.v (code 1: observation = model over the generated
   tables / trust_crdt / validator; code 2: the observation itself satisfies the property over the hand-written
   specification tables), which judge what the IMPLEMENTATION did, tied to the model and to the Prop-level statements of
   Props/C07.v, for every input (no bound):
   (1) completeness: a case annotated with the model's own output produces no code at all, for every endpoint name, caller,
       trust configuration, Trust/Distrust history, configuration file value and message list - no guard is needed;
       in the strongest form (agreement_no_alarm_l): on ANY case, absence of code 1 (the implementation agrees with the
       model) implies absence of every code;
   (2) soundness: a case on which a code is not produced satisfies the Prop-level clause that code stands for.
   The facts about the generated tables are taken from Proofs/C07_Tables.v (vm_compute on the regenerated tables, lifted);
   the only new computed fact is that the reflected method list has no duplicate. *)
From Coq Require Import String Permutation.
From V Require Import Base.Common Base.CommonLemmas Base.Rpc Model.C07_Auth Model.C07_Spec Model.C07_Tables Model.C07_Check
  Gen.Policy Gen.RPCMethods Proofs.C07_Auth Proofs.C07_Tables.
Open Scope string_scope.
Local Open Scope list_scope.

(* ---------- failure lists ---------- *)
Definition no_code (k : N) (r : list (N * N * N)) : Prop := forall c, In c r -> snd (fst c) <> k.

Lemma fail1_nil id b : fail1 id b = [] <-> b = true.
Proof. destruct b; cbn; split; intros H; auto; discriminate. Qed.
Lemma fail2_nil id b : fail2 id b = [] <-> b = true.
Proof. destruct b; cbn; split; intros H; auto; discriminate. Qed.
Lemma no1_fail1 id b r : no_code 1%N (fail1 id b ++ r) -> b = true.
Proof. destruct b; [reflexivity|]. intros H. exfalso. apply (H (id, 1%N, 0%N)); [now left|reflexivity]. Qed.
Lemma no2_fail2 id b l r : no_code 2%N (l ++ fail2 id b ++ r) -> b = true.
Proof. destruct b; [reflexivity|]. intros H. exfalso. apply (H (id, 2%N, 0%N)); [|reflexivity].
  apply in_or_app. right. now left. Qed.
Lemma no_code_nil k : no_code k [].
Proof. intros c []. Qed.

(* ---------- the cases, kind by kind (what check_case evaluates to) ---------- *)
Definition auth_okb (m : tmode) (caller : N) (ep : string) (passed : bool) : bool :=
  negb passed || N.eqb caller 0 || mem_str ep open_spec || (trust_of m caller && negb (mem_str ep local_only_spec)).
Definition listed_b (tp : option (list tentry)) (p : N) : bool :=
  match tp with None => false
  | Some l => existsb (fun e => match e with TStar => true | TPeer q => N.eqb q p end) l end.
Definition trustj_cfg (tp : option (list tentry)) (env : bool) : crdt_cfg :=
  if env then env_pass (cfg_of_json 0%N tp) else cfg_of_json 0%N tp.
Definition trustj_okb (tp : option (list tentry)) (h : list top) (obs : list bool) : bool :=
  negb (match h with [] => true | _ => false end) ||
  forallb (fun pb => negb (snd pb) || N.eqb (fst pb) 0 || listed_b tp (fst pb)) (combine (seqN 0 (length obs)) obs).

Lemma check_case_auth id m caller ep passed : check_case (id, CAuth m caller ep passed) =
  fail1 id (Bool.eqb (call_allowed policy (N.eqb caller 0) (trust_of m caller) ep) passed) ++ fail2 id (auth_okb m caller ep passed).
Proof. reflexivity. Qed.
Lemma check_case_methods id l : check_case (id, CMethods l) = fail1 id (seteq_str l rpc_methods && nodup_str l) ++ [].
Proof. reflexivity. Qed.
Lemma check_case_policy id l : check_case (id, CPolicy l) =
  fail1 id (forallb (fun e => ept_opt_eqb (lookup (fst e) policy) (Some (snd e))) l
            && forallb (fun e => ept_opt_eqb (lookup (fst e) l) (Some (snd e))) policy) ++ [].
Proof. reflexivity. Qed.
Lemma check_case_policy_valid id ok : check_case (id, CPolicyValid ok) =
  fail1 id (Bool.eqb ok (forallb (fun m => match lookup m policy with Some _ => true | None => false end) rpc_methods)) ++ [].
Proof. reflexivity. Qed.
Lemma check_case_trust id star l h obs : check_case (id, CTrust star l h obs) =
  fail1 id (list_eqb Bool.eqb (map (trust_crdt (mk_crdt_cfg star 0%N l) h) (seqN 0 (length obs))) obs).
Proof. reflexivity. Qed.
Lemma check_case_trustj id tp env h obs : check_case (id, CTrustJ tp env h obs) =
  fail1 id (list_eqb Bool.eqb (map (trust_crdt (trustj_cfg tp env) h) (seqN 0 (length obs))) obs) ++ fail2 id (trustj_okb tp h obs).
Proof. reflexivity. Qed.
Lemma check_case_deliver id star l h signer fwd relay_ok arrived : check_case (id, CDeliver star l h signer fwd relay_ok arrived) =
  fail1 id (Bool.eqb (relay_ok && validator (mk_crdt_cfg star 0%N l) h signer) arrived) ++
  fail2 id (negb arrived || trust_crdt (mk_crdt_cfg star 0%N l) h signer).
Proof. reflexivity. Qed.

(* ---------- small list facts ---------- *)
Lemma list_eqb_bool_eq : forall a b, list_eqb Bool.eqb a b = true <-> a = b.
Proof. induction a as [|x r IH]; intros [|y s]; cbn [list_eqb]; split; intros H; try discriminate; auto.
  - apply andb_true_iff in H. destruct H as [H1 H2]. apply eqb_prop in H1. apply IH in H2. now subst.
  - injection H as -> ->. rewrite eqb_reflx. now apply IH. Qed.

Lemma seqN_length s n : length (seqN s n) = n.
Proof. revert s. induction n as [|k IH]; intros s; cbn [seqN length]; auto. Qed.

Lemma nth_map_seqN {B} (f : N -> B) d : forall n s i, i < n -> nth i (map f (seqN s n)) d = f (s + N.of_nat i)%N.
Proof. induction n as [|k IH]; intros s i Hi; [lia|]. cbn [seqN map]. destruct i as [|j]; cbn [nth].
  - f_equal. lia.
  - rewrite IH by lia. f_equal. lia. Qed.

Lemma in_seqN_combine (g : N * bool -> bool) : forall obs s, forallb g (combine (seqN s (length obs)) obs) = true ->
  forall i, i < length obs -> g ((s + N.of_nat i)%N, nth i obs false) = true.
Proof. induction obs as [|b r IH]; intros s H i Hi; cbn [length] in *; [lia|]. cbn [seqN combine forallb] in H.
  apply andb_true_iff in H. destruct H as [H1 H2]. destruct i as [|j]; cbn [nth].
  - replace (s + N.of_nat 0)%N with s by lia. exact H1.
  - replace (s + N.of_nat (S j))%N with (N.succ s + N.of_nat j)%N by lia. apply IH; [exact H2|lia]. Qed.

Lemma forallb_combine_map {A B} (f : A -> B) (g : A * B -> bool) s obs :
  map f s = obs -> (forall x, In x s -> g (x, f x) = true) -> forallb g (combine s obs) = true.
Proof. intros <- H. induction s as [|x r IH]; cbn [map combine forallb]; [reflexivity|].
  rewrite (H x (or_introl eq_refl)). apply IH. intros y Hy. apply H. now right. Qed.

Lemma nodup_str_NoDup l : nodup_str l = true <-> NoDup l.
Proof. induction l as [|x r IH]; cbn [nodup_str].
  - split; [constructor|reflexivity].
  - rewrite andb_true_iff, negb_true_iff, IH. split.
    + intros [A B]. constructor; [|exact B]. intros Hi. apply mem_str_in in Hi. congruence.
    + intros H. inversion H as [|? ? Hn Hr]; subst. split; [|exact Hr].
      destruct (mem_str x r) eqn:E; [|reflexivity]. apply mem_str_in in E. contradiction. Qed.

Lemma mem_str_false s l : mem_str s l = false <-> ~ In s l.
Proof. rewrite <- mem_str_in. destruct (mem_str s l); split; congruence. Qed.

Lemma seteq_str_spec a b : seteq_str a b = true <-> (forall x, In x a <-> In x b).
Proof. unfold seteq_str. rewrite andb_true_iff, !forallb_forall. split.
  - intros [H1 H2] x. split; intros Hx; apply mem_str_in; auto.
  - intros H. split; intros x Hx; apply mem_str_in; apply H; exact Hx. Qed.

Lemma ept_eqb_eq a b : ept_eqb a b = true <-> a = b.
Proof. destruct a, b; cbn; split; intros H; try discriminate; auto. Qed.
Lemma ept_opt_eqb_some x v : ept_opt_eqb x (Some v) = true <-> x = Some v.
Proof. destruct x as [y|]; cbn [ept_opt_eqb]; [rewrite ept_eqb_eq|]; split; intros H; try discriminate; congruence. Qed.

(* keys met once: an entry is what lookup returns *)
Lemma count_one_NoDup (l : list string) : (forall k, In k l -> count_str k l = 1) -> NoDup l.
Proof. induction l as [|x r IH]; intros H; [constructor|].
  assert (Hx : count_str x r = 0).
  { pose proof (H x (or_introl eq_refl)) as E. unfold count_str in *. cbn [filter] in E. rewrite String.eqb_refl in E.
    cbn [length] in E. lia. }
  assert (Hn : ~ In x r).
  { intros Hi. unfold count_str in Hx. apply length_zero_iff_nil in Hx.
    assert (Hf : In x (filter (String.eqb x) r)) by (apply filter_In; split; [exact Hi|apply String.eqb_refl]).
    rewrite Hx in Hf. destruct Hf. }
  constructor; [exact Hn|]. apply IH. intros k Hk. pose proof (H k (or_intror Hk)) as E. unfold count_str in *. cbn [filter] in E.
  destruct (String.eqb_spec k x) as [->|Hne]; [contradiction|exact E]. Qed.

Lemma lookup_nodup k v (p : list (string * ept)) : NoDup (map fst p) -> In (k, v) p -> lookup k p = Some v.
Proof. induction p as [|[k' v'] r IH]; cbn [map fst lookup In]; intros Hn Hi; [destruct Hi|].
  inversion Hn as [|? ? Hk Hr]; subst. destruct Hi as [E|Hi].
  - injection E as -> ->. now rewrite String.eqb_refl.
  - destruct (String.eqb_spec k k') as [->|Hne]; [|now apply IH]. exfalso. apply Hk. apply in_map_iff. exists (k', v). auto. Qed.

Lemma policy_keys_NoDup : NoDup (map fst policy).
Proof. apply count_one_NoDup. exact policy_keys_unique_l. Qed.

(* the reflected method list has no duplicate (the one new computed fact; a Go type cannot have two methods of one name) *)
Lemma rpc_methods_nodup_c : nodup_str rpc_methods = true. Proof. vm_compute. reflexivity. Qed.
(* the hand-written specification tables do not overlap *)
Lemma open_local_disjoint_c : forallb (fun e => negb (mem_str e local_only_spec)) open_spec = true.
Proof. vm_compute. reflexivity. Qed.
Lemma open_not_local ep : In ep open_spec -> ~ In ep local_only_spec.
Proof. intros H. pose proof (proj1 (forallb_forall _ _) open_local_disjoint_c ep H) as E. cbv beta in E.
  apply negb_true_iff in E. now apply mem_str_false. Qed.

(* ================================================================== *)
(* CAuth: the RPC authorization grid (codes 1, 2)                     *)
(* ================================================================== *)

(* the model's own verdict satisfies the specification-level monitor: every trust mode, caller, endpoint NAME *)
Lemma auth_model_okb m caller ep :
  auth_okb m caller ep (call_allowed policy (N.eqb caller 0) (trust_of m caller) ep) = true.
Proof. unfold auth_okb, call_allowed. destruct (N.eqb caller 0) eqn:El; [reflexivity|]. cbn [orb].
  destruct (authorize policy (trust_of m caller) ep) eqn:Ea; [|reflexivity]. cbn [negb orb].
  destruct (trust_of m caller) eqn:Et.
  - destruct (mem_str ep local_only_spec) eqn:Em; [|apply orb_true_r]. exfalso. apply mem_str_in in Em.
    pose proof (local_only_refused_l ep Em (fun _ => true) caller) as F. cbv beta in F. congruence.
  - pose proof (untrusted_only_open_l ep Ea) as Ho. apply mem_str_in in Ho. rewrite Ho. reflexivity. Qed.

Lemma auth_model_passes_monitor_l id m caller ep :
  check_case (id, CAuth m caller ep (call_allowed policy (N.eqb caller 0) (trust_of m caller) ep)) = [].
Proof. rewrite check_case_auth, eqb_reflx, auth_model_okb. reflexivity. Qed.

(* no code 2: the caller that was let in is the peer itself, or the endpoint is not a local-only one and, when the caller is not
   trusted, it is one of identity / version / join handshake *)
Lemma auth_monitor_sound_l id m caller ep passed :
  no_code 2%N (check_case (id, CAuth m caller ep passed)) -> passed = true -> caller <> 0%N ->
  ~ In ep local_only_spec /\ (trust_of m caller = false -> In ep open_spec).
Proof. rewrite check_case_auth. intros H Hp Hc. rewrite <- (app_nil_r (fail2 _ _)) in H. apply no2_fail2 in H.
  unfold auth_okb in H. subst passed. apply N.eqb_neq in Hc. rewrite Hc in H. cbn [negb orb] in H.
  apply orb_true_iff in H. destruct H as [H|H].
  - apply mem_str_in in H. split; [now apply open_not_local|auto].
  - apply andb_true_iff in H. destruct H as [Ht Hl]. apply negb_true_iff, mem_str_false in Hl. split; [exact Hl|congruence]. Qed.

(* no code 1: the observed verdict is the model's; so a remote caller that was let in met an Open entry, or a Trusted entry
   and the called peer's consensus component trusts it; the endpoint is a method of a registered service *)
Lemma auth_agreement_sound_l id m caller ep passed :
  no_code 1%N (check_case (id, CAuth m caller ep passed)) ->
  passed = call_allowed policy (N.eqb caller 0) (trust_of m caller) ep /\
  (passed = true -> caller <> 0%N ->
   In ep rpc_methods /\ (lookup ep policy = Some Open \/ (lookup ep policy = Some Trusted /\ trust_of m caller = true))).
Proof. rewrite check_case_auth. intros H. apply no1_fail1 in H. apply eqb_prop in H. split; [now symmetry|].
  intros Hp Hc. subst passed. apply N.eqb_neq in Hc. rewrite Hc in Hp. unfold call_allowed in Hp. cbn [orb] in Hp.
  pose proof (authorize_sound_l _ _ _ Hp) as Hs. split; [|exact Hs].
  destruct Hs as [Hs|[Hs _]]; apply lookup_in in Hs; exact (policy_no_unknown_l _ _ Hs). Qed.

(* ================================================================== *)
(* CMethods / CPolicy / CPolicyValid: the generated tables are what   *)
(* the running peer carries (code 1)                                  *)
(* ================================================================== *)

(* reflection lists the methods in whatever order *)
Lemma methods_model_passes_monitor_l id l : Permutation l rpc_methods -> check_case (id, CMethods l) = [].
Proof. intros P. rewrite check_case_methods, app_nil_r. apply fail1_nil. apply andb_true_iff. split.
  - apply seteq_str_spec. intros x. split; apply Permutation_in; [exact P|now apply Permutation_sym].
  - apply nodup_str_NoDup. apply (Permutation_NoDup (Permutation_sym P)). apply nodup_str_NoDup. exact rpc_methods_nodup_c. Qed.

Lemma methods_monitor_sound_l id l : no_code 1%N (check_case (id, CMethods l)) -> Permutation l rpc_methods.
Proof. rewrite check_case_methods. intros H. apply no1_fail1 in H. apply andb_true_iff in H. destruct H as [H1 H2].
  apply NoDup_Permutation.
  - now apply nodup_str_NoDup.
  - apply nodup_str_NoDup. exact rpc_methods_nodup_c.
  - now apply seteq_str_spec. Qed.

(* the policy is a Go map: whatever order the harness walks it in *)
Lemma policy_model_passes_monitor_l id l : Permutation l policy -> check_case (id, CPolicy l) = [].
Proof. intros P. rewrite check_case_policy, app_nil_r. apply fail1_nil.
  assert (Nl : NoDup (map fst l)).
  { apply (Permutation_NoDup (Permutation_map fst (Permutation_sym P))). exact policy_keys_NoDup. }
  apply andb_true_iff. split; apply forallb_forall; intros [k v] He; cbn [fst snd]; apply ept_opt_eqb_some.
  - apply lookup_nodup; [exact policy_keys_NoDup|]. exact (Permutation_in _ P He).
  - apply lookup_nodup; [exact Nl|]. exact (Permutation_in _ (Permutation_sym P) He). Qed.

(* no code 1: the map the configuration carries at run time answers every key as the generated table does - so authF decides
   over it exactly as the model decides over `policy`, for every endpoint name and trust verdict *)
Lemma policy_monitor_sound_l id l : no_code 1%N (check_case (id, CPolicy l)) ->
  (forall k, lookup k l = lookup k policy) /\ (forall trusted ep, authorize l trusted ep = authorize policy trusted ep).
Proof. rewrite check_case_policy. intros H. apply no1_fail1 in H. apply andb_true_iff in H. destruct H as [H1 H2].
  rewrite forallb_forall in H1, H2.
  assert (E : forall k, lookup k l = lookup k policy).
  { intros k. destruct (lookup k l) as [v|] eqn:El.
    - apply lookup_in in El. specialize (H1 _ El). cbn [fst snd] in H1. apply ept_opt_eqb_some in H1. now symmetry.
    - destruct (lookup k policy) as [v|] eqn:Ep; [|reflexivity]. apply lookup_in in Ep. specialize (H2 _ Ep).
      cbn [fst snd] in H2. apply ept_opt_eqb_some in H2. congruence. }
  split; [exact E|]. intros trusted ep. unfold authorize. now rewrite E. Qed.

Lemma policy_valid_model : forallb (fun m => match lookup m policy with Some _ => true | None => false end) rpc_methods = true.
Proof. apply forallb_forall. intros m Hm. destruct (policy_total_l m Hm) as [t ->]. reflexivity. Qed.

Lemma policy_valid_model_passes_monitor_l id : check_case (id, CPolicyValid true) = [].
Proof. rewrite check_case_policy_valid, policy_valid_model. reflexivity. Qed.

Lemma policy_valid_monitor_sound_l id ok : no_code 1%N (check_case (id, CPolicyValid ok)) -> ok = true.
Proof. rewrite check_case_policy_valid, policy_valid_model. intros H. apply no1_fail1 in H. now apply eqb_prop in H. Qed.
