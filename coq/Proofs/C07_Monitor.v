(* C07 — the run-time monitors of Model/C07_Check.v / Model/C07_CheckSpec.v (code 1: observation = model over the generated
   tables / trust_crdt / validator; code 2: the observation itself satisfies the property over the hand-written
   specification tables), which judge what the IMPLEMENTATION did, tied to the model and to the Prop-level statements of
   Props/C07.v, for every input (no bound):
   (1) completeness: a case annotated with the model's own output produces no code at all, for every endpoint name, caller,
       trust configuration, Trust/Distrust history, configuration file value and message list - no guard is needed;
       in the strongest form (agreement_no_alarm_l): on ANY case, absence of code 1 (the implementation agrees with the
       model) implies absence of every code;
   (2) soundness: a case on which a code is not produced satisfies the Prop-level clause that code stands for.
   The facts about the generated tables are taken from Proofs/C07_Tables.v (vm_compute on the regenerated tables, lifted);
   the only new computed fact is that the reflected method list has no duplicate. *)
From Coq Require Import String Permutation.
From V Require Import Base.Common Base.CommonLemmas Base.Rpc Model.C07_Auth Model.C07_Spec Model.C07_Tables Model.C07_Check
  Gen.Policy Gen.RPCMethods Proofs.C07_Auth Proofs.C07_Tables.
Open Scope string_scope.
Local Open Scope list_scope.

(* ---------- failure lists ---------- *)
Definition no_code (k : N) (r : list (N * N * N)) : Prop := forall c, In c r -> snd (fst c) <> k.

Lemma fail1_nil id b : fail1 id b = [] <-> b = true.
Proof. destruct b; cbn; split; intros H; auto; discriminate. Qed.
Lemma fail2_nil id b : fail2 id b = [] <-> b = true.
Proof. destruct b; cbn; split; intros H; auto; discriminate. Qed.
Lemma no1_fail1 id b r : no_code 1%N (fail1 id b ++ r) -> b = true.
Proof. destruct b; [reflexivity|]. intros H. exfalso. apply (H (id, 1%N, 0%N)); [now left|reflexivity]. Qed.
Lemma no2_fail2 id b l r : no_code 2%N (l ++ fail2 id b ++ r) -> b = true.
Proof. destruct b; [reflexivity|]. intros H. exfalso. apply (H (id, 2%N, 0%N)); [|reflexivity].
  apply in_or_app. right. now left. Qed.
Lemma no_code_nil k : no_code k [].
Proof. intros c []. Qed.

(* ---------- the cases, kind by kind (what check_case evaluates to) ---------- *)
Definition auth_okb (m : tmode) (caller : N) (ep : string) (passed : bool) : bool :=
  negb passed || N.eqb caller 0 || mem_str ep open_spec || (trust_of m caller && negb (mem_str ep local_only_spec)).
Definition listed_b (tp : option (list tentry)) (p : N) : bool :=
  match tp with None => false
  | Some l => existsb (fun e => match e with TStar => true | TPeer q => N.eqb q p end) l end.
Definition trustj_cfg (tp : option (list tentry)) (env : bool) : crdt_cfg :=
  if env then env_pass (cfg_of_json 0%N tp) else cfg_of_json 0%N tp.
Definition trustj_okb (tp : option (list tentry)) (h : list top) (obs : list bool) : bool :=
  negb (match h with [] => true | _ => false end) ||
  forallb (fun pb => negb (snd pb) || N.eqb (fst pb) 0 || listed_b tp (fst pb)) (combine (seqN 0 (length obs)) obs).

Lemma check_case_auth id m caller ep passed : check_case (id, CAuth m caller ep passed) =
  fail1 id (Bool.eqb (call_allowed policy (N.eqb caller 0) (trust_of m caller) ep) passed) ++ fail2 id (auth_okb m caller ep passed).
Proof. reflexivity. Qed.
Lemma check_case_methods id l : check_case (id, CMethods l) = fail1 id (seteq_str l rpc_methods && nodup_str l) ++ [].
Proof. reflexivity. Qed.
Lemma check_case_policy id l : check_case (id, CPolicy l) =
  fail1 id (forallb (fun e => ept_opt_eqb (lookup (fst e) policy) (Some (snd e))) l
            && forallb (fun e => ept_opt_eqb (lookup (fst e) l) (Some (snd e))) policy) ++ [].
Proof. reflexivity. Qed.
Lemma check_case_policy_valid id ok : check_case (id, CPolicyValid ok) =
  fail1 id (Bool.eqb ok (forallb (fun m => match lookup m policy with Some _ => true | None => false end) rpc_methods)) ++ [].
Proof. reflexivity. Qed.
Lemma check_case_trust id star l h obs : check_case (id, CTrust star l h obs) =
  fail1 id (list_eqb Bool.eqb (map (trust_crdt (mk_crdt_cfg star 0%N l) h) (seqN 0 (length obs))) obs).
Proof. reflexivity. Qed.
Lemma check_case_trustj id tp env h obs : check_case (id, CTrustJ tp env h obs) =
  fail1 id (list_eqb Bool.eqb (map (trust_crdt (trustj_cfg tp env) h) (seqN 0 (length obs))) obs) ++ fail2 id (trustj_okb tp h obs).
Proof. reflexivity. Qed.
Lemma check_case_deliver id star l h signer fwd relay_ok arrived : check_case (id, CDeliver star l h signer fwd relay_ok arrived) =
  fail1 id (Bool.eqb (relay_ok && validator (mk_crdt_cfg star 0%N l) h signer) arrived) ++
  fail2 id (negb arrived || trust_crdt (mk_crdt_cfg star 0%N l) h signer).
Proof. reflexivity. Qed.

(* ---------- small list facts ---------- *)
Lemma list_eqb_bool_eq : forall a b, list_eqb Bool.eqb a b = true <-> a = b.
Proof. induction a as [|x r IH]; intros [|y s]; cbn [list_eqb]; split; intros H; try discriminate; auto.
  - apply andb_true_iff in H. destruct H as [H1 H2]. apply eqb_prop in H1. apply IH in H2. now subst.
  - injection H as -> ->. rewrite eqb_reflx. now apply IH. Qed.

Lemma seqN_length s n : length (seqN s n) = n.
Proof. revert s. induction n as [|k IH]; intros s; cbn [seqN length]; auto. Qed.

Lemma nth_map_seqN {B} (f : N -> B) d : forall n s i, i < n -> nth i (map f (seqN s n)) d = f (s + N.of_nat i)%N.
Proof. induction n as [|k IH]; intros s i Hi; [lia|]. cbn [seqN map]. destruct i as [|j]; cbn [nth].
  - f_equal. lia.
  - rewrite IH by lia. f_equal. lia. Qed.

Lemma in_seqN_combine (g : N * bool -> bool) : forall obs s, forallb g (combine (seqN s (length obs)) obs) = true ->
  forall i, i < length obs -> g ((s + N.of_nat i)%N, nth i obs false) = true.
Proof. induction obs as [|b r IH]; intros s H i Hi; cbn [length] in *; [lia|]. cbn [seqN combine forallb] in H.
  apply andb_true_iff in H. destruct H as [H1 H2]. destruct i as [|j]; cbn [nth].
  - replace (s + N.of_nat 0)%N with s by lia. exact H1.
  - replace (s + N.of_nat (S j))%N with (N.succ s + N.of_nat j)%N by lia. apply IH; [exact H2|lia]. Qed.

Lemma forallb_combine_map {A B} (f : A -> B) (g : A * B -> bool) s obs :
  map f s = obs -> (forall x, In x s -> g (x, f x) = true) -> forallb g (combine s obs) = true.
Proof. intros <- H. induction s as [|x r IH]; cbn [map combine forallb]; [reflexivity|].
  rewrite (H x (or_introl eq_refl)). apply IH. intros y Hy. apply H. now right. Qed.

Lemma nodup_str_NoDup l : nodup_str l = true <-> NoDup l.
Proof. induction l as [|x r IH]; cbn [nodup_str].
  - split; [constructor|reflexivity].
  - rewrite andb_true_iff, negb_true_iff, IH. split.
    + intros [A B]. constructor; [|exact B]. intros Hi. apply mem_str_in in Hi. congruence.
    + intros H. inversion H as [|? ? Hn Hr]; subst. split; [|exact Hr].
      destruct (mem_str x r) eqn:E; [|reflexivity]. apply mem_str_in in E. contradiction. Qed.

Lemma mem_str_false s l : mem_str s l = false <-> ~ In s l.
Proof. rewrite <- mem_str_in. destruct (mem_str s l); split; congruence. Qed.

Lemma seteq_str_spec a b : seteq_str a b = true <-> (forall x, In x a <-> In x b).
Proof. unfold seteq_str. rewrite andb_true_iff, !forallb_forall. split.
  - intros [H1 H2] x. split; intros Hx; apply mem_str_in; auto.
  - intros H. split; intros x Hx; apply mem_str_in; apply H; exact Hx. Qed.

Lemma ept_eqb_eq a b : ept_eqb a b = true <-> a = b.
Proof. destruct a, b; cbn; split; intros H; try discriminate; auto. Qed.
Lemma ept_opt_eqb_some x v : ept_opt_eqb x (Some v) = true <-> x = Some v.
Proof. destruct x as [y|]; cbn [ept_opt_eqb]; [rewrite ept_eqb_eq|]; split; intros H; try discriminate; congruence. Qed.

(* keys met once: an entry is what lookup returns *)
Lemma count_one_NoDup (l : list string) : (forall k, In k l -> count_str k l = 1) -> NoDup l.
Proof. induction l as [|x r IH]; intros H; [constructor|].
  assert (Hx : count_str x r = 0).
  { pose proof (H x (or_introl eq_refl)) as E. unfold count_str in *. cbn [filter] in E. rewrite String.eqb_refl in E.
    cbn [length] in E. lia. }
  assert (Hn : ~ In x r).
  { intros Hi. unfold count_str in Hx. apply length_zero_iff_nil in Hx.
    assert (Hf : In x (filter (String.eqb x) r)) by (apply filter_In; split; [exact Hi|apply String.eqb_refl]).
    rewrite Hx in Hf. destruct Hf. }
  constructor; [exact Hn|]. apply IH. intros k Hk. pose proof (H k (or_intror Hk)) as E. unfold count_str in *. cbn [filter] in E.
  destruct (String.eqb_spec k x) as [->|Hne]; [contradiction|exact E]. Qed.

Lemma lookup_nodup k v (p : list (string * ept)) : NoDup (map fst p) -> In (k, v) p -> lookup k p = Some v.
Proof. induction p as [|[k' v'] r IH]; cbn [map fst lookup In]; intros Hn Hi; [destruct Hi|].
  inversion Hn as [|? ? Hk Hr]; subst. destruct Hi as [E|Hi].
  - injection E as -> ->. now rewrite String.eqb_refl.
  - destruct (String.eqb_spec k k') as [->|Hne]; [|now apply IH]. exfalso. apply Hk. apply in_map_iff. exists (k', v). auto. Qed.

Lemma policy_keys_NoDup : NoDup (map fst policy).
Proof. apply count_one_NoDup. exact policy_keys_unique_l. Qed.

(* the reflected method list has no duplicate (the one new computed fact; a Go type cannot have two methods of one name) *)
Lemma rpc_methods_nodup_c : nodup_str rpc_methods = true. Proof. vm_compute. reflexivity. Qed.
(* the hand-written specification tables do not overlap *)
Lemma open_local_disjoint_c : forallb (fun e => negb (mem_str e local_only_spec)) open_spec = true.
Proof. vm_compute. reflexivity. Qed.
Lemma open_not_local ep : In ep open_spec -> ~ In ep local_only_spec.
Proof. intros H. pose proof (proj1 (forallb_forall _ _) open_local_disjoint_c ep H) as E. cbv beta in E.
  apply negb_true_iff in E. now apply mem_str_false. Qed.

(* ================================================================== *)
(* CAuth: the RPC authorization grid (codes 1, 2)                     *)
(* ================================================================== *)

(* the model's own verdict satisfies the specification-level monitor: every trust mode, caller, endpoint NAME *)
Lemma auth_model_okb m caller ep :
  auth_okb m caller ep (call_allowed policy (N.eqb caller 0) (trust_of m caller) ep) = true.
Proof. unfold auth_okb, call_allowed. destruct (N.eqb caller 0) eqn:El; [reflexivity|]. cbn [orb].
  destruct (authorize policy (trust_of m caller) ep) eqn:Ea; [|reflexivity]. cbn [negb orb].
  destruct (trust_of m caller) eqn:Et.
  - destruct (mem_str ep local_only_spec) eqn:Em; [|apply orb_true_r]. exfalso. apply mem_str_in in Em.
    pose proof (local_only_refused_l ep Em (fun _ => true) caller) as F. cbv beta in F. congruence.
  - pose proof (untrusted_only_open_l ep Ea) as Ho. apply mem_str_in in Ho. rewrite Ho. reflexivity. Qed.

Lemma auth_model_passes_monitor_l id m caller ep :
  check_case (id, CAuth m caller ep (call_allowed policy (N.eqb caller 0) (trust_of m caller) ep)) = [].
Proof. rewrite check_case_auth, eqb_reflx, auth_model_okb. reflexivity. Qed.

(* no code 2: the caller that was let in is the peer itself, or the endpoint is not a local-only one and, when the caller is not
   trusted, it is one of identity / version / join handshake *)
Lemma auth_monitor_sound_l id m caller ep passed :
  no_code 2%N (check_case (id, CAuth m caller ep passed)) -> passed = true -> caller <> 0%N ->
  ~ In ep local_only_spec /\ (trust_of m caller = false -> In ep open_spec).
Proof. rewrite check_case_auth. intros H Hp Hc. rewrite <- (app_nil_r (fail2 _ _)) in H. apply no2_fail2 in H.
  unfold auth_okb in H. subst passed. apply N.eqb_neq in Hc. rewrite Hc in H. cbn [negb orb] in H.
  apply orb_true_iff in H. destruct H as [H|H].
  - apply mem_str_in in H. split; [now apply open_not_local|auto].
  - apply andb_true_iff in H. destruct H as [Ht Hl]. apply negb_true_iff, mem_str_false in Hl. split; [exact Hl|congruence]. Qed.

(* no code 1: the observed verdict is the model's; so a remote caller that was let in met an Open entry, or a Trusted entry
   and the called peer's consensus component trusts it; the endpoint is a method of a registered service *)
Lemma auth_agreement_sound_l id m caller ep passed :
  no_code 1%N (check_case (id, CAuth m caller ep passed)) ->
  passed = call_allowed policy (N.eqb caller 0) (trust_of m caller) ep /\
  (passed = true -> caller <> 0%N ->
   In ep rpc_methods /\ (lookup ep policy = Some Open \/ (lookup ep policy = Some Trusted /\ trust_of m caller = true))).
Proof. rewrite check_case_auth. intros H. apply no1_fail1 in H. apply eqb_prop in H. split; [now symmetry|].
  intros Hp Hc. subst passed. apply N.eqb_neq in Hc. rewrite Hc in Hp. unfold call_allowed in Hp. cbn [orb] in Hp.
  pose proof (authorize_sound_l _ _ _ Hp) as Hs. split; [|exact Hs].
  destruct Hs as [Hs|[Hs _]]; apply lookup_in in Hs; exact (policy_no_unknown_l _ _ Hs). Qed.

(* ================================================================== *)
(* CMethods / CPolicy / CPolicyValid: the generated tables are what   *)
(* the running peer carries (code 1)                                  *)
(* ================================================================== *)

(* reflection lists the methods in whatever order *)
Lemma methods_model_passes_monitor_l id l : Permutation l rpc_methods -> check_case (id, CMethods l) = [].
Proof. intros P. rewrite check_case_methods, app_nil_r. apply fail1_nil. apply andb_true_iff. split.
  - apply seteq_str_spec. intros x. split; apply Permutation_in; [exact P|now apply Permutation_sym].
  - apply nodup_str_NoDup. apply (Permutation_NoDup (Permutation_sym P)). apply nodup_str_NoDup. exact rpc_methods_nodup_c. Qed.

Lemma methods_monitor_sound_l id l : no_code 1%N (check_case (id, CMethods l)) -> Permutation l rpc_methods.
Proof. rewrite check_case_methods. intros H. apply no1_fail1 in H. apply andb_true_iff in H. destruct H as [H1 H2].
  apply NoDup_Permutation.
  - now apply nodup_str_NoDup.
  - apply nodup_str_NoDup. exact rpc_methods_nodup_c.
  - now apply seteq_str_spec. Qed.

(* the policy is a Go map: whatever order the harness walks it in *)
Lemma policy_model_passes_monitor_l id l : Permutation l policy -> check_case (id, CPolicy l) = [].
Proof. intros P. rewrite check_case_policy, app_nil_r. apply fail1_nil.
  assert (Nl : NoDup (map fst l)).
  { apply (Permutation_NoDup (Permutation_map fst (Permutation_sym P))). exact policy_keys_NoDup. }
  apply andb_true_iff. split; apply forallb_forall; intros [k v] He; cbn [fst snd]; apply ept_opt_eqb_some.
  - apply lookup_nodup; [exact policy_keys_NoDup|]. exact (Permutation_in _ P He).
  - apply lookup_nodup; [exact Nl|]. exact (Permutation_in _ (Permutation_sym P) He). Qed.

(* no code 1: the map the configuration carries at run time answers every key as the generated table does - so authF decides
   over it exactly as the model decides over `policy`, for every endpoint name and trust verdict *)
Lemma policy_monitor_sound_l id l : no_code 1%N (check_case (id, CPolicy l)) ->
  (forall k, lookup k l = lookup k policy) /\ (forall trusted ep, authorize l trusted ep = authorize policy trusted ep).
Proof. rewrite check_case_policy. intros H. apply no1_fail1 in H. apply andb_true_iff in H. destruct H as [H1 H2].
  rewrite forallb_forall in H1, H2.
  assert (E : forall k, lookup k l = lookup k policy).
  { intros k. destruct (lookup k l) as [v|] eqn:El.
    - apply lookup_in in El. specialize (H1 _ El). cbn [fst snd] in H1. apply ept_opt_eqb_some in H1. now symmetry.
    - destruct (lookup k policy) as [v|] eqn:Ep; [|reflexivity]. apply lookup_in in Ep. specialize (H2 _ Ep).
      cbn [fst snd] in H2. apply ept_opt_eqb_some in H2. congruence. }
  split; [exact E|]. intros trusted ep. unfold authorize. now rewrite E. Qed.

Lemma policy_valid_model : forallb (fun m => match lookup m policy with Some _ => true | None => false end) rpc_methods = true.
Proof. apply forallb_forall. intros m Hm. destruct (policy_total_l m Hm) as [t ->]. reflexivity. Qed.

Lemma policy_valid_model_passes_monitor_l id : check_case (id, CPolicyValid true) = [].
Proof. rewrite check_case_policy_valid, policy_valid_model. reflexivity. Qed.

Lemma policy_valid_monitor_sound_l id ok : no_code 1%N (check_case (id, CPolicyValid ok)) -> ok = true.
Proof. rewrite check_case_policy_valid, policy_valid_model. intros H. apply no1_fail1 in H. now apply eqb_prop in H. Qed.

(* ================================================================== *)
(* CTrust: IsTrustedPeer(0..n-1) after a Trust/Distrust history       *)
(* (code 1)                                                           *)
(* ================================================================== *)
Definition trust_model_obs (cfg : crdt_cfg) (h : list top) (n : nat) : list bool := map (trust_crdt cfg h) (seqN 0 n).

Lemma trust_model_obs_length cfg h n : length (trust_model_obs cfg h n) = n.
Proof. unfold trust_model_obs. now rewrite map_length, seqN_length. Qed.

Lemma trust_model_obs_fix cfg h n :
  map (trust_crdt cfg h) (seqN 0 (length (trust_model_obs cfg h n))) = trust_model_obs cfg h n.
Proof. rewrite trust_model_obs_length. reflexivity. Qed.

Lemma no1_fail1_only id b : no_code 1%N (fail1 id b) -> b = true.
Proof. intros H. rewrite <- (app_nil_r (fail1 id b)) in H. now apply no1_fail1 in H. Qed.

Lemma trust_obs_nth cfg h obs : list_eqb Bool.eqb (map (trust_crdt cfg h) (seqN 0 (length obs))) obs = true ->
  forall i, i < length obs -> nth i obs false = trust_crdt cfg h (N.of_nat i).
Proof. intros E i Hi. apply list_eqb_bool_eq in E.
  pose proof (nth_map_seqN (trust_crdt cfg h) false (length obs) 0%N i Hi) as H. rewrite E in H.
  change (0 + N.of_nat i)%N with (N.of_nat i) in H. exact H. Qed.

(* every flag, configured list, history, number of peers asked about *)
Lemma trust_model_passes_monitor_l id star l h n :
  check_case (id, CTrust star l h (trust_model_obs (mk_crdt_cfg star 0%N l) h n)) = [].
Proof. rewrite check_case_trust, trust_model_obs_fix. apply fail1_nil. now apply list_eqb_bool_eq. Qed.

(* no code 1: every answer of the implementation is the one the configuration and the history call for *)
Lemma trust_monitor_sound_l id star l h obs : no_code 1%N (check_case (id, CTrust star l h obs)) ->
  forall i, i < length obs -> let p := N.of_nat i in
    nth i obs false = trust_crdt (mk_crdt_cfg star 0%N l) h p /\
    (nth i obs false = true <-> star = true \/ p = 0%N \/ last_op p h = Some true \/ (last_op p h = None /\ In p l)).
Proof. rewrite check_case_trust. intros H i Hi p. apply no1_fail1_only in H.
  pose proof (trust_obs_nth _ _ _ H i Hi) as E. fold p in E. split; [exact E|]. rewrite E.
  exact (trust_follows_history_l (mk_crdt_cfg star 0%N l) h p). Qed.

(* ================================================================== *)
(* CTrustJ: the same, the configuration as written in the file        *)
(* (codes 1, 2)                                                       *)
(* ================================================================== *)
Lemma listed_b_spec tp p : listed_b tp p = true <-> listed_json tp p.
Proof. unfold listed_json. destruct tp as [l|]; cbn [listed_b].
  - rewrite existsb_exists. split.
    + intros [e [He Hb]]. exists l. split; [reflexivity|]. destruct e as [|q]; [now left|]. apply N.eqb_eq in Hb. subst q. now right.
    + intros [l' [E [H|H]]]; injection E as <-; [exists TStar|exists (TPeer p)]; split; auto. apply N.eqb_refl.
  - split; [discriminate|]. intros [l [E _]]. discriminate. Qed.

Lemma trustj_trust tp env h p : trust_crdt (trustj_cfg tp env) h p = trust_crdt (cfg_of_json 0%N tp) h p.
Proof. unfold trustj_cfg. destruct env; [apply env_pass_same_trust|reflexivity]. Qed.

(* an answer list equal to the model's satisfies the specification-level monitor *)
Lemma trustj_okb_agree tp env h obs :
  map (trust_crdt (trustj_cfg tp env) h) (seqN 0 (length obs)) = obs -> trustj_okb tp h obs = true.
Proof. intros E. unfold trustj_okb. destruct h as [|o r]; [|reflexivity]. cbn [negb orb].
  apply (forallb_combine_map (trust_crdt (trustj_cfg tp env) []) _ _ _ E).
  intros p _. cbn [fst snd]. destruct (trust_crdt (trustj_cfg tp env) [] p) eqn:Et; [|reflexivity]. cbn [negb orb].
  rewrite trustj_trust in Et. apply trust_json_l in Et. destruct Et as [->|Et]; [reflexivity|].
  apply listed_b_spec in Et. rewrite Et. apply orb_true_r. Qed.

(* every trusted_peers value (absent, null, any list, "*" anywhere), with or without the environment pass, every history *)
Lemma trustj_model_passes_monitor_l id tp env h n :
  check_case (id, CTrustJ tp env h (trust_model_obs (trustj_cfg tp env) h n)) = [].
Proof. rewrite check_case_trustj, trust_model_obs_fix.
  rewrite (trustj_okb_agree tp env h _ (trust_model_obs_fix _ h n)).
  replace (list_eqb Bool.eqb _ _) with true; [reflexivity|]. symmetry. now apply list_eqb_bool_eq. Qed.

(* no code 2: right after loading, a peer other than the component itself is reported trusted only if it, or "*", is written in
   the file *)
Lemma trustj_monitor_sound_l id tp env h obs : no_code 2%N (check_case (id, CTrustJ tp env h obs)) -> h = [] ->
  forall i, i < length obs -> nth i obs false = true -> i = 0 \/ listed_json tp (N.of_nat i).
Proof. rewrite check_case_trustj. intros H Hh i Hi Ht. rewrite <- (app_nil_r (fail2 _ _)) in H. apply no2_fail2 in H.
  unfold trustj_okb in H. subst h. cbn [negb orb] in H.
  pose proof (in_seqN_combine _ obs 0%N H i Hi) as G. cbv beta in G. cbn [fst snd] in G.
  change (0 + N.of_nat i)%N with (N.of_nat i) in G. rewrite Ht in G. cbn [negb orb] in G.
  apply orb_true_iff in G. destruct G as [G|G]; [left; apply N.eqb_eq in G; lia|right; now apply listed_b_spec]. Qed.

Lemma cfg_of_json_self me tp : self (cfg_of_json me tp) = me.
Proof. unfold cfg_of_json. destruct tp as [l|]; [|reflexivity]. destruct (load_trusted l []); reflexivity. Qed.

Lemma cfg_of_json_star me tp : trust_all (cfg_of_json me tp) = true <-> exists l, tp = Some l /\ In TStar l.
Proof. unfold cfg_of_json. destruct tp as [l|].
  - destruct (in_star_dec l) as [Hs|Hs].
    + rewrite (proj1 (load_trusted_spec l []) Hs). cbn [trust_all]. split; [intros _; eauto|reflexivity].
    + rewrite (proj2 (load_trusted_spec l []) Hs). cbn [trust_all]. split; [discriminate|].
      intros [l' [E H]]. injection E as <-. contradiction.
  - cbn [trust_all]. split; [discriminate|]. intros [l [E _]]. discriminate. Qed.

Lemma cfg_of_json_configured me tp p :
  In p (configured (cfg_of_json me tp)) <-> exists l, tp = Some l /\ ~ In TStar l /\ In (TPeer p) l.
Proof. unfold cfg_of_json. destruct tp as [l|].
  - destruct (in_star_dec l) as [Hs|Hs].
    + rewrite (proj1 (load_trusted_spec l []) Hs). cbn [configured]. split; [intros []|].
      intros [l' [E [H _]]]. injection E as <-. contradiction.
    + rewrite (proj2 (load_trusted_spec l []) Hs). cbn [configured app]. rewrite in_peers_of. split.
      * intros H. exists l. auto.
      * intros [l' [E [_ H]]]. injection E as <-. exact H.
  - cbn [configured]. split; [intros []|]. intros [l [E _]]. discriminate. Qed.

(* no code 1: every answer is the model's on the loaded configuration (the environment pass changes nothing), i.e. the component
   itself, "*" written, a later Trust, or written in the file and never touched since *)
Lemma trustj_agreement_sound_l id tp env h obs : no_code 1%N (check_case (id, CTrustJ tp env h obs)) ->
  forall i, i < length obs -> let p := N.of_nat i in
    nth i obs false = trust_crdt (cfg_of_json 0%N tp) h p /\
    (nth i obs false = true <->
     p = 0%N \/ (exists l, tp = Some l /\ In TStar l) \/ last_op p h = Some true \/
     (last_op p h = None /\ exists l, tp = Some l /\ In (TPeer p) l)).
Proof. rewrite check_case_trustj. intros H i Hi p. apply no1_fail1 in H.
  pose proof (trust_obs_nth _ _ _ H i Hi) as E. fold p in E. rewrite trustj_trust in E. split; [exact E|]. rewrite E.
  rewrite trust_follows_history_l, cfg_of_json_self, cfg_of_json_star, cfg_of_json_configured. split.
  - intros [A|[A|[A|[A [l [B [_ C]]]]]]]; [right; left; exact A|left; exact A|right; right; left; exact A|].
    right; right; right. split; [exact A|]. exists l. auto.
  - intros [A|[A|[A|[A [l [B C]]]]]]; [right; left; exact A|left; exact A|right; right; left; exact A|].
    destruct (in_star_dec l) as [Hs|Hs]; [left; exists l; auto|]. right; right; right. split; [exact A|]. exists l. auto. Qed.

(* ================================================================== *)
(* CDeliver: a signed update handed to peer 0 (codes 1, 2)            *)
(* ================================================================== *)
Lemma deliver_model_passes_monitor_l id star l h signer fwd relay_ok :
  check_case (id, CDeliver star l h signer fwd relay_ok (relay_ok && validator (mk_crdt_cfg star 0%N l) h signer)) = [].
Proof. rewrite check_case_deliver, eqb_reflx. unfold validator.
  destruct relay_ok, (trust_crdt (mk_crdt_cfg star 0%N l) h signer); reflexivity. Qed.

(* no code 2: an update signed by a peer the replica does not trust did not reach its state, whoever handed it over *)
Lemma deliver_monitor_sound_l id star l h signer fwd relay_ok arrived :
  no_code 2%N (check_case (id, CDeliver star l h signer fwd relay_ok arrived)) ->
  trust_crdt (mk_crdt_cfg star 0%N l) h signer = false -> arrived = false.
Proof. rewrite check_case_deliver. intros H Ht. rewrite <- (app_nil_r (fail2 _ _)) in H. apply no2_fail2 in H.
  rewrite Ht, orb_false_r in H. now apply negb_true_iff in H. Qed.

(* no code 1: it arrived iff the relay passed it on and the signer is trusted - never a function of the forwarder *)
Lemma deliver_agreement_sound_l id star l h signer fwd relay_ok arrived :
  no_code 1%N (check_case (id, CDeliver star l h signer fwd relay_ok arrived)) ->
  arrived = relay_ok && trust_crdt (mk_crdt_cfg star 0%N l) h signer.
Proof. rewrite check_case_deliver. intros H. apply no1_fail1 in H. apply eqb_prop in H. now symmetry. Qed.

(* ---- any number of messages: the cases of a message list against `deliver` ---- *)
Record dobs (U : Type) : Type := mk_dobs { d_signer : N; d_payload : U; d_fwd : N; d_relay_ok : bool; d_arrived : bool }.
Arguments mk_dobs {U}. Arguments d_signer {U}. Arguments d_payload {U}. Arguments d_fwd {U}.
Arguments d_relay_ok {U}. Arguments d_arrived {U}.

Definition deliver_cases {U} (id : N) star l h (obs : list (dobs U)) : list (N * c07case) :=
  map (fun o => (id, CDeliver star l h (d_signer o) (d_fwd o) (d_relay_ok o) (d_arrived o))) obs.
Definition published {U} (obs : list (dobs U)) : list (N * U) := map (fun o => (d_signer o, d_payload o)) obs.
Definition arrived_payloads {U} (obs : list (dobs U)) : list U := map d_payload (filter d_arrived obs).
(* a message list annotated with the model's verdicts; fwd / rok: who handed each message over and whether that relay passed it on *)
Definition deliver_model_obs {U} (cfg : crdt_cfg) (h : list top) (fwd : N * U -> N) (rok : N * U -> bool) (msgs : list (N * U)) : list (dobs U) :=
  map (fun m => mk_dobs (fst m) (snd m) (fwd m) (rok m) (rok m && validator cfg h (fst m))) msgs.

Lemma no_code_flat_map {A} k (f : A -> list (N * N * N)) l : no_code k (flat_map f l) -> forall x, In x l -> no_code k (f x).
Proof. intros H x Hx c Hc. apply H. apply in_flat_map. exists x. auto. Qed.

Lemma flat_map_nil {A B} (f : A -> list B) l : (forall x, In x l -> f x = []) -> flat_map f l = [].
Proof. induction l as [|x r IH]; intros H; cbn [flat_map]; [reflexivity|]. rewrite (H x (or_introl eq_refl)). apply IH.
  intros y Hy. apply H. now right. Qed.

Lemma deliver_list_model_passes_l {U} id star l h fwd rok (msgs : list (N * U)) :
  C07_Check.failing (deliver_cases id star l h (deliver_model_obs (mk_crdt_cfg star 0%N l) h fwd rok msgs)) = [] /\
  published (deliver_model_obs (mk_crdt_cfg star 0%N l) h fwd rok msgs) = msgs /\
  ((forall m, In m msgs -> rok m = true) ->
   arrived_payloads (deliver_model_obs (mk_crdt_cfg star 0%N l) h fwd rok msgs) = deliver (mk_crdt_cfg star 0%N l) h msgs).
Proof. split; [|split].
  - unfold C07_Check.failing. apply flat_map_nil. intros c Hc. unfold deliver_cases, deliver_model_obs in Hc.
    rewrite map_map in Hc. apply in_map_iff in Hc. destruct Hc as [m [<- _]]. cbn [d_signer d_fwd d_relay_ok d_arrived].
    apply deliver_model_passes_monitor_l.
  - unfold published, deliver_model_obs. rewrite map_map. cbn [d_signer d_payload].
    rewrite <- (map_id msgs) at 2. apply map_ext. intros [s u]. reflexivity.
  - intros Hr. unfold arrived_payloads, deliver_model_obs, deliver. induction msgs as [|m r IH]; [reflexivity|].
    cbn [map filter d_arrived]. rewrite (Hr m (or_introl eq_refl)). cbn [andb].
    destruct (validator (mk_crdt_cfg star 0%N l) h (fst m)); cbn [map d_payload]; rewrite IH; auto;
      intros m' Hm'; apply Hr; now right. Qed.

(* no code 2 on any case of the list: whatever reached the state is among what the model's replica merges from the published
   list, and nothing signed by an untrusted peer arrived *)
Lemma deliver_list_monitor_sound_l {U} id star l h (obs : list (dobs U)) :
  no_code 2%N (C07_Check.failing (deliver_cases id star l h obs)) ->
  (forall x, In x (arrived_payloads obs) -> In x (deliver (mk_crdt_cfg star 0%N l) h (published obs))) /\
  (forall u, trust_crdt (mk_crdt_cfg star 0%N l) h u = false -> forall o, In o obs -> d_signer o = u -> d_arrived o = false).
Proof. intros H.
  assert (P : forall o, In o obs -> d_arrived o = true -> trust_crdt (mk_crdt_cfg star 0%N l) h (d_signer o) = true).
  { intros o Ho Ha. destruct (trust_crdt (mk_crdt_cfg star 0%N l) h (d_signer o)) eqn:Et; [reflexivity|].
    assert (Hc : In (id, CDeliver star l h (d_signer o) (d_fwd o) (d_relay_ok o) (d_arrived o)) (deliver_cases id star l h obs)).
    { unfold deliver_cases. apply in_map_iff. exists o. auto. }
    pose proof (no_code_flat_map _ _ _ H _ Hc) as H2. apply deliver_monitor_sound_l in H2; [congruence|exact Et]. }
  split.
  - intros x Hx. unfold arrived_payloads in Hx. apply in_map_iff in Hx. destruct Hx as [o [<- Ho]].
    apply filter_In in Ho. destruct Ho as [Ho Ha]. unfold deliver, published. apply in_map_iff.
    exists (d_signer o, d_payload o). split; [reflexivity|]. apply filter_In. split.
    + apply in_map_iff. exists o. auto.
    + cbn [fst]. unfold validator. now apply P.
  - intros u Hu o Ho <-. destruct (d_arrived o) eqn:Ea; [|reflexivity]. rewrite (P o Ho Ea) in Hu. discriminate. Qed.

(* no code 1 on any case, every relay passing on: what reached the state is exactly what the model's replica merges *)
Lemma deliver_list_agreement_l {U} id star l h (obs : list (dobs U)) :
  no_code 1%N (C07_Check.failing (deliver_cases id star l h obs)) -> (forall o, In o obs -> d_relay_ok o = true) ->
  arrived_payloads obs = deliver (mk_crdt_cfg star 0%N l) h (published obs).
Proof. intros H Hr.
  assert (P : forall o, In o obs -> d_arrived o = validator (mk_crdt_cfg star 0%N l) h (d_signer o)).
  { intros o Ho.
    assert (Hc : In (id, CDeliver star l h (d_signer o) (d_fwd o) (d_relay_ok o) (d_arrived o)) (deliver_cases id star l h obs)).
    { unfold deliver_cases. apply in_map_iff. exists o. auto. }
    pose proof (no_code_flat_map _ _ _ H _ Hc) as H1. apply deliver_agreement_sound_l in H1.
    rewrite (Hr o Ho) in H1. exact H1. }
  clear H Hr. unfold arrived_payloads, deliver, published. induction obs as [|o r IH]; [reflexivity|].
  cbn [map filter fst]. rewrite (P o (or_introl eq_refl)).
  destruct (validator (mk_crdt_cfg star 0%N l) h (d_signer o)); cbn [map snd]; rewrite IH; auto;
    intros o' Ho'; apply P; now right. Qed.

(* ================================================================== *)
(* CAuthSeq: calls interleaved with later Trust / Distrust calls on   *)
(* one running peer (codes 1, 11)                                     *)
(* ================================================================== *)
Lemma check_case_authseq id m caller ep steps : check_case (id, CAuthSeq m caller ep steps) =
  fail1 id (seq_forall (fun mt p => Bool.eqb (seq_model_call caller ep mt) p) m steps) ++
  fail11 id (seq_forall (seq_call_okb caller ep) m steps).
Proof. reflexivity. Qed.

Lemma no11_fail11 id b l : no_code 11%N (l ++ fail11 id b) -> b = true.
Proof. destruct b; [reflexivity|]. intros H. exfalso. apply (H (id, 11%N, 0%N)); [|reflexivity].
  apply in_or_app. right. now left. Qed.

(* the trust state after a prefix: raft ignores Trust / Distrust, crdt has the operations of the prefix appended to its history *)
Lemma mode_after_raft pre : mode_after MRaft pre = MRaft.
Proof. unfold mode_after. induction pre as [|[p|o] r IH]; cbn [fold_left mode_op]; auto. Qed.
Lemma mode_after_crdt star l pre : forall h, mode_after (MCrdt star l h) pre = MCrdt star l (h ++ ops_of pre).
Proof. unfold mode_after. induction pre as [|[p|o] r IH]; intros h; cbn [fold_left mode_op ops_of flat_map app].
  - now rewrite app_nil_r.
  - apply IH.
  - rewrite IH. now rewrite <- app_assoc. Qed.
Lemma mode_after_app m pre s post :
  mode_after m (pre ++ s :: post) = mode_after (match s with SOp o => mode_op (mode_after m pre) o | SCall _ => mode_after m pre end) post.
Proof. unfold mode_after. rewrite fold_left_app. reflexivity. Qed.

Lemma trust_state_after_steps_l star l h pre q :
  trust_of (mode_after (MCrdt star l h) pre) q = trust_crdt (mk_crdt_cfg star 0%N l) (h ++ ops_of pre) q /\
  trust_of (mode_after MRaft pre) q = true.
Proof. rewrite mode_after_crdt, mode_after_raft. split; reflexivity. Qed.

(* the k-th call of a sequence is judged / annotated with the state after the steps before it *)
Lemma seq_forall_split g : forall pre m p post,
  seq_forall g m (pre ++ SCall p :: post) = true -> g (mode_after m pre) p = true.
Proof. induction pre as [|[p0|o] r IH]; intros m p post H; cbn [app seq_forall] in H.
  - apply andb_true_iff in H. exact (proj1 H).
  - apply andb_true_iff in H. exact (IH m p post (proj2 H)).
  - exact (IH (mode_op m o) p post H). Qed.

Lemma seq_annot_split f : forall pre m p post,
  seq_annot f m (pre ++ SCall p :: post) =
  seq_annot f m pre ++ SCall (f (mode_after m pre)) :: seq_annot f (mode_after m pre) post.
Proof. induction pre as [|[p0|o] r IH]; intros m p post; cbn [app seq_annot].
  - reflexivity.
  - f_equal. exact (IH m p post).
  - f_equal. exact (IH (mode_op m o) p post). Qed.

Lemma seq_forall_annot f g : (forall m, g m (f m) = true) -> forall steps m, seq_forall g m (seq_annot f m steps) = true.
Proof. intros H. induction steps as [|[p|o] r IH]; intros m; cbn [seq_annot seq_forall]; auto.
  rewrite H. apply IH. Qed.

Lemma seq_forall_eqb_annot f : forall steps m,
  seq_forall (fun mt p => Bool.eqb (f mt) p) m steps = true -> seq_annot f m steps = steps.
Proof. induction steps as [|[p|o] r IH]; intros m H; cbn [seq_annot seq_forall] in *; auto.
  - apply andb_true_iff in H. destruct H as [H1 H2]. apply eqb_prop in H1. rewrite H1. f_equal. now apply IH.
  - f_equal. now apply IH. Qed.

(* the model's verdict on a call, read off the specification tables: every trust state, caller, endpoint name *)
Lemma seq_model_call_spec caller ep mt : caller <> 0%N ->
  let v := seq_model_call caller ep mt in
  v = authorize policy (trust_of mt caller) ep /\
  (trust_of mt caller = false -> ~ In ep open_spec -> v = false) /\
  (In ep local_only_spec -> v = false) /\
  (In ep trusted_spec -> v = trust_of mt caller) /\
  (In ep open_spec -> v = true).
Proof. intros Hc. apply N.eqb_neq in Hc. cbv zeta. unfold seq_model_call, call_allowed. rewrite Hc. cbn [orb].
  split; [reflexivity|]. split; [|split; [|split]].
  - intros Ht Ho. rewrite Ht. destruct (authorize policy false ep) eqn:Ea; [|reflexivity].
    exfalso. apply Ho. now apply untrusted_only_open_l.
  - intros Hl. exact (local_only_refused_l ep Hl (fun _ => trust_of mt caller) caller).
  - intros Ht. now apply trusted_spec_l.
  - intros Ho. now apply open_spec_l. Qed.

(* for every configuration, history and sequence of (call | trust op) steps: the verdict the model gives on a call is authF with
   the trust state AT THAT MOMENT (the configured state, the earlier history and the operations made before the call) - a remote
   caller not trusted then is refused on every endpoint that is not open, whatever it was answered before *)
Lemma auth_follows_trust_changes_l m caller ep pre p post : caller <> 0%N ->
  let mt := mode_after m pre in
  let v := seq_model_call caller ep mt in
  seq_annot (seq_model_call caller ep) m (pre ++ SCall p :: post) =
    seq_annot (seq_model_call caller ep) m pre ++ SCall v :: seq_annot (seq_model_call caller ep) mt post /\
  v = authorize policy (trust_of mt caller) ep /\
  (trust_of mt caller = false -> ~ In ep open_spec -> v = false) /\
  (In ep local_only_spec -> v = false) /\
  (In ep trusted_spec -> v = trust_of mt caller) /\
  (In ep open_spec -> v = true).
Proof. intros Hc. cbv zeta. split; [apply seq_annot_split|]. exact (seq_model_call_spec caller ep (mode_after m pre) Hc). Qed.

Lemma seq_call_okb_model caller ep mt : seq_call_okb caller ep mt (seq_model_call caller ep mt) = true.
Proof. unfold seq_call_okb. destruct (N.eqb_spec caller 0) as [E|Hc]; [reflexivity|]. cbn [orb].
  destruct (seq_model_call_spec caller ep mt Hc) as [_ [Hu [Hl [Ht _]]]].
  destruct (seq_model_call caller ep mt) eqn:Ev.
  - destruct (mem_str ep open_spec) eqn:Eo; [reflexivity|]. cbn [orb]. apply mem_str_false in Eo.
    destruct (trust_of mt caller) eqn:Et; [|specialize (Hu eq_refl Eo); discriminate]. cbn [andb].
    destruct (mem_str ep local_only_spec) eqn:El; [|reflexivity]. apply mem_str_in in El. specialize (Hl El). discriminate.
  - destruct (trust_of mt caller) eqn:Et; [|reflexivity]. cbn [andb].
    destruct (mem_str ep trusted_spec) eqn:Es; [|reflexivity]. apply mem_str_in in Es. specialize (Ht Es). discriminate. Qed.

(* every trust mode, caller, endpoint name and sequence (any length, any interleaving): the model's own answers raise no code *)
Lemma authseq_model_passes_monitor_l id m caller ep steps :
  check_case (id, CAuthSeq m caller ep (seq_annot (seq_model_call caller ep) m steps)) = [].
Proof. rewrite check_case_authseq.
  rewrite (seq_forall_annot (seq_model_call caller ep) (fun mt p => Bool.eqb (seq_model_call caller ep mt) p)) by (intros; apply eqb_reflx).
  rewrite (seq_forall_annot (seq_model_call caller ep) (seq_call_okb caller ep)) by (intros; apply seq_call_okb_model).
  reflexivity. Qed.

(* no code 11: at every call of the sequence, a remote caller not trusted at that moment was refused unless the endpoint is an
   open one, a local-only endpoint was refused, and a caller trusted at that moment was let in on every trusted_spec endpoint *)
Lemma authseq_monitor_sound_l id m caller ep steps :
  no_code 11%N (check_case (id, CAuthSeq m caller ep steps)) -> caller <> 0%N ->
  forall pre p post, steps = pre ++ SCall p :: post ->
  let mt := mode_after m pre in
  (trust_of mt caller = false -> ~ In ep open_spec -> p = false) /\
  (In ep local_only_spec -> p = false) /\
  (trust_of mt caller = true -> In ep trusted_spec -> p = true).
Proof. rewrite check_case_authseq. intros H Hc pre p post E. cbv zeta. apply no11_fail11 in H. subst steps.
  apply seq_forall_split in H. unfold seq_call_okb in H. apply N.eqb_neq in Hc. rewrite Hc in H. cbn [orb] in H.
  destruct p.
  - apply orb_true_iff in H. split; [|split; [|reflexivity]].
    + intros Ht Ho. exfalso. destruct H as [H|H]; [apply mem_str_in in H; contradiction|]. rewrite Ht in H. discriminate.
    + intros Hl. exfalso. destruct H as [H|H]; [apply mem_str_in in H; exact (open_not_local ep H Hl)|].
      apply andb_true_iff in H. destruct H as [_ H]. apply negb_true_iff, mem_str_false in H. contradiction.
  - split; [reflexivity|split; [reflexivity|]]. intros Ht Hs. exfalso. rewrite Ht in H. apply mem_str_in in Hs. rewrite Hs in H. discriminate. Qed.

(* no code 1: every observed answer is the model's with the state at the time of the call *)
Lemma authseq_agreement_eq_l id m caller ep steps :
  no_code 1%N (check_case (id, CAuthSeq m caller ep steps)) -> seq_annot (seq_model_call caller ep) m steps = steps.
Proof. rewrite check_case_authseq. intros H. apply no1_fail1 in H. now apply seq_forall_eqb_annot. Qed.

Lemma authseq_agreement_sound_l id m caller ep steps :
  no_code 1%N (check_case (id, CAuthSeq m caller ep steps)) ->
  seq_annot (seq_model_call caller ep) m steps = steps /\
  forall pre p post, steps = pre ++ SCall p :: post ->
    p = call_allowed policy (N.eqb caller 0) (trust_of (mode_after m pre) caller) ep.
Proof. intros H. split; [exact (authseq_agreement_eq_l id m caller ep steps H)|]. rewrite check_case_authseq in H. apply no1_fail1 in H.
  intros pre p post E. subst steps. apply seq_forall_split in H. apply eqb_prop in H. now symmetry. Qed.

(* ================================================================== *)
(* every case kind at once: agreement with the model is enough        *)
(* ================================================================== *)
(* on ANY case (any kind, any input, any observation): if code 1 is absent - the implementation did what the model does - then
   no code at all is produced: the specification-level monitors (codes 2, 11) never alarm on behaviour the model allows, and
   "agrees with the model on this input" implies "satisfies the monitored property on this input" *)
(* (the effect observations of the open endpoints have no model: they are judged by the hand-written effect table alone, code 10) *)
Definition modelled (c : N * c07case) : bool := match snd c with CEffects _ _ _ _ => false | _ => true end.
Lemma agreement_no_alarm_l c : modelled c = true -> no_code 1%N (check_case c) -> check_case c = [].
Proof. destruct c as [id k]. destruct k as [m caller ep passed|m caller ep steps|m caller ep effs|l|l|ok|star l h obs|tp env h obs|star l h signer fwd relay_ok arrived]; intros Hm H; [| |discriminate Hm|..].
  - pose proof (auth_agreement_sound_l _ _ _ _ _ H) as [E _]. subst passed. apply auth_model_passes_monitor_l.
  - pose proof (authseq_agreement_eq_l id m caller ep steps H) as E. rewrite <- E. apply authseq_model_passes_monitor_l.
  - rewrite check_case_methods in *. apply no1_fail1 in H. rewrite H. reflexivity.
  - rewrite check_case_policy in *. apply no1_fail1 in H. rewrite H. reflexivity.
  - rewrite check_case_policy_valid in *. apply no1_fail1 in H. rewrite H. reflexivity.
  - rewrite check_case_trust in *. apply no1_fail1_only in H. rewrite H. reflexivity.
  - rewrite check_case_trustj in *. apply no1_fail1 in H. rewrite H. apply list_eqb_bool_eq in H.
    rewrite (trustj_okb_agree tp env h obs H). reflexivity.
  - pose proof (deliver_agreement_sound_l _ _ _ _ _ _ _ _ H) as E. subst arrived. apply deliver_model_passes_monitor_l. Qed.

(* ================================================================== *)
(* what the open endpoints do (code 10)                               *)
(* ================================================================== *)
(* the hand-written effect table: one row per open endpoint, and no allowed effect drives the IPFS daemon (beyond reading its
   identity), drives the pin tracker, reads or writes the pinset, writes to consensus other than AddPeer, or runs the informers /
   publishes metrics *)
Lemma open_effects_spec_l :
  map fst open_effects = open_spec /\
  forallb (fun row => forallb (fun x => negb (effect_forbidden x)) (snd row)) open_effects = true.
Proof. split; vm_compute; reflexivity. Qed.

Lemma allowed_not_forbidden ep x : In x (allowed_effects ep) -> effect_forbidden x = false.
Proof. unfold allowed_effects. destruct (find (fun r => String.eqb (fst r) ep) open_effects) as [row|] eqn:F; [|intros []].
  apply find_some in F. destruct F as [Hin _]. intros Hx. destruct open_effects_spec_l as [_ H]. rewrite forallb_forall in H.
  specialize (H row Hin). rewrite forallb_forall in H. specialize (H x Hx). now apply negb_true_iff in H. Qed.

Lemma check_case_effects id m caller ep effs : check_case (id, CEffects m caller ep effs) = fail10 id (effects_okb m caller ep effs).
Proof. reflexivity. Qed.

(* soundness: no code 10 on the effects of a call an untrusted remote caller was let in with => every component call it caused is
   in the allowed set of that endpoint, hence outside every class the property denies to it; and the endpoint is an open one
   as soon as anything happened *)
Lemma effects_monitor_sound_l id m caller ep effs : no_code 10%N (check_case (id, CEffects m caller ep effs)) ->
  caller <> 0%N -> trust_of m caller = false ->
  forall x, In x effs -> In x (allowed_effects ep) /\ effect_forbidden x = false /\ In ep open_spec.
Proof. rewrite check_case_effects. intros H Hc Ht x Hx. unfold fail10 in H.
  destruct (effects_okb m caller ep effs) eqn:E; [|exfalso; apply (H (id, 10%N, 0%N)); [now left|reflexivity]].
  unfold effects_okb in E. rewrite Ht in E. destruct (N.eqb_spec caller 0); [contradiction|]. cbn [orb] in E.
  rewrite forallb_forall in E. specialize (E x Hx). apply mem_str_in in E. split; [exact E|]. split; [now apply (allowed_not_forbidden ep)|].
  unfold allowed_effects in E. destruct (find (fun r => String.eqb (fst r) ep) open_effects) as [row|] eqn:F; [|destruct E].
  apply find_some in F. destruct F as [Hin Heq]. apply String.eqb_eq in Heq. subst ep.
  destruct open_effects_spec_l as [<- _]. now apply in_map. Qed.

(* the monitor accepts exactly the allowed effects (for an untrusted remote caller) *)
Lemma effects_monitor_complete_l id m caller ep effs : (forall x, In x effs -> In x (allowed_effects ep)) ->
  check_case (id, CEffects m caller ep effs) = [].
Proof. intros H. rewrite check_case_effects. unfold fail10, effects_okb.
  assert (E : forallb (fun x => mem_str x (allowed_effects ep)) effs = true).
  { apply forallb_forall. intros x Hx. apply mem_str_in. now apply H. }
  rewrite E, !orb_true_r. reflexivity. Qed.
