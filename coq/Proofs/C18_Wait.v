(* C18 — deadlock freedom of the machine with waits (Model/C18_Wait.v): if the wait-for relation
   "holds L while acquiring M" + "holds L while waiting for G" + "a thread of G acquires L" + "a thread of G
   waits for G'" can be ranked strictly (is acyclic), no interleaving reaches a state in which every
   unfinished thread is blocked. The lock-only theorem of Proofs/C18_Conc.v is the special case without
   waits (re-derived below through the embedding). Then the Shutdown / watchPeers pair as two programs. *)
From V Require Import Model.C18_Conc Model.C18_Wait Proofs.C18_Conc.
From Coq Require Import Lia.

Lemma evs_app p q : evs (p ++ q) = evs p ++ evs q.
Proof. unfold evs. now rewrite flat_map_app. Qed.

Lemma evs_lift p : evs (map GE p) = p.
Proof. induction p as [|e p IH]; simpl; [reflexivity|]. now rewrite IH. Qed.

Lemma gprog_inv_reach grp progs s0 s : gprog_inv progs s0 -> greach grp s0 s -> gprog_inv progs s.
Proof.
  intros P R. induction R as [|s s' R IH St]; auto. destruct St as [s i w rest Ht En].
  intros j. unfold gset. destruct (Nat.eqb_spec j i) as [->|]; simpl; auto.
  rewrite <- app_assoc. simpl. rewrite <- Ht. apply IH.
Qed.

(* what a thread is waiting for, as the rank of that lock or group *)
Definition waited_rank (rank : node -> nat) (t : gth) : option nat :=
  match gtodo t with
  | GE (Acq l) :: _ => Some (rank (NLock (snd l)))
  | GE (RAcq l) :: _ => Some (rank (NLock (snd l)))
  | GWait g :: _ => Some (rank (NGroup (snd g)))
  | _ => None end.

(* the theorem on a state: only that the state runs the programs is used of reachability *)
Lemma wait_no_deadlock_state (rank : node -> nat) (grp : nat -> list group) (progs : nat -> list gev) n s :
  gprog_inv progs s ->
  (forall i, gordered rank (grp i) (progs i)) -> (forall i, gbalanced (progs i)) ->
  (forall i, n <= i -> progs i = []) -> ~ gdeadlocked grp n s.
Proof.
  intros PI O B Idle [[i0 [Hi0 Hu0]] Hall].
  assert (Small : forall j, gtodo (s j) <> [] -> j < n).
  { intros j Hu. destruct (le_lt_dec n j) as [Hge|]; auto. exfalso.
    pose proof (Idle j Hge) as E. rewrite (PI j) in E. apply app_eq_nil in E. destruct E as [_ E]. contradiction. }
  assert (Hold : forall j l b, In (l, b) (scan (evs (gdone (s j)))) -> gtodo (s j) <> []).
  { intros j l b Hin E. pose proof (B j) as Bj. unfold gbalanced in Bj.
    rewrite (PI j), E, app_nil_r in Bj. rewrite Bj in Hin. inversion Hin. }
  set (f := fun i => waited_rank rank (s i)).
  (* an unfinished thread is blocked on something that ranks above every lock it holds and every group it is in *)
  assert (Above : forall j, gtodo (s j) <> [] ->
            exists m, j < n /\ f j = Some m /\
              (forall l b, In (l, b) (scan (evs (gdone (s j)))) -> rank (NLock (snd l)) < m) /\
              (forall g, In g (grp j) -> rank (NGroup (snd g)) < m)).
  { intros j Hu. pose proof (Small _ Hu) as Hj. pose proof (Hall j Hj Hu) as St. unfold gstuck in St.
    destruct (O j) as [OL OW].
    destruct (gtodo (s j)) as [|[[l'|l'|l'|l'|x|x]|g] r] eqn:T; try contradiction.
    - exists (rank (NLock (snd l'))). split; [exact Hj|]. split; [unfold f, waited_rank; now rewrite T|].
      destruct (OL (gdone (s j)) l' r (or_introl (eq_trans (PI j) (f_equal _ T)))) as [H1 H2].
      split; [intros l b Hin; exact (H1 (l, b) Hin)|exact H2].
    - exists (rank (NLock (snd l'))). split; [exact Hj|]. split; [unfold f, waited_rank; now rewrite T|].
      destruct (OL (gdone (s j)) l' r (or_intror (eq_trans (PI j) (f_equal _ T)))) as [H1 H2].
      split; [intros l b Hin; exact (H1 (l, b) Hin)|exact H2].
    - exists (rank (NGroup (snd g))). split; [exact Hj|]. split; [unfold f, waited_rank; now rewrite T|].
      destruct (OW (gdone (s j)) g r (eq_trans (PI j) (f_equal _ T))) as [H1 H2].
      split; [intros l b Hin; exact (H1 (l, b) Hin)|exact H2]. }
  assert (Hex : exists i, i < n /\ f i <> None).
  { exists i0. split; auto. destruct (Above i0 Hu0) as [m [_ [Fm _]]]. congruence. }
  destruct (max_waiter f n Hex) as [k [m [Hk [Fk Hmax]]]].
  assert (Hku : gtodo (s k) <> []).
  { intros E. unfold f, waited_rank in Fk. rewrite E in Fk. discriminate. }
  pose proof (Hall k Hk Hku) as St. unfold gstuck in St. unfold f, waited_rank in Fk.
  (* whoever holds a lock is blocked on something ranked above it *)
  assert (Holder : forall j l b, In (l, b) (scan (evs (gdone (s j)))) -> rank (NLock (snd l)) < m).
  { intros j l b Hin. destruct (Above j (Hold _ _ _ Hin)) as [m' [Hj [Fj [HL _]]]].
    pose proof (HL l b Hin). pose proof (Hmax j m' Hj Fj). lia. }
  destruct (gtodo (s k)) as [|[[lk|lk|lk|lk|x|x]|g] r] eqn:T; try contradiction.
  - inversion Fk; subst m. destruct St as [j [_ [Hh|Hh]]]; pose proof (Holder _ _ _ Hh); lia.
  - inversion Fk; subst m. destruct St as [j [_ [Hh|[r' Tj]]]].
    + pose proof (Holder _ _ _ Hh). lia.
    + assert (Hju : gtodo (s j) <> []) by (rewrite Tj; discriminate).
      pose proof (Hall j (Small _ Hju) Hju) as Stj. unfold gstuck in Stj. rewrite Tj in Stj.
      destruct Stj as [j2 [_ [Hh|Hh]]]; pose proof (Holder _ _ _ Hh); lia.
  - inversion Fk; subst m. destruct St as [j [Hg Hju]].
    destruct (Above j Hju) as [m' [Hj [Fj [_ HG]]]]. pose proof (HG g Hg). pose proof (Hmax j m' Hj Fj). lia.
Qed.

Lemma acyclic_wait_for_no_deadlock_l (rank : node -> nat) (grp : nat -> list group) (progs : nat -> list gev) n s0 s :
  ginit_ok s0 -> gprog_inv progs s0 ->
  (forall i, gordered rank (grp i) (progs i)) -> (forall i, gbalanced (progs i)) ->
  (forall i, n <= i -> progs i = []) ->
  greach grp s0 s -> ~ gdeadlocked grp n s.
Proof.
  intros _ P O B Idle R. exact (wait_no_deadlock_state rank grp progs n s (gprog_inv_reach _ _ _ _ P R) O B Idle).
Qed.

(* ------------------------------------------------------------------------------------------- *)
(* the lock-only theorem is the special case: no waits, no groups *)

Lemma lift_gordered rank prog : ordered rank prog -> gordered (lock_rank rank) [] (map GE prog).
Proof.
  intros O. split.
  - intros p l r Hp. split; [|intros g []].
    intros h Hin.
    assert (Hd : exists p0 r0, p = map GE p0 /\ r = map GE r0 /\ (prog = p0 ++ Acq l :: r0 \/ prog = p0 ++ RAcq l :: r0)).
    { destruct Hp as [Hp|Hp]; apply map_eq_app in Hp; destruct Hp as [p0 [q0 [E [E1 E2]]]];
        destruct q0 as [|e0 r0]; try discriminate; simpl in E2; inversion E2; subst;
        exists p0, r0; repeat split; auto. }
    destruct Hd as [p0 [r0 [-> [-> Hd]]]]. rewrite evs_lift in Hin. simpl. exact (O p0 l r0 Hd h Hin).
  - intros p g r Hp. exfalso. apply map_eq_app in Hp. destruct Hp as [p0 [q0 [_ [_ E2]]]].
    destruct q0; discriminate.
Qed.

Lemma lift_deadlocked n s : deadlocked n s -> gdeadlocked no_groups n (lift_st s).
Proof.
  intros [[i [Hi Hu]] Hall]. split.
  - exists i. split; auto. unfold lift_st, lift_th. simpl. destruct (todo (s i)); [contradiction|discriminate].
  - intros j Hj Huj. unfold lift_st, lift_th in Huj. simpl in Huj.
    assert (Hu' : todo (s j) <> []) by (intros E; rewrite E in Huj; apply Huj; reflexivity).
    pose proof (Hall j Hj Hu') as St. unfold stuck in St. unfold gstuck, lift_st, lift_th. simpl.
    destruct (todo (s j)) as [|[l|l|l|l|x|x] r]; simpl; try contradiction.
    + destruct St as [k [Hk Hh]]. exists k. split; auto. now rewrite evs_lift.
    + destruct St as [k [Hk [Hh|[r' Tk]]]]; exists k; split; auto.
      * left. now rewrite evs_lift.
      * right. exists (map GE r'). now rewrite Tk.
Qed.

(* Proofs/C18_Conc.v acyclic_no_lock_deadlock_l, obtained from the theorem with waits *)
Lemma acyclic_no_lock_deadlock_from_wait (rank : lname -> nat) (progs : nat -> list ev) n s0 s :
  init_ok s0 -> prog_inv progs s0 ->
  (forall i, ordered rank (progs i)) -> (forall i, balanced (progs i)) -> (forall i, n <= i -> progs i = []) ->
  reach s0 s -> ~ deadlocked n s.
Proof.
  intros I P O B Idle R D.
  pose proof (prog_inv_reach _ _ _ P R) as PI.
  apply (wait_no_deadlock_state (lock_rank rank) no_groups (fun i => map GE (progs i)) n (lift_st s)).
  - intros i. unfold lift_st, lift_th. simpl. rewrite <- map_app. now rewrite <- (PI i).
  - intros i. apply lift_gordered, O.
  - intros i. unfold gbalanced. rewrite evs_lift. apply B.
  - intros i Hi. now rewrite (Idle i Hi).
  - now apply lift_deadlocked.
Qed.

(* ------------------------------------------------------------------------------------------- *)
(* Cluster.Shutdown and watchPeers *)

Ltac gstep_tac i := eapply GRS; [|eapply (GStep _ _ i); [reflexivity|]].

(* as pinned: after Shutdown has taken shutdownLock, Shutdown waits for the group of watchPeers and watchPeers
   for the lock - every unfinished thread is blocked *)
Lemma sd_pinned_deadlocks o : exists s,
  greach (sd_grp o) (start_of (sd_progs_pinned o)) s /\ gdeadlocked (sd_grp o) 2 s.
Proof.
  eexists. split.
  - eapply GRS; [apply GR0|]. apply (GStep (sd_grp o) (start_of (sd_progs_pinned o)) 0 (GE (Acq (sd_lock o))) _ eq_refl).
    intros j Hj [H|H]; simpl in H; contradiction.
  - split.
    + exists 0. split; [lia|]. simpl. discriminate.
    + intros i Hi Hu. destruct i as [|[|i]]; [| |lia].
      * simpl. exists 1. split; [simpl; auto|simpl; discriminate].
      * simpl. exists 0. split; [lia|]. left. simpl. auto.
Qed.

(* as repaired: the covered goroutine takes no lock; shutdownLock ranks below the group *)
Lemma sd_repaired_ordered o i : gordered sd_rank (sd_grp o i) (sd_progs_repaired o i).
Proof.
  assert (Nil : forall gs, gordered sd_rank gs []).
  { intros gs. split; intros p x r Hp; exfalso; [destruct Hp as [Hp|Hp]|]; destruct p; discriminate. }
  destruct i as [|[|[|i]]]; simpl; try apply Nil.
  - (* Shutdown: Acq L; Wait G; Rel L *)
    split.
    + intros p l r Hp. split; [|intros g []].
      intros h Hin. destruct Hp as [Hp|Hp]; destruct p as [|a [|b [|c p]]]; simpl in Hp; inversion Hp; subst;
        try (destruct p; discriminate); simpl in Hin; try contradiction.
    + intros p g r Hp. split; [|intros g' []].
      intros h Hin. destruct p as [|a [|b [|c p]]]; simpl in Hp; inversion Hp; subst; try (destruct p; discriminate).
      simpl. lia.
  - (* the goroutine nobody waits for: Acq L; Rel L *)
    split.
    + intros p l r Hp. split; [|intros g []].
      intros h Hin. destruct Hp as [Hp|Hp]; destruct p as [|a [|b p]]; simpl in Hp; inversion Hp; subst;
        try (destruct p; discriminate); simpl in Hin; try contradiction.
    + intros p g r Hp. exfalso. destruct p as [|a [|b p]]; simpl in Hp; inversion Hp. destruct p; discriminate.
Qed.

Lemma hl_eqb_refl h : hl_eqb h h = true.
Proof.
  destruct h as [[o [a b]] e]. unfold hl_eqb, lock_eqb, lname_eqb. simpl.
  now rewrite N.eqb_refl, !String.eqb_refl, Bool.eqb_reflx.
Qed.

Lemma sd_repaired_never_deadlocks o s :
  greach (sd_grp o) (start_of (sd_progs_repaired o)) s -> ~ gdeadlocked (sd_grp o) 3 s.
Proof.
  apply (acyclic_wait_for_no_deadlock_l sd_rank (sd_grp o) (sd_progs_repaired o) 3).
  - intros i. reflexivity.
  - intros i. reflexivity.
  - apply sd_repaired_ordered.
  - intros i. destruct i as [|[|[|i]]]; unfold gbalanced, scan; simpl; try reflexivity; now rewrite hl_eqb_refl.
  - intros i Hi. destruct i as [|[|[|i]]]; try lia. reflexivity.
Qed.
