(* C15 — the clause-matching decision of Model/C15_VCond.v is sound: when it answers true, the translated
   Validate() (rejects_none) and the model (accepts_all) are the same function of oracle and configuration. *)
From Coq Require Import String List ZArith Bool Lia.
From V Require Import Model.C15_Config Model.C15_VCond.
Import ListNotations.
Open Scope string_scope.
Open Scope Z_scope.

(* ---- canonical forms ---- *)
Lemma canon_le_sound orc c a b : beval (atom_val orc c) (canon_le a b) = (tval c a <=? tval c b).
Proof. destruct a, b; reflexivity. Qed.

Lemma canon_eq_sound orc c a b : beval (atom_val orc c) (canon_eq a b) = (tval c a =? tval c b).
Proof. destruct a, b; reflexivity. Qed.

Lemma canon_sound orc c v : beval (atom_val orc c) (canon v) = ceval orc c v.
Proof.
  induction v as [b|a b|a b|a b|n|n|n|n|n|n|v IH|v1 IH1 v2 IH2|v1 IH1 v2 IH2]; cbn [canon ceval beval]; try reflexivity.
  - apply canon_le_sound.
  - rewrite canon_le_sound. symmetry. apply Z.ltb_antisym.
  - apply canon_eq_sound.
  - now rewrite IH.
  - now rewrite IH1, IH2.
  - now rewrite IH1, IH2.
Qed.

(* ---- atoms: decidable equality ---- *)
Lemma vterm_eqb_eq a b : vterm_eqb a b = true <-> a = b.
Proof.
  destruct a as [x|x], b as [y|y]; cbn [vterm_eqb]; split; intros H; try discriminate H.
  - apply String.eqb_eq in H. now subst.
  - injection H as ->. apply String.eqb_refl.
  - apply Z.eqb_eq in H. now subst.
  - injection H as ->. apply Z.eqb_refl.
Qed.

Lemma atom_eqb_eq a b : atom_eqb a b = true <-> a = b.
Proof.
  split.
  - destruct a, b; cbn [atom_eqb]; intros H; try discriminate H;
      try (apply andb_true_iff in H; destruct H as [H1 H2]; apply vterm_eqb_eq in H1; apply vterm_eqb_eq in H2; now subst);
      apply String.eqb_eq in H; now subst.
  - intros <-. destruct a; cbn [atom_eqb]; try apply String.eqb_refl;
      apply andb_true_iff; split; now apply vterm_eqb_eq.
Qed.

Lemma atom_eqb_false a b : atom_eqb a b = false -> a <> b.
Proof. intros H E. apply atom_eqb_eq in E. congruence. Qed.

(* ---- truth tables ---- *)
Lemma beval_agree r r' f : (forall a, In a (atoms f) -> r a = r' a) -> beval r f = beval r' f.
Proof.
  induction f as [b|a|f IH|f IHf g IHg|f IHf g IHg]; cbn [beval atoms]; intros H.
  - reflexivity.
  - apply H. now left.
  - now rewrite IH.
  - rewrite IHf, IHg; [reflexivity| |]; intros a I; apply H; apply in_or_app; auto.
  - rewrite IHf, IHg; [reflexivity| |]; intros a I; apply H; apply in_or_app; auto.
Qed.

Lemma equiv_on_sound f g : forall l r0, equiv_on l r0 f g = true ->
  forall r, (forall a, ~ In a l -> r a = r0 a) -> beval r f = beval r g.
Proof.
  induction l as [|a t IH]; intros r0 E r A.
  - cbn [equiv_on] in E. apply Bool.eqb_prop in E.
    rewrite (beval_agree r r0 f), (beval_agree r r0 g); [exact E| |]; intros x _; apply A; intros [].
  - cbn [equiv_on] in E. apply andb_true_iff in E. destruct E as [Et Ef].
    destruct (r a) eqn:Ra.
    + apply (IH _ Et). intros x NI. unfold upd. destruct (atom_eqb x a) eqn:X.
      * apply atom_eqb_eq in X. now subst.
      * apply A. intros [->|I]; [|now apply NI]. apply atom_eqb_false in X. now apply X.
    + apply (IH _ Ef). intros x NI. unfold upd. destruct (atom_eqb x a) eqn:X.
      * apply atom_eqb_eq in X. now subst.
      * apply A. intros [->|I]; [|now apply NI]. apply atom_eqb_false in X. now apply X.
Qed.

Lemma bequiv_sound f g : bequiv f g = true -> forall r, beval r f = beval r g.
Proof.
  intros E r. unfold bequiv in E.
  set (l := (atoms f ++ atoms g)%list) in *.
  set (r' := fun a => if existsb (atom_eqb a) l then r a else false).
  assert (A : forall a, In a l -> r' a = r a).
  { intros a I. unfold r'. replace (existsb (atom_eqb a) l) with true; [reflexivity|].
    symmetry. apply existsb_exists. exists a. split; [exact I|]. now apply atom_eqb_eq. }
  rewrite <- (beval_agree r' r f), <- (beval_agree r' r g).
  - apply (equiv_on_sound f g l _ E). intros a NI. unfold r'.
    destruct (existsb (atom_eqb a) l) eqn:X; [|reflexivity].
    apply existsb_exists in X. destruct X as [b [I Eb]]. apply atom_eqb_eq in Eb. subst b. now elim NI.
  - intros a I. apply A. apply in_or_app. now right.
  - intros a I. apply A. apply in_or_app. now left.
Qed.

(* ---- clause lists ---- *)
Lemma forallb_true_iff {A} (p : A -> bool) l : forallb p l = true <-> (forall x, In x l -> p x = true).
Proof. apply forallb_forall. Qed.

Lemma clauses_match_sound gs ms : clauses_match gs ms = true ->
  forall orc c, rejects_none orc c gs = accepts_all orc c ms.
Proof.
  unfold clauses_match. intros H orc c. apply andb_true_iff in H. destruct H as [HG HM].
  rewrite forallb_forall in HG. rewrite forallb_forall in HM.
  set (r := atom_val orc c).
  assert (GM : accepts_all orc c ms = true -> rejects_none orc c gs = true).
  { intros AM. unfold accepts_all in AM. rewrite forallb_forall in AM.
    unfold rejects_none. apply forallb_forall. intros g Ig. cbv beta.
    specialize (HG (canon g) (in_map canon _ _ Ig)). apply orb_true_iff in HG. destruct HG as [NR|EX].
    - pose proof (bequiv_sound _ _ NR r) as B. cbn [beval] in B. unfold r in B. rewrite canon_sound in B. rewrite B. reflexivity.
    - apply existsb_exists in EX. destruct EX as [m' [Im' RM]]. apply in_map_iff in Im'. destruct Im' as [m [<- Im]].
      pose proof (bequiv_sound _ _ RM r) as B. cbn [beval] in B. unfold r in B. rewrite !canon_sound in B.
      rewrite B. now apply AM. }
  assert (MG : rejects_none orc c gs = true -> accepts_all orc c ms = true).
  { intros RG. unfold rejects_none in RG. rewrite forallb_forall in RG.
    unfold accepts_all. apply forallb_forall. intros m Im.
    specialize (HM (canon m) (in_map canon _ _ Im)). apply orb_true_iff in HM. destruct HM as [AH|EX].
    - pose proof (bequiv_sound _ _ AH r) as B. cbn [beval] in B. unfold r in B. now rewrite canon_sound in B.
    - apply existsb_exists in EX. destruct EX as [g' [Ig' RM]]. apply in_map_iff in Ig'. destruct Ig' as [g [<- Ig]].
      pose proof (bequiv_sound _ _ RM r) as B. cbn [beval] in B. unfold r in B. rewrite !canon_sound in B.
      rewrite <- B. now apply RG. }
  destruct (rejects_none orc c gs) eqn:R, (accepts_all orc c ms) eqn:A; try reflexivity.
  - discriminate (MG eq_refl).
  - discriminate (GM eq_refl).
Qed.
