(* C12 — lemmas about the proxy model. *)
From V Require Import Base.Common Base.C11_Http Base.C11_RouteOrder Gen.ProxyRoutes Model.C12_Proxy Model.C12_Check Model.C12_Tables
  Proofs.RouteOrder.
Open Scope string_scope.
Open Scope list_scope.

(* ------------------------------------------------------------------------------------------ *)
(* the generated routing table against the hand-written one                                   *)
(* ------------------------------------------------------------------------------------------ *)
(* lit, expand: Model/C12_Tables.v *)

(* proxy_table_spec, part 1: the generated table is the expansion of the hand-written spec_paths up to the order of
   routes that are apart (no path matches both templates); part 2 below: both classify every path alike *)
Lemma table_compiles : croutes_equiv (compile_routes hijack_prefix hijack_routes) (expand spec_paths) = true.
Proof. vm_compute. reflexivity. Qed.

Lemma handler_eqb_eq a b : handler_eqb a b = true -> a = b.
Proof. destruct a, b; intros H; try reflexivity; discriminate H. Qed.

Lemma croute_eqb_eq a b : croute_eqb a b = true -> a = b.
Proof.
  destruct a as [[t h] sl], b as [[t' h'] sl']. cbn [croute_eqb]. intros H.
  apply andb_prop in H as [H H3]. apply andb_prop in H as [H1 H2].
  apply (ro_list_eqb_eq tseg_eqb ro_tseg_eqb_eq) in H1. apply handler_eqb_eq in H2. apply Bool.eqb_prop in H3. subst. reflexivity.
Qed.

(* one route: what it answers, given what the rest of the table would answer *)
Definition cstep (segs : list string) (x : croute) (k : unit -> class) (u : unit) : class :=
  let '(t, h, sl) := x in
  match match_segs t segs with
  | Some vars => Hijack h (if sl then Some (match sget "arg" vars with Some a => a | None => "" end) else None)
  | None => k u
  end.

Lemma first_match_run segs rs : first_match rs segs = fm_run (cstep segs) (fun _ => Relay) rs tt.
Proof.
  induction rs as [|[[t h] sl] rs IH]; [reflexivity|]. cbn [first_match fm_run cstep].
  destruct (match_segs t segs); [reflexivity | exact IH].
Qed.

Lemma cstep_ext segs x k k' : (forall s, k s = k' s) -> forall s, cstep segs x k s = cstep segs x k' s.
Proof. intros H s. destruct x as [[t h] sl]. cbn [cstep]. destruct (match_segs t segs); [reflexivity | apply H]. Qed.

Lemma cstep_swap segs x y : croute_apart x y = true ->
  forall k s, cstep segs x (cstep segs y k) s = cstep segs y (cstep segs x k) s.
Proof.
  destruct x as [[t1 h1] sl1], y as [[t2 h2] sl2]. unfold croute_apart. cbn [fst]. intros H k s. cbn [cstep].
  destruct (match_segs t1 segs) eqn:M1; [|reflexivity].
  assert (Hn : match_segs t1 segs <> None) by (rewrite M1; discriminate).
  rewrite (tpl_disjoint_sound t1 t2 H segs Hn). reflexivity.
Qed.

(* the transfer lemma (any table sizes): equivalent tables classify every path alike *)
Lemma croutes_equiv_first_match rs1 rs2 : croutes_equiv rs1 rs2 = true -> forall segs, first_match rs1 segs = first_match rs2 segs.
Proof.
  intros H segs. rewrite !first_match_run.
  apply (trace_equiv_run croute_eqb croute_apart (cstep segs) (fun _ => Relay) croute_eqb_eq (cstep_ext segs) (cstep_swap segs) rs1 rs2 H).
Qed.

Lemma table_first_match segs : first_match (compile_routes hijack_prefix hijack_routes) segs = first_match (expand spec_paths) segs.
Proof. apply croutes_equiv_first_match. exact table_compiles. Qed.

Lemma methods_are : hijack_methods = spec_methods.
Proof. reflexivity. Qed.

Lemma catch_all_is : catch_all = [("/", "reverseProxy")].
Proof. reflexivity. Qed.

Lemma error_sites_all_return :
  forallb (fun hs => forallb (fun b => b) (snd hs)) handler_error_sites = true.
Proof. vm_compute. reflexivity. Qed.

(* The RPCs each hijack handler can issue, as a multiset per handler: the table lists call sites in source order, and the
   source order of call sites in exclusive branches says nothing about behaviour (swapping the two branches of pinLsHandler
   must not break this obligation); the order in which a request really issues its calls is compared case by case by the
   correspondence (r_ops / proxy_ops_faithful). *)
Definition rpc_eqb (a b : string * string) : bool := String.eqb (fst a) (fst b) && String.eqb (snd a) (snd b).
Definition rpc_count (x : string * string) (l : list (string * string)) : nat := List.length (filter (rpc_eqb x) l).
Definition rpc_perm_b (l1 l2 : list (string * string)) : bool :=
  Nat.eqb (List.length l1) (List.length l2) && forallb (fun x => Nat.eqb (rpc_count x l1) (rpc_count x l2)) l1.
Definition rpcs_same (a b : list (string * list (string * string))) : bool :=
  Nat.eqb (List.length a) (List.length b) &&
  forallb (fun p => String.eqb (fst (fst p)) (fst (snd p)) && rpc_perm_b (snd (fst p)) (snd (snd p))) (combine a b).

Lemma handler_rpcs_are : rpcs_same handler_rpcs [
  ("pinHandler", [("Cluster", "PinPath")]);
  ("unpinHandler", [("Cluster", "UnpinPath")]);
  ("pinLsHandler", [("Cluster", "PinGet"); ("Cluster", "Pins")]);
  ("pinUpdateHandler", [("IPFSConnector", "Resolve"); ("Cluster", "PinPath"); ("Cluster", "Unpin")]);
  ("addHandler", [("adderutils", "AddMultipartHTTPHandler"); ("Cluster", "Unpin")]);
  ("repoStatHandler", [("Consensus", "Peers"); ("IPFSConnector", "RepoStat")]);
  ("repoGCHandler", [("Cluster", "RepoGC")])] = true.
Proof. vm_compute. reflexivity. Qed.

(* ------------------------------------------------------------------------------------------ *)
(* template matching over literal prefixes                                                    *)
(* ------------------------------------------------------------------------------------------ *)
Lemma match_lit l : forall segs,
  match_segs (lit l) segs = match strip_prefix l segs with Some [] => Some [] | _ => None end.
Proof.
  induction l as [|a l IH]; intros segs; simpl.
  - destruct segs; reflexivity.
  - destruct segs as [|x segs]; [reflexivity|].
    destruct (String.eqb a x); [apply IH | reflexivity].
Qed.

Lemma match_lit_var l n : forall segs,
  match_segs (lit l ++ [TVar n]) segs =
  match strip_prefix l segs with
  | Some [x] => if String.eqb x "" then None else Some [(n, x)]
  | _ => None end.
Proof.
  induction l as [|a l IH]; intros segs; simpl.
  - destruct segs as [|x [|y r]]; simpl; try reflexivity; destruct (String.eqb x ""); reflexivity.
  - destruct segs as [|x segs]; [reflexivity|].
    destruct (String.eqb a x); [apply IH | reflexivity].
Qed.

Lemma first_match_expand tbl segs : first_match (expand tbl) segs = spec_find tbl segs.
Proof.
  induction tbl as [|[[base h] sl] tbl IH]; [reflexivity|].
  unfold expand; fold expand. cbn [flat_map].
  destruct sl; cbn [app first_match spec_find andb].
  - rewrite match_lit_var.
    destruct (strip_prefix ("" :: base) segs) as [[|x [|y r]]|] eqn:E.
    + rewrite match_lit, E. reflexivity.
    + destruct (String.eqb x "") eqn:Ex; cbn [negb].
      * rewrite match_lit, E. apply IH.
      * reflexivity.
    + rewrite match_lit, E. apply IH.
    + rewrite match_lit, E. apply IH.
  - rewrite match_lit.
    destruct (strip_prefix ("" :: base) segs) as [[|x [|y r]]|] eqn:E; try apply IH. reflexivity.
Qed.

(* the model's classification is the property's own description of what is hijacked *)
Lemma classify_is_spec m p : classify m p = spec_class m p.
Proof.
  unfold classify, classify_with, spec_class.
  rewrite table_first_match, methods_are, first_match_expand. reflexivity.
Qed.

(* strip_prefix characterised *)
Lemma strip_prefix_spec l : forall segs r, strip_prefix l segs = Some r <-> segs = l ++ r.
Proof.
  induction l as [|a l IH]; intros segs r; simpl.
  - split; [intros H; inversion H; reflexivity | intros ->; reflexivity].
  - destruct segs as [|x segs].
    + split; [discriminate | intros H; discriminate].
    + destruct (String.eqb a x) eqn:E.
      * apply String.eqb_eq in E. subst x. rewrite IH. split; [intros ->; reflexivity | intros H; inversion H; reflexivity].
      * apply String.eqb_neq in E. split; [discriminate | intros H; inversion H; congruence].
Qed.

(* explicit statement: Hijack iff the method is one of the three and the path's '/'-separated segments are one
   of the seven listed paths, or one of the three with a slash form followed by one non-empty segment *)
Definition listed (segs : list string) (h : handler) (a : option string) : Prop :=
  exists base sl, In (base, h, sl) spec_paths /\
    ((segs = "" :: base /\ a = None) \/ (sl = true /\ exists x, x <> "" /\ segs = "" :: base ++ [x] /\ a = Some x)).

Lemma spec_find_sound tbl segs h a : spec_find tbl segs = Hijack h a ->
  exists base sl, In (base, h, sl) tbl /\
    ((segs = "" :: base /\ a = None) \/ (sl = true /\ exists x, x <> "" /\ segs = "" :: base ++ [x] /\ a = Some x)).
Proof.
  induction tbl as [|[[base h'] sl] tbl IH]; [discriminate|].
  cbn [spec_find]. intros H.
  destruct (strip_prefix ("" :: base) segs) as [[|x [|y r]]|] eqn:E.
  - inversion H; subst. exists base, sl. split; [left; reflexivity|]. left. apply strip_prefix_spec in E. rewrite app_nil_r in E. auto.
  - destruct (sl && negb (String.eqb x "")) eqn:C.
    + inversion H; subst. apply andb_prop in C as [C1 C2]. subst sl. apply negb_true_iff in C2. apply String.eqb_neq in C2.
      exists base, true. split; [left; reflexivity|]. right. split; [reflexivity|]. exists x. apply strip_prefix_spec in E. auto.
    + destruct (IH H) as (b & s & Hin & Hc). exists b, s. split; [right; exact Hin | exact Hc].
  - destruct (IH H) as (b & s & Hin & Hc). exists b, s. split; [right; exact Hin | exact Hc].
  - destruct (IH H) as (b & s & Hin & Hc). exists b, s. split; [right; exact Hin | exact Hc].
Qed.

Lemma classify_hijack_listed m p h a : classify m p = Hijack h a -> In m spec_methods /\ listed (segments p) h a.
Proof.
  rewrite classify_is_spec. unfold spec_class, str_in. intros H.
  destruct (existsb (String.eqb m) spec_methods) eqn:E; [|discriminate].
  split.
  - apply existsb_exists in E as (x & Hin & Hx). apply String.eqb_eq in Hx. subst. exact Hin.
  - apply spec_find_sound in H. exact H.
Qed.

(* the listed paths do not overlap: completeness by computation on the concrete table *)
Lemma classify_exact_complete m base h sl p :
  In m spec_methods -> In (base, h, sl) spec_paths -> segments p = "" :: base -> classify m p = Hijack h None.
Proof.
  intros Hm Hin Hs. rewrite classify_is_spec. unfold spec_class, str_in.
  replace (existsb (String.eqb m) spec_methods) with true.
  2:{ symmetry. apply existsb_exists. exists m. split; [exact Hm | apply String.eqb_refl]. }
  rewrite Hs. simpl in Hin.
  repeat (destruct Hin as [Hin|Hin]; [inversion Hin; subst; reflexivity|]). contradiction.
Qed.

Lemma classify_slash_complete m base h p x :
  In m spec_methods -> In (base, h, true) spec_paths -> x <> "" -> segments p = "" :: base ++ [x] -> classify m p = Hijack h (Some x).
Proof.
  intros Hm Hin Hx Hs. rewrite classify_is_spec. unfold spec_class, str_in.
  replace (existsb (String.eqb m) spec_methods) with true.
  2:{ symmetry. apply existsb_exists. exists m. split; [exact Hm | apply String.eqb_refl]. }
  rewrite Hs. apply String.eqb_neq in Hx. simpl in Hin.
  repeat (destruct Hin as [Hin|Hin]; [inversion Hin; subst; cbn; rewrite ?String.eqb_refl; cbn; rewrite Hx; reflexivity|]). contradiction.
Qed.

Lemma classify_relay_method m p : ~ In m spec_methods -> classify m p = Relay.
Proof.
  intros H. rewrite classify_is_spec. unfold spec_class, str_in.
  destruct (existsb (String.eqb m) spec_methods) eqn:E; [|reflexivity].
  apply existsb_exists in E as (x & Hin & Hx). apply String.eqb_eq in Hx. subst. contradiction.
Qed.

(* ------------------------------------------------------------------------------------------ *)
(* handlers                                                                                   *)
(* ------------------------------------------------------------------------------------------ *)
Definition hcalls (r : hres) : list (call * bool) := fst (fst (fst r)).
Definition hstatus (r : hres) : N := snd (fst (fst r)).
Definition hserr (r : hres) : bool := snd (fst r).

Definition none_failedb (cs : list (call * bool)) : bool := forallb (fun c => negb (snd c)) cs.
Definition no_mutationb (cs : list (call * bool)) : bool := forallb (fun c => negb (mutating (fst c))) cs.
Definition herrorb (h : handler) (r : hres) : bool := (400 <=? hstatus r)%N || (handler_eqb h HAdd && hserr r).

Definition none_failed (cs : list (call * bool)) : Prop := forall c, In c cs -> snd c = false.
Definition no_mutation (cs : list (call * bool)) : Prop := forall c, In c cs -> mutating (fst c) = false.
Definition herror (h : handler) (r : hres) : Prop := (400 <= hstatus r)%N \/ (h = HAdd /\ hserr r = true).

Lemma none_failed_b cs : none_failed cs <-> none_failedb cs = true.
Proof.
  unfold none_failed, none_failedb. rewrite forallb_forall. split; intros H c Hc; specialize (H c Hc).
  - rewrite H; reflexivity.
  - apply negb_true_iff in H; exact H.
Qed.
Lemma no_mutation_b cs : no_mutation cs <-> no_mutationb cs = true.
Proof.
  unfold no_mutation, no_mutationb. rewrite forallb_forall. split; intros H c Hc; specialize (H c Hc).
  - rewrite H; reflexivity.
  - apply negb_true_iff in H; exact H.
Qed.
Lemma herror_b h r : herror h r <-> herrorb h r = true.
Proof.
  unfold herror, herrorb. rewrite orb_true_iff, andb_true_iff, N.leb_le.
  split; (intros [H|[H1 H2]]; [left; exact H | right; split; [|exact H2]]).
  - subst; reflexivity.
  - destruct h; try discriminate; reflexivity.
Qed.

Ltac break_match :=
  repeat match goal with
  | |- context[match ?x with _ => _ end] =>
      lazymatch x with
      | context[match _ with _ => _ end] => fail
      | _ => destruct x eqn:?
      end
  end.

Lemma stat_calls_no_mutation e n : forall k, no_mutationb (stat_calls e n k) = true.
Proof. induction n; intros k; simpl; [reflexivity | apply IHn]. Qed.

(* a hijacked request answered with an error, none of whose RPCs failed, issued no mutating call *)
Lemma handle_error_no_op_b h e mp q :
  h <> HUnknown -> herrorb h (handle h e mp q) = true -> none_failedb (hcalls (handle h e mp q)) = true ->
  no_mutationb (hcalls (handle h e mp q)) = true.
Proof.
  intros Hh.
  destruct h; try congruence; cbn [handle];
    unfold h_pinop, h_pinls, h_pinupdate, h_add, add_fail, h_repostat, h_repogc, herr, hok, herrorb, hstatus, hcalls, hserr;
    try (break_match; cbn; intros; try reflexivity; try discriminate; fail).
Qed.

Lemma handle_error_no_op h e mp q :
  h <> HUnknown -> herror h (handle h e mp q) -> none_failed (hcalls (handle h e mp q)) -> no_mutation (hcalls (handle h e mp q)).
Proof.
  rewrite herror_b, none_failed_b, no_mutation_b. apply handle_error_no_op_b.
Qed.

(* ------------------------------------------------------------------------------------------ *)
(* successful answers performed exactly the requested operation                               *)
(* ------------------------------------------------------------------------------------------ *)
Definition hnum (r : hres) : N := snd r.
Definition obs_of_h (r : hres) : obs := mk_obs (hcalls r) [] (hstatus r) (hserr r) "" (hnum r).

Lemma pmode_eqb_refl m : pmode_eqb m m = true.
Proof. destruct m; reflexivity. Qed.
Lemma call_eqb_refl c : call_eqb c c = true.
Proof. destruct c; cbn; rewrite ?String.eqb_refl, ?Z.eqb_refl, ?pmode_eqb_refl; reflexivity. Qed.
Lemma callf_eqb_refl c : callf_eqb c c = true.
Proof. destruct c as [c b]; unfold callf_eqb; cbn. rewrite call_eqb_refl. destruct b; reflexivity. Qed.
Lemma calls_eqb_refl l : list_eqb callf_eqb l l = true.
Proof. induction l; cbn; [reflexivity | rewrite callf_eqb_refl, IHl; reflexivity]. Qed.
Lemma dreq_eqb_refl d : dreq_eqb d d = true.
Proof. destruct d as [[m u] b]; cbn. rewrite !String.eqb_refl; reflexivity. Qed.

Lemma stat_calls_len e n : forall k, List.length (stat_calls e n k) = n.
Proof. induction n; intros k; simpl; [reflexivity | rewrite IHn; reflexivity]. Qed.

Lemma stat_calls_all e n : forall k, forallb (fun c => call_eqb (fst c) CRepoStat) (stat_calls e n k) = true.
Proof. induction n; intros k; cbn; [reflexivity | apply IHn]. Qed.

Ltac refl_eqb := rewrite ?calls_eqb_refl, ?callf_eqb_refl, ?String.eqb_refl, ?Z.eqb_refl, ?N.eqb_refl, ?Nat.eqb_refl, ?pmode_eqb_refl, ?call_eqb_refl; cbn.

Lemma handle_faithful h e mp q :
  h <> HUnknown -> herrorb h (handle h e mp q) = false -> (none_failedb (hcalls (handle h e mp q)) = true \/ h = HRepoStat) ->
  faithful h e q (obs_of_h (handle h e mp q)) = true.
Proof.
  intros Hh.
  destruct h; try congruence; cbn [handle];
    unfold h_pinop, h_pinls, h_pinupdate, h_add, add_fail, h_repogc, herr, hok, herrorb, hstatus, hcalls, hserr, obs_of_h, faithful, expected_ops, hnum, ok_calls;
    try (break_match; cbn; intros He Hn; try discriminate; try (destruct Hn as [Hn|Hn]; discriminate);
         repeat (refl_eqb; try reflexivity); fail).
  (* repo stat *)
  unfold h_repostat, herr. destruct (fails_at e "Consensus.Peers" 0); cbn; intros He Hn; try discriminate.
  rewrite stat_calls_all, stat_calls_len, Nat.eqb_refl, N.eqb_refl. reflexivity.
Qed.

(* ------------------------------------------------------------------------------------------ *)
(* whole requests                                                                             *)
(* ------------------------------------------------------------------------------------------ *)
Lemma run_redirect rq e : e_redirect e = true -> run rq e = mk_res [] [] 301 false None 0.
Proof. intros H. unfold run. rewrite H. reflexivity. Qed.

Lemma run_relay rq e : e_redirect e = false -> classify (rq_meth rq) (rq_path rq) = Relay ->
  run rq e = mk_res [] [(rq_meth rq, rq_uri rq, rq_body rq)] (e_dstatus e) false
                    (Some (if String.eqb (rq_meth rq) "HEAD" then "" else e_dbody e)) 0.
Proof. intros H1 H2. unfold run. rewrite H1, H2. reflexivity. Qed.

Definition eff_query (rq : req) (sl : option string) : qvals :=
  match sl with Some a => qset "arg" a (rq_query rq) | None => rq_query rq end.

Lemma run_hijack rq e h sl : e_redirect e = false -> classify (rq_meth rq) (rq_path rq) = Hijack h sl ->
  let r := handle h e (rq_mp rq) (eff_query rq sl) in
  run rq e = mk_res (hcalls r) (if e_fresh e then [("POST", e_extract e, "")] else []) (hstatus r) (hserr r) None (hnum r).
Proof.
  intros H1 H2. unfold run. rewrite H1, H2. unfold eff_query.
  destruct (handle h e (rq_mp rq) match sl with Some a => qset "arg" a (rq_query rq) | None => rq_query rq end) as [[[cs st] se] num].
  reflexivity.
Qed.

(* every routed handler is one the model knows *)
Lemma spec_paths_known base h sl : In (base, h, sl) spec_paths -> h <> HUnknown.
Proof. simpl. intros H. repeat (destruct H as [H|H]; [inversion H; subst; discriminate|]). contradiction. Qed.

Lemma classify_known m p h sl : classify m p = Hijack h sl -> h <> HUnknown.
Proof. intros H. apply classify_hijack_listed in H as (_ & base & s & Hin & _). eapply spec_paths_known; exact Hin. Qed.

Definition obs_of (r : result) : obs :=
  mk_obs (r_calls r) (r_dreqs r) (r_status r) (r_serr r) (match r_body r with Some b => b | None => "" end) (r_num r).

Lemma any_failed_neg cs : any_failed cs = negb (none_failedb cs).
Proof. unfold any_failed, none_failedb. induction cs as [|c l IH]; cbn; [reflexivity|]. rewrite IH. destruct (snd c); reflexivity. Qed.

Lemma no_mutation_nil cs : no_mutationb cs = true -> is_nil (mut_calls cs) = true.
Proof.
  unfold mut_calls, no_mutationb. induction cs as [|c l IH]; cbn; [reflexivity|].
  intros H. apply andb_prop in H as [H1 H2]. apply negb_true_iff in H1. rewrite H1. apply IH; exact H2.
Qed.

(* the model satisfies the boolean form of the property on every request, parse outcome and failure script *)
Lemma model_satisfies_spec rq e :
  mutating_dreq ("POST", e_extract e, "") = false -> spec_codes rq e (obs_of (run rq e)) = [].
Proof.
  intros Hx. unfold spec_codes.
  destruct (e_redirect e) eqn:Hr.
  - rewrite (run_redirect rq e Hr). reflexivity.
  - rewrite <- classify_is_spec.
    destruct (classify (rq_meth rq) (rq_path rq)) as [|h sl] eqn:Hc.
    + rewrite (run_relay rq e Hr Hc). unfold relay_identity, obs_of; cbn.
      rewrite ?String.eqb_refl, ?N.eqb_refl; cbn. rewrite ?String.eqb_refl; reflexivity.
    + pose proof (classify_known _ _ _ _ Hc) as Hk.
      rewrite (run_hijack rq e h sl Hr Hc). cbv zeta.
      fold (eff_query rq sl).
      set (r := handle h e (rq_mp rq) (eff_query rq sl)).
      unfold obs_of; cbn [r_calls r_dreqs r_status r_serr r_body r_num o_calls o_dreqs o_status o_serr].
      (* 13: nothing mutating is forwarded *)
      assert (E13 : existsb mutating_dreq (if e_fresh e then [("POST", e_extract e, "")] else []) = false).
      { destruct (e_fresh e); cbn [existsb]; [rewrite Hx|]; reflexivity. }
      rewrite E13. cbn [app].
      (* 10: only the header extraction reaches the daemon *)
      match goal with |- context[forallb ?f ?l] => assert (E10 : forallb f l = true) end.
      { destruct (e_fresh e); cbn; [rewrite String.eqb_refl|]; reflexivity. }
      rewrite E10. rewrite app_nil_r.
      assert (Ean := any_failed_neg (hcalls r)).
      assert (Eerr : answered_error h (mk_obs (hcalls r) (if e_fresh e then [("POST", e_extract e, "")] else []) (hstatus r) (hserr r) "" (hnum r)) = herrorb h r).
      { unfold answered_error, herrorb; cbn. destruct h; cbn; rewrite ?andb_false_r, ?orb_false_r; reflexivity. }
      rewrite Eerr, Ean.
      destruct (herrorb h r) eqn:He; cbn [andb negb].
      * (* 12 *)
        destruct (none_failedb (hcalls r)) eqn:Hn; cbn [negb andb app]; [|reflexivity].
        pose proof (handle_error_no_op_b h e (rq_mp rq) (eff_query rq sl) Hk He Hn) as Hm. fold r in Hm.
        assert (Em := no_mutation_nil _ Hm).
        rewrite Em. reflexivity.
      * (* 14 *)
        destruct (none_failedb (hcalls r)) eqn:Hn; cbn [negb orb andb].
        -- assert (Hf := handle_faithful h e (rq_mp rq) (eff_query rq sl) Hk He (or_introl Hn)). fold r in Hf.
           unfold obs_of_h in Hf.
           replace (faithful h e (eff_query rq sl) (mk_obs (hcalls r) (if e_fresh e then [("POST", e_extract e, "")] else []) (hstatus r) (hserr r) "" (hnum r)))
             with (faithful h e (eff_query rq sl) (mk_obs (hcalls r) [] (hstatus r) (hserr r) "" (hnum r))) by (destruct h; reflexivity).
           rewrite Hf. reflexivity.
        -- destruct (handler_eqb h HRepoStat) eqn:Hrs; cbn [andb]; [|reflexivity].
           assert (h = HRepoStat) by (destruct h; try discriminate; reflexivity). subst h.
           assert (Hf := handle_faithful HRepoStat e (rq_mp rq) (eff_query rq sl) Hk He (or_intror eq_refl)). fold r in Hf.
           unfold obs_of_h in Hf. cbn [faithful] in *. cbn [o_calls o_num] in *. rewrite Hf. reflexivity.
Qed.

Lemma run_hijack_dreqs rq e h sl : e_redirect e = false -> classify (rq_meth rq) (rq_path rq) = Hijack h sl ->
  r_dreqs (run rq e) = if e_fresh e then [("POST", e_extract e, "")] else [].
Proof. intros H1 H2. rewrite (run_hijack rq e h sl H1 H2). reflexivity. Qed.

Lemma model_satisfies_spec_okb rq e :
  mutating_dreq ("POST", e_extract e, "") = false -> spec_okb rq e (obs_of (run rq e)) = true.
Proof. intros H. unfold spec_okb. rewrite (model_satisfies_spec rq e H). reflexivity. Qed.
