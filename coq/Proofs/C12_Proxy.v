(* C12 — lemmas about the proxy model. *)
From V Require Import Base.Common Base.C11_Http Gen.ProxyRoutes Model.C12_Proxy Model.C12_Check.
Open Scope string_scope.
Open Scope list_scope.

(* the routing table the property describes, written by hand: the generated one must compile to it *)
Definition lit (l : list string) : list tseg := map TLit l.
Definition expected_routes : list croute := [
  (lit [""; "api"; "v0"; "pin"; "add"] ++ [TVar "arg"], HPin, true);
  (lit [""; "api"; "v0"; "pin"; "add"], HPin, false);
  (lit [""; "api"; "v0"; "pin"; "rm"] ++ [TVar "arg"], HUnpin, true);
  (lit [""; "api"; "v0"; "pin"; "rm"], HUnpin, false);
  (lit [""; "api"; "v0"; "pin"; "ls"] ++ [TVar "arg"], HPinLs, true);
  (lit [""; "api"; "v0"; "pin"; "ls"], HPinLs, false);
  (lit [""; "api"; "v0"; "pin"; "update"], HPinUpdate, false);
  (lit [""; "api"; "v0"; "add"], HAdd, false);
  (lit [""; "api"; "v0"; "repo"; "stat"], HRepoStat, false);
  (lit [""; "api"; "v0"; "repo"; "gc"], HRepoGC, false)
].

Lemma table_compiles : compile_routes hijack_prefix hijack_routes = expected_routes.
Proof. vm_compute. reflexivity. Qed.

Lemma methods_are : hijack_methods = ["POST"; "GET"; "PUT"].
Proof. reflexivity. Qed.

Lemma catch_all_is : catch_all = [("/", "reverseProxy")].
Proof. reflexivity. Qed.
