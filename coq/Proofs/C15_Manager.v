(* C15 — the configuration Manager: what is displayed, what is saved, load / save / load, totality of load.
   Generic part: for every implementation of the component interface that satisfies the per-section statements.
   Instantiation: the section interpreter on every coherent table, and on the 14 generated tables. *)
From Coq Require Import String Ascii List ZArith Bool NArith Lia.
From V Require Import Model.C15_Config Model.C15_Valid Model.C15_Manager Gen.ConfigSchemas Proofs.C15_Config Proofs.C15_Tables.
Import ListNotations.
Open Scope string_scope.

(* ---------------------------------------------------------------------------------------------- *)
(* keys and files *)
Lemma skey_eqb_spec a b : reflect (a = b) (skey_eqb a b).
Proof. destruct a as [a1 a2], b as [b1 b2]. unfold skey_eqb. simpl.
  destruct (String.eqb_spec a1 b1) as [->|N]; simpl.
  - destruct (String.eqb_spec a2 b2) as [->|N]; constructor; congruence.
  - constructor. congruence. Qed.

Lemma skey_eqb_refl a : skey_eqb a a = true.
Proof. destruct (skey_eqb_spec a a); congruence. Qed.

Lemma fget_fset_same k r f : fget k (fset k r f) = Some r.
Proof. induction f as [|[k' r'] t IH]; simpl.
  - now rewrite skey_eqb_refl.
  - destruct (skey_eqb k k') eqn:E; simpl; rewrite ?skey_eqb_refl, ?E; auto. Qed.

Lemma fget_fset_other k k' r f : k <> k' -> fget k' (fset k r f) = fget k' f.
Proof. intros N. induction f as [|[k2 r2] t IH]; simpl.
  - destruct (skey_eqb_spec k' k); congruence.
  - destruct (skey_eqb_spec k k2) as [->|N2]; simpl.
    + destruct (skey_eqb_spec k' k2); congruence.
    + destruct (skey_eqb k' k2); auto. Qed.

Lemma fset_in e k r f : In e (fset k r f) -> e = (k, r) \/ In e f.
Proof. induction f as [|[k' r'] t IH]; simpl.
  - intros [H|[]]; auto.
  - destruct (skey_eqb k k'); simpl; intros [H|H]; auto. destruct (IH H); auto. Qed.

Lemma fset_keys_known k r f : known_key k = true -> forallb (fun e => known_key (fst e)) f = true ->
  forallb (fun e => known_key (fst e)) (fset k r f) = true.
Proof. intros K. induction f as [|[k' r'] t IH]; simpl; intros H.
  - now rewrite K.
  - apply andb_true_iff in H. destruct H as [H1 H2]. destruct (skey_eqb k k'); simpl.
    + now rewrite K, H2.
    + now rewrite H1, IH. Qed.

Lemma fget_retain k f : fget k (retain f) = if known_key k then fget k f else None.
Proof. induction f as [|[k' r'] t IH]; simpl.
  - now destruct (known_key k).
  - destruct (known_key k') eqn:K'; simpl.
    + destruct (skey_eqb_spec k k') as [->|N]; [now rewrite K'|exact IH].
    + destruct (skey_eqb_spec k k') as [->|N]; [now rewrite IH, K'|exact IH]. Qed.

Lemma retain_known f : forallb (fun e => known_key (fst e)) (retain f) = true.
Proof. apply forallb_forall. intros e H. apply filter_In in H. tauto. Qed.

Lemma retain_id f : forallb (fun e => known_key (fst e)) f = true -> retain f = f.
Proof. induction f as [|e t IH]; simpl; auto. intros H. apply andb_true_iff in H. destruct H as [H1 H2].
  rewrite H1. f_equal. auto. Qed.

(* ---------------------------------------------------------------------------------------------- *)
(* put_all: what the registered components write into a jsonConfig *)
Lemma put_all_in out reg : forall cfgs base k r,
  In (k, r) (put_all out reg cfgs base) ->
  In (k, r) base \/ exists c x, In (c, x) (combine reg cfgs) /\ k = ckey c /\ r = SDoc (out (cimpl c) x).
Proof. induction reg as [|c0 rg IH]; intros cfgs base k r H; simpl in H; auto.
  destruct cfgs as [|x0 xr]; auto.
  destruct (IH _ _ _ _ H) as [B|[c [x [I [E1 E2]]]]].
  - apply fset_in in B. destruct B as [B|B]; auto. inversion B; subst. right. exists c0, x0. simpl. auto.
  - right. exists c, x. simpl. auto. Qed.

Lemma put_all_other out reg : forall cfgs base k,
  ~ In k (map ckey reg) -> fget k (put_all out reg cfgs base) = fget k base.
Proof. induction reg as [|c0 rg IH]; intros cfgs base k N; simpl; auto.
  destruct cfgs as [|x0 xr]; auto. simpl in N.
  rewrite IH by tauto. apply fget_fset_other. intros E. apply N. now left. Qed.

Lemma put_all_reg out reg : forall cfgs base c x,
  NoDup (map ckey reg) -> In (c, x) (combine reg cfgs) ->
  fget (ckey c) (put_all out reg cfgs base) = Some (SDoc (out (cimpl c) x)).
Proof. induction reg as [|c0 rg IH]; intros cfgs base c x ND I; simpl in I; [tauto|].
  destruct cfgs as [|x0 xr]; [destruct I|]. simpl in ND. inversion ND as [|? ? Hnin ND']; subst.
  simpl. destruct I as [I|I].
  - inversion I; subst. rewrite put_all_other by exact Hnin. apply fget_fset_same.
  - now apply IH. Qed.

Lemma put_all_known out reg : forall cfgs base,
  forallb (fun c => known_key (ckey c)) reg = true -> forallb (fun e => known_key (fst e)) base = true ->
  forallb (fun e => known_key (fst e)) (put_all out reg cfgs base) = true.
Proof. induction reg as [|c0 rg IH]; intros cfgs base K B; simpl; auto.
  destruct cfgs as [|x0 xr]; auto. simpl in K. apply andb_true_iff in K. destruct K as [K1 K2].
  apply IH; auto. now apply fset_keys_known. Qed.

(* ---------------------------------------------------------------------------------------------- *)
(* what a component has to satisfy (the per-section statements, through the interface) *)
Definition rt_ok (i : cif) : Prop :=
  forall r x, i_load i r = Some x -> i_valid i x = true /\ i_load i (SDoc (i_save i x)) = Some x.
Definition def_ok (i : cif) : Prop :=
  i_valid i (i_default i) = true -> i_load i (SDoc (i_save i (i_default i))) = Some (i_default i).
Definition disp_ok (i : cif) : Prop :=
  forall x n v, In (n, v) (i_display i x) -> secret_name n = true -> v = hidden_marker.
(* a configuration the component keeps across a load that has no section for it (only the cluster component does) *)
Definition stable (i : cif) (p : cfg) : Prop := i_valid i p = true -> i_load i (SDoc (i_save i p)) = Some p.
Definition pre_stable (reg : list comp) (pre : list cfg) : Prop :=
  Forall2 (fun c p => skey_eqb (ckey c) cluster_key = true -> stable (cimpl c) p) reg pre.

(* ---------------------------------------------------------------------------------------------- *)
(* the displayable form *)
Theorem display_registered_l reg m k r :
  In (k, r) (mgr_display reg m) ->
  exists c x, In (c, x) (combine reg (m_cfgs m)) /\ k = ckey c /\ r = SDoc (i_display (cimpl c) x).
Proof. unfold mgr_display. intros H. apply put_all_in in H. destruct H as [[]|H]. exact H. Qed.

Lemma fget_in k r f : fget k f = Some r -> exists k', k' = k /\ In (k', r) f.
Proof. induction f as [|[k' r'] t IH]; simpl; [discriminate|].
  destruct (skey_eqb_spec k k') as [->|N].
  - intros H. inversion H; subst. exists k'. auto.
  - intros H. destruct (IH H) as [k2 [E I]]. exists k2. auto. Qed.

(* a section of the file without a registered component is absent from the displayable form, whatever the file *)
Theorem display_unregistered_absent_l reg m k : ~ In k (map ckey reg) -> fget k (mgr_display reg m) = None.
Proof. intros N. unfold mgr_display. now rewrite put_all_other. Qed.

Theorem display_hides_generic reg m :
  (forall c, In c reg -> disp_ok (cimpl c)) ->
  forall k r, In (k, r) (mgr_display reg m) ->
    In k (map ckey reg) /\
    exists d, r = SDoc d /\ forall n v, In (n, v) d -> secret_name n = true -> v = hidden_marker.
Proof. intros OK k r H. apply display_registered_l in H. destruct H as [c [x [I [-> ->]]]].
  pose proof (in_combine_l _ _ _ _ I) as Ic. split; [now apply in_map|].
  eexists. split; [reflexivity|]. intros n v. apply (OK c Ic). Qed.

Theorem display_hidesb_generic reg m :
  (forall c, In c reg -> disp_ok (cimpl c)) -> display_hidesb (mgr_display reg m) = true.
Proof. intros OK. unfold display_hidesb. apply forallb_forall. intros [k r] H.
  destruct (display_hides_generic reg m OK k r H) as [_ [d [-> Hd]]]. simpl.
  apply forallb_forall. intros [n v] I. destruct (secret_name n) eqn:E; simpl; auto.
  rewrite (Hd n v I E). reflexivity. Qed.

(* ---------------------------------------------------------------------------------------------- *)
(* the saved form *)
Theorem save_keeps_l reg m f' :
  mgr_save reg m = Some f' ->
  (forall k, ~ In k (map ckey reg) -> fget k f' = fget k (loaded_json m)) /\
  (NoDup (map ckey reg) -> forall c x, In (c, x) (combine reg (m_cfgs m)) ->
     fget (ckey c) f' = Some (SDoc (i_save (cimpl c) x))).
Proof. unfold mgr_save. destruct (mgr_valid reg m); [|discriminate]. intros H. inversion H; subst. split.
  - intros k N. now apply put_all_other.
  - intros ND c x I. now apply put_all_reg. Qed.

(* ---------------------------------------------------------------------------------------------- *)
(* load *)
Lemma load_all_length reg : forall pre f xs, load_all reg pre f = Some xs -> length xs = length reg.
Proof. induction reg as [|c rg IH]; intros pre f xs H; simpl in H.
  - now inversion H.
  - destruct pre as [|p pr]; [discriminate|]. destruct (load_comp c p f); [|discriminate].
    apply option_map_cons_some in H. destruct H as [xr [H ->]]. simpl. f_equal. eauto. Qed.

Lemma all_valid_length reg : forall xs, all_valid reg xs = true -> length xs = length reg.
Proof. induction reg as [|c rg IH]; intros [|x xr] H; simpl in H; try discriminate; auto.
  apply andb_true_iff in H. simpl. f_equal. apply IH. tauto. Qed.

Theorem load_spec_mgr reg m0 f m :
  mgr_load reg m0 (Some f) = Some m <->
  has_cluster reg = true /\ load_all reg (m_cfgs m0) f = Some (m_cfgs m) /\ all_valid reg (m_cfgs m) = true
  /\ m_json m = Some (retain f).
Proof. unfold mgr_load, mgr_valid. split.
  - destruct (load_all reg (m_cfgs m0) f) as [xs|]; [|discriminate]. simpl.
    destruct (has_cluster reg); [|discriminate]. simpl. destruct (all_valid reg xs) eqn:A; [|discriminate].
    intros H. inversion H; subst. simpl. auto.
  - intros [HC [L [A J]]]. rewrite L. simpl. rewrite HC, A. simpl. destruct m as [xs j]. simpl in *. now rewrite J. Qed.

Theorem load_bytes_rejected reg m0 : mgr_load reg m0 None = None.
Proof. reflexivity. Qed.

Theorem load_valid_mgr reg m0 bytes m : mgr_load reg m0 bytes = Some m -> mgr_valid reg m = true.
Proof. destruct bytes as [f|]; [|discriminate]. intros H. apply load_spec_mgr in H. unfold mgr_valid.
  destruct H as [-> [_ [-> _]]]. reflexivity. Qed.

Lemma load_all_some_each reg : forall pre f xs c, load_all reg pre f = Some xs -> In c reg ->
  exists p x, load_comp c p f = Some x.
Proof. induction reg as [|c0 rg IH]; intros pre f xs c H I; [destruct I|]. simpl in H.
  destruct pre as [|p pr]; [discriminate|]. destruct (load_comp c0 p f) as [x0|] eqn:L; [|discriminate].
  apply option_map_cons_some in H. destruct H as [xr [H ->]]. destruct I as [<-|I]; eauto. Qed.

(* a section that its registered component refuses makes the whole load an error (a value of the function, not a crash) *)
Theorem load_rejects_mgr reg m0 f c r :
  In c reg -> fpresent (ckey c) f = Some r -> i_load (cimpl c) r = None -> mgr_load reg m0 (Some f) = None.
Proof. intros I P L. destruct (mgr_load reg m0 (Some f)) as [m|] eqn:E; auto. exfalso.
  apply load_spec_mgr in E. destruct E as [_ [LA _]].
  destruct (load_all_some_each _ _ _ _ c LA I) as [p [x Lc]]. unfold load_comp in Lc. rewrite P in Lc. congruence. Qed.

(* so does a registered component whose resulting configuration fails validation, and a missing cluster component *)
Theorem load_rejects_invalid_mgr reg m0 f xs :
  load_all reg (m_cfgs m0) f = Some xs -> has_cluster reg && all_valid reg xs = false -> mgr_load reg m0 (Some f) = None.
Proof. intros L A. unfold mgr_load, mgr_valid. rewrite L. simpl. now rewrite A. Qed.

(* ---------------------------------------------------------------------------------------------- *)
(* load ; save ; load *)
Lemma load_all_reload reg : forall pre xs f f' pre',
  (forall c, In c reg -> rt_ok (cimpl c) /\ def_ok (cimpl c)) ->
  pre_stable reg pre ->
  load_all reg pre f = Some xs -> all_valid reg xs = true ->
  (forall c x, In (c, x) (combine reg xs) -> fget (ckey c) f' = Some (SDoc (i_save (cimpl c) x))) ->
  length pre' = length reg ->
  load_all reg pre' f' = Some xs.
Proof. induction reg as [|c rg IH]; intros pre xs f f' pre' OK PS L A G LEN; simpl in L.
  - inversion L. reflexivity.
  - destruct pre as [|p pr]; [discriminate|]. destruct (load_comp c p f) as [x|] eqn:LC; [|discriminate].
    apply option_map_cons_some in L. destruct L as [xr [L ->]].
    destruct pre' as [|p' pr']; [discriminate LEN|]. simpl in LEN.
    simpl in A. apply andb_true_iff in A. destruct A as [Ax Ar].
    inversion PS as [|? ? ? ? PSc PSr]; subst.
    assert (ST : i_load (cimpl c) (SDoc (i_save (cimpl c) x)) = Some x).
    { destruct (OK c (or_introl eq_refl)) as [RT DF]. unfold load_comp in LC.
      destruct (fpresent (ckey c) f) as [r0|].
      - now apply (RT r0 x).
      - destruct (skey_eqb (ckey c) cluster_key) eqn:EC; inversion LC; subst.
        + now apply PSc.
        + now apply DF. }
    simpl. unfold load_comp at 1. unfold fpresent. rewrite (G c x) by (simpl; auto). rewrite ST.
    assert (R : load_all rg pr' f' = Some xr).
    { apply (IH pr xr f f' pr'); auto.
      - intros c1 I. apply OK. now right.
      - intros c1 x1 I. apply G. simpl. auto. }
    rewrite R. reflexivity. Qed.

Theorem load_save_load_mgr reg m0 f m :
  NoDup (map ckey reg) -> forallb (fun c => known_key (ckey c)) reg = true ->
  (forall c, In c reg -> rt_ok (cimpl c) /\ def_ok (cimpl c)) ->
  pre_stable reg (m_cfgs m0) ->
  mgr_load reg m0 (Some f) = Some m ->
  mgr_valid reg m = true /\
  exists f', mgr_save reg m = Some f' /\
    (forall k, ~ In k (map ckey reg) -> fget k f' = if known_key k then fget k f else None) /\
    (forall c x, In (c, x) (combine reg (m_cfgs m)) -> fget (ckey c) f' = Some (SDoc (i_save (cimpl c) x))) /\
    forall m1, length (m_cfgs m1) = length reg -> mgr_load reg m1 (Some f') = Some (mkMgr (m_cfgs m) (Some f')).
Proof. intros ND KN OK PS L. pose proof (load_valid_mgr _ _ _ _ L) as MV. split; [exact MV|].
  apply load_spec_mgr in L. destruct L as [HC [LA [AV J]]].
  unfold mgr_save. rewrite MV. eexists. split; [reflexivity|].
  unfold loaded_json. rewrite J.
  assert (REG : forall c x, In (c, x) (combine reg (m_cfgs m)) ->
                fget (ckey c) (put_all i_save reg (m_cfgs m) (retain f)) = Some (SDoc (i_save (cimpl c) x))).
  { intros c x I. now apply put_all_reg. }
  split; [|split; [exact REG|]].
  - intros k N. rewrite put_all_other by exact N. apply fget_retain.
  - intros m1 LEN. apply load_spec_mgr. simpl. split; [exact HC|]. split; [|split; [exact AV|]].
    + eapply load_all_reload; eauto.
    + f_equal. symmetry. apply retain_id. apply put_all_known; [exact KN|apply retain_known]. Qed.

(* the configurations Default() produces are ones the cluster component may keep *)
Lemma pre_stable_default reg m : (forall c, In c reg -> def_ok (cimpl c)) -> pre_stable reg (m_cfgs (mgr_default reg m)).
Proof. unfold pre_stable, mgr_default. simpl. induction reg as [|c rg IH]; intros OK; simpl; constructor.
  - intros _. apply OK. now left.
  - apply IH. intros c1 I. apply OK. now right. Qed.

(* ---------------------------------------------------------------------------------------------- *)
(* the section interpreter satisfies the interface statements on every coherent table *)
Definition defaults_stable (S : schema) (V : validator) (orc : string -> bool) : Prop :=
  V orc (cget S (defaults S)) = true -> load S V orc (save S (defaults S)) = Some (defaults S).

Lemma cif_of_rt S V orc : schema_coherentb S = true -> rt_ok (cif_of S V orc).
Proof. intros CO r x. simpl. destruct r as [| |j]; simpl; try discriminate. now apply load_save_load_l. Qed.

Lemma cif_of_def S V orc : defaults_stable S V orc -> def_ok (cif_of S V orc).
Proof. intros D. exact D. Qed.

Lemma coherent_secrets S : schema_coherentb S = true -> forallb secret_tagged (sfields S) = true.
Proof. unfold schema_coherentb. intros H.
  apply andb_true_iff in H. destruct H as [H _]. apply andb_true_iff in H. destruct H as [H _].
  apply andb_true_iff in H. destruct H as [_ H]. exact H. Qed.

Lemma cif_of_disp S V orc : schema_coherentb S = true -> disp_ok (cif_of S V orc).
Proof. intros CO x n v. simpl. intros I SN. apply display_fields_in in I. destruct I as [f [Hf [<- Hm]]].
  apply Hm. pose proof (coherent_secrets S CO) as ST. rewrite forallb_forall in ST. specialize (ST f Hf).
  unfold secret_tagged in ST. unfold secret_name in SN. rewrite SN in ST. exact ST. Qed.

Definition regs_coherent (regs : list scomp) : Prop := Forall (fun sc => schema_coherentb (sc_schema sc) = true) regs.
Definition regs_defaults_stable (regs : list scomp) : Prop :=
  Forall (fun sc => defaults_stable (sc_schema sc) (sc_valid sc) (sc_orc sc)) regs.
Definition regs_wf (regs : list scomp) : Prop :=
  NoDup (map sc_key regs) /\ forallb (fun sc => known_key (sc_key sc)) regs = true.

Lemma map_ckey_comp_of regs : map ckey (map comp_of regs) = map sc_key regs.
Proof. rewrite map_map. reflexivity. Qed.

Theorem manager_display_hides_l regs m :
  regs_coherent regs ->
  forall k r, In (k, r) (mgr_display (map comp_of regs) m) ->
    In k (map sc_key regs) /\
    exists d, r = SDoc d /\ forall n v, In (n, v) d -> secret_name n = true -> v = hidden_marker.
Proof. intros CO k r H. rewrite <- map_ckey_comp_of. apply (display_hides_generic (map comp_of regs) m); auto.
  intros c I. apply in_map_iff in I. destruct I as [sc [<- I]]. unfold regs_coherent in CO. rewrite Forall_forall in CO.
  simpl. apply cif_of_disp. now apply CO. Qed.

Theorem manager_display_hidesb_l regs m : regs_coherent regs -> display_hidesb (mgr_display (map comp_of regs) m) = true.
Proof. intros CO. apply display_hidesb_generic.
  intros c I. apply in_map_iff in I. destruct I as [sc [<- I]]. unfold regs_coherent in CO. rewrite Forall_forall in CO.
  simpl. apply cif_of_disp. now apply CO. Qed.

(* every section of the file (whatever it holds) whose component is not registered is absent from the displayable form *)
Theorem manager_display_unregistered_absent_l (reg : list comp) (cfgs : list cfg) (f : file) k :
  ~ In k (map ckey reg) -> fget k (mgr_display reg (mkMgr cfgs (Some f))) = None.
Proof. apply display_unregistered_absent_l. Qed.

Theorem manager_save_keeps_unregistered_l reg m f' :
  mgr_save reg m = Some f' ->
  (forall k, ~ In k (map ckey reg) -> fget k f' = fget k (loaded_json m)) /\
  (NoDup (map ckey reg) -> forall c x, In (c, x) (combine reg (m_cfgs m)) ->
     fget (ckey c) f' = Some (SDoc (i_save (cimpl c) x))).
Proof. apply save_keeps_l. Qed.

Lemma regs_ok regs : regs_coherent regs -> regs_defaults_stable regs ->
  forall c, In c (map comp_of regs) -> rt_ok (cimpl c) /\ def_ok (cimpl c).
Proof. intros CO DS c I. apply in_map_iff in I. destruct I as [sc [<- I]].
  unfold regs_coherent in CO. unfold regs_defaults_stable in DS. rewrite Forall_forall in CO, DS. simpl. split.
  - apply cif_of_rt. now apply CO.
  - apply cif_of_def. now apply DS. Qed.

Lemma regs_wf_comp regs : regs_wf regs ->
  NoDup (map ckey (map comp_of regs)) /\ forallb (fun c => known_key (ckey c)) (map comp_of regs) = true.
Proof. intros [ND KN]. rewrite map_ckey_comp_of. split; [exact ND|].
  rewrite forallb_forall in *. intros c I. apply in_map_iff in I. destruct I as [sc [<- I]]. simpl. now apply KN. Qed.

Theorem manager_load_save_load_l regs m0 f m :
  regs_wf regs -> regs_coherent regs -> regs_defaults_stable regs ->
  pre_stable (map comp_of regs) (m_cfgs m0) ->
  mgr_load (map comp_of regs) m0 (Some f) = Some m ->
  mgr_valid (map comp_of regs) m = true /\
  exists f', mgr_save (map comp_of regs) m = Some f' /\
    (forall k, ~ In k (map sc_key regs) -> fget k f' = if known_key k then fget k f else None) /\
    (forall sc x, In (sc, x) (combine regs (m_cfgs m)) -> fget (sc_key sc) f' = Some (SDoc (save (sc_schema sc) x))) /\
    forall m1, length (m_cfgs m1) = length regs ->
      mgr_load (map comp_of regs) m1 (Some f') = Some (mkMgr (m_cfgs m) (Some f')).
Proof. intros WF CO DS PS L. destruct (regs_wf_comp regs WF) as [ND KN].
  destruct (load_save_load_mgr _ _ _ _ ND KN (regs_ok regs CO DS) PS L) as [MV [f' [SV [UN [RG RL]]]]].
  split; [exact MV|]. exists f'. split; [exact SV|]. split; [|split].
  - intros k N. apply UN. now rewrite map_ckey_comp_of.
  - intros sc x I. apply (RG (comp_of sc) x).
    clear - I. revert I. generalize (m_cfgs m). induction regs as [|s rg IH]; intros [|y yr]; simpl; try tauto.
    intros [I|I]; [left; inversion I; reflexivity|right; now apply IH].
  - intros m1 LEN. apply RL. now rewrite map_length. Qed.

(* ---------------------------------------------------------------------------------------------- *)
(* the generated tables *)
Definition cfg_eqb (a b : cfg) : bool := list_beq val_eqb a b.
Lemma cfg_eqb_eq a b : cfg_eqb a b = true -> a = b.
Proof. apply list_beq_eq. apply val_eqb_eq. Qed.

Definition default_stableb (S : schema) (orc : string -> bool) : bool :=
  match load S (validator_of (sname S)) orc (save S (defaults S)) with
  | Some c => cfg_eqb c (defaults S)
  | None => negb (validator_of (sname S) orc (cget S (defaults S))) end.

(* saving and loading the default configuration of each of the 14 sections gives it back (whatever the external checks answer) *)
Lemma defaults_stable_tables orc : forallb (fun S => default_stableb S orc) all_schemas = true.
Proof. vm_compute. reflexivity. Qed.

Definition from_tables (sc : scomp) : Prop := In (sc_schema sc) all_schemas /\ sc_valid sc = validator_of (sname (sc_schema sc)).

Lemma from_tables_coherent regs : Forall from_tables regs -> regs_coherent regs.
Proof. unfold regs_coherent. apply Forall_impl. intros sc [I _]. now apply coherent_in. Qed.

Lemma from_tables_stable regs : Forall from_tables regs -> regs_defaults_stable regs.
Proof. unfold regs_defaults_stable. apply Forall_impl. intros sc [I E]. unfold defaults_stable. rewrite E.
  pose proof (defaults_stable_tables (sc_orc sc)) as A. rewrite forallb_forall in A. specialize (A _ I).
  unfold default_stableb in A. destruct (load _ _ _ _) as [c|].
  - intros _. f_equal. now apply cfg_eqb_eq.
  - intros Vd. rewrite Vd in A. discriminate A. Qed.

Theorem manager_sections_display_l regs m : Forall from_tables regs ->
  display_hidesb (mgr_display (map comp_of regs) m) = true /\
  forall k, ~ In k (map sc_key regs) -> fget k (mgr_display (map comp_of regs) m) = None.
Proof. intros FT. split.
  - apply manager_display_hidesb_l. now apply from_tables_coherent.
  - intros k N. apply display_unregistered_absent_l. now rewrite map_ckey_comp_of. Qed.

Theorem manager_sections_roundtrip_l regs m0 f m :
  regs_wf regs -> Forall from_tables regs -> pre_stable (map comp_of regs) (m_cfgs m0) ->
  mgr_load (map comp_of regs) m0 (Some f) = Some m ->
  mgr_valid (map comp_of regs) m = true /\
  exists f', mgr_save (map comp_of regs) m = Some f' /\
    (forall k, ~ In k (map sc_key regs) -> fget k f' = if known_key k then fget k f else None) /\
    (forall sc x, In (sc, x) (combine regs (m_cfgs m)) -> fget (sc_key sc) f' = Some (SDoc (save (sc_schema sc) x))) /\
    forall m1, length (m_cfgs m1) = length regs ->
      mgr_load (map comp_of regs) m1 (Some f') = Some (mkMgr (m_cfgs m) (Some f')).
Proof. intros WF FT. apply manager_load_save_load_l; auto using from_tables_coherent, from_tables_stable. Qed.

(* Manager.Default() gives a valid configuration as soon as a cluster component is registered *)
Theorem manager_default_valid_l regs m : Forall from_tables regs ->
  has_cluster (map comp_of regs) = true -> mgr_valid (map comp_of regs) (mgr_default (map comp_of regs) m) = true.
Proof. intros FT HC. unfold mgr_valid. rewrite HC. simpl. clear HC.
  induction regs as [|sc rg IH]; simpl; auto. inversion FT as [|? ? [I E] FT']; subst.
  rewrite E, (default_valid_in _ (sc_orc sc) I). simpl. now apply IH. Qed.
