From Coq Require Import String.
From V Require Import Base.Common Base.CommonLemmas Base.Rpc Model.C07_Auth.
Open Scope string_scope.

Lemma authorize_sound_l pol trusted ep : authorize pol trusted ep = true ->
  lookup ep pol = Some Open \/ (lookup ep pol = Some Trusted /\ trusted = true).
Proof. unfold authorize, authorize_entry. destruct (lookup ep pol) as [[| |]|]; intros H; try discriminate; auto. Qed.

Lemma authorize_untrusted pol ep : authorize pol false ep = true -> lookup ep pol = Some Open.
Proof. intros H. apply authorize_sound_l in H. destruct H as [H|[_ H]]; [auto|discriminate]. Qed.

Lemma authorize_closed pol trusted ep : lookup ep pol = Some Closed -> authorize pol trusted ep = false.
Proof. unfold authorize, authorize_entry. intros ->. reflexivity. Qed.

Lemma authorize_missing pol trusted ep : lookup ep pol = None -> authorize pol trusted ep = false.
Proof. unfold authorize, authorize_entry. intros ->. reflexivity. Qed.

(* trust follows the history *)
Lemma in_filter_neq p q s : In q (filter (fun x => negb (N.eqb p x)) s) <-> In q s /\ q <> p.
Proof. rewrite filter_In, negb_true_iff, N.eqb_neq. intuition. Qed.

Lemma trust_set_spec p h s0 :
  In p (fold_left apply_top h s0) <-> match last_op p h with Some b => b = true | None => In p s0 end.
Proof.
  induction h as [|o r IH] using rev_ind.
  - simpl. tauto.
  - unfold last_op in *. rewrite !fold_left_app. simpl.
    destruct (N.eqb_spec (op_peer o) p) as [Ho|Ho].
    + destruct o as [q|q]; simpl in *; subst q.
      * split; auto.
      * rewrite in_filter_neq. split; [intros [_ H]; congruence|discriminate].
    + rewrite <- IH. destruct o as [q|q]; simpl in *.
      * split; [intros [H|H]; [congruence|auto]|auto].
      * rewrite in_filter_neq. intuition.
Qed.

Lemma trust_follows_history_l cfg h p :
  trust_crdt cfg h p = true <->
  trust_all cfg = true \/ p = self cfg \/ last_op p h = Some true \/ (last_op p h = None /\ In p (configured cfg)).
Proof.
  unfold trust_crdt, trust_set. rewrite !orb_true_iff, N.eqb_eq, memN_in, trust_set_spec.
  destruct (last_op p h) as [[|]|]; intuition; try discriminate; congruence.
Qed.

Lemma deliver_untrusted_nil {U} cfg h (msgs : list (N * U)) u :
  trust_crdt cfg h u = false -> (forall m, In m msgs -> fst m = u) -> deliver cfg h msgs = [].
Proof. intros Hu Hall. unfold deliver, validator. induction msgs as [|m r IH]; simpl; auto.
  rewrite (Hall m (or_introl eq_refl)), Hu. apply IH. intros m' Hm. apply Hall. now right. Qed.

Lemma deliver_drops_untrusted {U} cfg h (msgs : list (N * U)) u :
  trust_crdt cfg h u = false ->
  deliver cfg h msgs = deliver cfg h (filter (fun m => negb (N.eqb (fst m) u)) msgs).
Proof. intros Hu. unfold deliver, validator. induction msgs as [|m r IH]; simpl; auto.
  destruct (N.eqb_spec (fst m) u) as [E|E]; simpl.
  - rewrite E, Hu. exact IH.
  - destruct (trust_crdt cfg h (fst m)); simpl; congruence. Qed.

Lemma authorize_trusted_entry pol trusted ep : lookup ep pol = Some Trusted -> authorize pol trusted ep = trusted.
Proof. unfold authorize, authorize_entry. intros ->. reflexivity. Qed.

Lemma authorize_open_entry pol trusted ep : lookup ep pol = Some Open -> authorize pol trusted ep = true.
Proof. unfold authorize, authorize_entry. intros ->. reflexivity. Qed.

Lemma lookup_in k v (p : list (string * ept)) : lookup k p = Some v -> In (k, v) p.
Proof. induction p as [|[k' v'] r IH]; simpl; [discriminate|].
  destruct (String.eqb_spec k k') as [->|Hn]; intros H; [injection H as ->; now left | right; auto]. Qed.

Lemma in_lookup_some k v (p : list (string * ept)) : In (k, v) p -> exists v', lookup k p = Some v'.
Proof. induction p as [|[k' v'] r IH]; simpl; [tauto|]. intros [H|H].
  - injection H as -> ->. rewrite String.eqb_refl. eauto.
  - destruct (String.eqb k k'); eauto. Qed.

(* a call made by the peer on itself is never subject to authorization; a remote one always is *)
Lemma call_allowed_local pol trusted ep : call_allowed pol true trusted ep = true.
Proof. reflexivity. Qed.
Lemma call_allowed_remote pol trusted ep : call_allowed pol false trusted ep = authorize pol trusted ep.
Proof. reflexivity. Qed.

Lemma trust_raft_all p : trust_raft p = true.
Proof. reflexivity. Qed.

(* trust in CRDT mode, read off the configuration alone (empty history) *)
Lemma trust_configured cfg p :
  trust_crdt cfg [] p = true <-> trust_all cfg = true \/ p = self cfg \/ In p (configured cfg).
Proof. rewrite trust_follows_history_l. simpl. intuition; discriminate. Qed.

Lemma last_op_app p h o : last_op p (h ++ [o]) =
  if N.eqb (op_peer o) p then Some (match o with TTrust _ => true | _ => false end) else last_op p h.
Proof. unfold last_op. rewrite fold_left_app. reflexivity. Qed.

(* a later Trust / Distrust call decides, whatever came before *)
Lemma trust_after_trust cfg h p : trust_crdt cfg (h ++ [TTrust p]) p = true.
Proof. apply trust_follows_history_l. right; right; left. rewrite last_op_app. simpl. now rewrite N.eqb_refl. Qed.

Lemma trust_after_distrust cfg h p : trust_all cfg = false -> p <> self cfg -> trust_crdt cfg (h ++ [TDistrust p]) p = false.
Proof. intros Ha Hs. destruct (trust_crdt cfg (h ++ [TDistrust p]) p) eqn:E; auto.
  apply trust_follows_history_l in E. rewrite last_op_app in E. simpl in E. rewrite N.eqb_refl in E.
  destruct E as [E|[E|[E|[E _]]]]; congruence. Qed.

Lemma trust_other_unchanged cfg h o p : op_peer o <> p -> trust_crdt cfg (h ++ [o]) p = trust_crdt cfg h p.
Proof. intros Hn. apply eq_true_iff_eq. rewrite !trust_follows_history_l, last_op_app.
  destruct (N.eqb_spec (op_peer o) p); [congruence|tauto]. Qed.

(* the validator is the trust function of the signer; a replica merges validated broadcasts only *)
Lemma deliver_in {U} cfg h (msgs : list (N * U)) u :
  In u (deliver cfg h msgs) -> exists s, In (s, u) msgs /\ trust_crdt cfg h s = true.
Proof. unfold deliver, validator. rewrite in_map_iff. intros [[s u'] [E H]]. simpl in E. subst u'.
  apply filter_In in H. destruct H as [H1 H2]. exists s. auto. Qed.

(* ---- the trusted_peers value as written in the configuration file ---- *)
Local Open Scope list_scope.
Definition listed_json (tp : option (list tentry)) (p : N) : Prop :=
  exists l, tp = Some l /\ (In TStar l \/ In (TPeer p) l).

Lemma load_trusted_spec l : forall acc,
  (In TStar l -> load_trusted l acc = (true, [])) /\
  (~ In TStar l -> load_trusted l acc = (false, acc ++ flat_map (fun e => match e with TStar => [] | TPeer q => [q] end) l)).
Proof.
  induction l as [|e r IH]; intros acc; cbn [load_trusted flat_map In].
  - split; [intros []|intros _; now rewrite app_nil_r].
  - destruct e as [|q].
    + split; [reflexivity|]. intros Hn. exfalso. apply Hn. now left.
    + destruct (IH (acc ++ [q])) as [I1 I2]. split.
      * intros [Hd|Hi]; [discriminate|]. now apply I1.
      * intros Hn. rewrite I2 by (intros Hs; apply Hn; now right). cbn [app]. now rewrite <- app_assoc.
Qed.

Lemma in_star_dec (l : list tentry) : {In TStar l} + {~ In TStar l}.
Proof. apply in_dec. decide equality. apply N.eq_dec. Qed.

Lemma in_peers_of l p : In p (flat_map (fun e => match e with TStar => [] | TPeer q => [q] end) l) <-> In (TPeer p) l.
Proof.
  induction l as [|e r IH]; cbn [flat_map In]; [tauto|]. rewrite in_app_iff, IH. destruct e as [|q]; cbn [In].
  - split; [intros [[]|H]; now right|intros [H|H]; [discriminate|now right]].
  - split; [intros [[H|[]]|H]; [left; now subst|now right]|intros [H|H]; [left; left; now inversion H|now right]].
Qed.

Lemma trust_json_l me tp p :
  trust_crdt (cfg_of_json me tp) [] p = true <-> p = me \/ listed_json tp p.
Proof.
  rewrite trust_configured. unfold cfg_of_json, listed_json. destruct tp as [l|]; cbn [trust_all self configured].
  - destruct (in_star_dec l) as [Hs|Hs].
    + destruct (load_trusted_spec l []) as [I1 _]. rewrite (I1 Hs). cbn [trust_all self configured].
      split; [intros _|intros _; now left]. right. exists l. split; [reflexivity|now left].
    + destruct (load_trusted_spec l []) as [_ I2]. rewrite (I2 Hs). cbn [trust_all self configured app].
      rewrite in_peers_of. split.
      * intros [H|[H|H]]; [discriminate|now left|]. right. exists l. split; [reflexivity|now right].
      * intros [H|[l' [E [H|H]]]]; [right; now left| |]; inversion E; subst l'; [contradiction|right; now right].
  - split; [intros [H|[H|[]]]; [discriminate|now left]|]. intros [H|[l [E _]]]; [right; now left|discriminate].
Qed.

Lemma peers_of_map_tpeer l : flat_map (fun e => match e with TStar => [] | TPeer q => [q] end) (map TPeer l) = l.
Proof. induction l as [|x r IH]; cbn [map flat_map app]; [reflexivity|]. now f_equal. Qed.

(* ApplyEnvVars with nothing set (save to the JSON form, load it again) does not change who is trusted *)
Lemma env_pass_same_trust c h p : trust_crdt (env_pass c) h p = trust_crdt c h p.
Proof.
  apply eq_true_iff_eq. rewrite !trust_follows_history_l. unfold env_pass, json_of_cfg, cfg_of_json.
  destruct c as [a me l]. cbn [trust_all self configured]. destruct a; cbn [load_trusted].
  - cbn [trust_all self configured]. tauto.
  - assert (E : load_trusted (map TPeer l) [] = (false, l)).
    { destruct (load_trusted_spec (map TPeer l) []) as [_ I2]. rewrite I2.
      - cbn [app]. f_equal. apply peers_of_map_tpeer.
      - rewrite in_map_iff. intros [x [Hx _]]. discriminate. }
    rewrite E. cbn [trust_all self configured]. tauto.
Qed.
