From Coq Require Import String.
From V Require Import Base.Common Base.CommonLemmas Base.Rpc Model.C07_Auth.
Open Scope string_scope.

Lemma authorize_sound_l pol trusted ep : authorize pol trusted ep = true ->
  lookup ep pol = Some Open \/ (lookup ep pol = Some Trusted /\ trusted = true).
Proof. unfold authorize. destruct (lookup ep pol) as [[| |]|]; intros H; try discriminate; auto. Qed.

Lemma authorize_untrusted pol ep : authorize pol false ep = true -> lookup ep pol = Some Open.
Proof. intros H. apply authorize_sound_l in H. destruct H as [H|[_ H]]; [auto|discriminate]. Qed.

Lemma authorize_closed pol trusted ep : lookup ep pol = Some Closed -> authorize pol trusted ep = false.
Proof. unfold authorize. intros ->. reflexivity. Qed.

Lemma authorize_missing pol trusted ep : lookup ep pol = None -> authorize pol trusted ep = false.
Proof. unfold authorize. intros ->. reflexivity. Qed.

(* trust follows the history *)
Lemma in_filter_neq p q s : In q (filter (fun x => negb (N.eqb p x)) s) <-> In q s /\ q <> p.
Proof. rewrite filter_In, negb_true_iff, N.eqb_neq. intuition. Qed.

Lemma trust_set_spec p h s0 :
  In p (fold_left apply_top h s0) <-> match last_op p h with Some b => b = true | None => In p s0 end.
Proof.
  induction h as [|o r IH] using rev_ind.
  - simpl. tauto.
  - unfold last_op in *. rewrite !fold_left_app. simpl.
    destruct (N.eqb_spec (op_peer o) p) as [Ho|Ho].
    + destruct o as [q|q]; simpl in *; subst q.
      * split; auto.
      * rewrite in_filter_neq. split; [intros [_ H]; congruence|discriminate].
    + rewrite <- IH. destruct o as [q|q]; simpl in *.
      * split; [intros [H|H]; [congruence|auto]|auto].
      * rewrite in_filter_neq. intuition.
Qed.

Lemma trust_follows_history_l cfg h p :
  trust_crdt cfg h p = true <->
  trust_all cfg = true \/ p = self cfg \/ last_op p h = Some true \/ (last_op p h = None /\ In p (configured cfg)).
Proof.
  unfold trust_crdt, trust_set. rewrite !orb_true_iff, N.eqb_eq, memN_in, trust_set_spec.
  destruct (last_op p h) as [[|]|]; intuition; try discriminate; congruence.
Qed.

Lemma deliver_untrusted_nil {U} cfg h (msgs : list (N * U)) u :
  trust_crdt cfg h u = false -> (forall m, In m msgs -> fst m = u) -> deliver cfg h msgs = [].
Proof. intros Hu Hall. unfold deliver, validator. induction msgs as [|m r IH]; simpl; auto.
  rewrite (Hall m (or_introl eq_refl)), Hu. apply IH. intros m' Hm. apply Hall. now right. Qed.

Lemma deliver_drops_untrusted {U} cfg h (msgs : list (N * U)) u :
  trust_crdt cfg h u = false ->
  deliver cfg h msgs = deliver cfg h (filter (fun m => negb (N.eqb (fst m) u)) msgs).
Proof. intros Hu. unfold deliver, validator. induction msgs as [|m r IH]; simpl; auto.
  destruct (N.eqb_spec (fst m) u) as [E|E]; simpl.
  - rewrite E, Hu. exact IH.
  - destruct (trust_crdt cfg h (fst m)); simpl; congruence. Qed.
