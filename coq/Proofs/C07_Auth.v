From Coq Require Import String.
From V Require Import Base.Common Base.CommonLemmas Base.Rpc Model.C07_Auth.
Open Scope string_scope.

Lemma authorize_sound_l pol trusted ep : authorize pol trusted ep = true ->
  lookup ep pol = Some Open \/ (lookup ep pol = Some Trusted /\ trusted = true).
Proof. unfold authorize, authorize_entry. destruct (lookup ep pol) as [[| |]|]; intros H; try discriminate; auto. Qed.

Lemma authorize_untrusted pol ep : authorize pol false ep = true -> lookup ep pol = Some Open.
Proof. intros H. apply authorize_sound_l in H. destruct H as [H|[_ H]]; [auto|discriminate]. Qed.

Lemma authorize_closed pol trusted ep : lookup ep pol = Some Closed -> authorize pol trusted ep = false.
Proof. unfold authorize, authorize_entry. intros ->. reflexivity. Qed.

Lemma authorize_missing pol trusted ep : lookup ep pol = None -> authorize pol trusted ep = false.
Proof. unfold authorize, authorize_entry. intros ->. reflexivity. Qed.

(* trust follows the history *)
Lemma in_filter_neq p q s : In q (filter (fun x => negb (N.eqb p x)) s) <-> In q s /\ q <> p.
Proof. rewrite filter_In, negb_true_iff, N.eqb_neq. intuition. Qed.

Lemma trust_set_spec p h s0 :
  In p (fold_left apply_top h s0) <-> match last_op p h with Some b => b = true | None => In p s0 end.
Proof.
  induction h as [|o r IH] using rev_ind.
  - simpl. tauto.
  - unfold last_op in *. rewrite !fold_left_app. simpl.
    destruct (N.eqb_spec (op_peer o) p) as [Ho|Ho].
    + destruct o as [q|q]; simpl in *; subst q.
      * split; auto.
      * rewrite in_filter_neq. split; [intros [_ H]; congruence|discriminate].
    + rewrite <- IH. destruct o as [q|q]; simpl in *.
      * split; [intros [H|H]; [congruence|auto]|auto].
      * rewrite in_filter_neq. intuition.
Qed.

Lemma trust_follows_history_l cfg h p :
  trust_crdt cfg h p = true <->
  trust_all cfg = true \/ p = self cfg \/ last_op p h = Some true \/ (last_op p h = None /\ In p (configured cfg)).
Proof.
  unfold trust_crdt, trust_set. rewrite !orb_true_iff, N.eqb_eq, memN_in, trust_set_spec.
  destruct (last_op p h) as [[|]|]; intuition; try discriminate; congruence.
Qed.

Lemma deliver_untrusted_nil {U} cfg h (msgs : list (N * U)) u :
  trust_crdt cfg h u = false -> (forall m, In m msgs -> fst m = u) -> deliver cfg h msgs = [].
Proof. intros Hu Hall. unfold deliver, validator. induction msgs as [|m r IH]; simpl; auto.
  rewrite (Hall m (or_introl eq_refl)), Hu. apply IH. intros m' Hm. apply Hall. now right. Qed.

Lemma deliver_drops_untrusted {U} cfg h (msgs : list (N * U)) u :
  trust_crdt cfg h u = false ->
  deliver cfg h msgs = deliver cfg h (filter (fun m => negb (N.eqb (fst m) u)) msgs).
Proof. intros Hu. unfold deliver, validator. induction msgs as [|m r IH]; simpl; auto.
  destruct (N.eqb_spec (fst m) u) as [E|E]; simpl.
  - rewrite E, Hu. exact IH.
  - destruct (trust_crdt cfg h (fst m)); simpl; congruence. Qed.

Lemma authorize_trusted_entry pol trusted ep : lookup ep pol = Some Trusted -> authorize pol trusted ep = trusted.
Proof. unfold authorize, authorize_entry. intros ->. reflexivity. Qed.

Lemma authorize_open_entry pol trusted ep : lookup ep pol = Some Open -> authorize pol trusted ep = true.
Proof. unfold authorize, authorize_entry. intros ->. reflexivity. Qed.

Lemma lookup_in k v (p : list (string * ept)) : lookup k p = Some v -> In (k, v) p.
Proof. induction p as [|[k' v'] r IH]; simpl; [discriminate|].
  destruct (String.eqb_spec k k') as [->|Hn]; intros H; [injection H as ->; now left | right; auto]. Qed.

Lemma in_lookup_some k v (p : list (string * ept)) : In (k, v) p -> exists v', lookup k p = Some v'.
Proof. induction p as [|[k' v'] r IH]; simpl; [tauto|]. intros [H|H].
  - injection H as -> ->. rewrite String.eqb_refl. eauto.
  - destruct (String.eqb k k'); eauto. Qed.

(* a call made by the peer on itself is never subject to authorization; a remote one always is *)
Lemma call_allowed_local pol trusted ep : call_allowed pol true trusted ep = true.
Proof. reflexivity. Qed.
Lemma call_allowed_remote pol trusted ep : call_allowed pol false trusted ep = authorize pol trusted ep.
Proof. reflexivity. Qed.

Lemma trust_raft_all p : trust_raft p = true.
Proof. reflexivity. Qed.

(* trust in CRDT mode, read off the configuration alone (empty history) *)
Lemma trust_configured cfg p :
  trust_crdt cfg [] p = true <-> trust_all cfg = true \/ p = self cfg \/ In p (configured cfg).
Proof. rewrite trust_follows_history_l. simpl. intuition; discriminate. Qed.

Lemma last_op_app p h o : last_op p (h ++ [o]) =
  if N.eqb (op_peer o) p then Some (match o with TTrust _ => true | _ => false end) else last_op p h.
Proof. unfold last_op. rewrite fold_left_app. reflexivity. Qed.

(* a later Trust / Distrust call decides, whatever came before *)
Lemma trust_after_trust cfg h p : trust_crdt cfg (h ++ [TTrust p]) p = true.
Proof. apply trust_follows_history_l. right; right; left. rewrite last_op_app. simpl. now rewrite N.eqb_refl. Qed.

Lemma trust_after_distrust cfg h p : trust_all cfg = false -> p <> self cfg -> trust_crdt cfg (h ++ [TDistrust p]) p = false.
Proof. intros Ha Hs. destruct (trust_crdt cfg (h ++ [TDistrust p]) p) eqn:E; auto.
  apply trust_follows_history_l in E. rewrite last_op_app in E. simpl in E. rewrite N.eqb_refl in E.
  destruct E as [E|[E|[E|[E _]]]]; congruence. Qed.

Lemma trust_other_unchanged cfg h o p : op_peer o <> p -> trust_crdt cfg (h ++ [o]) p = trust_crdt cfg h p.
Proof. intros Hn. apply eq_true_iff_eq. rewrite !trust_follows_history_l, last_op_app.
  destruct (N.eqb_spec (op_peer o) p); [congruence|tauto]. Qed.

(* the validator is the trust function of the signer; a replica merges validated broadcasts only *)
Lemma deliver_in {U} cfg h (msgs : list (N * U)) u :
  In u (deliver cfg h msgs) -> exists s, In (s, u) msgs /\ trust_crdt cfg h s = true.
Proof. unfold deliver, validator. rewrite in_map_iff. intros [[s u'] [E H]]. simpl in E. subst u'.
  apply filter_In in H. destruct H as [H1 H2]. exists s. auto. Qed.
