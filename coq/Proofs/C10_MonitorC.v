(* C10 — completeness of the monitor (Model/C10_Check.v, code 2) for the model, removal kind (PeerRemove -> vacatePeer):
   the scenario record generated from `vacate` on a pinset without pin-update pins (finding S10), with duplicate-free
   metadata keys and well-typed stored pins, raises no code 2 in check_case. *)
From V Require Import Base.Common Base.CommonLemmas Model.C03_Alloc Model.C03_Check Model.C04_ClusterOps Model.C04_Check
  Model.C10_Repin Model.C10_Check Proofs.C03_Alloc Proofs.C03_Monitor Proofs.C04_ClusterOps Proofs.C04_Check Proofs.C10_Repin Proofs.C10_Monitor.
From Coq Require Import Permutation.
Open Scope Z_scope.

(* ---------- the comparisons are reflexive on well-formed pins ---------- *)
Lemma meta_sub_refl m : NoDup (akeys m) -> meta_sub m m = true.
Proof. intros Nd. unfold meta_sub. apply forallb_forall. intros [k v] Hin. cbn [fst snd].
  rewrite (in_aget k v m Nd Hin). cbn. apply N.eqb_refl. Qed.
Lemma perm_eqb_refl l : perm_eqb l l = true.
Proof. unfold perm_eqb. apply list_eqb_N_refl. Qed.
Lemma ptype_eqb_refl t : ptype_eqb t t = true. Proof. destruct t; reflexivity. Qed.
Lemma optN_eqb_refl a : optN_eqb a a = true. Proof. destruct a; cbn; auto using N.eqb_refl. Qed.
Lemma expire_eqb_refl a : expire_eqb a a = true. Proof. now apply expire_eqb_eq. Qed.

Lemma opts_eqb_refl o : NoDup (akeys (o_meta o)) -> opts_eqb o o = true.
Proof. intros Nd. unfold opts_eqb, meta_eqb. rewrite !Z.eqb_refl, !N.eqb_refl, !list_eqb_N_refl, expire_eqb_refl, (meta_sub_refl _ Nd), optN_eqb_refl. reflexivity. Qed.
Lemma pin_eqb_refl p : NoDup (akeys (o_meta (p_opts p))) -> pin_eqb p p = true.
Proof. intros Nd. unfold pin_eqb. rewrite (opts_eqb_refl _ Nd), N.eqb_refl, ptype_eqb_refl, perm_eqb_refl, Z.eqb_refl, optN_eqb_refl. reflexivity. Qed.

Definition meta_ok (st : pinset) : Prop := forall k p, aget k st = Some p -> NoDup (akeys (o_meta (p_opts p))).

Lemma entry_same_refl st st' c p : aget c st = Some p -> aget c st' = Some p -> NoDup (akeys (o_meta (p_opts p))) -> entry_same st st' c = true.
Proof. intros A B Nd. unfold entry_same. rewrite A, B. now apply pin_eqb_refl. Qed.

Lemma st_eqb_refl st : NoDup (akeys st) -> meta_ok st -> st_eqb st st = true.
Proof. intros Nd Mo. unfold st_eqb, same_except. rewrite (proj2 (nodupb_NoDup _) Nd). rewrite !andb_true_r. apply andb_true_iff. split.
  - apply forallb_forall. intros [k p] Hin. cbn [fst memN existsb orb]. rewrite (in_aget k p st Nd Hin). apply pin_eqb_refl. apply (Mo k p). now apply in_aget.
  - apply forallb_forall. intros [k p] Hin. cbn [fst memN existsb orb]. now rewrite (in_aget k p st Nd Hin). Qed.

(* a stored pinset is the pinset of its list of pins *)
Lemma of_list_values st : NoDup (akeys st) -> keyed st -> of_list (map snd st) = st.
Proof. intros Nd K. unfold of_list. rewrite map_map. rewrite <- (map_id st) at 2. apply map_ext_in. intros [k p] Hin. cbn [snd].
  f_equal. apply K. now apply in_aget. Qed.

Lemma in_keys_iff {V} k (m : list (N * V)) : In k (akeys m) <-> aget k m <> None.
Proof. induction m as [|[k' v] r IH]; cbn; [split; [tauto|congruence]|]. destruct (N.eqb_spec k k') as [->|Hn].
  - split; [discriminate|auto].
  - rewrite <- IH. split; [intros [E|H]; [congruence|auto] | auto]. Qed.

Lemma cnt_memN c l : cnt c l = 0%nat <-> memN c l = false.
Proof. unfold cnt. rewrite memN_false. induction l as [|a r IH]; cbn; [tauto|]. destruct (N.eqb_spec c a) as [->|Hn]; cbn.
  - split; [discriminate|intros H; exfalso; apply H; auto].
  - rewrite IH. split; [intros H [E|E]; [congruence|auto] | auto]. Qed.
