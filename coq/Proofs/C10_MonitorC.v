(* C10 — completeness of the monitor (Model/C10_Check.v, code 2) for the model, removal kind (PeerRemove -> vacatePeer):
   the scenario record generated from `vacate` on a pinset without pin-update pins (finding S10), with duplicate-free
   metadata keys and well-typed stored pins, raises no code 2 in check_case. *)
From V Require Import Base.Common Base.CommonLemmas Model.C03_Alloc Model.C03_Check Model.C04_ClusterOps Model.C04_Check
  Model.C10_Repin Model.C10_Check Proofs.C03_Alloc Proofs.C03_Monitor Proofs.C04_ClusterOps Proofs.C04_Check Proofs.C10_Repin Proofs.C10_Monitor.
From Coq Require Import Permutation.
Open Scope Z_scope.

(* ---------- the comparisons are reflexive on well-formed pins ---------- *)
Lemma meta_sub_refl m : NoDup (akeys m) -> meta_sub m m = true.
Proof. intros Nd. unfold meta_sub. apply forallb_forall. intros [k v] Hin. cbn [fst snd].
  rewrite (in_aget k v m Nd Hin). cbn. apply N.eqb_refl. Qed.
Lemma perm_eqb_refl l : perm_eqb l l = true.
Proof. unfold perm_eqb. apply list_eqb_N_refl. Qed.
Lemma ptype_eqb_refl t : ptype_eqb t t = true. Proof. destruct t; reflexivity. Qed.
Lemma optN_eqb_refl a : optN_eqb a a = true. Proof. destruct a; cbn; auto using N.eqb_refl. Qed.
Lemma expire_eqb_refl a : expire_eqb a a = true. Proof. now apply expire_eqb_eq. Qed.

Lemma opts_eqb_refl o : NoDup (akeys (o_meta o)) -> opts_eqb o o = true.
Proof. intros Nd. unfold opts_eqb, meta_eqb. rewrite !Z.eqb_refl, !N.eqb_refl, !list_eqb_N_refl, expire_eqb_refl, (meta_sub_refl _ Nd), optN_eqb_refl. reflexivity. Qed.
Lemma pin_eqb_refl p : NoDup (akeys (o_meta (p_opts p))) -> pin_eqb p p = true.
Proof. intros Nd. unfold pin_eqb. rewrite (opts_eqb_refl _ Nd), N.eqb_refl, ptype_eqb_refl, perm_eqb_refl, Z.eqb_refl, optN_eqb_refl. reflexivity. Qed.

Definition meta_ok (st : pinset) : Prop := forall k p, aget k st = Some p -> NoDup (akeys (o_meta (p_opts p))).

Lemma entry_same_refl st st' c p : aget c st = Some p -> aget c st' = Some p -> NoDup (akeys (o_meta (p_opts p))) -> entry_same st st' c = true.
Proof. intros A B Nd. unfold entry_same. rewrite A, B. now apply pin_eqb_refl. Qed.

Lemma st_eqb_refl st : NoDup (akeys st) -> meta_ok st -> st_eqb st st = true.
Proof. intros Nd Mo. unfold st_eqb, same_except. rewrite (proj2 (nodupb_NoDup _) Nd). rewrite !andb_true_r. apply andb_true_iff. split.
  - apply forallb_forall. intros [k p] Hin. cbn [fst memN existsb orb]. rewrite (in_aget k p st Nd Hin). apply pin_eqb_refl. apply (Mo k p). now apply in_aget.
  - apply forallb_forall. intros [k p] Hin. cbn [fst memN existsb orb]. now rewrite (in_aget k p st Nd Hin). Qed.

(* a stored pinset is the pinset of its list of pins *)
Lemma of_list_values st : NoDup (akeys st) -> keyed st -> of_list (map snd st) = st.
Proof. intros Nd K. unfold of_list. rewrite map_map. rewrite <- (map_id st) at 2. apply map_ext_in. intros [k p] Hin. cbn [snd].
  f_equal. apply K. now apply in_aget. Qed.

Lemma in_keys_iff {V} k (m : list (N * V)) : In k (akeys m) <-> aget k m <> None.
Proof. induction m as [|[k' v] r IH]; cbn; [split; [tauto|congruence]|]. destruct (N.eqb_spec k k') as [->|Hn].
  - split; [discriminate|auto].
  - rewrite <- IH. split; [intros [E|H]; [congruence|auto] | auto]. Qed.

Lemma cnt_memN c l : cnt c l = 0%nat <-> memN c l = false.
Proof. unfold cnt. rewrite memN_false. induction l as [|a r IH]; cbn; [tauto|]. destruct (N.eqb_spec c a) as [->|Hn]; cbn.
  - split; [discriminate|intros H; exfalso; apply H; auto].
  - rewrite IH. split; [intros H [E|E]; [congruence|auto] | auto]. Qed.

(* ---------- one entry of the pinset, removal of peer f ---------- *)
Definition typed_ok (f : N) (st : pinset) : Prop :=
  forall c x, aget c st = Some x -> In f (p_allocs x) -> p_ty x <> MetaT -> check_pin_type (set_allocs [] x) = true.
Definition no_update (st : pinset) : Prop := forall c x, aget c st = Some x -> ~ is_update x.

(* the per-entry test of repin_bad, named *)
Definition entry_okb (now : Z) (rv : bool) (ms : list metric) (all_trusted all_eligible : bool) (f : N)
           (st0 stF : pinset) (steps : list C10_Check.astep) (c : N) (x : pin) : bool :=
  let nlog := loggers c steps in
  if negb (memN f (p_allocs x)) then entry_same st0 stF c && Nat.eqb nlog 0
  else
    let o := p_opts x in
    let i := mk_input (o_rmin o) (o_rmax o) (p_allocs x) ms [f] [] rv in
    let hcount := healthy_count now i (p_allocs x) in
    (if all_trusted then Nat.leb nlog 1 else true)
    && forallb (fun s => Nat.leb (count_occ_N c (step_logs s)) 1) steps
    && (if negb ((0 <? o_rmin o) && (o_rmin o <=? o_rmax o)) || expired_at now x || ptype_eqb (p_ty x) MetaT
           || negb (nodupb (p_allocs x)) then true
        else if (o_rmin o <=? hcount) then (if hcount <=? o_rmax o then entry_same st0 stF c else true)
        else if reachable now i <? o_rmin o then entry_same st0 stF c
        else if negb all_eligible then true
        else match aget c stF with
             | None => false
             | Some y =>
                 negb (memN f (p_allocs y))
                 && C03_Check.spec_okb now i (ObsOk (p_allocs y))
                 && opts_eqb (p_opts y) o
                 && ptype_eqb (p_ty y) (p_ty x) && (p_depth y =? p_depth x) && optN_eqb (p_ref y) (p_ref x)
                 && Nat.eqb nlog 1
             end).

Lemma flat_map_nil_intro {A B} (g : A -> list B) l : (forall x, In x l -> g x = []) -> flat_map g l = [].
Proof. induction l as [|a r IH]; intros H; [reflexivity|]. cbn. rewrite (H a (or_introl eq_refl)), IH; auto. intros y Hy. apply H. now right. Qed.

Lemma repin_bad_entries now rv ms at_ ae f st0 stF steps :
  (forall c x, In (c, x) st0 -> entry_okb now rv ms at_ ae f st0 stF steps c x = true) -> repin_bad now rv ms at_ ae f st0 stF steps = [].
Proof. intros H. unfold repin_bad. apply flat_map_nil_intro. intros [c x] Hin. cbv zeta. cbn [fst snd].
  specialize (H c x Hin). unfold entry_okb in H. cbv zeta in H. rewrite H. reflexivity. Qed.

Section VacEntry.
Variables (dmin dmax : Z) (rv : bool) (ms : list metric) (ls : list (N * list N)) (f self : N) (fol norep : bool)
          (ord : N -> list N -> list N) (lord : list pin -> list pin) (st0 : pinset).
Let e := mk_env 0 ms [] ls.
Let pc := mk_pcfg (mk_cfg dmin dmax fol rv) norep.
Let st' := fst (vacate pc e ord lord st0 f).
Let logs := snd (vacate pc e ord lord st0 f).
Let steps : list C10_Check.astep := [(self, fol, norep, false, logs, map snd st')].
Hypothesis Hinv : inv st0.
Hypothesis Hmeta : meta_ok st0.
Hypothesis Hnu : no_update st0.
Hypothesis Htyped : typed_ok f st0.
Hypothesis Hlord : list_oracle lord.
Hypothesis Hord : map_oracle ord.
Hypothesis Hms : NoDup (map mpeer ms).

Lemma vac_loggers c : loggers c steps = if memN c logs then 1%nat else 0%nat.
Proof. unfold loggers, steps. cbn [filter fst snd]. destruct (memN c logs); reflexivity. Qed.

Lemma vac_idle : fol || norep = true -> st' = st0 /\ logs = [].
Proof. intros H. unfold st', logs. rewrite (vacate_idle_l pc e ord lord st0 f); auto.
  unfold pc. cbn. apply orb_true_iff in H. destruct H; auto. Qed.

Lemma vac_entry_idle at_ c x : fol || norep = true -> In (c, x) st0 -> entry_okb 0 rv ms at_ false f st0 st' steps c x = true.
Proof. intros Hi Hin. destruct (vac_idle Hi) as [Es El]. destruct Hinv as [Nd K].
  assert (G : aget c st0 = Some x) by now apply in_aget.
  assert (Es0 : entry_same st0 st' c = true) by (rewrite Es; apply (entry_same_refl st0 st0 c x G G (Hmeta c x G))).
  unfold entry_okb. cbv zeta. rewrite vac_loggers, El. cbn [memN existsb]. rewrite Es0.
  destruct (memN f (p_allocs x)); cbn [negb andb]; [|reflexivity].
  unfold steps. cbn [forallb step_logs snd fst]. rewrite El. cbn [count_occ_N filter length Nat.leb andb].
  destruct at_; cbn [Nat.leb andb];
    repeat match goal with |- context [if ?b then _ else _] => destruct b end; reflexivity. Qed.

Lemma stored_ualloc x c : aget c st0 = Some x -> o_ualloc (p_opts x) = [] /\ pb_norm x = x /\ p_cid x = c.
Proof. intros G. destruct Hinv as [_ K]. destruct (K c x G) as (A & B & _). split; [|auto]. rewrite <- B. reflexivity. Qed.

Lemma vac_entry_active at_ ae c x : fol = false -> norep = false -> In (c, x) st0 -> entry_okb 0 rv ms at_ ae f st0 st' steps c x = true.
Proof. intros Hf Hn Hin. pose proof Hinv as [Nd K].
  assert (G : aget c st0 = Some x) by now apply in_aget.
  destruct (stored_ualloc x c G) as (Hua & PN & Cx).
  pose proof (Hmeta c x G) as Mx.
  destruct (vacate_entry_l pc e ord lord st0 f c x Hlord Hinv) as [A B]; [exact Hf|exact Hn|exact G|apply (Hnu c x G)|].
  cbv zeta in A, B. fold st' in A. fold logs in B.
  unfold entry_okb. cbv zeta. rewrite vac_loggers.
  destruct (memN f (p_allocs x)) eqn:Mf; cbn [negb].
  - (* held by the removed peer *)
    assert (Hcnt : count_occ_N c logs = cnt c logs) by reflexivity.
    assert (Hle : Nat.leb (if memN c logs then 1 else 0) 1 = true) by (destruct (memN c logs); reflexivity).
    assert (Hc1 : Nat.leb (count_occ_N c logs) 1 = true) by (rewrite Hcnt, B; destruct (repin_res (pc_cfg pc) e ord f x); reflexivity).
    unfold steps at 1. cbn [forallb step_logs snd fst]. rewrite Hc1. replace (if at_ then Nat.leb (if memN c logs then 1 else 0) 1 else true) with true by (destruct at_; auto).
    cbn [andb].
    destruct (negb ((0 <? o_rmin (p_opts x)) && (o_rmin (p_opts x) <=? o_rmax (p_opts x))) || expired_at 0 x || ptype_eqb (p_ty x) MetaT
              || negb (nodupb (p_allocs x))) eqn:Prem; [reflexivity|].
    rewrite !orb_false_iff in Prem. destruct Prem as [[[P1 P2] P3] P4]. apply negb_false_iff in P1, P4.
    apply andb_true_iff in P1. destruct P1 as [V1 V2]. apply Z.ltb_lt in V1. apply Z.leb_le in V2. apply nodupb_NoDup in P4.
    apply ptype_eqb_neq in P3.
    assert (W : wf_repin e x).
    { constructor; auto. apply (Htyped c x G); auto. now apply memN_in. }
    set (i := mk_input (o_rmin (p_opts x)) (o_rmax (p_opts x)) (p_allocs x) ms [f] [] rv) in *.
    assert (Ei : repin_input (pc_cfg pc) e f x = i) by (unfold repin_input, i, pc, e; cbn; now rewrite Hua).
    pose proof (repin_res_wf (pc_cfg pc) e ord f x W) as Er. rewrite Ei, Cx in Er. change (e_now e) with 0 in Er.
    assert (V : valid_factors (rmin i) (rmax i)) by (split; assumption).
    assert (Ho : forall xs, Permutation (ord c xs) xs) by (intros xs; apply Hord).
    assert (Hmi : NoDup (map mpeer (metrics i))) by exact Hms.
    destruct (Z.leb_spec (o_rmin (p_opts x)) (healthy_count 0 i (p_allocs x))) as [H1|H1].
    + destruct (Z.leb_spec (healthy_count 0 i (p_allocs x)) (o_rmax (p_opts x))) as [H2|H2]; [|reflexivity].
      rewrite (realloc_total_when_enough 0 i (ord c) Ho Hmi V (conj H1 H2)) in Er. cbn [current i] in Er. rewrite set_allocs_same in Er.
      rewrite Er, PN in A. apply (entry_same_refl st0 st' c x G A Mx).
    + destruct (alloc_fail_is_error_l 0 i (ord c) V) as [Hen Hbf]. rewrite <- (reachable_eq 0 i (ord c) Ho) in Hen.
      destruct (Z.ltb_spec (reachable 0 i) (o_rmin (p_opts x))) as [H3|H3].
      * rewrite (proj2 Hen H3) in Er. rewrite Er in A. apply (entry_same_refl st0 st' c x G A Mx).
      * destruct ae; [|reflexivity]. cbn [negb].
        destruct (allocate 0 i (ord c)) as [l| |] eqn:AL; [|congruence|exfalso; apply (Z.lt_irrefl (o_rmin (p_opts x))); eapply Z.le_lt_trans; [exact H3|apply Hen; reflexivity]].
        rewrite Er in A, B. rewrite (pb_norm_set_allocs l x PN) in A. rewrite A.
        cbn [set_allocs p_allocs p_opts p_ty p_depth p_ref].
        assert (Hb : In f (blacklist i)) by (cbn; auto).
        pose proof (realloc_excludes_failed 0 i (ord c) f l Ho Hmi Hb V AL H1) as Hex. apply memN_false in Hex. rewrite Hex.
        pose proof (alloc_model_passes_monitor_l 0 i (ord c) Ho Hmi P4) as Hsp. rewrite AL in Hsp. cbn [obs_of] in Hsp. rewrite Hsp.
        rewrite (opts_eqb_refl _ Mx), ptype_eqb_refl, Z.eqb_refl, optN_eqb_refl.
        assert (Hm : memN c logs = true). { destruct (memN c logs) eqn:E; auto. apply cnt_memN in E. rewrite E in B. discriminate. }
        rewrite Hm. reflexivity.
  - (* not held: untouched, never logged *)
    rewrite (entry_same_refl st0 st' c x G A Mx). apply cnt_memN in B. rewrite B. reflexivity. Qed.
End VacEntry.

(* ---------- the whole removal case ---------- *)
Lemma nil_is_empty (l : list N) : l = [] -> match l with [] => true | _ => false end = true.
Proof. intros ->. reflexivity. Qed.
Lemma vacate_inv pc e ord lord st f : inv st -> inv (fst (vacate pc e ord lord st f)).
Proof. intros I. unfold vacate. destruct (pc_norepin pc); [exact I|]. rewrite repin_loop_fold. now apply loop_inv. Qed.

Lemma vacate_same_keys pc e ord lord st f : list_oracle lord -> inv st -> same_keys st (fst (vacate pc e ord lord st f)) = true.
Proof. intros Lo I. unfold same_keys. apply andb_true_iff. split; apply subsetb_incl; intros h Hh; apply in_keys_iff; apply in_keys_iff in Hh.
  - now apply vacate_keeps_l.
  - intros Hn. apply Hh. now apply vacate_no_new_l. Qed.

(* the record the harness would write for a removal run on the model: one step, by peer `self` *)
Definition vac_case (id : N) (dmin dmax : Z) (rv : bool) (hpt hct : list (N * N)) (members untrusted : list N) (ms : list metric)
           (ls : list (N * list N)) (st0l : list pin) (f self : N) (fol norep : bool)
           (ord : N -> list N -> list N) (lord : list pin -> list pin) : case :=
  let r := vacate (mk_pcfg (mk_cfg dmin dmax fol rv) norep) (mk_env 0 ms [] ls) ord lord (of_list st0l) f in
  (id, (dmin, dmax, rv, hpt, hct, members, untrusted, ms, ls, st0l,
        (2%N, f, [(self, fol, norep, false, snd r, map snd (fst r))]), [])).

Theorem vacate_model_passes_monitor_l id dmin dmax rv hpt hct members untrusted ms ls st0l f self fol norep ord lord :
  inv (of_list st0l) -> meta_ok (of_list st0l) -> no_update (of_list st0l) -> typed_ok f (of_list st0l) ->
  list_oracle lord -> map_oracle ord -> NoDup (map mpeer ms) ->
  forall t, ~ In (id, 2%N, t) (check_case (vac_case id dmin dmax rv hpt hct members untrusted ms ls st0l f self fol norep ord lord)).
Proof. intros Hinv Hmeta Hnu Hty Hlo Hor Hms t. unfold vac_case. cbv zeta.
  set (st0 := of_list st0l) in *. set (e := mk_env 0 ms [] ls). set (pc := mk_pcfg (mk_cfg dmin dmax fol rv) norep).
  set (st' := fst (vacate pc e ord lord st0 f)). set (logs := snd (vacate pc e ord lord st0 f)).
  pose proof (vacate_inv pc e ord lord st0 f Hinv) as Hinv'. fold st' in Hinv'.
  assert (Eof : of_list (map snd st') = st') by (apply of_list_values; [apply Hinv' | apply inv_keyed, Hinv']).
  assert (Efs : final_state st0 [(self, fol, norep, false, logs, map snd st')] = st') by (unfold final_state; cbn [rev app snd]; exact Eof).
  cbn [check_case]. cbv zeta. fold st0. fold e. rewrite !Efs.
  match goal with |- ~ In _ (_ ++ (if ?g && ?b then [] else _)) => assert (G : g && b = true) end.
  2:{ rewrite G. rewrite app_nil_r. destruct (runs_eqb _ _ _ _ _ _ _ _ _ _ _ _ && _); [intros []|]. intros [E|[]]. discriminate. }
  apply andb_true_iff. split.
  - (* the global clauses *) rewrite !andb_true_iff. split; [split; [split|]|].
    + apply nodupb_NoDup, Hinv'.
    + cbn [idle_ok step_fol step_norep step_recd step_logs fst snd N.ltb N.eqb N.compare Pos.compare Pos.compare_cont orb andb]. rewrite Eof.
      rewrite !andb_true_r. destruct (fol || norep) eqn:Hi.
      * destruct (vac_idle dmin dmax rv ms ls f fol norep ord lord st0 Hi) as [Es El]. fold e pc in Es, El. fold st' in Es. fold logs in El.
        rewrite orb_false_r. rewrite El, Es. rewrite st_eqb_refl; [reflexivity | apply Hinv | exact Hmeta].
      * rewrite orb_false_r. reflexivity.
    + reflexivity.
    + cbn [N.ltb N.compare Pos.compare Pos.compare_cont]. apply vacate_same_keys; auto.
  - (* no entry fails its test *)
    cbn [N.ltb N.compare Pos.compare Pos.compare_cont].
    apply nil_is_empty. apply repin_bad_entries. intros c x Hin.
    destruct (fol || norep) eqn:Hi.
    + (* idle: the eligibility flag is off *)
      match goal with |- entry_okb _ _ _ ?a ?b _ _ _ _ _ _ = true => assert (Eb : b = false) end.
      { clear -Hi. cbn [filter step_self fst snd]. destruct (negb (memN self untrusted)); [|reflexivity].
        cbn [forallb step_fol step_norep fst snd]. destruct fol, norep; try discriminate Hi; reflexivity. }
      rewrite Eb. apply (vac_entry_idle dmin dmax rv ms ls f self fol norep ord lord st0 Hinv Hmeta); auto.
    + apply orb_false_iff in Hi. destruct Hi as [Hf Hn].
      apply (vac_entry_active dmin dmax rv ms ls f self fol norep ord lord st0 Hinv Hmeta Hnu Hty Hlo Hor Hms); auto. Qed.
