(* C03 — frame lemmas: which parts of the input cannot influence allocate.
   (1) metrics the monitor would discard (invalid or expired at `now`);
   (2) metrics of excluded (blacklisted) peers.
   Removing either from the input leaves the decision — result list or error — unchanged, for every order oracle. *)
From V Require Import Base.Common Base.CommonLemmas Model.C03_Alloc.
Open Scope Z_scope.

Definition with_metrics (i : input) (ms : list metric) : input :=
  mk_input (rmin i) (rmax i) (current i) ms (blacklist i) (priority i) (rev i).

Lemma filter_filter_absorb {A} (f g : A -> bool) l :
  (forall x, f x = true -> g x = true) -> filter f (filter g l) = filter f l.
Proof. intros H. induction l as [|x xs IH]; simpl; auto.
  destruct (g x) eqn:G; simpl.
  - destruct (f x); [f_equal|]; exact IH.
  - destruct (f x) eqn:F; [apply H in F; congruence | exact IH]. Qed.

Lemma filter_comm {A} (f g : A -> bool) l : filter f (filter g l) = filter g (filter f l).
Proof. induction l as [|x xs IH]; simpl; auto.
  destruct (g x) eqn:G, (f x) eqn:F; simpl; rewrite ?G, ?F, IH; reflexivity. Qed.

Lemma latest_valid_idem now ms : latest_valid now (latest_valid now ms) = latest_valid now ms.
Proof. unfold latest_valid. apply filter_filter_absorb. auto. Qed.

(* allocate only reads the metrics through latest_valid *)
Lemma allocate_ext now i j ord :
  rmin i = rmin j -> rmax i = rmax j -> current i = current j -> blacklist i = blacklist j ->
  priority i = priority j -> rev i = rev j ->
  filter (is_cur i) (latest_valid now (metrics i)) = filter (is_cur j) (latest_valid now (metrics j)) ->
  filter (is_prio i) (latest_valid now (metrics i)) = filter (is_prio j) (latest_valid now (metrics j)) ->
  filter (is_cand i) (latest_valid now (metrics i)) = filter (is_cand j) (latest_valid now (metrics j)) ->
  allocate now i ord = allocate now j ord.
Proof.
  intros H1 H2 H3 H4 H5 H6 Hc Hp Hd.
  unfold allocate, valid_current, new_candidates. cbv zeta.
  rewrite Hc, Hp, Hd, H1, H2, H3, H6. reflexivity.
Qed.

Lemma alloc_ignores_discarded_l now i ord :
  allocate now (with_metrics i (latest_valid now (metrics i))) ord = allocate now i ord.
Proof.
  apply allocate_ext; try reflexivity; simpl; rewrite latest_valid_idem; reflexivity.
Qed.

Definition not_excluded (i : input) (m : metric) : bool := negb (memN (mpeer m) (blacklist i)).

Lemma alloc_ignores_excluded_l now i ord :
  allocate now (with_metrics i (filter (not_excluded i) (metrics i))) ord = allocate now i ord.
Proof.
  apply allocate_ext; try reflexivity; simpl; unfold latest_valid;
    rewrite (filter_comm _ (not_excluded i)); apply filter_filter_absorb;
    intros m; unfold is_cur, is_prio, is_cand, not_excluded; simpl;
    destruct (memN (mpeer m) (blacklist i)); simpl; auto; discriminate.
Qed.

(* an arbitrary set of extra metrics that are all discardable or all of excluded peers may be added anywhere *)
Lemma alloc_frame_l now i ord extra :
  (forall m, In m extra -> discard now m = true \/ memN (mpeer m) (blacklist i) = true) ->
  allocate now (with_metrics i (extra ++ metrics i)) ord = allocate now i ord.
Proof.
  intros H.
  assert (E : forall f : metric -> bool, (forall m, f m = true -> memN (mpeer m) (blacklist i) = false) ->
     filter f (latest_valid now (extra ++ metrics i)) = filter f (latest_valid now (metrics i))).
  { intros f Hf. unfold latest_valid. rewrite !filter_app.
    replace (filter f (filter (fun m => negb (discard now m)) extra)) with (@nil metric); [reflexivity|].
    symmetry. clear -H Hf. induction extra as [|m ms IH]; simpl; auto.
    assert (Hm := H m (or_introl eq_refl)).
    destruct (discard now m) eqn:D; simpl.
    - apply IH. intros x Hx. apply H. now right.
    - destruct Hm as [Hm|Hm]; [discriminate|]. destruct (f m) eqn:F.
      + apply Hf in F. congruence.
      + apply IH. intros x Hx. apply H. now right. }
  apply allocate_ext; try reflexivity; simpl; apply E; intros m;
    unfold is_cur, is_prio, is_cand; simpl; destruct (memN (mpeer m) (blacklist i)); simpl; auto; discriminate.
Qed.

(* ---- the Go map's iteration order can change WHICH healthy holders survive a truncation, nothing else ---- *)
From Coq Require Import Permutation.

Definition same_outcome (a b : res) : Prop :=
  match a, b with
  | Ok l1, Ok l2 => length l1 = length l2
  | ErrBadFactors, ErrBadFactors => True
  | ErrNotEnough, ErrNotEnough => True
  | _, _ => False
  end.

Lemma alloc_order_outcome_l now i o1 o2 :
  (forall xs, Permutation (o1 xs) xs) -> (forall xs, Permutation (o2 xs) xs) ->
  same_outcome (allocate now i o1) (allocate now i o2).
Proof.
  intros H1 H2. unfold allocate, valid_current. cbv zeta.
  set (xs := map mpeer (filter (is_cur i) (latest_valid now (metrics i)))).
  assert (L1 := Permutation_length (H1 xs)). assert (L2 := Permutation_length (H2 xs)).
  rewrite L1, L2.
  destruct (rmin i + rmax i =? 0); [exact I|].
  destruct ((rmin i <? 0) && (rmax i <? 0)); [reflexivity|].
  destruct (rmax i - Z.of_nat (length xs) <? 0).
  { simpl. rewrite !firstn_length, L1, L2. reflexivity. }
  destruct (rmin i - Z.of_nat (length xs) <=? 0); [reflexivity|].
  destruct (Z.of_nat _ <? _); [exact I|].
  destruct (Z.of_nat _ <? _); [exact I|].
  simpl. rewrite !app_length, L1, L2. reflexivity.
Qed.

(* when nothing has to be truncated (healthy holders <= max) the two answers are the same set of peers *)
Lemma alloc_order_perm_l now i o1 o2 l1 l2 :
  (forall xs, Permutation (o1 xs) xs) -> (forall xs, Permutation (o2 xs) xs) ->
  ncur_of now i <= rmax i ->
  allocate now i o1 = Ok l1 -> allocate now i o2 = Ok l2 -> Permutation l1 l2.
Proof.
  intros H1 H2 Hle. unfold allocate, valid_current, ncur_of in *. cbv zeta.
  set (xs := map mpeer (filter (is_cur i) (latest_valid now (metrics i)))).
  assert (Lx : length xs = length (filter (is_cur i) (latest_valid now (metrics i)))) by (unfold xs; apply map_length).
  assert (L1 := Permutation_length (H1 xs)). assert (L2 := Permutation_length (H2 xs)).
  rewrite L1, L2.
  destruct (rmin i + rmax i =? 0); [discriminate|].
  destruct ((rmin i <? 0) && (rmax i <? 0)); [intros E1 E2; inversion E1; inversion E2; constructor|].
  destruct (rmax i - Z.of_nat (length xs) <? 0) eqn:W; [apply Z.ltb_lt in W; lia|].
  destruct (rmin i - Z.of_nat (length xs) <=? 0); [intros E1 E2; inversion E1; inversion E2; subst; reflexivity|].
  destruct (Z.of_nat _ <? _); [discriminate|].
  destruct (Z.of_nat _ <? _); [discriminate|].
  intros E1 E2; inversion E1; inversion E2; subst.
  apply Permutation_app_tail. rewrite (H1 xs), (H2 xs). reflexivity.
Qed.
