(* C16 — failure atomicity: a Pin / Unpin that does not report success has left the daemon's pinset exactly as it was,
   unless a response was lost AFTER the daemon acted (BDrop true — the one case no client can tell apart). *)
From V Require Import Base.Common Base.CommonLemmas Model.C16_Connector Proofs.C16_Connector.
Open Scope Z_scope.

Definition acted_drop (b : behaviour) : bool := match b with BDrop true => true | _ => false end.
Definition no_acted_drop (s : script) : bool := forallb (fun b => negb (acted_drop b)) s.

Lemma act_err_no_effect d cl m : snd (act d cl) = AErr m -> fst (act d cl) = d.
Proof.
  destruct cl as [c t|c rc md pr|f t u|c|]; simpl; auto.
  - destruct rc; simpl; [discriminate|]. destruct (aget c d) as [[|]|]; simpl; auto; discriminate.
  - destruct (aget f d) as [[|]|]; simpl; auto. destruct (N.eqb f t); simpl; auto.
    destruct (aget t d) as [[|]|]; simpl; auto; discriminate.
  - destruct (aget c d); simpl; auto; discriminate.
Qed.

Lemma serve_no_effect d cl b : snd (serve d cl b) <> PBody -> acted_drop b = false -> fst (serve d cl b) = d.
Proof.
  destruct b as [k sl|m| |acted| |k| |k| ]; simpl; auto.
  - destruct (act d cl) as [d1 a] eqn:E. simpl. destruct a as [|m]; [congruence|].
    intros _ _. change d1 with (fst (d1, AErr m)). rewrite <- E. apply (act_err_no_effect d cl m). now rewrite E.
  - destruct acted; [discriminate|reflexivity].
Qed.

Lemma no_acted_drop_pop s : no_acted_drop s = true ->
  acted_drop (fst (pop s)) = false /\ no_acted_drop (snd (pop s)) = true.
Proof.
  destruct s as [|b r]; simpl; [auto|]. rewrite Bool.andb_true_iff, Bool.negb_true_iff. tauto.
Qed.

Lemma add_not_ok_inv r : add_outcome true r <> ROk -> r <> PBody.
Proof. intros H E; subst; now apply H. Qed.
Lemma update_not_ok_inv r : update_outcome r <> ROk -> r <> PBody.
Proof. intros H E; subst; now apply H. Qed.
Lemma rm_not_ok_inv r : rm_outcome r <> ROk -> r <> PBody.
Proof. intros H E; subst; now apply H. Qed.

Lemma pin_failure_atomic_l p d s r d' x : conn_pin p d s = (r, d', x) -> r <> ROk -> no_acted_drop s = true -> d' = d.
Proof.
  intros H Hr Hs. pose proof (conn_pin_path true p d s) as P. unfold conn_pin in H. rewrite H in P.
  destruct (no_acted_drop_pop s Hs) as [_ Hs1].
  destruct (no_acted_drop_pop _ Hs1) as [Hb2 Hs2].
  destruct (no_acted_drop_pop _ Hs2) as [Hb3 _].
  inversion P as [E1 | E1 E2 | from b3 E1 E2 EU E3 Eb Hres | pre b3 E1 E2 Hor Hres]; subst; auto.
  - apply serve_no_effect; auto. now apply update_not_ok_inv.
  - apply serve_no_effect; [now apply add_not_ok_inv|].
    destruct Hor as [[_ [_ ->]]|[from [_ [_ [_ ->]]]]]; assumption.
Qed.

Lemma unpin_failure_atomic_l dis c d s r d' x : conn_unpin dis c d s = (r, d', x) -> r <> ROk -> no_acted_drop s = true -> d' = d.
Proof.
  unfold conn_unpin. destruct dis; intros H Hr Hs; [now inversion H|].
  destruct (no_acted_drop_pop s Hs) as [Hb1 _].
  inversion H; subst. apply serve_no_effect; auto. now apply rm_not_ok_inv.
Qed.

(* the exception is real: the daemon acted, the response was lost, the connector (rightly) reports an error *)
Lemma pin_failure_atomic_needs_no_drop_l : exists p d s d' x,
  conn_pin p d s = (RErr, d', x) /\ d' <> d.
Proof.
  exists (mk_pin 0%N (-1) Rec 0%N None), [], [BOk 0%N false; BDrop true]. eexists. eexists.
  split; [vm_compute; reflexivity|discriminate].
Qed.
