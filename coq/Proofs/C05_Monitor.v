(* C05 — the history monitors of Model/C05_Check.v (conv_ok = code 10, inst_ok = 11, heal_ok = 13, opts_ok = 14) read as
   propositions (soundness), with the monitor's bookkeeping of the shared state tied to the model's: along any script the
   monitor's `sp_pinset` / `sp_last` are the model's `pinset` / `last` fields, so code 10 absent means the observed analogue
   of tracker_quiescent_converged at every quiescent observation. *)
From V Require Import Base.Common Base.CommonLemmas Model.C05_Tracker Model.C05_Check Proofs.C05_Tracker.
Open Scope N_scope.

Definition sp_step (x : sp) (eo : event * obs) : sp := sp_event x (fst eo) (snd eo).
Definition sp_after (cf : cfg) (l : list (event * obs)) : sp := fold_left sp_step l (sp_init cf).
Definition codes_at (n : N) (x : sp) (e : event) (o : obs) : list N :=
  let x' := sp_event x e o in
  (if o_quiescent o && negb (conv_ok n x' o) then [10] else [])
  ++ (if inst_ok e o then [] else [11])
  ++ (match sp_heal x' with Some d0 => if o_quiescent o && negb (heal_ok n x' d0 o) then [13] else [] | None => [] end)
  ++ (if opts_ok x' o then [] else [14]).

Lemma spec_walk_cons n x e o r : spec_walk n x ((e, o) :: r) = codes_at n x e o ++ spec_walk n (sp_event x e o) r.
Proof. cbn [spec_walk]. unfold codes_at. cbv zeta. now rewrite <- !app_assoc. Qed.

Lemma spec_walk_at n pre e o post c : forall x,
  In c (codes_at n (fold_left sp_step pre x) e o) -> In c (spec_walk n x (pre ++ (e, o) :: post)).
Proof. induction pre as [|[e0 o0] pre IH]; intros x H.
  - cbn [app]. rewrite spec_walk_cons. apply in_or_app. now left.
  - cbn [app]. rewrite spec_walk_cons. apply in_or_app. right. apply IH. exact H. Qed.

Lemma codes_in cf pre e o post c :
  In c (codes_at (ncid_of cf) (sp_after cf pre) e o) -> In c (spec_codes cf (pre ++ (e, o) :: post)).
Proof. intros H. unfold spec_codes. apply nodup_In. now apply spec_walk_at. Qed.

(* ---------- the monitor's shared state is the model's ---------- *)
Lemma complete_fields s c f : pinset (complete s c f) = pinset s /\ last (complete s c f) = last s.
Proof. unfold complete. destruct (find _ (calls s)) as [cl|]; [|auto]. destruct (aget c (table s)) as [o|]; [|auto].
  destruct (negb (N.eqb (oid o) (coid cl))); [auto|].
  destruct (if f then _ else _) as [i' ok]. rewrite dispatch_pinset, dispatch_last.
  destruct ok; unfold clean, set_err_phase; cbn.
  - destruct (current _ _ _); auto.
  - destruct (aget c _); auto. Qed.

Lemma recover_list_fields l : forall s, pinset (fst (recover_list s l)) = pinset s /\ last (fst (recover_list s l)) = last s.
Proof. induction l as [|[c x] r IH]; intros s; [auto|]. cbn [recover_list].
  destruct (recover_with_fields s c x) as (_ & A & B). destruct (recover_with s c x) as [s' [|]]; cbn [fst] in *.
  - destruct (IH s') as [C D]. split; congruence.
  - auto. Qed.

Lemma step_fields s e : Inv s ->
  pinset (fst (step s e)) = (match e with ETrack p => aput (pcid p) p (pinset s) | EUntrack c => adel c (pinset s) | _ => pinset s end) /\
  last (fst (step s e)) = (match e with ETrack p => aput (pcid p) (ITrack p) (last s) | EUntrack c => aput c IUntrack (last s) | _ => last s end).
Proof. intros I. unfold step. destruct (step_raw s e) as [s' r] eqn:E. cbn [fst]. rewrite dispatch_pinset, dispatch_last.
  assert (Es : s' = fst (step_raw s e)) by now rewrite E. rewrite Es. clear E Es. destruct e; cbn [step_raw fst].
  - destruct (track_effect s p I) as (A & B & _). auto.
  - destruct (untrack_effect s c I) as (A & B & _). auto.
  - unfold recover. destruct (recover_with_fields s c (status_of s c)) as (_ & A & B). auto.
  - unfold recover_all. apply recover_list_fields.
  - apply complete_fields.
  - auto. Qed.

Lemma run_snoc s evs e : run s (evs ++ [e]) = fst (step (run s evs) e).
Proof. unfold run. now rewrite fold_left_app. Qed.

Theorem sp_shared_state_l cf l :
  sp_pinset (sp_after cf l) = pinset (run (init_of cf) (map fst l)) /\ sp_last (sp_after cf l) = last (run (init_of cf) (map fst l)).
Proof. induction l as [|[e o] r IH] using rev_ind.
  - destruct cf as [[[[q n] nc] pins] dm]. cbn. auto.
  - unfold sp_after in *. rewrite fold_left_app, map_app. cbn [fold_left map fst]. rewrite run_snoc.
    assert (I : Inv (run (init_of cf) (map fst r))).
    { destruct cf as [[[[q n] nc] pins] dm]. cbn [init_of]. apply run_inv, init_inv. }
    destruct (step_fields _ e I) as [A B]. rewrite A, B. destruct IH as [P L]. unfold sp_step. cbn [fst snd].
    unfold sp_step in *. destruct e; cbn [sp_event sp_pinset sp_last]; rewrite ?P, ?L; auto. Qed.

(* ---------- Prop-level clauses ---------- *)
Definition dm_of (o : obs) (c : N) : option N := aget c (o_daemon o).
(* code 10, main clause *)
Definition conv_spec (n : N) (ps : list (N * tpin)) (o : obs) : Prop :=
  forall c p, In c (nrange n) -> aget c ps = Some p -> pmeta p = false -> premote p = false ->
    dm_of o c = Some (mode_code (pdirect p)) \/ err_bits (o_st o c) = true.
(* code 10, the clauses on removed cids *)
Definition conv_removed_spec (n : N) (x : sp) (o : obs) : Prop :=
  forall c, In c (nrange n) ->
    (In c (sp_unt x) -> dm_of o c = None \/ err_bits (o_st o c) = true) /\ (In c (sp_remok x) -> dm_of o c = None).

Lemma optN_eqb_iff a b : optN_eqb a b = true <-> a = b.
Proof. destruct a, b; cbn; try (split; congruence). rewrite N.eqb_eq. split; congruence. Qed.

Lemma conv_ok_sound n x o : conv_ok n x o = true -> conv_spec n (sp_pinset x) o /\ conv_removed_spec n x o.
Proof. unfold conv_ok. rewrite forallb_forall. intros H. split.
  - intros c p Hc Hp Hm Hr. specialize (H c Hc). rewrite !andb_true_iff in H. destruct H as [[H _] _]. rewrite Hp in H.
    unfold C05_Check.local_pin in H. rewrite Hm, Hr in H. cbn [negb andb] in H. apply orb_true_iff in H. destruct H as [H|H]; auto.
    left. unfold dm_is in H. now apply optN_eqb_iff in H.
  - intros c Hc. specialize (H c Hc). rewrite !andb_true_iff in H. destruct H as [[_ H1] H2]. split; intros Hin; apply memN_in in Hin.
    + rewrite Hin in H1. apply orb_true_iff in H1. destruct H1 as [H1|H1]; auto. left. now apply optN_eqb_iff in H1.
    + rewrite Hin in H2. now apply optN_eqb_iff in H2. Qed.

(* code 10 absent: at every quiescent observation (no call in flight, no pending status) every pin the shared state - as the
   MODEL holds it after the same events - assigns to this peer is held by the daemon in the recorded mode, or its status is
   an error; removed cids are unpinned or in error *)
Theorem conv_monitor_sound_l cf pre e o post : ~ In 10 (spec_codes cf (pre ++ (e, o) :: post)) -> o_quiescent o = true ->
  conv_spec (ncid_of cf) (pinset (run (init_of cf) (map fst (pre ++ [(e, o)])))) o /\
  conv_removed_spec (ncid_of cf) (sp_after cf (pre ++ [(e, o)])) o.
Proof. intros Hno Hq.
  assert (Hx : sp_after cf (pre ++ [(e, o)]) = sp_event (sp_after cf pre) e o) by (unfold sp_after; now rewrite fold_left_app).
  assert (H : conv_ok (ncid_of cf) (sp_event (sp_after cf pre) e o) o = true).
  { destruct (conv_ok _ _ o) eqn:E; auto. exfalso. apply Hno. apply codes_in. unfold codes_at. cbv zeta. rewrite Hq, E. now left. }
  apply conv_ok_sound in H. rewrite <- Hx in H. destruct (sp_shared_state_l cf (pre ++ [(e, o)])) as [P _]. rewrite <- P. exact H. Qed.

(* code 11: what an instruction's return value promises *)
Definition inst_spec (e : event) (o : obs) : Prop :=
  match e with
  | ETrack p =>
      if pmeta p then o_ret o = 0
      else if premote p then o_ret o = 0 /\ o_st o (pcid p) = 256 /\ exists d t, In (pcid p, 1, d, t) (o_inflight o)
      else (o_ret o = 1 /\ o_st o (pcid p) = 4) \/ (o_ret o = 0 /\ (o_st o (pcid p) = 512 \/ o_st o (pcid p) = 32))
  | EUntrack c => (o_ret o = 1 /\ o_st o c = 8) \/ (o_ret o = 0 /\ (o_st o c = 1024 \/ o_st o c = 64))
  | ERecover c => (o_ret o = 1 /\ err_bits (o_st o c) = true) \/ o_ret o = 0
  | ERecoverAll _ => o_ret o <= 1
  | _ => o_ret o = 0
  end.

Lemma inst_ok_sound e o : inst_ok e o = true -> inst_spec e o.
Proof. unfold inst_ok, inst_spec. destruct e as [p|c|c|ord|c f|c m]; intros H.
  - destruct (pmeta p); [now apply N.eqb_eq|]. destruct (premote p).
    + rewrite !andb_true_iff in H. destruct H as [[H1 H2] H3]. apply N.eqb_eq in H1, H2. split; auto. split; auto.
      apply existsb_exists in H3. destruct H3 as [[[[c' k] d] t] [Hin Hk]]. apply andb_true_iff in Hk. destruct Hk as [K1 K2].
      apply N.eqb_eq in K1, K2. subst. eauto.
    + destruct (N.eqb_spec (o_ret o) 1) as [E|E]; [left; split; auto; now apply N.eqb_eq|]. right.
      apply andb_true_iff in H. destruct H as [H1 H2]. apply N.eqb_eq in H1. split; auto.
      apply orb_true_iff in H2. destruct H2 as [H2|H2]; apply N.eqb_eq in H2; auto.
  - destruct (N.eqb_spec (o_ret o) 1) as [E|E]; [left; split; auto; now apply N.eqb_eq|]. right.
    apply andb_true_iff in H. destruct H as [H1 H2]. apply N.eqb_eq in H1. split; auto.
    apply orb_true_iff in H2. destruct H2 as [H2|H2]; apply N.eqb_eq in H2; auto.
  - destruct (N.eqb_spec (o_ret o) 1) as [E|E]; [left; auto | right; now apply N.eqb_eq].
  - now apply N.leb_le.
  - now apply N.eqb_eq.
  - now apply N.eqb_eq. Qed.

Theorem inst_monitor_sound_l cf pre e o post : ~ In 11 (spec_codes cf (pre ++ (e, o) :: post)) -> inst_spec e o.
Proof. intros Hno. apply inst_ok_sound. destruct (inst_ok e o) eqn:E; auto. exfalso. apply Hno. apply codes_in.
  unfold codes_at. cbv zeta. rewrite E. apply in_or_app. right. apply in_or_app. left. now left. Qed.

(* code 14: every pin request in flight carries the mode and the options of a pin recorded for that cid (by the initial
   shared state or by a Track of the script so far) *)
Definition recorded_pins (cf : cfg) (l : list (event * obs)) : list tpin :=
  flat_map (fun eo => match fst eo with ETrack p => [p] | _ => [] end) (rev l) ++ (let '(_, _, _, pins, _) := cf in pins).

Lemma sp_hist_recorded cf l : sp_hist (sp_after cf l) = recorded_pins cf l.
Proof. unfold recorded_pins. induction l as [|[e o] r IH] using rev_ind.
  - destruct cf as [[[[q n] nc] pins] dm]. reflexivity.
  - unfold sp_after in *. rewrite fold_left_app, rev_app_distr. cbn [fold_left rev app flat_map fst]. unfold sp_step at 1. cbn [fst snd].
    destruct e; cbn [sp_event sp_hist app]; rewrite IH; reflexivity. Qed.

Theorem opts_monitor_sound_l cf pre e o post c d t : ~ In 14 (spec_codes cf (pre ++ (e, o) :: post)) ->
  In (c, 0, d, t) (o_inflight o) ->
  exists p, In p (recorded_pins cf (pre ++ [(e, o)])) /\ pcid p = c /\ (if pdirect p then 1 else 0) = d /\ ptag p = t.
Proof. intros Hno Hin.
  assert (Hx : sp_after cf (pre ++ [(e, o)]) = sp_event (sp_after cf pre) e o) by (unfold sp_after; now rewrite fold_left_app).
  assert (H : opts_ok (sp_event (sp_after cf pre) e o) o = true).
  { destruct (opts_ok _ o) eqn:E; auto. exfalso. apply Hno. apply codes_in. unfold codes_at. cbv zeta. rewrite E.
    apply in_or_app. right. apply in_or_app. right. apply in_or_app. right. now left. }
  unfold opts_ok in H. rewrite forallb_forall in H. specialize (H _ Hin). cbn in H.
  apply existsb_exists in H. destruct H as [p [Hp Hk]]. rewrite !andb_true_iff, !N.eqb_eq in Hk. destruct Hk as [[K1 K2] K3].
  exists p. rewrite <- sp_hist_recorded, Hx. auto. Qed.

(* code 13: a RecoverAll round from a quiescent state that returned nil and whose calls all succeeded, at its next quiescent
   observation: every pin assigned here is held as recorded - unless recorded direct and held recursively at the start of the
   round - and removed cids are unpinned *)
Definition heal_spec (n : N) (x : sp) (d0 : list (N * N)) (o : obs) : Prop :=
  forall c, In c (nrange n) ->
    (forall p, aget c (sp_pinset x) = Some p -> pmeta p = false -> premote p = false ->
       ~ (pdirect p = true /\ aget c d0 = Some 1) -> dm_of o c = Some (mode_code (pdirect p))) /\
    (In c (sp_unt x) -> dm_of o c = None).

Lemma heal_ok_sound n x d0 o : heal_ok n x d0 o = true -> heal_spec n x d0 o.
Proof. unfold heal_ok. rewrite forallb_forall. intros H c Hc. specialize (H c Hc). apply andb_true_iff in H. destruct H as [H1 H2]. split.
  - intros p Hp Hm Hr Hnd. rewrite Hp in H1. unfold C05_Check.local_pin in H1. rewrite Hm, Hr in H1. cbn [negb andb] in H1.
    destruct (pdirect p && optN_eqb (aget c d0) (Some 1)) eqn:G.
    + exfalso. apply Hnd. apply andb_true_iff in G. destruct G as [G1 G2]. apply optN_eqb_iff in G2. auto.
    + cbn [negb] in H1. now apply optN_eqb_iff in H1.
  - intros Hin. apply memN_in in Hin. rewrite Hin in H2. now apply optN_eqb_iff in H2. Qed.

Theorem heal_monitor_sound_l cf pre e o post d0 : ~ In 13 (spec_codes cf (pre ++ (e, o) :: post)) -> o_quiescent o = true ->
  sp_heal (sp_after cf (pre ++ [(e, o)])) = Some d0 -> heal_spec (ncid_of cf) (sp_after cf (pre ++ [(e, o)])) d0 o.
Proof. intros Hno Hq Hh.
  assert (Hx : sp_after cf (pre ++ [(e, o)]) = sp_event (sp_after cf pre) e o) by (unfold sp_after; now rewrite fold_left_app).
  rewrite Hx in *. apply heal_ok_sound. destruct (heal_ok _ _ d0 o) eqn:E; auto. exfalso. apply Hno. apply codes_in.
  unfold codes_at. cbv zeta. rewrite Hh, Hq, E. apply in_or_app. right. apply in_or_app. right. apply in_or_app. left. now left. Qed.
