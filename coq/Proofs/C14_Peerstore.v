(* C14 — lemmas about the peerstore file (Model/C14_Peerstore.v). *)
From V Require Import Base.Common Base.CommonLemmas Model.C14_Peerstore.
From Coq Require Import Permutation Sorting.Sorted Arith.

(* ---------------- LoadPeerstore ---------------- *)
Lemma load_lines_char ls : load_lines ls = flat_map keep_line ls.
Proof.
  unfold load_lines. induction ls as [|l r IH]; simpl; auto.
  destruct l as [|c [a|]]; simpl; auto; destruct (N.eqb c slash); simpl; auto. now rewrite IH.
Qed.

Lemma load_lines_no_nil ls a : In a (load_lines ls) -> a <> None.
Proof.
  rewrite load_lines_char, in_flat_map. intros [l [_ H]].
  destruct l as [|c [b|]]; simpl in H; try tauto. destruct (N.eqb c slash); simpl in H; [|tauto].
  destruct H as [<-|[]]. discriminate.
Qed.

Lemma load_lines_gen_app fixed l1 l2 : load_lines_gen fixed (l1 ++ l2) = load_lines_gen fixed l1 ++ load_lines_gen fixed l2.
Proof.
  induction l1 as [|l r IH]; simpl; auto.
  destruct l as [|c [a|]]; auto; destruct (negb (N.eqb c slash)); auto; simpl; [now rewrite IH|].
  destruct fixed; auto. simpl. now rewrite IH.
Qed.

Lemma import_no_crash self : forall addrs i ps, (forall a, In a addrs -> a <> None) -> import_peers_from self i addrs ps <> ICrash.
Proof.
  induction addrs as [|a r IH]; intros i ps H; simpl; [discriminate|].
  destruct a as [a|]; [|exfalso; apply (H None); simpl; auto].
  destruct (import_peer self a ps) as [pid ps1]. apply IH. intros b Hb. apply H. now right.
Qed.

Lemma import_file_no_crash self ls ps : import_file true self ls ps <> ICrash.
Proof. unfold import_file, import_peers. apply import_no_crash. intros a. apply load_lines_no_nil. Qed.

(* ---------------- insertion sort ---------------- *)
Section Sort.
Context {A : Type} (key : A -> nat).
Definition kle (a b : A) := key a <= key b.
Definition klt (a b : A) := key a < key b.

Lemma ins_by_perm x l : Permutation (ins_by key x l) (x :: l).
Proof.
  induction l as [|y ys IH]; simpl; auto. destruct (key x <=? key y); auto.
  rewrite IH. apply perm_swap.
Qed.

Lemma sort_by_perm l : Permutation (sort_by key l) l.
Proof. induction l as [|x xs IH]; simpl; auto. rewrite ins_by_perm. now constructor. Qed.

Lemma ins_by_sorted x l : StronglySorted kle l -> StronglySorted kle (ins_by key x l).
Proof.
  induction l as [|y ys IH]; intros H; simpl.
  - constructor; constructor.
  - inversion H as [|? ? Hs Hall]; subst. destruct (Nat.leb_spec (key x) (key y)).
    + constructor; auto. constructor; auto. eapply Forall_impl; [|exact Hall]. unfold kle. intros; lia.
    + constructor; auto. apply Forall_forall. intros z Hz.
      apply (Permutation_in _ (ins_by_perm x ys)) in Hz.
      destruct Hz as [<-|Hz]; [unfold kle; lia|]. rewrite Forall_forall in Hall. auto.
Qed.

Lemma sort_by_sorted l : StronglySorted kle (sort_by key l).
Proof. induction l as [|x xs IH]; simpl; [constructor|]. now apply ins_by_sorted. Qed.

Lemma sorted_perm_unique : forall l1 l2,
  StronglySorted klt l1 -> StronglySorted kle l2 -> Permutation l1 l2 -> l1 = l2.
Proof.
  induction l1 as [|a l1 IH]; intros l2 H1 H2 P.
  - apply Permutation_nil in P. now subst.
  - destruct l2 as [|b l2]; [symmetry in P; apply Permutation_nil in P; discriminate|].
    inversion H1 as [|? ? Hs1 Ha]; subst. inversion H2 as [|? ? Hs2 Hb]; subst.
    assert (a = b) as ->.
    { assert (Ia : In a (b :: l2)) by (eapply Permutation_in; [exact P|now left]).
      assert (Ib : In b (a :: l1)) by (eapply Permutation_in; [symmetry; exact P|now left]).
      destruct Ia as [->|Ia]; auto. destruct Ib as [->|Ib]; auto.
      rewrite Forall_forall in Ha, Hb. specialize (Ha _ Ib). specialize (Hb _ Ia). unfold klt, kle in *. lia. }
    f_equal. apply IH; auto. eapply Permutation_cons_inv; eauto.
Qed.

Lemma klt_kle_sorted l : StronglySorted klt l -> StronglySorted kle l.
Proof.
  induction 1; constructor; auto. eapply Forall_impl; [|eassumption]. unfold klt, kle. intros; lia.
Qed.

Lemma sort_by_of_perm l l' : StronglySorted klt l -> Permutation l' l -> sort_by key l' = l.
Proof.
  intros Hs P. symmetry. apply sorted_perm_unique; auto.
  - apply sort_by_sorted.
  - rewrite sort_by_perm. now symmetry.
Qed.

Lemma sort_by_id l : StronglySorted klt l -> sort_by key l = l.
Proof. intros H. now apply sort_by_of_perm. Qed.
End Sort.

(* ---------------- the peerstore ---------------- *)
Local Open Scope N_scope.

Lemma addrs_of_add_same p t ps : addrs_of (add_addr p t ps) p = add_set t (addrs_of ps p).
Proof. unfold addrs_of at 1. unfold add_addr. cbn [ps_addrs]. now rewrite aget_aput_same. Qed.

Lemma addrs_of_add_other p q t ps : q <> p -> addrs_of (add_addr p t ps) q = addrs_of ps q.
Proof. intros H. unfold addrs_of at 1. unfold add_addr. cbn [ps_addrs]. now rewrite aget_aput_other. Qed.

Lemma prio_of_add p q t ps : prio_of (add_addr p t ps) q = prio_of ps q.
Proof. reflexivity. Qed.

Lemma addrs_of_set_prio p i q ps : addrs_of (set_prio p i ps) q = addrs_of ps q.
Proof. reflexivity. Qed.

Lemma prio_of_set_same p i ps : prio_of (set_prio p i ps) p = i.
Proof. unfold prio_of, set_prio. cbn [ps_prio]. now rewrite aget_aput_same. Qed.

Lemma prio_of_set_other p q i ps : q <> p -> prio_of (set_prio p i ps) q = prio_of ps q.
Proof. intros H. unfold prio_of, set_prio. cbn [ps_prio]. now rewrite aget_aput_other. Qed.

Definition p2p_addr (p : N) (t : transport) : option paddr := Some (PP2p p (Some t)).

Lemma import_app self : forall l1 l2 i ps,
  import_peers_from self i (l1 ++ l2) ps =
  match import_peers_from self i l1 ps with ICrash => ICrash | IOk ps1 => import_peers_from self (i + length l1)%nat l2 ps1 end.
Proof.
  induction l1 as [|a r IH]; intros l2 i ps; simpl.
  - now rewrite Nat.add_0_r.
  - destruct a as [a|]; auto. destruct (import_peer self a ps) as [pid ps1].
    rewrite IH. now replace (S i + length r)%nat with (i + S (length r))%nat by lia.
Qed.

(* importing the lines of one peer *)
Lemma import_one self p : p <> self -> forall trs i ps,
  exists ps', import_peers_from self i (map (p2p_addr p) trs) ps = IOk ps' /\
    addrs_of ps' p = fold_left (fun acc t => add_set t acc) trs (addrs_of ps p) /\
    (trs <> [] -> prio_of ps' p = (i + length trs - 1)%nat) /\
    (forall q, q <> p -> addrs_of ps' q = addrs_of ps q /\ prio_of ps' q = prio_of ps q).
Proof.
  intros Hp. induction trs as [|t r IH]; intros i ps; simpl.
  - exists ps. repeat split; auto. congruence.
  - destruct (N.eqb_spec p self) as [E|_]; [contradiction|].
    destruct (IH (S i) (set_prio p i (add_addr p t ps))) as [ps' [E1 [E2 [E3 E4]]]].
    exists ps'. split; [exact E1|]. split; [|split].
    + rewrite E2. now rewrite addrs_of_set_prio, addrs_of_add_same.
    + intros _. destruct r as [|t2 r2].
      * simpl in E1. injection E1 as <-. rewrite prio_of_set_same. simpl. lia.
      * rewrite E3 by discriminate. simpl. lia.
    + intros q Hq. destruct (E4 q Hq) as [A B]. rewrite A, B.
      rewrite addrs_of_set_prio, addrs_of_add_other, prio_of_set_other, prio_of_add; auto.
Qed.

(* distinct transports accumulate in order *)
Definition fresh_in (t : transport) (l : list transport) := existsb (tr_eqb t) l = false.

Lemma fold_add_set : forall trs acc,
  StronglySorted (klt tr_key) trs -> (forall t, In t trs -> fresh_in t acc) ->
  fold_left (fun a t => add_set t a) trs acc = acc ++ trs.
Proof.
  induction trs as [|t r IH]; intros acc Hs Hf; simpl; [now rewrite app_nil_r|].
  inversion Hs as [|? ? Hs' Hall]; subst.
  unfold add_set at 2. rewrite (Hf t) by now left.
  rewrite IH; auto.
  - now rewrite <- app_assoc.
  - intros u Hu. unfold fresh_in. rewrite existsb_app, (Hf u) by now right. simpl. rewrite orb_false_r.
    rewrite Forall_forall in Hall. specialize (Hall u Hu). unfold klt, tr_key in Hall. unfold tr_eqb.
    apply N.eqb_neq. intros E. rewrite E in Hall. lia.
Qed.

Lemma filter_all {A} (f : A -> bool) l : forallb f l = true -> filter f l = l.
Proof. induction l as [|x xs IH]; simpl; auto. rewrite andb_true_iff. intros [-> H]. now rewrite IH. Qed.

Lemma filter_none {A} (f : A -> bool) l : forallb (fun x => negb (f x)) l = true -> filter f l = [].
Proof. induction l as [|x xs IH]; simpl; auto. rewrite andb_true_iff, negb_true_iff. intros [-> H]. auto. Qed.

Lemma filtered_addrs_wf ps p trs : addrs_of ps p = trs -> wf_addrs trs -> filtered_addrs ps p = trs.
Proof.
  intros E [Hne [Hs Hd]]. unfold filtered_addrs. rewrite E. destruct Hd as [Hd|Hd].
  - assert (Hf : filter (fun t : (N * bool)%type => snd t) trs = trs) by (apply filter_all; exact Hd).
    rewrite Hf. destruct trs; [congruence|]. now apply sort_by_id.
  - assert (Hf : filter (fun t : (N * bool)%type => snd t) trs = []) by (apply filter_none; exact Hd).
    rewrite Hf. now apply sort_by_id.
Qed.

Definition pkey (ps : pstore) (pi : pinfo) : nat := prio_of ps (fst pi).

Lemma import_infos self : forall infos i ps,
  wf_infos infos -> ~ In self (map fst infos) -> (forall pi, In pi infos -> addrs_of ps (fst pi) = []) ->
  exists ps', import_peers_from self i (loaded_of infos) ps = IOk ps' /\
    (forall pi, In pi infos -> addrs_of ps' (fst pi) = snd pi /\ (i <= prio_of ps' (fst pi))%nat) /\
    StronglySorted (klt (pkey ps')) infos /\
    (forall q, ~ In q (map fst infos) -> addrs_of ps' q = addrs_of ps q /\ prio_of ps' q = prio_of ps q).
Proof.
  induction infos as [|[p trs] rest IH]; intros i ps [Hnd Hwf] Hself Hfresh.
  - exists ps. simpl. repeat split; auto; try tauto. constructor.
  - simpl in *. inversion Hnd as [|? ? Hnotin Hnd']; subst.
    assert (Hp : p <> self) by (intros ->; apply Hself; now left).
    destruct (Hwf (p, trs) (or_introl eq_refl)) as [Hne [Hs Hd]]. simpl in *.
    destruct (import_one self p Hp trs i ps) as [ps1 [E1 [E2 [E3 E4]]]].
    pose proof (Hfresh (p, trs) (or_introl eq_refl)) as Hf0. cbn [fst] in Hf0. rewrite Hf0 in E2.
    rewrite fold_add_set in E2; auto. 2:{ intros; reflexivity. } simpl in E2.
    specialize (E3 Hne).
    destruct (IH (i + length trs)%nat ps1) as [ps' [F1 [F2 [F3 F4]]]].
    + split; auto.
    + tauto.
    + intros pi Hpi. assert (fst pi <> p). { intros <-. apply Hnotin. now apply in_map. }
      destruct (E4 (fst pi) H) as [-> _]. apply Hfresh. now right.
    + exists ps'. split.
      * change (map (fun t => Some (PP2p p (Some t))) trs) with (map (p2p_addr p) trs).
        rewrite import_app, E1, map_length. exact F1.
      * destruct (F4 p Hnotin) as [G1 G2]. split; [|split].
        -- intros pi [<-|Hpi]; simpl.
           ++ rewrite G1, G2, E2, E3. split; auto. destruct trs; [congruence|simpl; lia].
           ++ destruct (F2 pi Hpi) as [A B]. split; auto. lia.
        -- constructor; auto. apply Forall_forall. intros pi Hpi. unfold klt, pkey. simpl.
           destruct (F2 pi Hpi) as [_ B]. rewrite G2, E3. destruct trs; [congruence|simpl in *; lia].
        -- intros q Hq. assert (q <> p) by (intros ->; apply Hq; now left). assert (~ In q (map fst rest)) by (intros Hi; apply Hq; now right).
           destruct (F4 q H0) as [-> ->]. now apply E4.
Qed.

Lemma load_save infos : load_lines (save_lines infos) = loaded_of infos.
Proof.
  unfold load_lines, save_lines, loaded_of. induction infos as [|[p trs] r IH]; simpl; auto.
  rewrite load_lines_gen_app, IH. f_equal.
  induction trs as [|t ts IHt]; simpl; auto. now rewrite IHt.
Qed.

Lemma addrs_of_empty p : addrs_of ps_empty p = [].
Proof. reflexivity. Qed.

Lemma reload_roundtrip self2 infos query :
  wf_infos infos -> ~ In self2 (map fst infos) -> Permutation query (map fst infos) ->
  reload self2 infos query = Some infos.
Proof.
  intros Hwf Hself Hperm. unfold reload, import_file, import_peers. fold load_lines. rewrite load_save.
  destruct (import_infos self2 infos O ps_empty Hwf Hself (fun pi _ => addrs_of_empty (fst pi))) as [ps [E [F2 [F3 _]]]].
  rewrite E. f_equal. unfold peer_infos.
  assert (Hfm : flat_map (fun p => if N.eqb p self2 then [] else match filtered_addrs ps p with [] => [] | l => [(p, l)] end) query
                = map (fun p => (p, addrs_of ps p)) query).
  { assert (Hq : forall p, In p query -> In p (map fst infos)) by (intros p Hp; eapply Permutation_in; eauto).
    clear Hperm. induction query as [|p q IH]; simpl; auto.
    rewrite IH by (intros; apply Hq; now right). 
    assert (Hin : In p (map fst infos)) by (apply Hq; now left).
    destruct (N.eqb_spec p self2) as [->|_]; [contradiction|].
    apply in_map_iff in Hin. destruct Hin as [pi [<- Hpi]].
    destruct (F2 pi Hpi) as [A _]. destruct Hwf as [_ Hw]. specialize (Hw pi Hpi).
    rewrite (filtered_addrs_wf ps (fst pi) (snd pi) A Hw), A.
    destruct Hw as [Hne _]. destruct (snd pi); [congruence|reflexivity]. }
  rewrite Hfm. apply (sort_by_of_perm (pkey ps)); auto.
  apply Permutation_trans with (map (fun p => (p, addrs_of ps p)) (map fst infos)); [now apply Permutation_map|].
  rewrite map_map. rewrite (map_ext_in _ (fun pi => pi)); [rewrite map_id; auto|].
  intros pi Hpi. destruct (F2 pi Hpi) as [-> _]. now destruct pi.
Qed.

(* ---------------- what PeerInfos returns is well formed ---------------- *)
Definition ps_ok (ps : pstore) : Prop := forall p, NoDup (map fst (addrs_of ps p)).

Lemma ps_empty_ok : ps_ok ps_empty.
Proof. intros p. constructor. Qed.

Lemma nodup_snoc {A} (x : A) l : NoDup l -> ~ In x l -> NoDup (l ++ [x]).
Proof.
  induction l as [|y ys IH]; simpl; intros Hnd Hn; [repeat constructor; auto|].
  inversion Hnd as [|? ? Hy Hys]; subst. constructor.
  - rewrite in_app_iff. simpl. intuition.
  - apply IH; auto.
Qed.

Lemma add_set_nodup t l : NoDup (map fst l) -> NoDup (map fst (add_set t l)).
Proof.
  intros H. unfold add_set. destruct (existsb (tr_eqb t) l) eqn:E; auto.
  rewrite map_app. simpl. apply nodup_snoc; auto.
  intros Hin. apply in_map_iff in Hin. destruct Hin as [u [Eu Hu]].
  assert (existsb (tr_eqb t) l = true); [|congruence].
  apply existsb_exists. exists u. split; auto. unfold tr_eqb. rewrite Eu. apply N.eqb_refl.
Qed.

Lemma add_addr_ok p t ps : ps_ok ps -> ps_ok (add_addr p t ps).
Proof.
  intros H q. destruct (N.eq_dec q p) as [->|Hne].
  - rewrite addrs_of_add_same. apply add_set_nodup, H.
  - rewrite addrs_of_add_other by auto. apply H.
Qed.

Lemma set_prio_ok p i ps : ps_ok ps -> ps_ok (set_prio p i ps).
Proof. intros H q. rewrite addrs_of_set_prio. apply H. Qed.

Lemma import_peers_ok self : forall addrs i ps ps', ps_ok ps -> import_peers_from self i addrs ps = IOk ps' -> ps_ok ps'.
Proof.
  induction addrs as [|a r IH]; intros i ps ps' Hok E; simpl in E.
  - injection E as <-. exact Hok.
  - destruct a as [a|]; [|discriminate].
    destruct (import_peer self a ps) as [pid ps1] eqn:Ei.
    assert (Hok1 : ps_ok ps1).
    { unfold import_peer in Ei. destruct a as [x|p0 tr]; [injection Ei as _ <-; exact Hok|].
      destruct (N.eqb p0 self); [injection Ei as _ <-; exact Hok|].
      injection Ei as _ <-. destruct tr; [now apply add_addr_ok|exact Hok]. }
    destruct pid as [p|].
    + apply (IH (S i) (set_prio p i ps1) ps'); [now apply set_prio_ok|exact E].
    + apply (IH (S i) ps1 ps'); [exact Hok1|exact E].
Qed.

Lemma le_nodup_lt {A} (key : A -> nat) l : StronglySorted (kle key) l -> NoDup (map key l) -> StronglySorted (klt key) l.
Proof.
  induction 1 as [|a l Hs IH Hall]; intros Hnd; constructor.
  - apply IH. now inversion Hnd.
  - inversion Hnd as [|? ? Hnot _]; subst. rewrite Forall_forall in *. intros x Hx.
    specialize (Hall x Hx). unfold kle, klt in *.
    assert (key a <> key x). { intros E. apply Hnot. rewrite E. now apply in_map. }
    lia.
Qed.

Lemma tr_key_nodup (l : list transport) : NoDup (map fst l) -> NoDup (map tr_key l).
Proof.
  intros H. replace (map tr_key l) with (map N.to_nat (map fst l)) by (rewrite map_map; reflexivity).
  apply FinFun.Injective_map_NoDup; auto. intros x y. apply N2Nat.inj.
Qed.

Lemma filter_nodup_map {A B} (f : A -> B) (g : A -> bool) l : NoDup (map f l) -> NoDup (map f (filter g l)).
Proof.
  induction l as [|x xs IH]; simpl; auto. intros H. inversion H as [|? ? Hn Hr]; subst.
  destruct (g x); simpl; auto. constructor; auto. intros Hin. apply Hn.
  apply in_map_iff in Hin. destruct Hin as [y [E Hy]]. apply filter_In in Hy. rewrite <- E. apply in_map. tauto.
Qed.

Lemma filter_nil_all {A} (g : A -> bool) l : filter g l = [] -> forall x, In x l -> g x = false.
Proof.
  induction l as [|y ys IH]; simpl; [tauto|]. destruct (g y) eqn:E; [discriminate|]. intros H x [<-|Hx]; auto.
Qed.

Lemma sorted_strict_of_perm (l l' : list transport) :
  NoDup (map tr_key l) -> l' = sort_by tr_key l -> StronglySorted (klt tr_key) l'.
Proof.
  intros Hnd ->. apply le_nodup_lt; [apply sort_by_sorted|].
  eapply Permutation_NoDup; [apply Permutation_map, Permutation_sym, sort_by_perm|exact Hnd].
Qed.

Lemma filtered_addrs_wf_any ps p : ps_ok ps -> filtered_addrs ps p <> [] -> wf_addrs (filtered_addrs ps p).
Proof.
  intros Hok Hne. unfold filtered_addrs in *. specialize (Hok p). set (all := addrs_of ps p) in *.
  destruct (filter (fun t : (N * bool)%type => snd t) all) as [|t0 l0] eqn:E.
  - split; [exact Hne|]. split.
    + eapply sorted_strict_of_perm; [apply tr_key_nodup; exact Hok|reflexivity].
    + right. apply forallb_forall. intros x Hx. apply (Permutation_in _ (sort_by_perm tr_key all)) in Hx.
      now rewrite (filter_nil_all _ _ E x Hx).
  - split; [exact Hne|]. split.
    + eapply sorted_strict_of_perm; [|reflexivity]. apply tr_key_nodup. rewrite <- E. now apply filter_nodup_map.
    + left. apply forallb_forall. intros x Hx. apply (Permutation_in _ (sort_by_perm tr_key (t0 :: l0))) in Hx.
      rewrite <- E in Hx. apply filter_In in Hx. tauto.
Qed.

Definition pi_of (self : N) (ps : pstore) (p : N) : list pinfo :=
  if N.eqb p self then [] else match filtered_addrs ps p with [] => [] | l => [(p, l)] end.

Lemma pi_of_in self ps p pi : In pi (pi_of self ps p) -> fst pi = p /\ p <> self /\ snd pi = filtered_addrs ps p /\ snd pi <> [].
Proof.
  unfold pi_of. destruct (N.eqb_spec p self) as [->|Hne]; [simpl; tauto|].
  destruct (filtered_addrs ps p) as [|t l] eqn:E; simpl; [tauto|]. intros [<-|[]]. simpl. repeat split; auto. discriminate.
Qed.

Lemma flat_pi_nodup self ps peers : NoDup peers -> NoDup (map fst (flat_map (pi_of self ps) peers)).
Proof.
  induction peers as [|p r IH]; simpl; intros H; [constructor|]. inversion H as [|? ? Hn Hr]; subst.
  rewrite map_app. unfold pi_of at 1. destruct (N.eqb p self); [simpl; auto|].
  destruct (filtered_addrs ps p); simpl; auto. constructor; auto.
  intros Hin. apply in_map_iff in Hin. destruct Hin as [pi [E Hpi]]. apply in_flat_map in Hpi.
  destruct Hpi as [q [Hq Hpq]]. apply pi_of_in in Hpq. destruct Hpq as [E2 _]. apply Hn. congruence.
Qed.

Lemma peer_infos_wf self ps peers : ps_ok ps -> NoDup peers ->
  wf_infos (peer_infos self ps peers) /\ ~ In self (map fst (peer_infos self ps peers)).
Proof.
  intros Hok Hnd. unfold peer_infos. fold (pi_of self ps).
  set (L := flat_map (pi_of self ps) peers).
  assert (P : Permutation (sort_by (fun pi : pinfo => prio_of ps (fst pi)) L) L) by apply sort_by_perm.
  assert (HL : forall pi, In pi L -> fst pi <> self /\ snd pi = filtered_addrs ps (fst pi) /\ snd pi <> []).
  { intros pi Hpi. apply in_flat_map in Hpi. destruct Hpi as [q [_ Hq]]. apply pi_of_in in Hq.
    destruct Hq as [E [H1 [H2 H3]]]. subst q. auto. }
  split; [split|].
  - eapply Permutation_NoDup; [apply Permutation_map, Permutation_sym, P|]. now apply flat_pi_nodup.
  - intros pi Hpi. apply (Permutation_in _ P) in Hpi. destruct (HL pi Hpi) as [_ [E Hne]].
    rewrite E in *. now apply filtered_addrs_wf_any.
  - intros Hin. apply in_map_iff in Hin. destruct Hin as [pi [E Hpi]]. apply (Permutation_in _ P) in Hpi.
    destruct (HL pi Hpi) as [H _]. congruence.
Qed.

(* whatever file a host started from, what it saves at shutdown reads back identically on another host *)
Lemma roundtrip_from_any_file ls self peers self2 query ps :
  import_file true self ls ps_empty = IOk ps -> NoDup peers ->
  let infos := peer_infos self ps peers in
  ~ In self2 (map fst infos) -> Permutation query (map fst infos) -> reload self2 infos query = Some infos.
Proof.
  intros E Hnd infos Hs Hp. apply reload_roundtrip; auto.
  apply peer_infos_wf; auto. eapply import_peers_ok; [apply ps_empty_ok|exact E].
Qed.
