(* C04 — lemmas about the model of pin / Unpin / PinUpdate (Model/C04_ClusterOps.v). *)
From V Require Import Base.Common Base.CommonLemmas Model.C03_Alloc Proofs.C03_Alloc Model.C04_ClusterOps.
From Coq Require Import Permutation.
Open Scope Z_scope.

(* ---------- small facts ---------- *)
Lemma ptype_eqb_eq a b : ptype_eqb a b = true <-> a = b.
Proof. destruct a, b; simpl; split; intros H; try reflexivity; try discriminate. Qed.

Lemma ptype_eqb_neq a b : ptype_eqb a b = false <-> a <> b.
Proof. rewrite <- ptype_eqb_eq. destruct (ptype_eqb a b); split; congruence. Qed.

Lemma aget_in {V} k (v : V) m : aget k m = Some v -> In (k, v) m.
Proof. induction m as [|[k' v'] r IH]; simpl; [discriminate|]. destruct (N.eqb_spec k k').
  - intros H; inversion H; subst. now left.
  - intros H. right. auto. Qed.

Lemma aget_none_notin {V} k (m : list (N * V)) : aget k m = None -> ~ In k (akeys m).
Proof. induction m as [|[k' v'] r IH]; simpl; [tauto|]. destruct (N.eqb_spec k k'); [discriminate|].
  intros H [E|Hin]; [congruence|]. now apply IH. Qed.

Lemma aget_some_in_keys {V} k (v : V) m : aget k m = Some v -> In k (akeys m).
Proof. intros H. apply aget_in in H. unfold akeys. apply (in_map fst) in H. exact H. Qed.

Lemma pb_norm_idem p : pb_norm (pb_norm p) = pb_norm p.
Proof. destruct p as [o c t a d r]. unfold pb_norm, pb_norm_opts. simpl. destruct (o_expire o) as [[s n]|]; reflexivity. Qed.

Lemma pb_norm_cid p : p_cid (pb_norm p) = p_cid p. Proof. reflexivity. Qed.
Lemma pb_norm_allocs p : p_allocs (pb_norm p) = p_allocs p. Proof. reflexivity. Qed.
Lemma pb_norm_ty p : p_ty (pb_norm p) = p_ty p. Proof. reflexivity. Qed.
Lemma pb_norm_factors p : o_rmin (p_opts (pb_norm p)) = o_rmin (p_opts p) /\ o_rmax (p_opts (pb_norm p)) = o_rmax (p_opts p).
Proof. split; reflexivity. Qed.

(* ---------- log_pin / log_unpin on the map ---------- *)
Lemma log_pin_same st p : aget (p_cid p) (log_pin st p) = Some (pb_norm p).
Proof. apply aget_aput_same. Qed.

Lemma log_pin_other st p h : h <> p_cid p -> aget h (log_pin st p) = aget h st.
Proof. intros H. now apply aget_aput_other. Qed.

Lemma fold_unpin_in cs : forall st h, In h cs -> aget h (fold_left log_unpin cs st) = None.
Proof. induction cs as [|c cs IH]; simpl; intros st h Hin; [tauto|].
  destruct (in_dec N.eq_dec h cs) as [Hc|Hc]; [now apply IH|].
  destruct Hin as [->|Hin]; [|tauto].
  assert (G : forall l s, ~ In h l -> aget h (fold_left log_unpin l s) = aget h s).
  { clear. induction l as [|x l IH]; simpl; intros s Hn; auto. rewrite IH by tauto.
    unfold log_unpin. apply aget_adel_other. intros E. apply Hn. now left. }
  rewrite G by assumption. unfold log_unpin. apply aget_adel_same. Qed.

Lemma fold_unpin_notin cs : forall st h, ~ In h cs -> aget h (fold_left log_unpin cs st) = aget h st.
Proof. induction cs as [|x l IH]; simpl; intros s h Hn; auto. rewrite IH by tauto.
  unfold log_unpin. apply aget_adel_other. intros E. apply Hn. now left. Qed.

Lemma fold_unpin_nodup cs : forall st, NoDup (akeys st) -> NoDup (akeys (fold_left log_unpin cs st)).
Proof. induction cs as [|x l IH]; simpl; intros s H; auto. apply IH. now apply NoDup_akeys_adel. Qed.

(* ---------- inversion of the operations ---------- *)
Lemma pin_update_ok c e st f t o q st' :
  pin_update_op c e st f t o = (ROk q, st') ->
  follower c = false /\ exists ex, aget f st = Some ex /\ p_ty ex = DataT /\ q = updated_pin (e_now e) ex f t o /\ st' = log_pin st q.
Proof. unfold pin_update_op. destruct (follower c); [discriminate|]. destruct (aget f st) as [ex|]; [|discriminate].
  destruct (ptype_eqb (p_ty ex) DataT) eqn:T; simpl; [|discriminate]. intros H; inversion H; subst.
  split; auto. exists ex. apply ptype_eqb_eq in T. auto. Qed.

Lemma pin_update_err c e st f t o x st' : pin_update_op c e st f t o = (RErr x, st') -> st' = st.
Proof. unfold pin_update_op. destruct (follower c); [now inversion 1|]. destruct (aget f st) as [ex|]; [|now inversion 1].
  destruct (negb (ptype_eqb (p_ty ex) DataT)); [now inversion 1|discriminate]. Qed.

(* what pin() does once past the follower guard and the redirect *)
Definition chosen (c : cfg) (st : pinset) (p : pin) (bl : list N) (p2 : pin) : Prop :=
  p2 = setup_rf c p \/
  exists ex, aget (p_cid p) st = Some ex /\ opts_equal (p_opts (setup_rf c p)) (p_opts ex) = true /\ bl = [] /\ p2 = ex.

Lemma pin_main_ok c e ord st p bl q st' :
  pin_main c e ord st p bl = (ROk q, st') ->
  let p1 := setup_rf c p in
  st' = log_pin st q /\
  factors_valid (o_rmin (p_opts p1)) (o_rmax (p_opts p1)) = true /\
  expire_past (e_now e) (o_expire (p_opts p1)) = false /\
  setup_existing p1 (aget (p_cid p) st) = None /\
  ((p_ty p1 = MetaT /\ q = p1) \/
   (p_ty p1 <> MetaT /\ exists p2, chosen c st p bl p2 /\
      ((p_allocs p2 <> [] /\ q = p2) \/
       (p_allocs p2 = [] /\ exists l, allocate (e_now e) (alloc_input c e p2 (aget (p_cid p) st) bl) ord = Ok l /\ q = set_allocs l p2)))).
Proof.
  unfold pin_main. intros H. cbv zeta.
  destruct (factors_valid _ _) eqn:FV; cbn [negb] in H; [|discriminate].
  destruct (expire_past _ _) eqn:EP; [discriminate|].
  destruct (setup_existing _ _) eqn:SE; [discriminate|].
  destruct (ptype_eqb (p_ty (setup_rf c p)) MetaT) eqn:TM.
  - inversion H; subst. apply ptype_eqb_eq in TM. repeat split; auto.
  - apply ptype_eqb_neq in TM.
    set (p2 := match aget (p_cid p) st with
               | Some ex => if opts_equal (p_opts (setup_rf c p)) (p_opts ex) && match bl with [] => true | _ :: _ => false end then ex else setup_rf c p
               | None => setup_rf c p end) in *.
    assert (Hch : chosen c st p bl p2).
    { unfold chosen, p2. destruct (aget (p_cid p) st) as [ex|]; [|now left].
      destruct (opts_equal _ _) eqn:OE; simpl; [|now left]. destruct bl; [|now left].
      right. exists ex. auto. }
    destruct (p_allocs p2) as [|a l0] eqn:PA.
    + destruct (allocate _ _ _) as [l| |] eqn:AL; try discriminate. inversion H; subst.
      repeat split; auto. right. split; auto. exists p2. split; auto. right. split; auto. exists l. auto.
    + inversion H; subst. repeat split; auto. right. split; auto. exists p2. split; auto. left. split; auto. congruence.
Qed.

Lemma pin_main_err c e ord st p bl x st' : pin_main c e ord st p bl = (RErr x, st') -> st' = st.
Proof.
  unfold pin_main.
  destruct (negb (factors_valid _ _)); [now inversion 1|].
  destruct (expire_past _ _); [now inversion 1|].
  destruct (setup_existing _ _); [now inversion 1|].
  destruct (ptype_eqb _ MetaT); [discriminate|].
  match goal with |- context [p_allocs ?z] => destruct (p_allocs z) end; [|discriminate].
  destruct (allocate _ _ _); [discriminate| |]; now inversion 1.
Qed.

Lemma pin_core_err c e ord st p bl x st' : pin_core c e ord st p bl = (RErr x, st') -> st' = st.
Proof. unfold pin_core. destruct (follower c); [now inversion 1|].
  destruct (o_update (p_opts p)) as [u|]; [destruct (negb (u =? p_cid p)%N)|];
  eauto using pin_update_err, pin_main_err. Qed.

Lemma unpin_err c e st h x st' : unpin_op c e st h = (RErr x, st') -> st' = st.
Proof. unfold unpin_op. destruct (follower c); [now inversion 1|]. destruct (aget h st) as [p|]; [|now inversion 1].
  destruct (p_ty p); try (now inversion 1). destruct (cids_from_meta e st h p); [discriminate|now inversion 1]. Qed.

(* ---------- refused => unchanged ---------- *)
Theorem refused_unchanged_l c e ord st k x st' : step c e ord st k = (RErr x, st') -> st' = st.
Proof. destruct k; simpl.
  - apply pin_core_err.
  - destruct (aget path (e_resolve e)); [apply pin_core_err|now inversion 1].
  - apply pin_update_err.
  - apply unpin_err.
  - destruct (aget path (e_resolve e)); [apply unpin_err|now inversion 1].
  - apply pin_core_err.
Qed.

Theorem follower_refuses_l c e ord st k : follower c = true -> exists x, step c e ord st k = (RErr x, st).
Proof. intros F. destruct k; simpl; unfold pin_core, pin_update_op, unpin_op; rewrite ?F; eauto;
  destruct (aget path (e_resolve e)); rewrite ?F; eauto. Qed.

(* ---------- the listed refusals are refused ---------- *)
Definition no_redirect (p : pin) : Prop := o_update (p_opts p) = None \/ o_update (p_opts p) = Some (p_cid p).

Lemma pin_core_no_redirect c e ord st p bl : follower c = false -> no_redirect p -> pin_core c e ord st p bl = pin_main c e ord st p bl.
Proof. intros F [H|H]; unfold pin_core; rewrite F, H; auto. now rewrite N.eqb_refl. Qed.

Lemma pin_core_refuses c e ord st p bl :
  no_redirect p ->
  (exists x, pin_main c e ord st p bl = (RErr x, st)) -> exists x, pin_core c e ord st p bl = (RErr x, st).
Proof. intros NR [x H]. destruct (follower c) eqn:F.
  - unfold pin_core. rewrite F. eauto.
  - rewrite pin_core_no_redirect; eauto. Qed.

Lemma setup_rf_opts c p : p_opts (setup_rf c p) = with_defaults c (p_opts p).
Proof. unfold setup_rf. destruct (everywhere _); reflexivity. Qed.
Lemma setup_rf_cid c p : p_cid (setup_rf c p) = p_cid p.
Proof. unfold setup_rf. destruct (everywhere _); reflexivity. Qed.
Lemma setup_rf_ty c p : p_ty (setup_rf c p) = p_ty p.
Proof. unfold setup_rf. destruct (everywhere _); reflexivity. Qed.
Lemma setup_rf_depth c p : p_depth (setup_rf c p) = p_depth p.
Proof. unfold setup_rf. destruct (everywhere _); reflexivity. Qed.
Lemma setup_rf_ref c p : p_ref (setup_rf c p) = p_ref p.
Proof. unfold setup_rf. destruct (everywhere _); reflexivity. Qed.

Theorem refuse_bad_factors_l c e ord st p bl :
  no_redirect p -> factors_valid (o_rmin (with_defaults c (p_opts p))) (o_rmax (with_defaults c (p_opts p))) = false ->
  exists x, pin_core c e ord st p bl = (RErr x, st).
Proof. intros NR H. apply pin_core_refuses; auto. unfold pin_main. rewrite setup_rf_opts, H. simpl. eauto. Qed.

Theorem refuse_expired_l c e ord st p bl :
  no_redirect p -> expire_past (e_now e) (o_expire (p_opts p)) = true ->
  exists x, pin_core c e ord st p bl = (RErr x, st).
Proof. intros NR H. apply pin_core_refuses; auto. unfold pin_main. rewrite setup_rf_opts.
  destruct (negb (factors_valid _ _)); eauto.
  replace (o_expire (with_defaults c (p_opts p))) with (o_expire (p_opts p)) by reflexivity. rewrite H. eauto. Qed.

Theorem refuse_type_change_l c e ord st p bl ex :
  no_redirect p -> aget (p_cid p) st = Some ex -> p_ty ex <> p_ty p ->
  exists x, pin_core c e ord st p bl = (RErr x, st).
Proof. intros NR Hex T. apply pin_core_refuses; auto. unfold pin_main.
  destruct (negb (factors_valid _ _)); eauto. destruct (expire_past _ _); eauto.
  rewrite Hex. unfold setup_existing. rewrite setup_rf_ty. apply ptype_eqb_neq in T. rewrite T. simpl. eauto. Qed.

Theorem refuse_downgrade_l c e ord st p bl ex :
  no_redirect p -> aget (p_cid p) st = Some ex -> o_mode (p_opts ex) = 0%N -> o_mode (p_opts p) <> 0%N ->
  exists x, pin_core c e ord st p bl = (RErr x, st).
Proof. intros NR Hex M0 M1. apply pin_core_refuses; auto. unfold pin_main.
  destruct (negb (factors_valid _ _)); eauto. destruct (expire_past _ _); eauto.
  rewrite Hex. unfold setup_existing. destruct (negb (ptype_eqb _ _)); eauto.
  rewrite setup_rf_opts. replace (o_mode (with_defaults c (p_opts p))) with (o_mode (p_opts p)) by reflexivity.
  rewrite M0. apply N.eqb_neq in M1. rewrite M1. simpl. eauto. Qed.

Theorem refuse_unpin_absent_l c e st h : aget h st = None -> exists x, unpin_op c e st h = (RErr x, st).
Proof. intros H. unfold unpin_op. rewrite H. destruct (follower c); eauto. Qed.

Theorem refuse_update_absent_l c e st f t o : aget f st = None -> exists x, pin_update_op c e st f t o = (RErr x, st).
Proof. intros H. unfold pin_update_op. rewrite H. destruct (follower c); eauto. Qed.

(* ---------- a successful pin ---------- *)
Definition keyed (st : pinset) : Prop := forall k p, aget k st = Some p -> p_cid p = k.

Lemma chosen_cid c st p bl p2 : keyed st -> chosen c st p bl p2 -> p_cid p2 = p_cid p.
Proof. intros K [->|[ex [H [_ [_ ->]]]]]; [apply setup_rf_cid|now apply K]. Qed.

Theorem pin_ok_entry_l c e ord st p bl q st' :
  keyed st -> pin_main c e ord st p bl = (ROk q, st') ->
  p_cid q = p_cid p /\
  aget (p_cid p) st' = Some (pb_norm q) /\
  (forall h, h <> p_cid p -> aget h st' = aget h st) /\
  (p_opts q = with_defaults c (p_opts p) \/
   exists ex, aget (p_cid p) st = Some ex /\ opts_equal (with_defaults c (p_opts p)) (p_opts ex) = true /\ bl = [] /\ p_opts q = p_opts ex) /\
  factors_valid (o_rmin (with_defaults c (p_opts p))) (o_rmax (with_defaults c (p_opts p))) = true.
Proof.
  intros K H. apply pin_main_ok in H. cbv zeta in H. destruct H as [-> [FV [_ [_ D]]]].
  rewrite setup_rf_opts in FV.
  assert (C : p_cid q = p_cid p /\ (p_opts q = with_defaults c (p_opts p) \/
     exists ex, aget (p_cid p) st = Some ex /\ opts_equal (with_defaults c (p_opts p)) (p_opts ex) = true /\ bl = [] /\ p_opts q = p_opts ex)).
  { destruct D as [[_ ->]|[_ [p2 [Hc A]]]].
    - split; [apply setup_rf_cid|left; apply setup_rf_opts].
    - assert (Q : p_cid q = p_cid p2 /\ p_opts q = p_opts p2).
      { destruct A as [[_ ->]|[_ [l [_ ->]]]]; auto. }
      destruct Q as [Q1 Q2]. rewrite Q1, Q2. split; [eapply chosen_cid; eauto|].
      destruct Hc as [->|[ex [H1 [H2 [H3 ->]]]]]; [left; apply setup_rf_opts|].
      right. exists ex. rewrite setup_rf_opts in H2. auto. }
  destruct C as [C1 C2]. split; auto. split; [rewrite <- C1; apply log_pin_same|].
  split; [intros h Hh; apply log_pin_other; congruence|]. split; auto.
Qed.

(* the allocation of a successful pin: given (preset or kept) or produced by C03's allocate *)
Theorem pin_ok_allocation_l c e ord st p bl q st' :
  pin_main c e ord st p bl = (ROk q, st') -> p_ty p <> MetaT ->
  exists p2, chosen c st p bl p2 /\ p_opts q = p_opts p2 /\
    ((p_allocs p2 <> [] /\ p_allocs q = p_allocs p2) \/
     (p_allocs p2 = [] /\ allocate (e_now e) (alloc_input c e p2 (aget (p_cid p) st) bl) ord = Ok (p_allocs q))).
Proof.
  intros H T. apply pin_main_ok in H. cbv zeta in H. destruct H as [_ [_ [_ [_ D]]]].
  rewrite setup_rf_ty in D. destruct D as [[D _]|[_ [p2 [Hc A]]]]; [congruence|].
  exists p2. split; auto. destruct A as [[A ->]|[A [l [AL ->]]]]; split; auto.
Qed.

(* ---------- PinOptions.Equals says equal only when nothing the user can set differs ---------- *)
Lemma insN_perm x l : Permutation (insN x l) (x :: l).
Proof. induction l as [|y ys IH]; simpl; auto. destruct (x <=? y)%N; auto.
  rewrite IH. apply perm_swap. Qed.
Lemma sortN_perm l : Permutation (sortN l) l.
Proof. induction l as [|x xs IH]; simpl; auto. unfold sortN in *. simpl. rewrite insN_perm. now constructor. Qed.

Lemma list_eqb_N_eq a : forall b, list_eqb N.eqb a b = true -> a = b.
Proof. induction a as [|x xs IH]; destruct b as [|y ys]; simpl; try discriminate; auto.
  rewrite andb_true_iff. intros [E H]. apply N.eqb_eq in E. subst. f_equal. auto. Qed.
Lemma list_eqb_N_refl a : list_eqb N.eqb a a = true.
Proof. induction a; simpl; auto. now rewrite N.eqb_refl. Qed.

Lemma expire_eqb_eq a b : expire_eqb a b = true <-> a = b.
Proof. destruct a as [[s n]|], b as [[s' n']|]; simpl; split; try discriminate; auto.
  - rewrite andb_true_iff, Z.eqb_eq, N.eqb_eq. intros [-> ->]. reflexivity.
  - intros H; inversion H; subst. now rewrite Z.eqb_refl, N.eqb_refl. Qed.

Lemma optN_eqb_eq a b : optN_eqb a b = true <-> a = b.
Proof. destruct a, b; simpl; split; try discriminate; auto.
  - intros H. apply N.eqb_eq in H. now subst.
  - intros H; inversion H. apply N.eqb_refl. Qed.

(* metadata read as a map over non-empty keys *)
Definition meta_same (a b : list (N * N)) : Prop := forall k, k <> 0%N -> aget k a = aget k b.
Definition origins_same (a b : list N) : Prop := incl a b /\ incl b a.

Record opts_same (a b : opts) : Prop := {
  same_name : o_name a = o_name b; same_mode : o_mode a = o_mode b;
  same_rmin : o_rmin a = o_rmin b; same_rmax : o_rmax a = o_rmax b; same_shard : o_shard a = o_shard b;
  same_ualloc : Permutation (o_ualloc a) (o_ualloc b); same_expire : o_expire a = o_expire b;
  same_meta : meta_same (o_meta a) (o_meta b); same_origins : origins_same (o_origins a) (o_origins b) }.

Lemma meta_fwd a b :
  forallb (fun kv => (fst kv =? 0)%N || optN_eqb (aget (fst kv) b) (Some (snd kv))) a = true ->
  forallb (fun kv => (fst kv =? 0)%N || is_some (aget (fst kv) a)) b = true -> meta_same a b.
Proof. intros H1 H2 k Hk. rewrite forallb_forall in H1, H2.
  destruct (aget k a) as [v|] eqn:A.
  - apply aget_in in A. apply H1 in A. simpl in A. apply N.eqb_neq in Hk. rewrite Hk in A. simpl in A.
    apply optN_eqb_eq in A. now rewrite A.
  - destruct (aget k b) as [v|] eqn:B; auto. apply aget_in in B. apply H2 in B. simpl in B.
    apply N.eqb_neq in Hk. rewrite Hk, A in B. discriminate. Qed.

Theorem opts_equal_sound a b : opts_equal a b = true -> opts_same a b.
Proof. unfold opts_equal. rewrite !andb_true_iff.
  intros [[[[[[[[[[[[Hn Hm] Hx] Hi] Hs] _] Hu] He] Hm1] Hm2] _] Ho1] Ho2].
  constructor.
  - now apply N.eqb_eq. - now apply N.eqb_eq. - now apply Z.eqb_eq. - now apply Z.eqb_eq. - now apply N.eqb_eq.
  - apply list_eqb_N_eq in Hu. rewrite <- (sortN_perm (o_ualloc a)), <- (sortN_perm (o_ualloc b)), Hu. reflexivity.
  - now apply expire_eqb_eq.
  - now apply meta_fwd.
  - rewrite forallb_forall in Ho1, Ho2. split; intros x Hx'; apply memN_in; auto.
Qed.

(* identical options (everything but the update source, which Equals ignores) compare equal *)
Lemma forallb_meta_refl m : NoDup (map fst m) ->
  forallb (fun kv => (fst kv =? 0)%N || optN_eqb (aget (fst kv) m) (Some (snd kv))) m = true.
Proof. intros ND. apply forallb_forall. intros [k v] Hin. simpl. apply orb_true_iff. right.
  assert (aget k m = Some v).
  { induction m as [|[k' v'] r IH]; simpl in *; [tauto|]. inversion ND; subst.
    destruct (N.eqb_spec k k').
    - subst. destruct Hin as [E|Hin]; [now inversion E|]. exfalso. apply H1. apply (in_map fst) in Hin. exact Hin.
    - destruct Hin as [E|Hin]; [inversion E; congruence|]. auto. }
  rewrite H. simpl. apply N.eqb_refl. Qed.

Lemma forallb_meta_some (m : list (N * N)) : forallb (fun kv => (fst kv =? 0)%N || is_some (aget (fst kv) m)) m = true.
Proof. apply forallb_forall. intros [k v] Hin. simpl. apply orb_true_iff. right.
  induction m as [|[k' v'] r IH]; simpl in *; [tauto|]. destruct (N.eqb_spec k k'); auto.
  destruct Hin as [E|Hin]; [inversion E; congruence|]. auto. Qed.

Theorem opts_equal_complete a b : set_update None a = set_update None b -> NoDup (map fst (o_meta a)) -> opts_equal a b = true.
Proof. intros E ND. unfold set_update in E. inversion E as [[E1 E2 E3 E4 E5 E6 E7 E8 E9]]. unfold opts_equal.
  rewrite <- E1, <- E2, <- E3, <- E4, <- E5, <- E6, <- E7, <- E8, <- E9.
  rewrite !N.eqb_refl, !Z.eqb_refl, !Nat.eqb_refl, list_eqb_N_refl. simpl.
  replace (expire_eqb (o_expire a) (o_expire a)) with true by (symmetry; now apply expire_eqb_eq).
  rewrite forallb_meta_refl by assumption. rewrite forallb_meta_some. simpl.
  assert (forallb (fun x => memN x (o_origins a)) (o_origins a) = true) as ->; auto.
  apply forallb_forall. intros x Hx. now apply memN_in. Qed.

(* ---------- re-pinning ---------- *)
Theorem repin_same_keeps_allocs_l c e ord st p q st' ex :
  keyed st -> aget (p_cid p) st = Some ex ->
  opts_equal (with_defaults c (p_opts p)) (p_opts ex) = true ->
  p_ty p <> MetaT ->
  (p_allocs ex <> [] \/ (o_rmin (p_opts ex) < 0 /\ o_rmax (p_opts ex) < 0)) ->
  pin_main c e ord st p [] = (ROk q, st') ->
  p_allocs q = p_allocs ex /\ p_opts q = p_opts ex /\ aget (p_cid p) st' = Some (pb_norm (set_allocs (p_allocs ex) ex)).
Proof.
  intros K Hex OE T A H. unfold pin_main in H. rewrite Hex in H.
  destruct (negb (factors_valid _ _)); [discriminate|]. destruct (expire_past _ _); [discriminate|].
  destruct (setup_existing _ _); [discriminate|].
  rewrite setup_rf_ty in H. apply ptype_eqb_neq in T. rewrite T in H.
  rewrite setup_rf_opts, OE in H. simpl in H.
  assert (Hc : p_cid ex = p_cid p) by (now apply K).
  destruct (p_allocs ex) as [|a l] eqn:PA.
  - destruct A as [A|[A1 A2]]; [congruence|].
    rewrite alloc_everywhere_l in H by (simpl; lia).
    inversion H; subst. simpl. repeat split; auto. rewrite <- Hc. apply (log_pin_same st (set_allocs [] ex)).
  - inversion H; subst. rewrite PA. repeat split; auto. rewrite <- Hc, log_pin_same.
    f_equal. f_equal. destruct q; simpl in *. now rewrite PA.
Qed.

(* any option that differs (as the property reads options) makes the request the stored entry *)
Theorem repin_changed_is_stored_l c e ord st p q st' ex :
  aget (p_cid p) st = Some ex ->
  ~ opts_same (with_defaults c (p_opts p)) (p_opts ex) ->
  p_ty p <> MetaT ->
  pin_main c e ord st p [] = (ROk q, st') ->
  p_opts q = with_defaults c (p_opts p) /\
  exists s, aget (p_cid p) st' = Some s /\ p_opts s = pb_norm_opts (p_depth p) (with_defaults c (p_opts p)).
Proof.
  intros Hex D T H.
  assert (NE : opts_equal (with_defaults c (p_opts p)) (p_opts ex) = false).
  { destruct (opts_equal _ _) eqn:OE; auto. exfalso. apply D. now apply opts_equal_sound. }
  unfold pin_main in H. rewrite Hex in H.
  destruct (negb (factors_valid _ _)); [discriminate|]. destruct (expire_past _ _); [discriminate|].
  destruct (setup_existing _ _); [discriminate|].
  rewrite setup_rf_ty in H. apply ptype_eqb_neq in T. rewrite T in H.
  rewrite setup_rf_opts, NE in H. simpl in H.
  assert (Q : p_opts q = with_defaults c (p_opts p) /\ p_cid q = p_cid p /\ p_depth q = p_depth p /\ st' = log_pin st q).
  { destruct (p_allocs (setup_rf c p)) eqn:PA.
    - destruct (allocate _ _ _); try discriminate. inversion H; subst. simpl.
      rewrite setup_rf_opts, setup_rf_cid, setup_rf_depth. auto.
    - inversion H; subst. rewrite setup_rf_opts, setup_rf_cid, setup_rf_depth. auto. }
  destruct Q as [Q1 [Q2 [Q3 ->]]]. split; auto. exists (pb_norm q). rewrite <- Q2. split; [apply log_pin_same|].
  unfold pb_norm. simpl. now rewrite Q1, Q3.
Qed.

(* ---------- unpin ---------- *)
Theorem unpin_exact_l c e st h q st' :
  unpin_op c e st h = (ROk q, st') ->
  aget h st = Some q /\ aget h st' = None /\
  ((p_ty q = DataT /\ forall h', h' <> h -> aget h' st' = aget h' st) \/
   (p_ty q = MetaT /\ exists r ls, p_ref q = Some r /\ aget r (e_links e) = Some ls /\
       forall h', (In h' (h :: r :: ls) -> aget h' st' = None) /\ (~ In h' (h :: r :: ls) -> aget h' st' = aget h' st))).
Proof.
  unfold unpin_op. destruct (follower c); [discriminate|]. destruct (aget h st) as [p|] eqn:G; [|discriminate].
  destruct (p_ty p) eqn:T; try discriminate.
  - intros H; inversion H; subst. split; auto. unfold log_unpin. split; [apply aget_adel_same|]. left. split; auto.
    intros h' Hn. now apply aget_adel_other.
  - unfold cids_from_meta. destruct (p_ref p) as [r|] eqn:R; [|discriminate]. destruct (aget r st); [|discriminate].
    destruct (aget r (e_links e)) as [ls|] eqn:L; [|discriminate]. intros H; inversion H; subst.
    split; auto. unfold log_unpin at 1. split; [apply aget_adel_same|]. right. split; auto. exists r, ls. repeat split; auto.
    + intros Hin. destruct (N.eq_dec h' h) as [->|Hn]; [unfold log_unpin at 1; apply aget_adel_same|].
      unfold log_unpin at 1. rewrite aget_adel_other by assumption. apply fold_unpin_in.
      apply in_or_app. destruct Hin as [E|[E|Hin]]; [congruence| right; now left | left; now apply in_rev in Hin].
    + intros Hn. unfold log_unpin at 1. rewrite aget_adel_other by (intros E; apply Hn; now left).
      apply fold_unpin_notin. intros Hin. apply Hn. apply in_app_or in Hin. destruct Hin as [Hin|[E|[E|[]]]].
      * right. right. now apply in_rev.
      * right. now left.
      * now left.
Qed.

(* ---------- update ---------- *)
Theorem update_copies_l c e st f t o q st' :
  pin_update_op c e st f t o = (ROk q, st') ->
  exists ex, aget f st = Some ex /\ p_ty ex = DataT /\
    q = updated_pin (e_now e) ex f t o /\
    aget t st' = Some (pb_norm q) /\
    (forall h, h <> t -> aget h st' = aget h st) /\
    p_allocs q = p_allocs ex /\ p_cid q = t /\ o_update (p_opts q) = Some f /\
    o_rmin (p_opts q) = o_rmin (p_opts ex) /\ o_rmax (p_opts q) = o_rmax (p_opts ex) /\
    o_mode (p_opts q) = o_mode (p_opts ex) /\ o_shard (p_opts q) = o_shard (p_opts ex) /\
    o_meta (p_opts q) = o_meta (p_opts ex) /\ o_origins (p_opts q) = o_origins (p_opts ex) /\
    o_name (p_opts q) = (if (o_name o =? 0)%N then o_name (p_opts ex) else o_name o) /\
    o_expire (p_opts q) = (match o_expire o with Some x => if t_after x (e_now e) then Some x else o_expire (p_opts ex) | None => o_expire (p_opts ex) end).
Proof.
  intros H. apply pin_update_ok in H. destruct H as [_ [ex [G [T [-> ->]]]]]. exists ex.
  split; auto. split; auto. split; auto.
  split; [change t with (p_cid (updated_pin (e_now e) ex f t o)) at 1; apply log_pin_same|].
  split; [intros h Hh; now apply log_pin_other|].
  unfold updated_pin, update_opts. simpl.
  destruct (o_name o =? 0)%N; destruct (o_expire o) as [x|]; try destruct (t_after x (e_now e)); simpl; repeat split; auto.
Qed.

(* ---------- invariant of every reachable pinset ---------- *)
Definition stored_ok (k : N) (p : pin) : Prop :=
  p_cid p = k /\ pb_norm p = p /\ factors_valid (o_rmin (p_opts p)) (o_rmax (p_opts p)) = true.
Definition inv (st : pinset) : Prop := NoDup (akeys st) /\ forall k p, aget k st = Some p -> stored_ok k p.

Lemma inv_keyed st : inv st -> keyed st.
Proof. intros [_ H] k p G. now apply H in G as [? _]. Qed.

Lemma inv_empty : inv [].
Proof. split; [constructor|]. intros k p H. discriminate. Qed.

Lemma inv_log_pin st p : inv st -> factors_valid (o_rmin (p_opts p)) (o_rmax (p_opts p)) = true -> inv (log_pin st p).
Proof. intros [ND H] FV. split; [now apply NoDup_akeys_aput|]. intros k q G.
  destruct (N.eq_dec k (p_cid p)) as [->|Hn].
  - rewrite log_pin_same in G. inversion G; subst. repeat split; auto using pb_norm_idem.
  - rewrite log_pin_other in G by assumption. auto. Qed.

Lemma inv_adel st h : inv st -> inv (log_unpin st h).
Proof. intros [ND H]. split; [now apply NoDup_akeys_adel|]. intros k q G. unfold log_unpin in G.
  destruct (N.eq_dec k h) as [->|Hn]; [now rewrite aget_adel_same in G|]. rewrite aget_adel_other in G by assumption. auto. Qed.

Lemma inv_fold_unpin cs : forall st, inv st -> inv (fold_left log_unpin cs st).
Proof. induction cs; simpl; auto. intros st H. apply IHcs. now apply inv_adel. Qed.

Lemma inv_pin_main c e ord st p bl : inv st -> inv (snd (pin_main c e ord st p bl)).
Proof. intros I. destruct (pin_main c e ord st p bl) as [[q|x] st'] eqn:H; simpl.
  - pose proof H as H0. apply pin_main_ok in H. cbv zeta in H. destruct H as [-> [FV [_ [_ D]]]].
    apply inv_log_pin; auto.
    destruct D as [[_ ->]|[_ [p2 [Hc A]]]]; auto.
    assert (Q : p_opts q = p_opts p2) by (destruct A as [[_ ->]|[_ [l [_ ->]]]]; auto). rewrite Q.
    destruct Hc as [->|[ex [G [_ [_ ->]]]]]; auto. destruct I as [_ I]. apply I in G. apply G.
  - apply pin_main_err in H. now subst. Qed.

Lemma inv_pin_update c e st f t o : inv st -> inv (snd (pin_update_op c e st f t o)).
Proof. intros I. destruct (pin_update_op c e st f t o) as [[q|x] st'] eqn:H; simpl.
  - apply pin_update_ok in H. destruct H as [_ [ex [G [_ [-> ->]]]]]. apply inv_log_pin; auto.
    destruct I as [_ I]. apply I in G. destruct G as [_ [_ G]].
    unfold updated_pin, update_opts. simpl.
    destruct (o_name o =? 0)%N; destruct (o_expire o) as [x|]; try destruct (t_after x (e_now e)); simpl; auto.
  - apply pin_update_err in H. now subst. Qed.

Lemma inv_pin_core c e ord st p bl : inv st -> inv (snd (pin_core c e ord st p bl)).
Proof. intros I. unfold pin_core. destruct (follower c); auto.
  destruct (o_update (p_opts p)) as [u|]; [destruct (negb (u =? p_cid p)%N)|]; auto using inv_pin_main, inv_pin_update. Qed.

Lemma inv_unpin c e st h : inv st -> inv (snd (unpin_op c e st h)).
Proof. intros I. unfold unpin_op. destruct (follower c); auto. destruct (aget h st) as [p|]; auto.
  destruct (p_ty p); simpl; auto using inv_adel.
  destruct (cids_from_meta e st h p); simpl; auto. apply inv_adel. now apply inv_fold_unpin. Qed.

Theorem inv_step c e ord st k : inv st -> inv (snd (step c e ord st k)).
Proof. intros I. destruct k; simpl; auto using inv_pin_core, inv_pin_update, inv_unpin;
  destruct (aget path (e_resolve e)); simpl; auto using inv_pin_core, inv_unpin. Qed.

Theorem inv_run c h : forall st, inv st -> inv (run c st h).
Proof. unfold run. induction h as [|[[e ord] k] h IH]; simpl; auto. intros st I. apply IH. now apply inv_step. Qed.

(* ---------- a freshly allocated pin satisfies C03 ---------- *)
Theorem pin_new_allocation_valid_l c e ord st h o q st' :
  (forall xs, Permutation (ord xs) xs) -> NoDup (map mpeer (e_metrics e)) ->
  aget h st = None -> no_redirect (pin_with_opts h o) ->
  pin_main c e ord st (pin_with_opts h o) [] = (ROk q, st') ->
  let o' := with_defaults c o in
  let i := mk_input (o_rmin o') (o_rmax o') [] (e_metrics e) [] (o_ualloc o) (alloc_rev c) in
  allocate (e_now e) i ord = Ok (p_allocs q) /\ NoDup (p_allocs q) /\
  (valid_factors (o_rmin o') (o_rmax o') -> o_rmin o' <= healthy_count (e_now e) i (p_allocs q) <= o_rmax o').
Proof.
  intros Ho Hm G NR H. cbv zeta.
  apply pin_ok_allocation_l in H; [|simpl; discriminate].
  destruct H as [p2 [Hc [_ A]]]. unfold chosen in Hc. change (p_cid (pin_with_opts h o)) with h in Hc, A. rewrite G in A.
  destruct Hc as [->|[ex [Hex _]]]; [|congruence].
  assert (PA : p_allocs (setup_rf c (pin_with_opts h o)) = []) by (unfold setup_rf; destruct (everywhere _); reflexivity).
  destruct A as [[A _]|[_ A]]; [congruence|].
  unfold alloc_input in A. rewrite setup_rf_opts in A. simpl in A.
  match goal with |- allocate _ ?i _ = _ /\ _ => set (ii := i) in * end.
  assert (A' : allocate (e_now e) ii ord = Ok (p_allocs q)) by exact A.
  split; auto. split.
  - apply (alloc_nodup_l (e_now e) ii ord Ho Hm (p_allocs q)); [constructor|exact A'].
  - intros V. apply (alloc_min_max_l (e_now e) ii ord Ho Hm (p_allocs q) V A').
Qed.

(* ---------- statements at the level of step ---------- *)
Lemma pin_core_ok_main c e ord st p bl q st' :
  no_redirect p -> pin_core c e ord st p bl = (ROk q, st') -> pin_main c e ord st p bl = (ROk q, st').
Proof. intros NR H. destruct (follower c) eqn:F.
  - unfold pin_core in H. rewrite F in H. discriminate.
  - now rewrite pin_core_no_redirect in H. Qed.

Lemma not_same_meta_removed a b k v : k <> 0%N -> aget k (o_meta b) = Some v -> aget k (o_meta a) = None -> ~ opts_same a b.
Proof. intros Hk B A S. pose proof (same_meta _ _ S k Hk) as M. congruence. Qed.

Lemma redirect_is_update c e ord st p bl u :
  follower c = false -> o_update (p_opts p) = Some u -> u <> p_cid p ->
  pin_core c e ord st p bl = pin_update_op c e st u (p_cid p) (p_opts p).
Proof. intros F U N. unfold pin_core. rewrite F, U. apply N.eqb_neq in N. now rewrite N. Qed.

Lemma pin_calls_reduce_s c e ord st h o pa :
  step c e ord st (CPin h o) = step c e ord st (CRpcPin (pin_with_opts h o)) /\
  (aget pa (e_resolve e) = Some h -> step c e ord st (CPinPath pa o) = step c e ord st (CPin h o)
                                  /\ step c e ord st (CUnpinPath pa) = step c e ord st (CUnpin h)) /\
  (aget pa (e_resolve e) = None -> step c e ord st (CPinPath pa o) = (RErr EResolve, st)
                                /\ step c e ord st (CUnpinPath pa) = (RErr EResolve, st)) /\
  (follower c = false -> forall p u, o_update (p_opts p) = Some u -> u <> p_cid p ->
     step c e ord st (CRpcPin p) = step c e ord st (CPinUpdate u (p_cid p) (p_opts p))).
Proof. split; [reflexivity|]. split; [|split].
  - intros H. simpl. rewrite H. auto.
  - intros H. simpl. rewrite H. auto.
  - intros F p u U N. simpl. now apply redirect_is_update. Qed.

Lemma pin_ok_entry_s c e ord st p q st' :
  inv st -> no_redirect p -> step c e ord st (CRpcPin p) = (ROk q, st') ->
  p_cid q = p_cid p /\
  aget (p_cid p) st' = Some (pb_norm q) /\
  (forall h, h <> p_cid p -> aget h st' = aget h st) /\
  (p_opts q = with_defaults c (p_opts p) \/
   exists ex, aget (p_cid p) st = Some ex /\ opts_equal (with_defaults c (p_opts p)) (p_opts ex) = true /\ p_opts q = p_opts ex) /\
  factors_valid (o_rmin (with_defaults c (p_opts p))) (o_rmax (with_defaults c (p_opts p))) = true /\
  inv st'.
Proof. intros I NR H. pose proof (inv_step c e ord st (CRpcPin p) I) as I'. rewrite H in I'. simpl in I'.
  simpl in H. apply pin_core_ok_main in H; auto. apply pin_ok_entry_l in H; [|now apply inv_keyed].
  destruct H as [A [B [D [F G]]]]. split; [exact A|]. split; [exact B|]. split; [exact D|]. split; [|split; [exact G|exact I']].
  destruct F as [F|[ex [F1 [F2 [_ F4]]]]]; [now left|]. right. exists ex. auto. Qed.

Lemma repin_removed_metadata_key_s c e ord st h o q st' ex k v :
  no_redirect (pin_with_opts h o) -> aget h st = Some ex ->
  k <> 0%N -> aget k (o_meta (p_opts ex)) = Some v -> aget k (o_meta o) = None ->
  step c e ord st (CPin h o) = (ROk q, st') ->
  exists s, aget h st' = Some s /\ aget k (o_meta (p_opts s)) = None /\ o_meta (p_opts s) = o_meta o.
Proof. intros NR G Hk B A H. simpl in H. apply pin_core_ok_main in H; auto.
  eapply repin_changed_is_stored_l in H; eauto; [| |simpl; discriminate].
  - destruct H as [_ [s [S1 S2]]]. exists s. simpl in S1. split; auto. rewrite S2. simpl. auto.
  - simpl. eapply not_same_meta_removed; eauto. Qed.
