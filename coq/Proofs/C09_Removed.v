(* C09 — "only metrics from members": a peer removed from the monitor (PeerMonitor.RmPeer -> Store.RemovePeer)
   is forgotten under every metric name until it publishes again; nobody else's metrics are affected by the removal. *)
From V Require Import Base.Common Base.CommonLemmas Model.C09_Metrics Proofs.C09_Metrics.
Open Scope Z_scope.

Definition adds_peer (p : N) (e : event) : bool := match e with EAdd m => N.eqb (mpeer m) p | _ => false end.

Lemma no_adds_peer_key p k h : snd k = p ->
  forallb (fun e => negb (adds_peer p e)) h = true -> forallb (fun e => negb (adds_key k e)) h = true.
Proof.
  intros Hk H. rewrite forallb_forall in *. intros e He. specialize (H e He).
  destruct e as [m| |]; simpl in *; auto. unfold key_eqb, mkey. simpl. rewrite Hk.
  apply Bool.negb_true_iff in H. rewrite H. now rewrite Bool.andb_false_r.
Qed.

Lemma removed_peer_forgotten_l h1 h2 p k : snd k = p ->
  forallb (fun e => negb (adds_peer p e)) h2 = true ->
  latest k (reach (h1 ++ ERemovePeer p :: h2)) = None.
Proof.
  intros Hk H. apply (no_adds_peer_key p k h2 Hk) in H. unfold reach.
  rewrite run_app. change (ERemovePeer p :: h2) with ([ERemovePeer p] ++ h2). rewrite run_app, run_single.
  destruct (fst (run h1 (empty_store, []))) as [st c]. cbn [step fst snd].
  destruct (run_latest_no_add h2 (s_remove_peer p st) c k H) as [E|E]; rewrite E; auto.
  rewrite latest_remove_peer, Hk, N.eqb_refl. reflexivity.
Qed.

Lemma removed_peer_not_reported_l h1 h2 p now name ps m :
  forallb (fun e => negb (adds_peer p e)) h2 = true ->
  In m (latest_metrics now name ps (reach (h1 ++ ERemovePeer p :: h2))) -> mpeer m <> p.
Proof.
  intros H Hin Hp. apply latest_is_most_recent_l in Hin. destruct Hin as [_ [L _]].
  rewrite (removed_peer_forgotten_l h1 h2 p (mkey m)) in L; [discriminate| exact Hp | exact H].
Qed.

(* the removal itself touches no other peer *)
Lemma remove_peer_frame_l h p k : snd k <> p ->
  latest k (reach (h ++ [ERemovePeer p])) = latest k (reach h).
Proof.
  intros Hk. unfold reach. rewrite run_snoc.
  destruct (fst (run h (empty_store, []))) as [st c]. cbn [step fst snd].
  rewrite latest_remove_peer. apply N.eqb_neq in Hk. now rewrite Hk.
Qed.
