(* C11 — lemmas about the REST model (server side): routing over the generated table, the handlers against the
   hand-written spec_expect, fail-closed, single document, authentication, soundness of the boolean monitor. *)
From V Require Import Base.Common Base.C11_Http Base.C11_RouteOrder Gen.RestRoutes Gen.RestClient Model.C11_Rest Model.C11_Check Model.C11_Tables
  Proofs.RouteOrder.
Open Scope string_scope.
Open Scope list_scope.

(* ------------------------------------------------------------------------------------------ *)
(* generated tables                                                                           *)
(* ------------------------------------------------------------------------------------------ *)
(* rest_table_spec, part 1: the generated routes() table compiles to the hand-written route_spec up to the order of routes
   that are apart (Model/C11_Tables.v: routes_equiv); the dispatch of the two tables is then the same function, see
   routes_equiv_resolve / rest_resolve_is_spec below *)
Lemma routes_compile : routes_equiv (compile_rest rest_routes) route_spec = true.
Proof. vm_compute. reflexivity. Qed.

Lemma chain_is : rest_handler_chain = ["basicAuthHandler"; "cors.New.Handler"; "router"]
  /\ rest_server_handler = ["handlers.LoggingHandler"; "handler"]
  /\ rest_strict_slash = true /\ rest_not_found = "notFoundHandler"
  /\ rest_registration = ["Methods"; "Path"; "Name"; "Handler"].
Proof. repeat split; reflexivity. Qed.

(* every sendResponse with an explicit error status is followed by a return, in every handler and parse helper *)
Lemma error_sites_all_return :
  forallb (fun f : string * list (string * string) * list string * list bool => forallb (fun b => b) (snd f)) rest_funcs = true.
Proof. vm_compute. reflexivity. Qed.

Lemma route_ops_all : forallb route_ops_okb rest_routes = true.
Proof. vm_compute. reflexivity. Qed.

Lemma route_ops_each r : In r rest_routes -> route_ops_okb r = true.
Proof. intros H. exact (proj1 (forallb_forall _ _) route_ops_all r H). Qed.

(* ------------------------------------------------------------------------------------------ *)
(* small facts                                                                                *)
(* ------------------------------------------------------------------------------------------ *)
Lemma list_eqb_refl {A} (eqb : A -> A -> bool) : (forall x, eqb x x = true) -> forall l, list_eqb eqb l l = true.
Proof. intros H l. induction l as [|x l IH]; cbn; [reflexivity | rewrite H, IH; reflexivity]. Qed.

Lemma list_eqb_eq {A} (eqb : A -> A -> bool) : (forall x y, eqb x y = true -> x = y) ->
  forall a b, list_eqb eqb a b = true -> a = b.
Proof.
  intros H a. induction a as [|x a IH]; intros [|y b] E; cbn in E; try discriminate; [reflexivity|].
  apply andb_prop in E as [E1 E2]. rewrite (H _ _ E1), (IH _ E2). reflexivity.
Qed.

Lemma strs_eqb_refl l : list_eqb String.eqb l l = true.
Proof. apply list_eqb_refl. apply String.eqb_refl. Qed.
Lemma strs_eqb_eq a b : list_eqb String.eqb a b = true -> a = b.
Proof. apply list_eqb_eq. intros x y. apply String.eqb_eq. Qed.

Lemma rcall_eqb_refl c : rcall_eqb c c = true.
Proof. destruct c as [[m a] f]. cbn. rewrite String.eqb_refl, strs_eqb_refl. destruct f; reflexivity. Qed.
Lemma rcall_eqb_eq c d : rcall_eqb c d = true -> c = d.
Proof.
  destruct c as [[m a] f], d as [[m' a'] f']. cbn. intros E.
  apply andb_prop in E as [E E3]. apply andb_prop in E as [E1 E2].
  apply String.eqb_eq in E1. apply strs_eqb_eq in E2. apply Bool.eqb_prop in E3. subst. reflexivity.
Qed.
Lemma rcalls_eqb_refl l : list_eqb rcall_eqb l l = true.
Proof. apply list_eqb_refl. apply rcall_eqb_refl. Qed.
Lemma rcalls_eqb_eq a b : list_eqb rcall_eqb a b = true -> a = b.
Proof. apply list_eqb_eq. apply rcall_eqb_eq. Qed.

Lemma is_nil_true {A} (l : list A) : is_nil l = true <-> l = [].
Proof. destruct l; cbn; split; intros H; try reflexivity; discriminate. Qed.

Lemma is4xx_spec s : is4xx s = true <-> (400 <= s < 500)%N.
Proof. unfold is4xx. rewrite andb_true_iff, N.leb_le, N.ltb_lt. tauto. Qed.

(* the calls issued are the expected operations in order, each successful except possibly the last issued one *)
Inductive performed : list rcall -> list (string * list string) -> Prop :=
| Pf_nil exp : performed [] exp
| Pf_fail m a exp : performed [(m, a, true)] ((m, a) :: exp)
| Pf_ok m a obs exp : performed obs exp -> performed ((m, a, false) :: obs) ((m, a) :: exp).

Lemma prefix_ops_performed obs : forall exp, prefix_ops obs exp = true <-> performed obs exp.
Proof.
  induction obs as [|[[m a] f] obs IH]; intros exp.
  - split; [constructor | reflexivity].
  - destruct exp as [|[m' a'] exp]; cbn [prefix_ops].
    + split; [discriminate | intros H; inversion H].
    + split.
      * intros H. apply andb_prop in H as [H H3]. apply andb_prop in H as [H1 H2].
        apply String.eqb_eq in H1. apply strs_eqb_eq in H2. subst m' a'.
        destruct f.
        -- apply is_nil_true in H3. subst obs. constructor.
        -- constructor. apply IH. exact H3.
      * intros H. inversion H; subst.
        -- rewrite String.eqb_refl, strs_eqb_refl. reflexivity.
        -- rewrite String.eqb_refl, strs_eqb_refl. cbn. apply IH. assumption.
Qed.

Lemma performed_complete obs : forall exp, performed obs exp -> any_failed obs = false ->
  List.length obs = List.length exp -> obs = ok_calls exp.
Proof.
  induction obs as [|c obs IH]; intros exp H Hf Hl.
  - destruct exp; [reflexivity | discriminate].
  - inversion H; subst; cbn in Hf; try discriminate.
    cbn in Hl. injection Hl as Hl. unfold ok_calls. cbn. f_equal. apply IH; assumption.
Qed.

(* ------------------------------------------------------------------------------------------ *)
(* route order: tables that are routes_equiv dispatch identically                             *)
(* ------------------------------------------------------------------------------------------ *)
Lemma ends_empty_split segs : ends_empty segs = true -> segs = drop_last_seg segs ++ [""].
Proof.
  induction segs as [|x [|y r] IH]; intros H; [discriminate | |].
  - cbn in H. apply String.eqb_eq in H. subst. reflexivity.
  - change (ends_empty (y :: r) = true) in H. change (x :: y :: r = x :: (drop_last_seg (y :: r) ++ [""])). f_equal. exact (IH H).
Qed.

Lemma path_match_some strict t segs : path_match strict t segs <> PNo ->
  match_segs t segs <> None \/ (ends_empty segs = true /\ match_segs t (drop_last_seg segs) <> None).
Proof.
  unfold path_match. destruct (match_segs t segs) eqn:E; [left; discriminate|]. intros H. right.
  destruct (strict && (ends_empty segs && negb (Nat.eqb (List.length segs) 1))) eqn:C; [|contradiction].
  apply andb_prop in C as [_ C]. apply andb_prop in C as [C _]. split; [exact C|].
  destruct (match_segs t (drop_last_seg segs)); [discriminate | contradiction].
Qed.

Lemma path_match_none strict t segs : match_segs t segs = None ->
  (ends_empty segs = true -> match_segs t (drop_last_seg segs) = None) -> path_match strict t segs = PNo.
Proof.
  intros H1 H2. unfold path_match. rewrite H1.
  destruct (strict && (ends_empty segs && negb (Nat.eqb (List.length segs) 1))) eqn:C; [|reflexivity].
  apply andb_prop in C as [_ C]. apply andb_prop in C as [C _]. rewrite (H2 C). reflexivity.
Qed.

(* templates that are apart: no request path is answered (PExact or PSlash) by both, with or without StrictSlash *)
Lemma tpl_apart_path_match t1 t2 : tpl_apart t1 t2 = true ->
  forall strict segs, path_match strict t1 segs <> PNo -> path_match strict t2 segs = PNo.
Proof.
  unfold tpl_apart. intros H strict segs Hm.
  apply andb_prop in H as [H S21]. apply andb_prop in H as [D S12].
  destruct (path_match_some _ _ _ Hm) as [M1|[He M1]].
  - apply path_match_none.
    + exact (tpl_disjoint_sound t1 t2 D segs M1).
    + intros He. apply (tpl_skew_sound t1 t2 S12). rewrite <- (ends_empty_split segs He). exact M1.
  - apply path_match_none.
    + destruct (match_segs t2 segs) eqn:E; [|reflexivity]. exfalso. apply M1.
      apply (tpl_skew_sound t2 t1 S21). rewrite <- (ends_empty_split segs He). congruence.
    + intros _. exact (tpl_disjoint_sound t1 t2 D _ M1).
Qed.

Lemma tseg_eqb_eq a b : tseg_eqb a b = true -> a = b.
Proof.
  destruct a, b; cbn [tseg_eqb]; intros H; try discriminate.
  - apply String.eqb_eq in H. subst. reflexivity.
  - apply String.eqb_eq in H. subst. reflexivity.
  - apply andb_prop in H as [H1 H2]. apply String.eqb_eq in H1. apply strs_eqb_eq in H2. subst. reflexivity.
  - apply String.eqb_eq in H. subst. reflexivity.
Qed.

Lemma rhandler_idx_inj h h' : N.eqb (rhandler_idx h) (rhandler_idx h') = true -> h = h'.
Proof. destruct h, h'; intros H; try reflexivity; discriminate H. Qed.

Lemma rroute_eqb_eq a b : rroute_eqb a b = true -> a = b.
Proof.
  destruct a as [[m t] h], b as [[m' t'] h']. cbn [rroute_eqb]. intros H.
  apply andb_prop in H as [H H3]. apply andb_prop in H as [H1 H2].
  apply String.eqb_eq in H1. apply (list_eqb_eq tseg_eqb tseg_eqb_eq) in H2. apply rhandler_idx_inj in H3. subst. reflexivity.
Qed.

(* one route of the table: what it answers, given what the rest of the table would answer (k) and whether an earlier
   route already matched the path with another method (seen) *)
Definition rstep (strict : bool) (m : string) (segs : list string) (x : rroute) (k : bool -> rmatch) (seen : bool) : rmatch :=
  let '(rm, t, h) := x in
  match path_match strict t segs with
  | PNo => k seen
  | PExact v => if String.eqb m rm then MFull h v else k true
  | PSlash => if String.eqb m rm then MRedirect else k true
  end.
Definition rbase (seen : bool) : rmatch := if seen then M405 else M404.

Lemma resolve_run strict m segs rs : forall seen, resolve strict rs m segs seen = fm_run (rstep strict m segs) rbase rs seen.
Proof.
  induction rs as [|[[rm t] h] rs IH]; intros seen; [reflexivity|].
  cbn [resolve fm_run rstep]. destruct (path_match strict t segs); [apply IH | |]; destruct (String.eqb m rm); try reflexivity; apply IH.
Qed.

Lemma rstep_ext strict m segs x k k' : (forall s, k s = k' s) -> forall s, rstep strict m segs x k s = rstep strict m segs x k' s.
Proof.
  intros H s. destruct x as [[rm t] h]. cbn [rstep].
  destruct (path_match strict t segs); [apply H | |]; destruct (String.eqb m rm); try reflexivity; apply H.
Qed.

(* routes that are apart commute: different methods interact only through `seen`, which both set to true; equal methods
   with templates apart never both see the path *)
Lemma rstep_swap strict m segs x y : rroute_apart x y = true ->
  forall k s, rstep strict m segs x (rstep strict m segs y k) s = rstep strict m segs y (rstep strict m segs x k) s.
Proof.
  destruct x as [[m1 t1] h1], y as [[m2 t2] h2]. cbn [rroute_apart]. intros H k s. cbn [rstep].
  destruct (path_match strict t1 segs) as [|v1|] eqn:P1; [reflexivity | |];
    (destruct (path_match strict t2 segs) as [|v2|] eqn:P2; [reflexivity | |]);
    (apply orb_prop in H as [H|H];
     [ apply negb_true_iff in H;
       destruct (String.eqb m m1) eqn:E1; destruct (String.eqb m m2) eqn:E2; try reflexivity;
       apply String.eqb_eq in E1; apply String.eqb_eq in E2; subst; rewrite String.eqb_refl in H; discriminate
     | exfalso; assert (Hn : path_match strict t1 segs <> PNo) by (rewrite P1; discriminate);
       rewrite (tpl_apart_path_match t1 t2 H strict segs Hn) in P2; discriminate ]).
Qed.

(* the transfer lemma: equivalent tables resolve every request identically (any table sizes, any `seen`) *)
Lemma routes_equiv_resolve rs1 rs2 : routes_equiv rs1 rs2 = true ->
  forall strict m segs seen, resolve strict rs1 m segs seen = resolve strict rs2 m segs seen.
Proof.
  intros H strict m segs seen. rewrite !resolve_run.
  apply (trace_equiv_run rroute_eqb rroute_apart (rstep strict m segs) rbase rroute_eqb_eq
           (rstep_ext strict m segs) (rstep_swap strict m segs) rs1 rs2 H).
Qed.

(* rest_table_spec, part 2: the generated table dispatches exactly like the hand-written one *)
Lemma rest_resolve_is_spec m segs :
  resolve rest_strict_slash (compile_rest rest_routes) m segs false = resolve rest_strict_slash route_spec m segs false.
Proof. apply routes_equiv_resolve. exact routes_compile. Qed.

(* ------------------------------------------------------------------------------------------ *)
(* routing                                                                                    *)
(* ------------------------------------------------------------------------------------------ *)
Lemma resolve_in strict rs m segs : forall seen h v, resolve strict rs m segs seen = MFull h v ->
  exists t, In (m, t, h) rs /\ path_match strict t segs = PExact v.
Proof.
  induction rs as [|[[rm t] h'] rs IH]; intros seen h v H; cbn [resolve] in H.
  - destruct seen; discriminate.
  - destruct (path_match strict t segs) as [|v'|] eqn:Ep.
    + destruct (IH _ _ _ H) as (t0 & Hin & Hp). exists t0. split; [right; exact Hin | exact Hp].
    + destruct (String.eqb m rm) eqn:Em.
      * apply String.eqb_eq in Em. subst rm. inversion H; subst. exists t. split; [left; reflexivity | exact Ep].
      * destruct (IH _ _ _ H) as (t0 & Hin & Hp). exists t0. split; [right; exact Hin | exact Hp].
    + destruct (String.eqb m rm) eqn:Em; [discriminate|].
      destruct (IH _ _ _ H) as (t0 & Hin & Hp). exists t0. split; [right; exact Hin | exact Hp].
Qed.

Lemma route_spec_entries m t h : In (m, t, h) route_spec -> h <> RUnknown /\ (m = "GET" \/ m = "POST" \/ m = "DELETE").
Proof.
  unfold route_spec. cbn [In]. intros H.
  repeat (destruct H as [H|H]; [inversion H; subst; split; [discriminate | tauto]|]). contradiction.
Qed.

Lemma resolve_spec_known m segs seen h v : resolve true route_spec m segs seen = MFull h v ->
  h <> RUnknown /\ m <> "HEAD".
Proof.
  intros H. apply resolve_in in H as (t & Hin & _). apply route_spec_entries in Hin as [Hk Hm].
  split; [exact Hk|]. destruct Hm as [->|[->| ->]]; discriminate.
Qed.

(* a request that reaches a handler: it passed the authentication wrapper, is not a CORS pre-flight, its path is
   canonical, and the router matched method and path (hand-written table) to h with the path variables vars *)
Definition routed (rq : rreq) (e : renv) (h : rhandler) (vars : list (string * string)) : Prop :=
  authorized e = true /\ rr_preflight rq = false /\ re_redirect e = false /\
  resolve true route_spec (rr_meth rq) (segments (rr_path rq)) false = MFull h vars.

Definition strip_head (m : string) (r : rres) : rres :=
  if String.eqb m "HEAD"
  then mk_rres (rs_calls r) (rs_status r) (match rs_ndocs r with Some _ => Some 0%N | None => None end) (rs_serr r)
  else r.

Lemma rest_run_unfold rq e : rest_run rq e = strip_head (rr_meth rq) (rest_run_with true route_spec rq e).
Proof. unfold rest_run, rest_run_with. rewrite rest_resolve_is_spec. reflexivity. Qed.

Lemma rest_run_routed rq e h vars : routed rq e h vars -> rest_run rq e = handle h vars (rr_query rq) e.
Proof.
  intros (Ha & Hp & Hr & Hm). rewrite rest_run_unfold. unfold rest_run_with. rewrite Ha, Hp, Hr, Hm. cbn [negb].
  unfold strip_head. apply resolve_spec_known in Hm as [_ Hh].
  destruct (String.eqb (rr_meth rq) "HEAD") eqn:E; [apply String.eqb_eq in E; contradiction | reflexivity].
Qed.

Lemma strip_head_calls m r : rs_calls (strip_head m r) = rs_calls r.
Proof. unfold strip_head. destruct (String.eqb m "HEAD"); reflexivity. Qed.
Lemma strip_head_status m r : rs_status (strip_head m r) = rs_status r.
Proof. unfold strip_head. destruct (String.eqb m "HEAD"); reflexivity. Qed.
Lemma strip_head_serr m r : rs_serr (strip_head m r) = rs_serr r.
Proof. unfold strip_head. destruct (String.eqb m "HEAD"); reflexivity. Qed.

(* whenever anything was called, the request was routed *)
Lemma rest_run_calls_routed rq e : rs_calls (rest_run rq e) <> [] ->
  exists h vars, routed rq e h vars.
Proof.
  rewrite rest_run_unfold, strip_head_calls. unfold rest_run_with, routed.
  destruct (authorized e); cbn [negb]; [|intros H; exfalso; apply H; reflexivity].
  destruct (rr_preflight rq); [intros H; exfalso; apply H; reflexivity|].
  destruct (re_redirect e); [intros H; exfalso; apply H; reflexivity|].
  destruct (resolve true route_spec (rr_meth rq) (segments (rr_path rq)) false) as [h vars| | |];
    try (intros H; exfalso; apply H; reflexivity).
  intros _. exists h, vars. repeat split; reflexivity.
Qed.

(* ------------------------------------------------------------------------------------------ *)
(* handlers against the hand-written spec                                                     *)
(* ------------------------------------------------------------------------------------------ *)
Ltac break_match :=
  repeat match goal with
  | |- context[match ?x with _ => _ end] =>
      lazymatch x with
      | context[match _ with _ => _ end] => fail
      | _ => destruct x eqn:?
      end
  end.

Ltac break_match_hyp H :=
  repeat match type of H with
  | context[match ?x with _ => _ end] =>
      lazymatch x with
      | context[match _ with _ => _ end] => fail
      | _ => destruct x eqn:?
      end
  end.

Definition urlpath_of (vars : list (string * string)) : string :=
  ("/" ++ var "keyType" vars ++ "/" ++ trim_slash (var "path" vars))%string.

(* what "a part the handler must decode is malformed" means, per handler class (hand-written):
   the CID / IPFS path / peer ID in the path, the pin options or add parameters in the query, the filter, the body *)
Definition malformed (h : rhandler) (vars : list (string * string)) (e : renv) : Prop :=
  match h with
  | RAllocation | RRecover | RStatus | RPin | RUnpin => look (var "hash" vars) (re_cids e) = None \/ re_popts e = None
  | RPinPath | RUnpinPath => look (urlpath_of vars) (re_paths e) = None \/ re_popts e = None
  | RPeerRemove => look (var "peer" vars) (re_peers e) = None
  | RPeerAdd => forall p, re_body e <> PidOk p
  | RAdd => re_mp e = 0%N \/ re_addp e = None
  | RAllocations => re_pfilter_ok e = false
  | RStatusAll => re_tfilter e = None
  | RUnknown => True
  | _ => False
  end.

Lemma refuse_iff_malformed h vars q e : spec_expect h vars q e = Refuse <-> malformed h vars e.
Proof.
  destruct h; cbn [spec_expect malformed]; unfold urlpath_of;
    try (split; [discriminate | intros []]; fail);
    try (match goal with |- context[look ?a ?b] => destruct (look a b) end; destruct (re_popts e); split; intros H;
         try discriminate; try reflexivity; try (destruct H; discriminate); auto; fail).
  - (* PeerAdd *) destruct (re_body e); split; intros H; try reflexivity; try discriminate; try (intros p; discriminate).
    exfalso. apply (H p). reflexivity.
  - (* Add *) destruct (N.eqb (re_mp e) 0) eqn:E.
    + apply N.eqb_eq in E. split; [intros _; left; exact E | reflexivity].
    + apply N.eqb_neq in E. destruct (re_addp e) as [[o st]|]; split; intros H; try discriminate; try reflexivity.
      * destruct H; [contradiction | discriminate].
      * right; reflexivity.
  - (* Allocations *) destruct (re_pfilter_ok e); split; intros H; try discriminate; reflexivity.
  - (* StatusAll *) destruct (re_tfilter e); split; intros H; try discriminate; reflexivity.
  - (* Unknown *) split; [intros _; exact I | reflexivity].
Qed.

(* a malformed part: answered 400 with one JSON document, nothing called *)
Lemma handle_refuse h vars q e : h <> RUnknown -> spec_expect h vars q e = Refuse -> handle h vars q e = bad400.
Proof.
  intros Hh.
  destruct h; try congruence; cbn [handle spec_expect]; unfold with_cid, with_path, h_add;
    intros H; break_match_hyp H; try discriminate; try reflexivity.
Qed.

Definition errb (r : rres) : bool := (400 <=? rs_status r)%N || rs_serr r.
Definition imp_failed (h : rhandler) (e : renv) : bool :=
  match h with RAdd => negb (N.eqb (re_mp e) 1) || negb (re_imp_ok e) | _ => false end.
Definition is_stream (h : rhandler) (e : renv) : bool :=
  match h, re_addp e with RAdd, Some (_, true) => true | _, _ => false end.

(* all that is claimed of a handler whose input decodes, in boolean form (decided by case analysis below) *)
Definition ops_okb (h : rhandler) (e : renv) (exp : list (string * list string)) (r : rres) : bool :=
  prefix_ops (rs_calls r) exp
  && (if errb r then any_failed (rs_calls r) || (imp_failed h e && is_nil (rs_calls r))
      else list_eqb rcall_eqb (rs_calls r) (ok_calls exp))
  && (if any_failed (rs_calls r) then errb r else true)
  && (if rs_serr r then is_stream h e && N.eqb (rs_status r) 200 else true)
  && (if is4xx (rs_status r) then any_failed (rs_calls r) else true)
  && match rs_ndocs r with
     | Some 1%N => negb (N.eqb (rs_status r) 204)
     | Some 0%N => N.eqb (rs_status r) 204
     | Some _ => false
     | None => is_stream h e && N.eqb (rs_status r) 200
     end
  && (if is_stream h e then true else match rs_ndocs r with None => false | _ => true end).

Ltac refl_eqb := rewrite ?rcalls_eqb_refl, ?rcall_eqb_refl, ?strs_eqb_refl, ?String.eqb_refl, ?N.eqb_refl; cbn.

(* one RPC followed by sendResponse *)
Lemma rpc1_ops_ok h e m args st nd nf any :
  imp_failed h e = false -> is_stream h e = false -> ((st = 200 /\ nd = 1) \/ (st = 204 /\ nd = 0))%N ->
  ops_okb h e [(m, args)] (rpc1 e m args st nd nf any) = true.
Proof.
  intros Hi Hs Hst. unfold ops_okb, rpc1, res, errb. rewrite Hi, Hs.
  destruct (fail_kind e m 0) as [k|]; cbn [rs_calls rs_status rs_ndocs rs_serr prefix_ops any_failed existsb snd is_nil ok_calls map fst list_eqb rcall_eqb];
    rewrite ?String.eqb_refl, ?strs_eqb_refl; cbn [andb orb Bool.eqb].
  - destruct (any || nf && (k =? 1)%N); reflexivity.
  - destruct Hst as [[-> ->]|[-> ->]]; reflexivity.
Qed.

Lemma add_ops_ok e o st : re_addp e = Some (o, st) -> N.eqb (re_mp e) 0 = false ->
  ops_okb RAdd e [("Cluster.BlockAllocate", []); ("IPFSConnector.BlockPut", []); ("Cluster.Pin", [re_root e; o; "-1"])] (h_add e) = true.
Proof.
  intros Ha Hm. unfold h_add, add_err. rewrite Ha, Hm.
  unfold ops_okb, errb, imp_failed, is_stream. rewrite Ha.
  generalize "Cluster.BlockAllocate" "IPFSConnector.BlockPut" "Cluster.Pin" "-1". intros ba bp pn m1.
  destruct (N.eqb (re_mp e) 1); destruct (re_imp_ok e); destruct st;
    cbn [negb orb andb rs_calls rs_status rs_ndocs rs_serr prefix_ops any_failed existsb snd is_nil]; try reflexivity;
    destruct (fail_kind e ba 0); cbn [rs_calls rs_status rs_ndocs rs_serr prefix_ops any_failed existsb snd is_nil];
    rewrite ?String.eqb_refl; try reflexivity;
    destruct (fail_any e bp); cbn [app rs_calls rs_status rs_ndocs rs_serr prefix_ops any_failed existsb snd is_nil list_eqb];
    rewrite ?String.eqb_refl; try reflexivity;
    destruct (fail_kind e pn 0); cbn [app rs_calls rs_status rs_ndocs rs_serr prefix_ops any_failed existsb snd is_nil list_eqb ok_calls map fst rcall_eqb];
    rewrite ?String.eqb_refl; try reflexivity.
Qed.

Lemma handle_ops_b h vars q e exp : spec_expect h vars q e = Ops exp -> ops_okb h e exp (handle h vars q e) = true.
Proof.
  destruct h; cbn [handle spec_expect]; unfold with_cid, with_path, rpc_plain, urlpath_of;
    intros H; break_match_hyp H; try discriminate; inversion H; subst; clear H;
    try (apply rpc1_ops_ok; [reflexivity | reflexivity | (left; split; reflexivity) || (right; split; reflexivity)]; fail).
  - (* Add *) eapply add_ops_ok; eassumption.
Qed.

(* Prop-level reading *)
Record ops_ok (h : rhandler) (e : renv) (exp : list (string * list string)) (r : rres) : Prop := {
  oo_performed : performed (rs_calls r) exp;
  oo_success : errb r = false -> rs_calls r = ok_calls exp;
  oo_error : errb r = true -> any_failed (rs_calls r) = true \/ (imp_failed h e = true /\ rs_calls r = []);
  oo_failed : any_failed (rs_calls r) = true -> errb r = true;
  oo_4xx : is4xx (rs_status r) = true -> any_failed (rs_calls r) = true;
  oo_serr : rs_serr r = true -> is_stream h e = true /\ rs_status r = 200%N;
  oo_docs : rs_ndocs r = Some 1%N \/ (rs_ndocs r = Some 0%N /\ rs_status r = 204%N)
            \/ (rs_ndocs r = None /\ is_stream h e = true /\ rs_status r = 200%N)
}.

Lemma ops_okb_sound h e exp r : ops_okb h e exp r = true -> ops_ok h e exp r.
Proof.
  unfold ops_okb. intros H.
  apply andb_prop in H as [H H7]. apply andb_prop in H as [H H6]. apply andb_prop in H as [H H5].
  apply andb_prop in H as [H H4]. apply andb_prop in H as [H H3]. apply andb_prop in H as [H1 H2].
  constructor.
  - apply prefix_ops_performed. exact H1.
  - intros E. rewrite E in H2. apply rcalls_eqb_eq. exact H2.
  - intros E. rewrite E in H2. apply orb_prop in H2 as [H2|H2]; [left; exact H2|].
    apply andb_prop in H2 as [Ha Hb]. right. split; [exact Ha | apply is_nil_true; exact Hb].
  - intros E. rewrite E in H3. exact H3.
  - intros E. rewrite E in H5. exact H5.
  - intros E. rewrite E in H4. apply andb_prop in H4 as [Ha Hb]. apply N.eqb_eq in Hb. split; assumption.
  - destruct (rs_ndocs r) as [[|p]|].
    + right; left. split; [reflexivity | apply N.eqb_eq; exact H6].
    + destruct p; try discriminate. left; reflexivity.
    + right; right. apply andb_prop in H6 as [Ha Hb]. apply N.eqb_eq in Hb. repeat split; assumption.
Qed.

Lemma handle_ops h vars q e exp : spec_expect h vars q e = Ops exp -> ops_ok h e exp (handle h vars q e).
Proof. intros H. apply ops_okb_sound. apply handle_ops_b with (vars := vars) (q := q). exact H. Qed.

Lemma performed_names obs : forall exp c, performed obs exp -> In c obs -> In (fst (fst c)) (map fst exp).
Proof.
  induction obs as [|x obs IH]; intros exp c H Hin; [contradiction|].
  inversion H; subst.
  - destruct Hin as [<-|[]]. left; reflexivity.
  - destruct Hin as [<-|Hin]; [left; reflexivity|]. right. eapply IH; eassumption.
Qed.

Lemma spec_expect_names h vars q e exp : spec_expect h vars q e = Ops exp -> incl (map fst exp) (handler_rpc_names h).
Proof.
  destruct h; cbn [spec_expect handler_rpc_names]; intros H; break_match_hyp H; try discriminate; inversion H; subst; clear H;
    cbn [map fst]; intros x Hx; cbn [In] in *; tauto.
Qed.

Lemma handle_call_names h vars q e c : h <> RUnknown -> In c (rs_calls (handle h vars q e)) -> In (fst (fst c)) (handler_rpc_names h).
Proof.
  intros Hh Hin. destruct (spec_expect h vars q e) as [|exp] eqn:E.
  - rewrite (handle_refuse h vars q e Hh E) in Hin. contradiction.
  - apply (spec_expect_names _ _ _ _ _ E). eapply performed_names; [|exact Hin]. apply (oo_performed _ _ _ _ (handle_ops _ _ _ _ _ E)).
Qed.

Lemma route_model_all : forallb route_model_okb rest_routes = true.
Proof. vm_compute. reflexivity. Qed.

Lemma route_ops_model name m pat hn : In (name, m, pat, hn) rest_routes ->
  exists sites, sget name named_ops = Some sites /\ func_rpcs hn = Some sites /\
    forall vars q e c, In c (rs_calls (handle (rhandler_of_name hn) vars q e)) -> In (fst (fst c)) (flat_map model_names sites).
Proof.
  intros Hin.
  pose proof (route_ops_each _ Hin) as H1. pose proof (proj1 (forallb_forall _ _) route_model_all _ Hin) as H2.
  unfold route_ops_okb in H1. unfold route_model_okb in H2.
  destruct (sget name named_ops) as [sites|]; [|discriminate].
  destruct (func_rpcs hn) as [got|]; [|discriminate].
  apply strs_eqb_eq in H1. subst got. apply andb_prop in H2 as [H2 H3]. apply strs_eqb_eq in H2.
  exists sites. repeat split. intros vars q e c Hc. rewrite H2. apply handle_call_names with (vars := vars) (q := q) (e := e); [|exact Hc].
  intros Hu. rewrite Hu in H3. discriminate.
Qed.

(* ------------------------------------------------------------------------------------------ *)
(* whole requests: fail-closed and faithful                                                   *)
(* ------------------------------------------------------------------------------------------ *)
Lemma routed_known rq e h vars : routed rq e h vars -> h <> RUnknown.
Proof. intros (_ & _ & _ & H). apply resolve_spec_known in H. tauto. Qed.

Lemma fail_closed_l rq e h vars : routed rq e h vars -> malformed h vars e -> rest_run rq e = bad400.
Proof.
  intros Hr Hm. rewrite (rest_run_routed _ _ _ _ Hr). apply handle_refuse; [eapply routed_known; exact Hr|].
  apply refuse_iff_malformed. exact Hm.
Qed.

Lemma wellformed_translated_l rq e h vars : routed rq e h vars -> ~ malformed h vars e ->
  exists exp, spec_expect h vars (rr_query rq) e = Ops exp /\ ops_ok h e exp (rest_run rq e).
Proof.
  intros Hr Hm. rewrite (rest_run_routed _ _ _ _ Hr).
  destruct (spec_expect h vars (rr_query rq) e) as [|exp] eqn:E.
  - exfalso. apply Hm. apply (refuse_iff_malformed h vars (rr_query rq) e). exact E.
  - exists exp. split; [reflexivity | apply handle_ops; exact E].
Qed.

Lemma calls_exact_l rq e : rs_calls (rest_run rq e) <> [] ->
  exists h vars exp, routed rq e h vars /\ ~ malformed h vars e /\ spec_expect h vars (rr_query rq) e = Ops exp
    /\ ops_ok h e exp (rest_run rq e).
Proof.
  intros Hc. destruct (rest_run_calls_routed rq e Hc) as (h & vars & Hr).
  assert (Hm : ~ malformed h vars e).
  { intros Hm. rewrite (fail_closed_l _ _ _ _ Hr Hm) in Hc. apply Hc. reflexivity. }
  destruct (wellformed_translated_l _ _ _ _ Hr Hm) as (exp & He & Ho).
  exists h, vars, exp. split; [exact Hr|]. split; [exact Hm|]. split; assumption.
Qed.

(* a 4xx answer and a call together: only when that call was refused by the cluster itself *)
Lemma refused_no_call_l rq e : is4xx (rs_status (rest_run rq e)) = true -> any_failed (rs_calls (rest_run rq e)) = false ->
  rs_calls (rest_run rq e) = [].
Proof.
  intros H4 Hf. destruct (rs_calls (rest_run rq e)) as [|c l] eqn:Ec; [reflexivity|]. exfalso.
  assert (Hn : rs_calls (rest_run rq e) <> []) by (rewrite Ec; discriminate).
  destruct (calls_exact_l rq e Hn) as (h & vars & exp & _ & _ & _ & Ho).
  pose proof (oo_4xx _ _ _ _ Ho H4) as Hx. rewrite Ec in Hx. rewrite Hx in Hf. discriminate.
Qed.

(* ------------------------------------------------------------------------------------------ *)
(* single JSON document                                                                       *)
(* ------------------------------------------------------------------------------------------ *)
Definition docs_spec (rq : rreq) (e : renv) (r : rres) : Prop :=
  match rs_ndocs r with
  | Some n => n = 1%N \/ (n = 0%N /\ (rr_meth rq = "HEAD" \/ rs_status r = 204%N \/ rs_status r = 405%N))
  | None => (rs_status r = 301%N /\ rs_calls r = []) \/
            (rs_status r = 200%N /\ exists vars o, routed rq e RAdd vars /\ re_addp e = Some (o, true))
  end.

Lemma is_stream_inv h e : is_stream h e = true -> h = RAdd /\ exists o, re_addp e = Some (o, true).
Proof. unfold is_stream. destruct h; try discriminate. destruct (re_addp e) as [[o [|]]|]; try discriminate. intros _. split; [reflexivity | exists o; reflexivity]. Qed.

Lemma single_document_l rq e : docs_spec rq e (rest_run rq e).
Proof.
  unfold docs_spec.
  destruct (authorized e) eqn:Ha.
  2:{ rewrite rest_run_unfold. unfold rest_run_with. rewrite Ha. cbn [negb]. unfold strip_head.
      destruct (String.eqb (rr_meth rq) "HEAD") eqn:Eh; cbn; [right; split; [reflexivity | left; apply String.eqb_eq; exact Eh] | left; reflexivity]. }
  destruct (rr_preflight rq) eqn:Hp.
  { rewrite rest_run_unfold. unfold rest_run_with. rewrite Ha, Hp. cbn [negb]. unfold strip_head.
    destruct (String.eqb (rr_meth rq) "HEAD"); cbn; right; (split; [reflexivity|]); right; left; reflexivity. }
  destruct (re_redirect e) eqn:Hd.
  { rewrite rest_run_unfold. unfold rest_run_with. rewrite Ha, Hp, Hd. cbn [negb]. unfold strip_head.
    destruct (String.eqb (rr_meth rq) "HEAD"); cbn; left; split; reflexivity. }
  destruct (resolve true route_spec (rr_meth rq) (segments (rr_path rq)) false) as [h vars| | |] eqn:Hm.
  - (* routed *)
    assert (Hr : routed rq e h vars) by (repeat split; assumption).
    rewrite (rest_run_routed _ _ _ _ Hr).
    destruct (spec_expect h vars (rr_query rq) e) as [|exp] eqn:E.
    + rewrite (handle_refuse _ _ _ _ (routed_known _ _ _ _ Hr) E). cbn. left; reflexivity.
    + pose proof (handle_ops _ _ _ _ _ E) as Ho. destruct (oo_docs _ _ _ _ Ho) as [H|[[H1 H2]|(H1 & H2 & H3)]].
      * rewrite H. left; reflexivity.
      * rewrite H1. right. split; [reflexivity | right; left; exact H2].
      * rewrite H1. right. split; [exact H3|]. apply is_stream_inv in H2 as [-> [o Ho']]. exists vars, o. split; assumption.
  - rewrite rest_run_unfold. unfold rest_run_with. rewrite Ha, Hp, Hd, Hm. cbn [negb]. unfold strip_head.
    destruct (String.eqb (rr_meth rq) "HEAD"); cbn; left; split; reflexivity.
  - rewrite rest_run_unfold. unfold rest_run_with. rewrite Ha, Hp, Hd, Hm. cbn [negb]. unfold strip_head.
    destruct (String.eqb (rr_meth rq) "HEAD"); cbn; right; (split; [reflexivity|]); right; right; reflexivity.
  - rewrite rest_run_unfold. unfold rest_run_with. rewrite Ha, Hp, Hd, Hm. cbn [negb]. unfold strip_head.
    destruct (String.eqb (rr_meth rq) "HEAD") eqn:Eh; cbn; [right; split; [reflexivity | left; apply String.eqb_eq; exact Eh] | left; reflexivity].
Qed.

(* ------------------------------------------------------------------------------------------ *)
(* authentication                                                                             *)
(* ------------------------------------------------------------------------------------------ *)
Definition listed_pair (e : renv) : Prop :=
  match re_creds e with
  | None => True
  | Some l => exists u p, re_basic e = Some (u, p) /\ In (u, p) l
  end.

Lemma authorized_spec e : authorized e = true <-> listed_pair e.
Proof.
  unfold authorized, listed_pair. destruct (re_creds e) as [l|]; [|tauto].
  destruct (re_basic e) as [[u p]|].
  - rewrite existsb_exists. split.
    + intros ([u' p'] & Hin & Heq). cbn in Heq. apply andb_prop in Heq as [E1 E2].
      apply String.eqb_eq in E1. apply String.eqb_eq in E2. subst. exists u, p. split; [reflexivity | exact Hin].
    + intros (u' & p' & Heq & Hin). inversion Heq; subst. exists (u', p'). split; [exact Hin|]. cbn. rewrite !String.eqb_refl. reflexivity.
  - split; [discriminate | intros (u & p & H & _); discriminate].
Qed.

(* credentials configured, request without a listed pair: 401, nothing called, whatever the method, path, pre-flight
   header, redirect outcome *)
Lemma auth_total_l rq e : ~ listed_pair e ->
  rs_calls (rest_run rq e) = [] /\ rs_status (rest_run rq e) = 401%N /\ rs_serr (rest_run rq e) = false
  /\ (rs_ndocs (rest_run rq e) = Some 1%N \/ (rr_meth rq = "HEAD" /\ rs_ndocs (rest_run rq e) = Some 0%N)).
Proof.
  intros H. assert (Ha : authorized e = false).
  { destruct (authorized e) eqn:E; [|reflexivity]. exfalso. apply H. apply authorized_spec. exact E. }
  rewrite rest_run_unfold. unfold rest_run_with. rewrite Ha. cbn [negb]. unfold strip_head.
  destruct (String.eqb (rr_meth rq) "HEAD") eqn:Eh; cbn; repeat split; try reflexivity.
  - right. split; [apply String.eqb_eq; exact Eh | reflexivity].
  - left. reflexivity.
Qed.

(* the wrapper is transparent for a request that carries a listed pair *)
Definition open_env (e : renv) : renv :=
  mk_renv None (re_basic e) (re_redirect e) (re_cids e) (re_peers e) (re_paths e) (re_popts e) (re_addp e) (re_tfilter e)
          (re_pfilter_ok e) (re_body e) (re_mp e) (re_imp_ok e) (re_root e) (re_fails e).

Lemma handle_open h vars q e : handle h vars q (open_env e) = handle h vars q e.
Proof. destruct h; reflexivity. Qed.

Lemma auth_transparent_l rq e : listed_pair e -> rest_run rq e = rest_run rq (open_env e).
Proof.
  intros H. apply authorized_spec in H. unfold rest_run, rest_run_with. rewrite H. cbn [negb authorized open_env re_creds re_redirect].
  destruct (resolve rest_strict_slash (compile_rest rest_routes) (rr_meth rq) (segments (rr_path rq)) false); try reflexivity; rewrite handle_open; reflexivity.
Qed.

(* ------------------------------------------------------------------------------------------ *)
(* the boolean monitor spec_okb_http: what it means (soundness) and that the model passes it   *)
(* ------------------------------------------------------------------------------------------ *)
Definition doc_ok (st nd : N) : Prop := (nd <= 1)%N /\ (st = 200%N -> nd = 1%N).
Definition doc_okb (st nd : N) : bool := (nd <=? 1)%N && (if N.eqb st 200 then N.eqb nd 1 else true).

Lemma doc_okb_spec st nd : doc_okb st nd = true <-> doc_ok st nd.
Proof.
  unfold doc_okb, doc_ok. rewrite andb_true_iff, N.leb_le. destruct (N.eqb st 200) eqn:E.
  - apply N.eqb_eq in E. rewrite N.eqb_eq. tauto.
  - apply N.eqb_neq in E. tauto.
Qed.

Definition answered_err (h : rhandler) (e : renv) (o : robs) : Prop :=
  (400 <= ro_status o)%N \/ (is_stream h e = true /\ ro_serr o = true).
Definition answered_errb (h : rhandler) (e : renv) (o : robs) : bool :=
  (400 <=? ro_status o)%N || (is_stream h e && ro_serr o).
Lemma answered_errb_spec h e o : answered_errb h e o = true <-> answered_err h e o.
Proof. unfold answered_errb, answered_err. rewrite orb_true_iff, andb_true_iff, N.leb_le. tauto. Qed.

Definition unrouted (rq : rreq) : Prop :=
  forall h vars, resolve true route_spec (rr_meth rq) (segments (rr_path rq)) false <> MFull h vars.

(* the property, for one request / environment / observation (status, calls received, documents in the body) *)
Inductive HttpSpec (rq : rreq) (e : renv) (o : robs) : Prop :=
| HS_unauth : ~ listed_pair e -> ro_status o = 401%N -> ro_calls o = [] -> (ro_ndocs o <= 1)%N -> HttpSpec rq e o
| HS_early : listed_pair e -> (rr_preflight rq = true \/ re_redirect e = true) -> ro_calls o = [] -> HttpSpec rq e o
| HS_slash : listed_pair e -> unrouted rq ->
    resolve true route_spec (rr_meth rq) (segments (rr_path rq)) false = MRedirect -> ro_calls o = [] -> HttpSpec rq e o
| HS_unmatched : listed_pair e -> unrouted rq -> ro_calls o = [] ->
    (400 <= ro_status o < 500)%N -> doc_ok (ro_status o) (ro_ndocs o) -> HttpSpec rq e o
| HS_refused h vars : routed rq e h vars -> malformed h vars e ->
    (400 <= ro_status o < 500)%N -> ro_calls o = [] -> doc_ok (ro_status o) (ro_ndocs o) -> HttpSpec rq e o
| HS_ops h vars exp : routed rq e h vars -> ~ malformed h vars e -> spec_expect h vars (rr_query rq) e = Ops exp ->
    performed (ro_calls o) exp ->
    (~ answered_err h e o -> ro_calls o = ok_calls exp) ->
    (answered_err h e o -> any_failed (ro_calls o) = true \/ imp_failed h e = true) ->
    ((400 <= ro_status o < 500)%N -> any_failed (ro_calls o) = true \/ ro_calls o = []) ->
    ((is_stream h e = true /\ ~ (400 <= ro_status o < 500)%N) \/ doc_ok (ro_status o) (ro_ndocs o)) -> HttpSpec rq e o.

Lemma if_nil_true (c : bool) (k : N) : (if c then [] else [k]) = [] -> c = true.
Proof. destruct c; [reflexivity | discriminate]. Qed.
Lemma if_nil_false (c : bool) (k : N) : (if c then [k] else []) = [] -> c = false.
Proof. destruct c; [discriminate | reflexivity]. Qed.

Lemma spec_okb_http_sound rq e o : spec_okb_http rq e o = true -> HttpSpec rq e o.
Proof.
  unfold spec_okb_http. rewrite is_nil_true. unfold spec_codes_http.
  destruct (authorized e) eqn:Ha; cbn [negb].
  2:{ intros H. apply if_nil_true in H. apply andb_prop in H as [H H3]. apply andb_prop in H as [H1 H2].
      apply HS_unauth.
      - rewrite <- authorized_spec. rewrite Ha. discriminate.
      - apply N.eqb_eq; exact H1.
      - apply is_nil_true; exact H2.
      - apply N.leb_le; exact H3. }
  assert (Hl : listed_pair e) by (apply authorized_spec; exact Ha).
  destruct (rr_preflight rq || re_redirect e) eqn:Hpr.
  { intros H. apply if_nil_true in H. apply orb_prop in Hpr. apply HS_early; [exact Hl | exact Hpr | apply is_nil_true; exact H]. }
  apply orb_false_elim in Hpr as [Hp Hd]. cbv zeta.
  fold (doc_okb (ro_status o) (ro_ndocs o)).
  destruct (resolve true route_spec (rr_meth rq) (segments (rr_path rq)) false) as [h vars| | |] eqn:Hm.
  - (* routed *)
    assert (Hr : routed rq e h vars) by (repeat split; assumption).
    destruct (spec_expect h vars (rr_query rq) e) as [|exp] eqn:E.
    + intros H. apply app_eq_nil in H as [H1 H2]. apply if_nil_true in H1. apply if_nil_true in H2.
      apply andb_prop in H1 as [H1 H1']. apply HS_refused with (h := h) (vars := vars).
      * exact Hr.
      * apply (refuse_iff_malformed h vars (rr_query rq) e). exact E.
      * apply is4xx_spec; exact H1.
      * apply is_nil_true; exact H1'.
      * apply doc_okb_spec; exact H2.
    + fold (is_stream h e). fold (imp_failed h e). fold (answered_errb h e o).
      intros H. apply app_eq_nil in H as [H1 H]. apply app_eq_nil in H as [H2 H]. apply app_eq_nil in H as [H3 H4].
      apply if_nil_false in H1.
      apply HS_ops with (h := h) (vars := vars) (exp := exp).
      * exact Hr.
      * intros Hmal. apply (refuse_iff_malformed h vars (rr_query rq) e) in Hmal. congruence.
      * exact E.
      * destruct (answered_errb h e o) eqn:Ae.
        -- apply if_nil_true in H2. apply prefix_ops_performed; exact H2.
        -- apply if_nil_true in H2. apply rcalls_eqb_eq in H2. rewrite H2.
           apply prefix_ops_performed. clear. induction exp as [|[m a] exp IH]; cbn; [reflexivity|].
           rewrite String.eqb_refl, strs_eqb_refl. exact IH.
      * intros Hn. destruct (answered_errb h e o) eqn:Ae.
        -- exfalso. apply Hn. apply answered_errb_spec. exact Ae.
        -- apply if_nil_true in H2. apply rcalls_eqb_eq. exact H2.
      * intros Hy. apply answered_errb_spec in Hy. rewrite Hy in H3. cbn [andb] in H3.
        destruct (any_failed (ro_calls o)); [left; reflexivity|]. destruct (imp_failed h e); [right; reflexivity|].
        cbn in H3. destruct (is4xx (ro_status o)); discriminate.
      * intros H4x. apply is4xx_spec in H4x. rewrite H4x in H1. cbn [andb] in H1.
        destruct (any_failed (ro_calls o)); [left; reflexivity|]. cbn in H1. right. apply is_nil_true. apply negb_false_iff. exact H1.
      * destruct (is_stream h e && negb (is4xx (ro_status o))) eqn:Es.
        -- apply andb_prop in Es as [Es1 Es2]. left. split; [exact Es1|]. apply negb_true_iff in Es2. rewrite <- is4xx_spec. rewrite Es2. discriminate.
        -- right. apply if_nil_true in H4. apply doc_okb_spec. exact H4.
  - intros H. apply if_nil_true in H. apply HS_slash; [exact Hl | intros h vars; congruence | exact Hm | apply is_nil_true; exact H].
  - intros H. apply app_eq_nil in H as [H1 H2]. apply if_nil_true in H1. apply if_nil_true in H2. apply andb_prop in H1 as [H1 H1'].
    apply HS_unmatched; [exact Hl | intros h vars; congruence | apply is_nil_true; exact H1' | apply is4xx_spec; exact H1 | apply doc_okb_spec; exact H2].
  - intros H. apply app_eq_nil in H as [H1 H2]. apply if_nil_true in H1. apply if_nil_true in H2. apply andb_prop in H1 as [H1 H1'].
    apply HS_unmatched; [exact Hl | intros h vars; congruence | apply is_nil_true; exact H1' | apply is4xx_spec; exact H1 | apply doc_okb_spec; exact H2].
Qed.

(* the model's own output as an observation; d = the document count where the model leaves it unstated (301 pages, NDJSON) *)
Definition robs_of (d : N) (r : rres) : robs :=
  mk_robs (rs_calls r) (rs_status r) (match rs_ndocs r with Some n => n | None => d end) (rs_serr r).

Lemma ops_codes_nil (PO F E4 L5 SE ST NL LE IM : bool) (k1 k2 k3 k4 : N) :
  PO && (if E4 || SE then F || (IM && NL) else LE) && (if F then E4 || SE else true) && (if SE then ST else true)
     && (if E4 && L5 then F else true) = true ->
  (if E4 && L5 && negb F && negb NL then [k1] else [])
  ++ (if E4 || (ST && SE) then (if PO then [] else [k2]) else (if LE then [] else [k2]))
  ++ (if (E4 || (ST && SE)) && negb F && negb IM then [if E4 && L5 then k3 else k4] else []) = [].
Proof. destruct PO, F, E4, L5, SE, ST, NL, LE, IM; cbn; intros H; try discriminate; reflexivity. Qed.

Lemma app_nil_both {A} (l l' : list A) : l = [] -> l' = [] -> l ++ l' = [].
Proof. intros -> ->. reflexivity. Qed.

Lemma model_satisfies_http rq e d : spec_okb_http rq e (robs_of d (rest_run rq e)) = true.
Proof.
  unfold spec_okb_http. apply is_nil_true. unfold spec_codes_http.
  destruct (authorized e) eqn:Ha; cbn [negb].
  2:{ rewrite rest_run_unfold. unfold rest_run_with. rewrite Ha. cbn [negb]. unfold strip_head.
      destruct (String.eqb (rr_meth rq) "HEAD"); reflexivity. }
  destruct (rr_preflight rq) eqn:Hp; cbn [orb].
  { rewrite rest_run_unfold. unfold rest_run_with. rewrite Ha, Hp. cbn [negb]. unfold strip_head.
    destruct (String.eqb (rr_meth rq) "HEAD"); reflexivity. }
  destruct (re_redirect e) eqn:Hd.
  { rewrite rest_run_unfold. unfold rest_run_with. rewrite Ha, Hp, Hd. cbn [negb]. unfold strip_head.
    destruct (String.eqb (rr_meth rq) "HEAD"); reflexivity. }
  cbv zeta.
  destruct (resolve true route_spec (rr_meth rq) (segments (rr_path rq)) false) as [h vars| | |] eqn:Hm.
  - assert (Hr : routed rq e h vars) by (repeat split; assumption).
    rewrite (rest_run_routed _ _ _ _ Hr).
    destruct (spec_expect h vars (rr_query rq) e) as [|exp] eqn:E.
    + rewrite (handle_refuse _ _ _ _ (routed_known _ _ _ _ Hr) E). reflexivity.
    + pose proof (handle_ops_b _ _ _ _ _ E) as Hb. set (r := handle h vars (rr_query rq) e) in *.
      fold (is_stream h e). fold (imp_failed h e).
      unfold ops_okb in Hb.
      apply andb_prop in Hb as [Hb H7]. apply andb_prop in Hb as [Hb H6].
      cbn [robs_of ro_calls ro_status ro_ndocs ro_serr].
      rewrite !app_assoc. apply app_nil_both.
      * rewrite <- !app_assoc. unfold is4xx. apply ops_codes_nil.
        unfold errb, is4xx in Hb.
        apply andb_prop in Hb as [Hb H5]. apply andb_prop in Hb as [Hb H4]. apply andb_prop in Hb as [Hb H3]. apply andb_prop in Hb as [H1 H2].
        rewrite H1, H2, H3, H5. cbn [andb]. rewrite andb_true_r.
        destruct (rs_serr r); [|reflexivity]. apply andb_prop in H4 as [H4 _]. exact H4.
      * destruct (rs_ndocs r) as [[|p]|].
        -- apply N.eqb_eq in H6. rewrite H6. destruct (is_stream h e && negb (is4xx 204)); reflexivity.
        -- destruct p; try discriminate. destruct (is_stream h e && negb (is4xx (rs_status r))); [reflexivity|].
           cbn. destruct (N.eqb (rs_status r) 200); reflexivity.
        -- apply andb_prop in H6 as [H6 H6']. apply N.eqb_eq in H6'. rewrite H6, H6'. reflexivity.
  - rewrite rest_run_unfold. unfold rest_run_with. rewrite Ha, Hp, Hd, Hm. cbn [negb]. unfold strip_head.
    destruct (String.eqb (rr_meth rq) "HEAD"); reflexivity.
  - rewrite rest_run_unfold. unfold rest_run_with. rewrite Ha, Hp, Hd, Hm. cbn [negb]. unfold strip_head.
    destruct (String.eqb (rr_meth rq) "HEAD"); reflexivity.
  - rewrite rest_run_unfold. unfold rest_run_with. rewrite Ha, Hp, Hd, Hm. cbn [negb]. unfold strip_head.
    destruct (String.eqb (rr_meth rq) "HEAD"); reflexivity.
Qed.

(* so: whenever an observation of the implementation equals the model's output, the property holds of it *)
Lemma model_spec_http rq e d : HttpSpec rq e (robs_of d (rest_run rq e)).
Proof. apply spec_okb_http_sound. apply model_satisfies_http. Qed.
