(* C11 — lemmas about the REST model. *)
From V Require Import Base.Common Base.C11_Http Gen.RestRoutes Gen.RestClient Model.C11_Rest Model.C11_Check.
Open Scope string_scope.
Open Scope list_scope.

(* rest_route_ops, part 1: the generated routes() table compiles to the hand-written route_spec *)
Lemma routes_compile : compile_rest rest_routes = route_spec.
Proof. vm_compute. reflexivity. Qed.

Lemma chain_is : rest_handler_chain = ["basicAuthHandler"; "cors.New.Handler"; "router"]
  /\ rest_server_handler = ["handlers.LoggingHandler"; "handler"]
  /\ rest_strict_slash = true /\ rest_not_found = "notFoundHandler"
  /\ rest_registration = ["Methods"; "Path"; "Name"; "Handler"].
Proof. repeat split; reflexivity. Qed.
