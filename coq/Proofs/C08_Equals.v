(* C08 — lemmas about Pin.Equals / PinOptions.Equals: Model/C08_Equals.v *)
From V Require Import Base.Common Base.C08_Str Model.C08_Codec Model.C08_Equals Proofs.C08_Str Proofs.C08_Codec.
From Coq Require Import Permutation.
Open Scope string_scope.
Open Scope list_scope.
Open Scope Z_scope.

(* what the callers mean by "the same options": every field except PinUpdate, lists up to order, metadata as maps
   without the empty key *)
Definition opts_same (a b : opts) : Prop :=
  name a = name b /\ mode a = mode b /\ rmin a = rmin b /\ rmax a = rmax b /\ shard_size a = shard_size b /\
  Permutation (user_allocs a) (user_allocs b) /\ expire a = expire b /\
  (forall k, k <> "" -> slookup k (metadata a) = slookup k (metadata b)) /\
  Permutation (origins a) (origins b).

Definition pin_same (p q : pin) : Prop :=
  pcid p = pcid q /\ ptype p = ptype q /\ maxdepth p = maxdepth q /\ reference p = reference q /\
  Permutation (allocs p) (allocs q) /\ opts_same (popts p) (popts q).

(* ---------- sorting is a permutation ---------- *)
Lemma sinsert_perm x l : Permutation (sinsert x l) (x :: l).
Proof.
  induction l as [|y r IH]; cbn; [apply Permutation_refl|]. destruct (String.leb x y); [apply Permutation_refl|].
  eapply Permutation_trans; [apply perm_skip, IH | apply perm_swap].
Qed.

Lemma ssort_perm l : Permutation (ssort l) l.
Proof.
  induction l as [|x r IH]; cbn; [constructor|]. eapply Permutation_trans; [apply sinsert_perm | now apply perm_skip].
Qed.

(* ---------- the joined key determines the list ---------- *)
Definition plain_str (s : string) : Prop := s <> "" /\ has_char comma s = false.

Lemma join_inj l l' : Forall plain_str l -> Forall plain_str l' -> join_with "," l = join_with "," l' -> l = l'.
Proof.
  intros H H' E.
  assert (C : forall m, Forall plain_str m -> forallb (fun s => negb (has_char comma s)) m = true).
  { intros m Hm. apply forallb_forall. intros s I. rewrite Forall_forall in Hm. destruct (Hm s I) as [_ P]. now rewrite P. }
  assert (NE : forall m, Forall plain_str m -> m <> [] -> join_with "," m <> "").
  { intros m Hm Hn. apply join_nonempty; [exact Hn|]. intros s I. rewrite Forall_forall in Hm. now destruct (Hm s I). }
  destruct l as [|a r], l' as [|a' r'].
  - reflexivity.
  - exfalso. apply (NE _ H'); [discriminate | now rewrite <- E].
  - exfalso. apply (NE _ H); [discriminate | now rewrite E].
  - rewrite <- (split_join (a :: r)) by (try discriminate; now apply C).
    rewrite <- (split_join (a' :: r')) by (try discriminate; now apply C). now rewrite E.
Qed.

Lemma plain_tok_str t : plain_tok t = true -> plain_str (tok_str t) /\ t = TOk (tok_str t).
Proof.
  destruct t as [|s|s]; cbn; try discriminate. intros H. apply andb_true_iff in H as [A B].
  apply negb_true_iff in A, B. apply String.eqb_neq in A. repeat split; assumption.
Qed.

Lemma plain_toks l : forallb plain_tok l = true -> Forall plain_str (map tok_str l) /\ l = map TOk (map tok_str l).
Proof.
  induction l as [|t r IH]; cbn; [split; [constructor | reflexivity]|]. intros H. apply andb_true_iff in H as [A B].
  destruct (plain_tok_str t A) as [P E]. destruct (IH B) as [F G]. split; [now constructor|]. now rewrite <- G, <- E.
Qed.

Lemma Forall_perm {A} (P : A -> Prop) l l' : Permutation l l' -> Forall P l -> Forall P l'.
Proof. intros Hp H. rewrite Forall_forall in *. intros x I. apply H. eapply Permutation_in; [apply Permutation_sym, Hp | exact I]. Qed.

Lemma peers_key_perm l l' : forallb plain_tok l = true -> forallb plain_tok l' = true ->
  peers_key l = peers_key l' -> Permutation l l'.
Proof.
  intros H H' E. destruct (plain_toks l H) as [F G]. destruct (plain_toks l' H') as [F' G'].
  unfold peers_key in E. apply join_inj in E.
  - rewrite G, G'. apply Permutation_map.
    eapply Permutation_trans; [apply Permutation_sym, ssort_perm|]. rewrite E. apply ssort_perm.
  - eapply Forall_perm; [apply Permutation_sym, ssort_perm | exact F].
  - eapply Forall_perm; [apply Permutation_sym, ssort_perm | exact F'].
Qed.

(* ---------- association lists with distinct keys ---------- *)
Lemma slookup_in {V} k (v : V) m : slookup k m = Some v -> In (k, v) m.
Proof.
  induction m as [|[k' v'] r IH]; cbn; [discriminate|]. destruct (String.eqb_spec k k') as [->|N].
  - intros E. inversion E. now left.
  - intros E. right. now apply IH.
Qed.

Lemma in_slookup {V} k (v : V) m : NoDup (skeys m) -> In (k, v) m -> slookup k m = Some v.
Proof.
  induction m as [|[k' v'] r IH]; cbn; [contradiction|]. intros Hnd I. inversion Hnd as [|? ? Hni Hnd']; subst.
  destruct I as [E|I].
  - inversion E; subst. now rewrite String.eqb_refl.
  - destruct (String.eqb_spec k k') as [->|N]; [|now apply IH].
    exfalso. apply Hni. change k' with (fst (k', v)). now apply in_map.
Qed.

Definition meta_fwd (ma mb : list (string * string)) : bool :=
  forallb (fun kv => String.eqb (fst kv) "" || match slookup (fst kv) mb with Some v2 => String.eqb (snd kv) v2 | None => false end) ma.
Definition meta_bwd (ma mb : list (string * string)) : bool :=
  forallb (fun kv => String.eqb (fst kv) "" || match slookup (fst kv) ma with Some _ => true | None => false end) mb.

Lemma meta_fwd_spec ma mb : meta_fwd ma mb = true -> forall k v, In (k, v) ma -> k <> "" -> slookup k mb = Some v.
Proof.
  unfold meta_fwd. rewrite forallb_forall. intros H k v I Hk. specialize (H (k, v) I). cbn in H.
  apply String.eqb_neq in Hk. rewrite Hk in H. cbn in H. destruct (slookup k mb) as [v2|]; [|discriminate].
  apply String.eqb_eq in H. now subst.
Qed.

Lemma meta_bwd_spec ma mb : meta_bwd ma mb = true -> forall k v, In (k, v) mb -> k <> "" -> slookup k ma <> None.
Proof.
  unfold meta_bwd. rewrite forallb_forall. intros H k v I Hk. specialize (H (k, v) I). cbn in H.
  apply String.eqb_neq in Hk. rewrite Hk in H. cbn in H. destruct (slookup k ma); [discriminate | discriminate].
Qed.

Lemma meta_maps_equal ma mb : NoDup (skeys ma) -> meta_fwd ma mb = true -> meta_bwd ma mb = true ->
  forall k, k <> "" -> slookup k ma = slookup k mb.
Proof.
  intros Hnd F B k Hk. destruct (slookup k ma) as [v|] eqn:E.
  - symmetry. apply (meta_fwd_spec ma mb F k v); [now apply slookup_in | exact Hk].
  - destruct (slookup k mb) as [v'|] eqn:E'; [|reflexivity]. exfalso.
    apply (meta_bwd_spec ma mb B k v' (slookup_in _ _ _ E') Hk). exact E.
Qed.

Lemma meta_fwd_of_maps ma mb : NoDup (skeys ma) -> (forall k, k <> "" -> slookup k ma = slookup k mb) -> meta_fwd ma mb = true.
Proof.
  intros Hnd H. unfold meta_fwd. apply forallb_forall. intros [k v] I. cbn.
  destruct (String.eqb_spec k "") as [|Hk]; [reflexivity|]. cbn.
  rewrite <- (H k Hk), (in_slookup k v ma Hnd I). apply String.eqb_refl.
Qed.

Lemma meta_bwd_of_maps ma mb : NoDup (skeys mb) -> (forall k, k <> "" -> slookup k ma = slookup k mb) -> meta_bwd ma mb = true.
Proof.
  intros Hnd H. unfold meta_bwd. apply forallb_forall. intros [k v] I. cbn.
  destruct (String.eqb_spec k "") as [|Hk]; [reflexivity|]. cbn.
  now rewrite (H k Hk), (in_slookup k v mb Hnd I).
Qed.

(* ---------- origins ---------- *)
Lemma origins_perm oa ob : NoDup oa -> length oa = length ob ->
  forallb (fun o1 => existsb (String.eqb o1) ob) oa = true -> Permutation oa ob.
Proof.
  intros Hnd Hl H. apply NoDup_Permutation_bis; [exact Hnd | lia |].
  intros o I. rewrite forallb_forall in H. specialize (H o I). apply existsb_exists in H as [o' [I' E]].
  apply String.eqb_eq in E. now subst.
Qed.

Lemma origins_of_perm oa ob : Permutation oa ob -> forallb (fun o1 => existsb (String.eqb o1) ob) oa = true.
Proof.
  intros Hp. apply forallb_forall. intros o I. apply existsb_exists. exists o. split; [|apply String.eqb_refl].
  eapply Permutation_in; eassumption.
Qed.

Lemma time_equal_eq a b : time_equal a b = true -> a = b.
Proof.
  destruct a as [[s n]|], b as [[s' n']|]; cbn; try discriminate; [|reflexivity].
  intros H. apply andb_true_iff in H as [A B]. apply Z.eqb_eq in A. apply N.eqb_eq in B. now subst.
Qed.

Lemma time_equal_refl a : time_equal a a = true.
Proof. destruct a as [[s n]|]; cbn; [|reflexivity]. now rewrite Z.eqb_refl, N.eqb_refl. Qed.

(* ---------- PinOptions.Equals detects every compared field ---------- *)
Lemma wf_eq_parts o : wf_eq_opts o = true ->
  forallb plain_tok (user_allocs o) = true /\ NoDup (skeys (metadata o)) /\ NoDup (origins o).
Proof.
  unfold wf_eq_opts. intros H. apply andb_true_iff in H as [H C]. apply andb_true_iff in H as [A B].
  repeat split; [exact A | now apply snodup_NoDup | now apply snodup_NoDup].
Qed.

Lemma opts_equal_parts a b : opts_equal a b = true ->
  name a = name b /\ mode a = mode b /\ rmax a = rmax b /\ rmin a = rmin b /\ shard_size a = shard_size b /\
  length (user_allocs a) = length (user_allocs b) /\ peers_key (user_allocs a) = peers_key (user_allocs b) /\
  time_equal (expire a) (expire b) = true /\ meta_fwd (metadata a) (metadata b) = true /\ meta_bwd (metadata a) (metadata b) = true /\
  length (origins a) = length (origins b) /\ forallb (fun o1 => existsb (String.eqb o1) (origins b)) (origins a) = true.
Proof.
  unfold opts_equal. intros H.
  repeat match goal with H : _ && _ = true |- _ => apply andb_true_iff in H; destruct H end.
  repeat split; try assumption;
    try (now apply String.eqb_eq); try (now apply Z.eqb_eq); try (now apply N.eqb_eq); try (now apply Nat.eqb_eq).
Qed.

Lemma opts_equal_detects_l a b : wf_eq_opts a = true -> wf_eq_opts b = true -> opts_equal a b = true -> opts_same a b.
Proof.
  intros Wa Wb E. destruct (wf_eq_parts a Wa) as (Ua & Ma & Oa). destruct (wf_eq_parts b Wb) as (Ub & Mb & Ob).
  destruct (opts_equal_parts a b E) as (E1 & E2 & E3 & E4 & E5 & E6 & E7 & E8 & E9 & E10 & E11 & E12).
  unfold opts_same. repeat split; try assumption; try congruence.
  all: first [ now apply peers_key_perm | now apply time_equal_eq | now apply meta_maps_equal | now apply origins_perm ].
Qed.

(* ---------- and it is an equivalence on well-formed options ---------- *)
Lemma opts_equal_refl_l a : wf_eq_opts a = true -> opts_equal a a = true.
Proof.
  intros Wa. destruct (wf_eq_parts a Wa) as (Ua & Ma & Oa). unfold opts_equal.
  rewrite !String.eqb_refl, !Z.eqb_refl, N.eqb_refl, !Nat.eqb_refl, time_equal_refl. cbn [andb].
  fold (meta_fwd (metadata a) (metadata a)). fold (meta_bwd (metadata a) (metadata a)).
  rewrite meta_fwd_of_maps, meta_bwd_of_maps by auto. cbn [andb].
  rewrite (origins_of_perm _ _ (Permutation_refl (origins a))). reflexivity.
Qed.

Lemma opts_same_equal_weak a b : wf_eq_opts a = true -> wf_eq_opts b = true ->
  name a = name b -> mode a = mode b -> rmax a = rmax b -> rmin a = rmin b -> shard_size a = shard_size b ->
  length (user_allocs a) = length (user_allocs b) -> peers_key (user_allocs a) = peers_key (user_allocs b) ->
  expire a = expire b -> (forall k, k <> "" -> slookup k (metadata a) = slookup k (metadata b)) ->
  Permutation (origins a) (origins b) -> opts_equal a b = true.
Proof.
  intros Wa Wb E1 E2 E3 E4 E5 E6 E7 E8 E9 E10.
  destruct (wf_eq_parts a Wa) as (Ua & Ma & Oa). destruct (wf_eq_parts b Wb) as (Ub & Mb & Ob).
  unfold opts_equal. rewrite E1, E2, E3, E4, E5, E6, E7, E8.
  rewrite !String.eqb_refl, !Z.eqb_refl, N.eqb_refl, !Nat.eqb_refl, time_equal_refl. cbn [andb].
  fold (meta_fwd (metadata a) (metadata b)). fold (meta_bwd (metadata a) (metadata b)).
  rewrite meta_fwd_of_maps, meta_bwd_of_maps by auto. cbn [andb].
  rewrite (Permutation_length E10), Nat.eqb_refl. cbn [andb].
  rewrite (origins_of_perm _ _ E10), (origins_of_perm _ _ (Permutation_sym E10)). reflexivity.
Qed.

Lemma opts_equal_sym_l a b : wf_eq_opts a = true -> wf_eq_opts b = true -> opts_equal a b = true -> opts_equal b a = true.
Proof.
  intros Wa Wb E. destruct (opts_equal_detects_l a b Wa Wb E) as (S1 & S2 & S3 & S4 & S5 & S6 & S7 & S8 & S9).
  destruct (opts_equal_parts a b E) as (_ & _ & _ & _ & _ & E6 & E7 & _).
  apply opts_same_equal_weak; auto; try (symmetry; assumption).
  all: try (intros k Hk; symmetry; now apply S8).
  all: try (now apply Permutation_sym).
Qed.

Lemma opts_equal_trans_l a b c : wf_eq_opts a = true -> wf_eq_opts b = true -> wf_eq_opts c = true ->
  opts_equal a b = true -> opts_equal b c = true -> opts_equal a c = true.
Proof.
  intros Wa Wb Wc E F.
  destruct (opts_equal_detects_l a b Wa Wb E) as (S1 & S2 & S3 & S4 & S5 & S6 & S7 & S8 & S9).
  destruct (opts_equal_detects_l b c Wb Wc F) as (T1 & T2 & T3 & T4 & T5 & T6 & T7 & T8 & T9).
  destruct (opts_equal_parts a b E) as (_ & _ & _ & _ & _ & E6 & E7 & _).
  destruct (opts_equal_parts b c F) as (_ & _ & _ & _ & _ & F6 & F7 & _).
  apply opts_same_equal_weak; auto; try congruence.
  all: try (intros k Hk; rewrite (S8 k Hk); now apply T8).
  all: try (eapply Permutation_trans; eassumption).
Qed.

(* ---------- Pin.Equals ---------- *)
Lemma ref_equal_eq a b : ref_equal a b = true -> a = b.
Proof.
  destruct a as [[s|]|], b as [[t|]|]; cbn; try discriminate; try reflexivity.
  intros H. apply String.eqb_eq in H. now subst.
Qed.

Lemma pin_equals_detects_l p q : wf_eq_pin p = true -> wf_eq_pin q = true -> pin_equals false p q = true -> pin_same p q.
Proof.
  unfold wf_eq_pin, pin_equals. intros Wp Wq E.
  apply andb_true_iff in Wp as [Ap Op]. apply andb_true_iff in Wq as [Aq Oq].
  repeat match goal with H : _ && _ = true |- _ => apply andb_true_iff in H; destruct H end.
  assert (OS : opts_same (popts p) (popts q)) by now apply opts_equal_detects_l.
  unfold pin_same. refine (conj _ (conj _ (conj _ (conj _ (conj _ OS))))).
  - destruct (pcid p), (pcid q); try discriminate; [|reflexivity].
    match goal with H : String.eqb _ _ = true |- _ => apply String.eqb_eq in H; now subst end.
  - now apply N.eqb_eq.
  - now apply Z.eqb_eq.
  - now apply ref_equal_eq.
  - apply peers_key_perm; try assumption. now apply String.eqb_eq.
Qed.

Lemma pin_equals_same_pointer_l p : pin_equals true p p = false.
Proof. reflexivity. Qed.

Lemma ref_equal_refl a : ref_equal a a = true.
Proof. destruct a as [[s|]|]; cbn; try reflexivity. apply String.eqb_refl. Qed.

Definition cid_equal (a b : cid) : bool := match a, b with Some s, Some t => String.eqb s t | None, None => true | _, _ => false end.
Lemma cid_equal_eq a b : cid_equal a b = true -> a = b.
Proof. destruct a, b; cbn; try discriminate; try reflexivity. intros H. apply String.eqb_eq in H. now subst. Qed.
Lemma cid_equal_refl a : cid_equal a a = true.
Proof. destruct a; cbn; [apply String.eqb_refl | reflexivity]. Qed.

Lemma pin_equals_unfold p q : pin_equals false p q =
  cid_equal (pcid p) (pcid q) && (ptype p =? ptype q)%N && (maxdepth p =? maxdepth q) && ref_equal (reference p) (reference q)
  && String.eqb (peers_key (allocs p)) (peers_key (allocs q)) && opts_equal (popts p) (popts q).
Proof. reflexivity. Qed.

Lemma pin_equals_parts p q : pin_equals false p q = true ->
  pcid p = pcid q /\ ptype p = ptype q /\ maxdepth p = maxdepth q /\ reference p = reference q /\
  peers_key (allocs p) = peers_key (allocs q) /\ opts_equal (popts p) (popts q) = true.
Proof.
  rewrite pin_equals_unfold. intros H.
  repeat match goal with H : _ && _ = true |- _ => apply andb_true_iff in H; destruct H end.
  repeat split; try assumption.
  - now apply cid_equal_eq. - now apply N.eqb_eq. - now apply Z.eqb_eq. - now apply ref_equal_eq. - now apply String.eqb_eq.
Qed.

Lemma pin_equals_of_parts p q : pcid p = pcid q -> ptype p = ptype q -> maxdepth p = maxdepth q -> reference p = reference q ->
  peers_key (allocs p) = peers_key (allocs q) -> opts_equal (popts p) (popts q) = true -> pin_equals false p q = true.
Proof.
  intros E1 E2 E3 E4 E5 E6. rewrite pin_equals_unfold, E1, E2, E3, E4, E5, E6.
  now rewrite cid_equal_refl, N.eqb_refl, Z.eqb_refl, ref_equal_refl, String.eqb_refl.
Qed.

Lemma wf_eq_pin_opts p : wf_eq_pin p = true -> wf_eq_opts (popts p) = true.
Proof. unfold wf_eq_pin. intros H. now apply andb_true_iff in H as [_ H]. Qed.

Lemma pin_equals_equiv_l :
  (forall p, wf_eq_pin p = true -> pin_equals false p p = true) /\
  (forall p q, wf_eq_pin p = true -> wf_eq_pin q = true -> pin_equals false p q = true -> pin_equals false q p = true) /\
  (forall p q r, wf_eq_pin p = true -> wf_eq_pin q = true -> wf_eq_pin r = true ->
     pin_equals false p q = true -> pin_equals false q r = true -> pin_equals false p r = true).
Proof.
  split; [|split].
  - intros p W. apply pin_equals_of_parts; try reflexivity. now apply opts_equal_refl_l, wf_eq_pin_opts.
  - intros p q Wp Wq E. destruct (pin_equals_parts p q E) as (E1 & E2 & E3 & E4 & E5 & E6).
    apply pin_equals_of_parts; try (symmetry; assumption). apply opts_equal_sym_l; auto using wf_eq_pin_opts.
  - intros p q r Wp Wq Wr E F. destruct (pin_equals_parts p q E) as (E1 & E2 & E3 & E4 & E5 & E6).
    destruct (pin_equals_parts q r F) as (F1 & F2 & F3 & F4 & F5 & F6).
    apply pin_equals_of_parts; try congruence. apply (opts_equal_trans_l _ (popts q)); auto using wf_eq_pin_opts.
Qed.
