(* C06 — tracker views, the monitors of Model/C06_Check.v that speak about quiescence and pending work:
   code 24 (in progress only while a call is in flight for the cid; queued only while some worker is busy): soundness and
   completeness for the model (with the dispatch fact of Proofs/C05_MonitorC.v);
   codes 20 / 21 (both views truthful at quiescence): soundness - what the absence of the code means, in terms of the
   monitor's record of the script (sp6). *)
From V Require Import Base.Common Base.CommonLemmas Model.C05_Tracker Model.C05_Check Model.C06_Check
  Proofs.C05_Tracker Proofs.C06_Status Proofs.C06_MonitorT Proofs.C05_MonitorC.
Open Scope N_scope.

Definition sp6_step (x : sp6) (eo : event * obs) : sp6 := sp6_event x (fst eo) (snd eo).
Definition sp6_after (cf : cfg) (l : list (event * obs)) : sp6 := fold_left sp6_step l (sp6_init cf).

Definition truthful_status_okb (n : N) (x : sp6) (o : obs) : bool :=
  forallb (fun c => in_cls (class_bits (o_st o c)) (expected x o c)) (nrange n).
Definition truthful_listing_okb (n : N) (x : sp6) (o : obs) : bool :=
  forallb (fun c => in_cls (entry_class (o_all o) c) (expected x o c)) (nrange n).
Definition pending_okb (n : N) (o : obs) : bool :=
  forallb (fun c => let b := o_st o c in
     (if N.eqb b 32 || N.eqb b 64 then match inflight_of (o_inflight o) c with Some _ => true | None => false end else true)
     && (if N.eqb b 512 || N.eqb b 1024 then match o_inflight o with [] => false | _ => true end else true)) (nrange n).

Definition codes6_at (n : N) (x : sp6) (e : event) (o : obs) : list N :=
  let x' := sp6_event x e o in
  (if o_quiescent o && negb (truthful_status_okb n x' o) then [20] else [])
  ++ (if o_quiescent o && negb (truthful_listing_okb n x' o) then [21] else [])
  ++ (if views_agree_okb n o then [] else [22])
  ++ (if filter_law_okb o then [] else [23])
  ++ (if pending_okb n o then [] else [24]).

Lemma spec_walk6_cons n x e o r : spec_walk6 n x ((e, o) :: r) = codes6_at n x e o ++ spec_walk6 n (sp6_event x e o) r.
Proof. cbn [spec_walk6]. unfold codes6_at. cbv zeta. now rewrite <- !app_assoc. Qed.

Lemma spec_walk6_at n pre e o post c : forall x,
  In c (codes6_at n (fold_left sp6_step pre x) e o) -> In c (spec_walk6 n x (pre ++ (e, o) :: post)).
Proof. induction pre as [|[e0 o0] pre IH]; intros x H.
  - cbn [app]. rewrite spec_walk6_cons. apply in_or_app. now left.
  - cbn [app]. rewrite spec_walk6_cons. apply in_or_app. right. apply IH. exact H. Qed.

Lemma codes6_in cf pre e o post c :
  In c (codes6_at (ncid_of cf) (sp6_after cf pre) e o) -> In c (spec_codes6 cf (pre ++ (e, o) :: post)).
Proof. intros H. unfold spec_codes6. apply nodup_In. now apply spec_walk6_at. Qed.

Lemma sp6_after_snoc cf pre e o : sp6_after cf (pre ++ [(e, o)]) = sp6_event (sp6_after cf pre) e o.
Proof. unfold sp6_after. now rewrite fold_left_app. Qed.

Lemma in_cls_iff a l : in_cls a l = true <-> In a l.
Proof. unfold in_cls. rewrite existsb_exists. split; [intros [b [Hb E]]; apply cls_eqb_eq in E; now subst | intros H; exists a; split; auto; now apply cls_eqb_eq]. Qed.

(* ---------- soundness ---------- *)
(* what the script lets a cid's status be at quiescence (sp6: shared state per the script, cids whose last finished
   pin / unpin failed, the daemon as observed) *)
Definition expected_spec (x : sp6) (o : obs) (c : N) (k : cls) : Prop :=
  if memN c (s6_failed x) then k = CError \/ (exists p, aget c (s6_pinset x) = Some p /\ pmeta p = true /\ k = CSharded)
  else match aget c (s6_pinset x) with
       | None => k = CUnpinned
       | Some p => if pmeta p then k = CSharded else if premote p then k = CRemote
                   else if optN_eqb (o_dm o c) (Some (mode_code (pdirect p))) then k = CPinned else k = CError
       end.

Lemma expected_sound x o c k : In k (expected x o c) -> expected_spec x o c k.
Proof. unfold expected, expected_spec. destruct (memN c (s6_failed x)).
  - intros [<-|H]; [now left|]. right. destruct (aget c (s6_pinset x)) as [p|]; [|destruct H]. destruct (pmeta p) eqn:Hm; [|destruct H].
    destruct H as [<-|[]]. eauto.
  - destruct (aget c (s6_pinset x)) as [p|]; [|intros [<-|[]]; reflexivity].
    destruct (pmeta p); [intros [<-|[]]; reflexivity|]. destruct (premote p); [intros [<-|[]]; reflexivity|].
    destruct (optN_eqb _ _); intros [<-|[]]; reflexivity. Qed.

(* code 20 / 21 absent: at every quiescent observation the class Status reports for a listed cid, resp. the class of its
   listing entry, is one the script allows *)
Theorem truthful_monitor_sound_l cf pre e o post c : o_quiescent o = true -> In c (nrange (ncid_of cf)) ->
  (~ In 20 (spec_codes6 cf (pre ++ (e, o) :: post)) -> expected_spec (sp6_after cf (pre ++ [(e, o)])) o c (class_bits (o_st o c))) /\
  (~ In 21 (spec_codes6 cf (pre ++ (e, o) :: post)) -> expected_spec (sp6_after cf (pre ++ [(e, o)])) o c (entry_class (o_all o) c)).
Proof. intros Hq Hc. rewrite sp6_after_snoc. split; intros Hno; apply expected_sound; apply in_cls_iff.
  - assert (H : truthful_status_okb (ncid_of cf) (sp6_event (sp6_after cf pre) e o) o = true).
    { destruct (truthful_status_okb _ _ o) eqn:E; auto. exfalso. apply Hno. apply codes6_in. unfold codes6_at. cbv zeta. rewrite Hq, E. now left. }
    unfold truthful_status_okb in H. rewrite forallb_forall in H. now apply H.
  - assert (H : truthful_listing_okb (ncid_of cf) (sp6_event (sp6_after cf pre) e o) o = true).
    { destruct (truthful_listing_okb _ _ o) eqn:E; auto. exfalso. apply Hno. apply codes6_in. unfold codes6_at. cbv zeta. rewrite Hq, E.
      apply in_or_app. right. now left. }
    unfold truthful_listing_okb in H. rewrite forallb_forall in H. now apply H. Qed.

(* code 24 absent: a listed cid shown as pinning / unpinning has a call in flight; one shown as queued is waiting behind
   some call in flight *)
Theorem pending_monitor_sound_l cf pre e o post c : ~ In 24 (spec_codes6 cf (pre ++ (e, o) :: post)) -> In c (nrange (ncid_of cf)) ->
  (o_st o c = 32 \/ o_st o c = 64 -> exists k d, inflight_of (o_inflight o) c = Some (k, d)) /\
  (o_st o c = 512 \/ o_st o c = 1024 -> o_inflight o <> []).
Proof. intros Hno Hc.
  assert (H : pending_okb (ncid_of cf) o = true).
  { destruct (pending_okb _ o) eqn:E; auto. exfalso. apply Hno. apply codes6_in. unfold codes6_at. cbv zeta. rewrite E.
    repeat (apply in_or_app; right). now left. }
  unfold pending_okb in H. rewrite forallb_forall in H. specialize (H c Hc). cbv zeta in H. apply andb_true_iff in H. destruct H as [H1 H2]. split.
  - intros Hb. assert (Eb : N.eqb (o_st o c) 32 || N.eqb (o_st o c) 64 = true) by (destruct Hb as [-> | ->]; reflexivity).
    rewrite Eb in H1. destruct (inflight_of (o_inflight o) c) as [[k d]|]; [eauto|discriminate].
  - intros Hb. assert (Eb : N.eqb (o_st o c) 512 || N.eqb (o_st o c) 1024 = true) by (destruct Hb as [-> | ->]; reflexivity).
    rewrite Eb in H2. destruct (o_inflight o); [discriminate|discriminate]. Qed.

(* ---------- completeness of code 24 ---------- *)
Lemma inflight_of_model s c cl : In cl (calls s) -> ccid cl = c -> inflight_of (map (call_obs s) (calls s)) c <> None.
Proof. intros Hin Hc. unfold inflight_of.
  destruct (find (fun q : N * N * N * N => let '(c', _, _, _) := q in N.eqb c' c) (map (call_obs s) (calls s))) as [[[[c' k] d] t]|] eqn:F; [discriminate|].
  exfalso. pose proof (find_none _ _ F (call_obs s cl) (in_map _ _ _ Hin)) as Hn.
  unfold call_obs in Hn. rewrite Hc in Hn. destruct (ckd cl); [destruct (aget c (table s))|..]; cbn in Hn; now rewrite N.eqb_refl in Hn. Qed.

Lemma model_pending_ok n s r fs : Inv s -> dispatched s -> (0 < npin s)%nat -> pending_okb n (model_obs n s r fs) = true.
Proof. intros I [D1 D2] Hnp. unfold pending_okb. apply forallb_forall. intros c Hc. cbv zeta. rewrite (o_st_model n s r fs c Hc).
  unfold model_obs, o_inflight. unfold status_of. destruct (aget c (table s)) as [o0|] eqn:Ho.
  2:{ destruct (aget c (pinset s)) as [p|]; [|reflexivity]. destruct (pmeta p); [reflexivity|]. destruct (premote p); [reflexivity|].
      destruct (ipfs_has s c (pdirect p)); reflexivity. }
  pose proof (inv_phase _ I _ _ Ho) as P. unfold phase_ok in P. unfold op_status.
  destruct (otyp o0) eqn:T; destruct (oph o0) eqn:Ph; try reflexivity; try contradiction; cbn [st_bits N.eqb Pos.eqb orb andb].
  - (* pin queued *) destruct P as [[_ P]|[X _]]; [|discriminate].
    assert (Hb : (npin s <= busy KPin s)%nat) by (apply D1; exists (oid o0, c); split; auto; now apply current_oid).
    unfold busy in Hb. destruct (calls s); [cbn in Hb; lia|reflexivity].
  - destruct P as (cl & Hin & _ & Hcc). pose proof (inflight_of_model s c cl Hin Hcc) as Hn.
    destruct (inflight_of (map (call_obs s) (calls s)) c); [reflexivity|congruence].
  - destruct P as [[X _]|[_ P]]; [discriminate|].
    assert (Hb : (1 <= busy KUnpin s)%nat) by (apply D2; exists (oid o0, c); split; auto; now apply current_oid).
    unfold busy in Hb. destruct (calls s); [cbn in Hb; lia|reflexivity].
  - destruct P as (cl & Hin & _ & Hcc). pose proof (inflight_of_model s c cl Hin Hcc) as Hn.
    destruct (inflight_of (map (call_obs s) (calls s)) c); [reflexivity|congruence]. Qed.

Lemma mtrace_code24 n fs evs : forall s x, Inv s -> (0 < npin s)%nat -> ~ In 24 (spec_walk6 n x (mtrace n fs s evs)).
Proof. induction evs as [|e r IH]; intros s x I Hnp; [intros []|]. cbn [mtrace]. rewrite spec_walk6_cons.
  set (s' := fst (step s e)). assert (I' : Inv s') by (apply step_inv; exact I).
  assert (Hnp' : (0 < npin s')%nat) by (unfold s'; now rewrite step_npin).
  intros K. apply in_app_or in K. destruct K as [K|K]; [|exact (IH s' _ I' Hnp' K)].
  unfold codes6_at in K. cbv zeta in K. rewrite (model_pending_ok n s' _ fs I' (step_dispatched s e) Hnp') in K.
  repeat (apply in_app_or in K; destruct K as [K|K]);
    repeat match type of K with In _ (if ?b then _ else _) => destruct b end; try destruct K as [K|K]; try discriminate; try contradiction. Qed.

Theorem model_pending_pass_l q np ps i nc fs evs x : (0 < np)%nat -> ~ In 24 (spec_walk6 nc x (mtrace nc fs (init q np ps i) evs)).
Proof. intros Hnp. apply mtrace_code24; [apply init_inv | exact Hnp]. Qed.
