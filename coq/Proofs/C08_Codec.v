(* C08 — lemmas about the stored (protobuf) form: Model/C08_Codec.v *)
From V Require Import Base.Common Base.C08_Str Model.C08_Codec.
Open Scope Z_scope.

(* ---------- integer conversions ---------- *)
Lemma int32_small z : in_int32 z = true -> int32 z = z.
Proof.
  unfold in_int32, int32, wrap. change (2 ^ 32) with 4294967296. change (2 ^ 31) with 2147483648.
  change (4294967296 / 2) with 2147483648. intros H. apply andb_true_iff in H as [A B].
  apply Z.leb_le in A. apply Z.ltb_lt in B. rewrite Z.mod_small; lia.
Qed.

Lemma int32_range z : in_int32 (int32 z) = true.
Proof.
  unfold in_int32, int32, wrap. change (2 ^ 32) with 4294967296. change (2 ^ 31) with 2147483648.
  change (4294967296 / 2) with 2147483648.
  pose proof (Z.mod_pos_bound (z + 2147483648) 4294967296 ltac:(lia)) as B.
  apply andb_true_iff. split; [apply Z.leb_le | apply Z.ltb_lt]; lia.
Qed.

Lemma int32_idem z : int32 (int32 z) = int32 z.
Proof. apply int32_small, int32_range. Qed.

Lemma int64_uint64 z : in_int64 z = true -> int64 (Z.of_N (uint64 z)) = z.
Proof.
  unfold in_int64, int64, uint64, wrap. change (2 ^ 64) with 18446744073709551616.
  change (2 ^ 63) with 9223372036854775808. change (18446744073709551616 / 2) with 9223372036854775808.
  intros H. apply andb_true_iff in H as [A B]. apply Z.leb_le in A. apply Z.ltb_lt in B.
  pose proof (Z.mod_pos_bound z 18446744073709551616 ltac:(lia)) as Bm.
  rewrite Z2N.id by lia.
  destruct (Z_lt_le_dec z 0) as [Hn | Hp].
  - assert (E : z mod 18446744073709551616 = z + 18446744073709551616).
    { symmetry. apply (Z.mod_unique_pos z 18446744073709551616 (-1)); lia. }
    rewrite E.
    assert (E2 : (z + 18446744073709551616 + 9223372036854775808) mod 18446744073709551616 = z + 9223372036854775808).
    { symmetry. apply (Z.mod_unique_pos _ 18446744073709551616 1); lia. }
    rewrite E2. lia.
  - rewrite (Z.mod_small z) by lia. rewrite Z.mod_small; lia.
Qed.

Lemma uint64_pos z : in_int64 z = true -> z <> 0 -> (0 <? uint64 z)%N = true.
Proof.
  unfold in_int64, uint64. change (2 ^ 64) with 18446744073709551616. change (2 ^ 63) with 9223372036854775808.
  intros H Hz. apply andb_true_iff in H as [A B]. apply Z.leb_le in A. apply Z.ltb_lt in B.
  apply N.ltb_lt. pose proof (Z.mod_pos_bound z 18446744073709551616 ltac:(lia)) as Bm.
  assert (z mod 18446744073709551616 <> 0).
  { destruct (Z_lt_le_dec z 0).
    - assert (E : z mod 18446744073709551616 = z + 18446744073709551616)
        by (symmetry; apply (Z.mod_unique_pos z 18446744073709551616 (-1)); lia). lia.
    - rewrite Z.mod_small; lia. }
  lia.
Qed.

Lemma int64_range z : in_int64 (int64 z) = true.
Proof.
  unfold in_int64, int64, wrap. change (2 ^ 64) with 18446744073709551616.
  change (2 ^ 63) with 9223372036854775808. change (18446744073709551616 / 2) with 9223372036854775808.
  pose proof (Z.mod_pos_bound (z + 9223372036854775808) 18446744073709551616 ltac:(lia)) as B.
  apply andb_true_iff. split; [apply Z.leb_le | apply Z.ltb_lt]; lia.
Qed.

(* uint64 of the seconds of a time that came out of int64 (Z.of_N e), e < 2^64, gives e back *)
Lemma uint64_int64 (e : N) : (e < 2 ^ 64)%N -> uint64 (int64 (Z.of_N e)) = e.
Proof.
  unfold int64, uint64, wrap. change (2 ^ 64)%N with 18446744073709551616%N. change (2 ^ 64) with 18446744073709551616.
  change (18446744073709551616 / 2) with 9223372036854775808. intros H.
  assert (Hz : 0 <= Z.of_N e < 18446744073709551616) by lia.
  set (x := Z.of_N e) in *.
  destruct (Z_lt_le_dec x 9223372036854775808) as [Hl | Hh].
  - rewrite (Z.mod_small (x + 9223372036854775808)) by lia.
    replace (x + 9223372036854775808 - 9223372036854775808) with x by lia.
    rewrite Z.mod_small by lia. subst x. apply N2Z.id.
  - assert (E : (x + 9223372036854775808) mod 18446744073709551616 = x - 9223372036854775808)
      by (symmetry; apply (Z.mod_unique_pos _ 18446744073709551616 1); lia).
    rewrite E.
    assert (E2 : (x - 9223372036854775808 - 9223372036854775808) mod 18446744073709551616 = x)
      by (symmetry; apply (Z.mod_unique_pos _ 18446744073709551616 (-1)); lia).
    rewrite E2. subst x. apply N2Z.id.
Qed.

Lemma int64_zero_iff (e : N) : (e < 2 ^ 64)%N -> int64 (Z.of_N e) = 0 -> e = 0%N.
Proof.
  intros H E. rewrite <- (uint64_int64 e H), E. reflexivity.
Qed.

(* ---------- pin type conversion ---------- *)
Lemma convert_loop_log2 fuel : forall t i, (0 < t)%N -> (N.log2 t < N.of_nat fuel)%N ->
  convert_loop fuel t i = i + Z.of_N (N.log2 t).
Proof.
  induction fuel as [|f IH]; intros t i Hpos Hlog; [lia|].
  cbn [convert_loop]. destruct (N.eqb_spec t 1) as [->|H1]; [cbn; lia|].
  destruct (N.eqb_spec t 0) as [->|H0]; [lia|].
  assert (H2 : (2 <= t)%N) by lia.
  assert (Hl : (1 <= N.log2 t)%N) by (apply N.log2_le_pow2; [lia | exact H2]).
  rewrite IH.
  - rewrite N.log2_shiftr. lia.
  - rewrite N.shiftr_div_pow2. change (2 ^ 1)%N with 2%N.
    apply N.div_str_pos. lia.
  - rewrite N.log2_shiftr. lia.
Qed.

Lemma convert_pin_type_spec t : (t < 2 ^ 64)%N ->
  convert_pin_type t = if (t =? 0)%N then 0 else Z.of_N (N.log2 t).
Proof.
  intros H. unfold convert_pin_type. destruct (N.eqb_spec t 0) as [->|H0]; [reflexivity|].
  rewrite convert_loop_log2; [lia | lia |].
  assert (N.log2 t < 64)%N by (apply N.log2_lt_pow2; lia). lia.
Qed.

Lemma single_bit_pow t : single_bit t = true -> exists k, (k < 64)%N /\ t = (2 ^ k)%N.
Proof.
  unfold single_bit. rewrite existsb_exists. intros [k [Hin E]]. apply N.eqb_eq in E.
  apply in_seq in Hin. exists (N.of_nat k). split; [lia | exact E].
Qed.

Lemma shl1_convert_pow k : (k < 64)%N -> shl1 (convert_pin_type (2 ^ k)) = (2 ^ k)%N.
Proof.
  intros H. rewrite convert_pin_type_spec by (apply N.pow_lt_mono_r; lia).
  assert (Hz : (2 ^ k =? 0)%N = false) by (apply N.eqb_neq, N.pow_nonzero; lia).
  rewrite Hz, N.log2_pow2 by lia. unfold shl1.
  assert (A : (0 <=? Z.of_N k) = true) by (apply Z.leb_le; lia).
  assert (B : (Z.of_N k <? 64) = true) by (apply Z.ltb_lt; lia).
  rewrite A, B. cbn [andb]. now rewrite N2Z.id.
Qed.

Lemma convert_range t : (t < 2 ^ 64)%N -> 0 <= convert_pin_type t < 64.
Proof.
  intros H. rewrite convert_pin_type_spec by exact H. destruct (N.eqb_spec t 0); [lia|].
  assert (N.log2 t < 64)%N by (apply N.log2_lt_pow2; lia). lia.
Qed.

Lemma convert_shl1 v : 0 <= v < 64 -> convert_pin_type (shl1 v) = v.
Proof.
  intros H. unfold shl1.
  assert (A : (0 <=? v) = true) by (apply Z.leb_le; lia).
  assert (B : (v <? 64) = true) by (apply Z.ltb_lt; lia).
  rewrite A, B. cbn [andb].
  assert (Hk : (Z.to_N v < 64)%N) by lia.
  rewrite convert_pin_type_spec by (apply N.pow_lt_mono_r; lia).
  assert (Hz : (2 ^ Z.to_N v =? 0)%N = false) by (apply N.eqb_neq, N.pow_nonzero; lia).
  rewrite Hz, N.log2_pow2 by lia. lia.
Qed.

Lemma shl1_out v : ~ (0 <= v < 64) -> shl1 v = 0%N.
Proof.
  intros H. unfold shl1. destruct (Z.leb_spec 0 v); destruct (Z.ltb_spec v 64); cbn [andb]; try reflexivity. lia.
Qed.

(* ---------- small facts ---------- *)
Lemma map_tok_str_ok l : map tok_str (map TOk l) = l.
Proof. induction l as [|x xs IH]; cbn; [reflexivity | now rewrite IH]. Qed.

Lemma forallb_tok_ok_map l : forallb tok_ok (map TOk l) = true.
Proof. induction l; cbn; auto. Qed.

Lemma map_TOk_tok_str l : forallb tok_ok l = true -> map TOk (map tok_str l) = l.
Proof.
  induction l as [|x xs IH]; cbn; [reflexivity|]. intros H. apply andb_true_iff in H as [A B].
  rewrite IH by exact B. destruct x; cbn in A; try discriminate. reflexivity.
Qed.

Lemma cast_cid_bytes c : cast (cid_bytes c) = c.
Proof. destruct c; reflexivity. Qed.

Lemma cid_bytes_cast t : cid_bytes (cast t) = match t with TOk s => TOk s | _ => TEmpty end.
Proof. destruct t; reflexivity. Qed.

(* the expiry field through one encode/decode cycle, decoding into a fresh value *)
Definition expire_cycle (t : time) : time :=
  let e := if is_zero t || equal_unix_zero t then 0%N else uint64 (time_unix t) in
  if (0 <? e)%N then mk_time (int64 (Z.of_N e)) 0 else None.

Lemma expire_cycle_lossy t : wf_time t = true -> expire_cycle t = lossy_time t.
Proof.
  unfold expire_cycle, lossy_time, wf_time. destruct t as [[s ns]|]; [|reflexivity].
  intros H. apply andb_true_iff in H as [H _]. apply andb_true_iff in H as [Hs _].
  cbn [is_zero equal_unix_zero time_unix orb].
  destruct (Z.eqb_spec s 0) as [->|Hn].
  - destruct (N.eqb_spec ns 0); cbn [andb]; reflexivity.
  - cbn [andb]. rewrite uint64_pos by assumption. now rewrite int64_uint64.
Qed.

Lemma uint64_lt z : (uint64 z < 2 ^ 64)%N.
Proof.
  unfold uint64. change (2 ^ 64)%N with 18446744073709551616%N. change (2 ^ 64) with 18446744073709551616.
  pose proof (Z.mod_pos_bound z 18446744073709551616 ltac:(lia)). lia.
Qed.

(* decoded expiry (fresh value) of any wire value e < 2^64 is a fixed point of the cycle *)
Definition expire_dec (e : N) : time := if (0 <? e)%N then mk_time (int64 (Z.of_N e)) 0 else None.

Lemma expire_dec_stable e : (e < 2 ^ 64)%N -> expire_cycle (expire_dec e) = expire_dec e.
Proof.
  intros H. unfold expire_dec. destruct (N.ltb_spec 0 e) as [Hp|Hz]; [|reflexivity].
  unfold mk_time. destruct ((int64 (Z.of_N e) =? zero_sec) && (0 =? 0)%N) eqn:Ez; [reflexivity|].
  unfold expire_cycle. cbn [is_zero equal_unix_zero time_unix orb].
  destruct (Z.eqb_spec (int64 (Z.of_N e)) 0) as [E0|N0].
  - apply int64_zero_iff in E0; [lia | exact H].
  - cbn [andb]. rewrite uint64_int64 by exact H.
    assert (Hlt : (0 <? e)%N = true) by (apply N.ltb_lt; exact Hp). rewrite Hlt.
    unfold mk_time. now rewrite Ez.
Qed.

Lemma expire_cycle_idem t : expire_cycle (expire_cycle t) = expire_cycle t.
Proof.
  unfold expire_cycle at 2 3.
  set (e := if is_zero t || equal_unix_zero t then 0%N else uint64 (time_unix t)).
  assert (He : (e < 2 ^ 64)%N) by (subst e; destruct (is_zero t || equal_unix_zero t); [reflexivity | apply uint64_lt]).
  apply (expire_dec_stable e He).
Qed.

(* ---------- the round trip ---------- *)
Lemma pb_norm_eq p : strings_utf8 (popts p) = true -> forallb tok_ok (allocs p) = true ->
  pb_norm p =
  Ok (mk_pin (mk_opts (int32 (rmin (popts p))) (int32 (rmax (popts p))) (name (popts p)) (depth_to_mode (int32 (maxdepth p)))
                (shard_size (popts p)) [] (expire_cycle (expire (popts p))) (metadata (popts p)) (pin_update (popts p))
                (origins (popts p)))
        (pcid p) (shl1 (convert_pin_type (ptype p))) (allocs p) (int32 (maxdepth p))
        (match reference p with Some (Some s) => Some (Some s) | _ => None end)).
Proof.
  intros Hu Ha. unfold pb_norm, pin_to_pb. rewrite Hu. unfold pb_to_pin, pb_unmarshal.
  cbn [get_opts m_opts m_allocs o_origins m_depth o_rmin o_rmax o_name o_shard o_meta o_update o_expire m_cid m_type m_ref].
  rewrite Ha, forallb_tok_ok_map. cbn [negb]. rewrite map_tok_str_ok, !cast_cid_bytes.
  cbn [zero_pin popts zero_opts user_allocs expire pin_update].
  f_equal. f_equal.
  - f_equal. destruct (pin_update (popts p)); reflexivity.
  - destruct (reference p) as [[s|]|]; reflexivity.
Qed.

Lemma wf_pin_parts p : wf_pin p = true ->
  in_int32 (rmin (popts p)) = true /\ in_int32 (rmax (popts p)) = true /\ (shard_size (popts p) < 2 ^ 64)%N /\
  strings_utf8 (popts p) = true /\ snodup (skeys (metadata (popts p))) = true /\ wf_time (expire (popts p)) = true /\
  in_int32 (maxdepth p) = true /\ single_bit (ptype p) = true /\ forallb tok_ok (allocs p) = true /\
  reference p <> Some None.
Proof.
  unfold wf_pin, wf_opts. intros H.
  repeat match goal with H : _ && _ = true |- _ => apply andb_true_iff in H; destruct H end.
  repeat split; try assumption.
  - now apply N.ltb_lt.
  - intros E. rewrite E in *. discriminate.
Qed.

Lemma pb_roundtrip_l p : wf_pin p = true -> pb_norm p = Ok (lossy_pb p).
Proof.
  intros H. destruct (wf_pin_parts p H) as (A & B & C & D & E & F & G & I & J & K).
  rewrite pb_norm_eq by assumption.
  rewrite !int32_small by assumption. rewrite expire_cycle_lossy by assumption.
  destruct (single_bit_pow _ I) as [k [Hk Ek]]. rewrite Ek, shl1_convert_pow by exact Hk. rewrite <- Ek.
  unfold lossy_pb. f_equal. destruct (reference p) as [[s|]|] eqn:Er; try reflexivity. exfalso; apply K; reflexivity.
Qed.

Lemma lossy_mode_l p : mode_consistent p = true -> mode (popts (lossy_pb p)) = mode (popts p).
Proof. unfold mode_consistent. intros H. apply Z.eqb_eq in H. cbn. now rewrite H. Qed.

Lemma ds_roundtrip_l p : wf_pin p = true -> ds_roundtrip p = Ok (lossy_pb p).
Proof. intros H. unfold ds_roundtrip. rewrite pb_roundtrip_l by exact H. reflexivity. Qed.

Lemma ds_roundtrip_key_l p q : ds_roundtrip p = Ok q -> pcid q = pcid p.
Proof. unfold ds_roundtrip. destruct (pb_norm p); intros E; inversion E; reflexivity. Qed.

(* ---------- normal forms ---------- *)
Lemma strings_utf8_norm p q : pb_norm p = Ok q -> strings_utf8 (popts q) = true /\ forallb tok_ok (allocs q) = true.
Proof.
  unfold pb_norm, pin_to_pb. destruct (strings_utf8 (popts p)) eqn:Hu; [|discriminate].
  unfold pb_to_pin, pb_unmarshal.
  cbn [get_opts m_opts m_allocs o_origins m_depth o_rmin o_rmax o_name o_shard o_meta o_update o_expire m_cid m_type m_ref].
  destruct (forallb tok_ok (allocs p)) eqn:Ha; cbn [negb]; [|discriminate].
  rewrite forallb_tok_ok_map. cbn [negb]. intros E. inversion E. cbn. split; [exact Hu | exact Ha].
Qed.

Lemma pb_norm_idempotent_l p q : (ptype p < 2 ^ 64)%N -> pb_norm p = Ok q -> pb_norm q = Ok q.
Proof.
  intros Ht E. destruct (strings_utf8_norm p q E) as [Hu Ha].
  rewrite pb_norm_eq by assumption.
  assert (Hp : strings_utf8 (popts p) = true /\ forallb tok_ok (allocs p) = true).
  { revert E. unfold pb_norm, pin_to_pb. destruct (strings_utf8 (popts p)); [|discriminate].
    unfold pb_to_pin, pb_unmarshal. cbn [m_allocs]. destruct (forallb tok_ok (allocs p)); [auto | discriminate]. }
  destruct Hp as [Hup Hap]. rewrite pb_norm_eq in E by assumption. inversion E; subst q; clear E.
  cbn [popts rmin rmax name shard_size expire metadata pin_update origins pcid ptype allocs maxdepth reference].
  rewrite !int32_idem, expire_cycle_idem.
  pose proof (convert_range _ Ht) as Hr. rewrite convert_shl1 by exact Hr.
  f_equal. destruct (reference p) as [[s|]|]; reflexivity.
Qed.

(* ---------- decoding arbitrary messages ---------- *)

Lemma shl1_lt v : (shl1 v < 2 ^ 64)%N.
Proof.
  unfold shl1. destruct (Z.leb_spec 0 v); destruct (Z.ltb_spec v 64); cbn [andb]; try reflexivity.
  apply N.pow_lt_mono_r; lia.
Qed.

Lemma shl1_cycle v : shl1 (convert_pin_type (shl1 v)) = if (shl1 v =? 0)%N then 1%N else shl1 v.
Proof.
  destruct (Z_le_dec 0 v) as [H0|H0]; [destruct (Z_lt_dec v 64) as [H1|H1]|].
  - rewrite convert_shl1 by lia.
    assert (E : (shl1 v =? 0)%N = false).
    { unfold shl1. assert (A : (0 <=? v) = true) by (apply Z.leb_le; lia).
      assert (B : (v <? 64) = true) by (apply Z.ltb_lt; lia). rewrite A, B. cbn [andb].
      apply N.eqb_neq, N.pow_nonzero. lia. }
    now rewrite E.
  - rewrite (shl1_out v) by lia. reflexivity.
  - rewrite (shl1_out v) by lia. reflexivity.
Qed.

Lemma pb_decode_total_l m : pb_wf m = true ->
  pb_to_pin m = Err \/
  exists q, pb_to_pin m = Ok q /\ exists m', pin_to_pb q = Ok m' /\ pb_to_pin m' = Ok (retype q).
Proof.
  intros Hwf. unfold pb_to_pin at 1 2, pb_unmarshal.
  destruct (forallb tok_ok (m_allocs m)) eqn:Ha; cbn [negb]; [|now left].
  destruct (forallb tok_ok (o_origins (get_opts m))) eqn:Ho; cbn [negb]; [|now left].
  right. eexists. split; [reflexivity|].
  assert (Hget : in_int32 (o_rmin (get_opts m)) = true /\ in_int32 (o_rmax (get_opts m)) = true /\
                 (o_expire (get_opts m) < 2 ^ 64)%N /\
                 utf8_valid (o_name (get_opts m)) && forallb (fun kv => utf8_valid (fst kv) && utf8_valid (snd kv)) (o_meta (get_opts m)) = true
                 /\ in_int32 (m_depth m) = true).
  { unfold pb_wf in Hwf. unfold get_opts. destruct (m_opts m) as [o|].
    - unfold pbopts_wf in Hwf.
      repeat match goal with H : _ && _ = true |- _ => apply andb_true_iff in H; destruct H end.
      repeat split; try assumption. now apply N.ltb_lt. apply andb_true_iff; split; assumption.
    - repeat match goal with H : _ && _ = true |- _ => apply andb_true_iff in H; destruct H end.
      repeat split; try assumption; reflexivity. }
  destruct Hget as (A & B & C & D & E).
  set (q := mk_pin _ _ _ _ _ _).
  assert (Hq : pb_norm q = Ok (retype q)).
  { rewrite pb_norm_eq; [| exact D | exact Ha]. subst q. unfold retype.
    cbn [popts rmin rmax name shard_size expire metadata pin_update origins pcid ptype allocs maxdepth reference
         zero_pin zero_opts user_allocs].
    rewrite !int32_small by assumption. rewrite shl1_cycle.
    change (if (0 <? o_expire (get_opts m))%N then mk_time (int64 (Z.of_N (o_expire (get_opts m)))) 0 else None)
      with (expire_dec (o_expire (get_opts m))).
    rewrite expire_dec_stable by exact C.
    destruct (cast (o_update (get_opts m))); destruct (cast (m_ref m)); reflexivity. }
  unfold pb_norm in Hq. destruct (pin_to_pb q) as [m'|]; [|discriminate].
  exists m'. split; [reflexivity | exact Hq].
Qed.

(* the value obtained from a message whose type enum is in range is exactly stable *)
Lemma retype_id q : (ptype q =? 0)%N = false -> retype q = q.
Proof. intros H. unfold retype. rewrite H. destruct q; reflexivity. Qed.

(* ---------- meaning of the expiry is preserved away from the two instants the code treats as "never" ---------- *)
Lemma expired_at_lossy s ns now : s <> 0 -> s <> zero_sec ->
  expired_at (lossy_time (Some (s, ns))) now = expired_at (Some (s, 0%N)) now.
Proof.
  intros H0 Hz. unfold lossy_time. destruct (Z.eqb_spec s 0); [contradiction|].
  unfold mk_time. destruct (Z.eqb_spec s zero_sec); [contradiction|]. reflexivity.
Qed.

Lemma pb_decode_stable_l m q : pb_wf m = true -> 0 <= m_type m < 64 -> pb_to_pin m = Ok q ->
  exists m', pin_to_pb q = Ok m' /\ pb_to_pin m' = Ok q.
Proof.
  intros Hwf Ht E. destruct (pb_decode_total_l m Hwf) as [F | [q' [E' [m' [P R]]]]]; [congruence|].
  rewrite E in E'. inversion E'; subst q'. exists m'. split; [exact P|].
  rewrite R. f_equal. apply retype_id.
  revert E. unfold pb_to_pin, pb_unmarshal.
  destruct (negb (forallb tok_ok (m_allocs m))); [discriminate|].
  destruct (negb (forallb tok_ok (o_origins (get_opts m)))); [discriminate|].
  intros E. inversion E. cbn [ptype]. apply N.eqb_neq.
  unfold shl1. assert (A : (0 <=? m_type m) = true) by (apply Z.leb_le; lia).
  assert (B : (m_type m <? 64) = true) by (apply Z.ltb_lt; lia). rewrite A, B. cbn [andb].
  apply N.pow_nonzero. lia.
Qed.
