(* C18 — from a ranked wait-for graph (the boolean test the generated table is put to) to the machine with
   waits: threads whose acquisitions and waits are instances of edges of a graph that passes the rank test
   never reach a state in which every unfinished thread is blocked. *)
From V Require Import Model.C18_Table Model.C18_Conc Model.C18_Wait Model.C18_Glue Proofs.C18_Wait.
From Coq Require Import Lia.

Lemma okb_edge es a b : lock_order_okb es = true -> has_edge es a b -> rank_of es a < rank_of es b.
Proof.
  unfold lock_order_okb. rewrite forallb_forall. intros H [w Hin].
  specialize (H _ Hin). unfold edge_okb in H. simpl in H. now apply PeanoNat.Nat.ltb_lt.
Qed.

Lemma gconforms_ordered es gs prog :
  lock_order_okb es = true -> gconforms es gs prog -> gordered (table_rank es) gs prog.
Proof.
  intros Hok [CL CW]. split.
  - intros p l r Hp. destruct (CL p l r Hp) as [H1 H2]. split.
    + intros h Hin. unfold table_rank. simpl. apply okb_edge; auto.
    + intros g Hg. unfold table_rank. simpl. apply okb_edge; auto.
  - intros p g r Hp. destruct (CW p g r Hp) as [H1 H2]. split.
    + intros h Hin. unfold table_rank. simpl. apply okb_edge; auto.
    + intros g' Hg. unfold table_rank. simpl. apply okb_edge; auto.
Qed.

Lemma graph_no_wait_deadlock es (grp : nat -> list group) (progs : nat -> list gev) n s0 s :
  lock_order_okb es = true ->
  ginit_ok s0 -> gprog_inv progs s0 ->
  (forall i, gconforms es (grp i) (progs i)) -> (forall i, gbalanced (progs i)) ->
  (forall i, n <= i -> progs i = []) ->
  greach grp s0 s -> ~ gdeadlocked grp n s.
Proof.
  intros Hok I P C B Idle R.
  apply (acyclic_wait_for_no_deadlock_l (table_rank es) grp progs n s0 s); auto.
  intros i. apply gconforms_ordered; auto.
Qed.

(* a graph with a cycle of two edges cannot be ranked: what the pinned Shutdown / watchPeers pair amounts to *)
Lemma two_cycle_not_rankable (a b wa wb : string) (es : list edge) :
  In (a, b, wa) es -> In (b, a, wb) es ->
  ~ exists rank : string -> nat, forall x y w, In (x, y, w) es -> rank x < rank y.
Proof. intros H1 H2 [rank Hr]. pose proof (Hr _ _ _ H1). pose proof (Hr _ _ _ H2). lia. Qed.

(* the pinned source: the rank test fails, no rank exists, and the machine does deadlock *)
Lemma wait_graph_as_pinned_refuted_l :
  wait_graph_okb [] pinned_waits pinned_covers = false /\
  (~ exists rank : string -> nat, forall a b w, In (a, b, w) (wait_edges [] pinned_waits pinned_covers) -> rank a < rank b) /\
  (forall o, exists s, greach (sd_grp o) (start_of (sd_progs_pinned o)) s /\ gdeadlocked (sd_grp o) 2 s).
Proof.
  split; [vm_compute; reflexivity|]. split.
  - eapply two_cycle_not_rankable; vm_compute; [left; reflexivity|right; left; reflexivity].
  - exact sd_pinned_deadlocks.
Qed.
