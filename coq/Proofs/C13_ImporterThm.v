(* C13 — the statements of Props/C13.v about the importer, assembled from Proofs/C13_Importer.v, C13_ShapeMonitor.v, C13_ImporterLink.v *)
From V Require Import Base.Common Model.C13_Adder Model.C13_Check Model.C13_Spec Model.C13_Importer Model.C13_ImporterSpec Model.C13_ShapeCheck
                      Proofs.C13_Importer Proofs.C13_ShapeMonitor Proofs.C13_ImporterLink.
Open Scope N_scope.

Lemma chunk_concat_l k bs : 0 < k -> concat (chunk k bs) = bs.
Proof. intros H. apply (chunk_spec_l k bs H). Qed.

Lemma chunk_sizes_l k bs : 0 < k ->
  Forall (fun c => c <> [] /\ blen c <= k) (chunk k bs) /\ all_but_last (fun c => blen c = k) (chunk k bs) /\ (chunk k bs = [] <-> bs = []).
Proof. intros H. apply (chunk_spec_l k bs H). Qed.

Lemma importer_sized trickle ml k bs : min_links trickle <= ml -> all_nodes sized (layout_tree (importer trickle ml k bs)).
Proof. intros Hml. unfold importer. destruct trickle; cbn [min_links] in Hml; apply sizes_okb_iff.
  - apply (trickle_passes ml (chunk k bs) Hml).
  - apply (balanced_passes ml (chunk k bs) Hml). Qed.

Lemma importer_total_l trickle ml k bs : 0 < k -> min_links trickle <= ml ->
  let r := importer trickle ml k bs in
  r = inr (layout_tree r, blen bs, postorder (layout_tree r)) /\ read_back (layout_tree r) = bs.
Proof. intros Hk Hml. cbv zeta. destruct (importer_good trickle ml k bs Hk Hml) as (t & E & Hr). rewrite E. cbn [layout_tree].
  rewrite tsize_read_back, Hr. auto. Qed.

Lemma importer_emission_l trickle ml k bs : 0 < k -> min_links trickle <= ml ->
  let r := importer trickle ml k bs in
  layout_emission r = postorder (layout_tree r) /\ children_first (layout_emission r) /\
  last (layout_emission r) (Leaf []) = layout_tree r /\
  (forall n c, In n (layout_emission r) -> In c (kids n) -> In c (layout_emission r)).
Proof. intros Hk Hml. cbv zeta. destruct (importer_total_l trickle ml k bs Hk Hml) as (E & _). cbv zeta in E.
  set (r := importer trickle ml k bs) in *. assert (Eem : layout_emission r = postorder (layout_tree r)) by (rewrite E; reflexivity).
  rewrite Eem. split; [reflexivity|]. split; [|split].
  - intros pre n post. apply postorder_children_before.
  - apply last_postorder.
  - intros n c. apply postorder_kids_closed. Qed.

Lemma importer_sizes_l trickle ml k bs : 0 < k -> min_links trickle <= ml ->
  let r := importer trickle ml k bs in
  all_nodes sized (layout_tree r) /\ layout_size r = blen bs /\ tsize (layout_tree r) = blen bs.
Proof. intros Hk Hml. cbv zeta. split; [apply importer_sized; exact Hml|].
  destruct (importer_total_l trickle ml k bs Hk Hml) as (E & Hr). cbv zeta in E. split; [rewrite E; reflexivity|].
  rewrite tsize_read_back, Hr. reflexivity. Qed.

Lemma importer_seek_l trickle ml k bs off n : 0 < k -> min_links trickle <= ml ->
  read_range (layout_tree (importer trickle ml k bs)) off n = firstn (N.to_nat n) (skipn (N.to_nat off) bs).
Proof. intros Hk Hml. rewrite read_range_correct by (apply importer_sized; exact Hml).
  destruct (importer_total_l trickle ml k bs Hk Hml) as (_ & Hr). rewrite Hr. reflexivity. Qed.

Lemma balanced_shape_l ml chunks : 2 <= ml ->
  let t := layout_tree (balanced_layout ml chunks) in
  (chunks <> [] -> leaves t = chunks) /\ (chunks = [] -> t = Leaf []) /\ all_nodes (node_ok ml) t /\ uniform (height t) t.
Proof. intros Hml. cbv zeta. destruct (balanced_layout_spec ml chunks Hml) as (t & d & E & Hl & _ & [Ha Hu]).
  assert (Ee : chunks = [] -> layout_tree (balanced_layout ml chunks) = Leaf []) by (intros ->; reflexivity).
  rewrite E in *. cbn [layout_tree] in *. rewrite (uniform_height ml d t Hu Ha). auto. Qed.

Lemma trickle_shape_l ml chunks : 1 <= ml ->
  let t := layout_tree (trickle_layout ml chunks) in
  leaves t = chunks /\ (exists ch, t = Node ch /\ (chunks <> [] -> ch <> [])) /\ (forall n, In n (below t) -> tnode_ok n).
Proof. intros Hml. cbv zeta. destruct (trickle_layout_spec ml chunks Hml) as (ch & E & Hl & _ & Hlk & Hne). rewrite E. cbn [layout_tree].
  split; [exact Hl|]. split; [exists ch; auto|]. intros n Hn. cbn [below] in Hn. apply in_posts in Hn as (l & Hin & Hn).
  rewrite Forall_forall in Hlk. apply (Hlk l Hin). exact Hn. Qed.

Lemma balanced_one_link_diverges_thm fuel d root fsz s : d_rest s <> [] -> layout_loop 1 fuel (S d) root fsz s = inl IFuel.
Proof. intros H. apply balanced_one_link_diverges_l. apply done_false_iff. exact H. Qed.

Lemma importer_stream_contract_l cid_of enc_size trickle ml k bs : 0 < k -> min_links trickle <= ml ->
  let r := importer trickle ml k bs in
  let stream := stream_of cid_of enc_size (layout_emission r) in
  strict stream /\ link_closed stream /\ In (cid_of (layout_tree r)) (cids_of stream) /\
  (injective_on (postorder (layout_tree r)) cid_of -> sizes_by_cid stream).
Proof. intros Hk Hml. cbv zeta. destruct (importer_emission_l trickle ml k bs Hk Hml) as (-> & _). cbv zeta.
  apply stream_contract. Qed.

(* a function without collision on a list, decided by evaluation (for the non-vacuity example of Props/C13.v) *)
Lemma nodup_injective_on (f : tree -> N) l : nodupb (map f l) = true -> injective_on l f.
Proof.
  induction l as [|x r IH]; intros H a b Ha Hb E; [destruct Ha|].
  cbn [map nodupb] in H. apply andb_true_iff in H as [H1 H2]. apply negb_true_iff in H1.
  assert (Hnot : forall y, In y r -> f y <> f x).
  { intros y Hy K. assert (memN (f x) (map f r) = true); [|congruence].
    unfold memN. apply existsb_exists. exists (f y). split; [apply in_map; exact Hy|apply N.eqb_eq; congruence]. }
  destruct Ha as [<-|Ha], Hb as [<-|Hb].
  - reflexivity.
  - exfalso. apply (Hnot b Hb). congruence.
  - exfalso. apply (Hnot a Ha). congruence.
  - apply (IH H2 a b Ha Hb E).
Qed.
