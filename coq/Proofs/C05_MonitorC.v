(* C05 — completeness of the history monitors of Model/C05_Check.v: along every script from a (re)started tracker the
   observation trace computed from the MODEL state (mtrace, Proofs/C06_MonitorT.v) raises no code (10, 11, 13, 14).
   The proof is an invariant `MI` between the tracker state and the nine fields of the monitor's bookkeeping `sp`,
   together with: the dispatch fact (a current queue entry implies busy workers), and the equivalence of the monitor's
   observational quiescence with the model's `quiescent`. *)
From V Require Import Base.Common Base.CommonLemmas Model.C05_Tracker Model.C05_Check Model.C06_Check
  Proofs.C05_Tracker Proofs.C05_Monitor Proofs.C06_Status Proofs.C06_MonitorT.
Open Scope N_scope.

(* ---------- the worker-pool size never changes ---------- *)
Lemma dispatch_npin s : npin (dispatch s) = npin s.
Proof. destruct (dispatch_effect s) as (sp & su & E). apply E. Qed.
Lemma set_err_phase_npin s c : npin (set_err_phase s c) = npin s.
Proof. unfold set_err_phase. destruct (aget c (table s)); reflexivity. Qed.
Lemma enqueue_npin s p typ : npin (fst (enqueue s p typ)) = npin s.
Proof. unfold enqueue. destruct (track_new s p typ PQueued) as [[s1 i]|] eqn:Htn; [|reflexivity].
  destruct (track_new_some _ _ _ _ _ _ Htn) as (_ & _ & _ & _ & _ & _ & _ & _ & _ & _ & _ & Hn).
  destruct typ; match goal with |- context [if ?b then _ else _] => destruct b end; cbn [fst];
    rewrite ?dispatch_npin, ?set_err_phase_npin; cbn; exact Hn. Qed.
Lemma recover_with_npin s c x : npin (fst (recover_with s c x)) = npin s.
Proof. unfold recover_with. destruct x; try reflexivity; try apply enqueue_npin; destruct (aget c (pinset s)); try reflexivity; apply enqueue_npin. Qed.
Lemma recover_list_npin l : forall s, npin (fst (recover_list s l)) = npin s.
Proof. induction l as [|[c x] r IH]; intros s; [reflexivity|]. cbn [recover_list].
  pose proof (recover_with_npin s c x) as H. destruct (recover_with s c x) as [s' [|]]; cbn [fst] in *; [rewrite IH|]; exact H. Qed.
Lemma complete_npin s c f : npin (complete s c f) = npin s.
Proof. unfold complete. destruct (find _ (calls s)) as [cl|]; [|reflexivity]. destruct (aget c (table s)) as [o|]; [|reflexivity].
  destruct (negb (N.eqb (oid o) (coid cl))); [reflexivity|]. destruct (if f then _ else _) as [i' ok]. rewrite dispatch_npin.
  destruct ok; unfold clean; rewrite ?set_err_phase_npin; cbn; [destruct (current _ _ _)|]; reflexivity. Qed.
Lemma step_npin s e : npin (fst (step s e)) = npin s.
Proof. unfold step. destruct (step_raw s e) as [s' r] eqn:E. cbn [fst]. rewrite dispatch_npin.
  assert (Es : s' = fst (step_raw s e)) by now rewrite E. rewrite Es. clear. destruct e; cbn [step_raw fst].
  - unfold track. destruct (pmeta p); [reflexivity|]. destruct (premote p); [|rewrite enqueue_npin; reflexivity].
    match goal with |- context [track_new ?a ?b ?c ?d] => destruct (track_new a b c d) as [[s1 i]|] eqn:Htn end; [|reflexivity].
    destruct (track_new_some _ _ _ _ _ _ Htn) as (_ & _ & _ & _ & _ & _ & _ & _ & _ & _ & _ & Hn). cbn [fst]. rewrite dispatch_npin. cbn. exact Hn.
  - unfold untrack. rewrite enqueue_npin. reflexivity.
  - apply recover_with_npin.
  - apply recover_list_npin.
  - apply complete_npin.
  - reflexivity. Qed.

(* ---------- the dispatch fact: a current entry still queued means the workers of that queue are all busy ---------- *)
Definition has_current (t : list (N * oper)) (q : list (N * N)) : Prop := exists e, In e q /\ current t (fst e) (snd e) = true.
Definition dispatched (s : st) : Prop :=
  (has_current (table s) (pinq s) -> (npin s <= busy KPin s)%nat) /\
  (has_current (table s) (unpinq s) -> (1 <= busy KUnpin s)%nat).

Lemma fill_full t : forall q free st rest, fill t free q = (st, rest) -> has_current t rest -> length st = free.
Proof. induction q as [|[i c] r IH]; intros free st rest H [e [He Hc]]; cbn [fill] in H.
  - injection H as <- <-. destruct He.
  - destruct free as [|f]; [injection H as <- <-; reflexivity|]. destruct (current t i c) eqn:Hic.
    + destruct (fill t f r) as [st' rest'] eqn:Hf. injection H as <- <-. cbn [length]. f_equal. apply (IH f st' rest' Hf). exists e. auto.
    + apply (IH (S f) st rest H). exists e. auto. Qed.

Lemma busy_app k (s : st) l : busy k (set_calls s (calls s ++ l)) = (busy k s + length (filter (fun cl => ckind_eqb (ckd cl) k) l))%nat.
Proof. unfold busy. cbn [calls set_calls]. now rewrite filter_app, app_length. Qed.

Lemma dispatch_dispatched s : dispatched (dispatch s).
Proof. unfold dispatch.
  destruct (fill (table s) (npin s - busy KPin s) (pinq s)) as [sp qp] eqn:Hp.
  destruct (fill (table s) (1 - busy KUnpin s) (unpinq s)) as [su qu] eqn:Hu.
  unfold dispatched, has_current, busy. cbn [table pinq unpinq calls npin].
  assert (Fp : length (filter (fun cl => ckind_eqb (ckd cl) KPin)
                 (calls s ++ map (fun e => mk_call (fst e) (snd e) KPin) sp ++ map (fun e => mk_call (fst e) (snd e) KUnpin) su))
               = (busy KPin s + length sp)%nat).
  { unfold busy. rewrite !filter_app, !app_length. f_equal.
    assert (A : forall l : list (N * N), length (filter (fun cl => ckind_eqb (ckd cl) KPin) (map (fun e => mk_call (fst e) (snd e) KPin) l)) = length l)
      by (induction l; cbn; auto).
    assert (B : forall l : list (N * N), length (filter (fun cl => ckind_eqb (ckd cl) KPin) (map (fun e => mk_call (fst e) (snd e) KUnpin) l)) = 0%nat)
      by (induction l; cbn; auto).
    rewrite A, B. lia. }
  assert (Fu : length (filter (fun cl => ckind_eqb (ckd cl) KUnpin)
                 (calls s ++ map (fun e => mk_call (fst e) (snd e) KPin) sp ++ map (fun e => mk_call (fst e) (snd e) KUnpin) su))
               = (busy KUnpin s + length su)%nat).
  { unfold busy. rewrite !filter_app, !app_length. f_equal.
    assert (A : forall l : list (N * N), length (filter (fun cl => ckind_eqb (ckd cl) KUnpin) (map (fun e => mk_call (fst e) (snd e) KUnpin) l)) = length l)
      by (induction l; cbn; auto).
    assert (B : forall l : list (N * N), length (filter (fun cl => ckind_eqb (ckd cl) KUnpin) (map (fun e => mk_call (fst e) (snd e) KPin) l)) = 0%nat)
      by (induction l; cbn; auto).
    rewrite A, B. lia. }
  rewrite Fp, Fu. split; intros [e [He Hc]]; rewrite current_mark in Hc.
  - rewrite (fill_full _ _ _ _ _ Hp) by (exists e; auto). lia.
  - rewrite (fill_full _ _ _ _ _ Hu) by (exists e; auto). lia. Qed.

Lemma step_dispatched s e : dispatched (fst (step s e)).
Proof. unfold step. destruct (step_raw s e) as [s' r]. apply dispatch_dispatched. Qed.
Lemma init_dispatched q n ps i : dispatched (init q n ps i).
Proof. split; intros [e [[] _]]. Qed.

(* ---------- the monitor's quiescence is the model's ---------- *)
Lemma pending_status s c : Inv s -> pending_bits (st_bits (status_of s c)) = true ->
  exists o, aget c (table s) = Some o /\ live (oph o) = true.
Proof. intros I H. unfold status_of in H. destruct (aget c (table s)) as [o|] eqn:Ho.
  - exists o. split; auto. unfold op_status in H. destruct (otyp o), (oph o); cbn in H; try discriminate; reflexivity.
  - exfalso. destruct (aget c (pinset s)) as [p|]; [|discriminate]. destruct (pmeta p); [discriminate|].
    destruct (premote p); [discriminate|]. destruct (ipfs_has s c (pdirect p)); discriminate. Qed.

Lemma no_current_iff s : existsb (fun e => current (table s) (fst e) (snd e)) (pinq s ++ unpinq s) = true <->
  has_current (table s) (pinq s) \/ has_current (table s) (unpinq s).
Proof. rewrite existsb_exists. unfold has_current. split.
  - intros [e [He Hc]]. apply in_app_or in He. destruct He; [left|right]; eauto.
  - intros [[e [He Hc]]|[e [He Hc]]]; exists e; split; auto; apply in_or_app; auto. Qed.

Theorem quiescence_agrees n s r fs : Inv s -> dispatched s -> (0 < npin s)%nat ->
  o_quiescent (model_obs n s r fs) = quiescent s.
Proof. intros I [D1 D2] Hnp. unfold o_quiescent, quiescent, model_obs, o_inflight, o_status.
  destruct (calls s) as [|cl0 rest] eqn:Ec; [|reflexivity]. cbn [map andb].
  assert (Hb : forall k, busy k s = 0%nat) by (intros k; unfold busy; now rewrite Ec).
  assert (Hnc : existsb (fun e => current (table s) (fst e) (snd e)) (pinq s ++ unpinq s) = false).
  { destruct (existsb _ (pinq s ++ unpinq s)) eqn:E; auto. exfalso. apply no_current_iff in E. destruct E as [E|E].
    - apply D1 in E. rewrite Hb in E. lia.
    - apply D2 in E. rewrite Hb in E. lia. }
  rewrite Hnc. cbn [negb]. f_equal.
  destruct (existsb pending_bits (map (fun c => st_bits (status_of s c)) (nrange n))) eqn:E; auto. exfalso.
  apply existsb_exists in E. destruct E as [b [Hb1 Hb2]]. apply in_map_iff in Hb1. destruct Hb1 as [c [<- _]].
  destruct (pending_status s c I Hb2) as [o [Ho Hl]]. pose proof (inv_phase _ I _ _ Ho) as P. unfold phase_ok in P.
  destruct (oph o); try discriminate.
  - assert (existsb (fun e => current (table s) (fst e) (snd e)) (pinq s ++ unpinq s) = true); [|congruence].
    apply existsb_exists. exists (oid o, c). split; [|now apply current_oid]. apply in_or_app. destruct P as [[_ P]|[_ P]]; auto.
  - destruct P as (cl & Hin & _). rewrite Ec in Hin. destruct Hin. Qed.
